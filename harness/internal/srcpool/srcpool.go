// Package srcpool drives the REAL isaac.SyncSourcePool (one goroutine) with exhaustive short and seeded random call
// sequences over a world of 3 node addresses x 2 conninfos and records one event per call with its reply, followed by
// an "Obs" event with every read-only query (binding B; judged by spec/SyncSourcePoolTrace.tla). Sources are real
// isaacnetwork.NodeConnInfo values; problem errors are isaac.ErrRetrySyncSources / a wrapped *net.DNSError, harmless
// ones errors.New.
package srcpool

import (
	"encoding/json"
	"fmt"
	"math/rand"
	"net"
	"os"
	"strconv"
	"time"

	"github.com/pkg/errors"
	"github.com/spikeekips/mitum/base"
	"github.com/spikeekips/mitum/isaac"
	isaacnetwork "github.com/spikeekips/mitum/isaac/network"

	"mitumverif/internal/h"
)

func init() { h.Register("SRCPOOL", run) }

type Src [2]string // node, conn

type Ev map[string]interface{}

var (
	nodeNames = []string{"n1", "n2", "n3"}
	connNames = []string{"a", "b"}
	world     []Src
	ncis      = map[Src]isaac.NodeConnInfo{}
	addrs     = map[string]base.Address{}
	byID      = map[string]Src{}
)

func setup() {
	port := 4001
	for _, n := range nodeNames {
		addr := base.NewStringAddress(n)
		addrs[n] = addr
		for _, c := range connNames {
			// every source its own node value (own key): only address + conninfo make the id
			node := isaac.NewNode(base.NewMPrivatekey().Publickey(), addr)
			nci := isaacnetwork.MustNodeConnInfo(node, "127.0.0.1:"+strconv.Itoa(port), true)
			port++
			s := Src{n, c}
			world = append(world, s)
			ncis[s] = nci
			byID[nci.Address().String()+"-"+nci.String()] = s
		}
	}
}

func srcOf(nci isaac.NodeConnInfo) Src {
	if nci == nil {
		return Src{"", ""}
	}
	s, ok := byID[nci.Address().String()+"-"+nci.String()]
	if !ok {
		return Src{"?", nci.String()}
	}
	return s
}

func srcsOf(l []isaac.NodeConnInfo) []Src {
	out := make([]Src, len(l))
	for i := range l {
		out[i] = srcOf(l[i])
	}
	return out
}

func toNcis(l []Src) []isaac.NodeConnInfo {
	out := make([]isaac.NodeConnInfo, len(l))
	for i := range l {
		out[i] = ncis[l[i]]
	}
	return out
}

func b2n(b bool) int {
	if b {
		return 1
	}
	return 0
}

func errName(err error) string {
	switch {
	case err == nil:
		return ""
	case errors.Is(err, isaac.ErrEmptySyncSources):
		return "empty"
	case err.Error() == "zero":
		return "zero"
	default:
		return "other:" + err.Error()
	}
}

// run of one sequence on a fresh pool
type runner struct {
	out     *h.Out
	pool    *isaac.SyncSourcePool
	handles []func(error)
	nprob   int
	lastObs string
}

// obs logs every read-only query. After a call that by contract changes nothing observable (Pick, PickMultiple, a
// harmless / nil report) an observation identical to the one logged before is left out (it would be judged exactly
// as the one before); a different one is logged and judged.
func (r *runner) obs(pure bool) {
	e := Ev{"a": "Obs", "len": r.pool.Len()}
	trav := []Src{}
	r.pool.Traverse(func(n isaac.NodeConnInfo) bool { trav = append(trav, srcOf(n)); return true })
	act := []Src{}
	r.pool.Actives(func(n isaac.NodeConnInfo) bool { act = append(act, srcOf(n)); return true })
	e["trav"], e["act"] = trav, act
	ex, inf, innf, nci := map[string]int{}, map[string]int{}, map[string]int{}, map[string][]Src{}
	for _, n := range nodeNames {
		ex[n] = b2n(r.pool.NodeExists(addrs[n]))
		inf[n] = b2n(r.pool.IsInFixed(addrs[n]))
		innf[n] = b2n(r.pool.IsInNonFixed(addrs[n]))
		nci[n] = srcsOf(r.pool.NodeConnInfo(addrs[n]))
	}
	e["ex"], e["inf"], e["innf"], e["nci"] = ex, inf, innf, nci
	b, _ := json.Marshal(e)
	if pure && string(b) == r.lastObs {
		return
	}
	r.lastObs = string(b)
	r.out.Emit(e)
}

func getSrcs(v interface{}) []Src {
	b, _ := json.Marshal(v)
	var l []Src
	if err := json.Unmarshal(b, &l); err != nil {
		panic(err)
	}
	return l
}

func getInt(v interface{}) int {
	switch t := v.(type) {
	case int:
		return t
	case float64:
		return int(t)
	}
	panic(fmt.Sprintf("not an int: %v", v))
}

// apply performs the call described by e (arguments only) on the real pool, fills in the reply, logs it and the
// observation after it.
func (r *runner) apply(e Ev) {
	switch e["a"] {
	case "Reset":
		r.pool = isaac.NewSyncSourcePool(toNcis(getSrcs(e["q"])))
		r.handles = nil
	case "UpdateFixed":
		e["r"] = b2n(r.pool.UpdateFixed(toNcis(getSrcs(e["q"]))))
	case "AddNonFixed":
		e["r"] = b2n(r.pool.AddNonFixed(toNcis(getSrcs(e["S"]))...))
	case "RemoveNonFixed":
		e["r"] = b2n(r.pool.RemoveNonFixed(ncis[getSrcs([]interface{}{e["s"]})[0]]))
	case "RemoveNonFixedNode":
		e["r"] = b2n(r.pool.RemoveNonFixedNode(addrs[e["n"].(string)]))
	case "Pick":
		nci, report, err := r.pool.Pick()
		e["err"], e["s"] = errName(err), srcOf(nci)
		if err == nil {
			r.handles = append(r.handles, report)
		}
	case "PickMultiple":
		l, reports, err := r.pool.PickMultiple(getInt(e["n"]))
		e["err"], e["q"], e["nh"] = errName(err), srcsOf(l), len(reports)
		for i := range l {
			if i < len(reports) {
				r.handles = append(r.handles, reports[i])
			} else {
				r.handles = append(r.handles, func(error) {})
			}
		}
	case "Report":
		f := r.handles[getInt(e["h"])-1]
		switch e["e"] {
		case "problem":
			r.nprob++
			if r.nprob%2 == 0 {
				f(isaac.ErrRetrySyncSources.Errorf("verif"))
			} else {
				f(errors.WithStack(&net.DNSError{Err: "verif", Name: "x"}))
			}
		case "harmless":
			f(errors.New("harmless"))
		default:
			f(nil)
		}
	case "Expire":
		time.Sleep(3200 * time.Millisecond)
	default:
		panic(fmt.Sprintf("unknown event %v", e["a"]))
	}
	r.out.Emit(e)
	r.obs(e["a"] == "Pick" || e["a"] == "PickMultiple" || (e["a"] == "Report" && e["e"] != "problem"))
}

// ---------------------------------------------------------------- generators (arguments only)

func seqOf(idx ...int) []Src {
	out := make([]Src, len(idx))
	for i, k := range idx {
		out[i] = world[k]
	}
	return out
}

// world: 0 n1a 1 n1b 2 n2a 3 n2b 4 n3a 5 n3b
type gen func(r *runner) Ev // nil: not applicable now

func alphabet() []gen {
	rep := func(which string, kind string) gen {
		return func(r *runner) Ev {
			if len(r.handles) == 0 {
				return nil
			}
			k := len(r.handles)
			if which == "first" {
				k = 1
			}
			return Ev{"a": "Report", "h": k, "e": kind}
		}
	}
	c := func(e Ev) gen {
		return func(*runner) Ev {
			n := Ev{}
			for k, v := range e {
				n[k] = v
			}
			return n
		}
	}
	return []gen{
		c(Ev{"a": "Pick"}),
		c(Ev{"a": "PickMultiple", "n": 0}),
		c(Ev{"a": "PickMultiple", "n": 1}),
		c(Ev{"a": "PickMultiple", "n": 2}),
		c(Ev{"a": "PickMultiple", "n": 3}),
		rep("last", "problem"), rep("first", "problem"), rep("last", "harmless"), rep("last", "nil"),
		c(Ev{"a": "UpdateFixed", "q": seqOf(2, 0)}),
		c(Ev{"a": "UpdateFixed", "q": seqOf(1)}),
		c(Ev{"a": "UpdateFixed", "q": seqOf()}),
		c(Ev{"a": "AddNonFixed", "S": seqOf(1, 3)}),
		c(Ev{"a": "AddNonFixed", "S": seqOf(0, 4)}),
		c(Ev{"a": "RemoveNonFixed", "s": world[1]}),
		c(Ev{"a": "RemoveNonFixedNode", "n": "n2"}),
	}
}

type start struct {
	fixed []Src
	non   []Src
}

func starts() []start {
	return []start{
		{seqOf(), seqOf()},
		{seqOf(), seqOf(1)},
		{seqOf(), seqOf(1, 3)},
		{seqOf(), seqOf(1, 3, 4)},
		{seqOf(0), seqOf()},
		{seqOf(0), seqOf(1, 3)},
		{seqOf(0, 2), seqOf(1)},
		{seqOf(0, 2), seqOf(1, 3, 4)},
		{seqOf(2, 0, 5), seqOf(3, 4)},
	}
}

func (r *runner) begin(s start) {
	r.apply(Ev{"a": "Reset", "q": s.fixed})
	if len(s.non) > 0 {
		r.apply(Ev{"a": "AddNonFixed", "S": s.non})
	}
}

func smallAlphabet() []gen {
	al := alphabet()
	return []gen{al[0], al[3], al[4], al[5], al[6], al[9], al[12], al[14]}
}

func exhaustive(out *h.Out, depth int, al []gen, sts []start) int {
	n := 0
	idx := make([]int, depth)
	for _, s := range sts {
		for i := range idx {
			idx[i] = 0
		}
		for {
			r := &runner{out: out}
			r.begin(s)
			for _, k := range idx {
				if e := al[k](r); e != nil {
					r.apply(e)
				}
			}
			n++
			// next
			i := depth - 1
			for ; i >= 0; i-- {
				idx[i]++
				if idx[i] < len(al) {
					break
				}
				idx[i] = 0
			}
			if i < 0 {
				break
			}
		}
	}
	return n
}

func randSrcs(rng *rand.Rand, min, max int) []Src {
	k := min + rng.Intn(max-min+1)
	p := rng.Perm(len(world))[:k]
	return seqOf(p...)
}

func random(out *h.Out, rng *rand.Rand, num, length int) int {
	for i := 0; i < num; i++ {
		r := &runner{out: out}
		r.apply(Ev{"a": "Reset", "q": randSrcs(rng, 0, 3)})
		for j := 0; j < length; j++ {
			var e Ev
			switch x := rng.Intn(100); {
			case x < 8:
				e = Ev{"a": "UpdateFixed", "q": randSrcs(rng, 0, 3)}
			case x < 28:
				e = Ev{"a": "AddNonFixed", "S": randSrcs(rng, 1, 4)}
			case x < 35:
				e = Ev{"a": "RemoveNonFixed", "s": world[rng.Intn(len(world))]}
			case x < 40:
				e = Ev{"a": "RemoveNonFixedNode", "n": nodeNames[rng.Intn(len(nodeNames))]}
			case x < 52:
				e = Ev{"a": "Pick"}
			case x < 72:
				e = Ev{"a": "PickMultiple", "n": rng.Intn(7)}
			default:
				if len(r.handles) == 0 {
					e = Ev{"a": "PickMultiple", "n": 1 + rng.Intn(6)}
					break
				}
				kind := []string{"problem", "problem", "problem", "harmless", "nil"}[rng.Intn(5)]
				e = Ev{"a": "Report", "h": 1 + rng.Intn(len(r.handles)), "e": kind}
			}
			r.apply(e)
		}
	}
	return num
}

// the TTL: problems reported, the driver sleeps longer than renewTimeout (3 s), the sources are back
func expiry(out *h.Out) int {
	r := &runner{out: out}
	r.begin(start{seqOf(0, 2), seqOf(1, 3)})
	r.apply(Ev{"a": "PickMultiple", "n": 4})
	for k := 1; k <= len(r.handles) && k <= 3; k++ {
		r.apply(Ev{"a": "Report", "h": k, "e": "problem"})
	}
	r.apply(Ev{"a": "Pick"})
	r.apply(Ev{"a": "Expire"})
	r.apply(Ev{"a": "Pick"})
	r.apply(Ev{"a": "PickMultiple", "n": 4})
	return 1
}

func run(args []string) error {
	if len(args) < 1 {
		return errors.Errorf("usage: SRCPOOL batch|one ...")
	}
	fl := h.Flags(args[1:])
	setup()
	out, err := h.NewOut(fl["out"])
	if err != nil {
		return err
	}
	switch args[0] {
	case "batch":
		seed, _ := strconv.ParseInt(fl["seed"], 10, 64)
		rng := rand.New(rand.NewSource(seed))
		var n int
		if fl["tier"] == "thorough" {
			n += exhaustive(out, 2, alphabet(), starts())
			n += exhaustive(out, 3, smallAlphabet(), starts())
			n += random(out, rng, 1500, 16)
			n += expiry(out)
		} else {
			n += exhaustive(out, 2, alphabet(), starts()[3:])
			n += random(out, rng, 250, 10)
			if fl["expire"] == "1" {
				n += expiry(out)
			}
		}
		fmt.Fprintf(os.Stderr, "sequences=%d events=%d\n", n, out.N)
	case "one":
		// re-run the calls of a recorded sequence (arguments only; replies are recomputed)
		b, err := os.ReadFile(fl["in"])
		if err != nil {
			return err
		}
		var evs []Ev
		if err := json.Unmarshal(b, &evs); err != nil {
			return err
		}
		r := &runner{out: out}
		for _, e := range evs {
			if e["a"] == "Obs" {
				continue
			}
			if e["a"] == "Report" && getInt(e["h"]) > len(r.handles) {
				continue
			}
			for _, k := range []string{"r", "err", "nh"} {
				delete(e, k)
			}
			if e["a"] == "Pick" {
				delete(e, "s")
			}
			if e["a"] == "PickMultiple" {
				delete(e, "q")
			}
			r.apply(e)
		}
	default:
		return errors.Errorf("unknown mode %s", args[0])
	}
	return out.Close()
}
