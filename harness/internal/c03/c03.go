// Package c03 builds, for every candidate of spec/Agreement.tla ("cands" mode: every candidate of a
// small suffrage; "orbits" mode: the candidates of a larger suffrage up to a renaming of the nodes,
// in the placement with the fewest common signers - same record format, any n), the real, really
// signed voteproof object (INIT/ACCEPT, plain / expel / stuck, with the structural mutation the
// candidate names) and reports the verdicts of the two real validators:
// vp.IsValid(networkID) and isaac.IsValidVoteproofWithSuffrage(vp, suffrage)   (binding A).
//
// "history" replays the validation histories of the spec: the voteproofs of one history are handed, in
// the model's order, to the validators of THIS process (whatever state the validators keep lives as long
// as the process); every history has its own stage points, facts and freshly made signatures, so that
// histories do not interfere. The signature-transplant mutations (tp-*) build sign facts that carry a
// signature the node really made - for another fact, for another stage point, or made by another node -
// spliced through the JSON codec like a sign fact received from the network.
package c03

import (
	"encoding/json"
	"fmt"
	"runtime"
	"sync"
	"sync/atomic"

	"github.com/spikeekips/mitum/base"
	"github.com/spikeekips/mitum/isaac"
	"github.com/spikeekips/mitum/util"
	"github.com/spikeekips/mitum/util/encoder"
	jsonenc "github.com/spikeekips/mitum/util/encoder/json"
	"github.com/spikeekips/mitum/util/valuehash"

	"mitumverif/internal/h"
)

func init() { h.Register("C03", run) }

type cand struct {
	N       int      `json:"n"`
	T10     int      `json:"t10"`
	Votes   []string `json:"votes"`
	Ex      []int    `json:"ex"`
	Signers [][]int  `json:"signers"`
	Kind    string   `json:"kind"`
	Claim   string   `json:"claim"`
	Mut     string   `json:"mut"`
	Stage   string   `json:"stage"`
	Pt      int      `json:"pt"` // 0: the stage point; 1: another stage point (next round)
}

type history struct {
	N    int    `json:"n"`
	T10  int    `json:"t10"`
	Hist []cand `json:"hist"`
}

type histResult struct {
	I     int      `json:"i"`
	Steps []result `json:"steps"`
}

type result struct {
	I        int    `json:"i"`
	Valid    bool   `json:"valid"` // vp.IsValid(networkID) == nil
	VErr     string `json:"verr,omitempty"`
	Suf      bool   `json:"suf"` // isaac.IsValidVoteproofWithSuffrage == nil
	SErr     string `json:"serr,omitempty"`
	Accepted bool   `json:"accepted"`
	Result   string `json:"result"` // vp.Result()
	NSF      int    `json:"nsf"`    // number of sign facts in the object
	NEX      int    `json:"nex"`    // number of expel operations in the object
	Panic    string `json:"panic,omitempty"`
}

var (
	netID    = base.NetworkID([]byte("c03-network"))
	otherNet = base.NetworkID([]byte("c03-other-network"))
	height   = int64(33)
	enc      *jsonenc.Encoder
	nextH    atomic.Int64 // heights of the forked worlds
)

func setupEncoder() error {
	enc = jsonenc.NewEncoder()
	for _, d := range []encoder.DecodeDetail{
		{Hint: base.StringAddressHint, Instance: base.StringAddress{}},
		{Hint: base.MPublickeyHint, Instance: &base.MPublickey{}},
		{Hint: isaac.INITBallotFactHint, Instance: isaac.INITBallotFact{}},
		{Hint: isaac.ACCEPTBallotFactHint, Instance: isaac.ACCEPTBallotFact{}},
		{Hint: isaac.INITBallotSignFactHint, Instance: isaac.INITBallotSignFact{}},
		{Hint: isaac.ACCEPTBallotSignFactHint, Instance: isaac.ACCEPTBallotSignFact{}},
	} {
		if err := enc.Add(d); err != nil {
			return err
		}
	}
	return nil
}

// world: one suffrage of n real nodes plus an outsider and a foreign key; facts A, B, C per stage.
type world struct {
	n        int
	suf      isaac.Suffrage
	nodes    []base.LocalNode // 0-based: model node i+1
	outsider base.LocalNode
	foreign  base.Privatekey
	height   int64
	points   [2]base.Point // [0] the stage point, [1] another stage point
	initF    [2]map[string]base.INITBallotFact
	accF     [2]map[string]base.ACCEPTBallotFact

	mu  sync.Mutex
	sfs map[string]base.BallotSignFact
	ops map[string]base.SuffrageExpelOperation
}

func newWorld(n int) (*world, error) {
	suf, locals := isaac.NewTestSuffrage(n)
	w := &world{n: n, suf: suf, nodes: locals, outsider: base.RandomLocalNode(), foreign: base.NewMPrivatekey()}
	w.reset(height)
	return w, nil
}

// reset: new stage points, new facts, no signature made yet
func (w *world) reset(h int64) {
	w.height = h
	w.sfs = map[string]base.BallotSignFact{}
	w.ops = map[string]base.SuffrageExpelOperation{}
	for pt := 0; pt < 2; pt++ {
		w.points[pt] = base.RawPoint(h, uint64(pt))
		w.initF[pt] = map[string]base.INITBallotFact{}
		w.accF[pt] = map[string]base.ACCEPTBallotFact{}
		for _, f := range []string{"A", "B", "C"} {
			w.initF[pt][f] = isaac.NewINITBallotFact(w.points[pt], valuehash.RandomSHA256(), valuehash.RandomSHA256(), nil)
			w.accF[pt][f] = isaac.NewACCEPTBallotFact(w.points[pt], valuehash.RandomSHA256(), valuehash.RandomSHA256(), nil)
		}
	}
}

// fork: the same suffrage and keys, its own stage points (height), facts and signatures
func (w *world) fork() *world {
	f := &world{n: w.n, suf: w.suf, nodes: w.nodes, outsider: w.outsider, foreign: w.foreign}
	f.reset(1000 + nextH.Add(1))
	return f
}

func (w *world) fact(stage string, pt int, f string) base.BallotFact {
	if stage == "INIT" {
		return w.initF[pt][f]
	}
	return w.accF[pt][f]
}

func other(f string) string {
	if f == "A" {
		return "B"
	}
	return "A"
}

// splice: a sign fact of `fact` that carries the node sign `sign`, made the way a received one is: by the JSON codec
func splice(stage string, fact base.BallotFact, sign base.NodeSign) base.BallotSignFact {
	ht := isaac.INITBallotSignFactHint
	if stage != "INIT" {
		ht = isaac.ACCEPTBallotSignFactHint
	}
	bf, err := enc.Marshal(fact)
	if err != nil {
		panic(err)
	}
	bs, err := enc.Marshal(sign)
	if err != nil {
		panic(err)
	}
	b, err := enc.Marshal(map[string]interface{}{"_hint": ht.String(), "fact": json.RawMessage(bf), "sign": json.RawMessage(bs)})
	if err != nil {
		panic(err)
	}
	i, err := enc.Decode(b)
	if err != nil {
		panic(fmt.Sprintf("splice: decode: %+v", err))
	}
	sf, ok := i.(base.BallotSignFact)
	if !ok {
		panic(fmt.Sprintf("splice: decoded %T", i))
	}
	return sf
}

// transplanted: the sign fact of `node` for (stage, pt, fact) whose signature was really made, but for something else
//
//	tp-fact   by node, for the other fact of the same stage point
//	tp-point  by node, for the other fact of the other stage point
//	tp-node   by donor (or, without a donor, by a node outside the suffrage) for this very fact; the sign names node and node's key
func (w *world) transplanted(stage string, pt int, node base.LocalNode, fact, how string, donor base.LocalNode) base.BallotSignFact {
	target := w.fact(stage, pt, fact)
	switch how {
	case "tp-fact":
		src := w.signFact(stage, pt, node, other(fact), "")
		return splice(stage, target, src.NodeSigns()[0])
	case "tp-point":
		src := w.signFact(stage, 1-pt, node, other(fact), "")
		return splice(stage, target, src.NodeSigns()[0])
	case "tp-node":
		var src base.NodeSign
		if donor == nil {
			donor = w.outsider
		}
		src = w.signFact(stage, pt, donor, fact, "").NodeSigns()[0]
		return splice(stage, target, base.NewBaseNodeSign(node.Address(), node.Publickey(), src.Signature(), src.SignedAt()))
	}
	panic("unknown transplant " + how)
}

// signFact: stage, signer (address + key), fact; variant "" | "wrongkey" | "badsig" | "second" (another object)
func (w *world) signFact(stage string, pt int, node base.LocalNode, fact, variant string) base.BallotSignFact {
	key := fmt.Sprintf("%s|%d|%s|%s|%s", stage, pt, node.Address().String(), fact, variant)
	w.mu.Lock()
	defer w.mu.Unlock()
	if sf, ok := w.sfs[key]; ok {
		return sf
	}
	priv := node.Privatekey()
	nid := netID
	switch variant {
	case "wrongkey":
		priv = w.foreign
	case "badsig":
		nid = otherNet
	}
	var out base.BallotSignFact
	if stage == "INIT" {
		sf := isaac.NewINITBallotSignFact(w.initF[pt][fact])
		if err := sf.NodeSign(priv, nid, node.Address()); err != nil {
			panic(err)
		}
		out = sf
	} else {
		sf := isaac.NewACCEPTBallotSignFact(w.accF[pt][fact])
		if err := sf.NodeSign(priv, nid, node.Address()); err != nil {
			panic(err)
		}
		out = sf
	}
	w.sfs[key] = out
	return out
}

// expelOp: expel of `target` signed by the model nodes in signers (1-based); variants as mutations.
func (w *world) expelOp(target base.Address, tkey string, signers []int, variant string) base.SuffrageExpelOperation {
	key := fmt.Sprintf("%s|%v|%s", tkey, signers, variant)
	w.mu.Lock()
	defer w.mu.Unlock()
	if op, ok := w.ops[key]; ok {
		return op
	}
	start, end := base.Height(w.height), base.Height(w.height+1)
	if variant == "expired" {
		start, end = base.Height(w.height-3), base.Height(w.height-2)
	}
	reason := "c03 " + variant + util.UUID().String()
	fact := isaac.NewSuffrageExpelFact(target, start, end, reason)
	op := isaac.NewSuffrageExpelOperation(fact)
	sign := func(priv base.Privatekey, addr base.Address) {
		if err := op.NodeSign(priv, netID, addr); err != nil {
			panic(err)
		}
	}
	for j, s := range signers {
		n := w.nodes[s-1]
		if variant == "expel-wrongkey-signer" && j == 0 {
			sign(w.foreign, n.Address())
			continue
		}
		sign(n.Privatekey(), n.Address())
	}
	if variant == "expel-unknown-signer" {
		sign(w.outsider.Privatekey(), w.outsider.Address())
	}
	if len(signers) == 0 {
		// only the target itself signs (its signature is never counted)
		if tkey == "x" {
			sign(w.outsider.Privatekey(), w.outsider.Address())
		} else {
			var t int
			fmt.Sscan(tkey, &t)
			sign(w.nodes[t-1].Privatekey(), w.nodes[t-1].Address())
		}
	}
	w.ops[key] = op
	return op
}

func (w *world) build(c cand) base.Voteproof {
	// sign facts
	var sfs []base.BallotSignFact
	var voters []int
	for i, v := range c.Votes {
		if v != "-" {
			voters = append(voters, i)
		}
	}
	first := -1
	for j, i := range voters {
		v := c.Votes[i]
		isFirst := first < 0
		if isFirst {
			first = i
		}
		switch {
		case isFirst && (c.Mut == "wrongkey" || c.Mut == "badsig"):
			sfs = append(sfs, w.signFact(c.Stage, c.Pt, w.nodes[i], v, c.Mut))
		case c.Mut == "tp-fact-all", c.Mut == "tp-fact-one" && isFirst:
			sfs = append(sfs, w.transplanted(c.Stage, c.Pt, w.nodes[i], v, "tp-fact", nil))
		case c.Mut == "tp-point-all", c.Mut == "tp-point-one" && isFirst:
			sfs = append(sfs, w.transplanted(c.Stage, c.Pt, w.nodes[i], v, "tp-point", nil))
		case c.Mut == "tp-node-one" && isFirst:
			var donor base.LocalNode
			if len(voters) > 1 {
				donor = w.nodes[voters[(j+1)%len(voters)]]
			}
			sfs = append(sfs, w.transplanted(c.Stage, c.Pt, w.nodes[i], v, "tp-node", donor))
		default:
			sfs = append(sfs, w.signFact(c.Stage, c.Pt, w.nodes[i], v, ""))
		}
	}
	claimFact := c.Claim
	if c.Claim == "DRAW" {
		claimFact = "A"
		if first >= 0 {
			claimFact = c.Votes[first]
		}
	}
	switch c.Mut {
	case "dup":
		sfs = append(sfs, w.signFact(c.Stage, c.Pt, w.nodes[first], claimFact, "second"))
	case "unknown-voter":
		sfs = append(sfs, w.signFact(c.Stage, c.Pt, w.outsider, claimFact, ""))
	}
	// expels
	var expels []base.SuffrageExpelOperation
	firstEx := true
	for i, e := range c.Ex {
		if e != 1 {
			continue
		}
		var signers []int
		for j, s := range c.Signers[i] {
			if s == 1 {
				signers = append(signers, j+1)
			}
		}
		target, tkey, variant := w.nodes[i].Address(), fmt.Sprint(i+1), ""
		if firstEx {
			switch c.Mut {
			case "expel-unknown-target":
				target, tkey = w.outsider.Address(), "x"
			case "expel-unknown-signer", "expel-wrongkey-signer":
				variant = c.Mut
			}
		}
		if c.Mut == "expired" {
			variant = "expired"
		}
		expels = append(expels, w.expelOp(target, tkey, signers, variant))
		if firstEx && c.Mut == "dup-expel" {
			expels = append(expels, w.expelOp(target, tkey, signers, "dup-expel"))
		}
		firstEx = false
	}
	th := base.Threshold(float64(c.T10) / 10)
	majority := func() base.BallotFact {
		f := c.Claim
		if c.Mut == "claim-missing" {
			f = "C"
		}
		if c.Claim == "DRAW" {
			return nil
		}
		return w.fact(c.Stage, c.Pt, f)
	}()
	pt := w.points[c.Pt]
	switch c.Stage + "/" + c.Kind {
	case "INIT/plain":
		vp := isaac.NewINITVoteproof(pt)
		if majority != nil {
			vp.SetMajority(majority)
		}
		vp.SetSignFacts(sfs).SetThreshold(th).Finish()
		return vp
	case "INIT/expel":
		vp := isaac.NewINITExpelVoteproof(pt)
		if majority != nil {
			vp.SetMajority(majority)
		}
		vp.SetSignFacts(sfs).SetThreshold(th)
		vp.SetExpels(expels)
		vp.Finish()
		return vp
	case "INIT/stuck":
		vp := isaac.NewINITStuckVoteproof(pt)
		vp.SetSignFacts(sfs)
		vp.SetExpels(expels)
		vp.Finish()
		return vp
	case "ACCEPT/plain":
		vp := isaac.NewACCEPTVoteproof(pt)
		if majority != nil {
			vp.SetMajority(majority)
		}
		vp.SetSignFacts(sfs).SetThreshold(th).Finish()
		return vp
	case "ACCEPT/expel":
		vp := isaac.NewACCEPTExpelVoteproof(pt)
		if majority != nil {
			vp.SetMajority(majority)
		}
		vp.SetSignFacts(sfs).SetThreshold(th)
		vp.SetExpels(expels)
		vp.Finish()
		return vp
	case "ACCEPT/stuck":
		vp := isaac.NewACCEPTStuckVoteproof(pt)
		vp.SetSignFacts(sfs)
		vp.SetExpels(expels)
		vp.Finish()
		return vp
	}
	panic("unknown kind " + c.Stage + "/" + c.Kind)
}

// validate builds the candidate in w and asks the two real validators
func validate(w *world, c cand, i int) result {
	res := result{I: i}
	res.Panic = h.Catch(func() {
		vp := w.build(c)
		res.Result = string(vp.Result())
		res.NSF = len(vp.SignFacts())
		if he, ok := vp.(base.HasExpels); ok {
			res.NEX = len(he.Expels())
		}
		if err := vp.IsValid(netID); err != nil {
			res.VErr = trim(err.Error())
		} else {
			res.Valid = true
		}
		if err := isaac.IsValidVoteproofWithSuffrage(vp, w.suf); err != nil {
			res.SErr = trim(err.Error())
		} else {
			res.Suf = true
		}
		res.Accepted = res.Valid && res.Suf
	})
	return res
}

func parallel(n int, f func(i int)) {
	var wg sync.WaitGroup
	ch := make(chan int, 1024)
	for g := 0; g < runtime.NumCPU(); g++ {
		wg.Add(1)
		go func() {
			defer wg.Done()
			for i := range ch {
				f(i)
			}
		}()
	}
	for i := 0; i < n; i++ {
		ch <- i
	}
	close(ch)
	wg.Wait()
}

func run(args []string) error {
	if len(args) < 1 || (args[0] != "replay" && args[0] != "history") {
		return fmt.Errorf("mode: replay --in cands --out verdicts | history --in histories --out verdicts")
	}
	if err := setupEncoder(); err != nil {
		return err
	}
	fl := h.Flags(args[1:])
	worlds := map[int]*world{}
	world := func(n int) error {
		if _, ok := worlds[n]; !ok {
			w, err := newWorld(n)
			if err != nil {
				return err
			}
			worlds[n] = w
		}
		return nil
	}
	out, err := h.NewOut(fl["out"])
	if err != nil {
		return err
	}
	defer out.Close()
	if args[0] == "history" {
		var hs []history
		if err := h.ReadNDJSON(fl["in"], func(line []byte) error {
			var x history
			if err := json.Unmarshal(line, &x); err != nil {
				return err
			}
			hs = append(hs, x)
			return world(x.N)
		}); err != nil {
			return err
		}
		results := make([]histResult, len(hs))
		// one process, one set of validators for all histories; inside a history strictly in the model's order
		parallel(len(hs), func(i int) {
			w := worlds[hs[i].N].fork()
			r := histResult{I: i + 1}
			for j, c := range hs[i].Hist {
				c.N, c.T10 = hs[i].N, hs[i].T10
				r.Steps = append(r.Steps, validate(w, c, j+1))
			}
			results[i] = r
		})
		for i := range results {
			out.Emit(results[i])
		}
		return nil
	}
	var cands []cand
	if err := h.ReadNDJSON(fl["in"], func(line []byte) error {
		var c cand
		if err := json.Unmarshal(line, &c); err != nil {
			return err
		}
		cands = append(cands, c)
		return world(c.N)
	}); err != nil {
		return err
	}
	results := make([]result, len(cands))
	parallel(len(cands), func(i int) { results[i] = validate(worlds[cands[i].N], cands[i], i+1) })
	for i := range results {
		out.Emit(results[i])
	}
	return nil
}

func trim(s string) string {
	if len(s) > 160 {
		return s[:160]
	}
	return s
}
