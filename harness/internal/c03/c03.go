// Package c03 builds, for every candidate of spec/Agreement.tla ("cands" mode: every candidate of a
// small suffrage; "orbits" mode: the candidates of a larger suffrage up to a renaming of the nodes,
// in the placement with the fewest common signers - same record format, any n), the real, really
// signed voteproof object (INIT/ACCEPT, plain / expel / stuck, with the structural mutation the
// candidate names) and reports the verdicts of the two real validators:
// vp.IsValid(networkID) and isaac.IsValidVoteproofWithSuffrage(vp, suffrage)   (binding A).
package c03

import (
	"encoding/json"
	"fmt"
	"runtime"
	"sync"

	"github.com/spikeekips/mitum/base"
	"github.com/spikeekips/mitum/isaac"
	"github.com/spikeekips/mitum/util"
	"github.com/spikeekips/mitum/util/valuehash"

	"mitumverif/internal/h"
)

func init() { h.Register("C03", run) }

type cand struct {
	N       int      `json:"n"`
	T10     int      `json:"t10"`
	Votes   []string `json:"votes"`
	Ex      []int    `json:"ex"`
	Signers [][]int  `json:"signers"`
	Kind    string   `json:"kind"`
	Claim   string   `json:"claim"`
	Mut     string   `json:"mut"`
	Stage   string   `json:"stage"`
}

type result struct {
	I        int    `json:"i"`
	Valid    bool   `json:"valid"` // vp.IsValid(networkID) == nil
	VErr     string `json:"verr,omitempty"`
	Suf      bool   `json:"suf"` // isaac.IsValidVoteproofWithSuffrage == nil
	SErr     string `json:"serr,omitempty"`
	Accepted bool   `json:"accepted"`
	Result   string `json:"result"` // vp.Result()
	NSF      int    `json:"nsf"`    // number of sign facts in the object
	NEX      int    `json:"nex"`    // number of expel operations in the object
	Panic    string `json:"panic,omitempty"`
}

var (
	netID    = base.NetworkID([]byte("c03-network"))
	otherNet = base.NetworkID([]byte("c03-other-network"))
	height   = int64(33)
)

// world: one suffrage of n real nodes plus an outsider and a foreign key; facts A, B, C per stage.
type world struct {
	n        int
	suf      isaac.Suffrage
	nodes    []base.LocalNode // 0-based: model node i+1
	outsider base.LocalNode
	foreign  base.Privatekey
	point    base.Point
	initF    map[string]base.INITBallotFact
	accF     map[string]base.ACCEPTBallotFact

	mu  sync.Mutex
	sfs map[string]base.BallotSignFact
	ops map[string]base.SuffrageExpelOperation
}

func newWorld(n int) (*world, error) {
	suf, locals := isaac.NewTestSuffrage(n)
	w := &world{n: n, suf: suf, nodes: locals, outsider: base.RandomLocalNode(), foreign: base.NewMPrivatekey(),
		point: base.RawPoint(height, 0), initF: map[string]base.INITBallotFact{}, accF: map[string]base.ACCEPTBallotFact{},
		sfs: map[string]base.BallotSignFact{}, ops: map[string]base.SuffrageExpelOperation{}}
	for _, f := range []string{"A", "B", "C"} {
		w.initF[f] = isaac.NewINITBallotFact(w.point, valuehash.RandomSHA256(), valuehash.RandomSHA256(), nil)
		w.accF[f] = isaac.NewACCEPTBallotFact(w.point, valuehash.RandomSHA256(), valuehash.RandomSHA256(), nil)
	}
	return w, nil
}

// signFact: stage, signer (address + key), fact; variant "" | "wrongkey" | "badsig" | "second" (another object)
func (w *world) signFact(stage string, node base.LocalNode, fact, variant string) base.BallotSignFact {
	key := stage + "|" + node.Address().String() + "|" + fact + "|" + variant
	w.mu.Lock()
	defer w.mu.Unlock()
	if sf, ok := w.sfs[key]; ok {
		return sf
	}
	priv := node.Privatekey()
	nid := netID
	switch variant {
	case "wrongkey":
		priv = w.foreign
	case "badsig":
		nid = otherNet
	}
	var out base.BallotSignFact
	if stage == "INIT" {
		sf := isaac.NewINITBallotSignFact(w.initF[fact])
		if err := sf.NodeSign(priv, nid, node.Address()); err != nil {
			panic(err)
		}
		out = sf
	} else {
		sf := isaac.NewACCEPTBallotSignFact(w.accF[fact])
		if err := sf.NodeSign(priv, nid, node.Address()); err != nil {
			panic(err)
		}
		out = sf
	}
	w.sfs[key] = out
	return out
}

// expelOp: expel of `target` signed by the model nodes in signers (1-based); variants as mutations.
func (w *world) expelOp(target base.Address, tkey string, signers []int, variant string) base.SuffrageExpelOperation {
	key := fmt.Sprintf("%s|%v|%s", tkey, signers, variant)
	w.mu.Lock()
	defer w.mu.Unlock()
	if op, ok := w.ops[key]; ok {
		return op
	}
	start, end := base.Height(height), base.Height(height+1)
	if variant == "expired" {
		start, end = base.Height(height-3), base.Height(height-2)
	}
	reason := "c03 " + variant + util.UUID().String()
	fact := isaac.NewSuffrageExpelFact(target, start, end, reason)
	op := isaac.NewSuffrageExpelOperation(fact)
	sign := func(priv base.Privatekey, addr base.Address) {
		if err := op.NodeSign(priv, netID, addr); err != nil {
			panic(err)
		}
	}
	for j, s := range signers {
		n := w.nodes[s-1]
		if variant == "expel-wrongkey-signer" && j == 0 {
			sign(w.foreign, n.Address())
			continue
		}
		sign(n.Privatekey(), n.Address())
	}
	if variant == "expel-unknown-signer" {
		sign(w.outsider.Privatekey(), w.outsider.Address())
	}
	if len(signers) == 0 {
		// only the target itself signs (its signature is never counted)
		if tkey == "x" {
			sign(w.outsider.Privatekey(), w.outsider.Address())
		} else {
			var t int
			fmt.Sscan(tkey, &t)
			sign(w.nodes[t-1].Privatekey(), w.nodes[t-1].Address())
		}
	}
	w.ops[key] = op
	return op
}

func (w *world) build(c cand) base.Voteproof {
	// sign facts
	var sfs []base.BallotSignFact
	first := -1
	for i, v := range c.Votes {
		if v == "-" {
			continue
		}
		variant := ""
		if first < 0 {
			first = i
			if c.Mut == "wrongkey" || c.Mut == "badsig" {
				variant = c.Mut
			}
		}
		sfs = append(sfs, w.signFact(c.Stage, w.nodes[i], v, variant))
	}
	claimFact := c.Claim
	if c.Claim == "DRAW" {
		claimFact = "A"
		if first >= 0 {
			claimFact = c.Votes[first]
		}
	}
	switch c.Mut {
	case "dup":
		sfs = append(sfs, w.signFact(c.Stage, w.nodes[first], claimFact, "second"))
	case "unknown-voter":
		sfs = append(sfs, w.signFact(c.Stage, w.outsider, claimFact, ""))
	}
	// expels
	var expels []base.SuffrageExpelOperation
	firstEx := true
	for i, e := range c.Ex {
		if e != 1 {
			continue
		}
		var signers []int
		for j, s := range c.Signers[i] {
			if s == 1 {
				signers = append(signers, j+1)
			}
		}
		target, tkey, variant := w.nodes[i].Address(), fmt.Sprint(i+1), ""
		if firstEx {
			switch c.Mut {
			case "expel-unknown-target":
				target, tkey = w.outsider.Address(), "x"
			case "expel-unknown-signer", "expel-wrongkey-signer":
				variant = c.Mut
			}
		}
		if c.Mut == "expired" {
			variant = "expired"
		}
		expels = append(expels, w.expelOp(target, tkey, signers, variant))
		if firstEx && c.Mut == "dup-expel" {
			expels = append(expels, w.expelOp(target, tkey, signers, "dup-expel"))
		}
		firstEx = false
	}
	th := base.Threshold(float64(c.T10) / 10)
	majority := func() base.BallotFact {
		f := c.Claim
		if c.Mut == "claim-missing" {
			f = "C"
		}
		if c.Claim == "DRAW" {
			return nil
		}
		if c.Stage == "INIT" {
			return w.initF[f]
		}
		return w.accF[f]
	}()
	pt := w.point
	switch c.Stage + "/" + c.Kind {
	case "INIT/plain":
		vp := isaac.NewINITVoteproof(pt)
		if majority != nil {
			vp.SetMajority(majority)
		}
		vp.SetSignFacts(sfs).SetThreshold(th).Finish()
		return vp
	case "INIT/expel":
		vp := isaac.NewINITExpelVoteproof(pt)
		if majority != nil {
			vp.SetMajority(majority)
		}
		vp.SetSignFacts(sfs).SetThreshold(th)
		vp.SetExpels(expels)
		vp.Finish()
		return vp
	case "INIT/stuck":
		vp := isaac.NewINITStuckVoteproof(pt)
		vp.SetSignFacts(sfs)
		vp.SetExpels(expels)
		vp.Finish()
		return vp
	case "ACCEPT/plain":
		vp := isaac.NewACCEPTVoteproof(pt)
		if majority != nil {
			vp.SetMajority(majority)
		}
		vp.SetSignFacts(sfs).SetThreshold(th).Finish()
		return vp
	case "ACCEPT/expel":
		vp := isaac.NewACCEPTExpelVoteproof(pt)
		if majority != nil {
			vp.SetMajority(majority)
		}
		vp.SetSignFacts(sfs).SetThreshold(th)
		vp.SetExpels(expels)
		vp.Finish()
		return vp
	case "ACCEPT/stuck":
		vp := isaac.NewACCEPTStuckVoteproof(pt)
		vp.SetSignFacts(sfs)
		vp.SetExpels(expels)
		vp.Finish()
		return vp
	}
	panic("unknown kind " + c.Stage + "/" + c.Kind)
}

func run(args []string) error {
	if len(args) < 1 || args[0] != "replay" {
		return fmt.Errorf("mode: replay --in cands --out verdicts")
	}
	fl := h.Flags(args[1:])
	var cands []cand
	if err := h.ReadNDJSON(fl["in"], func(line []byte) error {
		var c cand
		if err := json.Unmarshal(line, &c); err != nil {
			return err
		}
		cands = append(cands, c)
		return nil
	}); err != nil {
		return err
	}
	worlds := map[int]*world{}
	for _, c := range cands {
		if _, ok := worlds[c.N]; !ok {
			w, err := newWorld(c.N)
			if err != nil {
				return err
			}
			worlds[c.N] = w
		}
	}
	results := make([]result, len(cands))
	var wg sync.WaitGroup
	ch := make(chan int, 1024)
	for g := 0; g < runtime.NumCPU(); g++ {
		wg.Add(1)
		go func() {
			defer wg.Done()
			for i := range ch {
				c := cands[i]
				w := worlds[c.N]
				res := result{I: i + 1}
				res.Panic = h.Catch(func() {
					vp := w.build(c)
					res.Result = string(vp.Result())
					res.NSF = len(vp.SignFacts())
					if he, ok := vp.(base.HasExpels); ok {
						res.NEX = len(he.Expels())
					}
					if err := vp.IsValid(netID); err != nil {
						res.VErr = trim(err.Error())
					} else {
						res.Valid = true
					}
					if err := isaac.IsValidVoteproofWithSuffrage(vp, w.suf); err != nil {
						res.SErr = trim(err.Error())
					} else {
						res.Suf = true
					}
					res.Accepted = res.Valid && res.Suf
				})
				results[i] = res
			}
		}()
	}
	for i := range cands {
		ch <- i
	}
	close(ch)
	wg.Wait()
	out, err := h.NewOut(fl["out"])
	if err != nil {
		return err
	}
	defer out.Close()
	for i := range results {
		out.Emit(results[i])
	}
	return nil
}

func trim(s string) string {
	if len(s) > 160 {
		return s[:160]
	}
	return s
}
