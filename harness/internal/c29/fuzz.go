package c29

import (
	"encoding/binary"
	"fmt"
	"math/rand"
	"runtime"
	"sync"

	"github.com/spikeekips/mitum/util"

	"mitumverif/internal/h"
)

// Seeded byte-level cases (the concretisation of the specification's Flip / SetLen / Truncate
// actions on lists of 0..40000 items of 0..64 KiB, read in random chunkings). Every iteration
// has its own generator seeded from (seed, i), so `--only i` regenerates exactly that case.

type fuzzRow struct {
	result
	Fuzz   bool     `json:"fuzz"`
	Seed   int64    `json:"seed"`
	Count  int      `json:"count"`
	Bytes  int      `json:"bytes"`
	MaxLen int      `json:"maxlen"`
	Tamper []string `json:"tamper"`
	Chunks string   `json:"chunks"`
	WireHd string   `json:"wire_head,omitempty"`
}

func genSizes(r *rand.Rand, maxBytes int) []int {
	var count int
	var size func() int
	small := func(n int) func() int { return func() int { return r.Intn(n + 1) } }
	switch r.Intn(10) {
	case 0:
		count = 0
		size = small(0)
	case 1, 2, 3, 4:
		count = 1 + r.Intn(6)
		size = func() int {
			switch r.Intn(12) {
			case 0:
				return 65536
			case 1:
				return r.Intn(65537)
			case 2, 3:
				return r.Intn(300)
			case 4, 5, 6:
				return r.Intn(3)
			default:
				return r.Intn(40)
			}
		}
	case 5, 6:
		count = 7 + r.Intn(194)
		size = small(20)
	case 7:
		count = 32766 + r.Intn(2)
		size = small(2)
	case 8:
		count = []int{32768, 32769, 40000}[r.Intn(3)]
		size = small(1)
	default:
		count = 201 + r.Intn(4800)
		size = small(8)
	}
	sizes := make([]int, count)
	total := 0
	for i := range sizes {
		n := size()
		if total+n > maxBytes {
			n = 0
		}
		sizes[i] = n
		total += n
	}
	return sizes
}

func (rn *runner) fuzzOne(seed int64, i int, maxBytes int) fuzzRow {
	r := rand.New(rand.NewSource(seed*1000003 + int64(i)))
	row := fuzzRow{Fuzz: true, Seed: seed}
	row.I = i
	sizes := genSizes(r, maxBytes)
	items := make([][]byte, len(sizes))
	var offs []int // offsets of the length fields (count field first)
	offs = append(offs, 0)
	p := 8
	for j, n := range sizes {
		b := make([]byte, n)
		switch r.Intn(3) {
		case 0:
			r.Read(b)
		case 1: // zeros look like length fields
		default:
			for x := range b {
				b[x] = 0xff
			}
		}
		items[j] = b
		offs = append(offs, p)
		p += 8 + n
		if n > row.MaxLen {
			row.MaxLen = n
		}
	}
	row.Count = len(items)
	trailer := make([]byte, []int{0, 0, 1, 9}[r.Intn(4)])
	r.Read(trailer)
	// the real writer produces the wire; it must be the specification's encoding
	wire, werr := util.NewLengthedBytesSlice(items)
	row.Calls++
	if werr != nil {
		row.Fails = append(row.Fails, failure{API: "writer", Kind: "writer-bytes", Got: "error: " + werr.Error()})
		return row
	}
	wire = append(append([]byte{}, wire...), trailer...)
	if g := refParse(wire); !g.ok || !sameList(g.list, items) || string(g.left) != string(trailer) {
		row.Fails = append(row.Fails, failure{API: "writer", Kind: "writer-bytes", Got: "written bytes do not parse back to the list: " + show(wire), CF: countField(wire)})
		return row
	}
	row.Bytes = len(wire)
	// adversary
	flip := func() {
		var pos int
		if r.Intn(2) == 0 {
			pos = offs[r.Intn(len(offs))] + r.Intn(8)
		} else {
			pos = r.Intn(len(wire))
		}
		if r.Intn(2) == 0 {
			wire[pos] ^= 1 << uint(r.Intn(8))
		} else {
			wire[pos] = byte(r.Intn(256))
		}
		row.Tamper = append(row.Tamper, "flip")
	}
	trunc := func() {
		var n int
		if r.Intn(2) == 0 {
			n = r.Intn(len(wire))
		} else {
			n = offs[r.Intn(len(offs))] + r.Intn(17) - 4
			if n < 0 {
				n = 0
			}
			if n >= len(wire) {
				n = len(wire) - 1
			}
		}
		wire = wire[:n]
		row.Tamper = append(row.Tamper, "trunc")
	}
	setlen := func() {
		o := offs[r.Intn(len(offs))]
		v := binary.BigEndian.Uint64(wire[o : o+8])
		nv := []uint64{0, v - 1, v + 1, 1 << 31, 1 << 63, ^uint64(0), uint64(r.Intn(70000)), 32768, 1 << 20}[r.Intn(9)]
		binary.BigEndian.PutUint64(wire[o:o+8], nv)
		row.Tamper = append(row.Tamper, "set")
	}
	switch t := r.Intn(10); {
	case t <= 2:
	case t <= 4:
		trunc()
	case t <= 7:
		for n := 1 + r.Intn(3); n > 0; n-- {
			flip()
		}
	case t == 8:
		setlen()
	default:
		flip()
		trunc()
	}
	ref := refParse(wire)
	e := expList{ref.ok, ref.list, ref.left}
	// chunking
	var sizesPlan []int
	tiny := len(wire) <= 8192 && r.Intn(2) == 0
	for n := 0; n < len(wire) && len(sizesPlan) < 20000; {
		var c int
		switch {
		case tiny:
			c = []int{1, 1, 2, 3, 7, 8, 9}[r.Intn(7)]
		case r.Intn(4) == 0:
			c = 1 + r.Intn(16)
		default:
			c = 1 + r.Intn(8192)
		}
		sizesPlan = append(sizesPlan, c)
		n += c
	}
	row.Chunks = "random"
	if tiny {
		row.Chunks = "random-tiny"
	}
	plans := []plan{{row.Chunks, sizesPlan}}
	rn.checkBytesAPI(wire, e, &row.result)
	rn.checkStreamAPI(wire, e, plans, &row.result)
	fw := append([]byte{0, 0}, wire...)
	fe := refFrame(fw)
	if len(fe.litems) <= 8 {
		rn.checkFrame(fw, fe, []plan{{row.Chunks, append([]int{2 + r.Intn(3)}, sizesPlan...)}}, &row.result)
	}
	if len(row.Fails) > 0 {
		row.WireHd = fmt.Sprintf("%x", wire[:min(len(wire), 64)])
	}
	return row
}

func (rn *runner) fuzz(seed int64, num, maxBytes, only int, out *h.Out) error {
	if maxBytes <= 0 {
		maxBytes = 1 << 20
	}
	if only >= 0 {
		out.Emit(rn.fuzzOne(seed, only, maxBytes))
		return nil
	}
	workers := runtime.NumCPU()
	if workers > 8 {
		workers = 8
	}
	ch := make(chan int)
	var wg sync.WaitGroup
	for w := 0; w < workers; w++ {
		wg.Add(1)
		go func() {
			defer wg.Done()
			for i := range ch {
				out.Emit(rn.fuzzOne(seed, i, maxBytes))
			}
		}()
	}
	for i := 0; i < num; i++ {
		ch <- i
	}
	close(ch)
	wg.Wait()
	return nil
}
