// Package c29 replays the cases of spec/Framing.tla (binding A) on the real
// length-prefixed framing of util/bytes.go: WriteLengthedSlice / NewLengthedBytesSlice,
// ReadLengthedBytesSlice, ReadLengthedSlice, BytesFrameWriter and BytesFrameReader, the
// stream readers over a chunking io.Reader.  Mode "fuzz" is the seeded byte-level part:
// random lists, random flips / truncations / chunkings judged by the Go transcription of
// the specification's Parse (ref.go), which mode "replay" checks against TLC's verdict on
// every case TLC produced.
package c29

import (
	"bytes"
	"encoding/binary"
	"encoding/json"
	"fmt"
	"io"
	"os"
	"runtime"
	"runtime/pprof"
	"sort"
	"strconv"
	"sync"

	"github.com/spikeekips/mitum/util"

	"mitumverif/internal/h"
)

func init() { h.Register("C29", run) }

// ---------------------------------------------------------------- cases

type tamper struct {
	A string `json:"a"`
	F string `json:"f"`
	I int    `json:"i"`
	X string `json:"x"`
}

type kase struct {
	I    int      `json:"-"`
	M    string   `json:"m"` // list | frame | ulist
	Wire []int    `json:"wire"`
	T    []tamper `json:"t"`

	// list
	W    [][]int `json:"w"`
	Tr   []int   `json:"tr"`
	OK   bool    `json:"ok"`
	List [][]int `json:"list"`
	Left []int   `json:"left"`

	// frame
	Hdr    [][]int `json:"hdr"`
	Bk     string  `json:"bk"`
	Raw    []int   `json:"raw"`
	Bodies [][]int `json:"bodies"`
	Vok    bool    `json:"vok"`
	Ver    []int   `json:"ver"`
	Hok    bool    `json:"hok"`
	Hlist  [][]int `json:"hlist"`
	Rraw   []int   `json:"rraw"`
	Lok    bool    `json:"lok"`
	Litems [][]int `json:"litems"`

	// ulist
	C     int `json:"c"`
	N     int `json:"n"`
	Fill  int `json:"fill"`
	Have  int `json:"have"`
	Tail  int `json:"tail"`
	Count int `json:"count"`

	Plans map[string][]int `json:"plans"`
}

type failure struct {
	API  string `json:"api"`  // bytes | stream | frame | frame-buffer | writer | ref
	Plan string `json:"plan"` // chunking
	EOF  string `json:"eof"`
	Kind string `json:"kind"`
	Got  string `json:"got"`
	Want string `json:"want"`
	CF   string `json:"cf"` // decoded count field of the list on the wire ("" if fewer than 8 bytes)
}

type result struct {
	I       int       `json:"i"`
	Calls   int       `json:"calls"`
	Fails   []failure `json:"fails,omitempty"`
	Skipped int       `json:"skipped_huge_alloc,omitempty"`
	Info    []string  `json:"info,omitempty"`
}

func bs(x []int) []byte {
	o := make([]byte, len(x))
	for i := range x {
		o[i] = byte(x[i])
	}
	return o
}

func bss(x [][]int) [][]byte {
	o := make([][]byte, len(x))
	for i := range x {
		o[i] = bs(x[i])
	}
	return o
}

func sameList(a, b [][]byte) bool {
	if len(a) != len(b) {
		return false
	}
	for i := range a {
		if !bytes.Equal(a[i], b[i]) { // nil == empty
			return false
		}
	}
	return true
}

func show(b []byte) string {
	if len(b) > 24 {
		return fmt.Sprintf("%x..(%d bytes)", b[:24], len(b))
	}
	return fmt.Sprintf("%x", b)
}

func showList(l [][]byte) string {
	s := fmt.Sprintf("%d items", len(l))
	for i := range l {
		if i == 4 {
			s += " ..."
			break
		}
		s += " [" + show(l[i]) + "]"
	}
	return s
}

// ---------------------------------------------------------------- chunking reader

// chunkReader delivers data in the chunk sizes of plan (then everything that is left in one
// chunk); a Read never returns more than the current chunk. eager: io.EOF comes together
// with the last bytes, otherwise with the next (empty) Read.
type chunkReader struct {
	data  []byte
	plan  []int
	pos   int
	pi    int
	cur   int
	eager bool
	reads int
}

func newChunkReader(data []byte, plan []int, eager bool) *chunkReader {
	return &chunkReader{data: data, plan: plan, eager: eager, cur: -1}
}

func (c *chunkReader) Read(p []byte) (int, error) {
	c.reads++
	if c.pos >= len(c.data) {
		return 0, io.EOF
	}
	if len(p) == 0 {
		return 0, nil
	}
	for c.cur <= 0 {
		if c.pi < len(c.plan) {
			c.cur = c.plan[c.pi]
			c.pi++
		} else {
			c.cur = len(c.data) - c.pos
		}
	}
	n := c.cur
	if n > len(p) {
		n = len(p)
	}
	if n > len(c.data)-c.pos {
		n = len(c.data) - c.pos
	}
	copy(p, c.data[c.pos:c.pos+n])
	c.pos += n
	c.cur -= n
	if c.eager && c.pos >= len(c.data) {
		return n, io.EOF
	}
	return n, nil
}

func (c *chunkReader) rest() []byte { return c.data[c.pos:] }

type plan struct {
	name  string
	sizes []int
}

var eofModes = []string{"late", "eager"}

// ---------------------------------------------------------------- expectations

type expList struct {
	ok   bool
	list [][]byte
	left []byte
}

type expFrame struct {
	vok    bool
	ver    []byte
	hok    bool
	hlist  [][]byte
	raw    []byte
	lok    bool
	litems [][]byte
}

func countField(wire []byte) string {
	if len(wire) < 8 {
		return ""
	}
	return strconv.FormatUint(binary.BigEndian.Uint64(wire[:8]), 10)
}

// Budgets of stream reads that make the code allocate large buffers. A hostile item length v
// (below 2^31) makes ReadLengthed allocate v bytes and EnsureRead another v bytes *per Read
// call*, so such cases are only run with the deliver-all chunking and only as many as the
// budget allows (the rest is counted as skipped_huge_alloc in the evidence).
type budget struct {
	mu   sync.Mutex
	left int
}

func (b *budget) take() bool {
	b.mu.Lock()
	defer b.mu.Unlock()
	if b.left > 0 {
		b.left--
		return true
	}
	return false
}

const (
	capAlloc  = 1 << 20   // below: every chunking
	hugeAlloc = 256 << 20 // above: hugeBudget, between: bigBudget
)

type runner struct {
	bigBudget  *budget
	hugeBudget *budget
	oneMax     int // largest wire delivered in 1-byte chunks
}

// admit decides how a wire whose reading allocates `a` bytes is run: all plans, only the
// deliver-all plan, or not at all.
func (rn *runner) admit(a uint64, plans []plan) ([]plan, bool) {
	switch {
	case a <= capAlloc:
		return plans, true
	case a <= hugeAlloc && rn.bigBudget.take(), a > hugeAlloc && rn.hugeBudget.take():
		for _, p := range plans {
			if p.name == "all" {
				return []plan{p}, true
			}
		}
		return plans[:1], true
	}
	return nil, false
}

// ---------------------------------------------------------------- list readers

func (rn *runner) checkBytesAPI(wire []byte, e expList, res *result) {
	var m [][]byte
	var left []byte
	var err error
	res.Calls++
	if p := h.Catch(func() { m, left, err = util.ReadLengthedBytesSlice(wire) }); p != "" {
		res.Fails = append(res.Fails, failure{API: "bytes", Kind: "panic", Got: p, CF: countField(wire)})
		return
	}
	rn.judgeList("bytes", "", "", wire, e, m, left, true, err, res)
}

func (rn *runner) judgeList(api, pl, eof string, wire []byte, e expList, m [][]byte, left []byte, hasLeft bool, err error, res *result) bool {
	f := failure{API: api, Plan: pl, EOF: eof, CF: countField(wire)}
	switch {
	case err != nil && !e.ok:
		return true
	case err != nil && e.ok:
		f.Kind, f.Got, f.Want = "rejected", "error: "+err.Error(), showList(e.list)
	case err == nil && !e.ok:
		f.Kind, f.Got, f.Want = "accepted", "ok: "+showList(m), "error"
	case !sameList(m, e.list):
		f.Kind, f.Got, f.Want = "wrong-list", showList(m), showList(e.list)
	case hasLeft && !bytes.Equal(left, e.left):
		f.Kind, f.Got, f.Want = "wrong-left", show(left), show(e.left)
	default:
		return true
	}
	res.Fails = append(res.Fails, f)
	return false
}

func (rn *runner) checkStreamAPI(wire []byte, e expList, plans []plan, res *result) {
	plans, ok := rn.admit(refAlloc(wire), plans)
	if !ok {
		res.Skipped++
		return
	}
	for pi, pl := range plans {
		for ei, eof := range eofModes {
			if len(wire) > rn.oneMax && ei != pi%2 && pi > 0 {
				continue // big wire: every chunking with one of the two EOF styles
			}
			r := newChunkReader(wire, pl.sizes, eof == "eager")
			var m [][]byte
			var n uint64
			var err error
			res.Calls++
			if p := h.Catch(func() { n, m, err = util.ReadLengthedSlice(r) }); p != "" {
				res.Fails = append(res.Fails, failure{API: "stream", Plan: pl.name, EOF: eof, Kind: "panic", Got: p, CF: countField(wire)})
				continue
			}
			if rn.judgeList("stream", pl.name, eof, wire, e, m, r.rest(), true, err, res) && err == nil {
				if int(n) != len(wire)-len(e.left) {
					res.Info = append(res.Info, fmt.Sprintf("read-count: ReadLengthedSlice reported %d bytes, consumed %d", n, len(wire)-len(e.left)))
				}
			}
		}
	}
}

func (rn *runner) checkListWriter(w [][]byte, tr, wire []byte, res *result) {
	var buf bytes.Buffer
	var err error
	res.Calls += 2
	if p := h.Catch(func() {
		err = util.WriteLengthedSlice(&buf, w)
		buf.Write(tr)
	}); p != "" {
		res.Fails = append(res.Fails, failure{API: "writer", Kind: "panic", Got: p})
		return
	}
	if err != nil || !bytes.Equal(buf.Bytes(), wire) {
		res.Fails = append(res.Fails, failure{API: "writer", Kind: "writer-bytes", Got: fmt.Sprintf("err=%v %s", err, show(buf.Bytes())), Want: show(wire)})
	}
	var b []byte
	if p := h.Catch(func() { b, err = util.NewLengthedBytesSlice(w) }); p != "" {
		res.Fails = append(res.Fails, failure{API: "writer", Kind: "panic", Got: p})
		return
	}
	if err != nil || !bytes.Equal(b, wire[:len(wire)-len(tr)]) {
		res.Fails = append(res.Fails, failure{API: "writer", Kind: "writer-bytes", Got: fmt.Sprintf("NewLengthedBytesSlice err=%v %s", err, show(b)), Want: show(wire)})
	}
}

// ---------------------------------------------------------------- frames

type frameSource struct {
	name string // plan name or "buffer"
	eof  string
	mk   func() (*util.BytesFrameReader, func() int, error) // reader, consumed-so-far
}

func (rn *runner) frameSources(wire []byte, plans []plan) []frameSource {
	var out []frameSource
	out = append(out, frameSource{name: "buffer", mk: func() (*util.BytesFrameReader, func() int, error) {
		fr, buf, err := util.NewBufferBytesFrameReader(append([]byte{}, wire...))
		return fr, func() int {
			if buf == nil {
				return 0
			}
			return len(wire) - buf.Len()
		}, err
	}})
	for pi, pl := range plans {
		for ei, eof := range eofModes {
			if len(wire) > rn.oneMax && ei != (pi+1)%2 {
				continue
			}
			pl, eof := pl, eof
			out = append(out, frameSource{name: pl.name, eof: eof, mk: func() (*util.BytesFrameReader, func() int, error) {
				r := newChunkReader(wire, pl.sizes, eof == "eager")
				fr, err := util.NewBytesFrameReader(r)
				return fr, func() int { return r.pos }, err
			}})
		}
	}
	return out
}

// checkFrame runs three read scripts on every source:
// A New;Version;Header;Body  B New;Body (header skipped by the reader)  C New;Header;Lengthed*
func (rn *runner) checkFrame(wire []byte, e expFrame, plans []plan, res *result) {
	plans, ok := rn.admit(refAlloc(safeTail(wire, 2)), plans)
	if !ok {
		res.Skipped++
		return
	}
	cf := countField(safeTail(wire, 2))
	for _, src := range rn.frameSources(wire, plans) {
		api := "frame"
		if src.name == "buffer" {
			api = "frame-buffer"
		}
		fail := func(kind, got, want string) {
			res.Fails = append(res.Fails, failure{API: api, Plan: src.name, EOF: src.eof, Kind: kind, Got: got, Want: want, CF: cf})
		}
		for _, script := range []string{"A", "B", "C"} {
			if script == "C" && len(wire) > rn.oneMax && len(e.litems) == 0 && e.lok {
				continue
			}
			var done bool
			p := h.Catch(func() {
				fr, consumed, err := src.mk()
				res.Calls++
				if err != nil {
					if e.vok {
						fail("rejected", "New: "+err.Error(), "version "+show(e.ver))
					}
					done = true
					return
				}
				if len(wire) >= 2 && consumed() < 2 {
					// the constructor returned with a partial version although more bytes were to come
					fail("short-version", fmt.Sprintf("New consumed %d of the 2 version bytes (first chunk %d bytes)", consumed(), consumed()), "2")
					done = true
					return
				}
				if e.vok {
					v := fr.Version()
					if !bytes.Equal(v[:], e.ver) {
						fail("wrong-version", show(v[:]), show(e.ver))
					}
				}
				switch script {
				case "A", "C":
					hs, herr := fr.Header()
					res.Calls++
					switch {
					case herr != nil && !e.hok:
						done = true
						return
					case herr != nil:
						fail("rejected", "Header: "+herr.Error(), showList(e.hlist))
						done = true
						return
					case !e.hok:
						fail("accepted", "Header ok: "+showList(hs), "error")
						done = true
						return
					case !sameList(hs, e.hlist):
						fail("wrong-list", "Header: "+showList(hs), showList(e.hlist))
						done = true
						return
					}
					if script == "A" {
						b, berr := fr.Body()
						res.Calls++
						switch {
						case berr != nil:
							fail("rejected", "Body: "+berr.Error(), show(e.raw))
						case !bytes.Equal(b, e.raw):
							fail("wrong-body", show(b), show(e.raw))
						}
					} else {
						for i := range e.litems {
							var got []byte
							called := false
							lerr := fr.Lengthed(func(b []byte) error { got = b; called = true; return nil })
							res.Calls++
							switch {
							case lerr != nil:
								fail("rejected", fmt.Sprintf("Lengthed #%d: %v", i, lerr), show(e.litems[i]))
								done = true
								return
							case !called:
								fail("wrong-lengthed", fmt.Sprintf("Lengthed #%d returned nil without a body", i), show(e.litems[i]))
								done = true
								return
							case !bytes.Equal(got, e.litems[i]):
								fail("wrong-lengthed", fmt.Sprintf("Lengthed #%d: %s", i, show(got)), show(e.litems[i]))
								done = true
								return
							}
						}
						// one more call: must fail if a partial item follows; at a clean end the
						// statement says nothing (the code reports "insufficient read")
						called := false
						var got []byte
						lerr := fr.Lengthed(func(b []byte) error { called = true; got = b; return nil })
						res.Calls++
						if !e.lok && lerr == nil {
							fail("accepted", fmt.Sprintf("Lengthed after %d bodies: ok called=%v %s", len(e.litems), called, show(got)), "error (partial body)")
						}
						if e.lok && lerr == nil && called {
							fail("wrong-lengthed", "Lengthed at the end of the stream invented a body: "+show(got), "no body")
						}
					}
				case "B":
					b, berr := fr.Body()
					res.Calls++
					switch {
					case berr != nil && !e.hok:
					case berr != nil:
						fail("rejected", "Body(skip header): "+berr.Error(), show(e.raw))
					case !e.hok:
						fail("accepted", "Body(skip header) ok: "+show(b), "error")
					case !bytes.Equal(b, e.raw):
						fail("wrong-body", "Body(skip header): "+show(b), show(e.raw))
					}
				}
				done = true
			})
			if p != "" {
				fail("panic", p, "")
			}
			_ = done
		}
	}
}

func safeTail(b []byte, n int) []byte {
	if len(b) < n {
		return nil
	}
	return b[n:]
}

func (rn *runner) checkFrameWriter(hdr [][]byte, bk string, raw []byte, bodies [][]byte, wire []byte, res *result) {
	var buf bytes.Buffer
	var err error
	res.Calls++
	if p := h.Catch(func() {
		var fw *util.BytesFrameWriter
		if fw, err = util.NewBytesFrameWriter(&buf); err != nil {
			return
		}
		if err = fw.Header(hdr...); err != nil {
			return
		}
		if bk == "raw" {
			_, err = fw.Writer().Write(raw)
			return
		}
		for i := range bodies {
			if err = fw.Lengthed(bodies[i]); err != nil {
				return
			}
		}
	}); p != "" {
		res.Fails = append(res.Fails, failure{API: "writer", Kind: "panic", Got: p})
		return
	}
	if err != nil || !bytes.Equal(buf.Bytes(), wire) {
		res.Fails = append(res.Fails, failure{API: "writer", Kind: "writer-bytes", Got: fmt.Sprintf("frame err=%v %s", err, show(buf.Bytes())), Want: show(wire)})
	}
}

// ---------------------------------------------------------------- one TLC case

func plansOf(k *kase) []plan {
	var names []string
	for n := range k.Plans {
		names = append(names, n)
	}
	sort.Strings(names)
	var out []plan
	for _, n := range names {
		out = append(out, plan{n, k.Plans[n]})
	}
	return out
}

func (rn *runner) uniformPlans(wire []byte, itemSize int) []plan {
	out := []plan{{"all", []int{len(wire)}}}
	var tok, inlen []int
	if len(wire) >= 8 {
		tok = append(tok, 8)
		inlen = append(inlen, 3, 5)
		for p := 8; p < len(wire); p += 8 + itemSize {
			tok = append(tok, 8)
			inlen = append(inlen, 3, 5)
			if itemSize > 0 {
				tok = append(tok, itemSize)
				inlen = append(inlen, itemSize)
			}
		}
	}
	out = append(out, plan{"tok", tok})
	if len(wire) <= rn.oneMax {
		out = append(out, plan{"inlen", inlen})
		one := make([]int, len(wire))
		for i := range one {
			one[i] = 1
		}
		out = append(out, plan{"one", one})
	} else {
		var st []int
		for p := 0; p < len(wire); p += 4093 {
			st = append(st, 4093)
		}
		out = append(out, plan{"stride4093", st})
	}
	return out
}

func buildUniform(k *kase) (wire []byte, item []byte) {
	item = bytes.Repeat([]byte{byte(k.Fill)}, k.N)
	enc := append(util.Uint64ToBytes(uint64(k.N)), item...)
	wire = append(wire, bs(k.Wire)...)
	for i := 0; i < k.Have; i++ {
		wire = append(wire, enc...)
	}
	wire = append(wire, enc[:k.Tail]...)
	wire = append(wire, bs(k.Tr)...)
	return wire, item
}

func (rn *runner) do(k *kase) result {
	res := result{I: k.I}
	untouched := len(k.T) == 0
	switch k.M {
	case "list":
		wire := bs(k.Wire)
		e := expList{k.OK, bss(k.List), bs(k.Left)}
		rn.crossCheckList(wire, e, &res)
		rn.checkBytesAPI(wire, e, &res)
		rn.checkStreamAPI(wire, e, plansOf(k), &res)
		if untouched {
			rn.checkListWriter(bss(k.W), bs(k.Tr), wire, &res)
		}
	case "frame":
		wire := bs(k.Wire)
		e := expFrame{k.Vok, bs(k.Ver), k.Hok, bss(k.Hlist), bs(k.Rraw), k.Lok, bss(k.Litems)}
		rn.crossCheckFrame(wire, e, &res)
		rn.checkFrame(wire, e, plansOf(k), &res)
		if untouched {
			rn.checkFrameWriter(bss(k.Hdr), k.Bk, bs(k.Raw), bss(k.Bodies), wire, &res)
		}
	case "ulist":
		wire, item := buildUniform(k)
		e := expList{ok: k.OK}
		if k.OK {
			e.list = make([][]byte, k.Count)
			for i := range e.list {
				e.list[i] = item
			}
			e.left = wire[8+k.Count*(8+k.N):]
		}
		rn.crossCheckList(wire, e, &res)
		rn.checkBytesAPI(wire, e, &res)
		plans := rn.uniformPlans(wire, k.N)
		rn.checkStreamAPI(wire, e, plans, &res)
		// the same list as the header of a frame (BytesFrameWriter.Header / BytesFrameReader.Header)
		fw := append([]byte{0, 0}, wire...)
		fe := expFrame{vok: true, ver: []byte{0, 0}, hok: e.ok, hlist: e.list, raw: e.left}
		if b := refBodies(e.left); e.ok {
			fe.lok, fe.litems = b.ok, b.items
		}
		fplans := []plan{{"all", []int{len(fw)}}, {"tok", append([]int{2}, plans[1].sizes...)}}
		// Lengthed* over a long left-over list adds nothing; large frames only where the count matters
		if len(fe.litems) <= 8 && (len(wire) <= rn.oneMax || untouched || k.T[0].A == "set") {
			rn.checkFrame(fw, fe, fplans, &res)
		}
		if untouched {
			w := make([][]byte, k.C)
			for i := range w {
				w[i] = item
			}
			rn.checkListWriter(w, bs(k.Tr), wire, &res)
		}
	default:
		res.Fails = append(res.Fails, failure{API: "ref", Kind: "ref-mismatch", Got: "unknown mode " + k.M})
	}
	return res
}

// the Go transcription of Parse must agree with TLC on every case TLC produced
func (rn *runner) crossCheckList(wire []byte, e expList, res *result) {
	g := refParse(wire)
	if g.ok != e.ok || (g.ok && (!sameList(g.list, e.list) || !bytes.Equal(g.left, e.left))) {
		res.Fails = append(res.Fails, failure{API: "ref", Kind: "ref-mismatch",
			Got:  fmt.Sprintf("ref.go: ok=%v %s left=%s", g.ok, showList(g.list), show(g.left)),
			Want: fmt.Sprintf("TLC: ok=%v %s left=%s", e.ok, showList(e.list), show(e.left))})
	}
}

func (rn *runner) crossCheckFrame(wire []byte, e expFrame, res *result) {
	g := refFrame(wire)
	bad := g.vok != e.vok || g.hok != e.hok || g.lok != e.lok
	if !bad && g.hok {
		bad = !sameList(g.hlist, e.hlist) || !bytes.Equal(g.raw, e.raw) || !sameList(g.litems, e.litems)
	}
	if bad {
		res.Fails = append(res.Fails, failure{API: "ref", Kind: "ref-mismatch",
			Got: fmt.Sprintf("ref.go: %+v", g), Want: fmt.Sprintf("TLC: %+v", e)})
	}
}

// ---------------------------------------------------------------- command

func run(args []string) error {
	if len(args) < 1 {
		return fmt.Errorf("usage: C29 replay|fuzz ...")
	}
	fl := h.Flags(args[1:])
	out, err := h.NewOut(fl["out"])
	if err != nil {
		return err
	}
	defer out.Close()
	huge, _ := strconv.Atoi(fl["huge"])
	big, _ := strconv.Atoi(fl["big"])
	oneMax, _ := strconv.Atoi(fl["onemax"])
	if oneMax == 0 {
		oneMax = 4096
	}
	if pf := fl["cpuprofile"]; pf != "" {
		f, err := os.Create(pf)
		if err != nil {
			return err
		}
		_ = pprof.StartCPUProfile(f)
		defer pprof.StopCPUProfile()
	}
	rn := &runner{bigBudget: &budget{left: big}, hugeBudget: &budget{left: huge}, oneMax: oneMax}
	switch args[0] {
	case "replay":
		return rn.replay(fl["in"], out)
	case "fuzz":
		seed, _ := strconv.ParseInt(os.Getenv("VERIF_SEED"), 10, 64)
		if s, ok := fl["seed"]; ok {
			seed, _ = strconv.ParseInt(s, 10, 64)
		}
		num, _ := strconv.Atoi(fl["num"])
		maxBytes, _ := strconv.Atoi(fl["maxbytes"])
		only := -1
		if s, ok := fl["only"]; ok {
			only, _ = strconv.Atoi(s)
		}
		return rn.fuzz(seed, num, maxBytes, only, out)
	}
	return fmt.Errorf("unknown mode %q", args[0])
}

func (rn *runner) replay(in string, out *h.Out) error {
	var cases []*kase
	i := 0
	if err := h.ReadNDJSON(in, func(line []byte) error {
		k := &kase{}
		if err := json.Unmarshal(line, k); err != nil {
			return fmt.Errorf("case %d: %w", i, err)
		}
		k.I = i
		i++
		cases = append(cases, k)
		return nil
	}); err != nil {
		return err
	}
	workers := runtime.NumCPU()
	if workers > 8 {
		workers = 8
	}
	ch := make(chan *kase)
	var wg sync.WaitGroup
	for w := 0; w < workers; w++ {
		wg.Add(1)
		go func() {
			defer wg.Done()
			for k := range ch {
				out.Emit(rn.do(k))
			}
		}()
	}
	for _, k := range cases {
		ch <- k
	}
	close(ch)
	wg.Wait()
	return nil
}
