package c29

import "encoding/binary"

// Go transcription of the reference readers of spec/Framing.tla (Parse, ParseBodies,
// FrameParse). Used for the seeded byte-level cases TLC does not enumerate; "replay"
// compares it with TLC's own verdict on every TLC case, so a wrong transcription is a
// machinery error, never a verdict.

type refList struct {
	ok   bool
	list [][]byte
	left []byte
}

func refParse(s []byte) refList {
	if len(s) < 8 {
		return refList{}
	}
	c := binary.BigEndian.Uint64(s[:8])
	s = s[8:]
	if c > uint64(len(s))/8 { // every item needs its 8 length bytes
		return refList{}
	}
	list := make([][]byte, 0, c)
	for ; c > 0; c-- {
		if len(s) < 8 {
			return refList{}
		}
		v := binary.BigEndian.Uint64(s[:8])
		if v > uint64(len(s)-8) {
			return refList{}
		}
		list = append(list, s[8:8+v])
		s = s[8+v:]
	}
	return refList{ok: true, list: list, left: s}
}

type refBodyList struct {
	ok    bool
	items [][]byte
}

func refBodies(s []byte) refBodyList {
	var items [][]byte
	for len(s) > 0 {
		if len(s) < 8 {
			return refBodyList{false, items}
		}
		v := binary.BigEndian.Uint64(s[:8])
		if v > uint64(len(s)-8) {
			return refBodyList{false, items}
		}
		items = append(items, s[8:8+v])
		s = s[8+v:]
	}
	return refBodyList{true, items}
}

func refFrame(s []byte) expFrame {
	if len(s) < 2 {
		return expFrame{}
	}
	h := refParse(s[2:])
	e := expFrame{vok: true, ver: s[:2], hok: h.ok, hlist: h.list, raw: h.left}
	if h.ok {
		b := refBodies(h.left)
		e.lok, e.litems = b.ok, b.items
	}
	return e
}

// refAlloc predicts the largest single buffer a stream reader has to allocate before it can
// notice that the wire is too short: the first item length that exceeds what follows (and is
// below the 2^31 bound above which a reader may refuse without reading).
func refAlloc(s []byte) uint64 {
	if len(s) < 8 {
		return 0
	}
	c := binary.BigEndian.Uint64(s[:8])
	s = s[8:]
	if c > 1<<20 {
		return 0
	}
	for ; c > 0; c-- {
		if len(s) < 8 {
			return 0
		}
		v := binary.BigEndian.Uint64(s[:8])
		if v > uint64(len(s)-8) {
			if v < 1<<31 {
				return v
			}
			return 0
		}
		s = s[8+v:]
	}
	// lengthed bodies after the list
	for len(s) >= 8 {
		v := binary.BigEndian.Uint64(s[:8])
		if v > uint64(len(s)-8) {
			if v < 1<<31 {
				return v
			}
			return 0
		}
		s = s[8+v:]
	}
	return 0
}
