// Package c17 registers C10's pipeline driver under the name C17: the suffrage operation
// sequences of spec/SuffrageOps.tla are replayed through the same real
// DefaultProposalProcessor + launch-wired processors + block writer.
package c17

import (
	"mitumverif/internal/c10"
	"mitumverif/internal/h"
)

func init() { h.Register("C17", c10.Run) }
