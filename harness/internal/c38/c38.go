// Package c38 calls the real isaac.ProposalMaker (Make / PreferEmpty) from several goroutines
// for a handful of positions, over a real TempPool (leveldb mem storage) whose new operations -
// duplicate facts included - are added by another goroutine while the calls run;
// getOperations is the real TempPool.OperationHashes. Call / return events go to
// spec/ProposalMakerTrace.tla (binding B).
package c38

import (
	"context"
	"fmt"
	"math/rand"
	"os"
	"runtime"
	"strconv"
	"sync"
	"time"

	"github.com/spikeekips/mitum/base"
	"github.com/spikeekips/mitum/isaac"
	isaacblock "github.com/spikeekips/mitum/isaac/block"
	isaacdatabase "github.com/spikeekips/mitum/isaac/database"
	"github.com/spikeekips/mitum/launch"
	leveldbstorage "github.com/spikeekips/mitum/storage/leveldb"
	"github.com/spikeekips/mitum/util"
	"github.com/spikeekips/mitum/util/encoder"
	jsonenc "github.com/spikeekips/mitum/util/encoder/json"
	"github.com/spikeekips/mitum/util/valuehash"

	"mitumverif/internal/h"
)

func init() { h.Register("C38", run) }

type ev = map[string]interface{}

var (
	netID = base.NetworkID([]byte("verif-c38"))
	local = isaac.NewLocalNode(base.NewMPrivatekey(), base.NewStringAddress("local-c38"))
	enc   *jsonenc.Encoder
	encs  *encoder.Encoders
	once  sync.Once
)

const last = 40 // height of the last block

type position struct {
	name string
	kind string
	h    int64
	r    uint64
	prev string // "last" (hash of the last manifest) | "other" | "any"
}

// o: below last-1; n*: Make builds with operations; f*: always an empty proposal
var positions = []position{
	{"o", "old", last - 2, 0, "any"},
	{"n0", "near", last - 1, 0, "any"},
	{"n1", "near", last, 0, "any"},
	{"n2", "near", last + 1, 0, "last"},
	{"n3", "near", last + 1, 1, "last"},
	{"fp", "far", last + 1, 0, "other"},
	{"fh", "far", last + 2, 0, "any"},
	{"f2", "far", last + 3, 1, "any"},
}

func setup() (err error) {
	once.Do(func() {
		enc = jsonenc.NewEncoder()
		encs = encoder.NewEncoders(enc, enc)

		if err = launch.LoadHinters(encs); err != nil {
			return
		}

		err = encs.AddDetail(encoder.DecodeDetail{Hint: isaac.DummyOperationFactHint, Instance: isaac.DummyOperationFact{}})
		if err == nil {
			err = encs.AddDetail(encoder.DecodeDetail{Hint: isaac.DummyOperationHint, Instance: isaac.DummyOperation{}})
		}
	})

	return err
}

type world struct {
	out      *h.Out
	mu       sync.Mutex
	pool     *isaacdatabase.TempPool
	maker    *isaac.ProposalMaker
	lasthash util.Hash
	other    util.Hash
	ids      int
}

func (w *world) emit(e ev) {
	w.mu.Lock()
	defer w.mu.Unlock()

	w.out.Emit(e)
}

func (w *world) newID() int {
	w.mu.Lock()
	defer w.mu.Unlock()

	w.ids++

	return w.ids
}

func newWorld(out *h.Out, limit uint64) (*world, error) {
	if err := setup(); err != nil {
		return nil, err
	}

	pool, err := isaacdatabase.NewTempPool(leveldbstorage.NewMemStorage(), encs, enc, 0)
	if err != nil {
		return nil, err
	}

	w := &world{out: out, pool: pool, lasthash: valuehash.RandomSHA256(), other: valuehash.RandomSHA256()}

	manifest := base.NewDummyManifest(base.Height(last), w.lasthash)
	bm := isaacblock.NewBlockMap()
	bm.SetManifest(manifest)

	w.maker = isaac.NewProposalMaker(
		local, netID,
		func(ctx context.Context, height base.Height) ([][2]util.Hash, error) {
			return pool.OperationHashes(ctx, height, limit, nil)
		},
		pool,
		func() (base.BlockMap, bool, error) { return bm, true, nil },
	)

	kinds := map[string]string{}
	for _, p := range positions {
		kinds[p.name] = p.kind
	}

	w.emit(ev{"a": "Reset", "kind": kinds})

	return w, nil
}

func (w *world) prevOf(p position) util.Hash {
	if p.prev == "other" {
		return w.other
	}

	return w.lasthash
}

func (w *world) call(op string, p position) {
	id := w.newID()
	w.emit(ev{"a": "Call", "id": id, "op": op, "pos": p.name})

	var pr base.ProposalSignFact
	var err error

	point := base.RawPoint(p.h, p.r)

	switch op {
	case "Make":
		pr, err = w.maker.Make(context.Background(), point, w.prevOf(p))
	default:
		pr, err = w.maker.PreferEmpty(context.Background(), point, w.prevOf(p))
	}

	e := ev{"a": "Ret", "id": id, "pos": p.name, "pr": "", "sig": "", "nops": 0, "dupop": false, "dupfact": false, "err": ""}

	switch {
	case err != nil:
		e["err"] = "error"
	case pr == nil:
		e["err"] = "nil"
	default:
		fact := pr.ProposalFact()
		e["pr"] = fact.Hash().String()[:12]

		if sf, ok := pr.(isaac.ProposalSignFact); ok {
			ss := sf.Signs()
			if len(ss) > 0 {
				sig := ss[0].Signature().String()
				if len(sig) > 16 {
					sig = sig[len(sig)-16:]
				}

				e["sig"] = sig
			}
		}

		ops := fact.Operations()
		e["nops"] = len(ops)

		so, sf := map[string]bool{}, map[string]bool{}
		for _, o := range ops {
			if so[o[0].String()] {
				e["dupop"] = true
			}

			if sf[o[1].String()] {
				e["dupfact"] = true
			}

			so[o[0].String()] = true
			sf[o[1].String()] = true
		}

		if !fact.Point().Equal(point) || !fact.PreviousBlock().Equal(w.prevOf(p)) || !fact.Proposer().Equal(local.Address()) {
			e["err"] = "other-position"
		}
	}

	w.emit(e)
}

// feed adds operations; every third one repeats the fact of an earlier operation.
func (w *world) feed(g *rand.Rand, n int, stop <-chan struct{}) {
	var facts []isaac.DummyOperationFact

	for i := 0; i < n; i++ {
		select {
		case <-stop:
			return
		default:
		}

		var fact isaac.DummyOperationFact

		if len(facts) > 0 && g.Intn(3) == 0 {
			fact = facts[g.Intn(len(facts))]
		} else {
			fact = isaac.NewDummyOperationFact(util.UUID().Bytes(), valuehash.RandomSHA256())
			facts = append(facts, fact)
		}

		op, err := isaac.NewDummyOperation(fact, local.Privatekey(), netID)
		if err != nil {
			panic(err)
		}

		if _, err := w.pool.SetOperation(context.Background(), op); err != nil {
			panic(err)
		}

		switch g.Intn(3) {
		case 0:
			runtime.Gosched()
		case 1:
			time.Sleep(time.Duration(g.Intn(100)) * time.Microsecond)
		}
	}
}

// vh C38 record --num N --out f
func run(args []string) error {
	if len(args) < 1 || args[0] != "record" {
		return fmt.Errorf("usage: C38 record --num N --out f")
	}

	fl := h.Flags(args[1:])

	seed, _ := strconv.ParseInt(os.Getenv("VERIF_SEED"), 10, 64)
	if seed == 0 {
		seed = 1
	}

	out, err := h.NewOut(fl["out"])
	if err != nil {
		return err
	}
	defer out.Close()

	num, _ := strconv.Atoi(fl["num"])
	rng := rand.New(rand.NewSource(seed))

	for i := 0; i < num; i++ {
		w, err := newWorld(out, uint64(3+rng.Intn(6)))
		if err != nil {
			return err
		}

		// some operations are there before the first call
		w.feed(rand.New(rand.NewSource(rng.Int63())), rng.Intn(8), nil)

		stop := make(chan struct{})

		var fwg, wg sync.WaitGroup

		fwg.Add(1)

		fg := rand.New(rand.NewSource(rng.Int63()))

		go func() {
			defer fwg.Done()

			w.feed(fg, 30, stop)
		}()

		// a handful of positions per history, so that calls meet
		np := 2 + rng.Intn(3)
		ps := make([]position, np)
		for j := range ps {
			ps[j] = positions[rng.Intn(len(positions))]
		}

		callers := 4 + rng.Intn(5)
		for c := 0; c < callers; c++ {
			g := rand.New(rand.NewSource(rng.Int63()))
			k := 1 + g.Intn(3)

			wg.Add(1)

			go func() {
				defer wg.Done()

				for j := 0; j < k; j++ {
					switch g.Intn(3) {
					case 0:
						runtime.Gosched()
					case 1:
						time.Sleep(time.Duration(g.Intn(150)) * time.Microsecond)
					}

					op := "Make"
					if g.Intn(3) == 0 {
						op = "PreferEmpty"
					}

					w.call(op, ps[g.Intn(len(ps))])
				}
			}()
		}

		wg.Wait()
		close(stop)
		fwg.Wait()
		_ = w.pool.Close()
	}

	return nil
}
