// Package c32 records concurrent histories of the real maps and locked values of util/lock.go
// (binding B; spec/LockedMapTrace.tla searches each history for a linearization).
//
//	vh C32 record --num N --trace trace.ndjson
//
// Every history: 2..4 goroutines x 3..5 calls over the keys k1..k3 on one object
// (SingleLockedMap, ShardedMap with 2/4/64 shards, NewDeepShardedMap, Locked[int]); a Call event is
// logged (one global order) before the real call starts and a Ret event after it returned; the
// answer of the call is attached to its Call event afterwards. After the goroutines finished a
// Final event carries Len() and the content of Map().
// Forced histories (--forced N) hold a goroutine inside a Traverse callback (public API) or at the
// verif gate before the length counter is updated, so that two schedules the random runs may never
// hit are produced deterministically; a schedule the real locks do not admit is skipped.
package c32

import (
	"cmp"
	"errors"
	"fmt"
	"math/rand"
	"os"
	"runtime"
	"sort"
	"strconv"
	"sync"
	"sync/atomic"
	"time"

	"github.com/spikeekips/mitum/util"

	"mitumverif/internal/h"
)

func init() { h.Register("C32", run) }

type ev = map[string]interface{}

var errPlanned = errors.New("planned callback error")

// model keys k1..k3; the real keys differ in their first characters, because util's stringdjb2
// ignores the last character of a key (keys "k1","k2","k3" would all live in one shard)
var keys = []string{"k1", "k2", "k3"}
var realKey = map[string]string{"k1": "alpha-key", "k2": "bravo-key", "k3": "charlie-key"}
var modelKey = map[string]string{"alpha-key": "k1", "bravo-key": "k2", "charlie-key": "k3"}

func rk(k string) string { return realKey[k] }

const maxVal = 9

type call struct {
	id   int
	op   string
	k    string
	md   string
	v    int
	r    []int
	hook func() // runs inside the callback of the call (under the object's lock), if it has one
}

func b(x bool) int {
	if x {
		return 1
	}
	return 0
}

func inc(old int, found bool, v int) int {
	if !found {
		return v
	}
	return old%maxVal + 1
}

type object interface {
	do(c *call)
	final() (int, []int)
	ops() []string
}

// ---- LockedMap ----

// K is the type of the real keys: string for the recorded random histories (default hash of a
// string, random seed), int for the forced first-touch schedules (force.go; an int key hashes to
// itself, so the shard slot of a key is known before the map is touched)
type mapObj[K cmp.Ordered] struct {
	m  util.LockedMap[K, int]
	rk func(string) K // model key -> real key
	mk func(K) string // real key -> model key ("" = not one of ours)
}

func newStringObj(m util.LockedMap[string, int]) *mapObj[string] {
	return &mapObj[string]{m: m, rk: rk, mk: func(real string) string { return modelKey[real] }}
}

var mapOps = []string{"Set", "Set", "Set", "SetValue", "SetValue", "Remove", "Remove", "RemoveValue", "GetOrCreate", "GetOrCreate",
	"SetOrRemove", "SetOrRemove", "Get", "Value", "Exists", "Traverse", "Len"}

func (o *mapObj[K]) ops() []string { return mapOps }

func (o *mapObj[K]) do(c *call) {
	rk := o.rk

	hook := func() {
		if c.hook != nil {
			c.hook()
		}
	}
	switch c.op {
	case "Exists":
		c.r = []int{b(o.m.Exists(rk(c.k)))}
	case "Value":
		v, found := o.m.Value(rk(c.k))
		c.r = []int{b(found), v}
	case "SetValue":
		c.r = []int{b(o.m.SetValue(rk(c.k), c.v))}
	case "RemoveValue":
		c.r = []int{b(o.m.RemoveValue(rk(c.k)))}
	case "Get":
		sf, sv := -1, -1
		err := o.m.Get(rk(c.k), func(v int, found bool) error {
			sf, sv = b(found), v
			hook()
			return nil
		})
		switch {
		case errors.Is(err, util.ErrLockedMapClosed):
			c.r = []int{1, -1, -1}
		case err != nil:
			c.r = []int{9, -1, -1}
		default:
			c.r = []int{0, sf, sv}
		}
	case "GetOrCreate":
		called, cr, sv := false, -1, -1
		err := o.m.GetOrCreate(rk(c.k), func(v int, created bool) error {
			called, cr, sv = true, b(created), v
			hook()
			return nil
		}, func() (int, error) {
			hook() // between the check and the store, under the lock
			switch c.md {
			case "val":
				return c.v, nil
			case "ign":
				return 0, util.ErrLockedSetIgnore.WithStack()
			default:
				return 0, errPlanned
			}
		})
		switch {
		case errors.Is(err, util.ErrLockedMapClosed):
			c.r = []int{1, -1, -1}
		case errors.Is(err, errPlanned):
			c.r = []int{3, -1, -1}
		case err != nil:
			c.r = []int{9, -1, -1}
		case !called:
			c.r = []int{2, -1, -1}
		default:
			c.r = []int{0, cr, sv}
		}
	case "Set":
		sf, sv := -1, -1
		v, created, err := o.m.Set(rk(c.k), func(old int, found bool) (int, error) {
			sf, sv = b(found), old
			hook()
			switch c.md {
			case "set":
				return c.v, nil
			case "inc":
				return inc(old, found, c.v), nil
			case "ign":
				return 0, util.ErrLockedSetIgnore.WithStack()
			default:
				return 0, errPlanned
			}
		})
		switch {
		case errors.Is(err, util.ErrLockedMapClosed):
			c.r = []int{1, -1, -1, -1, -1}
		case errors.Is(err, errPlanned):
			c.r = []int{3, b(created), v, sf, sv}
		case err != nil:
			c.r = []int{9, -1, -1, -1, -1}
		case c.md == "ign":
			c.r = []int{2, b(created), v, sf, sv}
		default:
			c.r = []int{0, b(created), v, sf, sv}
		}
	case "Remove":
		sf, sv := -1, -1
		removed, err := o.m.Remove(rk(c.k), func(v int, found bool) error {
			sf, sv = b(found), v
			hook()
			switch c.md {
			case "ok":
				return nil
			case "ign":
				return util.ErrLockedSetIgnore.WithStack()
			default:
				return errPlanned
			}
		})
		switch {
		case errors.Is(err, util.ErrLockedMapClosed):
			c.r = []int{1, -1, -1, -1}
		case errors.Is(err, errPlanned):
			c.r = []int{3, b(removed), sf, sv}
		case err != nil:
			c.r = []int{9, -1, -1, -1}
		case c.md == "ign":
			c.r = []int{2, b(removed), sf, sv}
		default:
			c.r = []int{0, b(removed), sf, sv}
		}
	case "SetOrRemove":
		sf, sv := -1, -1
		v, created, removed, err := o.m.SetOrRemove(rk(c.k), func(old int, found bool) (int, bool, error) {
			sf, sv = b(found), old
			hook()
			switch c.md {
			case "set":
				return c.v, false, nil
			case "inc":
				return inc(old, found, c.v), false, nil
			case "rm":
				return 0, true, nil
			case "ign":
				return 0, false, util.ErrLockedSetIgnore.WithStack()
			default:
				return 0, false, errPlanned
			}
		})
		switch {
		case errors.Is(err, util.ErrLockedMapClosed):
			c.r = []int{1, -1, -1, -1, -1, -1}
		case errors.Is(err, errPlanned):
			c.r = []int{3, b(created), b(removed), v, sf, sv}
		case err != nil:
			c.r = []int{9, -1, -1, -1, -1, -1}
		case c.md == "ign":
			c.r = []int{2, b(created), b(removed), v, sf, sv}
		default:
			c.r = []int{0, b(created), b(removed), v, sf, sv}
		}
	case "Traverse":
		r := make([]int, len(keys))
		dup := false
		o.m.Traverse(func(real K, v int) bool {
			k := o.mk(real)
			for i := range keys {
				if keys[i] == k {
					if r[i] != 0 {
						dup = true
					}
					r[i] = v
				}
			}
			if c.hook != nil && k == c.k {
				c.hook()
			}
			return true
		})
		if dup {
			r = append(r, 99) // a key visited twice: no sequential map answers that
		}
		c.r = r
	case "Len":
		c.r = []int{o.m.Len()}
	case "Empty":
		o.m.Empty()
		c.r = []int{}
	case "Close":
		o.m.Close()
		c.r = []int{}
	default:
		panic("unknown op " + c.op)
	}
}

func (o *mapObj[K]) final() (int, []int) {
	mm := o.m.Map()
	kv := make([]int, len(keys))
	for i := range keys {
		kv[i] = mm[o.rk(keys[i])]
	}
	return o.m.Len(), kv
}

// ---- Locked[int]: the same sequential object with the single key k1 ----

type lockedObj struct{ l *util.Locked[int] }

var lockedOps = []string{"Set", "Set", "SetValue", "Remove", "RemoveValue", "GetOrCreate", "GetOrCreate", "Get", "Value"}

func (o *lockedObj) ops() []string { return lockedOps }

func (o *lockedObj) do(c *call) {
	c.k = keys[0]
	hook := func() {
		if c.hook != nil {
			c.hook()
		}
	}
	switch c.op {
	case "Value":
		v, isempty := o.l.Value()
		c.r = []int{b(!isempty), v}
	case "SetValue":
		o.l.SetValue(c.v)
		c.r = []int{-1}
	case "RemoveValue":
		o.l.EmptyValue()
		c.r = []int{-1}
	case "Get":
		sf, sv := -1, -1
		err := o.l.Get(func(v int, isempty bool) error {
			sf, sv = b(!isempty), v
			hook()
			return nil
		})
		if err != nil {
			c.r = []int{9, -1, -1}
		} else {
			c.r = []int{0, sf, sv}
		}
	case "GetOrCreate":
		called, cr, sv := false, -1, -1
		err := o.l.GetOrCreate(func(v int, created bool) error {
			called, cr, sv = true, b(created), v
			hook()
			return nil
		}, func() (int, error) {
			hook() // between the check and the store, under the lock
			switch c.md {
			case "val":
				return c.v, nil
			case "ign":
				return 0, util.ErrLockedSetIgnore.WithStack()
			default:
				return 0, errPlanned
			}
		})
		switch {
		case errors.Is(err, errPlanned):
			c.r = []int{3, -1, -1}
		case err != nil:
			c.r = []int{9, -1, -1}
		case !called:
			c.r = []int{2, -1, -1}
		default:
			c.r = []int{0, cr, sv}
		}
	case "Set":
		sf, sv := -1, -1
		v, err := o.l.Set(func(old int, isempty bool) (int, error) {
			sf, sv = b(!isempty), old
			hook()
			switch c.md {
			case "set":
				return c.v, nil
			case "inc":
				return inc(old, !isempty, c.v), nil
			case "ign":
				return 0, util.ErrLockedSetIgnore.WithStack()
			default:
				return 0, errPlanned
			}
		})
		switch {
		case errors.Is(err, errPlanned):
			c.r = []int{3, -1, v, sf, sv}
		case err != nil:
			c.r = []int{9, -1, -1, -1, -1}
		case c.md == "ign":
			c.r = []int{2, -1, v, sf, sv}
		default:
			c.r = []int{0, -1, v, sf, sv}
		}
	case "Remove":
		sf, sv := -1, -1
		err := o.l.Empty(func(v int, isempty bool) error {
			sf, sv = b(!isempty), v
			hook()
			switch c.md {
			case "ok":
				return nil
			case "ign":
				return util.ErrLockedSetIgnore.WithStack()
			default:
				return errPlanned
			}
		})
		switch {
		case errors.Is(err, errPlanned):
			c.r = []int{3, -1, sf, sv}
		case err != nil:
			c.r = []int{9, -1, -1, -1}
		case c.md == "ign":
			c.r = []int{2, -1, sf, sv}
		default:
			c.r = []int{0, -1, sf, sv}
		}
	default:
		panic("unknown op " + c.op)
	}
}

func (o *lockedObj) final() (int, []int) {
	v, isempty := o.l.Value()
	kv := make([]int, len(keys))
	if !isempty {
		kv[0] = v
	}
	return -1000, kv // no length
}

// ---- objects ----

var kinds = []string{"single", "sharded2", "sharded4", "sharded64", "deep2x2", "deep4x4", "locked", "sharded2", "sharded4", "locked"}

func newObject(kind string) (object, error) {
	var m util.LockedMap[string, int]
	var err error
	switch kind {
	case "single":
		m = util.NewSingleLockedMap[string, int]()
	case "sharded2":
		m, err = util.NewShardedMap[string, int](2, nil)
	case "sharded4":
		m, err = util.NewLockedMap[string, int](4, nil)
	case "sharded64":
		m, err = util.NewShardedMap[string, int](64, nil)
	case "deep2x2":
		m, err = util.NewDeepShardedMap[string, int]([]uint64{2, 2}, nil)
	case "deep4x4":
		m, err = util.NewDeepShardedMap[string, int]([]uint64{4, 4}, nil)
	case "locked":
		return &lockedObj{util.EmptyLocked[int]()}, nil
	default:
		return nil, fmt.Errorf("unknown kind %q", kind)
	}
	if err != nil {
		return nil, err
	}
	return newStringObj(m), nil
}

// ---- one history ----

// the log of one history: every goroutine stamps its Call / Ret events with one atomic logical
// clock (Call: before the real call starts, Ret: after it returned) and keeps them privately; the
// stamps give the global order afterwards (a mutex around the log would serialise the calls)
type stamp struct {
	seq int64
	ret bool
	c   *call
}

type hist struct {
	clock int64
	mu    sync.Mutex
	all   [][]stamp
}

type lane struct {
	hs  *hist
	evs []stamp
}

func (hs *hist) lane() *lane { return &lane{hs: hs} }

func (ln *lane) perform(o object, c *call) {
	ln.evs = append(ln.evs, stamp{atomic.AddInt64(&ln.hs.clock, 1), false, c})
	o.do(c)
	ln.evs = append(ln.evs, stamp{atomic.AddInt64(&ln.hs.clock, 1), true, c})
}

func (ln *lane) close() {
	ln.hs.mu.Lock()
	ln.hs.all = append(ln.hs.all, ln.evs)
	ln.hs.mu.Unlock()
}

// perform on a fresh lane (sequential parts of forced histories)
func (hs *hist) perform(o object, c *call) {
	ln := hs.lane()
	ln.perform(o, c)
	ln.close()
}

func (hs *hist) flush(out *h.Out, reset ev, o object) {
	var evs []stamp
	for _, l := range hs.all {
		evs = append(evs, l...)
	}
	reset["n"] = len(evs) + 1 // events of this history after the Reset (calls, returns, Final)
	out.Emit(reset)
	sort.Slice(evs, func(i, j int) bool { return evs[i].seq < evs[j].seq })
	for _, e := range evs {
		c := e.c
		if e.ret {
			out.Emit(ev{"a": "Ret", "c": c.id})
			continue
		}
		r := c.r
		if r == nil {
			r = []int{}
		}
		out.Emit(ev{"a": "Call", "c": c.id, "op": c.op, "k": c.k, "md": c.md, "v": c.v, "r": r})
	}
	n, kv := o.final()
	out.Emit(ev{"a": "Final", "len": n, "kv": kv})
}

func randomCall(rng *rand.Rand, o object, id int, closing bool) *call {
	ops := o.ops()
	c := &call{id: id, op: ops[rng.Intn(len(ops))], k: keys[rng.Intn(len(keys))], md: "-", v: 0}
	if _, ok := o.(*mapObj[string]); ok {
		switch p := rng.Intn(100); {
		case p < 3:
			c.op = "Empty"
		case p < 5 && closing:
			c.op = "Close"
		}
	}
	switch c.op {
	case "SetValue":
		c.v = 1 + rng.Intn(maxVal)
	case "GetOrCreate":
		c.md = []string{"val", "val", "val", "ign", "err"}[rng.Intn(5)]
		c.v = 1 + rng.Intn(maxVal)
	case "Set":
		c.md = []string{"set", "inc", "inc", "ign", "err"}[rng.Intn(5)]
		c.v = 1 + rng.Intn(maxVal)
	case "Remove":
		c.md = []string{"ok", "ok", "ok", "ign", "err"}[rng.Intn(5)]
	case "SetOrRemove":
		c.md = []string{"set", "inc", "rm", "rm", "ign", "err"}[rng.Intn(6)]
		c.v = 1 + rng.Intn(maxVal)
	case "Traverse", "Len", "Empty", "Close":
		c.k = keys[0]
	}
	return c
}

func creatingCall(rng *rand.Rand, id int) *call {
	c := &call{id: id, k: keys[rng.Intn(len(keys))], md: "-", v: 1 + rng.Intn(maxVal)}
	switch rng.Intn(4) {
	case 0:
		c.op = "SetValue"
	case 1:
		c.op, c.md = "Set", []string{"set", "inc"}[rng.Intn(2)]
	case 2:
		c.op, c.md = "GetOrCreate", "val"
	default:
		c.op, c.md = "SetOrRemove", []string{"set", "inc"}[rng.Intn(2)]
	}
	return c
}

func spin(n int) {
	var x uint64
	for i := 0; i < n; i++ {
		x += uint64(i)
	}
	atomic.AddUint64(&sink, x)
}

var sink uint64

func randomHistory(rng *rand.Rand, out *h.Out, idx int, kind string) error {
	o, err := newObject(kind)
	if err != nil {
		return err
	}
	hs := &hist{}
	ng := 2 + rng.Intn(3)
	id := 0
	plans := make([][]*call, ng)
	pauses := make([][]int, ng)
	closing := rng.Intn(4) == 0
	// every third history on a map: the goroutines begin with a creating call, all at once on the
	// fresh object (the first touch of the shard slots happens under contention)
	_, isMap := o.(*mapObj[string])
	firstCreate := isMap && rng.Intn(3) == 0
	for g := 0; g < ng; g++ {
		n := 3 + rng.Intn(3)
		for i := 0; i < n; i++ {
			id++
			c := randomCall(rng, o, id, closing)
			if firstCreate && i == 0 {
				c = creatingCall(rng, id)
			}
			if rng.Intn(2) == 0 {
				w := rng.Intn(3000)
				c.hook = func() {
					// inside the callback, i.e. under the object's lock: stay until some other
					// goroutine has started or ended a call (the logical clock moved), bounded
					t0 := atomic.LoadInt64(&hs.clock)
					for n := 0; n < 40000 && atomic.LoadInt64(&hs.clock) == t0; n++ {
						if n%256 == 255 {
							runtime.Gosched()
						}
					}
					spin(w)
				}
			}
			plans[g] = append(plans[g], c)
			pauses[g] = append(pauses[g], rng.Intn(300))
		}
	}
	// round i: every goroutine that has an i-th call spins on a counter until all of them have
	// arrived, then they call at once (a channel wake-up would serialise them: a call takes ~100 ns)
	var wg sync.WaitGroup
	need := make([]int64, 6)
	for g := 0; g < ng; g++ {
		for i := range plans[g] {
			need[i]++
		}
	}
	arrived := make([]int64, 6)
	for g := 0; g < ng; g++ {
		wg.Add(1)
		go func(g int) {
			defer wg.Done()
			ln := hs.lane()
			defer ln.close()
			for i, c := range plans[g] {
				atomic.AddInt64(&arrived[i], 1)
				for n := 0; atomic.LoadInt64(&arrived[i]) < need[i]; n++ {
					if n%64 == 63 {
						runtime.Gosched()
					}
				}
				spin(pauses[g][i] % 40)
				ln.perform(o, c)
			}
		}(g)
	}
	wg.Wait()
	hs.flush(out, ev{"a": "Reset", "i": idx, "kind": kind, "g": ng}, o)
	return nil
}

// ---- forced histories ----

func within(d time.Duration, f func()) bool {
	done := make(chan struct{})
	go func() { f(); close(done) }()
	select {
	case <-done:
		return true
	case <-time.After(d):
		return false
	}
}

// A Traverse is held inside its callback at key r while two SetValue calls (p then q) complete,
// p in a shard the traversal has passed, q in one it has not reached.
func forcedTraverse(out *h.Out, idx int, kind string) (bool, error) {
	o, err := newObject(kind)
	if err != nil {
		return false, err
	}
	mo, ok := o.(*mapObj[string])
	if !ok {
		return false, nil
	}
	// visiting order of the three keys on this object (its hash seed is random)
	for i, k := range keys {
		mo.m.SetValue(rk(k), i+1)
	}
	var order []string
	mo.m.Traverse(func(k string, _ int) bool { order = append(order, modelKey[k]); return true })
	if len(order) != 3 {
		return false, nil
	}
	mo.m.Empty()
	p, r, q := order[0], order[1], order[2]
	hs := &hist{}
	hs.perform(o, &call{id: 1, op: "SetValue", k: r, md: "-", v: 5})
	atR, goOn := make(chan struct{}), make(chan struct{})
	var once sync.Once
	tr := &call{id: 2, op: "Traverse", k: r, md: "-"}
	tr.hook = func() { once.Do(func() { close(atR); <-goOn }) }
	trDone := make(chan struct{})
	go func() { hs.perform(o, tr); close(trDone) }()
	feasible := true
	select {
	case <-atR:
	case <-time.After(5 * time.Second):
		feasible = false
	}
	cp := &call{id: 3, op: "SetValue", k: p, md: "-", v: 1}
	cq := &call{id: 4, op: "SetValue", k: q, md: "-", v: 2}
	var late sync.WaitGroup
	if feasible {
		for _, c := range []*call{cp, cq} {
			c := c
			late.Add(1)
			if !within(300*time.Millisecond, func() { defer late.Done(); hs.perform(o, c) }) {
				feasible = false // the key shares a lock with the held shard: the schedule does not exist
				break
			}
		}
	}
	close(goOn)
	<-trDone
	late.Wait()
	if !feasible {
		return false, nil
	}
	hs.flush(out, ev{"a": "Reset", "i": idx, "kind": kind, "forced": "traverse", "g": 2}, o)
	return true, nil
}

// A Set (or Remove) is held at the verif gate between its shard operation and the update of the
// length counter while Empty() completes.
func forcedLen(out *h.Out, idx int, kind string, remove bool) (bool, error) {
	o, err := newObject(kind)
	if err != nil {
		return false, err
	}
	mo, ok := o.(*mapObj[string])
	if !ok {
		return false, nil
	}
	if _, sharded := mo.m.(*util.ShardedMap[string, int]); !sharded {
		return false, nil
	}
	hs := &hist{}
	if remove {
		hs.perform(o, &call{id: 1, op: "SetValue", k: "k1", md: "-", v: 4})
	}
	atGate, goOn := make(chan struct{}), make(chan struct{})
	var once sync.Once
	util.VerifSetGate(func(point string, args ...interface{}) {
		if point == "shardedmap.count" && len(args) > 0 && args[0] == interface{}(mo.m) {
			once.Do(func() { close(atGate); <-goOn })
		}
	})
	defer util.VerifSetGate(nil)
	c := &call{id: 2, op: "Set", k: "k1", md: "set", v: 7}
	if remove {
		c = &call{id: 2, op: "Remove", k: "k1", md: "ok"}
	}
	done := make(chan struct{})
	go func() { hs.perform(o, c); close(done) }()
	feasible := true
	select {
	case <-atGate:
	case <-time.After(5 * time.Second):
		feasible = false
	}
	if feasible {
		if !within(2*time.Second, func() { hs.perform(o, &call{id: 3, op: "Empty", k: "k1", md: "-"}) }) {
			feasible = false
		}
	}
	close(goOn)
	<-done
	if !feasible {
		return false, nil
	}
	what := "len-set"
	if remove {
		what = "len-remove"
	}
	hs.flush(out, ev{"a": "Reset", "i": idx, "kind": kind, "forced": what, "g": 2}, o)
	return true, nil
}

func run(args []string) error {
	if len(args) >= 1 && args[0] == "force" {
		return force(h.Flags(args[1:]))
	}
	if len(args) < 1 || args[0] != "record" {
		return fmt.Errorf("usage: C32 record --num N --forced N --trace f | C32 force --in cases --trace f")
	}
	fl := h.Flags(args[1:])
	out, err := h.NewOut(fl["trace"])
	if err != nil {
		return err
	}
	defer out.Close()
	num, _ := strconv.Atoi(fl["num"])
	forced, _ := strconv.Atoi(fl["forced"])
	seed, _ := strconv.ParseInt(os.Getenv("VERIF_SEED"), 10, 64)
	rng := rand.New(rand.NewSource(seed*104729 + 32))
	idx := 0
	fkinds := []string{"sharded64", "deep4x4", "sharded4", "sharded2", "single"}
	for i := 0; i < forced; i++ {
		kind := fkinds[i%len(fkinds)]
		for _, f := range []func() (bool, error){
			func() (bool, error) { return forcedTraverse(out, idx, kind) },
			func() (bool, error) { return forcedLen(out, idx, kind, false) },
			func() (bool, error) { return forcedLen(out, idx, kind, true) },
		} {
			ok, err := f()
			if err != nil {
				return err
			}
			if ok {
				idx++
			}
		}
	}
	for i := 0; i < num; i++ {
		if err := randomHistory(rng, out, idx, kinds[i%len(kinds)]); err != nil {
			return err
		}
		idx++
	}
	out.Emit(ev{"a": "End"})
	return nil
}
