package c32

// Forced first-touch schedules (binding G without a hook in /repo).
//
//	vh C32 force --in cases.ndjson --trace forced.ndjson [--base N] [--timeout ms]
//
// A case is a layout and a command list from TLC's exploration of spec/LockedMapShards.tla
// (Forced = TRUE, the most permissive allocation discipline):
//
//	{"id":7,"kind":"sharded2i","layout":"112","cmds":["S1:SetValue:k1:-:1","S2:Set:k2:inc:2","L1","L2"]}
//
//	layout     slot class of k1, k2, k3: keys with the same digit live in the same leaf shard of the
//	           real map, keys with different digits in different ones (real keys are ints, an int
//	           hashes to itself: the leaf shard of every candidate key is found by probing a twin map)
//	S<g>:..    goroutine g starts that call (if g is still in a call, the call waits in g's queue)
//	L<g>       g, parked inside the constructor, goes on (void when g is not parked)
//
// Every map of a case is FRESH (no warm-up: no shard slot is allocated), and the constructor
// `newMap` handed to NewShardedMap / NewLockedMap / NewDeepShardedMap (for "nested": also the
// constructor of the second level) parks the calling goroutine until the controller lets it go
// on. After every command the controller waits until nothing can move: every goroutine of the case is
// idle, parked in the constructor, or - seen in runtime.Stack - waits for a mutex / read-write lock
// of the map. With the pinned code a goroutine parked in the constructor holds the write lock of the
// slot array, so every later call lines up behind it; a code that builds the inner map outside the lock
// lets the second call into the constructor as well. When the list is exhausted the parked goroutines are
// released one after the other. Whatever the real locks made of the commands is a genuine concurrent
// history of the real map: it is logged like the random histories (Call / Ret stamps, Final Len() and
// Map()) and judged by spec/LockedMapTrace.tla. No quiet state within the time-out => the case is
// reported as not forced (never an alarm).

import (
	"bytes"
	"encoding/json"
	"fmt"
	"math/rand"
	"os"
	"regexp"
	"runtime"
	"strconv"
	"strings"
	"sync"
	"sync/atomic"
	"time"

	"github.com/spikeekips/mitum/util"

	"mitumverif/internal/h"
)

type ftCase struct {
	ID     int      `json:"id"`
	Kind   string   `json:"kind"`
	Layout string   `json:"layout"`
	Cmds   []string `json:"cmds"`
}

var (
	goHeader = regexp.MustCompile(`(?m)^goroutine (\d+) \[([^\],]+)`)
	// a goroutine in one of these states waits for a lock of the code under test (not "semacquire":
	// that is a wait inside the runtime, it ends by itself)
	lockWait = map[string]bool{"sync.Mutex.Lock": true, "sync.RWMutex.Lock": true, "sync.RWMutex.RLock": true}
	stackBuf = make([]byte, 1<<16)
)

func myGoid() string {
	var buf [64]byte
	if m := goHeader.FindSubmatch(buf[:runtime.Stack(buf[:], false)]); m != nil {
		return string(m[1])
	}
	return ""
}

// goroutine id -> state, for all goroutines (stops the world); only the controller calls it
func goStates() map[string]string {
	var raw []byte
	for {
		if k := runtime.Stack(stackBuf, true); k < len(stackBuf) {
			raw = stackBuf[:k]
			break
		}
		stackBuf = make([]byte, 2*len(stackBuf))
	}
	st := map[string]string{}
	for _, m := range goHeader.FindAllSubmatch(raw, -1) {
		st[string(m[1])] = string(m[2])
	}
	return st
}

type worker struct {
	idx     int
	goid    string
	pending int32 // calls handed over and not yet returned
	parked  int32 // inside the constructor
	calls   chan *call
	release chan struct{}
}

type controller struct {
	ws     []*worker
	byGoid map[string]*worker
	ticks  int64 // moves of the workers: call returned, parked, went on
	ctors  int64 // constructor calls by workers
}

// the gate: called by the code under test wherever it builds an inner map
func (ct *controller) gate() {
	w := ct.byGoid[myGoid()]
	if w == nil {
		return // probing, or the controller itself
	}
	atomic.AddInt64(&ct.ctors, 1)
	atomic.StoreInt32(&w.parked, 1)
	atomic.AddInt64(&ct.ticks, 1)
	<-w.release // (the controller has taken the parked mark away: from its send on this goroutine runs)
}

// let a parked worker go on; false: it is not parked
func (ct *controller) letGo(w *worker) bool {
	if !atomic.CompareAndSwapInt32(&w.parked, 1, 0) {
		return false
	}
	atomic.AddInt64(&ct.ticks, 1)
	w.release <- struct{}{}
	return true
}

// quiet: no worker can move without the controller
func (ct *controller) quiet() bool {
	t0 := atomic.LoadInt64(&ct.ticks)
	var running []*worker
	for _, w := range ct.ws {
		switch {
		case atomic.LoadInt32(&w.parked) == 1:
		case atomic.LoadInt32(&w.pending) == 0:
		default:
			running = append(running, w)
		}
	}
	if len(running) > 0 {
		st := goStates() // one instant for all goroutines
		for _, w := range running {
			if !lockWait[st[w.goid]] {
				return false
			}
		}
	}
	// nobody moved between the first look and now: the idle and parked ones were so at the instant of the
	// snapshot, the others waited for a lock whose holder is parked
	return atomic.LoadInt64(&ct.ticks) == t0
}

func (ct *controller) waitQuiet(timeout time.Duration) bool {
	deadline := time.Now().Add(timeout)
	for n := 0; ; n++ {
		if ct.quiet() {
			return true
		}
		if time.Now().After(deadline) {
			return false
		}
		if n < 50 {
			runtime.Gosched()
		} else {
			time.Sleep(20 * time.Microsecond)
		}
	}
}

// ---- real maps with int keys ----

var ftKinds = []string{"sharded2i", "locked4i", "deep2x2i", "nested2x2i", "sharded64i", "deep3x2x2i"}

// the leaf constructor calls gate() before it builds the inner map; nested: the second level is built by
// a constructor of the harness as well (a LockedMap the caller supplies may be a ShardedMap)
func newIntMap(kind string, gate func()) (util.LockedMap[int, int], error) {
	leaf := func() util.LockedMap[int, int] {
		gate()
		return util.NewSingleLockedMap[int, int]()
	}
	switch kind {
	case "sharded2i":
		return util.NewShardedMap[int, int](2, leaf)
	case "sharded64i":
		return util.NewShardedMap[int, int](64, leaf)
	case "locked4i":
		return util.NewLockedMap[int, int](4, leaf)
	case "deep2x2i":
		return util.NewDeepShardedMap[int, int]([]uint64{2, 2}, leaf)
	case "deep3x2x2i":
		return util.NewDeepShardedMap[int, int]([]uint64{3, 2, 2}, leaf)
	case "nested2x2i":
		return util.NewShardedMap[int, int](2, func() util.LockedMap[int, int] {
			gate()
			m, err := util.NewShardedMap[int, int](2, leaf)
			if err != nil {
				panic(err)
			}
			return m
		})
	default:
		return nil, fmt.Errorf("unknown kind %q", kind)
	}
}

// leaf shards of the candidate keys 0..255 on this kind of map (an int key hashes to itself whatever the
// seed of the map): groups of candidates that share their leaf shard, found on a twin map
func probe(kind string) ([][]int, error) {
	m, err := newIntMap(kind, func() {})
	if err != nil {
		return nil, err
	}
	for k := 0; k < 256; k++ {
		m.SetValue(k, 1)
	}
	tm, ok := m.(interface {
		TraverseMap(func(util.LockedMap[int, int]) bool) bool
	})
	if !ok {
		return nil, fmt.Errorf("%s has no TraverseMap", kind)
	}
	var groups [][]int
	tm.TraverseMap(func(leaf util.LockedMap[int, int]) bool {
		var g []int
		leaf.Traverse(func(k, _ int) bool { g = append(g, k); return true })
		if len(g) >= len(keys) {
			groups = append(groups, g)
		}
		return true
	})
	if len(groups) < 2 {
		return nil, fmt.Errorf("%s: %d leaf shards with %d candidates", kind, len(groups), len(keys))
	}
	return groups, nil
}

// real keys for the layout: one leaf group per slot class, distinct candidates within
func realise(rng *rand.Rand, groups [][]int, layout string) (map[string]int, bool) {
	classes := map[byte]int{}
	perm := rng.Perm(len(groups))
	used := map[int]bool{}
	real := map[string]int{}
	for i := range keys {
		var gi int
		if i < len(layout) {
			var ok bool
			if gi, ok = classes[layout[i]]; !ok {
				if len(classes) >= len(groups) {
					return nil, false
				}
				gi = perm[len(classes)]
				classes[layout[i]] = gi
			}
		} else {
			gi = rng.Intn(len(groups)) // a key the case does not use
		}
		g := groups[gi]
		k := g[rng.Intn(len(g))]
		for used[k] {
			k = g[rng.Intn(len(g))]
		}
		used[k] = true
		real[keys[i]] = k
	}
	return real, true
}

func parseStart(s string, id int) (int, *call, error) {
	// S<g>:<op>:<key>:<md>:<v>
	f := strings.Split(s, ":")
	if len(f) != 5 || len(f[0]) < 2 {
		return 0, nil, fmt.Errorf("bad command %q", s)
	}
	g, err := strconv.Atoi(f[0][1:])
	if err != nil {
		return 0, nil, fmt.Errorf("bad command %q", s)
	}
	v, err := strconv.Atoi(f[4])
	if err != nil {
		return 0, nil, fmt.Errorf("bad command %q", s)
	}
	return g, &call{id: id, op: f[1], k: f[2], md: f[3], v: v}, nil
}

// one case on one fresh map; ok = false: not forced
func forceCase(rng *rand.Rand, out *h.Out, c ftCase, groups [][]int, idx int, timeout time.Duration) (bool, string, error) {
	real, ok := realise(rng, groups, c.Layout)
	if !ok {
		return false, "layout needs more leaf shards than the map has", nil
	}
	back := map[int]string{}
	for k, r := range real {
		back[r] = k
	}
	ng := 0
	for _, s := range c.Cmds {
		if g, err := strconv.Atoi(strings.SplitN(s[1:], ":", 2)[0]); err == nil && g > ng {
			ng = g
		}
	}
	ct := &controller{byGoid: map[string]*worker{}}
	m, err := newIntMap(c.Kind, ct.gate)
	if err != nil {
		return false, "", err
	}
	o := &mapObj[int]{m: m, rk: func(k string) int { return real[k] }, mk: func(r int) string { return back[r] }}
	hs := &hist{}
	var wg sync.WaitGroup
	ready := make(chan struct{}, ng)
	for g := 1; g <= ng; g++ {
		w := &worker{idx: g, calls: make(chan *call, 8), release: make(chan struct{})}
		ct.ws = append(ct.ws, w)
		wg.Add(1)
		go func() {
			defer wg.Done()
			w.goid = myGoid()
			ready <- struct{}{}
			ln := hs.lane()
			defer ln.close()
			for cl := range w.calls {
				ln.perform(o, cl)
				atomic.AddInt32(&w.pending, -1)
				atomic.AddInt64(&ct.ticks, 1)
			}
		}()
	}
	for g := 0; g < ng; g++ {
		<-ready
	}
	for _, w := range ct.ws {
		ct.byGoid[w.goid] = w // read-only from here on
	}
	status := ""
	id := 0
	for _, s := range c.Cmds {
		switch s[0] {
		case 'S':
			id++
			g, cl, err := parseStart(s, id)
			if err != nil || g < 1 || g > ng {
				return false, "", fmt.Errorf("case %d: bad command %q", c.ID, s)
			}
			w := ct.ws[g-1]
			atomic.AddInt32(&w.pending, 1)
			w.calls <- cl
		case 'L':
			g, err := strconv.Atoi(s[1:])
			if err != nil || g < 1 || g > ng {
				return false, "", fmt.Errorf("case %d: bad command %q", c.ID, s)
			}
			w := ct.ws[g-1]
			ct.letGo(w)
		default:
			return false, "", fmt.Errorf("case %d: bad command %q", c.ID, s)
		}
		if !ct.waitQuiet(timeout) {
			status = "not quiet after " + s
			break
		}
	}
	// the end: let the parked ones go on, one after the other, until every call has returned
	for status == "" {
		var p *worker
		busy := false
		for _, w := range ct.ws {
			if atomic.LoadInt32(&w.parked) == 1 && p == nil {
				p = w
			}
			if atomic.LoadInt32(&w.pending) > 0 {
				busy = true
			}
		}
		if p == nil {
			if busy {
				status = "calls wait for a lock nobody holds"
			}
			break
		}
		ct.letGo(p)
		if !ct.waitQuiet(timeout) {
			status = "not quiet at the end"
		}
	}
	if status != "" {
		// let everything run out (a worker parked later is released as well), then drop the case
		stop := make(chan struct{})
		go func() {
			for {
				select {
				case <-stop:
					return
				default:
				}
				for _, w := range ct.ws {
					if atomic.CompareAndSwapInt32(&w.parked, 1, 0) {
						select {
						case w.release <- struct{}{}:
						case <-time.After(time.Second):
						}
					}
				}
				time.Sleep(50 * time.Microsecond)
			}
		}()
		for _, w := range ct.ws {
			close(w.calls)
		}
		wg.Wait()
		close(stop)
		return false, status, nil
	}
	for _, w := range ct.ws {
		close(w.calls)
	}
	wg.Wait()
	hs.flush(out, ev{"a": "Reset", "i": idx, "kind": c.Kind, "forced": "first-touch", "g": ng, "case": c.ID,
		"layout": c.Layout, "cmds": c.Cmds, "ctors": atomic.LoadInt64(&ct.ctors)}, o)
	return true, "", nil
}

func force(fl map[string]string) error {
	out, err := h.NewOut(fl["trace"])
	if err != nil {
		return err
	}
	defer out.Close()
	base, _ := strconv.Atoi(fl["base"])
	timeout := 5 * time.Second
	if ms, err := strconv.Atoi(fl["timeout"]); err == nil && ms > 0 {
		timeout = time.Duration(ms) * time.Millisecond
	}
	// one goroutine moves at a time in a forced schedule; with few Ps stopping the world is cheap
	runtime.GOMAXPROCS(2)
	raw, err := os.ReadFile(fl["in"])
	if err != nil {
		return err
	}
	seed, _ := strconv.ParseInt(os.Getenv("VERIF_SEED"), 10, 64)
	rng := rand.New(rand.NewSource(seed*7919 + 3232))
	groups := map[string][][]int{}
	for _, k := range ftKinds {
		if groups[k], err = probe(k); err != nil {
			return err
		}
	}
	idx, notForced := base, 0
	why := map[string]int{}
	for _, line := range bytes.Split(raw, []byte("\n")) {
		if len(bytes.TrimSpace(line)) == 0 {
			continue
		}
		var c ftCase
		if err := json.Unmarshal(line, &c); err != nil {
			return err
		}
		g, known := groups[c.Kind]
		if !known {
			return fmt.Errorf("case %d: unknown kind %q", c.ID, c.Kind)
		}
		ok, status, err := forceCase(rng, out, c, g, idx, timeout)
		if err != nil {
			return err
		}
		if ok {
			idx++
		} else {
			notForced++
			why[status]++
		}
	}
	out.Emit(ev{"a": "End", "forced": idx - base, "not_forced": notForced, "why": why})
	return nil
}
