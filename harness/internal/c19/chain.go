// Package c19 holds the chain generator shared by the database properties
// (C19, C20, C21, C26) and the C19 drivers.
//
// The generator maps the abstract blocks of spec/Database.tla
// ([st: set of keys, g: generation] at height h) to real objects: base.BaseState
// values (the suffrage state with a real isaac.SuffrageNodesStateValue, the
// policy state with a real isaac.NetworkPolicyStateValue), a real isaac.Manifest,
// a signed isaacblock.BlockMap and a real isaacblock.SuffrageProof, encoded with
// the production encoder set (launch.LoadHinters).
package c19

import (
	"fmt"
	"sync"
	"time"

	"github.com/pkg/errors"
	"github.com/spikeekips/mitum/base"
	"github.com/spikeekips/mitum/isaac"
	isaacblock "github.com/spikeekips/mitum/isaac/block"
	"github.com/spikeekips/mitum/launch"
	"github.com/spikeekips/mitum/util"
	"github.com/spikeekips/mitum/util/encoder"
	jsonenc "github.com/spikeekips/mitum/util/encoder/json"
	"github.com/spikeekips/mitum/util/fixedtree"
	"github.com/spikeekips/mitum/util/valuehash"
)

const (
	KeySUF = "SUF"
	KeyPOL = "POL"
)

// Env is the encoder set and the local signer.
type Env struct {
	Encs      *encoder.Encoders
	Enc       encoder.Encoder
	Local     base.LocalNode
	NetworkID base.NetworkID
	Nodes     []base.Node
}

func NewEnv() (*Env, error) {
	enc := jsonenc.NewEncoder()
	encs := encoder.NewEncoders(enc, enc)

	if err := launch.LoadHinters(encs); err != nil {
		return nil, err
	}
	// value type of ordinary states (the repository's own fixture type)
	if err := encs.AddDetail(encoder.DecodeDetail{Hint: base.DummyStateValueHint, Instance: base.DummyStateValue{}}); err != nil {
		return nil, err
	}

	local := isaac.NewLocalNode(base.NewMPrivatekey(), base.NewStringAddress("verif-local"))
	nodes := []base.Node{isaac.NewNode(local.Publickey(), local.Address())}

	for i := 0; i < 2; i++ {
		nodes = append(nodes, isaac.NewNode(base.NewMPrivatekey().Publickey(), base.NewStringAddress(fmt.Sprintf("verif-n%d", i))))
	}

	return &Env{Encs: encs, Enc: enc, Local: local, NetworkID: base.NetworkID("verif-network"), Nodes: nodes}, nil
}

// Ref names an abstract object: the block (height, generation) that holds it.
// nil is "not found"; {-9,-9} is "an object the generator never made".
type Ref []int

func (r Ref) Eq(o Ref) bool {
	if len(r) != len(o) {
		return false
	}

	for i := range r {
		if r[i] != o[i] {
			return false
		}
	}

	return true
}

var Unknown = Ref{-9, -9}

// Block is one generated block.
type Block struct {
	H, G     int
	Keys     []string              // abstract keys written
	States   []base.State          // same order as Keys
	ByKey    map[string]base.State // abstract key -> state
	Ops      []util.Hash           // known operations
	Map      base.BlockMap
	Proof    base.SuffrageProof // nil when the block does not change the suffrage
	Policy   base.NetworkPolicy // nil when the block does not change the policy
	SufH     int
	ExtraSts []base.State // filler states (large blocks, C21; block size classes of Database.tla)
	XOps     int          // how many of Ops are the extra known operations of a size class
	WCache   int          // state cache size of this block's block write database; 0: the DB's WriteCache, < 0: none
}

// Gen creates blocks and remembers every object it ever made, so that what a read
// returns can be named.
type Gen struct {
	Env *Env
	mu  sync.Mutex
	seq uint64

	stateRef  map[string]Ref // state hash -> (h, g)
	mapRef    map[string]Ref // manifest hash -> (h, g)
	policyRef map[string]Ref // policy hash bytes -> (h, g)
	Blocks    []*Block       // every block ever generated, removed ones included
	prevState map[string]util.Hash
	prevMap   util.Hash
}

func NewGen(env *Env) *Gen {
	return &Gen{
		Env:       env,
		stateRef:  map[string]Ref{},
		mapRef:    map[string]Ref{},
		policyRef: map[string]Ref{},
		prevState: map[string]util.Hash{},
	}
}

// RealKey maps an abstract key to the state key used in the database.
func RealKey(k string) string {
	switch k {
	case KeySUF:
		return isaac.SuffrageStateKey
	case KeyPOL:
		return isaac.NetworkPolicyStateKey
	default:
		return "verif-key-" + k
	}
}

func (g *Gen) next() uint64 {
	g.seq++

	return g.seq
}

func (g *Gen) hash(tag string) util.Hash {
	return valuehash.NewSHA256([]byte(fmt.Sprintf("%s-%d", tag, g.next())))
}

// NewBlock builds the real objects of an abstract block. sufHeight < 0: no suffrage change.
// filler: number of additional ordinary states (unique keys) to make the block large.
func (g *Gen) NewBlock(h, gen int, keys []string, sufHeight int, filler int) (*Block, error) {
	return g.NewBlockSized(h, gen, keys, sufHeight, filler, 0)
}

// NewBlockSized: a block of a size class of spec/Database.tla - filler states (one state record and one
// in-state operation record each) and xops extra known operations (one record each) on top of the keyed
// states (one state record, two in-state operation records each) and the two known operations every block has.
func (g *Gen) NewBlockSized(h, gen int, keys []string, sufHeight int, filler, xops int) (*Block, error) {
	g.mu.Lock()
	defer g.mu.Unlock()

	height := base.Height(int64(h))
	b := &Block{H: h, G: gen, Keys: keys, ByKey: map[string]base.State{}, SufH: sufHeight, XOps: xops}

	var sufst base.State

	for _, k := range keys {
		var v base.StateValue

		switch k {
		case KeySUF:
			if sufHeight < 0 {
				return nil, errors.Errorf("SUF without suffrage height")
			}

			sn := make([]base.SuffrageNodeStateValue, 0, len(g.Env.Nodes))
			// the suffrage changes: membership alternates with the suffrage height
			for i, n := range g.Env.Nodes {
				if i > 0 && (sufHeight+i)%2 == 0 && sufHeight > 0 {
					continue
				}

				sn = append(sn, isaac.NewSuffrageNodeStateValue(n, height))
			}

			v = isaac.NewSuffrageNodesStateValue(base.Height(int64(sufHeight)), sn)
		case KeyPOL:
			p := isaac.DefaultNetworkPolicy()
			p.SetMaxOperationsInProposal(1000 + g.next()) // every policy is distinguishable
			b.Policy = p
			v = isaac.NewNetworkPolicyStateValue(p)
			g.policyRef[string(p.HashBytes())] = Ref{h, gen}
		default:
			v = base.NewDummyStateValue(fmt.Sprintf("v-%s-%d-%d-%d", k, h, gen, g.next()))
		}

		st := base.NewBaseState(height, RealKey(k), v, g.prevState[k],
			[]util.Hash{g.hash("fact"), g.hash("fact")})
		g.prevState[k] = st.Hash()
		g.stateRef[st.Hash().String()] = Ref{h, gen}
		b.States = append(b.States, st)
		b.ByKey[k] = st

		if k == KeySUF {
			sufst = st
		}
	}

	for i := 0; i < filler; i++ {
		st := base.NewBaseState(height, fmt.Sprintf("verif-fill-%d-%d-%04d", h, gen, i),
			base.NewDummyStateValue(fmt.Sprintf("f-%d", g.next())), nil, []util.Hash{g.hash("ffact")})
		g.stateRef[st.Hash().String()] = Ref{h, gen}
		b.ExtraSts = append(b.ExtraSts, st)
	}

	b.Ops = []util.Hash{g.hash("op"), g.hash("op")}
	for i := 0; i < xops; i++ {
		b.Ops = append(b.Ops, g.hash("xop"))
	}

	// states tree over the block's states (real fixed tree, the proof of the suffrage state comes from it)
	var statestree util.Hash
	var sufproof fixedtree.Proof

	if all := append(append([]base.State{}, b.States...), b.ExtraSts...); len(all) > 0 {
		w, err := fixedtree.NewWriter(base.StateFixedtreeHint, uint64(len(all)))
		if err != nil {
			return nil, err
		}

		for i := range all {
			if err := w.Add(uint64(i), fixedtree.NewBaseNode(all[i].Hash().String())); err != nil {
				return nil, err
			}
		}

		tr, err := w.Tree()
		if err != nil {
			return nil, err
		}

		statestree = tr.Root()

		if sufst != nil {
			if sufproof, err = tr.Proof(sufst.Hash().String()); err != nil {
				return nil, err
			}
		}
	}

	var sufhash util.Hash
	if sufst != nil {
		sufhash = sufst.Hash()
	}

	manifest := isaac.NewManifest(height, g.prevMap, g.hash("proposal"), g.hash("opstree"), statestree, sufhash,
		time.Unix(1700000000+int64(g.next()), 0).UTC())
	g.prevMap = manifest.Hash()

	m := isaacblock.NewBlockMap()
	m.SetManifest(manifest)

	items := []base.BlockItemType{base.BlockItemProposal, base.BlockItemVoteproofs, base.BlockItemOperationsTree, base.BlockItemOperations}
	if statestree != nil {
		items = append(items, base.BlockItemStatesTree, base.BlockItemStates)
	}

	for _, t := range items {
		if err := m.SetItem(isaacblock.NewBlockMapItem(t, fmt.Sprintf("checksum-%d", g.next()))); err != nil {
			return nil, err
		}
	}

	if err := m.Sign(g.Env.Local.Address(), g.Env.Local.Privatekey(), g.Env.NetworkID); err != nil {
		return nil, err
	}

	if err := m.IsValid(g.Env.NetworkID); err != nil {
		return nil, errors.WithMessage(err, "generated block map")
	}

	b.Map = m
	g.mapRef[manifest.Hash().String()] = Ref{h, gen}

	if sufst != nil {
		b.Proof = isaacblock.NewSuffrageProof(m, sufst, sufproof)
		if err := b.Proof.IsValid(g.Env.NetworkID); err != nil {
			return nil, errors.WithMessage(err, "generated suffrage proof")
		}
	}

	g.Blocks = append(g.Blocks, b)

	return b, nil
}

// BatchedRecords: the records the block hands to the block write database's batch - one per state, one
// per in-state operation of a state, one per known operation (Batched of spec/Database.tla).
func (b *Block) BatchedRecords() int {
	n := len(b.Ops)

	for _, st := range b.States {
		n += 1 + len(st.Operations())
	}

	for _, st := range b.ExtraSts {
		n += 1 + len(st.Operations())
	}

	return n
}

func (g *Gen) StateRef(st base.State) Ref {
	if st == nil {
		return nil
	}

	g.mu.Lock()
	defer g.mu.Unlock()

	if r, ok := g.stateRef[st.Hash().String()]; ok {
		return r
	}

	return Unknown
}

func (g *Gen) MapRef(m base.BlockMap) Ref {
	if m == nil {
		return nil
	}

	g.mu.Lock()
	defer g.mu.Unlock()

	if r, ok := g.mapRef[m.Manifest().Hash().String()]; ok {
		return r
	}

	return Unknown
}

// ProofRef: a proof is the one of block (h,g) iff both its state and its block map are.
func (g *Gen) ProofRef(p base.SuffrageProof) Ref {
	if p == nil {
		return nil
	}

	a, b := g.StateRef(p.State()), g.MapRef(p.Map())
	if a.Eq(b) {
		return a
	}

	return Unknown
}

func (g *Gen) PolicyRef(p base.NetworkPolicy) Ref {
	if p == nil {
		return nil
	}

	g.mu.Lock()
	defer g.mu.Unlock()

	if r, ok := g.policyRef[string(p.HashBytes())]; ok {
		return r
	}

	return Unknown
}
