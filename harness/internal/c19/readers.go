package c19

import (
	"math/rand"
	"os"
	"runtime"
	"strconv"
	"sync"
	"sync/atomic"
	"time"

	"github.com/pkg/errors"
	"github.com/spikeekips/mitum/base"

	"mitumverif/internal/h"
)

// readers: binding B of C19's last sentence. A real Center; one goroutine writes blocks, one
// merges (mergePermanent / MergeAllPermanent / cleanRemoved through the verif accessors), several
// readers loop over the reads. Every completed read is logged with the window [lo, hi] of
// heights that a linearizable database may answer (see spec/DatabaseTrace.tla).
type rEvent struct {
	A   string   `json:"a"`
	R   int      `json:"r,omitempty"`
	K   string   `json:"k,omitempty"`
	Got int      `json:"got"`
	Lo  int      `json:"lo"`
	Hi  int      `json:"hi"`
	H   int      `json:"h"`
	St  []string `json:"st,omitempty"`
	PC  int      `json:"pc"`
}

var maxReads = 1000

func readers(fl map[string]string) error {
	env, err := NewEnv()
	if err != nil {
		return err
	}

	seed, _ := strconv.ParseInt(os.Getenv("VERIF_SEED"), 10, 64)
	runs, _ := strconv.Atoi(fl["runs"])
	nblocks, _ := strconv.Atoi(fl["blocks"])
	nreaders, _ := strconv.Atoi(fl["readers"])

	maxReads, _ = strconv.Atoi(fl["reads"])
	if maxReads < 1 {
		maxReads = 1000
	}

	if runs < 1 || nblocks < 1 || nreaders < 1 {
		return errors.Errorf("readers: --runs --blocks --readers")
	}

	out, err := h.NewOut(fl["out"])
	if err != nil {
		return err
	}

	defer out.Close()

	for run := 0; run < runs; run++ {
		if err := readersRun(env, out, rand.New(rand.NewSource(seed*1000+int64(run))), nblocks, nreaders, run); err != nil {
			return err
		}
	}

	return nil
}

func readersRun(env *Env, out *h.Out, rng *rand.Rand, nblocks, nreaders, run int) error {
	keys := []string{"a", "b", KeySUF, KeyPOL}
	gen := NewGen(env)
	db := NewDB(env, gen, "", []int{0, 2, 4096}[run%3], []int{0, 1, 64}[(run/3)%3])

	if err := db.Open(); err != nil {
		return err
	}

	defer func() { _ = db.Close() }()

	out.Emit(rEvent{A: "Reset", PC: db.PermCache})

	// per key: newest height whose commit has been called / has returned
	started := map[string]*atomic.Int64{}
	done := map[string]*atomic.Int64{}

	for _, k := range append(append([]string{}, keys...), "LAST") {
		started[k] = &atomic.Int64{}
		done[k] = &atomic.Int64{}
		started[k].Store(-1)
		done[k].Store(-1)
	}

	var blocks sync.Map // height -> *Block

	// The data of a merged temp database is removed by Center.cleanRemoved only after three more
	// merge ticks (6 s in production) "for safe concurrency access": the code assumes that no read
	// is in flight that long. The driver merges every few hundred microseconds, so it states the
	// assumption explicitly: cleanRemoved(3) runs while no read is in flight.
	var inflight sync.RWMutex

	var stop atomic.Bool

	var wg sync.WaitGroup

	var ferr error

	var fmu sync.Mutex

	fail := func(err error) {
		fmu.Lock()
		if ferr == nil {
			ferr = err
		}
		fmu.Unlock()
		stop.Store(true)
	}

	// plan the chain
	plan := make([][]string, nblocks)
	sufh := make([]int, nblocks)
	ns := 0

	for i := range plan {
		for _, k := range keys {
			if i == 0 || rng.Intn(3) == 0 {
				plan[i] = append(plan[i], k)
			}
		}

		sufh[i] = -1

		for _, k := range plan[i] {
			if k == KeySUF {
				sufh[i] = ns
				ns++
			}
		}
	}

	wseed, mseed := rng.Int63(), rng.Int63()
	rseeds := make([]int64, nreaders)

	for i := range rseeds {
		rseeds[i] = rng.Int63()
	}

	// writer
	wg.Add(1)

	go func() {
		defer wg.Done()
		defer stop.Store(true)

		r := rand.New(rand.NewSource(wseed))

		for i := 0; i < nblocks && !stop.Load(); i++ {
			b, err := gen.NewBlock(i, 1, plan[i], sufh[i], 0)
			if err != nil {
				fail(err)

				return
			}

			blocks.Store(i, b)

			for _, k := range plan[i] {
				started[k].Store(int64(i))
			}

			started["LAST"].Store(int64(i))

			if err := db.WriteBlock(b); err != nil {
				fail(errors.WithMessagef(err, "write block %d", i))

				return
			}

			for _, k := range plan[i] {
				done[k].Store(int64(i))
			}

			done["LAST"].Store(int64(i))
			out.Emit(rEvent{A: "W", H: i, St: plan[i]})

			if r.Intn(2) == 0 {
				runtime.Gosched()
			} else {
				time.Sleep(time.Duration(r.Intn(300)) * time.Microsecond)
			}
		}
		// let the merger and the readers see the end state for a moment
		time.Sleep(2 * time.Millisecond)
	}()

	// merger: the two halves of Center.start's ticker, and MergeAllPermanent
	wg.Add(1)

	go func() {
		defer wg.Done()

		r := rand.New(rand.NewSource(mseed))

		for !stop.Load() {
			switch r.Intn(4) {
			case 0, 1:
				if _, err := db.Center.VerifMergeOne(); err != nil {
					fail(errors.WithMessage(err, "merge one"))

					return
				}
			case 2:
				if err := db.Center.MergeAllPermanent(); err != nil {
					fail(errors.WithMessage(err, "merge all"))

					return
				}
			case 3:
				inflight.Lock()
				err := db.Center.VerifCleanRemoved(3)
				inflight.Unlock()

				if err != nil {
					fail(errors.WithMessage(err, "clean removed"))

					return
				}
			}

			time.Sleep(time.Duration(r.Intn(200)) * time.Microsecond)
		}
	}()

	for ri := 1; ri <= nreaders; ri++ {
		wg.Add(1)

		go func(ri int) {
			defer wg.Done()

			r := rand.New(rand.NewSource(rseeds[ri-1]))
			n := 0

			for !stop.Load() && n < maxReads {
				n++

				inflight.RLock()
				ok := func() bool {
					defer inflight.RUnlock()

					switch w := r.Intn(8); {
					case w < 4:
						k := keys[w]
						lo := done[k].Load()
						st, found, err := db.Center.State(RealKey(k))
						hi := started[k].Load()

						if err != nil {
							fail(errors.WithMessagef(err, "State(%s)", k))

							return false
						}

						got := -1
						if found {
							got = int(st.Height().Int64())
						}

						out.Emit(rEvent{A: "R", R: ri, K: k, Got: got, Lo: int(lo), Hi: int(hi)})
					case w == 4:
						lo := done["LAST"].Load()
						m, found, err := db.Center.LastBlockMap()
						hi := started["LAST"].Load()

						if err != nil {
							fail(errors.WithMessage(err, "LastBlockMap"))

							return false
						}

						got := -1
						if found {
							got = int(m.Manifest().Height().Int64())
						}

						out.Emit(rEvent{A: "R", R: ri, K: "LBM", Got: got, Lo: int(lo), Hi: int(hi)})
					case w == 5:
						lo := done[KeySUF].Load()
						p, found, err := db.Center.LastSuffrageProof()
						hi := started[KeySUF].Load()

						if err != nil {
							fail(errors.WithMessage(err, "LastSuffrageProof"))

							return false
						}

						got := -1
						if found {
							got = int(p.Map().Manifest().Height().Int64())
						}

						out.Emit(rEvent{A: "R", R: ri, K: "LSP", Got: got, Lo: int(lo), Hi: int(hi)})
					case w == 6:
						lo := done["LAST"].Load()
						if lo < 0 {
							return true
						}

						bi, _ := blocks.Load(int(lo))
						b := bi.(*Block) //nolint:forcetypeassert //...
						got := int(lo)

						for _, op := range b.Ops {
							found, err := db.Center.ExistsKnownOperation(op)
							if err != nil {
								fail(errors.WithMessage(err, "ExistsKnownOperation"))

								return false
							}

							if !found {
								got = -1
							}
						}

						out.Emit(rEvent{A: "R", R: ri, K: "KNO", Got: got, Lo: int(lo), Hi: int(started["LAST"].Load())})
					default:
						lo := done["LAST"].Load()
						if lo < 0 {
							return true
						}

						hq := lo
						if lo > 0 && r.Intn(2) == 0 {
							hq = lo - int64(r.Intn(int(lo)+1))
						}

						m, found, err := db.Center.BlockMap(base.Height(hq))
						if err != nil {
							fail(errors.WithMessage(err, "BlockMap"))

							return false
						}

						got := -1
						if found && m.Manifest().Height().Int64() == hq {
							got = int(lo) // found, as it must be: reported on the scale of lo
						}

						out.Emit(rEvent{A: "R", R: ri, K: "BM", Got: got, Lo: int(lo), Hi: int(started["LAST"].Load())})
					}

					return true
				}()
				if !ok {
					return
				}

				if r.Intn(4) == 0 {
					runtime.Gosched()
				}
			}
		}(ri)
	}

	wg.Wait()

	return ferr
}
