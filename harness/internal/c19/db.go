package c19

import (
	"bytes"
	"context"
	"crypto/sha256"
	"fmt"
	"os"
	"runtime"
	"sort"
	"strings"
	"sync"
	"time"

	"github.com/pkg/errors"
	"github.com/spikeekips/mitum/base"
	"github.com/spikeekips/mitum/isaac"
	isaacdatabase "github.com/spikeekips/mitum/isaac/database"
	leveldbstorage "github.com/spikeekips/mitum/storage/leveldb"
	"github.com/spikeekips/mitum/util"
	leveldbStorage "github.com/syndtr/goleveldb/leveldb/storage"
)

// DB is a real Center over a real LeveldbPermanent (or any PermanentDatabase) and real
// LeveldbBlockWrite databases, all on one leveldb storage - the wiring of launch.LoadDatabase.
type DB struct {
	Env         *Env
	Gen         *Gen
	Dir         string // "" = in-memory leveldb
	St          *leveldbstorage.Storage
	Perm        isaac.PermanentDatabase
	Center      *isaacdatabase.Center
	PermCache   int // state cache size of the permanent store (production default 4096)
	WriteCache  int // state cache size of every block write database; 0 = none
	NewPerm     func(*DB) (isaac.PermanentDatabase, error)
	AfterOpenSt func(*DB) // hook for C21 (install fault budget)
}

func OpenStorage(dir string) (*leveldbstorage.Storage, error) {
	if dir == "" {
		return leveldbstorage.NewStorage(leveldbStorage.NewMemStorage(), nil)
	}

	if err := os.MkdirAll(dir, 0o755); err != nil {
		return nil, err
	}

	str, err := leveldbStorage.OpenFile(dir, false)
	if err != nil {
		return nil, errors.WithStack(err)
	}

	return leveldbstorage.NewStorage(str, nil)
}

func NewDB(env *Env, gen *Gen, dir string, permcache, writecache int) *DB {
	return &DB{Env: env, Gen: gen, Dir: dir, PermCache: permcache, WriteCache: writecache}
}

// Open creates storage, permanent store and Center (what a node does at start, without
// the MergeAllPermanent that launch.LoadDatabase adds - that is a separate action).
func (d *DB) Open() error {
	st, err := OpenStorage(d.Dir)
	if err != nil {
		return err
	}

	d.St = st

	if d.AfterOpenSt != nil {
		d.AfterOpenSt(d)
	}

	return d.OpenOn()
}

// OpenOn builds permanent store and Center over the already open storage.
func (d *DB) OpenOn() error {
	var perm isaac.PermanentDatabase
	var err error

	if d.NewPerm != nil {
		perm, err = d.NewPerm(d)
	} else {
		perm, err = isaacdatabase.NewLeveldbPermanent(d.St, d.Env.Encs, d.Env.Enc, d.PermCache)
	}

	if err != nil {
		return errors.WithMessage(err, "open permanent database")
	}

	d.Perm = perm

	st := d.St

	center, err := isaacdatabase.NewCenter(st, d.Env.Encs, d.Env.Enc, perm,
		func(height base.Height) (isaac.BlockWriteDatabase, error) {
			return isaacdatabase.NewLeveldbBlockWrite(height, st, d.Env.Encs, d.Env.Enc), nil
		})
	if err != nil {
		return errors.WithMessage(err, "open center")
	}

	d.Center = center

	return nil
}

// Center.dig returns as soon as one temp database has the answer and leaves the look-ups of the
// other temps running in their goroutines; closing the leveldb under such a straggler makes
// goleveldb panic (a process that really stops does not care). The drivers therefore take every
// round of reads under digGate and close a storage only when no look-up of Center.dig is left.
var digGate sync.RWMutex

var stackBuf = make([]byte, 4<<20) // used under digGate.Lock only

func straysLeft() bool {
	n := runtime.Stack(stackBuf, true)

	return bytes.Contains(stackBuf[:n], []byte("isaac/database.(*Center).dig"))
}

// WaitStragglers blocks new read rounds and waits until no look-up started by Center.dig is running.
func WaitStragglers() {
	digGate.Lock()
	defer digGate.Unlock()

	for i := 0; i < 5000 && straysLeft(); i++ {
		time.Sleep(time.Millisecond)
	}
}

// WaitFrames waits until no goroutine of the process has a frame whose function name contains
// sub (bounded): used to let the workers of an aborted call finish before the storage is closed.
func WaitFrames(sub string) {
	digGate.Lock()
	defer digGate.Unlock()

	for i := 0; i < 5000; i++ {
		n := runtime.Stack(stackBuf, true)
		if !bytes.Contains(stackBuf[:n], []byte(sub)) {
			return
		}

		time.Sleep(time.Millisecond)
	}
}

// ReadRound runs f (calls of Center's reads) so that no storage is closed meanwhile.
func ReadRound(f func()) {
	digGate.RLock()
	defer digGate.RUnlock()

	f()
}

// Close closes Center, permanent store and the storage.
func (d *DB) Close() error {
	if d.St != nil {
		WaitStragglers()
	}

	if d.Center != nil {
		if err := d.Center.Close(); err != nil {
			return err
		}
	}

	if d.Perm != nil {
		if err := d.Perm.Close(); err != nil {
			return err
		}
	}

	if d.St != nil {
		if err := d.St.Close(); err != nil {
			return err
		}
	}

	d.Center, d.Perm, d.St = nil, nil, nil

	return nil
}

// FillBlockWrite performs the calls a block writer makes on the block write database.
func (d *DB) FillBlockWrite(bw isaac.BlockWriteDatabase, b *Block) error {
	wc := d.WriteCache
	if b.WCache != 0 {
		wc = b.WCache
	}

	if wc > 0 {
		if i, ok := bw.(isaac.StateCacheSetter); ok {
			i.SetStateCache(util.NewLFUGCache[string, [2]interface{}](wc))
		}
	}

	sts := append(append([]base.State{}, b.States...), b.ExtraSts...)

	if err := bw.SetStates(sts); err != nil {
		return errors.WithMessage(err, "SetStates")
	}

	if err := bw.SetOperations(b.Ops); err != nil {
		return errors.WithMessage(err, "SetOperations")
	}

	if err := bw.SetBlockMap(b.Map); err != nil {
		return errors.WithMessage(err, "SetBlockMap")
	}

	if b.Proof != nil {
		if err := bw.SetSuffrageProof(b.Proof); err != nil {
			return errors.WithMessage(err, "SetSuffrageProof")
		}
	}

	if err := bw.Write(); err != nil {
		return errors.WithMessage(err, "Write")
	}

	return nil
}

// WriteBlock: NewBlockWriteDatabase -> fill -> Write -> MergeBlockWriteDatabase.
func (d *DB) WriteBlock(b *Block) error {
	bw, err := d.Center.NewBlockWriteDatabase(base.Height(int64(b.H)))
	if err != nil {
		return err
	}

	if err := d.FillBlockWrite(bw, b); err != nil {
		return err
	}

	return d.Center.MergeBlockWriteDatabase(bw)
}

// PermMerge: the block goes straight into the permanent store (C26).
func (d *DB) PermMerge(b *Block) error {
	bw := isaacdatabase.NewLeveldbBlockWrite(base.Height(int64(b.H)), d.St, d.Env.Encs, d.Env.Enc)

	if err := d.FillBlockWrite(bw, b); err != nil {
		return err
	}

	temp, err := bw.TempDatabase()
	if err != nil {
		return err
	}

	if err := temp.Merge(); err != nil {
		return err
	}

	return d.Perm.MergeTempDatabase(context.Background(), temp)
}

// Reader is what Center and a PermanentDatabase have in common, plus the Center-only reads.
type Reader interface {
	isaac.BaseDatabase
	BlockMap(base.Height) (base.BlockMap, bool, error)
	BlockMapBytes(base.Height) (string, []byte, []byte, bool, error)
	LastBlockMap() (base.BlockMap, bool, error)
	LastBlockMapBytes() (string, []byte, []byte, bool, error)
	LastSuffrageProof() (base.SuffrageProof, bool, error)
	SuffrageProof(base.Height) (base.SuffrageProof, bool, error)
	SuffrageProofBytes(base.Height) (string, []byte, []byte, bool, error)
	SuffrageProofByBlockHeight(base.Height) (base.SuffrageProof, bool, error)
	LastNetworkPolicy() base.NetworkPolicy
}

// Obs is the answer of every read, named by abstract references (see Reads in Database.tla).
// Fields ending in B are the ...Bytes twins: the reference of the object the body decodes to
// (Unknown with a note when header/meta are not the ones stored).
type Obs struct {
	St   map[string]Ref    `json:"st"`
	StB  map[string]Ref    `json:"stb"`
	Bm   []Ref             `json:"bm"`
	BmB  []Ref             `json:"bmb"`
	Lbm  Ref               `json:"lbm"`
	LbmB Ref               `json:"lbmb"`
	Sp   []Ref             `json:"sp"`
	SpB  []Ref             `json:"spb"`
	Sph  []Ref             `json:"sph"`
	Lsp  Ref               `json:"lsp"`
	LspB Ref               `json:"lspb"`
	Ilh  int               `json:"ilh"` // height returned by Center.LastSuffrageProofBytes
	Pol  Ref               `json:"pol"`
	Iso  [][]interface{}   `json:"iso"`
	Kno  [][]int           `json:"kno"`
	Fl   [][]int           `json:"fl,omitempty"` // per block with filler states: h, g, filler states found by State, by StateBytes, in-state operations found
	Errs []string          `json:"errs,omitempty"`
	Raw  map[string]string `json:"-"` // C20: raw bytes per read, "enchint|meta|body"
}

func rawKey(enchint string, meta, body []byte) string {
	return fmt.Sprintf("%s|%x|%x", enchint, meta, body)
}

// DiffObs compares two observations of the same database (before / after a reopen, or two
// back-ends): object reads by reference, Bytes reads byte for byte (enchint, meta, body).
func DiffObs(before, after *Obs) []ObsDiff {
	var ds []ObsDiff

	add := func(read, part, b, a string) {
		if a != b {
			ds = append(ds, ObsDiff{Read: read, Part: part, Before: b, After: a})
		}
	}
	ref := func(r Ref) string {
		if len(r) == 0 {
			return "-"
		}

		return fmt.Sprint([]int(r))
	}
	refs := func(name string, b, a []Ref) {
		for i := range b {
			if i < len(a) {
				add(fmt.Sprintf("%s(%d)", name, i), "object", ref(b[i]), ref(a[i]))
			}
		}
	}

	var keys []string
	for k := range before.St {
		keys = append(keys, k)
	}

	sort.Strings(keys)

	for _, k := range keys {
		add("State("+k+")", "object", ref(before.St[k]), ref(after.St[k]))
		add("StateBytes("+k+")", "object", ref(before.StB[k]), ref(after.StB[k]))
	}

	refs("BlockMap", before.Bm, after.Bm)
	refs("BlockMapBytes", before.BmB, after.BmB)
	add("LastBlockMap", "object", ref(before.Lbm), ref(after.Lbm))
	add("LastBlockMapBytes", "object", ref(before.LbmB), ref(after.LbmB))
	refs("SuffrageProof", before.Sp, after.Sp)
	refs("SuffrageProofBytes", before.SpB, after.SpB)
	refs("SuffrageProofByBlockHeight", before.Sph, after.Sph)
	add("LastSuffrageProof", "object", ref(before.Lsp), ref(after.Lsp))
	add("LastSuffrageProofBytes", "object", ref(before.LspB), ref(after.LspB))
	add("LastNetworkPolicy", "object", ref(before.Pol), ref(after.Pol))
	add("ExistsInStateOperation", "set", fmt.Sprint(before.Iso), fmt.Sprint(after.Iso))
	add("ExistsKnownOperation", "set", fmt.Sprint(before.Kno), fmt.Sprint(after.Kno))

	for i := range before.Fl {
		if i < len(after.Fl) {
			b, a := before.Fl[i], after.Fl[i]
			name := fmt.Sprintf("[filler](%d.%d)", b[0], b[1])
			add("State"+name, "found", fmt.Sprint(b[2]), fmt.Sprint(a[2]))
			add("StateBytes"+name, "found", fmt.Sprint(b[3]), fmt.Sprint(a[3]))
			add("ExistsInStateOperation"+name, "found", fmt.Sprint(b[4]), fmt.Sprint(a[4]))
		}
	}

	var rk []string
	for k := range before.Raw {
		rk = append(rk, k)
	}

	for k := range after.Raw {
		if _, ok := before.Raw[k]; !ok {
			rk = append(rk, k)
		}
	}

	sort.Strings(rk)

	for _, k := range rk {
		b, bok := before.Raw[k]
		a, aok := after.Raw[k]

		switch {
		case bok != aok:
			add(k, "found", fmt.Sprint(bok), fmt.Sprint(aok))
		case a != b && strings.HasPrefix(b, "pool|"):
			add(k, "pool", short(b[5:]), short(a[5:]))
		case a != b:
			bp, ap := strings.SplitN(b, "|", 3), strings.SplitN(a, "|", 3)
			for i, part := range []string{"enchint", "meta", "body"} {
				if bp[i] != ap[i] {
					add(k, part, short(bp[i]), short(ap[i]))
				}
			}
		}
	}

	return ds
}

func short(s string) string {
	if s == "" {
		return "<empty>"
	}

	if len(s) > 48 {
		return fmt.Sprintf("%s...(%d)", s[:48], len(s))
	}

	return s
}

type ObsDiff struct {
	Step   int    `json:"step"`
	Read   string `json:"read"`
	Part   string `json:"part"`
	Before string `json:"before"`
	After  string `json:"after"`
}

// Observe performs every read. keys: abstract keys; maxLen as in the spec.
func (d *DB) Observe(r Reader, keys []string, maxLen int, wantRaw bool) (o *Obs) {
	ReadRound(func() { o = d.observe(r, keys, maxLen, wantRaw) })

	return o
}

// ObserveAll is Observe plus EVERY record of the blocks that carry filler states (block size
// classes of spec/Database.tla): State and StateBytes of every filler key and its in-state operation.
func (d *DB) ObserveAll(r Reader, keys []string, maxLen int, wantRaw bool) (o *Obs) {
	ReadRound(func() {
		o = d.observe(r, keys, maxLen, wantRaw)
		d.observeFillers(r, o)
	})

	return o
}

func (d *DB) observeFillers(r Reader, o *Obs) {
	o.Fl = [][]int{}

	for _, b := range d.Gen.AllBlocks() {
		if len(b.ExtraSts) < 1 {
			continue
		}

		row := []int{b.H, b.G, 0, 0, 0}
		hs := sha256.New()

		for _, fst := range b.ExtraSts {
			switch st, found, err := r.State(fst.Key()); {
			case err != nil:
				o.Errs = append(o.Errs, fmt.Sprintf("State(%s): %v", fst.Key(), err))
			case found && st.Hash().Equal(fst.Hash()):
				row[2]++
			case found:
				o.Errs = append(o.Errs, fmt.Sprintf("State(%s): another state", fst.Key()))
			}

			switch eh, meta, body, found, err := r.StateBytes(fst.Key()); {
			case err != nil:
				o.Errs = append(o.Errs, fmt.Sprintf("StateBytes(%s): %v", fst.Key(), err))
			case found:
				var bst base.State
				if err := isaacdatabase.DecodeFrame(d.Env.Encs, eh, body, &bst); err != nil || bst == nil ||
					!bst.Hash().Equal(fst.Hash()) || !bytes.Equal(meta, fst.Hash().Bytes()) {
					o.Errs = append(o.Errs, fmt.Sprintf("StateBytes(%s): not the stored state (%v)", fst.Key(), err))
				} else {
					row[3]++
				}

				if o.Raw != nil {
					_, _ = hs.Write([]byte(rawKey(eh, meta, body)))
				}
			}

			for _, op := range fst.Operations() {
				switch found, err := r.ExistsInStateOperation(op); {
				case err != nil:
					o.Errs = append(o.Errs, fmt.Sprintf("ExistsInStateOperation(filler): %v", err))
				case found:
					row[4]++
				}
			}
		}

		if o.Raw != nil && row[3] > 0 {
			o.Raw[fmt.Sprintf("StateBytes[filler](%d.%d)", b.H, b.G)] = fmt.Sprintf("sha256|%x|", hs.Sum(nil))
		}

		o.Fl = append(o.Fl, row)
	}
}

func (d *DB) observe(r Reader, keys []string, maxLen int, wantRaw bool) *Obs {
	g := d.Gen
	enc := d.Env.Enc
	o := &Obs{St: map[string]Ref{}, StB: map[string]Ref{}, Ilh: -1, Iso: [][]interface{}{}, Kno: [][]int{}}

	if wantRaw {
		o.Raw = map[string]string{}
	}

	fail := func(what string, err error) {
		o.Errs = append(o.Errs, fmt.Sprintf("%s: %v", what, err))
	}
	encHint := enc.Hint().String()

	// states
	for _, k := range keys {
		st, found, err := r.State(RealKey(k))

		switch {
		case err != nil:
			fail("State("+k+")", err)
			o.St[k] = Unknown
		case !found:
			o.St[k] = nil
		case st.Key() != RealKey(k):
			o.St[k] = Unknown
		default:
			o.St[k] = g.StateRef(st)
		}

		eh, meta, body, found, err := r.StateBytes(RealKey(k))

		switch {
		case err != nil:
			fail("StateBytes("+k+")", err)
			o.StB[k] = Unknown
		case !found:
			o.StB[k] = nil
		default:
			var bst base.State
			if err := isaacdatabase.DecodeFrame(d.Env.Encs, eh, body, &bst); err != nil || bst == nil {
				if err == nil {
					err = errors.Errorf("empty body")
				}

				fail("StateBytes("+k+") decode", err)
				o.StB[k] = Unknown
			} else {
				o.StB[k] = g.StateRef(bst)
				if eh != encHint || !bytes.Equal(meta, bst.Hash().Bytes()) {
					fail("StateBytes("+k+")", errors.Errorf("enchint/meta differ from what was stored"))
					o.StB[k] = Unknown
				}
			}

			if wantRaw {
				o.Raw["StateBytes("+k+")"] = rawKey(eh, meta, body)
			}
		}
	}

	// block maps
	for h := 0; h <= maxLen; h++ {
		m, found, err := r.BlockMap(base.Height(int64(h)))

		switch {
		case err != nil:
			fail(fmt.Sprintf("BlockMap(%d)", h), err)
			o.Bm = append(o.Bm, Unknown)
		case !found:
			o.Bm = append(o.Bm, nil)
		case m.Manifest().Height() != base.Height(int64(h)):
			o.Bm = append(o.Bm, Unknown)
		default:
			o.Bm = append(o.Bm, g.MapRef(m))
		}

		eh, meta, body, found, err := r.BlockMapBytes(base.Height(int64(h)))
		o.BmB = append(o.BmB, d.mapBytesRef(o, fmt.Sprintf("BlockMapBytes(%d)", h), eh, meta, body, found, err))
	}

	switch m, found, err := r.LastBlockMap(); {
	case err != nil:
		fail("LastBlockMap", err)
		o.Lbm = Unknown
	case !found:
	default:
		o.Lbm = g.MapRef(m)
	}

	{
		eh, meta, body, found, err := r.LastBlockMapBytes()
		o.LbmB = d.mapBytesRef(o, "LastBlockMapBytes", eh, meta, body, found, err)
	}

	// suffrage proofs
	for sh := 0; sh <= maxLen+1; sh++ {
		p, found, err := r.SuffrageProof(base.Height(int64(sh)))

		switch {
		case err != nil:
			fail(fmt.Sprintf("SuffrageProof(%d)", sh), err)
			o.Sp = append(o.Sp, Unknown)
		case !found:
			o.Sp = append(o.Sp, nil)
		default:
			o.Sp = append(o.Sp, g.ProofRef(p))
		}

		eh, meta, body, found, err := r.SuffrageProofBytes(base.Height(int64(sh)))
		o.SpB = append(o.SpB, d.proofBytesRef(o, fmt.Sprintf("SuffrageProofBytes(%d)", sh), eh, meta, body, found, err))
	}

	for h := 0; h <= maxLen; h++ {
		p, found, err := r.SuffrageProofByBlockHeight(base.Height(int64(h)))

		switch {
		case err != nil:
			fail(fmt.Sprintf("SuffrageProofByBlockHeight(%d)", h), err)
			o.Sph = append(o.Sph, Unknown)
		case !found:
			o.Sph = append(o.Sph, nil)
		default:
			o.Sph = append(o.Sph, g.ProofRef(p))
		}
	}

	switch p, found, err := r.LastSuffrageProof(); {
	case err != nil:
		fail("LastSuffrageProof", err)
		o.Lsp = Unknown
	case !found:
	default:
		o.Lsp = g.ProofRef(p)
	}

	switch c := r.(type) {
	case *isaacdatabase.Center:
		eh, meta, body, found, lh, err := c.LastSuffrageProofBytes()
		o.LspB = d.proofBytesRef(o, "LastSuffrageProofBytes", eh, meta, body, found, err)

		if found {
			o.Ilh = int(lh.Int64())
		}
	case isaac.PermanentDatabase:
		eh, meta, body, found, err := c.LastSuffrageProofBytes()
		o.LspB = d.proofBytesRef(o, "LastSuffrageProofBytes", eh, meta, body, found, err)
	}

	o.Pol = g.PolicyRef(r.LastNetworkPolicy())

	// operations of every block ever generated (removed ones too)
	for _, b := range g.AllBlocks() {
		all := true
		anyk := false

		for _, op := range b.Ops {
			found, err := r.ExistsKnownOperation(op)
			if err != nil {
				fail("ExistsKnownOperation", err)
			}

			all = all && found
			anyk = anyk || found
		}

		switch {
		case all:
			o.Kno = append(o.Kno, []int{b.H, b.G})
		case anyk:
			o.Kno = append(o.Kno, []int{b.H, b.G, -1}) // some, not all: never expected
		}

		for _, k := range b.Keys {
			st := b.ByKey[k]
			all, anyk = true, false

			for _, op := range st.Operations() {
				found, err := r.ExistsInStateOperation(op)
				if err != nil {
					fail("ExistsInStateOperation", err)
				}

				all = all && found
				anyk = anyk || found
			}

			switch {
			case all:
				o.Iso = append(o.Iso, []interface{}{b.H, b.G, k})
			case anyk:
				o.Iso = append(o.Iso, []interface{}{b.H, b.G, k, "partial"})
			}
		}
	}

	sort.Slice(o.Kno, func(i, j int) bool { return fmt.Sprint(o.Kno[i]) < fmt.Sprint(o.Kno[j]) })
	sort.Slice(o.Iso, func(i, j int) bool { return fmt.Sprint(o.Iso[i]) < fmt.Sprint(o.Iso[j]) })

	return o
}

func (d *DB) mapBytesRef(o *Obs, what, eh string, meta, body []byte, found bool, err error) Ref {
	switch {
	case err != nil:
		o.Errs = append(o.Errs, fmt.Sprintf("%s: %v", what, err))

		return Unknown
	case !found:
		return nil
	}

	if o.Raw != nil {
		o.Raw[what] = rawKey(eh, meta, body)
	}

	var m base.BlockMap
	if err := isaacdatabase.DecodeFrame(d.Env.Encs, eh, body, &m); err != nil {
		o.Errs = append(o.Errs, fmt.Sprintf("%s decode: %v", what, err))

		return Unknown
	}

	if m == nil {
		o.Errs = append(o.Errs, fmt.Sprintf("%s: empty body", what))

		return Unknown
	}

	if eh != d.Env.Enc.Hint().String() || !bytes.Equal(meta, m.Manifest().Hash().Bytes()) {
		o.Errs = append(o.Errs, fmt.Sprintf("%s: enchint/meta differ from what was stored", what))

		return Unknown
	}

	return d.Gen.MapRef(m)
}

func (d *DB) proofBytesRef(o *Obs, what, eh string, meta, body []byte, found bool, err error) Ref {
	switch {
	case err != nil:
		o.Errs = append(o.Errs, fmt.Sprintf("%s: %v", what, err))

		return Unknown
	case !found:
		return nil
	}

	if o.Raw != nil {
		o.Raw[what] = rawKey(eh, meta, body)
	}

	var p base.SuffrageProof
	if err := isaacdatabase.DecodeFrame(d.Env.Encs, eh, body, &p); err != nil {
		o.Errs = append(o.Errs, fmt.Sprintf("%s decode: %v", what, err))

		return Unknown
	}

	if p == nil {
		o.Errs = append(o.Errs, fmt.Sprintf("%s: empty body", what))

		return Unknown
	}

	var wantmeta []byte
	if i := p.Map().Manifest().Suffrage(); i != nil {
		wantmeta = i.Bytes()
	}

	if eh != d.Env.Enc.Hint().String() || !bytes.Equal(meta, wantmeta) {
		o.Errs = append(o.Errs, fmt.Sprintf("%s: enchint/meta differ from what was stored", what))

		return Unknown
	}

	return d.Gen.ProofRef(p)
}

func (g *Gen) AllBlocks() []*Block {
	g.mu.Lock()
	defer g.mu.Unlock()

	return append([]*Block{}, g.Blocks...)
}
