package c19

import (
	"encoding/json"
	"fmt"
	"sync"
	"time"

	"github.com/pkg/errors"
	"github.com/spikeekips/mitum/isaac"
	isaacdatabase "github.com/spikeekips/mitum/isaac/database"

	"mitumverif/internal/h"
)

// Binding G for spec/PermCache.tla: the schedules TLC enumerates (reader steps lookup / get /
// setcache, merge steps write / caches / purge) are forced on a real Center + permanent
// database through the verif gates in (Leveldb|Redis)Permanent.State. A merge is one call
// on the real code, so only schedules whose merge steps are contiguous can be forced.
// ["m","write","tempcache"|"notempcache"]: whether the merged block was written with a state cache
// (SetStateCache), ["x","reopen"]: the permanent database and Center are created again over the
// stored data.

type FCase struct {
	ID     int            `json:"id"`
	Sched  [][]string     `json:"sched"`
	Stored int            `json:"stored"`
	Cache  int            `json:"cache"`
	Rets   map[string]int `json:"rets"`
	Los    map[string]int `json:"los"`
	WCache int            `json:"writecache"`
}

type FResult struct {
	ID     int            `json:"id"`
	Forced bool           `json:"forced"`
	Why    string         `json:"why,omitempty"`  // why it was not forced (never an alarm)
	Rets   map[string]int `json:"rets,omitempty"` // model heights returned by the reads the schedule completes
	Fresh  int            `json:"fresh"`          // model height returned by a read after the schedule, gates off
	Stored int            `json:"stored"`         // model height committed last
	Panic  string         `json:"panic,omitempty"`
}

type gateCtl struct {
	mu      sync.Mutex
	armed   bool
	key     string
	cur     *freader
	arrived chan string
}

type freader struct {
	name    string
	release chan struct{}
	done    chan int // real height returned, -1 not found, -2 error
	at      string   // "", "state-cache-miss", "state-loaded", "done"
}

var theGate = &gateCtl{arrived: make(chan string, 8)}

func (g *gateCtl) gate(point, key string) {
	g.mu.Lock()
	if !g.armed || key != g.key || g.cur == nil {
		g.mu.Unlock()

		return
	}

	r := g.cur
	g.mu.Unlock()

	g.arrived <- point
	<-r.release
}

const gateWait = 5 * time.Second

// PermFactory lets C26 force the same schedules on the Redis back-end.
var PermFactory func(*DB) (isaac.PermanentDatabase, error)

// PermFactoryReopens: a second call of PermFactory for the same DB opens the data the first one stored
// (needed for the ["x","reopen"] step of a schedule; else such schedules are not forced).
var PermFactoryReopens bool

// Forced is the "forced" mode (exported for C26, which sets PermFactory first).
func Forced(fl map[string]string) error { return forced(fl) }

func forced(fl map[string]string) error {
	env, err := NewEnv()
	if err != nil {
		return err
	}

	out, err := h.NewOut(fl["out"])
	if err != nil {
		return err
	}

	defer out.Close()

	isaacdatabase.VerifPermGate = theGate.gate

	return h.ReadNDJSON(fl["in"], func(line []byte) error {
		var c FCase
		if err := json.Unmarshal(line, &c); err != nil {
			return err
		}

		var res FResult

		if p := h.Catch(func() { res = forceOne(env, &c) }); p != "" {
			res = FResult{ID: c.ID, Panic: p}
		}

		out.Emit(res)

		return nil
	})
}

func mergeContiguous(s [][]string) bool {
	for i := 0; i < len(s); i++ {
		if s[i][0] != "m" {
			continue
		}

		switch s[i][1] {
		case "write":
			if i+2 >= len(s) || s[i+1][0] != "m" || s[i+2][0] != "m" {
				return false
			}
		}
	}

	return true
}

func forceOne(env *Env, c *FCase) FResult {
	res := FResult{ID: c.ID, Fresh: -9, Stored: c.Stored}

	if !mergeContiguous(c.Sched) {
		res.Why = "merge steps interleave with reader steps (one call on the real code)"

		return res
	}

	gen := NewGen(env)
	db := NewDB(env, gen, "", 4096, 0)
	db.NewPerm = PermFactory

	if err := db.Open(); err != nil {
		res.Why = "open: " + err.Error()

		return res
	}

	defer func() { _ = db.Close() }()

	theGate.mu.Lock()
	theGate.armed = false
	theGate.key = RealKey("a")
	theGate.cur = nil
	theGate.mu.Unlock()

	realh := 0
	write := func(keys []string, wcache int) error {
		b, err := gen.NewBlock(realh, 1, keys, -1, 0)
		if err != nil {
			return err
		}

		b.WCache = wcache
		realh++

		return db.WriteBlock(b)
	}
	// model height m is real height 2m: block 2m writes the key, block 2m+1 does not
	if err := write([]string{"a"}, -1); err != nil {
		res.Why = err.Error()

		return res
	}

	if err := write(nil, -1); err != nil {
		res.Why = err.Error()

		return res
	}

	if err := db.Center.MergeAllPermanent(); err != nil {
		res.Why = err.Error()

		return res
	}

	toModel := func(real int) int {
		if real < 0 {
			return real
		}

		return real / 2
	}

	readers := map[string]*freader{}
	res.Rets = map[string]int{}

	theGate.mu.Lock()
	theGate.armed = true
	theGate.mu.Unlock()

	// release everything that is still parked when we leave
	defer func() {
		theGate.mu.Lock()
		theGate.armed = false
		theGate.cur = nil
		theGate.mu.Unlock()

		for _, r := range readers {
			if r.at == "state-cache-miss" || r.at == "state-loaded" {
				close(r.release)

				select { // let it finish before the database is closed
				case <-r.done:
				case <-time.After(2 * time.Second):
				}
			}
		}
	}()

	advance := func(r *freader, start bool) (string, int, bool) {
		theGate.mu.Lock()
		theGate.cur = r
		theGate.mu.Unlock()

		if start {
			go func() {
				st, found, err := db.Center.State(RealKey("a"))

				switch {
				case err != nil:
					r.done <- -2
				case !found:
					r.done <- -1
				default:
					r.done <- int(st.Height().Int64())
				}
			}()
		} else {
			r.release <- struct{}{}
		}

		select {
		case p := <-theGate.arrived:
			return p, 0, true
		case v := <-r.done:
			return "done", v, true
		case <-time.After(gateWait):
			return "", 0, false
		}
	}

	for i := 0; i < len(c.Sched); i++ {
		who, what := c.Sched[i][0], c.Sched[i][1]

		if who == "m" {
			if what != "write" {
				continue // caches, purge: part of the same call
			}

			wcache := c.WCache
			if len(c.Sched[i]) > 2 {
				wcache = -1
				if c.Sched[i][2] == "tempcache" {
					wcache = 64
				}
			}

			if err := write([]string{"a"}, wcache); err != nil {
				res.Why = err.Error()

				return res
			}

			if err := write(nil, -1); err != nil {
				res.Why = err.Error()

				return res
			}

			if err := db.Center.MergeAllPermanent(); err != nil {
				res.Why = err.Error()

				return res
			}

			continue
		}

		if who == "x" { // reopen: no call is running (the spec's guard)
			for _, r := range readers {
				if r.at == "state-cache-miss" || r.at == "state-loaded" {
					res.Why = fmt.Sprintf("step %d: reopen while %s is in flight", i, r.name)

					return res
				}
			}

			if PermFactory != nil && !PermFactoryReopens {
				// (C26's factory hands out a fresh key prefix per call: a second permanent database would be empty)
				res.Why = "reopen: the back-end factory does not reopen the same stored data"

				return res
			}

			if err := db.Perm.Close(); err != nil {
				res.Why = err.Error()

				return res
			}

			if err := db.OpenOn(); err != nil {
				res.Why = err.Error()

				return res
			}

			continue
		}

		r := readers[who]
		if r == nil || r.at == "done" {
			r = &freader{name: who, release: make(chan struct{}), done: make(chan int, 1)}
			readers[who] = r
		}

		var want string

		switch what {
		case "lookup":
			if r.at != "" {
				res.Why = fmt.Sprintf("step %d: %s is at %q", i, who, r.at)

				return res
			}

			p, v, ok := advance(r, true)
			if !ok {
				res.Why = fmt.Sprintf("step %d: %s did not reach a gate", i, who)

				return res
			}

			r.at = p
			if p == "done" {
				res.Rets[who] = toModel(v)
			}

			continue
		case "get":
			want = "state-cache-miss"
		case "setcache":
			want = "state-loaded"
		}

		if r.at != want {
			// the model's reader missed the cache where the real one hit it (or the other way round):
			// the schedule does not exist on this code
			res.Why = fmt.Sprintf("step %d: model has %s at %q, the code has it at %q", i, who, want, r.at)

			return res
		}

		p, v, ok := advance(r, false)
		if !ok {
			res.Why = fmt.Sprintf("step %d: %s did not reach the next gate", i, who)

			return res
		}

		r.at = p
		if p == "done" {
			res.Rets[who] = toModel(v)
		}
	}

	res.Forced = true

	// a read after the schedule, gates off, while the readers still parked stay parked
	theGate.mu.Lock()
	theGate.armed = false
	theGate.mu.Unlock()

	st, found, err := db.Center.State(RealKey("a"))

	switch {
	case err != nil:
		res.Why = errors.WithMessage(err, "fresh read").Error()
		res.Fresh = -2
	case !found:
		res.Fresh = -1
	default:
		res.Fresh = toModel(int(st.Height().Int64()))
	}

	return res
}
