package c19

import (
	"encoding/json"
	"fmt"
	"os"
	"runtime"
	"sort"
	"strconv"
	"strings"
	"sync"

	"github.com/pkg/errors"
	"github.com/spikeekips/mitum/base"

	"mitumverif/internal/h"
)

func init() { h.Register("C19", run) }

// Act is one action of spec/Database.tla.
type Act struct {
	Name string   `json:"name"`
	H    int      `json:"h"`
	G    int      `json:"g"`
	St   []string `json:"st"`
	Sh   int      `json:"sh"`
	OK   bool     `json:"ok"`
	Kind string   `json:"kind"`
	N    int      `json:"n"`
	// block size class (spec/Database.tla): filler states, extra known operations, records that go through
	// the block write batch / that the temp database holds; Wc: the block write database has a state cache
	Cls string `json:"cls"`
	F   int    `json:"f"`
	X   int    `json:"x"`
	Nb  int    `json:"nb"`
	Nt  int    `json:"nt"`
	Wc  *bool  `json:"wc"`
}

// Want is `Reads` of the spec.
type Want struct {
	St   map[string][]int `json:"st"`
	Bm   [][]int          `json:"bm"`
	Lbm  []int            `json:"lbm"`
	Sp   [][]int          `json:"sp"`
	Sph  [][]int          `json:"sph"`
	Lsp  []int            `json:"lsp"`
	Pol  []int            `json:"pol"`
	Iso  [][]interface{}  `json:"iso"`
	Kno  [][]int          `json:"kno"`
	Fl   [][]int          `json:"fl"` // h, g, number of readable filler states (0 for a removed block)
	Pool [][]interface{}  `json:"pool"`
}

// Case: a behaviour. Acts[i] is performed, then - if Reads[i] is not null - every read is
// compared with Reads[i].
type Case struct {
	ID         int     `json:"id"`
	Acts       []Act   `json:"acts"`
	Reads      []*Want `json:"reads"`
	Ilh        []int   `json:"ilh"` // spec's transcription of the height LastSuffrageProofBytes returns
	Len        []int   `json:"len"` // chain length after the step
	Tf         []int   `json:"tf"`
	PermCache  int     `json:"permcache"`
	WriteCache int     `json:"writecache"`
}

type Diff struct {
	Step int    `json:"step"`
	Read string `json:"read"`
	Arg  string `json:"arg"`
	Got  string `json:"got"`
	Want string `json:"want"`
	Len  int    `json:"len"`
	Tf   int    `json:"tf"`
	Act  string `json:"act"`
}

type Result struct {
	ID    int      `json:"id"`
	OK    bool     `json:"ok"`
	Diffs []Diff   `json:"diffs,omitempty"`
	Info  []Diff   `json:"info,omitempty"` // not constrained by the statement (reported only)
	Errs  []string `json:"errs,omitempty"`
	Panic string   `json:"panic,omitempty"`
	Steps int      `json:"steps"`
	Reads int      `json:"reads"`
	Fatal string   `json:"fatal,omitempty"` // the driver could not go on (machinery, unless Diffs explain it)
}

func refStr(r []int) string {
	if len(r) == 0 {
		return "-"
	}

	s := make([]string, len(r))
	for i := range r {
		s[i] = strconv.Itoa(r[i])
	}

	return strings.Join(s, ".")
}

func setStr(rows [][]interface{}) []string {
	out := make([]string, 0, len(rows))

	for _, r := range rows {
		s := make([]string, len(r))

		for i := range r {
			switch v := r[i].(type) {
			case float64:
				s[i] = strconv.Itoa(int(v))
			default:
				s[i] = fmt.Sprint(v)
			}
		}

		out = append(out, strings.Join(s, "."))
	}

	sort.Strings(out)

	return out
}

func intRows(rows [][]int) [][]interface{} {
	out := make([][]interface{}, len(rows))

	for i := range rows {
		for _, v := range rows[i] {
			out[i] = append(out[i], v)
		}
	}

	return out
}

// Compare returns the differences between what was observed and what the spec says.
func Compare(o *Obs, w *Want, keys []string) []Diff {
	var ds []Diff
	add := func(read, arg string, got Ref, want []int) {
		if refStr(got) != refStr(want) {
			ds = append(ds, Diff{Read: read, Arg: arg, Got: refStr(got), Want: refStr(want)})
		}
	}

	for _, k := range keys {
		add("State", k, o.St[k], w.St[k])
		add("StateBytes", k, o.StB[k], w.St[k])
	}

	for i := range w.Bm {
		if i < len(o.Bm) {
			add("BlockMap", strconv.Itoa(i), o.Bm[i], w.Bm[i])
			add("BlockMapBytes", strconv.Itoa(i), o.BmB[i], w.Bm[i])
		}
	}

	add("LastBlockMap", "", o.Lbm, w.Lbm)
	add("LastBlockMapBytes", "", o.LbmB, w.Lbm)

	for i := range w.Sp {
		if i < len(o.Sp) {
			add("SuffrageProof", strconv.Itoa(i), o.Sp[i], w.Sp[i])
			add("SuffrageProofBytes", strconv.Itoa(i), o.SpB[i], w.Sp[i])
		}
	}

	for i := range w.Sph {
		if i < len(o.Sph) {
			add("SuffrageProofByBlockHeight", strconv.Itoa(i), o.Sph[i], w.Sph[i])
		}
	}

	add("LastSuffrageProof", "", o.Lsp, w.Lsp)
	add("LastSuffrageProofBytes", "", o.LspB, w.Lsp)
	add("LastNetworkPolicy", "", o.Pol, w.Pol)

	setdiff := func(read string, got, want []string) {
		gm := map[string]bool{}
		for _, s := range got {
			gm[s] = true
		}

		wm := map[string]bool{}
		for _, s := range want {
			wm[s] = true
		}

		for _, s := range got {
			if !wm[s] {
				ds = append(ds, Diff{Read: read, Arg: s, Got: "true", Want: "false"})
			}
		}

		for _, s := range want {
			if !gm[s] {
				ds = append(ds, Diff{Read: read, Arg: s, Got: "false", Want: "true"})
			}
		}
	}
	setdiff("ExistsInStateOperation", setStr(o.Iso), setStr(w.Iso))
	setdiff("ExistsKnownOperation", setStr(intRows(o.Kno)), setStr(intRows(w.Kno)))

	// every record of a block with filler states
	if w.Fl != nil && o.Fl != nil {
		got := map[string][]int{}
		for _, r := range o.Fl {
			got[fmt.Sprintf("%d.%d", r[0], r[1])] = r
		}

		for _, r := range w.Fl {
			arg := fmt.Sprintf("%d.%d", r[0], r[1])

			g, ok := got[arg]
			if !ok {
				ds = append(ds, Diff{Read: "State[filler]", Arg: arg, Got: "block unknown to the generator", Want: strconv.Itoa(r[2])})

				continue
			}

			for j, read := range []string{"State[filler]", "StateBytes[filler]", "ExistsInStateOperation[filler]"} {
				if g[2+j] != r[2] {
					ds = append(ds, Diff{Read: read, Arg: arg, Got: fmt.Sprintf("%d found", g[2+j]), Want: fmt.Sprintf("%d found", r[2])})
				}
			}
		}
	}

	return ds
}

// NewBlockOf builds the block of a Write / PermMerge action: size class and, when the spec chose it
// (wc), whether the block write database carries a state cache (its size is the case's writecache).
func NewBlockOf(gen *Gen, a *Act, writecache int) (*Block, error) {
	b, err := gen.NewBlockSized(a.H, a.G, a.St, a.Sh, a.F, a.X)
	if err != nil {
		return nil, err
	}

	// the block the generator built hands the database the number of records the spec gave it (else the
	// size classes mean nothing) - a property of the harness, checked without the code under test
	if a.Nb > 0 {
		if n := b.BatchedRecords(); n != a.Nb {
			return nil, errors.Errorf("the generated block hands over %d batched records, the spec says %d", n, a.Nb)
		}
	}

	if a.Wc != nil {
		switch {
		case !*a.Wc:
			b.WCache = -1
		case writecache > 0:
			b.WCache = writecache
		default:
			b.WCache = 64
		}
	}

	return b, nil
}

// CountRecords: number of records of the whole leveldb storage.
func (d *DB) CountRecords() int {
	it := d.St.DB().NewIterator(nil, nil)
	defer it.Release()

	n := 0
	for it.Next() {
		n++
	}

	return n
}

// Runner replays one case on a fresh database.
type Runner struct {
	Env    *Env
	Keys   []string // abstract keys incl. SUF, POL
	MaxLen int
	Dir    string // "" = in-memory
}

func (r *Runner) Run(c *Case) (res Result) {
	res.ID = c.ID
	res.OK = true

	gen := NewGen(r.Env)
	db := NewDB(r.Env, gen, r.Dir, c.PermCache, c.WriteCache)

	if err := db.Open(); err != nil {
		res.Fatal = fmt.Sprintf("open: %+v", err)

		return res
	}

	defer func() { _ = db.Close() }()

	if p := h.Catch(func() { r.steps(c, db, gen, &res) }); p != "" {
		res.Panic = p
		res.OK = false
	}

	if len(res.Diffs) > 0 || res.Fatal != "" {
		res.OK = false
	}

	return res
}

func (r *Runner) steps(c *Case, db *DB, gen *Gen, res *Result) {
	for i := range c.Acts {
		a := c.Acts[i]
		res.Steps++

		tag := func(d Diff) Diff {
			d.Step = i
			d.Act = a.Name

			if i < len(c.Len) {
				d.Len = c.Len[i]
			}

			if i < len(c.Tf) {
				d.Tf = c.Tf[i]
			}

			return d
		}

		switch a.Name {
		case "Read":
			// reading is a step of the spec (ReadAll): performed here, compared below when the case says so
			if i >= len(c.Reads) || c.Reads[i] == nil {
				_ = db.Observe(db.Center, r.Keys, r.MaxLen, false)
				res.Reads++

				continue
			}
		case "Write":
			b, err := NewBlockOf(gen, &a, c.WriteCache)
			if err != nil {
				res.Fatal = fmt.Sprintf("step %d: generate block: %+v", i, err)

				return
			}

			before := 0
			if a.Nt > 0 && a.G == 1 {
				before = db.CountRecords()
			}

			if err := db.WriteBlock(b); err != nil {
				res.Diffs = append(res.Diffs, tag(Diff{Read: "WriteBlock", Arg: strconv.Itoa(a.H), Got: "error: " + err.Error(), Want: "ok"}))
				res.Fatal = "write failed"

				return
			}

			// records found in the storage for the new temp database (reported only: the statement is about
			// reads, and every record is read where the case compares)
			if a.Nt > 0 && a.G == 1 {
				if n := db.CountRecords() - before; n != a.Nt {
					res.Info = append(res.Info, tag(Diff{Read: "temp-database-records", Arg: strconv.Itoa(a.H), Got: strconv.Itoa(n), Want: strconv.Itoa(a.Nt)}))
				}
			}
		case "MergeOne":
			merged, err := db.Center.VerifMergeOne()
			if err != nil || !merged {
				res.Diffs = append(res.Diffs, tag(Diff{Read: "MergeOne", Got: fmt.Sprintf("merged=%v err=%v", merged, err), Want: "merged"}))
				res.Fatal = "merge failed"

				return
			}
		case "MergeAll":
			if err := db.Center.MergeAllPermanent(); err != nil {
				res.Diffs = append(res.Diffs, tag(Diff{Read: "MergeAllPermanent", Got: "error: " + err.Error(), Want: "ok"}))
				res.Fatal = "merge failed"

				return
			}
		case "Remove":
			removed, err := db.Center.RemoveBlocks(base.Height(int64(a.H)))
			if err != nil {
				res.Diffs = append(res.Diffs, tag(Diff{Read: "RemoveBlocks", Arg: strconv.Itoa(a.H), Got: "error: " + err.Error(), Want: fmt.Sprint(a.OK)}))
				res.Fatal = "remove failed"

				return
			}

			if removed != a.OK {
				res.Diffs = append(res.Diffs, tag(Diff{Read: "RemoveBlocks", Arg: strconv.Itoa(a.H), Got: fmt.Sprint(removed), Want: fmt.Sprint(a.OK)}))
			}
		default:
			res.Fatal = "unknown action " + a.Name

			return
		}

		if i >= len(c.Reads) || c.Reads[i] == nil {
			continue
		}

		// the temps of the real Center must be the ones of the model, else nothing below means anything
		if i < len(c.Tf) && i < len(c.Len) {
			hs := db.Center.VerifTempHeights()
			want := c.Len[i] - c.Tf[i] + 1

			if len(hs) != want {
				res.Diffs = append(res.Diffs, tag(Diff{Read: "temps", Got: fmt.Sprint(hs), Want: fmt.Sprintf("%d temps", want)}))
			}
		}

		o := db.ObserveAll(db.Center, r.Keys, r.MaxLen, false)
		res.Reads++

		for _, e := range o.Errs {
			res.Errs = append(res.Errs, fmt.Sprintf("step %d: %s", i, e))
		}

		for _, d := range Compare(o, c.Reads[i], r.Keys) {
			res.Diffs = append(res.Diffs, tag(d))
		}

		if len(c.Reads[i].Lsp) > 0 && i < len(c.Ilh) {
			if o.Ilh != c.Ilh[i] {
				res.Info = append(res.Info, tag(Diff{Read: "LastSuffrageProofBytes.lastheight/transcription", Got: strconv.Itoa(o.Ilh), Want: strconv.Itoa(c.Ilh[i])}))
			}

			if i < len(c.Len) && o.Ilh != c.Len[i]-1 {
				res.Info = append(res.Info, tag(Diff{Read: "LastSuffrageProofBytes.lastheight", Got: strconv.Itoa(o.Ilh), Want: strconv.Itoa(c.Len[i] - 1)}))
			}
		}
	}
}

func run(args []string) error {
	if len(args) < 1 {
		return errors.Errorf("usage: C19 replay|readers|forced ...")
	}

	switch args[0] {
	case "replay":
		return replay(h.Flags(args[1:]))
	case "readers":
		return readers(h.Flags(args[1:]))
	case "forced":
		return forced(h.Flags(args[1:]))
	default:
		return errors.Errorf("unknown mode %q", args[0])
	}
}

func replay(fl map[string]string) error {
	env, err := NewEnv()
	if err != nil {
		return err
	}

	keys := strings.Split(fl["keys"], ",")
	maxlen, _ := strconv.Atoi(fl["maxlen"])
	workers := runtime.NumCPU()

	if w, err := strconv.Atoi(fl["workers"]); err == nil && w > 0 {
		workers = w
	}

	out, err := h.NewOut(fl["out"])
	if err != nil {
		return err
	}

	defer out.Close()

	jobs := make(chan []byte, 64)

	var wg sync.WaitGroup

	var ferr error

	var fmu sync.Mutex

	for i := 0; i < workers; i++ {
		wg.Add(1)

		go func() {
			defer wg.Done()

			r := &Runner{Env: env, Keys: keys, MaxLen: maxlen}

			for line := range jobs {
				var c Case
				if err := json.Unmarshal(line, &c); err != nil {
					fmu.Lock()
					ferr = err
					fmu.Unlock()

					continue
				}

				out.Emit(r.Run(&c))
			}
		}()
	}

	err = h.ReadNDJSON(fl["in"], func(line []byte) error {
		jobs <- line

		return nil
	})

	close(jobs)
	wg.Wait()

	if err != nil {
		return err
	}

	if ferr != nil {
		return ferr
	}

	fmt.Fprintf(os.Stderr, "replayed %d cases\n", out.N)

	return nil
}
