// Package c04 drives a real isaacstates.Ballotbox with scripted, really signed ballots and
// records one event per call together with everything the box exposes afterwards (binding B
// of properties C04 and C05; the recording is validated by spec/BallotboxTrace.tla).
//
// Model values and what they stand for:
//
//	node "n3"            a real isaac.LocalNode with its own key (address "n3")
//	height h (1,2,..)    block height HeightBase+h
//	fact "A" + expels X  INIT: NewINITBallotFact(point, H(prev|h), H(pr|h|r|A), hashes of the expel facts of X)
//	                     ACCEPT: NewACCEPTBallotFact(point, H(pr|h|r|A), H(blk|h|r|A), ...)
//	                     suffrage confirm: NewSuffrageConfirmBallotFact(...) with the same hashes as INIT
//	expel of node x at h NewSuffrageExpelOperation(NewSuffrageExpelFact(x, h-1, h+1, "verif")), node-signed
//	                     by every other node of the suffrage
package c04

import (
	"fmt"
	"sort"
	"strings"

	"github.com/spikeekips/mitum/base"
	"github.com/spikeekips/mitum/isaac"
	"github.com/spikeekips/mitum/util"
	"github.com/spikeekips/mitum/util/valuehash"
)

const HeightBase = 30

const (
	sINIT   = 1
	sACCEPT = 3
)

func stageOf(s int) base.Stage {
	switch s {
	case sINIT:
		return base.StageINIT
	case sACCEPT:
		return base.StageACCEPT
	default:
		return base.StageUnknown
	}
}

func stageNum(s base.Stage) int {
	switch s {
	case base.StageINIT:
		return sINIT
	case base.StageACCEPT:
		return sACCEPT
	default:
		return 0
	}
}

func modelHeight(h base.Height) int {
	if h <= 0 {
		return int(h) // zero value (0) and NilHeight (-1) stay recognisable
	}

	return int(h) - HeightBase
}

// FactDesc is the model's description of a ballot fact.
type FactDesc struct {
	H, R, S int
	SC      bool
	F       string
	Ex      []string // sorted
}

func (d FactDesc) key() string {
	return fmt.Sprintf("%d|%d|%d|%v|%s|%s", d.H, d.R, d.S, d.SC, d.F, strings.Join(d.Ex, ","))
}

// Env holds the real objects behind the model values of one suffrage.
type Env struct {
	NetworkID base.NetworkID
	Names     []string
	Locals    map[string]base.LocalNode
	byAddr    map[string]string
	Suf       base.Suffrage
	Threshold base.Threshold

	facts   map[string]base.BallotFact
	byHash  map[string]FactDesc
	expels  map[string]base.SuffrageExpelOperation
	signed  map[string]base.BallotSignFact
	vps     map[string]base.Voteproof // embedded voteproofs by name
	vpDesc  map[string]VPDesc         // by voteproof ID
	vpNames map[string][]string       // voteproof ID -> names (an ID is chosen by the sender: it may repeat)
	vpSums  map[string]string         // name -> content of the voteproof built under that name
	vpIDs   map[string]base.Voteproof // id label -> the first voteproof built with that label (donor of the ID)
}

func NewEnv(n int, t10 int) *Env {
	e := &Env{
		NetworkID: base.NetworkID([]byte("verif-c04-network")),
		Locals:    map[string]base.LocalNode{},
		byAddr:    map[string]string{},
		Threshold: base.Threshold(float64(t10) / 10),
		facts:     map[string]base.BallotFact{},
		byHash:    map[string]FactDesc{},
		expels:    map[string]base.SuffrageExpelOperation{},
		signed:    map[string]base.BallotSignFact{},
		vps:       map[string]base.Voteproof{},
		vpDesc:    map[string]VPDesc{},
		vpNames:   map[string][]string{},
		vpSums:    map[string]string{},
		vpIDs:     map[string]base.Voteproof{},
	}

	nodes := make([]base.Node, n)

	for i := 0; i < n; i++ {
		name := fmt.Sprintf("n%d", i)
		l := isaac.NewLocalNode(base.NewMPrivatekey(), base.NewStringAddress(name+"-node"))
		e.Names = append(e.Names, name)
		e.Locals[name] = l
		e.byAddr[l.Address().String()] = name
		nodes[i] = l
	}

	suf, err := isaac.NewSuffrage(nodes)
	if err != nil {
		panic(err)
	}

	e.Suf = suf

	return e
}

// Outsider returns a node with a key that is not in the suffrage (created on demand).
func (e *Env) Outsider(name string) base.LocalNode {
	if l, ok := e.Locals[name]; ok {
		return l
	}

	l := isaac.NewLocalNode(base.NewMPrivatekey(), base.NewStringAddress(name+"-node"))
	e.Locals[name] = l
	e.byAddr[l.Address().String()] = name

	return l
}

func (e *Env) NodeName(a base.Address) string {
	if a == nil {
		return "?"
	}

	if n, ok := e.byAddr[a.String()]; ok {
		return n
	}

	return "?" + a.String()
}

func hsh(s string) util.Hash { return valuehash.NewSHA256([]byte(s)) }

func realPoint(h, r int) base.Point { return base.RawPoint(int64(h+HeightBase), uint64(r)) }

func sorted(ex []string) []string {
	c := append([]string{}, ex...)
	sort.Strings(c)

	return c
}

// Expel returns the (cached) expel operation of node x for height h.
func (e *Env) Expel(h int, x string) base.SuffrageExpelOperation {
	k := fmt.Sprintf("%d|%s", h, x)
	if op, ok := e.expels[k]; ok {
		return op
	}

	target := e.Outsider(x) // a suffrage member or, for adversarial scripts, an unknown node
	rh := base.Height(h + HeightBase)
	fact := isaac.NewSuffrageExpelFact(target.Address(), rh-1, rh+1, "verif")
	op := isaac.NewSuffrageExpelOperation(fact)

	for _, name := range e.Names {
		if name == x {
			continue
		}

		l := e.Locals[name]
		if err := op.NodeSign(l.Privatekey(), e.NetworkID, l.Address()); err != nil {
			panic(err)
		}
	}

	e.expels[k] = op

	return op
}

func (e *Env) Expels(h int, ex []string) []base.SuffrageExpelOperation {
	if len(ex) < 1 {
		return nil
	}

	ops := make([]base.SuffrageExpelOperation, len(ex))
	for i, x := range sorted(ex) {
		ops[i] = e.Expel(h, x)
	}

	return ops
}

// Fact returns the (cached) real ballot fact of a description.
func (e *Env) Fact(d FactDesc) base.BallotFact {
	d.Ex = sorted(d.Ex)

	if f, ok := e.facts[d.key()]; ok {
		return f
	}

	var exfacts []util.Hash
	for _, op := range e.Expels(d.H, d.Ex) {
		exfacts = append(exfacts, op.Fact().Hash())
	}

	p := realPoint(d.H, d.R)
	prev := hsh(fmt.Sprintf("prev|%d", d.H))
	pr := hsh(fmt.Sprintf("pr|%d|%d|%s", d.H, d.R, d.F))
	blk := hsh(fmt.Sprintf("blk|%d|%d|%s", d.H, d.R, d.F))

	var f base.BallotFact

	switch {
	case d.S == sINIT && d.SC:
		f = isaac.NewSuffrageConfirmBallotFact(p, prev, pr, exfacts)
	case d.S == sINIT:
		f = isaac.NewINITBallotFact(p, prev, pr, exfacts)
	default:
		f = isaac.NewACCEPTBallotFact(p, pr, blk, exfacts)
	}

	e.facts[d.key()] = f
	e.byHash[hashKey(f)] = d

	return f
}

// the kind of a ballot fact is not part of its hash (a suffrage confirm fact and the INIT fact
// with the same content share one hash): the reverse map is keyed by hash and kind
func hashKey(f base.Fact) string {
	return fmt.Sprintf("%s|%v", f.Hash().String(), isaac.IsSuffrageConfirmBallotFact(f))
}

// DescOf maps a real fact back to its description.
func (e *Env) DescOf(f base.Fact) (FactDesc, bool) {
	if f == nil {
		return FactDesc{}, false
	}

	d, ok := e.byHash[hashKey(f)]

	return d, ok
}

// SignFact returns the (cached) sign fact of node for a fact.
func (e *Env) SignFact(node string, d FactDesc) base.BallotSignFact {
	d.Ex = sorted(d.Ex)
	k := node + "|" + d.key()

	if sf, ok := e.signed[k]; ok {
		return sf
	}

	l := e.Outsider(node)
	f := e.Fact(d)

	var sf base.BallotSignFact

	switch d.S {
	case sINIT:
		i := isaac.NewINITBallotSignFact(f.(base.INITBallotFact)) //nolint:forcetypeassert //...
		if err := i.NodeSign(l.Privatekey(), e.NetworkID, l.Address()); err != nil {
			panic(err)
		}

		sf = i
	default:
		i := isaac.NewACCEPTBallotSignFact(f.(base.ACCEPTBallotFact)) //nolint:forcetypeassert //...
		if err := i.NodeSign(l.Privatekey(), e.NetworkID, l.Address()); err != nil {
			panic(err)
		}

		sf = i
	}

	e.signed[k] = sf

	return sf
}

// VPSpec describes a voteproof to be embedded in a ballot.
type VPSpec struct {
	Name    string     `json:"name"` // "" = none
	H       int        `json:"h"`
	R       int        `json:"r"`
	S       int        `json:"s"`
	SC      bool       `json:"sc"`
	Ex      []string   `json:"ex"`    // expelled nodes carried (expel voteproof) - also the facts' expel set
	Votes   [][]string `json:"votes"` // [node, fact] pairs
	T10     int        `json:"t10"`   // threshold written into the voteproof
	Plain   bool       `json:"plain"` // build a plain voteproof although Ex is not empty
	ForceMF string     `json:"force"` // "" = majority computed honestly; "draw" / fact name = claimed
	// ID: a voteproof's ID is a free string chosen by whoever built the message. "" = a fresh ID of its
	// own; otherwise a label: every voteproof built with the same label carries the ID of the first one
	// (whatever its content and stage point are).
	ID string `json:"id"`
}

// vpSum is the content of a voteproof apart from its ID (ID collisions are told apart by it).
func vpSum(vp base.Voteproof) string {
	s := fmt.Sprintf("%T|%s|%s|%v|", vp, vp.Point(), vp.Result(), vp.Threshold())
	if vp.Majority() != nil {
		s += vp.Majority().Hash().String()
	}

	for _, sf := range vp.SignFacts() {
		s += "|" + sf.Node().String() + ":" + sf.Fact().Hash().String()
	}

	if w, ok := vp.(base.HasExpels); ok {
		for _, op := range w.Expels() {
			s += "|x" + op.Fact().Hash().String()
		}
	}

	return s
}

// NameOf: the name under which the emitted voteproof was embedded in a ballot ("" = never;
// "?id" = its ID is that of an embedded voteproof but its content is not).
func (e *Env) NameOf(vp base.Voteproof) string {
	names := e.vpNames[vp.ID()]
	if len(names) < 1 {
		return ""
	}

	sum := vpSum(vp)
	for _, n := range names {
		if e.vpSums[n] == sum {
			return n
		}
	}

	return "?" + names[0]
}

// Voteproof builds (and caches by name) a really signed voteproof.
func (e *Env) Voteproof(s VPSpec) base.Voteproof {
	if s.Name == "" {
		return nil
	}

	if vp, ok := e.vps[s.Name]; ok {
		return vp
	}

	ex := sorted(s.Ex)
	sfs := make([]base.BallotSignFact, len(s.Votes))
	keys := make([]string, len(s.Votes))
	byKey := map[string]base.BallotFact{}

	for i, v := range s.Votes {
		d := FactDesc{H: s.H, R: s.R, S: s.S, SC: s.SC, F: v[1], Ex: ex}
		sfs[i] = e.SignFact(v[0], d)
		keys[i] = sfs[i].Fact().Hash().String()
		byKey[keys[i]] = e.Fact(d)
	}

	th := base.Threshold(float64(s.T10) / 10)

	var majority base.BallotFact

	switch s.ForceMF {
	case "":
		q := uint(e.Suf.Len())
		t := th

		if len(ex) > 0 && !s.Plain {
			q = uint(e.Suf.Len() - len(ex))
			t = base.MaxThreshold
		}

		if res, k := t.VoteResult(q, keys); res == base.VoteResultMajority {
			majority = byKey[k]
		}
	case "draw":
	default:
		majority = e.Fact(FactDesc{H: s.H, R: s.R, S: s.S, SC: s.SC, F: s.ForceMF, Ex: ex})
	}

	p := realPoint(s.H, s.R)
	donor := e.vpIDs[s.ID] // nil: the voteproof gets an ID of its own

	var vp base.Voteproof

	switch {
	case s.S == sINIT && len(ex) > 0 && !s.Plain:
		i := isaac.NewINITExpelVoteproof(p)
		if d, ok := donor.(isaac.INITExpelVoteproof); ok {
			i = d // a copy: keeps the donor's ID, like a decoded message would
			_ = i.SetPoint(base.NewStagePoint(p, base.StageINIT))
		}

		_ = i.SetSignFacts(sfs).SetMajority(majority).SetThreshold(th)
		_ = i.SetExpels(e.Expels(s.H, ex))
		_ = i.Finish()
		vp = i
	case s.S == sINIT:
		i := isaac.NewINITVoteproof(p)
		if d, ok := donor.(isaac.INITVoteproof); ok {
			i = d
			_ = i.SetPoint(base.NewStagePoint(p, base.StageINIT))
		}

		_ = i.SetSignFacts(sfs).SetMajority(majority).SetThreshold(th).Finish()
		vp = i
	case len(ex) > 0 && !s.Plain:
		i := isaac.NewACCEPTExpelVoteproof(p)
		if d, ok := donor.(isaac.ACCEPTExpelVoteproof); ok {
			i = d
			_ = i.SetPoint(base.NewStagePoint(p, base.StageACCEPT))
		}

		_ = i.SetSignFacts(sfs).SetMajority(majority).SetThreshold(th)
		_ = i.SetExpels(e.Expels(s.H, ex))
		_ = i.Finish()
		vp = i
	default:
		i := isaac.NewACCEPTVoteproof(p)
		if d, ok := donor.(isaac.ACCEPTVoteproof); ok {
			i = d
			_ = i.SetPoint(base.NewStagePoint(p, base.StageACCEPT))
		}

		_ = i.SetSignFacts(sfs).SetMajority(majority).SetThreshold(th).Finish()
		vp = i
	}

	e.vps[s.Name] = vp
	e.vpNames[vp.ID()] = append(e.vpNames[vp.ID()], s.Name)
	e.vpSums[s.Name] = vpSum(vp)

	if s.ID != "" && donor == nil {
		e.vpIDs[s.ID] = vp
	}

	return vp
}

// BallotSpec is one scripted ballot.
type BallotSpec struct {
	Node string   `json:"node"`
	H    int      `json:"h"`
	R    int      `json:"r"`
	S    int      `json:"s"`
	SC   bool     `json:"sc"`
	F    string   `json:"f"`
	Ex   []string `json:"ex"`
	EVP  VPSpec   `json:"evp"`
}

// Ballot builds the real ballot: sign fact of the node, embedded voteproof, expel operations.
func (e *Env) Ballot(b BallotSpec) base.Ballot {
	d := FactDesc{H: b.H, R: b.R, S: b.S, SC: b.SC, F: b.F, Ex: sorted(b.Ex)}
	sf := e.SignFact(b.Node, d)
	vp := e.Voteproof(b.EVP)

	var expels []base.SuffrageExpelOperation
	if !b.SC { // a suffrage confirm ballot takes its expels from the voteproof it carries
		expels = e.Expels(b.H, d.Ex)
	}

	switch b.S {
	case sINIT:
		return isaac.NewINITBallot(vp, sf.(isaac.INITBallotSignFact), expels) //nolint:forcetypeassert //...
	default:
		var ivp base.INITVoteproof
		if vp != nil {
			ivp, _ = vp.(base.INITVoteproof)
		}

		return isaac.NewACCEPTBallot(ivp, sf.(isaac.ACCEPTBallotSignFact), expels) //nolint:forcetypeassert //...
	}
}
