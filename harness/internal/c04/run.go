package c04

import (
	"context"
	"fmt"
	"regexp"
	"runtime"
	"sort"
	"strconv"
	"sync"
	"time"

	"github.com/spikeekips/mitum/base"
	"github.com/spikeekips/mitum/isaac"
	isaacstates "github.com/spikeekips/mitum/isaac/states"
	"github.com/spikeekips/mitum/util/hint"

	"mitumverif/internal/h"
)

// Op is one scripted call on the ballot box.
type Op struct {
	Op    string     `json:"op"` // Vote, Count, SetLast, Tick, Voted, Missing
	B     BallotSpec `json:"b"`
	H     int        `json:"h"`
	R     int        `json:"r"`
	S     int        `json:"s"`
	Maj   bool       `json:"maj"`
	SC    bool       `json:"sc"`
	Nodes []string   `json:"nodes"`
}

// History is one script: a fresh ballot box, sequential ops, then (optionally) concurrent threads.
type History struct {
	N       int    `json:"n"`
	Local   string `json:"local"`
	T10     int    `json:"t10"`
	Hold    string `json:"hold"` // "never": a held draw is released by a Tick only; "zero": also by the next count
	Ticker  bool   `json:"ticker"` // the box's own ticker runs (holds expired) while the threads run
	// Lag: the node lags behind - the box knows the suffrage of the heights up to SufUpTo only (the
	// suffrage of height h is what ballots of height h+1 and voteproofs of height h+1 are checked with)
	Lag     bool   `json:"lag"`
	SufUpTo int    `json:"sufupto"`
	Ops     []Op   `json:"ops"`
	Threads [][]Op `json:"threads"`
	Tag     string `json:"tag"`
}

type M = map[string]interface{}

// ---------------------------------------------------------------- record identities

var (
	idLock sync.Mutex
	ids    = map[interface{}]int{}
	refs   []interface{} // keeps every record object alive: an address is never reused
)

func idOf(ref interface{}) int {
	idLock.Lock()
	defer idLock.Unlock()

	if i, ok := ids[ref]; ok {
		return i
	}

	i := len(ids) + 1
	ids[ref] = i
	refs = append(refs, ref)

	return i
}

func putCounts() map[int]int {
	m := map[int]int{}
	for ref, n := range isaacstates.VerifPoolPuts() {
		m[idOf(ref)] = int(n)
	}

	return m
}

// ---------------------------------------------------------------- runner

type Runner struct {
	out      *h.Out
	env      *Env
	box      *isaacstates.Ballotbox
	hist     History
	baseline int
	started  bool
	envMu    sync.Mutex             // the factory's caches are not concurrency-safe
	prebuilt map[string]base.Ballot // concurrent part: ballots built before the threads start
	lastPuts map[int]int
	unsettled int
}

var keyRe = regexp.MustCompile(`^(.*)\{StagePoint height=(-?\d+) round=(\d+) stage=(\w+)\}$`)

func parseKey(k string) (prefix string, hh, rr, ss int) {
	m := keyRe.FindStringSubmatch(k)
	if m == nil {
		return "?" + k, 0, 0, 0
	}

	a, _ := strconv.Atoi(m[2])
	b, _ := strconv.Atoi(m[3])

	return m[1], modelHeight(base.Height(a)), b, stageNum(base.Stage(m[4]))
}

func (r *Runner) settle() {
	// the goroutines Vote spawns (deferred count, new-ballot callback) have ended when the
	// goroutine count is back at the level measured before the history started
	deadline := time.Now().Add(3 * time.Second)

	for i := 0; ; i++ {
		if runtime.NumGoroutine() <= r.baseline {
			return
		}

		if i < 50 {
			runtime.Gosched()
		} else {
			time.Sleep(50 * time.Microsecond)
		}

		if time.Now().After(deadline) {
			r.unsettled++

			return
		}
	}
}

func (r *Runner) voteDesc(sf base.BallotSignFact) M {
	d, ok := r.env.DescOf(sf.Fact())
	if !ok {
		return M{"n": r.env.NodeName(sf.Node()), "f": "?", "ex": []string{}, "sc": false, "h": 0, "r": 0, "s": 0}
	}

	return M{"n": r.env.NodeName(sf.Node()), "f": d.F, "ex": nz(d.Ex), "sc": d.SC, "h": d.H, "r": d.R, "s": d.S}
}

func nz(s []string) []string {
	if s == nil {
		return []string{}
	}

	return s
}

// VPDesc is what is logged of a voteproof.
type VPDesc = M

func errStr(err error) string {
	if err == nil {
		return ""
	}

	s := err.Error()
	if len(s) > 200 {
		s = s[len(s)-200:]
	}

	return s
}

func (r *Runner) describeVP(vp base.Voteproof, finishedSC map[string]bool) M {
	p := vp.Point()
	m := M{
		"id": vp.ID(), "h": modelHeight(p.Height()), "r": int(p.Round()), "s": stageNum(p.Stage()),
		"res": vp.Result().String(), "sc": false, "mf": "", "mex": []string{},
		"th10": int(vp.Threshold().Float64()*10 + 0.5), "kind": kindOf(vp),
		"fwd": r.env.NameOf(vp), "rsc": false,
	}

	if vp.Majority() != nil {
		m["sc"] = isaac.IsSuffrageConfirmBallotFact(vp.Majority())

		if d, ok := r.env.DescOf(vp.Majority()); ok {
			m["mf"] = d.F
			m["mex"] = nz(d.Ex)
		} else {
			m["mf"] = "?"
		}
	}

	if sc, ok := finishedSC[vp.ID()]; ok {
		m["rsc"] = sc
	}

	sfs := []M{}
	for _, sf := range vp.SignFacts() {
		sfs = append(sfs, r.voteDesc(sf))
	}

	m["sfs"] = sfs

	exs := []M{}

	if w, ok := vp.(base.HasExpels); ok {
		for _, op := range w.Expels() {
			by := []string{}
			for _, s := range op.NodeSigns() {
				by = append(by, r.env.NodeName(s.Node()))
			}

			sort.Strings(by)
			exs = append(exs, M{"n": r.env.NodeName(op.ExpelFact().Node()), "by": by})
		}
	}

	m["ex"] = exs
	m["v1"] = errStr(vp.IsValid(r.env.NetworkID))
	m["v2"] = errStr(isaac.IsValidVoteproofWithSuffrage(vp, r.env.Suf))

	return m
}

func kindOf(vp base.Voteproof) string {
	if ht, ok := vp.(interface{ Hint() hint.Hint }); ok {
		return ht.Hint().Type().String()
	}

	return fmt.Sprintf("%T", vp)
}

func lastDesc(l isaac.LastPoint) M {
	return M{"h": modelHeight(l.Height()), "r": int(l.Round()), "s": stageNum(l.Stage()),
		"maj": l.IsMajority(), "sc": l.IsSuffrageConfirm()}
}

// observe drains the voteproof channel and reads the accessor.
func (r *Runner) observe() M {
	var vps []base.Voteproof

drain:
	for {
		select {
		case vp := <-r.box.Voteproof():
			vps = append(vps, vp)
		default:
			break drain
		}
	}

	recs := r.box.VerifRecords()
	removed := r.box.VerifRemoved()
	finishedSC := map[string]bool{}

	orecs := []M{}

	for _, v := range recs {
		kp, kh, kr, ks := parseKey(v.Key)
		votes := []M{}

		for _, sf := range v.Voted {
			d := r.voteDesc(sf)
			votes = append(votes, M{"n": d["n"], "f": d["f"], "ex": d["ex"]})
		}

		for _, sf := range v.Ballots {
			d := r.voteDesc(sf)
			votes = append(votes, M{"n": d["n"], "f": d["f"], "ex": d["ex"]})
		}

		if v.FinishedID != "" {
			finishedSC[v.FinishedID] = v.IsSuffrageConfirm
		}

		orecs = append(orecs, M{
			"kp": kp, "kh": kh, "kr": kr, "ks": ks, "id": idOf(v.Ref),
			"h": modelHeight(v.StagePoint.Height()), "r": int(v.StagePoint.Round()), "s": stageNum(v.StagePoint.Stage()),
			"sc": v.IsSuffrageConfirm, "fin": v.FinishedID != "", "votes": votes,
		})
	}

	orem := []M{}

	for _, v := range removed {
		if v.FinishedID != "" {
			if _, ok := finishedSC[v.FinishedID]; !ok {
				finishedSC[v.FinishedID] = v.IsSuffrageConfirm
			}
		}

		orem = append(orem, M{"id": idOf(v.Ref), "h": modelHeight(v.StagePoint.Height()), "r": int(v.StagePoint.Round()),
			"s": stageNum(v.StagePoint.Stage()), "sc": v.IsSuffrageConfirm})
	}

	sort.Slice(orem, func(i, j int) bool { return orem[i]["id"].(int) < orem[j]["id"].(int) })

	ovps := []M{}
	for _, vp := range vps {
		ovps = append(ovps, r.describeVP(vp, finishedSC))
	}

	now := putCounts()
	pd := [][2]int{}

	for id, n := range now {
		if d := n - r.lastPuts[id]; d != 0 {
			pd = append(pd, [2]int{id, d})
		}
	}

	sort.Slice(pd, func(i, j int) bool { return pd[i][0] < pd[j][0] })
	r.lastPuts = now

	return M{"vps": ovps, "last": lastDesc(r.box.LastPoint()), "recs": orecs, "removed": orem, "pd": pd}
}

func merge(a, b M) M {
	for k, v := range b {
		a[k] = v
	}

	return a
}

func evpDesc(s VPSpec) M {
	return M{"name": s.Name, "h": s.H, "r": s.R, "s": s.S, "ex": nz(sorted(s.Ex)), "idl": s.ID}
}

func (r *Runner) callArgs(o Op) M {
	switch o.Op {
	case "Vote":
		b := o.B

		return M{"node": b.Node, "h": b.H, "r": b.R, "s": b.S, "sc": b.SC, "f": b.F, "ex": nz(sorted(b.Ex)), "evp": evpDesc(b.EVP)}
	case "SetLast":
		return M{"h": o.H, "r": o.R, "s": o.S, "maj": o.Maj, "sc": o.SC}
	case "Voted":
		return M{"h": o.H, "r": o.R, "s": o.S, "nodes": nz(o.Nodes)}
	case "Missing":
		return M{"h": o.H, "r": o.R, "s": o.S}
	default:
		return M{}
	}
}

// perform runs one op on the real box and returns its results.
func (r *Runner) perform(o Op) M {
	res := M{"panic": ""}

	pan := h.Catch(func() {
		switch o.Op {
		case "Vote":
			bl := r.ballot(o.B)
			voted, err := r.box.Vote(bl)
			res["voted"] = voted
			res["err"] = errStr(err)
		case "Count":
			res["ret"] = r.box.Count()
		case "Tick":
			r.tick()

			res["ret"] = true
		case "SetLast":
			lp, err := isaac.NewLastPoint(base.NewStagePoint(realPoint(o.H, o.R), stageOf(o.S)), o.Maj, o.SC)
			if err != nil {
				res["ret"] = false

				return
			}

			res["ret"] = r.box.SetLastPoint(lp)
		case "Voted":
			addrs := make([]base.Address, len(o.Nodes))

			r.envMu.Lock()
			for i, n := range o.Nodes {
				addrs[i] = r.env.Outsider(n).Address()
			}
			r.envMu.Unlock()

			sfs := r.box.Voted(base.NewStagePoint(realPoint(o.H, o.R), stageOf(o.S)), addrs)
			ret := []M{}

			r.envMu.Lock()
			for _, sf := range sfs {
				d := r.voteDesc(sf)
				ret = append(ret, M{"n": d["n"], "f": d["f"], "ex": d["ex"], "sc": d["sc"], "h": d["h"], "r": d["r"], "s": d["s"]})
			}
			r.envMu.Unlock()

			sort.Slice(ret, func(i, j int) bool { return ret[i]["n"].(string) < ret[j]["n"].(string) })
			res["ret"] = ret
		case "Missing":
			nodes, found, err := r.box.MissingNodes(base.NewStagePoint(realPoint(o.H, o.R), stageOf(o.S)))
			names := []string{}

			r.envMu.Lock()
			for _, a := range nodes {
				names = append(names, r.env.NodeName(a))
			}
			r.envMu.Unlock()

			sort.Strings(names)
			res["ret"] = names
			res["found"] = found
			res["err"] = errStr(err)
		default:
			panic("unknown op " + o.Op)
		}
	})
	if pan != "" {
		res["panic"] = pan[:min(len(pan), 400)]
	}

	return res
}

// holdOf is the hold duration of a history.
func holdOf(hist History) time.Duration {
	if hist.Hold == "zero" {
		return 0
	}

	return time.Hour * 24
}

const tickInterval = 50 * time.Microsecond

// startTicker lets every hold expire and starts the box's own daemon: its ticker calls
// countHoldeds every tickInterval (Ballotbox.start).
func (r *Runner) startTicker() func() {
	r.box.SetCountAfter(0)
	r.box.SetInterval(tickInterval)

	ctx, cancel := context.WithCancel(context.Background())
	if err := r.box.Start(ctx); err != nil {
		cancel()
		panic(err)
	}

	return func() {
		_ = r.box.Stop() // returns when the ticker loop has ended
		cancel()
		r.box.SetCountAfter(holdOf(r.hist))
	}
}

// waitTicks returns when a ticker of the same period, created after the box's, has fired n
// times (and at least that many periods have passed): the box's ticker has fired by then.
func waitTicks(n int) {
	t := time.NewTicker(tickInterval)
	defer t.Stop()

	started := time.Now()

	for i := 0; i < n; i++ {
		<-t.C
	}

	if d := time.Duration(n)*tickInterval - time.Since(started); d > 0 {
		time.Sleep(d)
	}
}

// tick is one scripted run of the ticker: the holds have expired, the ticker fires (several
// times), the daemon is stopped again. What countHoldeds emits is read by observe().
func (r *Runner) tick() {
	stop := r.startTicker()
	defer stop()

	waitTicks(8)
}

func ballotKey(b BallotSpec) string {
	return fmt.Sprintf("%s|%d|%d|%d|%v|%s|%v|%s", b.Node, b.H, b.R, b.S, b.SC, b.F, sorted(b.Ex), b.EVP.Name)
}

func (r *Runner) ballot(b BallotSpec) base.Ballot {
	if bl, ok := r.prebuilt[ballotKey(b)]; ok {
		return bl
	}

	r.envMu.Lock()
	defer r.envMu.Unlock()

	return r.env.Ballot(b)
}

func defaults(o Op, res M) M {
	// every event of a kind carries the same fields (the trace spec reads them unconditionally)
	switch o.Op {
	case "Vote":
		if _, ok := res["voted"]; !ok {
			res["voted"] = false
			res["err"] = "panic"
		}
	case "Count", "SetLast", "Tick":
		if _, ok := res["ret"]; !ok {
			res["ret"] = false
		}
	case "Voted":
		if _, ok := res["ret"]; !ok {
			res["ret"] = []M{}
		}
	case "Missing":
		if _, ok := res["ret"]; !ok {
			res["ret"] = []string{}
			res["found"] = false
			res["err"] = "panic"
		}
	}

	return res
}

// RunHistory executes one history on a fresh ballot box and logs it.
func (r *Runner) RunHistory(hist History) {
	r.hist = hist
	r.prebuilt = nil
	r.env = NewEnv(hist.N, hist.T10)
	local := r.env.Locals[hist.Local]
	th := r.env.Threshold
	suf := r.env.Suf

	r.box = isaacstates.NewBallotbox(local.Address(),
		func() base.Threshold { return th },
		func(height base.Height) (base.Suffrage, bool, error) {
			if hist.Lag && modelHeight(height) > hist.SufUpTo {
				return nil, false, nil // not known yet
			}

			return suf, true, nil
		},
	)

	r.box.SetCountAfter(holdOf(hist))

	runtime.Gosched()
	r.baseline = runtime.NumGoroutine()
	r.lastPuts = putCounts()

	sufupto := 1 << 20
	if hist.Lag {
		sufupto = hist.SufUpTo
	}

	r.out.Emit(M{"a": "Reset", "nodes": r.env.Names, "local": hist.Local, "t10": hist.T10, "hold": hist.Hold, "sufupto": sufupto,
		"conc": len(hist.Threads) > 0, "ticker": hist.Ticker && len(hist.Threads) > 0, "tag": hist.Tag, "newproc": !r.started})
	r.started = true

	for _, o := range hist.Ops {
		res := defaults(o, r.perform(o))
		r.settle()
		ev := merge(merge(M{"a": o.Op}, r.callArgs(o)), res)
		r.out.Emit(merge(ev, r.observe()))
	}

	if len(hist.Threads) > 0 {
		r.runThreads(hist.Threads)
	}
}

// runThreads runs the threads concurrently: call/return events carry a logical clock order
// (the log's own order); one observation is logged when everything has come to rest.
func (r *Runner) runThreads(threads [][]Op) {
	var wg sync.WaitGroup

	// sign everything first: the threads only call the box
	r.prebuilt = map[string]base.Ballot{}

	for ti := range threads {
		for _, o := range threads[ti] {
			if o.Op == "Vote" {
				r.prebuilt[ballotKey(o.B)] = r.env.Ballot(o.B)
			}
		}
	}

	start := make(chan struct{})

	stopTicker := func() {}
	if r.hist.Ticker { // the box's ticker counts held records (holds expired) while the threads vote
		stopTicker = r.startTicker()
	}

	for ti := range threads {
		wg.Add(1)

		go func(ti int) {
			defer wg.Done()

			<-start

			for oi, o := range threads[ti] {
				c := fmt.Sprintf("t%d.%d", ti, oi)
				r.out.Emit(merge(M{"a": "Call", "c": c, "op": o.Op}, r.callArgsFull(o)))
				res := defaults(o, r.perform(o))
				r.out.Emit(merge(M{"a": "Ret", "c": c, "op": o.Op}, retFull(res)))
			}
		}(ti)
	}

	close(start)
	wg.Wait()

	if r.hist.Ticker {
		waitTicks(4) // what the threads left held is counted as well
	}

	stopTicker()
	r.settle()
	// nothing is pending any more: every deferred count has run
	r.out.Emit(merge(M{"a": "Quiet"}, r.observe()))
}

// callArgsFull / retFull give Call and Ret events one fixed field set over all op kinds.
func (r *Runner) callArgsFull(o Op) M {
	m := M{"node": "", "h": 0, "r": 0, "s": 0, "sc": false, "f": "", "ex": []string{}, "evp": evpDesc(VPSpec{}),
		"maj": false, "nodes": []string{}}

	return merge(m, r.callArgs(o))
}

func retFull(res M) M {
	m := M{"voted": false, "ret": false, "err": "", "panic": ""}
	for k, v := range res {
		switch k {
		case "voted", "err", "panic":
			m[k] = v
		case "ret":
			if b, ok := v.(bool); ok {
				m["ret"] = b
			}
		}
	}

	return m
}
