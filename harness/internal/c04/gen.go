package c04

import (
	"fmt"
	"math/rand"
	"strings"
)

// Generator of seeded random histories: consensus-like flows (INIT votes, suffrage-confirm
// votes after an expel, ACCEPT votes, next height) with deviations (old, duplicate, future and
// conflicting ballots, embedded voteproofs that are canonical, missing or adversarial (also forged
// ones that carry the ID and stage point of the canonical voteproof: an ID is chosen by the sender),
// explicit SetLastPoint / Count calls, reads of Voted / MissingNodes), ACCEPT ballots that
// arrive late (after the INIT ballots of the next round or height), voters that disagree on
// the expels (a draw the box holds back) and runs of the box's ticker (Tick: held records
// are counted by countHoldeds).
type gen struct {
	rng   *rand.Rand
	n     int
	t10   int
	names []string
	local string
}

func (g *gen) nodesExcept(ex []string) []string {
	var out []string

	for _, n := range g.names {
		skip := false

		for _, x := range ex {
			if x == n {
				skip = true
			}
		}

		if !skip {
			out = append(out, n)
		}
	}

	return out
}

func exKey(ex []string) string { return strings.Join(sorted(ex), ",") }

// canonical embedded voteproof of a ballot, as the protocol would carry it
func (g *gen) prevVP(b BallotSpec) VPSpec {
	switch {
	case b.SC || b.S == sACCEPT:
		v := VPSpec{Name: fmt.Sprintf("I|%d|%d|%s|%s", b.H, b.R, b.F, exKey(b.Ex)), H: b.H, R: b.R, S: sINIT, Ex: sorted(b.Ex), T10: g.t10}
		for _, n := range g.nodesExcept(b.Ex) {
			v.Votes = append(v.Votes, []string{n, b.F})
		}

		v.ID = "id|" + v.Name

		return v
	case b.R == 0:
		v := VPSpec{Name: fmt.Sprintf("A|%d|0|A|", b.H-1), H: b.H - 1, R: 0, S: sACCEPT, T10: g.t10}
		for _, n := range g.names {
			v.Votes = append(v.Votes, []string{n, "A"})
		}

		v.ID = "id|" + v.Name

		return v
	default:
		v := VPSpec{Name: fmt.Sprintf("A|%d|%d|draw|", b.H, b.R-1), H: b.H, R: b.R - 1, S: sACCEPT, T10: g.t10}
		for i, n := range g.names {
			v.Votes = append(v.Votes, []string{n, []string{"A", "B", "C"}[i%3]})
		}

		v.ID = "id|" + v.Name

		return v
	}
}

// an embedded voteproof that must not be forwarded, or that is for an unexpected point
func (g *gen) oddVP(b BallotSpec) VPSpec {
	switch g.rng.Intn(6) {
	case 5: // the ID (a free string) and the stage point of the canonical voteproof, signed by keys outside the suffrage
		v := g.prevVP(b)
		v.Name = "coll|" + v.Name
		for i := range v.Votes {
			v.Votes[i] = []string{[]string{"x7", "x8", "x9"}[i%3], "B"}
		}

		v.ForceMF = "B"

		return v
	case 0: // one signer claiming a majority
		return VPSpec{Name: fmt.Sprintf("odd1|%d|%d|%d|%s", b.H, b.R, b.S, b.Node), H: b.H, R: b.R, S: sINIT, T10: g.t10,
			Votes: [][]string{{b.Node, "A"}}, ForceMF: "A"}
	case 1: // threshold below the box's
		v := g.prevVP(b)
		v.Name = "lowth|" + v.Name
		v.ID = ""
		v.T10 = 510

		return v
	case 2: // a majority for a future point
		v := VPSpec{Name: fmt.Sprintf("fut|%d", b.H+1), H: b.H + 1, R: 0, S: sINIT, T10: g.t10}
		for _, n := range g.names {
			v.Votes = append(v.Votes, []string{n, "A"})
		}

		return v
	case 3: // a signer outside the suffrage
		v := g.prevVP(b)
		v.Name = "out|" + v.Name
		v.ID = ""
		v.Votes = append(v.Votes, []string{"x9", "A"})

		return v
	default: // claimed draw although everybody agrees
		v := g.prevVP(b)
		v.Name = "fdraw|" + v.Name
		v.ID = ""
		v.ForceMF = "draw"

		return v
	}
}

func (g *gen) pickEx() []string {
	if g.n < 2 {
		return nil
	}

	switch p := g.rng.Intn(10); {
	case p < 5:
		return nil
	case p < 8 || g.n < 4:
		return []string{g.names[1+g.rng.Intn(g.n-1)]}
	case p < 9:
		a := 1 + g.rng.Intn(g.n-1)
		b := 1 + g.rng.Intn(g.n-1)

		if a == b {
			return []string{g.names[a]}
		}

		return sorted([]string{g.names[a], g.names[b]})
	default:
		return []string{g.names[g.rng.Intn(g.n)]} // may be the local node
	}
}

func (g *gen) ballot(node string, h, r, s int, sc bool, f string, ex []string) Op {
	b := BallotSpec{Node: node, H: h, R: r, S: s, SC: sc, F: f, Ex: sorted(ex)}

	switch p := g.rng.Intn(20); {
	case p < 12:
		b.EVP = g.prevVP(b)
	case p < 17:
	default:
		b.EVP = g.oddVP(b)
	}

	if sc && g.rng.Intn(10) > 0 {
		b.EVP = g.prevVP(b)
	}

	return Op{Op: "Vote", B: b}
}

func (g *gen) stageVotes(h, r, s int, sc bool, ex []string) []Op {
	return g.stageVotesKnowing(h, r, s, sc, ex, 5)
}

// stageVotesKnowing: one voter in `unaware` does not know of the expels (its fact differs).
func (g *gen) stageVotesKnowing(h, r, s int, sc bool, ex []string, unaware int) []Op {
	var ops []Op

	voters := g.nodesExcept(nil)
	g.rng.Shuffle(len(voters), func(i, j int) { voters[i], voters[j] = voters[j], voters[i] })

	// how many take part: usually enough for a decision
	k := len(voters)
	if g.rng.Intn(4) == 0 {
		k = g.rng.Intn(len(voters) + 1)
	}

	split := g.rng.Intn(6) == 0 // conflicting facts -> draw or no decision

	for i, n := range voters[:k] {
		f := "A"
		if split && i%2 == 1 {
			f = "B"
		}

		e := ex
		if len(ex) > 0 && g.rng.Intn(unaware) == 0 {
			e = nil // this node does not know of the expel
		}

		if sc && len(e) == 0 {
			continue
		}

		ops = append(ops, g.ballot(n, h, r, s, sc, f, e))

		if g.rng.Intn(12) == 0 { // the same node again (same or another fact)
			ops = append(ops, g.ballot(n, h, r, s, sc, []string{"A", "B"}[g.rng.Intn(2)], e))
		}
	}

	return ops
}

func (g *gen) history(maxLen int, concurrent bool) History {
	hist := History{N: g.n, Local: g.local, T10: g.t10, Hold: []string{"never", "zero"}[g.rng.Intn(2)]}

	var ops []Op

	var late []Op // ACCEPT ballots of an earlier block that have not arrived yet

	h, r := 1, 0
	for len(ops) < maxLen && h <= 4 {
		ex := g.pickEx()

		unaware := 5
		if len(ex) > 0 && g.rng.Intn(3) == 0 {
			unaware = 2 // the voters disagree on the expels: a draw that is held back is likely
		}

		ops = append(ops, g.stageVotesKnowing(h, r, sINIT, false, ex, unaware)...)

		if len(ex) > 0 && g.rng.Intn(3) == 0 {
			ops = append(ops, Op{Op: "Tick"})
		}

		if len(late) > 0 {
			ops = append(ops, late...)
			late = nil

			if g.rng.Intn(2) == 0 {
				ops = append(ops, Op{Op: "Tick"})
			}
		}

		if len(ex) > 0 && g.rng.Intn(5) > 0 {
			ops = append(ops, g.stageVotes(h, r, sINIT, true, ex)...)
		}

		if g.rng.Intn(6) > 0 {
			acc := g.stageVotes(h, r, sACCEPT, false, ex)

			if g.rng.Intn(5) == 0 {
				late = acc
			} else {
				ops = append(ops, acc...)
			}
		}

		switch p := g.rng.Intn(10); {
		case p < 6:
			h, r = h+1, 0
		case p < 9:
			r++
		default: // stay: more ballots for the same points
		}
	}

	// deviations: displaced ballots, explicit calls, reads
	var out []Op

	for _, o := range ops {
		out = append(out, o)

		if o.Op != "Vote" {
			continue
		}

		switch p := g.rng.Intn(40); {
		case p == 0:
			out = append(out, Op{Op: "Count"})
		case p == 1:
			out = append(out, Op{Op: "SetLast", H: o.B.H, R: o.B.R, S: []int{sINIT, sACCEPT}[g.rng.Intn(2)], Maj: g.rng.Intn(2) == 0})
		case p == 2:
			out = append(out, Op{Op: "SetLast", H: o.B.H + 1, R: 0, S: sINIT, Maj: true})
		case p < 6:
			out = append(out, Op{Op: "Voted", H: o.B.H, R: o.B.R, S: o.B.S, Nodes: g.names[:1+g.rng.Intn(g.n)]})
		case p < 9:
			out = append(out, Op{Op: "Missing", H: o.B.H, R: o.B.R, S: o.B.S})
		case p < 11 && len(out) > 3:
			// an old ballot arrives again later
			out = append(out, out[g.rng.Intn(len(out)-1)])
		case p == 11:
			out = append(out, Op{Op: "Missing", H: 1, R: 0, S: sINIT}, Op{Op: "Voted", H: 1, R: 0, S: sINIT, Nodes: g.names})
		case p == 12 && o.Op == "Vote":
			// a really signed ballot of a node that is not in the suffrage
			x := o
			x.B.Node = "x9"
			out = append(out, x)
		case p == 13 || p == 14:
			out = append(out, Op{Op: "Tick"})
		}
	}

	if len(out) > maxLen {
		out = out[:maxLen]
	}

	if !concurrent {
		hist.Ops = out

		return hist
	}

	// concurrent part: a short sequential prefix, then the rest dealt to 2..4 threads
	cut := g.rng.Intn(len(out)/2 + 1)
	hist.Ops = out[:cut]
	rest := out[cut:]

	if len(rest) > 14 {
		rest = rest[:14]
	}

	nt := 2 + g.rng.Intn(3)
	hist.Threads = make([][]Op, nt)
	hist.Ticker = g.rng.Intn(2) == 0 // the box's own ticker runs next to the threads

	for _, o := range rest {
		if o.Op == "Voted" || o.Op == "Missing" || o.Op == "Tick" {
			continue
		}

		t := g.rng.Intn(nt)
		hist.Threads[t] = append(hist.Threads[t], o)
	}

	return hist
}

// RandomHistories returns num seeded histories; every conc-th one has a concurrent part.
func RandomHistories(seed int64, num, maxLen, nmax, conc int) []History {
	rng := rand.New(rand.NewSource(seed))

	var hs []History

	for i := 0; i < num; i++ {
		n := 1 + rng.Intn(nmax)
		if rng.Intn(3) == 0 {
			n = []int{3, 4, 7}[rng.Intn(3)]
			if n > nmax {
				n = nmax
			}
		}

		g := &gen{rng: rng, n: n, t10: []int{670, 670, 670, 600, 750, 1000, 510}[rng.Intn(7)]}
		for j := 0; j < n; j++ {
			g.names = append(g.names, fmt.Sprintf("n%d", j))
		}

		g.local = "n0"
		if rng.Intn(4) == 0 {
			g.local = g.names[rng.Intn(n)]
		}

		hist := g.history(4+rng.Intn(maxLen), conc > 0 && i%conc == conc-1)
		hist.Tag = fmt.Sprintf("rnd%d", i)
		hs = append(hs, hist)
	}

	return hs
}
