package c04

import (
	"encoding/json"
	"fmt"
	"os"
	"strconv"

	"mitumverif/internal/h"
)

func init() { h.Register("C04", Run) }

// Run: vh <ID> record --num N --len L --nmax M --conc K --out trace.ndjson   (seeded random histories)
//      vh <ID> run --in scripts.ndjson --out trace.ndjson                    (scripts: one History per line)
func Run(args []string) error {
	if len(args) < 1 {
		return fmt.Errorf("mode missing")
	}

	fl := h.Flags(args[1:])

	out, err := h.NewOut(fl["out"])
	if err != nil {
		return err
	}
	defer out.Close()

	var hs []History

	switch args[0] {
	case "record":
		num, _ := strconv.Atoi(fl["num"])
		ln, _ := strconv.Atoi(fl["len"])
		nmax, _ := strconv.Atoi(fl["nmax"])
		conc, _ := strconv.Atoi(fl["conc"])
		seed, _ := strconv.ParseInt(os.Getenv("VERIF_SEED"), 10, 64)

		if nmax < 1 {
			nmax = 9
		}

		hs = RandomHistories(seed, num, ln, nmax, conc)
	case "run":
		if err := h.ReadNDJSON(fl["in"], func(line []byte) error {
			var hist History
			if err := json.Unmarshal(line, &hist); err != nil {
				return err
			}

			hs = append(hs, hist)

			return nil
		}); err != nil {
			return err
		}
	default:
		return fmt.Errorf("unknown mode %q", args[0])
	}

	r := &Runner{out: out}
	for _, hist := range hs {
		r.RunHistory(hist)
	}

	fmt.Printf("histories=%d events=%d unsettled=%d\n", len(hs), out.N, r.unsettled)

	return nil
}
