// Package c30 replays the runs of spec/StreamHeader.tla (binding A) on the real
// quicstreamheader.ClientBroker / HandlerBroker (through quicstreamheader.NewHandler, with
// the real JSON encoder and real headers) over in-memory streams delivered in chunks, and
// fuzzes the read side with raw bytes (mode "fuzz", no-panic oracle; untouched streams under
// random chunk sizes must read back what was written).
//
// Deliveries: the four dense ones (all, one, tok, inlen) for every run; the sparse ones of the
// specification (kase.Cuts: one or two cut points anywhere, so that a chunk completes a field
// and carries bytes of the next) once per distinct (bytes of the direction, read calls).
//
// The code under test starts goroutines of its own (util.AwareContextValue, util.EnsureRead):
// a panic there cannot be recovered and kills the process. Results are therefore written
// unbuffered, one line per case, preceded by a {"start":i} line; with --trace every guarded
// call is preceded by a {"unit":..,"side":..} line. check/props/c30.py attributes a crash to
// the case (and unit) that was running, re-runs it alone and turns it into a verdict.
package c30

import (
	"bytes"
	"context"
	"encoding/binary"
	"encoding/json"
	"fmt"
	"io"
	"math/rand"
	"net"
	"os"
	"runtime"
	"sort"
	"strconv"
	"strings"
	"sync"
	"sync/atomic"
	"time"

	"github.com/pkg/errors"
	"github.com/spikeekips/mitum/network/quicstream"
	quicstreamheader "github.com/spikeekips/mitum/network/quicstream/header"
	"github.com/spikeekips/mitum/util"
	"github.com/spikeekips/mitum/util/encoder"
	jsonenc "github.com/spikeekips/mitum/util/encoder/json"
	"github.com/spikeekips/mitum/util/hint"

	"mitumverif/internal/h"
)

func init() { h.Register("C30", run) }

// ---------------------------------------------------------------- real headers / encoders

var reqHint = hint.MustNewHint("verif-request-header-v1.2.3")

const handlerName = quicstream.HandlerName("verif-c30")

type reqHeader struct {
	quicstreamheader.BaseRequestHeader
	ID string
}

func newReqHeader(id string) reqHeader {
	return reqHeader{BaseRequestHeader: quicstreamheader.NewBaseRequestHeader(reqHint, quicstream.HashPrefix(handlerName)), ID: id}
}

type reqHeaderJSON struct {
	ID string `json:"id"`
}

func (r reqHeader) MarshalJSON() ([]byte, error) {
	return util.MarshalJSON(struct {
		quicstreamheader.BaseRequestHeader
		reqHeaderJSON
	}{BaseRequestHeader: r.BaseRequestHeader, reqHeaderJSON: reqHeaderJSON{ID: r.ID}})
}

func (r *reqHeader) UnmarshalJSON(b []byte) error {
	if err := util.UnmarshalJSON(b, &r.BaseRequestHeader); err != nil {
		return err
	}
	var u reqHeaderJSON
	if err := util.UnmarshalJSON(b, &u); err != nil {
		return err
	}
	r.ID = u.ID
	return nil
}

func newEncoders() (*encoder.Encoders, encoder.Encoder, error) {
	enc := jsonenc.NewEncoder()
	encs := encoder.NewEncoders(enc, enc)
	if err := encs.AddDetail(encoder.DecodeDetail{Hint: quicstreamheader.DefaultResponseHeaderHint, Instance: quicstreamheader.DefaultResponseHeader{}}); err != nil {
		return nil, nil, err
	}
	if err := encs.AddDetail(encoder.DecodeDetail{Hint: reqHint, Instance: reqHeader{}}); err != nil {
		return nil, nil, err
	}
	return encs, enc, nil
}

const errText = "verif-e1"

func bodyData(n int) []byte {
	b := make([]byte, n)
	for i := range b {
		b[i] = []byte{2, 3, 1}[i%3]
	}
	return b
}

// ---------------------------------------------------------------- streams

// recWriter keeps what was written and where every Write call ended (= token boundaries)
type recWriter struct {
	buf    bytes.Buffer
	ends   []int
	closed bool
}

func (w *recWriter) Write(p []byte) (int, error) {
	if w.closed {
		return 0, errors.Errorf("write on closed stream")
	}
	w.buf.Write(p)
	w.ends = append(w.ends, w.buf.Len())
	return len(p), nil
}

func (w *recWriter) Close() error { w.closed = true; return nil }

func (w *recWriter) tok(i int) (from, to int) { // 1-based token
	if i > 1 {
		from = w.ends[i-2]
	}
	return from, w.ends[i-1]
}

type chunkReader struct {
	data  []byte
	plan  []int
	pos   int
	pi    int
	cur   int
	eager bool
}

func (c *chunkReader) Read(p []byte) (int, error) {
	if c.pos >= len(c.data) {
		return 0, io.EOF
	}
	if len(p) == 0 {
		return 0, nil
	}
	for c.cur <= 0 {
		if c.pi < len(c.plan) {
			c.cur = c.plan[c.pi]
			c.pi++
		} else {
			c.cur = len(c.data) - c.pos
		}
	}
	n := min(c.cur, len(p), len(c.data)-c.pos)
	copy(p, c.data[c.pos:c.pos+n])
	c.pos += n
	c.cur -= n
	if c.eager && c.pos >= len(c.data) {
		return n, io.EOF
	}
	return n, nil
}

type plan struct {
	name  string
	sizes []int
}

func plansOf(n int, ends []int) []plan {
	one := make([]int, n)
	for i := range one {
		one[i] = 1
	}
	var tok, inlen []int
	prev := 0
	for _, e := range ends {
		if e > n {
			break
		}
		if e-prev == 8 {
			inlen = append(inlen, 3, 5)
		} else if e > prev {
			inlen = append(inlen, e-prev)
		}
		if e > prev {
			tok = append(tok, e-prev)
		}
		prev = e
	}
	return []plan{{"all", []int{n}}, {"one", one}, {"tok", tok}, {"inlen", inlen}}
}

var eofModes = []string{"late", "eager"}

// cutPlan turns a delivery of the specification (cut points 10*token+pos: pos 0 = end of the
// token, 1 = after its first byte, 2 = middle, 3 = before its last byte) into chunk sizes.
func cutPlan(cuts []int, ends []int, n int) (plan, error) {
	var offs []int
	var names []string
	for _, c := range cuts {
		i, o := c/10, c%10
		if i < 1 || i > len(ends) || o > 3 {
			return plan{}, fmt.Errorf("cut %d: no such token (%d tokens)", c, len(ends))
		}
		from, to := 0, ends[i-1]
		if i > 1 {
			from = ends[i-2]
		}
		off := to
		switch o {
		case 1:
			off = from + 1
		case 2:
			off = from + (to-from)/2
		case 3:
			off = to - 1
		}
		if o != 0 && (off <= from || off >= to) {
			return plan{}, fmt.Errorf("cut %d: token of %d bytes cannot be split", c, to-from)
		}
		if off <= 0 || off > n {
			return plan{}, fmt.Errorf("cut %d: offset %d outside the %d bytes", c, off, n)
		}
		offs = append(offs, off)
		names = append(names, fmt.Sprintf("%d%c", i, "efml"[o]))
	}
	sort.Ints(offs)
	var sizes []int
	prev := 0
	for _, o := range offs {
		if o > prev {
			sizes = append(sizes, o-prev)
			prev = o
		}
	}
	return plan{"cut(" + strings.Join(names, ",") + ")", sizes}, nil
}

// unbuffered ndjson: a line is on disk when Emit returns, whatever happens to the process next
type lineOut struct {
	mu sync.Mutex
	fd *os.File
}

func (o *lineOut) Emit(v interface{}) {
	b, err := json.Marshal(v)
	if err != nil {
		panic(err)
	}
	b = append(b, '\n')
	o.mu.Lock()
	_, _ = o.fd.Write(b)
	o.mu.Unlock()
}

// opts of one process: progress lines per guarded call, units to leave out
type opts struct {
	out   *lineOut
	trace bool
	skip  map[string]bool
}

func (o *opts) unit(i int, name, side, tok string) {
	if o.trace {
		o.out.Emit(map[string]interface{}{"unit": name, "side": side, "case": i, "tok": tok})
	}
}

// ---------------------------------------------------------------- cases

type msg struct {
	T string `json:"t"` // req | res | body | any
	K string `json:"k"`
	N int    `json:"n"`
}

type opc struct {
	Op string `json:"op"` // readreq | readbody | readres | write
	msg
	OK bool `json:"ok"`
}

type tamper struct {
	Dir string `json:"dir"`
	I   int    `json:"i"`
	A   string `json:"a"`
	X   string `json:"x"`
	Msg int    `json:"msg"`
}

type kase struct {
	Cmsgs []msg  `json:"cmsgs"`
	Hops  []opc  `json:"hops"`
	Cops  []opc  `json:"cops"`
	Tam   tamper `json:"tam"`
	Ntok  struct {
		C2H int `json:"c2h"`
		H2C int `json:"h2c"`
	} `json:"ntok"`
	Cuts struct { // sparse deliveries: c = one cut, 1000*c+d = two cuts
		C2H []int `json:"c2h"`
		H2C []int `json:"h2c"`
	} `json:"cuts"`
	ownC2H, ownH2C bool // first case with these bytes and read calls: performs the sparse deliveries
}

func cutsOf(dl int) []int {
	if dl < 1000 {
		return []int{dl}
	}
	return []int{dl / 1000, dl % 1000}
}

// owners marks, per direction, the first case of every class (messages of the direction, adversary
// action, read calls of the direction): the bytes and the calls of the reading side are the same
// within a class, the sparse deliveries are performed once for it.
func owners(cases []*kase) {
	seenC, seenH := map[string]bool{}, map[string]bool{}
	for _, k := range cases {
		var reads, writes []opc
		for _, o := range k.Hops {
			if o.Op == "write" {
				writes = append(writes, o)
			} else {
				reads = append(reads, o)
			}
		}
		kc, _ := json.Marshal([]interface{}{k.Cmsgs, k.Tam, reads})
		kh, _ := json.Marshal([]interface{}{writes, k.Tam, k.Cops})
		k.ownC2H, k.ownH2C = !seenC[string(kc)], !seenH[string(kh)]
		// the direction the adversary did not touch carries the bytes of an untouched run: its sparse
		// deliveries are those of the run without adversary
		if k.Tam.Dir == "c2h" {
			k.ownH2C = false
		}
		if k.Tam.Dir == "h2c" {
			k.ownC2H = false
		}
		if k.ownC2H {
			seenC[string(kc)] = true
		}
		if k.ownH2C {
			seenH[string(kh)] = true
		}
	}
}

type failure struct {
	Side string `json:"side"` // client-write | handler | client-read | machinery
	At   int    `json:"at"`
	Op   string `json:"op"`
	Kind string `json:"kind"` // panic | hang | mismatch | rejected | accepted | tokens
	Plan string `json:"plan"`
	EOF  string `json:"eof"`
	Got  string `json:"got"`
	Want string `json:"want"`
	Tok  string `json:"tok,omitempty"` // kind of the tampered token
}

type result struct {
	I      int            `json:"i"`
	Calls  int            `json:"calls"`
	Fails  []failure      `json:"fails,omitempty"`
	Any    map[string]int `json:"any,omitempty"` // outcome of the calls the specification leaves open
	Skip   int            `json:"skipped_huge_alloc,omitempty"`
	Units  int            `json:"units"`            // (delivery, EOF style) pairs performed
	Sparse int            `json:"sparse,omitempty"` // of which sparse deliveries
}

type env struct {
	encs *encoder.Encoders
	enc  encoder.Encoder
}

var bodyTypes = map[string]quicstreamheader.BodyType{
	"empty": quicstreamheader.EmptyBodyType, "fixed": quicstreamheader.FixedLengthBodyType, "stream": quicstreamheader.StreamBodyType,
}

func writeBody(ctx context.Context, b quicstreamheader.WriteBodyBroker, m msg) error {
	var r io.Reader
	if m.K != "empty" {
		r = bytes.NewReader(bodyData(m.N))
	}
	n := uint64(0)
	if m.K == "fixed" {
		n = uint64(m.N)
	}
	return b.WriteBody(ctx, bodyTypes[m.K], n, r)
}

// what a read call returned, in the vocabulary of the specification
type got struct {
	msg
	data []byte
	err  error
	desc string
}

func describeBody(bt quicstreamheader.BodyType, n uint64, body io.Reader, res quicstreamheader.ResponseHeader, err error) got {
	g := got{err: err}
	switch {
	case err != nil:
		g.T, g.desc = "error", "error: "+err.Error()
		return g
	case res != nil:
		g.T = "res"
		g.K = "err"
		if res.OK() {
			g.K = "ok"
		}
		et := ""
		if res.Err() != nil {
			et = res.Err().Error()
		}
		g.desc = fmt.Sprintf("response ok=%v err=%q", res.OK(), et)
		if (g.K == "ok") != (et == "") || (et != "" && et != errText) {
			g.K = "res?" + g.desc
		}
		return g
	}
	g.T = "body"
	for k, v := range bodyTypes {
		if v == bt {
			g.K = k
		}
	}
	if g.K == "" {
		g.K = fmt.Sprintf("type%v", bt)
	}
	if body != nil {
		b, rerr := io.ReadAll(body)
		g.data = b
		if rerr != nil {
			g.desc = "body read error: " + rerr.Error()
		}
	}
	g.N = len(g.data)
	if g.K == "fixed" && uint64(g.N) != n {
		g.desc += fmt.Sprintf(" announced %d got %d bytes", n, g.N)
	}
	g.desc = fmt.Sprintf("body %s len=%d data=%x %s", g.K, n, g.data, g.desc)
	return g
}

func (g got) matches(want opc) bool {
	if !want.OK {
		return g.T == "error"
	}
	if g.T != want.T || g.K != want.K {
		return false
	}
	if want.T == "body" {
		return g.N == want.N && bytes.Equal(g.data, bodyData(want.N)) && (g.desc == "" || !bytes.Contains([]byte(g.desc), []byte("announced")))
	}
	return true
}

func wantDesc(o opc) string {
	if !o.OK {
		return "error"
	}
	return fmt.Sprintf("%s %s n=%d", o.T, o.K, o.N)
}

// guarded runs f with panic capture and a time limit
func guarded(f func()) (panicked string, hung bool) {
	done := make(chan string, 1)
	go func() { done <- h.Catch(f) }()
	select {
	case p := <-done:
		return p, false
	case <-time.After(60 * time.Second):
		hangs.Add(1)
		return "", true
	}
}

// calls that did not return (and whose goroutines may still be spinning) in this process: a case stops at
// its first one, and after maxHangs of them the remaining cases are answered "not run" - the verdict is in,
// the process would only get slower
var hangs atomic.Int32

const maxHangs = 8

func (r *result) hung() bool {
	for _, f := range r.Fails {
		if f.Kind == "hang" {
			return true
		}
	}
	return false
}

type lateReader struct{ r io.Reader }

func (l *lateReader) Read(p []byte) (int, error) {
	if l.r == nil {
		return 0, io.EOF
	}
	return l.r.Read(p)
}

// allocWalk follows the grammar as the readers do and returns the largest lengthed part
// (encoder hint / header) they would allocate
func allocWalk(b []byte, prefix bool) uint64 {
	if prefix {
		if len(b) < 32 {
			return 0
		}
		b = b[32:]
	}
	var worst uint64
	for len(b) > 0 {
		dt := b[0]
		b = b[1:]
		switch dt {
		case 1, 3:
			for k := 0; k < 2; k++ {
				if len(b) < 8 {
					return worst
				}
				v := binary.BigEndian.Uint64(b[:8])
				b = b[8:]
				if v > uint64(len(b)) {
					if v < 1<<31 && v > worst {
						worst = v
					}
					return worst
				}
				b = b[v:]
			}
		case 2:
			if len(b) < 1 {
				return worst
			}
			bt := b[0]
			b = b[1:]
			switch bt {
			case 1:
			case 2:
				if len(b) < 8 {
					return worst
				}
				v := binary.BigEndian.Uint64(b[:8])
				b = b[8:]
				if v > uint64(len(b)) {
					return worst
				}
				b = b[v:]
			default:
				return worst
			}
		default:
			return worst
		}
	}
	return worst
}

const capAlloc = 1 << 20

func applyTamper(data []byte, w *recWriter, t tamper) ([]byte, string, error) {
	if t.I < 1 || t.I > len(w.ends) {
		return nil, "", fmt.Errorf("tamper token %d of %d", t.I, len(w.ends))
	}
	from, to := w.tok(t.I)
	kind := fmt.Sprintf("%d-byte", to-from)
	out := append([]byte{}, data...)
	switch t.A {
	case "cut":
		return out[:from], kind, nil
	case "cutin":
		n := (to - from) / 2
		if n < 1 {
			n = 1
		}
		if from+n >= to {
			return out[:from], kind, nil
		}
		return out[:from+n], kind, nil
	case "set":
		if to-from == 1 {
			x, err := strconv.Atoi(t.X)
			if err != nil {
				return nil, "", err
			}
			out[from] = byte(x)
			return out, kind, nil
		}
		if to-from != 8 {
			return nil, "", fmt.Errorf("set on a %d-byte token", to-from)
		}
		v := binary.BigEndian.Uint64(out[from:to])
		nv := map[string]uint64{"zero": 0, "dec": v - 1, "inc": v + 1, "i31": 1 << 31, "i63": 1 << 63, "max": ^uint64(0)}[t.X]
		if t.X == "dec" && v == 0 {
			nv = 1
		}
		if nv == v {
			nv = v + 2
		}
		binary.BigEndian.PutUint64(out[from:to], nv)
		return out, kind, nil
	}
	return nil, "", fmt.Errorf("unknown tamper %q", t.A)
}

func (e *env) do(k *kase, i int, o *opts) result {
	res := result{I: i, Any: map[string]int{}}
	ctx := context.Background()
	// ---- client writes (once; the bytes are the same for every chunking)
	cw := &recWriter{}
	late := &lateReader{}
	cb := quicstreamheader.NewClientBroker(e.encs, e.enc, late, cw)
	if p := h.Catch(func() {
		for j, m := range k.Cmsgs {
			var err error
			res.Calls++
			if m.T == "req" {
				err = cb.WriteRequestHead(ctx, newReqHeader(m.K))
			} else {
				err = writeBody(ctx, cb, m)
			}
			if err != nil {
				res.Fails = append(res.Fails, failure{Side: "client-write", At: j, Op: "write", Kind: "rejected", Got: err.Error(), Want: "written"})
				return
			}
		}
	}); p != "" {
		res.Fails = append(res.Fails, failure{Side: "client-write", Kind: "panic", Got: p})
	}
	if len(res.Fails) > 0 {
		return res
	}
	if len(cw.ends) != k.Ntok.C2H {
		res.Fails = append(res.Fails, failure{Side: "machinery", Kind: "tokens", Got: fmt.Sprint(len(cw.ends)), Want: fmt.Sprint(k.Ntok.C2H)})
		return res
	}
	c2h := cw.buf.Bytes()
	tokKind := ""
	if k.Tam.Dir == "c2h" {
		var err error
		if c2h, tokKind, err = applyTamper(c2h, cw, k.Tam); err != nil {
			res.Fails = append(res.Fails, failure{Side: "machinery", Kind: "tokens", Got: err.Error()})
			return res
		}
		if allocWalk(c2h, true) > capAlloc {
			res.Skip++
			return res
		}
	}
	// ---- dense deliveries, the same one in both directions
	var ref *recWriter // what the handler wrote in a unit that went as specified
	for _, pl := range plansOf(len(c2h), cw.ends) {
		for _, eof := range eofModes {
			u := unit{k: k, i: i, o: o, res: &res, name: pl.name + "/" + eof, plan: pl.name, eof: eof, tokKind: tokKind}
			if o.skip[u.name] {
				continue
			}
			if res.hung() {
				return res
			}
			res.Units++
			hw, ok := e.handlerSide(&u, c2h, pl)
			if !ok {
				continue
			}
			if ref == nil {
				ref = hw
			}
			name := pl.name
			e.clientSide(&u, hw, func(n int, ends []int) (plan, error) {
				for _, x := range plansOf(n, ends) {
					if x.name == name {
						return x, nil
					}
				}
				return plan{}, fmt.Errorf("no plan %s", name)
			})
		}
	}
	// ---- sparse deliveries of the specification, one direction at a time
	if k.ownC2H {
		for _, dl := range k.Cuts.C2H {
			pl, err := cutPlan(cutsOf(dl), cw.ends, len(c2h))
			if err != nil {
				res.Fails = append(res.Fails, failure{Side: "machinery", Kind: "tokens", Got: "c2h " + err.Error()})
				return res
			}
			for _, eof := range eofModes {
				u := unit{k: k, i: i, o: o, res: &res, name: "c2h:" + pl.name + "/" + eof, plan: pl.name, eof: eof, tokKind: tokKind}
				if o.skip[u.name] {
					continue
				}
				if res.hung() {
					return res
				}
				res.Units++
				res.Sparse++
				e.handlerSide(&u, c2h, pl)
			}
		}
	}
	if k.ownH2C && ref != nil {
		for _, dl := range k.Cuts.H2C {
			cuts := cutsOf(dl)
			var perr error
			mk := func(n int, ends []int) (plan, error) {
				pl, err := cutPlan(cuts, ends, n)
				perr = err
				return pl, err
			}
			pl, err := cutPlan(cuts, ref.ends, ref.buf.Len()) // the name; sizes are computed on the bytes after the adversary
			if err != nil {
				res.Fails = append(res.Fails, failure{Side: "machinery", Kind: "tokens", Got: "h2c " + err.Error()})
				return res
			}
			for _, eof := range eofModes {
				u := unit{k: k, i: i, o: o, res: &res, name: "h2c:" + pl.name + "/" + eof, plan: pl.name, eof: eof, tokKind: tokKind}
				if o.skip[u.name] {
					continue
				}
				if res.hung() {
					return res
				}
				res.Units++
				res.Sparse++
				e.clientSide(&u, ref, mk)
				if perr != nil {
					return res
				}
			}
		}
	}
	return res
}

// unit = one (delivery, EOF style) of one case
type unit struct {
	k       *kase
	i       int
	o       *opts
	res     *result
	name    string
	plan    string
	eof     string
	tokKind string
}

func (u *unit) fail(side string, at int, op, kind, got, want string) {
	u.res.Fails = append(u.res.Fails, failure{Side: side, At: at, Op: op, Kind: kind, Plan: u.plan, EOF: u.eof, Got: got, Want: want, Tok: u.tokKind})
}

// handlerSide runs the handler of the case on the client's bytes delivered as pl says. ok: it
// went as specified and wrote the tokens of the run; hw holds them.
func (e *env) handlerSide(u *unit, c2h []byte, pl plan) (hw *recWriter, ok bool) {
	k, res, fail := u.k, u.res, u.fail
	ctx := context.Background()
	hw = &recWriter{}
	r := &chunkReader{data: c2h, plan: pl.sizes, eager: u.eof == "eager", cur: -1}
	called := false
	nfails := len(res.Fails)
	script := func(ctx context.Context, _ net.Addr, broker *quicstreamheader.HandlerBroker, header reqHeader) (context.Context, error) {
		called = true
		if want := k.Hops[0]; want.T != "any" {
			if header.ID != want.K || header.Hint().String() != reqHint.String() {
				fail("handler", 0, "readreq", "mismatch", fmt.Sprintf("request id=%q hint=%s", header.ID, header.Hint()), wantDesc(want))
			}
		}
		for j := 1; j < len(k.Hops); j++ {
			o := k.Hops[j]
			res.Calls++
			switch o.Op {
			case "readbody":
				bt, n, body, _, rh, err := broker.ReadBody(ctx)
				g := describeBody(bt, n, body, rh, err)
				switch {
				case o.T == "any":
					res.Any["handler-readbody:"+g.T]++
				case !g.matches(o):
					kind := "mismatch"
					if g.T == "error" {
						kind = "rejected"
					}
					fail("handler", j, o.Op, kind, g.desc, wantDesc(o))
					return ctx, nil
				}
			case "write":
				var err error
				if o.T == "res" {
					var herr error
					if o.K == "err" {
						herr = errors.Errorf(errText)
					}
					err = broker.WriteResponseHeadOK(ctx, o.K == "ok", herr)
				} else {
					err = writeBody(ctx, broker, o.msg)
				}
				if err != nil {
					fail("handler", j, o.Op, "rejected", err.Error(), wantDesc(o))
					return ctx, nil
				}
			}
		}
		return ctx, nil
	}
	handler := quicstreamheader.NewHandler[reqHeader](e.encs, script,
		func(ctx context.Context, _ net.Addr, _ *quicstreamheader.HandlerBroker, err error) (context.Context, error) {
			if k.Hops[0].T != "any" {
				fail("handler", 0, "readreq", "rejected", "error: "+err.Error(), wantDesc(k.Hops[0]))
			} else {
				res.Any["handler-readreq:error"]++
			}
			return ctx, nil
		})
	u.o.unit(u.i, u.name, "handler", u.tokKind)
	p, hung := guarded(func() {
		var prefix quicstream.HandlerPrefix
		res.Calls++
		if _, err := util.EnsureRead(ctx, r, prefix[:]); err != nil && !errors.Is(err, io.EOF) {
			if k.Hops[0].T != "any" {
				fail("handler", 0, "prefix", "rejected", err.Error(), "prefix")
			}
			return
		}
		if prefix != quicstream.HashPrefix(handlerName) && k.Hops[0].T != "any" {
			fail("handler", 0, "prefix", "mismatch", prefix.String(), "prefix of "+string(handlerName))
		}
		_, _ = handler(ctx, &net.UDPAddr{IP: net.IPv4(127, 0, 0, 1), Port: 4321}, r, hw)
	})
	switch {
	case hung:
		fail("handler", -1, "handler", "hang", "no return within 60s", "a message or an error")
		return hw, false
	case p != "":
		fail("handler", -1, "handler", "panic", p, "a message or an error")
		return hw, false
	}
	if k.Hops[0].T == "any" && called {
		res.Any["handler-readreq:message"]++
	}
	if len(res.Fails) > nfails { // the handler side already failed: what it wrote is not the run's
		return hw, false
	}
	if k.Hops[0].T == "any" { // the handler saw a damaged request: whatever it wrote is outside the run
		return hw, false
	}
	if len(hw.ends) != k.Ntok.H2C {
		if k.Tam.Dir == "c2h" {
			return hw, false // a damaged client stream may keep the handler from writing everything
		}
		fail("machinery", 0, "", "tokens", fmt.Sprint(len(hw.ends)), fmt.Sprint(k.Ntok.H2C))
		return hw, false
	}
	return hw, true
}

// clientSide performs the client's read calls on what the handler wrote (after the adversary),
// delivered as mk says.
func (e *env) clientSide(u *unit, hw *recWriter, mk func(n int, ends []int) (plan, error)) {
	k, res, fail := u.k, u.res, u.fail
	ctx := context.Background()
	h2c := hw.buf.Bytes()
	tokKind := u.tokKind
	if k.Tam.Dir == "h2c" {
		var err error
		if h2c, tokKind, err = applyTamper(h2c, hw, k.Tam); err != nil {
			fail("machinery", 0, "", "tokens", err.Error(), "")
			return
		}
		u.tokKind = tokKind
		if allocWalk(h2c, false) > capAlloc {
			res.Skip++
			return
		}
	}
	pl, err := mk(len(h2c), hw.ends)
	if err != nil {
		fail("machinery", 0, "", "tokens", "h2c "+err.Error(), "")
		return
	}
	cr := &chunkReader{data: h2c, plan: pl.sizes, eager: u.eof == "eager", cur: -1}
	cb := quicstreamheader.NewClientBroker(e.encs, e.enc, cr, &recWriter{})
	u.o.unit(u.i, u.name, "client-read", tokKind)
	p, hung := guarded(func() {
		for j, o := range k.Cops {
			res.Calls++
			var g got
			switch o.Op {
			case "readres":
				enc, rh, err := cb.ReadResponseHead(ctx)
				g = describeBody(quicstreamheader.BodyType{}, 0, nil, rh, err)
				if err == nil && (rh == nil || enc == nil) {
					g = got{msg: msg{T: "nil"}, desc: "nil response header or encoder without error"}
				}
			case "readbody":
				bt, n, body, enc, rh, err := cb.ReadBody(ctx)
				g = describeBody(bt, n, body, rh, err)
				if err == nil && rh != nil && enc == nil {
					g = got{msg: msg{T: "nil"}, desc: "response header without encoder"}
				}
			}
			switch {
			case o.T == "any":
				res.Any["client-"+o.Op+":"+g.T]++
				if tokKind != "" && g.T == "body" && g.K == "fixed" && bytes.Contains([]byte(g.desc), []byte("announced")) {
					res.Any["short-fixed-body-without-error"]++
				}
			case !g.matches(o):
				kind := "mismatch"
				if g.T == "error" {
					kind = "rejected"
				} else if !o.OK {
					kind = "accepted"
				}
				fail("client-read", j, o.Op, kind, g.desc, wantDesc(o))
				return
			}
		}
	})
	switch {
	case hung:
		fail("client-read", -1, "client", "hang", "no return within 60s", "a message or an error")
	case p != "":
		fail("client-read", -1, "client", "panic", p, "a message or an error")
	}
}

// ---------------------------------------------------------------- fuzz: raw bytes into the read side

type fuzzRow struct {
	result
	Fuzz   bool   `json:"fuzz"`
	Seed   int64  `json:"seed"`
	Side   string `json:"side"`
	Tamper string `json:"tamper"`
	Bytes  int    `json:"bytes"`
	Head   string `json:"head,omitempty"`
}

func (e *env) fuzzOne(seed int64, i int, o *opts) fuzzRow {
	r := rand.New(rand.NewSource(seed*15485863 + int64(i)))
	row := fuzzRow{Fuzz: true, Seed: seed}
	row.I = i
	row.Any = map[string]int{}
	ctx := context.Background()
	w := &recWriter{}
	handlerSide := r.Intn(2) == 0
	rb := func() msg {
		ks := []string{"empty", "fixed", "stream"}
		m := msg{T: "body", K: ks[r.Intn(3)]}
		if m.K != "empty" {
			m.N = []int{0, 1, 3, 17, 300}[r.Intn(5)]
		}
		return m
	}
	var wrote []opc // the messages after the request head, as read calls must return them
	reqID := ""
	if p := h.Catch(func() {
		if handlerSide {
			row.Side = "handler"
			cb := quicstreamheader.NewClientBroker(e.encs, e.enc, &lateReader{}, w)
			reqID = fmt.Sprintf("id%d", r.Intn(1000))
			_ = cb.WriteRequestHead(ctx, newReqHeader(reqID))
			for n := r.Intn(3); n > 0 && !w.closed; n-- {
				m := rb()
				_ = writeBody(ctx, cb, m)
				wrote = append(wrote, opc{Op: "readbody", msg: m, OK: true})
			}
		} else {
			row.Side = "client"
			hb := quicstreamheader.NewHandlerBroker(e.encs, e.enc, &lateReader{}, w)
			for n := 1 + r.Intn(3); n > 0 && !w.closed; n-- {
				if r.Intn(2) == 0 {
					var herr error
					if r.Intn(2) == 0 {
						herr = errors.Errorf(errText)
					}
					_ = hb.WriteResponseHeadOK(ctx, herr == nil, herr)
					m := msg{T: "res", K: "ok"}
					if herr != nil {
						m.K = "err"
					}
					wrote = append(wrote, opc{Op: "readbody", msg: m, OK: true})
				} else {
					m := rb()
					_ = writeBody(ctx, hb, m)
					wrote = append(wrote, opc{Op: "readbody", msg: m, OK: true})
				}
			}
		}
	}); p != "" {
		row.Fails = append(row.Fails, failure{Side: "machinery", Kind: "panic", Got: p})
		return row
	}
	data := append([]byte{}, w.buf.Bytes()...)
	flip := func() {
		if len(data) == 0 {
			return
		}
		var pos int
		if r.Intn(2) == 0 && len(w.ends) > 0 { // at a token start (type bytes, lengths)
			k := r.Intn(len(w.ends))
			pos = 0
			if k > 0 {
				pos = w.ends[k-1]
			}
			pos += r.Intn(min(8, len(data)-pos))
		} else {
			pos = r.Intn(len(data))
		}
		if r.Intn(2) == 0 {
			data[pos] ^= 1 << uint(r.Intn(8))
		} else {
			data[pos] = byte(r.Intn(256))
		}
	}
	switch t := r.Intn(10); {
	case t == 0:
		row.Tamper = "none"
	case t <= 4:
		row.Tamper = "flip"
		for n := 1 + r.Intn(3); n > 0; n-- {
			flip()
		}
	case t <= 6:
		row.Tamper = "trunc"
		if len(data) > 0 {
			data = data[:r.Intn(len(data))]
		}
	case t == 7:
		row.Tamper = "garbage"
		data = make([]byte, r.Intn(200))
		r.Read(data)
		if len(data) > 40 && r.Intn(2) == 0 {
			copy(data, w.buf.Bytes()[:min(40, w.buf.Len())])
		}
	case t == 8:
		row.Tamper = "insert"
		if len(data) > 0 {
			p := r.Intn(len(data))
			ins := make([]byte, 1+r.Intn(9))
			r.Read(ins)
			data = append(append(append([]byte{}, data[:p]...), ins...), data[p:]...)
		}
	default:
		row.Tamper = "flip+trunc"
		flip()
		if len(data) > 0 {
			data = data[:r.Intn(len(data))]
		}
	}
	row.Bytes = len(data)
	if allocWalk(data, handlerSide) > capAlloc {
		row.Skip++
		return row
	}
	var sizes []int
	for n := 0; n < len(data); {
		c := []int{1, 1, 2, 3, 7, 8, 9, 33, 1 + r.Intn(64)}[r.Intn(9)]
		sizes = append(sizes, c)
		n += c
	}
	cr := &chunkReader{data: data, plan: sizes, eager: r.Intn(2) == 0, cur: -1}
	eofName := map[bool]string{false: "late", true: "eager"}[cr.eager]
	// an untouched stream under any chunk sizes: every message written is read back (ReadBody
	// returns a response head as the response); nothing is demanded of the calls after them
	untouched := row.Tamper == "none"
	mism := func(at int, op string, g got, want opc) {
		kind := "mismatch"
		if g.T == "error" {
			kind = "rejected"
		}
		row.Fails = append(row.Fails, failure{Side: row.Side, At: at, Op: op, Kind: kind, Plan: "random", EOF: eofName, Got: g.desc, Want: wantDesc(want)})
	}
	o.unit(i, "fuzz", row.Side, "")
	p, hung := guarded(func() {
		if handlerSide {
			var prefix quicstream.HandlerPrefix
			if _, err := util.EnsureRead(ctx, cr, prefix[:]); err != nil && !errors.Is(err, io.EOF) {
				row.Any["prefix:error"]++
				if untouched {
					mism(0, "prefix", got{msg: msg{T: "error"}, desc: "error: " + err.Error()}, opc{Op: "prefix", msg: msg{T: "prefix"}, OK: true})
				}
				return
			}
			handler := quicstreamheader.NewHandler[reqHeader](e.encs,
				func(ctx context.Context, _ net.Addr, broker *quicstreamheader.HandlerBroker, hd reqHeader) (context.Context, error) {
					row.Any["readreq:message"]++
					if untouched && hd.ID != reqID {
						mism(0, "readreq", got{msg: msg{T: "req", K: hd.ID}, desc: "request id=" + hd.ID}, opc{Op: "readreq", msg: msg{T: "req", K: reqID}, OK: true})
					}
					for n := 0; n < 4; n++ {
						row.Calls++
						bt, l, body, _, rh, err := broker.ReadBody(ctx)
						g := describeBody(bt, l, body, rh, err)
						row.Any["readbody:"+g.T]++
						if untouched && n < len(wrote) && !g.matches(wrote[n]) {
							mism(n+1, "readbody", g, wrote[n])
							break
						}
						if err != nil {
							break
						}
					}
					return ctx, nil
				},
				func(ctx context.Context, _ net.Addr, broker *quicstreamheader.HandlerBroker, err error) (context.Context, error) {
					if untouched {
						mism(0, "readreq", got{msg: msg{T: "error"}, desc: "error: " + err.Error()}, opc{Op: "readreq", msg: msg{T: "req", K: reqID}, OK: true})
					}
					return ctx, broker.WriteResponseHeadOK(ctx, false, err) // as the default error handler does
				})
			row.Calls++
			_, _ = handler(ctx, &net.UDPAddr{IP: net.IPv4(127, 0, 0, 1), Port: 1}, cr, &recWriter{})
			return
		}
		cb := quicstreamheader.NewClientBroker(e.encs, e.enc, cr, &recWriter{})
		for n := 0; n < 4; n++ {
			row.Calls++
			if untouched {
				bt, l, body, _, rh, err := cb.ReadBody(ctx)
				g := describeBody(bt, l, body, rh, err)
				row.Any["readbody:"+g.T]++
				if n < len(wrote) && !g.matches(wrote[n]) {
					mism(n, "readbody", g, wrote[n])
					break
				}
				if err != nil {
					break
				}
				continue
			}
			if r.Intn(3) == 0 {
				_, rh, err := cb.ReadResponseHead(ctx)
				g := describeBody(quicstreamheader.BodyType{}, 0, nil, rh, err)
				row.Any["readres:"+g.T]++
				if err != nil {
					break
				}
				continue
			}
			bt, l, body, _, rh, err := cb.ReadBody(ctx)
			g := describeBody(bt, l, body, rh, err)
			row.Any["readbody:"+g.T]++
			if err != nil {
				break
			}
		}
	})
	switch {
	case hung:
		row.Fails = append(row.Fails, failure{Side: row.Side, Kind: "hang", Got: "no return within 60s", Want: "a message or an error"})
	case p != "":
		row.Fails = append(row.Fails, failure{Side: row.Side, Kind: "panic", Got: p, Want: "a message or an error"})
	}
	if len(row.Fails) > 0 {
		row.Head = fmt.Sprintf("%x", data[:min(len(data), 96)])
	}
	return row
}

// ---------------------------------------------------------------- command

func run(args []string) error {
	if len(args) < 1 {
		return fmt.Errorf("usage: C30 replay|fuzz ...")
	}
	fl := h.Flags(args[1:])
	fd, err := os.Create(fl["out"])
	if err != nil {
		return err
	}
	defer fd.Close()
	o := &opts{out: &lineOut{fd: fd}, skip: map[string]bool{}}
	_, o.trace = fl["trace"]
	for _, u := range strings.Split(fl["skip"], ";") {
		if u != "" {
			o.skip[u] = true
		}
	}
	encs, enc, err := newEncoders()
	if err != nil {
		return err
	}
	e := &env{encs: encs, enc: enc}
	workers := min(runtime.NumCPU(), 8)
	if s, ok := fl["workers"]; ok {
		workers, _ = strconv.Atoi(s)
	}
	// a case that is re-run alone: leave goroutines the code under test may have left behind the
	// time to fail before the process ends
	grace := func() {
		if s, ok := fl["grace"]; ok {
			ms, _ := strconv.Atoi(s)
			time.Sleep(time.Duration(ms) * time.Millisecond)
		}
	}
	pool := func(ids []int, f func(i int) interface{}) {
		ch := make(chan int)
		var wg sync.WaitGroup
		for w := 0; w < workers; w++ {
			wg.Add(1)
			go func() {
				defer wg.Done()
				for i := range ch {
					if hangs.Load() >= maxHangs {
						o.out.Emit(map[string]interface{}{"i": i, "not_run_after_hangs": true})
						continue
					}
					o.out.Emit(map[string]int{"start": i})
					o.out.Emit(f(i))
				}
			}()
		}
		for _, i := range ids {
			ch <- i
		}
		close(ch)
		wg.Wait()
		grace()
	}
	// --only "3,17,21": these cases (indices of the input / of the fuzz sequence) and no others
	only := func(n int) []int {
		var ids []int
		if s, ok := fl["only"]; ok {
			for _, x := range strings.Split(s, ",") {
				if i, err := strconv.Atoi(x); err == nil {
					ids = append(ids, i)
				}
			}
			return ids
		}
		if f, ok := fl["ids"]; ok { // a file with one index per line
			_ = h.ReadNDJSON(f, func(line []byte) error {
				if i, err := strconv.Atoi(strings.TrimSpace(string(line))); err == nil {
					ids = append(ids, i)
				}
				return nil
			})
			return ids
		}
		for i := 0; i < n; i++ {
			ids = append(ids, i)
		}
		return ids
	}
	switch args[0] {
	case "replay":
		var cases []*kase
		if err := h.ReadNDJSON(fl["in"], func(line []byte) error {
			k := &kase{}
			if err := json.Unmarshal(line, k); err != nil {
				return err
			}
			cases = append(cases, k)
			return nil
		}); err != nil {
			return err
		}
		ids := only(len(cases))
		var sel []*kase
		for _, i := range ids {
			if i < 0 || i >= len(cases) {
				return fmt.Errorf("no case %d", i)
			}
			sel = append(sel, cases[i])
		}
		owners(sel)
		pool(ids, func(i int) interface{} { return e.do(cases[i], i, o) })
		return nil
	case "fuzz":
		seed, _ := strconv.ParseInt(os.Getenv("VERIF_SEED"), 10, 64)
		if s, ok := fl["seed"]; ok {
			seed, _ = strconv.ParseInt(s, 10, 64)
		}
		num, _ := strconv.Atoi(fl["num"])
		pool(only(num), func(i int) interface{} { return e.fuzzOne(seed, i, o) })
		return nil
	}
	return fmt.Errorf("unknown mode %q", args[0])
}
