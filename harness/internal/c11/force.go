package c11

// Forced schedules (binding G without a hook in /repo). A schedule is a list of controller
// commands from TLC's exploration of spec/BlockSaveLock.tla (Forced = TRUE):
//
//	"P.P1" | "S.P1.1.P1" | "C.1"   start that call in its own goroutine
//	"O.P1"                         open the gate of proposal P1: its processor, parked in the stub
//	                               writer's Manifest with ProposalProcessors.l held, goes on
//	"OW.P1"                        open the writer gate of P1: BlockWriter.Save of its block (logged when
//	                               it was called), parked with ProposalProcessors.l held, returns
//
// After every command the controller waits until the process is quiet: every goroutine that has a
// frame of mitum or of this package on its stack waits for a mutex or is parked at a known place (a gate,
// the caller of Process waiting for its processor).
// The goroutine states come from runtime.Stack; a call that queues behind the held mutex is seen
// as "sync.Mutex.Lock", so calls line up behind a running processor in the order of the schedule
// (sync.Mutex wakes waiters first-in first-out). No quiet state within the time-out => the schedule
// is reported as not forced (never an alarm). Output: per schedule the events (Cmd markers, Call,
// WSave, Ret) in the order they happened.

import (
	"bytes"
	"encoding/json"
	"fmt"
	"os"
	"regexp"
	"runtime"
	"strconv"
	"strings"
	"sync"
	"time"

	"mitumverif/internal/h"
)

type schedule struct {
	ID   int      `json:"id"`
	Cmds []string `json:"cmds"`
}

var (
	goHeader = regexp.MustCompile(`^goroutine (\d+) \[([^\],]+)`)
	// a goroutine in one of these states waits for the mutex (or a reader/writer lock) of the code under test
	lockWait = map[string]bool{
		"sync.Mutex.Lock": true, "sync.RWMutex.Lock": true, "sync.RWMutex.RLock": true, "sync.Cond.Wait": true,
		// not "semacquire": with go >= 1.20 that is a wait inside the runtime (a goroutine that allocates
		// while a GC cycle starts), it ends without any goroutine of ours
	}
	// a goroutine in one of these states is parked only if it waits at one of the places below; anywhere else
	// the wait may end by itself (util.Retry waits for a timer in a select)
	chanWait = map[string]bool{"chan receive": true, "select": true}
	parked   = [][]byte{
		[]byte("internal/c11.(*writer).Manifest("),        // processor gate
		[]byte("internal/c11.(*writer).Save("),            // block-write gate
		[]byte("ProposalProcessors).Process.func"),        // caller waits for the running processor
		[]byte("DefaultProposalProcessor).deferctx.func"), // context watcher of Process / Save
	}
)

var (
	lastQuiet []byte
	stackBuf  = make([]byte, 1<<18)
)

// stacks of all goroutines (stops the world); only the controller calls it
func stacks() []byte {
	for {
		if k := runtime.Stack(stackBuf, true); k < len(stackBuf) {
			return stackBuf[:k]
		}

		stackBuf = make([]byte, 2*len(stackBuf))
	}
}

func myGoid() string {
	buf := make([]byte, 64)
	buf = buf[:runtime.Stack(buf, false)]

	if m := goHeader.FindSubmatch(buf); m != nil {
		return string(m[1])
	}

	return ""
}

// quiet: no goroutine of the code under test or of the driver (but the caller) can move
func quiet(self string) (bool, string) {
	var busy []string

	raw := stacks()
	lastQuiet = raw

	for _, g := range bytes.Split(raw, []byte("\n\n")) {
		m := goHeader.FindSubmatch(g)
		if m == nil || string(m[1]) == self {
			continue
		}

		if !bytes.Contains(g, []byte("spikeekips/mitum/")) && !bytes.Contains(g, []byte("mitumverif/internal/c11")) {
			continue
		}

		state := string(m[2])
		still := lockWait[state]

		if chanWait[state] {
			for _, p := range parked {
				if bytes.Contains(g, p) {
					still = true

					break
				}
			}
		}

		if !still {
			at := ""
			if l := bytes.SplitN(g, []byte("\n"), 3); len(l) > 1 {
				at = string(l[1])
			}

			busy = append(busy, string(m[1])+":"+state+" at "+at)
		}
	}

	return len(busy) == 0, strings.Join(busy, ",")
}

func waitQuiet(self string, timeout time.Duration) (bool, string) {
	deadline := time.Now().Add(timeout)

	for i := 0; ; i++ {
		ok, busy := quiet(self)
		if ok {
			return true, ""
		}

		if time.Now().After(deadline) {
			return false, busy
		}

		if i < 50 {
			runtime.Gosched()
		} else {
			time.Sleep(50 * time.Microsecond)
		}
	}
}

func parseCall(c string) (op, error) {
	f := strings.Split(c, ".")

	switch {
	case f[0] == "P" && len(f) == 2:
		if _, ok := byName[f[1]]; ok {
			return op{"P", f[1], 0, ""}, nil
		}
	case f[0] == "S" && len(f) == 4:
		ah, err := strconv.ParseInt(f[2], 10, 64)
		_, okf := byName[f[1]]
		_, oknb := manifest[f[3]]

		if err == nil && okf && oknb {
			return op{"S", f[1], ah, f[3]}, nil
		}
	case f[0] == "C":
		return op{"C", "", 0, ""}, nil
	}

	return op{}, fmt.Errorf("unknown call %q", c)
}

func forceOne(s schedule, seed int64, timeout time.Duration) (ev, error) {
	r, err := newRunner(nil, seed, false)
	if err != nil {
		return nil, err
	}

	self := myGoid()
	status := "forced"
	open := map[string]bool{}

	var wg sync.WaitGroup

	for i, c := range s.Cmds {
		r.emit(ev{"a": "Cmd", "c": c, "i": i})

		if strings.HasPrefix(c, "O.") || strings.HasPrefix(c, "OW.") {
			gates := r.gates
			if strings.HasPrefix(c, "OW.") {
				gates = r.wgates
			}

			g, found := gates[c[strings.Index(c, ".")+1:]]
			if !found || open[c] {
				return nil, fmt.Errorf("schedule %d: cannot open gate %q", s.ID, c)
			}

			open[c] = true

			close(g)
		} else {
			o, err := parseCall(c)
			if err != nil {
				return nil, err
			}

			id := r.newID()

			wg.Add(1)

			go func() {
				defer wg.Done()

				r.doID(id, o)
			}()
		}

		if ok, busy := waitQuiet(self, timeout); !ok {
			status = fmt.Sprintf("not quiet after command %d (%s): %s", i, c, busy)

			break
		}

		if os.Getenv("VERIF_C11_DEBUG") != "" {
			r.emit(ev{"a": "Dbg", "i": i, "stacks": string(lastQuiet)})
		}
	}

	r.emit(ev{"a": "Cmd", "c": "end", "i": len(s.Cmds)})

	// let everything that is left run out
	for f, g := range r.gates {
		if !open["O."+f] {
			close(g)
		}
	}

	for f, g := range r.wgates {
		if !open["OW."+f] {
			close(g)
		}
	}

	done := make(chan struct{})

	go func() {
		wg.Wait()
		close(done)
	}()

	select {
	case <-done:
		_ = r.pps.Cancel()
	case <-time.After(timeout):
		status = "calls did not return: " + status
	}

	r.mu.Lock()
	events := append([]ev{}, r.events...)
	r.mu.Unlock()

	return ev{"id": s.ID, "status": status, "events": events}, nil
}

// vh C11 force --in schedules.ndjson --out results.ndjson [--timeout ms]
func force(fl map[string]string) error {
	if err := setup(); err != nil {
		return err
	}

	// one goroutine moves at a time in a forced schedule; with few Ps stopping the world (runtime.Stack) is cheap
	runtime.GOMAXPROCS(2)

	timeout := 5 * time.Second
	if ms, err := strconv.Atoi(fl["timeout"]); err == nil && ms > 0 {
		timeout = time.Duration(ms) * time.Millisecond
	}

	out, err := h.NewOut(fl["out"])
	if err != nil {
		return err
	}
	defer out.Close()

	return h.ReadNDJSON(fl["in"], func(line []byte) error {
		var s schedule
		if err := json.Unmarshal(line, &s); err != nil {
			return err
		}

		res, err := forceOne(s, int64(s.ID)+1, timeout)
		if err != nil {
			return err
		}

		out.Emit(res)

		return nil
	})
}
