// Package c11 drives the real isaac.ProposalProcessors with real DefaultProposalProcessors
// (really signed proposals, real ACCEPT/INIT voteproofs) over a stub BlockWriter whose manifest
// is derived from the proposal and whose Save is logged. Process / Save / Cancel are called
// sequentially (every sequence of a given length over a small alphabet) and from several
// goroutines (seeded random); call / return / writer-save events go to spec/BlockSaveTrace.tla
// (binding B). force.go forces the controller schedules of spec/BlockSaveLock.tla: the stub writer's Manifest
// and Save park on gates, so that calls queue behind a running processor / a block write in a chosen order.
package c11

import (
	"context"
	"fmt"
	"math/rand"
	"os"
	"runtime"
	"strconv"
	"sync"
	"time"

	"github.com/pkg/errors"
	"github.com/spikeekips/mitum/base"
	"github.com/spikeekips/mitum/isaac"
	"github.com/spikeekips/mitum/util"
	"github.com/spikeekips/mitum/util/valuehash"

	"mitumverif/internal/h"
)

func init() { h.Register("C11", run) }

type ev = map[string]interface{}

type prop struct {
	f   string
	h   int64
	beh string // ok | err | ign | nofact
}

var (
	netID = base.NetworkID([]byte("verif-c11"))
	local = isaac.NewLocalNode(base.NewMPrivatekey(), base.NewStringAddress("local-c11"))
	props = []prop{
		{"P1", 1, "ok"}, {"P2", 1, "ok"}, {"P3", 2, "ok"}, {"P4", 2, "err"},
		{"P5", 2, "ign"}, {"P6", 3, "nofact"}, {"P7", 3, "ok"},
	}
	byName   = map[string]prop{}
	signed   = map[string]base.ProposalSignFact{}
	byHash   = map[string]string{}    // proposal fact hash -> name
	manifest = map[string]util.Hash{} // name -> manifest hash ("x" -> a hash of no proposal)
	manName  = map[string]string{}    // manifest hash -> name
	once     sync.Once
)

func height(h int64) base.Height { return base.Height(32 + h) }

func setup() error {
	var err error

	once.Do(func() {
		for _, p := range props {
			byName[p.f] = p

			fact := isaac.NewProposalFact(base.RawPoint(int64(height(p.h)), 0), local.Address(), valuehash.RandomSHA256(), nil)
			sf := isaac.NewProposalSignFact(fact)
			if err = sf.Sign(local.Privatekey(), netID); err != nil {
				return
			}

			signed[p.f] = sf
			byHash[fact.Hash().String()] = p.f
			manifest[p.f] = valuehash.NewSHA256([]byte("manifest-of-" + fact.Hash().String()))
			manName[manifest[p.f].String()] = p.f
		}

		manifest["x"] = valuehash.RandomSHA256()
		manName[manifest["x"].String()] = "x"
	})

	return err
}

// stub block writer: the manifest is a function of the proposal; Save is logged
type writer struct {
	r    *runner
	p    prop
	avp  base.ACCEPTVoteproof
	ivp  base.INITVoteproof
	made bool
}

func (*writer) SetOperationsSize(uint64) {}

func (*writer) SetProcessResult(context.Context, uint64, util.Hash, util.Hash, bool, base.OperationProcessReasonError) error {
	return nil
}

func (*writer) SetStates(context.Context, uint64, []base.StateMergeValue, base.Operation) error {
	return nil
}

func (w *writer) Manifest(context.Context, base.Manifest) (base.Manifest, error) {
	w.r.nap()

	// forced schedules: "the processor is still processing" (ProposalProcessors.l is held meanwhile)
	// until the controller opens the gate of this proposal
	if g := w.r.gates[w.p.f]; g != nil {
		<-g
	}

	switch w.p.beh {
	case "err":
		return nil, errors.Errorf("verif: manifest of %s fails", w.p.f)
	case "ign":
		return nil, isaac.ErrIgnoreErrorProposalProcessor.Errorf("verif: manifest of %s fails, ignorable", w.p.f)
	}

	w.made = true

	return base.NewDummyManifest(height(w.p.h), manifest[w.p.f]), nil
}

func (w *writer) SetINITVoteproof(_ context.Context, vp base.INITVoteproof) error {
	w.ivp = vp

	return nil
}

func (w *writer) SetACCEPTVoteproof(_ context.Context, vp base.ACCEPTVoteproof) error {
	w.avp = vp

	return nil
}

func (w *writer) Save(context.Context) (base.BlockMap, error) {
	e := ev{"a": "WSave", "h": w.p.h, "m": w.p.f, "f": w.p.f, "ah": int64(-1), "nb": "?"}

	if w.avp != nil {
		e["ah"] = int64(w.avp.Point().Height()) - 32
		if n, ok := manName[w.avp.BallotMajority().NewBlock().String()]; ok {
			e["nb"] = n
		}
	}

	w.r.emit(e)

	// forced schedules: the block "is being written" (ProposalProcessors.l is held meanwhile) until the
	// controller opens the writer gate of this proposal
	if g := w.r.wgates[w.p.f]; g != nil {
		<-g
	}

	return nil, nil
}

func (*writer) Cancel() error { return nil }

type runner struct {
	out    *h.Out
	mu     sync.Mutex
	rng    *rand.Rand
	jitter bool
	pps    *isaac.ProposalProcessors
	ids    int
	gates  map[string]chan struct{} // forced schedules only: proposal -> gate of its processor
	wgates map[string]chan struct{} // forced schedules only: proposal -> gate of its BlockWriter.Save
	events []ev                     // forced schedules only: the events of this schedule
}

func (r *runner) emit(e ev) {
	r.mu.Lock()
	defer r.mu.Unlock()

	if r.gates != nil {
		r.events = append(r.events, e)

		return
	}

	r.out.Emit(e)
}

func (r *runner) nap() {
	if !r.jitter {
		return
	}

	r.mu.Lock()
	k := r.rng.Intn(4)
	d := r.rng.Intn(200)
	r.mu.Unlock()

	switch k {
	case 0:
		runtime.Gosched()
	case 1:
		time.Sleep(time.Duration(d) * time.Microsecond)
	}
}

func newRunner(out *h.Out, seed int64, jitter bool) (*runner, error) {
	if err := setup(); err != nil {
		return nil, err
	}

	r := &runner{out: out, rng: rand.New(rand.NewSource(seed)), jitter: jitter}

	if out == nil { // forced schedules (force.go): every processor parks at the gate of its proposal
		r.gates = map[string]chan struct{}{}
		r.wgates = map[string]chan struct{}{}

		for _, p := range props {
			r.gates[p.f] = make(chan struct{})
			r.wgates[p.f] = make(chan struct{})
		}
	}

	r.pps = isaac.NewProposalProcessors(
		func(pr base.ProposalSignFact, previous base.Manifest) (isaac.ProposalProcessor, error) {
			p := byName[byHash[pr.Fact().Hash().String()]]

			args := isaac.NewDefaultProposalProcessorArgs()
			args.NewWriterFunc = func(base.ProposalSignFact, base.GetStateFunc) (isaac.BlockWriter, error) {
				return &writer{r: r, p: p}, nil
			}
			args.GetStateFunc = func(string) (base.State, bool, error) { return nil, false, nil }
			args.GetOperationFunc = func(context.Context, util.Hash, util.Hash) (base.Operation, error) {
				return nil, isaac.ErrOperationNotFoundInProcessor.Errorf("verif")
			}

			return isaac.NewDefaultProposalProcessor(pr, previous, args)
		},
		func(_ context.Context, _ base.Point, facthash util.Hash) (base.ProposalSignFact, error) {
			p := byName[byHash[facthash.String()]]
			if p.beh == "nofact" {
				return nil, errors.Errorf("verif: proposal %s not found", p.f)
			}

			return signed[p.f], nil
		},
	).SetRetryLimit(1).SetRetryInterval(time.Millisecond)

	r.emit(ev{"a": "Reset"})

	return r, nil
}

func (r *runner) newID() int {
	r.mu.Lock()
	defer r.mu.Unlock()

	r.ids++

	return r.ids
}

type op struct {
	kind string // P, S, C
	f    string
	ah   int64
	nb   string
}

func (o op) String() string { return fmt.Sprintf("%s(%s,%d,%s)", o.kind, o.f, o.ah, o.nb) }

func ivpOf(p prop) base.INITVoteproof {
	point := base.RawPoint(int64(height(p.h)), 0)
	fact := isaac.NewINITBallotFact(point, valuehash.RandomSHA256(), signed[p.f].Fact().Hash(), nil)
	vp := isaac.NewINITVoteproof(point)
	vp.SetMajority(fact).SetThreshold(base.Threshold(67)).Finish()

	return vp
}

func avpOf(f string, ah int64, nb string) base.ACCEPTVoteproof {
	point := base.RawPoint(int64(height(ah)), 0)
	fact := isaac.NewACCEPTBallotFact(point, signed[f].Fact().Hash(), manifest[nb], nil)
	vp := isaac.NewACCEPTVoteproof(point)
	vp.SetMajority(fact).SetThreshold(base.Threshold(67)).Finish()

	return vp
}

func class(err error) string {
	switch {
	case err == nil:
		return "ok"
	case errors.Is(err, isaac.ErrProcessorAlreadySaved):
		return "alreadysaved"
	case errors.Is(err, isaac.ErrNotProposalProcessorProcessed):
		return "notprocessed"
	default:
		return "error"
	}
}

func (r *runner) do(o op) { r.doID(r.newID(), o) }

func (r *runner) doID(id int, o op) {

	switch o.kind {
	case "P":
		p := byName[o.f]
		r.emit(ev{"a": "Call", "id": id, "op": "Process", "f": p.f, "h": p.h, "beh": p.beh, "ah": 0, "nb": ""})

		res := ""
		previous := base.NewDummyManifest(height(p.h)-1, valuehash.RandomSHA256())

		f, err := r.pps.Process(context.Background(), base.RawPoint(int64(height(p.h)), 0), signed[p.f].Fact().Hash(), previous, ivpOf(p))

		switch {
		case err != nil:
			res = class(err)
		case f == nil:
			res = "nil"
		default:
			switch m, err := f(context.Background()); {
			case err != nil:
				res = class(err)
			case m == nil:
				res = "nil"
			default:
				res = "manifest"

				if !m.Hash().Equal(manifest[p.f]) {
					res = "manifest?" + m.Hash().String()
				}
			}
		}

		r.emit(ev{"a": "Ret", "id": id, "res": res})
	case "S":
		r.emit(ev{"a": "Call", "id": id, "op": "Save", "f": o.f, "h": 0, "beh": "", "ah": o.ah, "nb": o.nb})

		_, err := r.pps.Save(context.Background(), signed[o.f].Fact().Hash(), avpOf(o.f, o.ah, o.nb))

		res := class(err)
		if err == nil {
			res = "saved"
		}

		r.emit(ev{"a": "Ret", "id": id, "res": res})
	default:
		r.emit(ev{"a": "Call", "id": id, "op": "Cancel", "f": "", "h": 0, "beh": "", "ah": 0, "nb": ""})

		res := class(r.pps.Cancel())

		r.emit(ev{"a": "Ret", "id": id, "res": res})
	}
}

// inputs: an ACCEPT voteproof that names the manifest of a proposal is of that proposal's height
func saves(all bool) []op {
	var out []op

	for _, p := range props {
		// the agreed voteproof of p
		out = append(out, op{"S", p.f, p.h, p.f})

		if !all {
			continue
		}

		// a majority for another block at p's height, for no known block, at other heights
		for _, q := range props {
			if q.f != p.f && q.h == p.h {
				out = append(out, op{"S", p.f, q.h, q.f})
			}
		}

		out = append(out, op{"S", p.f, p.h, "x"}, op{"S", p.f, p.h + 1, "x"}, op{"S", p.f, p.h - 1, "x"})
	}

	return out
}

func alphabet(small bool) []op {
	var out []op

	if small {
		for _, f := range []string{"P1", "P2", "P3", "P4"} {
			out = append(out, op{"P", f, 0, ""})
		}

		out = append(out,
			op{"S", "P1", 1, "P1"}, op{"S", "P1", 1, "P2"}, op{"S", "P2", 1, "P2"}, op{"S", "P3", 2, "P3"},
			op{"S", "P4", 2, "P4"}, op{"S", "P3", 2, "x"}, op{"C", "", 0, ""})

		return out
	}

	for _, p := range props {
		out = append(out, op{"P", p.f, 0, ""})
	}

	out = append(out, saves(true)...)
	out = append(out, op{"C", "", 0, ""}, op{"C", "", 0, ""})

	return out
}

// pick: 40% Process, 45% Save (mostly the agreed voteproof of a proposal in play), 15% Cancel
func pick(rng *rand.Rand, al []op, play map[string]bool) op {
	for {
		o := al[rng.Intn(len(al))]

		switch k := rng.Intn(100); {
		case k < 40 && o.kind == "P" && play[o.f]:
			return o
		case k >= 40 && k < 65 && o.kind == "S" && play[o.f] && o.nb == o.f:
			return o
		case k >= 65 && k < 85 && o.kind == "S" && play[o.f]:
			return o
		case k >= 85 && o.kind == "C":
			return o
		}
	}
}

// vh C11 record --mode exhaustive --depth D --out f | --mode random --num N --out f
func run(args []string) error {
	if len(args) > 0 && args[0] == "force" {
		return force(h.Flags(args[1:]))
	}

	if len(args) < 1 || args[0] != "record" {
		return fmt.Errorf("usage: C11 record --mode exhaustive|random ... | C11 force --in f --out f")
	}

	fl := h.Flags(args[1:])

	seed, _ := strconv.ParseInt(os.Getenv("VERIF_SEED"), 10, 64)
	if seed == 0 {
		seed = 1
	}

	out, err := h.NewOut(fl["out"])
	if err != nil {
		return err
	}
	defer out.Close()

	switch fl["mode"] {
	case "exhaustive":
		depth, _ := strconv.Atoi(fl["depth"])
		al := alphabet(true)
		idx := make([]int, depth)

		for {
			r, err := newRunner(out, seed, false)
			if err != nil {
				return err
			}

			for _, i := range idx {
				r.do(al[i])
			}

			_ = r.pps.Cancel()

			k := depth - 1
			for k >= 0 {
				idx[k]++
				if idx[k] < len(al) {
					break
				}

				idx[k] = 0
				k--
			}

			if k < 0 {
				return nil
			}
		}
	case "random":
		num, _ := strconv.Atoi(fl["num"])
		al := alphabet(false)
		rng := rand.New(rand.NewSource(seed))

		for i := 0; i < num; i++ {
			r, err := newRunner(out, rng.Int63(), true)
			if err != nil {
				return err
			}

			var wg sync.WaitGroup

			// three proposals in play per history, so that calls meet
			play := map[string]bool{}
			for len(play) < 3 {
				play[props[rng.Intn(len(props))].f] = true
			}

			g := 2 + rng.Intn(3)
			for j := 0; j < g; j++ {
				n := 2 + rng.Intn(3)
				ops := make([]op, n)

				for k := range ops {
					ops[k] = pick(rng, al, play)

					// what the consensus handler does: process, then save with the voteproof that came
					if k > 0 && ops[k-1].kind == "P" && rng.Intn(3) > 0 {
						f := ops[k-1].f

						switch rng.Intn(4) {
						case 0:
							ops[k] = op{"S", f, byName[f].h, "x"}
						default:
							ops[k] = op{"S", f, byName[f].h, f}
						}
					}
				}

				wg.Add(1)

				go func() {
					defer wg.Done()

					for _, o := range ops {
						r.nap()
						r.do(o)
					}
				}()
			}

			wg.Wait()
			_ = r.pps.Cancel()
		}

		return nil
	default:
		return fmt.Errorf("unknown mode %q", fl["mode"])
	}
}
