package handover

import (
	"context"
	"regexp"
	"runtime"
	"strings"
	"sync/atomic"
	"time"

	isaacstates "github.com/spikeekips/mitum/isaac/states"
	"github.com/spikeekips/mitum/network/quicstream"
)

// stressRecursiveRLock looks for the lock-order defect spec/HandoverLock.tla
// finds: isReadyToFinish holds the read lock of
// successcount (Locked.Get) and, inside it, isReady takes the same read lock
// again (Locked.Value); with a writer (Receive -> Locked.Set) queued between
// the two, sync.RWMutex blocks the second RLock forever.
//
// One goroutine calls sendVoteproof(INIT voteproof) in a loop (what the
// consensus handler of X does), another one Receive (what the network handler
// of X does). The verdict is not a time-out: the run is reported as a deadlock
// only if the goroutine dump shows sendVoteproof blocked in RWMutex.RLock under
// isReady <- isReadyToFinish and every Receive goroutine blocked in
// RWMutex.Lock under Locked.Set (nobody is left who could release the lock).
// Not seeing it within the budget means nothing.
type stressResult struct {
	Rounds     int    `json:"rounds"`
	SendCalls  uint64 `json:"send_calls"`
	RecvCalls  uint64 `json:"recv_calls"`
	Deadlocked bool   `json:"deadlocked"`
	Stalled    bool   `json:"stalled"`
	SendFrame  string `json:"send_frame,omitempty"`
	RecvFrame  string `json:"recv_frame,omitempty"`
	ElapsedMS  int64  `json:"elapsed_ms"`
}

func stressRecursiveRLock(budget time.Duration, rounds int) (res stressResult, _ error) {
	started := time.Now()
	defer func() { res.ElapsedMS = time.Since(started).Milliseconds() }()

	c, err := newChain([]string{"init"})
	if err != nil {
		return res, err
	}

	per := budget / time.Duration(rounds)

	for r := 0; r < rounds && time.Since(started) < budget; r++ {
		res.Rounds++

		args := isaacstates.NewHandoverXBrokerArgs(c.local, c.netID)
		args.SendMessageFunc = func(context.Context, quicstream.ConnInfo, isaacstates.HandoverMessage) error { return nil }
		args.CheckIsReady = func() (bool, error) { return true, nil }
		args.GetProposal = c.getProposal
		args.MinChallengeCount = 1
		args.ReadyEnd = 1 << 40 // ready, never finishing

		x := isaacstates.NewHandoverXBroker(context.Background(), args, quicstream.ConnInfo{})
		ivp := c.vp(1)

		if _, err := x.VerifSendVoteproof(context.Background(), ivp); err != nil {
			return res, err
		}

		if err := x.Receive(isaacstates.VerifNewHandoverMessageChallengeStagePoint(x.ID(), ivp.Point())); err != nil {
			return res, err
		}

		if cn := x.VerifCounters(); cn.ReadyEnd < 1 {
			return res, nil // not in the state the defect needs; nothing to look for
		}

		var nsend, nrecv uint64
		var stop atomic.Bool

		stray := isaacstates.VerifNewHandoverMessageChallengeResponse(x.ID(), ivp.Point(), true, nil) // ignored by X

		go func() {
			for !stop.Load() {
				_, _ = x.VerifSendVoteproof(context.Background(), ivp)
				atomic.AddUint64(&nsend, 1)
			}
		}()

		for i := 0; i < receivers; i++ {
			go func() {
				for !stop.Load() {
					_ = x.Receive(stray)
					atomic.AddUint64(&nrecv, 1)
				}
			}()
		}

		deadline := time.Now().Add(per)
		var lasts, lastr uint64
		stalls := 0

		for time.Now().Before(deadline) {
			time.Sleep(20 * time.Millisecond)

			s, rv := atomic.LoadUint64(&nsend), atomic.LoadUint64(&nrecv)
			if s == lasts && rv == lastr {
				stalls++
			} else {
				stalls = 0
			}

			lasts, lastr = s, rv

			if stalls >= 10 { // 200 ms without one call returning: look at the stacks
				res.Stalled = true
				var nrecvBlocked int

				res.SendFrame, res.RecvFrame, nrecvBlocked = lockFrames()
				res.Deadlocked = res.SendFrame != "" && nrecvBlocked == receivers

				break
			}
		}

		stop.Store(true)
		res.SendCalls += atomic.LoadUint64(&nsend)
		res.RecvCalls += atomic.LoadUint64(&nrecv)

		if res.Stalled {
			return res, nil // the goroutines stay blocked; the process exits after the report
		}

		time.Sleep(5 * time.Millisecond)
	}

	return res, nil
}

const receivers = 3

var reGoroutine = regexp.MustCompile(`(?m)^goroutine \d+ \[`)

// lockFrames reads the goroutine dump: (frame of sendVoteproof blocked in the
// nested RLock, frame of Receive blocked in Lock), empty if not found.
func lockFrames() (send, recv string, nrecv int) {
	buf := make([]byte, 1<<22)
	buf = buf[:runtime.Stack(buf, true)]

	idx := reGoroutine.FindAllIndex(buf, -1)
	for i := range idx {
		end := len(buf)
		if i+1 < len(idx) {
			end = idx[i+1][0]
		}

		g := string(buf[idx[i][0]:end])

		switch {
		case strings.Contains(g, "sync.(*RWMutex).RLock") &&
			strings.Contains(g, "HandoverXBroker).isReady(") &&
			strings.Contains(g, "HandoverXBroker).isReadyToFinish"):
			send = "sendVoteproof > isReadyToFinish > Locked.Get[RLock held] > isReady > Locked.Value > RWMutex.RLock (blocked)"
		case strings.Contains(g, "sync.(*RWMutex).Lock") &&
			strings.Contains(g, "HandoverXBroker).Receive"):
			recv = "Receive > Locked.Set > RWMutex.Lock (blocked, queued before the second RLock)"
			nrecv++
		}
	}

	return send, recv, nrecv
}
