package handover

import (
	"context"
	"fmt"

	"github.com/spikeekips/mitum/base"
	isaacnetwork "github.com/spikeekips/mitum/isaac/network"
	isaacstates "github.com/spikeekips/mitum/isaac/states"
	"github.com/spikeekips/mitum/network/quicstream"

	"mitumverif/internal/h"
)

// ask.go: Y.Ask() against the real answer function of X
// (NewAskHandoverReceivedFunc, states_handover.go), joined the way
// QuicstreamHandlerAskHandover / BaseClient.AskHandover join them
// (AskHandoverResponseHeader, its IsValid on the client side).
//
// The comments of the code say what is meant: "If OK() is true, y broker can
// move to consensus without handover process" (AskHandoverResponseHeader),
// and SyncingHandler.askHandover does setAllowConsensus(true) when Ask()
// returns canMoveConsensus. X answers ("", true, nil) when it is not in the
// consensus states - after switching its own consensus permission off.

type askRow struct {
	Case string `json:"case"`
	OK   bool   `json:"ok"`
	Key  string `json:"key,omitempty"`
	What string `json:"what,omitempty"`
	Got  string `json:"got"`
}

func cmdAsk(fl map[string]string) error {
	out, err := h.NewOut(fl["out"])
	if err != nil {
		return err
	}
	defer out.Close()

	c, err := chainFor([]string{"init"})
	if err != nil {
		return err
	}

	xci := quicstream.UnsafeConnInfo(nil, true)
	_ = xci

	for _, tc := range []struct {
		name      string
		allowed   bool
		state     isaacstates.StateType
		viaHeader bool
		wantMove  bool
	}{
		{"x-in-consensus", true, isaacstates.StateConsensus, true, false},
		{"x-not-allowed-consensus;direct", false, isaacstates.StateSyncing, false, true},
		{"x-not-allowed-consensus;response-header", false, isaacstates.StateSyncing, true, true},
		{"x-allowed-but-syncing;direct", true, isaacstates.StateSyncing, false, true},
		{"x-allowed-but-syncing;response-header", true, isaacstates.StateSyncing, true, true},
	} {
		tc := tc

		allowed := tc.allowed
		switchedOff := false

		var xbroker *isaacstates.HandoverXBroker

		xf := isaacstates.NewAskHandoverReceivedFunc(
			c.local.Address(),
			quicstream.ConnInfo{},
			func() bool { return allowed },
			func() bool { return xbroker != nil },
			func(quicstream.ConnInfo) (bool, error) { return true, nil },
			func() isaacstates.StateType { return tc.state },
			func() { allowed = false; switchedOff = true },
			func(yci quicstream.ConnInfo) (string, error) {
				xargs := isaacstates.NewHandoverXBrokerArgs(c.local, c.netID)
				xbroker = isaacstates.NewHandoverXBroker(context.Background(), xargs, yci)

				return xbroker.ID(), nil
			},
		)

		yci := mustConnInfo("127.0.0.1:4322")

		yargs := isaacstates.NewHandoverYBrokerArgs(c.netID)
		yargs.MaxEnsureAsk = 3
		yargs.SyncDataFunc = func(_ context.Context, _ quicstream.ConnInfo, readych chan<- struct{}) error {
			readych <- struct{}{}

			return nil
		}
		yargs.AskRequestFunc = func(ctx context.Context, _ quicstream.ConnInfo) (string, bool, error) {
			id, canMove, err := xf(ctx, c.local.Address(), yci)
			if !tc.viaHeader {
				return id, canMove, err
			}

			// QuicstreamHandlerAskHandover writes, BaseClient.AskHandover reads:
			hd := isaacnetwork.NewAskHandoverResponseHeader(canMove, err, id)
			if hd.Err() != nil {
				return "", false, hd.Err()
			}

			if verr := hd.IsValid(nil); verr != nil {
				return "", false, verr
			}

			return hd.ID(), hd.OK(), nil
		}

		y := isaacstates.NewHandoverYBroker(context.Background(), yargs, quicstream.ConnInfo{})
		if !waitFor(func() bool { return y.VerifIsReadyToAsk() }) {
			return fmt.Errorf("y broker not ready to ask")
		}

		var got string

		moved := false

		for i := 0; i < 3 && !moved; i++ {
			canMove, asked, err := y.Ask()
			got += fmt.Sprintf("Ask#%d=(canMove=%v,asked=%v,err=%s) ", i+1, canMove, asked, isaacstates.VerifHandoverErrorClass(err))
			moved = moved || canMove
		}

		got += fmt.Sprintf("y.canceled=%v x.switched-consensus-off=%v", y.VerifIsCanceled(), switchedOff)

		row := askRow{Case: tc.name, OK: moved == tc.wantMove, Got: got}
		if !row.OK {
			row.Key = "ask;can-move-consensus-never-reaches-y"
			row.What = fmt.Sprintf("X (allowed consensus=%v, state %s) answers Ask with (id \"\", canMoveConsensus=true)%s; "+
				"Y.Ask treats the answer as a failed ask and never returns canMoveConsensus: %s", tc.allowed, tc.state,
				map[bool]string{true: " after switching its own consensus permission off", false: ""}[switchedOff], got)
		}

		out.Emit(row)
		y.VerifCancel(nil)
	}

	return nil
}

func mustConnInfo(s string) quicstream.ConnInfo {
	ci, err := quicstream.NewConnInfoFromStringAddr(s, true)
	if err != nil {
		panic(err)
	}

	return ci
}

var _ base.Address
