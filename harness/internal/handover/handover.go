package handover

import (
	"fmt"
	"strconv"
	"time"

	"mitumverif/internal/h"
)

func init() { h.Register("HANDOVER", run) }

func run(args []string) error {
	if len(args) < 1 {
		return fmt.Errorf("usage: HANDOVER replay|record|stress|ask [--flag value ...]")
	}

	fl := h.Flags(args[1:])

	switch args[0] {
	case "replay":
		return cmdReplay(fl)
	case "record":
		return cmdRecord(fl)
	case "ask":
		return cmdAsk(fl)
	case "stress":
		ms, _ := strconv.Atoi(fl["ms"])
		if ms < 1 {
			ms = 2000
		}

		rounds, _ := strconv.Atoi(fl["rounds"])
		if rounds < 1 {
			rounds = 4
		}

		out, err := h.NewOut(fl["out"])
		if err != nil {
			return err
		}
		defer out.Close()

		res, err := stressRecursiveRLock(time.Duration(ms)*time.Millisecond, rounds)
		if err != nil {
			return err
		}

		out.Emit(res)

		return nil
	default:
		return fmt.Errorf("unknown mode %q", args[0])
	}
}
