package handover

import (
	"math/rand"
	"os"
	"strconv"
	"time"

	"mitumverif/internal/h"
)

// record.go (binding B): seeded random runs of the real brokers, driven by the
// harness' own scheduler (it knows nothing of the model: it picks among the
// calls a node / the network can make in the observed situation), on an
// instance larger than TLC enumerates (11 voteproofs with draws, any number of
// faults). Every call is recorded with what the real objects returned and the
// observable state after it; HandoverTrace.tla must explain every event.

var recordParams = params{
	Kinds:    []string{"accept", "init", "accept", "init", "acceptdraw", "init", "accept", "initdraw", "init", "accept", "init"},
	MinChal:  2,
	ReadyEnd: 1,
	MaxFail:  1,
	MaxAsk:   2,
}

func waitFor(f func() bool) bool {
	deadline := time.Now().Add(4 * time.Second)
	for !f() {
		if time.Now().After(deadline) {
			return false
		}

		time.Sleep(50 * time.Microsecond)
	}

	return true
}

// settle waits until no broker goroutine runs and the observable state stands still.
func (w *world) settle() (snapshot, bool) {
	deadline := time.Now().Add(time.Duration(w.p.StepMS) * time.Millisecond)

	var last snapshot

	same := 0

	for n := 0; ; n++ {
		quiet := w.brokersQuiet()
		got := w.snap()

		if n > 0 && quiet && len(diff(got, last)) == 0 {
			same++
		} else {
			same = 0
		}

		last = got

		if same >= 2 {
			return got, true
		}

		if time.Now().After(deadline) {
			return got, false
		}

		time.Sleep(30 * time.Microsecond)
	}
}

type recState struct {
	readySent, doneSent, syncOver bool
	next                          int
	ballotBusy                    bool
	nballots                      int
}

func cmdRecord(fl map[string]string) error {
	num, _ := strconv.Atoi(fl["num"])
	if num < 1 {
		num = 50
	}

	seed, _ := strconv.ParseInt(os.Getenv("VERIF_SEED"), 10, 64)
	rng := rand.New(rand.NewSource(seed*7919 + 17))

	out, err := h.NewOut(fl["out"])
	if err != nil {
		return err
	}
	defer out.Close()

	for run := 0; run < num; run++ {
		out.Emit(map[string]interface{}{"a": "Reset"})

		storm := []float64{0.003, 0.015, 0.05}[rng.Intn(3)]

		if err := recordRun(rng, out, storm); err != nil {
			return err
		}
	}

	return nil
}

func recordRun(rng *rand.Rand, out *h.Out, storm float64) error {
	w, err := newWorld(recordParams)
	if err != nil {
		return err
	}
	defer w.close()

	w.record = true // perform() checks no model expectation

	st := &recState{next: 1}

	for step := 0; step < 150; step++ {
		pre, _ := w.settle()

		acts := w.offers(rng, st, pre, storm)
		if len(acts) == 0 {
			break
		}

		a := acts[rng.Intn(len(acts))]

		rec := map[string]interface{}{"a": a.A}

		switch a.A {
		case "YSyncReady":
			st.readySent = true
		case "YSyncDone":
			st.doneSent, st.syncOver = true, true
		case "YSyncFail":
			st.syncOver = true
		case "YAsk":
			rec["good"] = a.Good
		case "YChallenge":
			rec["k"] = a.K
		case "XSendVoteproof":
			rec["k"] = a.K
			if a.R == "nobroker" {
				rec["r"] = "nobroker"
			}
			st.next++
		case "XBallot":
			st.nballots++
		case "Resolve":
			rec["m"] = *a.M
			rec["o"] = a.O
		case "BadId":
			rec["to"] = a.To
		case "Stray":
			rec["to"] = a.To
			rec["t"] = a.T
		}

		var note string

		if p := h.Catch(func() { note = w.perform(a) }); p != "" {
			out.Emit(map[string]interface{}{"a": "Panic", "act": rec, "panic": p})

			return nil
		}

		if a.A == "Resolve" || a.A == "BadId" || a.A == "Stray" {
			rec["r"] = w.lastRecv
		}

		switch a.A { // effects that no broker goroutine shows while they are under way
		case "YSyncReady":
			waitFor(func() bool { return w.y.VerifIsReadyToAsk() || w.y.VerifIsCanceled() })
		case "YSyncDone":
			waitFor(func() bool { return w.y.VerifIsDataSynced() || w.y.VerifIsCanceled() })
		case "YSyncFail":
			waitFor(func() bool { return w.y.VerifIsCanceled() })
		}

		obs, ok := w.settle()

		o := obsOf(obs)
		o["net"] = w.netKeys()

		ev := map[string]interface{}{"a": "Act", "act": rec, "obs": o}
		if note != "" {
			ev["note"] = note
		}

		if !ok {
			ev["unsettled"] = true
		}

		out.Emit(ev)

		if !ok {
			break
		}
	}

	return nil
}

// obsOf: the snapshot in the shape HandoverTrace.tla reads (net as records).
func obsOf(s snapshot) map[string]interface{} {
	w := map[string]interface{}{
		"xb": s.Xb, "xc": s.Xc, "xf": s.Xf, "xlv": s.Xlv, "xcc": s.Xcc, "xlcc": s.Xlcc, "xs": s.Xs, "xre": s.Xre,
		"xpc": s.Xpc, "xfail": s.Xfail, "xOut": s.XOut, "xWF": s.XWF, "xWC": s.XWC, "xret": s.Xret,
		"xVoted": nonNil(s.XVote), "yrta": s.Yrta, "yds": s.Yds, "yid": s.Yid, "yf": s.Yf, "yc": s.Yc,
		"yfail": s.Yfail, "ypend": nonNil(s.Ypend), "yIn": s.YIn, "ySync": s.YSync, "yWF": s.YWF, "yWC": s.YWC,
	}

	return w
}

func (w *world) netKeys() []msgKey {
	w.mu.Lock()
	defer w.mu.Unlock()

	out := make([]msgKey, len(w.inflight))
	for i, r := range w.inflight {
		out[i] = r.key
	}

	return out
}

func nonNil(v []int) []int {
	if v == nil {
		return []int{}
	}

	return v
}

// offers: the calls that can be made now, judged from what the harness
// itself observed (never from the model).
func (w *world) offers(rng *rand.Rand, st *recState, s snapshot, storm float64) []actIn {
	var acts []actIn

	rare := func() bool { return rng.Float64() < storm }
	N := len(w.p.Kinds)

	w.mu.Lock()
	busy, hk := w.handlerBusy, w.handlerK
	reqs := make([]*request, len(w.inflight))
	copy(reqs, w.inflight)
	pend := keys(w.ypend)
	w.mu.Unlock()

	inFinish := false

	for _, r := range reqs {
		if r.key.From == "x" && r.key.T == "finish" {
			inFinish = busy
		}
	}

	_ = hk

	// Y: data sync goroutines, ask
	if !s.Yc && !st.syncOver {
		if !st.readySent {
			acts = append(acts, actIn{A: "YSyncReady"})
		} else if s.Yrta {
			acts = append(acts, actIn{A: "YSyncDone"})
		}

		if rare() {
			acts = append(acts, actIn{A: "YSyncFail"})
		}
	}

	if !s.Yid && !s.Yc && !s.Yf && s.Yrta {
		acts = append(acts, actIn{A: "YAsk", Good: true})
		if rare() {
			acts = append(acts, actIn{A: "YAsk", Good: false})
		}
	}

	for _, k := range pend {
		acts = append(acts, actIn{A: "YChallenge", K: k}, actIn{A: "YChallenge", K: k}, actIn{A: "YChallenge", K: k})
	}

	if !s.Yc && rare() && rng.Intn(3) == 0 {
		acts = append(acts, actIn{A: "YCancelLocal"})
	}

	if s.Yf && !s.Yc && rare() {
		acts = append(acts, actIn{A: "YStop"})
	}

	// X: the consensus handler and the operator
	if s.Xb {
		if !busy && !s.XOut && st.next <= N {
			a := actIn{A: "XSendVoteproof", K: st.next}
			if s.Xc {
				a.R = "nobroker"
			}

			acts = append(acts, a)
		}

		if !busy && !s.XOut && !s.Xc && !s.Xf && rare() && rng.Intn(3) == 0 {
			acts = append(acts, actIn{A: "XFinishNil"})
		}

		ballotInFlight := false
		for _, r := range reqs {
			if r.key.T == "ballot" {
				ballotInFlight = true
			}
		}

		if !ballotInFlight && !inFinish && !s.XOut && st.nballots < 3 && rng.Intn(4) == 0 {
			acts = append(acts, actIn{A: "XBallot"})
		}

		if !s.Xc && rare() && rng.Intn(3) == 0 {
			acts = append(acts, actIn{A: "XCancelLocal"})
		}

		if s.Xf && !s.Xc && rare() {
			acts = append(acts, actIn{A: "XStop"})
		}
	}

	// the network
	for _, r := range reqs {
		key := r.key
		toXBlocked := key.From == "y" && inFinish

		if !toXBlocked {
			for i := 0; i < 4; i++ {
				acts = append(acts, actIn{A: "Resolve", M: &key, O: "ok"})
			}
		}

		if rare() {
			outs := []string{"lost"}
			if !toXBlocked {
				outs = append(outs, "rl", "dup")
			}

			if key.T == "finish" && s.Xc {
				outs = append(outs, "cc")
			}

			acts = append(acts, actIn{A: "Resolve", M: &key, O: outs[rng.Intn(len(outs))]})
		}
	}

	if rare() && rng.Intn(2) == 0 {
		if s.Xb && !inFinish && rng.Intn(2) == 0 {
			acts = append(acts, actIn{A: "BadId", To: "x"})
		} else if s.Yid {
			acts = append(acts, actIn{A: "BadId", To: "y"})
		}
	}

	if rare() {
		if s.Xb && !inFinish && rng.Intn(2) == 0 {
			acts = append(acts, actIn{A: "Stray", To: "x", T: []string{"data", "resp", "finish"}[rng.Intn(3)]})
		} else if s.Yid {
			acts = append(acts, actIn{A: "Stray", To: "y", T: "chal"})
		}
	}

	return acts
}
