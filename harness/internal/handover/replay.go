package handover

import (
	"bytes"
	"context"
	"encoding/json"
	"fmt"
	"reflect"
	"regexp"
	"runtime"
	"strconv"
	"time"

	"github.com/pkg/errors"
	"github.com/spikeekips/mitum/base"
	isaacstates "github.com/spikeekips/mitum/isaac/states"

	"mitumverif/internal/h"
)

// replay.go (binding A): one case = one behaviour of Handover.tla: for every
// step the action (the `step` variable) and the model state after it. The
// action is performed on the real brokers; then the observable state of the
// real objects must become equal to the model state.

type actIn struct {
	A    string  `json:"a"`
	K    int     `json:"k"`
	R    string  `json:"r"`
	O    string  `json:"o"`
	To   string  `json:"to"`
	T    string  `json:"t"`
	Good bool    `json:"good"`
	M    *msgKey `json:"m"`
}

type stepIn struct {
	Act  actIn    `json:"act"`
	Want snapshot `json:"want"`
}

type caseIn struct {
	ID     string   `json:"id"`
	Params params   `json:"params"`
	Steps  []stepIn `json:"steps"`
}

type stepOut struct {
	ID      string    `json:"id"`
	Steps   int       `json:"steps"`
	Done    int       `json:"done"`
	OK      bool      `json:"ok"`
	At      int       `json:"at,omitempty"` // 1-based step of the first difference
	Act     *actIn    `json:"act,omitempty"`
	Fields  []string  `json:"fields,omitempty"`
	Got     *snapshot `json:"got,omitempty"`
	Want    *snapshot `json:"want,omitempty"`
	Note    string    `json:"note,omitempty"`
	Panic   string    `json:"panic,omitempty"`
	Safety  []string  `json:"safety,omitempty"` // statement-level facts violated by the real run
	Final   *snapshot `json:"final,omitempty"`
	Stable  bool      `json:"stable,omitempty"`
	Elapsed int64     `json:"ms"`
}

func cmdReplay(fl map[string]string) error {
	out, err := h.NewOut(fl["out"])
	if err != nil {
		return err
	}
	defer out.Close()

	return h.ReadNDJSON(fl["in"], func(line []byte) error {
		var c caseIn
		if err := json.Unmarshal(line, &c); err != nil {
			return err
		}

		res := replayCase(c)
		if !res.OK && res.Panic == "" {
			// once more: a difference must show twice at the same step to be reported
			res2 := replayCase(c)
			if res2.OK || res2.At != res.At || !reflect.DeepEqual(res2.Fields, res.Fields) {
				res2.Note += fmt.Sprintf(" (first try differed at step %d fields %v: not reproducible)", res.At, res.Fields)
				if !res2.OK {
					res2.Note += " FLAKY"
				}
				res = res2
			}
		}

		out.Emit(res)

		return nil
	})
}

func replayCase(c caseIn) (res stepOut) {
	started := time.Now()
	res = stepOut{ID: c.ID, Steps: len(c.Steps), OK: true}

	defer func() { res.Elapsed = time.Since(started).Milliseconds() }()

	w, err := newWorld(c.Params)
	if err != nil {
		res.OK = false
		res.Note = "world: " + err.Error()

		return res
	}
	defer w.close()

	for i := range c.Steps {
		st := c.Steps[i]

		var note string

		if p := h.Catch(func() { note = w.perform(st.Act) }); p != "" {
			res.OK = false
			res.At = i + 1
			res.Act = &st.Act
			res.Panic = p

			return res
		}

		got, fields, stable := w.await(st.Want)
		if len(fields) > 0 || note != "" {
			res.OK = false
			res.At = i + 1
			res.Act = &st.Act
			res.Fields = fields
			res.Got = &got
			res.Want = &c.Steps[i].Want
			res.Note = note
			res.Stable = stable
			res.Safety = uniq(append(res.Safety, w.safety(got)...))

			if note != "" {
				res.Fields = append(res.Fields, "return")
			}

			return res
		}

		res.Done = i + 1
		res.Safety = append(res.Safety, w.safety(got)...)
	}

	time.Sleep(300 * time.Microsecond)

	final := w.snap()
	res.Final = &final
	res.Safety = uniq(append(res.Safety, w.safety(final)...))

	if len(c.Steps) > 0 {
		if f := diff(final, c.Steps[len(c.Steps)-1].Want); len(f) > 0 {
			res.OK = false
			res.At = len(c.Steps)
			res.Act = &c.Steps[len(c.Steps)-1].Act
			res.Fields = f
			res.Got = &final
			res.Want = &c.Steps[len(c.Steps)-1].Want
			res.Note = "state moved after the last step"
			res.Stable = true
		}
	}

	return res
}

func uniq(in []string) []string {
	seen := map[string]bool{}

	var out []string

	for _, s := range in {
		if !seen[s] {
			seen[s] = true
			out = append(out, s)
		}
	}

	return out
}

// safety: the statement-level facts, judged on what the real objects did.
func (w *world) safety(s snapshot) []string {
	var v []string

	w.mu.Lock()
	busy := w.handlerBusy
	w.mu.Unlock()

	if s.YIn > 0 {
		for _, j := range s.XVote {
			switch {
			case j > s.YIn:
				v = append(v, "both-vote;x-votes-after-later-voteproof")
			case j == s.YIn && s.Xf:
				v = append(v, "both-vote;x-goes-on-with-the-voteproof-y-entered-with;after-a-good-finish")
			case j == s.YIn:
				v = append(v, "both-vote;x-goes-on-with-the-voteproof-y-entered-with")
			}
		}

		if !busy && !s.XOut {
			v = append(v, "both-in;y-in-consensus-x-not-out")
		}
	}

	if s.Xf && !s.XOut {
		v = append(v, "x-finished-but-not-out")
	}

	if s.Yc && !s.Yf && s.YIn > 0 {
		v = append(v, "y-cancelled-but-in")
	}

	if s.XWF > 1 || s.YWF > 1 || s.XWC > 1 || s.YWC > 1 {
		v = append(v, "callback-twice")
	}

	if (s.YIn > 0 || s.YSync) && !s.Yf {
		v = append(v, "y-in-without-finish")
	}

	return v
}

func diff(got, want snapshot) []string {
	var f []string

	gv, wv := reflect.ValueOf(got), reflect.ValueOf(want)
	t := gv.Type()

	for i := 0; i < t.NumField(); i++ {
		a, b := gv.Field(i).Interface(), wv.Field(i).Interface()

		if sa, ok := a.([]int); ok && len(sa) == 0 {
			if sb, _ := b.([]int); len(sb) == 0 {
				continue
			}
		}

		if sa, ok := a.([]string); ok && len(sa) == 0 {
			if sb, _ := b.([]string); len(sb) == 0 {
				continue
			}
		}

		if !reflect.DeepEqual(a, b) {
			f = append(f, t.Field(i).Tag.Get("json"))
		}
	}

	return f
}

// await polls until the real state equals want; on time-out reports the
// differing fields and whether the real state had been standing still.
func (w *world) await(want snapshot) (snapshot, []string, bool) {
	deadline := time.Now().Add(time.Duration(w.p.StepMS) * time.Millisecond)
	pause := 20 * time.Microsecond

	var last snapshot

	lastChange := time.Now()

	for n := 0; ; n++ {
		quiet := w.brokersQuiet()
		got := w.snap()

		f := diff(got, want)
		if len(f) == 0 && quiet {
			return got, nil, true
		}

		if len(f) == 0 && time.Now().After(deadline) {
			return got, []string{"goroutine-of-a-broker-still-running"}, false
		}

		if n == 0 || len(diff(got, last)) > 0 {
			last = got
			lastChange = time.Now()
		}

		if time.Now().After(deadline) {
			return got, f, time.Since(lastChange) > time.Duration(w.p.StepMS/4)*time.Millisecond
		}

		time.Sleep(pause)

		if pause < 2*time.Millisecond {
			pause *= 2
		}
	}
}

var reBrokerFrame = regexp.MustCompile(
	`isaac/states\.\(\*Handover[XY]Broker\)\.|isaac/states\.(retry|endure)HandoverSendMessageFunc` +
		`|internal/handover\.\(\*world\)\.goCall\.func1`)

// brokersQuiet: no goroutine is inside broker code - or is a call the harness
// started (goCall) that has not returned, even one that was not scheduled yet -
// except those parked in the harness network (SendMessageFunc). The continuation of a sender after its
// request was answered (e.g. the reset of sendFailureCount after a good send)
// has no observable end; without this the next step could overtake it.
func (w *world) brokersQuiet() bool {
	buf := make([]byte, 1<<20)
	buf = buf[:runtime.Stack(buf, true)]

	parked := 0

	for _, g := range bytes.Split(buf, []byte("\n\n")) {
		if !reBrokerFrame.Match(g) {
			continue
		}

		if !bytes.Contains(g, []byte("internal/handover.(*world).send(")) {
			return false
		}

		parked++
	}

	// a goroutine whose request was answered but which has not run since
	// still stands in send(): it is not parked, its continuation is due
	w.mu.Lock()
	n := len(w.inflight)
	w.mu.Unlock()

	return parked <= n
}

func (w *world) goCall(f func()) {
	w.calls.Add(1)

	go func() {
		defer w.calls.Done()

		f()
	}()
}

// perform one model action on the real objects. A non-empty result is a
// return value that differs from the model's.
func (w *world) perform(a actIn) string {
	switch a.A {
	case "Init":
		return ""
	case "YSyncReady":
		w.syncCmd <- "ready"
	case "YSyncDone":
		w.syncCmd <- "done"
	case "YSyncFail":
		w.syncCmd <- "fail"
	case "YAsk":
		w.mu.Lock()
		w.askGood = a.Good
		w.mu.Unlock()

		canMove, asked, err := w.y.Ask()
		cls := isaacstates.VerifHandoverErrorClass(err)
		w.logEv(map[string]interface{}{"a": "YAsk", "good": a.Good, "asked": asked, "err": cls})

		switch {
		case w.record:
		case canMove:
			return "Ask: canMoveConsensus=true"
		case a.Good && (!asked || err != nil):
			return fmt.Sprintf("Ask: asked=%v err=%s, model: asked", asked, cls)
		case !a.Good && asked:
			return "Ask: asked although the request failed"
		}
	case "YChallenge":
		return w.yChallenge(a)
	case "YCancelLocal":
		w.logEv(map[string]interface{}{"a": "YCancelLocal"})
		w.y.VerifCancel(isaacstates.ErrHandoverCanceled.Errorf("canceled"))
	case "YStop":
		w.logEv(map[string]interface{}{"a": "YStop"})
		w.y.VerifStop()
	case "XSendVoteproof":
		return w.xSendVoteproof(a)
	case "XFinishNil":
		w.mu.Lock()
		w.handlerBusy, w.handlerK = true, 0
		w.log(map[string]interface{}{"a": "XFinishNil"})
		w.mu.Unlock()

		w.goCall(func() {
			err := w.x.VerifFinish(nil, nil)
			w.handlerReturned(0, false, err, true)
		})
	case "XBallot":
		return w.xBallot(a)
	case "XCancelLocal":
		w.logEv(map[string]interface{}{"a": "XCancelLocal"})
		w.x.VerifCancel(isaacstates.ErrHandoverCanceled.Errorf("canceled"))
	case "XStop":
		w.logEv(map[string]interface{}{"a": "XStop"})
		w.x.VerifStop()
	case "Resolve":
		return w.resolve(a)
	case "BadId", "Stray":
		return w.forged(a)
	default:
		return "unknown action " + a.A
	}

	return ""
}

func (w *world) logEv(e map[string]interface{}) {
	w.mu.Lock()
	w.log(e)
	w.mu.Unlock()
}

func (w *world) handlerReturned(k int, fin bool, err error, isFinishNil bool) {
	cls := isaacstates.VerifHandoverErrorClass(err)

	w.mu.Lock()
	defer w.mu.Unlock()

	w.handlerBusy = false
	w.xret = ret{Fin: fin, Err: cls}

	if isFinishNil {
		w.xret.Fin = false
		w.log(map[string]interface{}{"a": "XFinishNilRet", "err": cls})

		return
	}

	// ConsensusHandler.whenNewVoteproof: only isFinished stops the handler
	// from going on with this voteproof (an error is logged)
	if !fin {
		w.xVoted[k] = true
	}

	w.log(map[string]interface{}{"a": "XSendVoteproofRet", "k": k, "fin": fin, "err": cls})
}

func (w *world) xSendVoteproof(a actIn) string {
	k := a.K

	if a.R == "nobroker" { // States.HandoverXBroker() returns nil for a cancelled broker
		if !w.x.VerifIsCanceled() && !w.record {
			return "model: X's broker is cancelled (handler does not see it); real broker is not"
		}

		w.mu.Lock()
		w.xVoted[k] = true
		w.xret = ret{Err: "nobroker"}
		w.log(map[string]interface{}{"a": "XVoteNoBroker", "k": k})
		w.mu.Unlock()

		return ""
	}

	w.mu.Lock()
	w.handlerBusy, w.handlerK = true, k
	w.log(map[string]interface{}{"a": "XSendVoteproof", "k": k})
	w.mu.Unlock()

	vp := w.c.vp(k)

	w.goCall(func() {
		fin, err := w.x.VerifSendVoteproof(w.ctx, vp)
		w.handlerReturned(k, fin, err, false)
	})

	return ""
}

func (w *world) xBallot(a actIn) string {
	done := make(chan error, 1)

	w.logEv(map[string]interface{}{"a": "XBallot"})

	w.goCall(func() {
		err := w.x.VerifSendBallot(w.ctx, w.c.ballot)
		w.logEv(map[string]interface{}{"a": "XBallotRet", "err": isaacstates.VerifHandoverErrorClass(err)})
		done <- err
	})

	if a.R == "sent" || w.record {
		return ""
	}

	select {
	case err := <-done:
		want := map[string]string{"canceled": "canceled", "nil": "nil", "over": "canceled"}[a.R]
		if got := isaacstates.VerifHandoverErrorClass(err); got != want {
			return fmt.Sprintf("sendBallot returned %s, model %s (%s)", got, want, a.R)
		}
	case <-time.After(time.Duration(w.p.StepMS) * time.Millisecond):
		return "sendBallot did not return, model: " + a.R
	}

	return ""
}

func (w *world) yChallenge(a actIn) string {
	k := a.K

	w.mu.Lock()
	delete(w.ypend, k)
	stale := k <= w.ylast
	if !stale {
		w.ylast = k
	}
	w.log(map[string]interface{}{"a": "YChallenge", "k": k})
	w.mu.Unlock()

	if stale != (a.R == "stale") && !w.record {
		return fmt.Sprintf("harness handler: stale=%v, model %s", stale, a.R)
	}

	if stale {
		return ""
	}

	vp := w.c.vp(k)
	done := make(chan error, 1)

	w.goCall(func() {
		var err error

		if w.c.challengeType(k) == "bm" { // HandoverHandler.whenNewBlockSaved
			err = w.y.VerifSendBlockMap(w.ctx, vp.Point(), w.c.bms[k])
		} else { // HandoverHandler.whenNewVoteproof
			err = w.y.VerifSendStagePoint(w.ctx, vp.Point())
		}

		w.logEv(map[string]interface{}{"a": "YChallengeRet", "k": k, "err": isaacstates.VerifHandoverErrorClass(err)})
		done <- err
	})

	if a.R == "sent" || w.record {
		return ""
	}

	select {
	case err := <-done:
		want := map[string]string{"canceled": "canceled", "stopped": "stopped", "notsynced": "nil", "over": "canceled"}[a.R]
		if got := isaacstates.VerifHandoverErrorClass(err); got != want {
			return fmt.Sprintf("challenge send returned %s, model %s (%s)", got, want, a.R)
		}
	case <-time.After(time.Duration(w.p.StepMS) * time.Millisecond):
		return "challenge send did not return, model: " + a.R
	}

	return ""
}

func (w *world) resolve(a actIn) string {
	if a.M == nil {
		return "Resolve without message"
	}

	var r *request

	deadline := time.Now().Add(time.Duration(w.p.StepMS) * time.Millisecond)
	for r = w.find(*a.M); r == nil && time.Now().Before(deadline); r = w.find(*a.M) {
		time.Sleep(50 * time.Microsecond)
	}

	if r == nil {
		return "request " + a.M.String() + " is not in flight"
	}

	var rerr error

	rcls := "none"

	if a.O == "ok" || a.O == "rl" || a.O == "dup" {
		done := make(chan error, 1)

		w.goCall(func() { done <- w.receive(peer(a.M.From), r.msg) })

		select {
		case rerr = <-done:
		case <-time.After(time.Duration(w.p.StepMS) * time.Millisecond):
			return "Receive of " + a.M.String() + " did not return"
		}

		rcls = isaacstates.VerifHandoverErrorClass(rerr)
	}

	w.logEv(map[string]interface{}{"a": "Resolve", "m": *a.M, "o": a.O, "r": rcls})

	switch a.O {
	case "ok":
		w.remove(r)
		r.reply <- remoteErr(rerr)
	case "lost", "rl":
		w.remove(r)
		r.reply <- errNet
	case "cc":
		w.remove(r)
		r.reply <- context.Canceled
	case "dup":
	default:
		return "unknown outcome " + a.O
	}

	w.lastRecv = rcls

	if rcls != a.R && !w.record {
		return fmt.Sprintf("Receive(%s) returned %s, model %s", a.M, rcls, a.R)
	}

	return ""
}

// remoteErr: what the sender of a request sees of the receiver's error. The
// network layer (isaacnetwork response header) carries the text only, so the
// error chain (ErrHandoverCanceled, context.Canceled, ...) does not survive.
func remoteErr(err error) error {
	if err == nil {
		return nil
	}

	return errors.Errorf("remote: %s", err.Error())
}

// forged: a message with a foreign id (BadId) or of a kind the receiver does
// not expect (Stray).
func (w *world) forged(a actIn) string {
	var m interface{}

	p1 := w.c.vp(1).Point()

	switch {
	case a.A == "BadId" && a.To == "x":
		m = isaacstates.VerifNewHandoverMessageChallengeStagePoint("not-"+w.x.ID(), p1)
	case a.A == "BadId":
		m = isaacstates.VerifNewHandoverMessageData("not-"+w.y.ID(), isaacstates.HandoverMessageDataTypeVoteproof, w.c.vp(1))
	case a.To == "x" && a.T == "data":
		m = isaacstates.VerifNewHandoverMessageData(w.x.ID(), isaacstates.HandoverMessageDataTypeVoteproof, w.c.vp(1))
	case a.To == "x" && a.T == "resp":
		m = isaacstates.VerifNewHandoverMessageChallengeResponse(w.x.ID(), p1, true, nil)
	case a.To == "x" && a.T == "finish":
		var ivp base.INITVoteproof
		for k := range w.c.vps {
			if i, ok := w.c.vps[k].(base.INITVoteproof); ok {
				ivp = i

				break
			}
		}
		m = isaacstates.VerifNewHandoverMessageFinish(w.x.ID(), ivp, nil)
	case a.To == "y":
		m = isaacstates.VerifNewHandoverMessageChallengeStagePoint(w.y.ID(), p1)
	default:
		return "unknown forged message"
	}

	err := w.receive(a.To, m)
	cls := isaacstates.VerifHandoverErrorClass(err)
	w.logEv(map[string]interface{}{"a": a.A, "to": a.To, "t": a.T, "r": cls})

	w.lastRecv = cls

	if cls != a.R && !w.record {
		return fmt.Sprintf("%s to %s (%s): Receive returned %s, model %s", a.A, a.To, a.T, cls, a.R)
	}

	return ""
}

var _ = errors.Errorf
var _ = strconv.Itoa
