// Package handover binds spec/Handover.tla to the real HandoverXBroker and
// HandoverYBroker of /repo/isaac/states (id HANDOVER).
//
// world.go: the real objects a model run stands for. Model voteproof k (1..N,
// kind Kinds[k]) is a real, signed isaac INIT/ACCEPT voteproof of consecutive
// stage points; the block map of a majority ACCEPT voteproof is a real signed
// DummyBlockMap whose manifest hash is the voteproof's new block; both brokers
// share one node identity (address and key), as X and its replacement Y do.
package handover

import (
	"fmt"

	"github.com/spikeekips/mitum/base"
	"github.com/spikeekips/mitum/isaac"
	"github.com/spikeekips/mitum/util"
	"github.com/spikeekips/mitum/util/valuehash"
)

type chain struct {
	netID  base.NetworkID
	local  base.LocalNode
	others []base.LocalNode
	kinds  []string                         // kinds[k-1] of voteproof k
	vps    []base.Voteproof                 // vps[k-1]
	prs    map[string]base.ProposalSignFact // by proposal fact hash
	bms    map[int]base.BlockMap            // k of "accept" -> block map Y saves
	kOf    map[string]int                   // stage point string -> k
	ballot base.Ballot
}

// newChain builds voteproofs for kinds, each one of
// "init" (INIT majority), "initdraw", "accept" (ACCEPT majority), "acceptdraw".
func newChain(kinds []string) (*chain, error) {
	c := &chain{
		netID: base.RandomNetworkID(),
		local: base.RandomLocalNode(),
		kinds: kinds,
		prs:   map[string]base.ProposalSignFact{},
		bms:   map[int]base.BlockMap{},
		kOf:   map[string]int{},
	}

	for i := 0; i < 3; i++ {
		c.others = append(c.others, base.RandomLocalNode())
	}

	signers := append([]base.LocalNode{c.local}, c.others...)

	height, round := base.Height(33), base.Round(0)
	prev := valuehash.RandomSHA256()
	var proposal util.Hash = valuehash.RandomSHA256()

	for i, kind := range kinds {
		k := i + 1
		point := base.NewPoint(height, round)

		switch kind {
		case "init", "initdraw":
			prfact := isaac.NewProposalFact(point, c.local.Address(), prev, nil)
			pr := isaac.NewProposalSignFact(prfact)
			if err := pr.Sign(c.local.Privatekey(), c.netID); err != nil {
				return nil, err
			}
			proposal = prfact.Hash()
			c.prs[proposal.String()] = pr

			facts := []base.INITBallotFact{isaac.NewINITBallotFact(point, prev, proposal, nil)}
			if kind == "initdraw" {
				facts = append(facts, isaac.NewINITBallotFact(point, prev, valuehash.RandomSHA256(), nil))
			}

			var sfs []base.BallotSignFact
			for j, n := range signers {
				sf := isaac.NewINITBallotSignFact(facts[j%len(facts)])
				if err := sf.NodeSign(n.Privatekey(), c.netID, n.Address()); err != nil {
					return nil, err
				}
				sfs = append(sfs, sf)
			}

			vp := isaac.NewINITVoteproof(point)
			if kind == "init" {
				vp.SetMajority(facts[0])
			}
			vp.SetSignFacts(sfs).SetThreshold(base.Threshold(67)).Finish()

			if kind == "init" && !vp.BallotMajority().Proposal().Equal(proposal) {
				return nil, fmt.Errorf("proposal mismatch")
			}
			c.vps = append(c.vps, vp)

			if kind == "initdraw" {
				round++
			}
		case "accept", "acceptdraw":
			newblock := valuehash.RandomSHA256()
			facts := []isaac.ACCEPTBallotFact{isaac.NewACCEPTBallotFact(point, proposal, newblock, nil)}
			if kind == "acceptdraw" {
				facts = append(facts, isaac.NewACCEPTBallotFact(point, proposal, valuehash.RandomSHA256(), nil))
			}

			var sfs []base.BallotSignFact
			for j, n := range signers {
				sf := isaac.NewACCEPTBallotSignFact(facts[j%len(facts)])
				if err := sf.NodeSign(n.Privatekey(), c.netID, n.Address()); err != nil {
					return nil, err
				}
				sfs = append(sfs, sf)
			}

			vp := isaac.NewACCEPTVoteproof(point)
			if kind == "accept" {
				vp.SetMajority(facts[0])
			}
			vp.SetSignFacts(sfs).SetThreshold(base.Threshold(67)).Finish()
			c.vps = append(c.vps, vp)

			if kind == "accept" {
				manifest := base.NewDummyManifest(height, newblock)
				c.bms[k] = base.NewDummyBlockMapWithSign(manifest, c.local.Address(), c.local.Privatekey())
				prev = newblock
				height++
				round = 0
			} else {
				round++
			}
		default:
			return nil, fmt.Errorf("unknown kind %q", kind)
		}

		vp := c.vps[i]
		if err := vp.IsValid(c.netID); err != nil {
			return nil, fmt.Errorf("voteproof %d (%s) invalid: %w", k, kind, err)
		}
		c.kOf[vp.Point().String()] = k
	}

	// one real ballot of the shared identity (X forwards its ballots to Y)
	{
		point := base.NewPoint(base.Height(32), base.Round(0))
		fact := isaac.NewACCEPTBallotFact(point, valuehash.RandomSHA256(), valuehash.RandomSHA256(), nil)
		sf := isaac.NewACCEPTBallotSignFact(fact)
		if err := sf.NodeSign(c.local.Privatekey(), c.netID, c.local.Address()); err != nil {
			return nil, err
		}
		ifact := isaac.NewINITBallotFact(point, valuehash.RandomSHA256(), fact.Proposal(), nil)
		var sfs []base.BallotSignFact
		for _, n := range signers {
			isf := isaac.NewINITBallotSignFact(ifact)
			if err := isf.NodeSign(n.Privatekey(), c.netID, n.Address()); err != nil {
				return nil, err
			}
			sfs = append(sfs, isf)
		}
		ivp := isaac.NewINITVoteproof(point)
		ivp.SetMajority(ifact).SetSignFacts(sfs).SetThreshold(base.Threshold(67)).Finish()
		c.ballot = isaac.NewACCEPTBallot(ivp, sf, nil)
	}

	return c, nil
}

func (c *chain) vp(k int) base.Voteproof { return c.vps[k-1] }

func (c *chain) kind(k int) string { return c.kinds[k-1] }

// challengeType: what HandoverHandler of Y answers voteproof k with:
// "bm" after saving the block of a majority ACCEPT voteproof, else "sp".
func (c *chain) challengeType(k int) string {
	if c.kinds[k-1] == "accept" {
		return "bm"
	}

	return "sp"
}

func (c *chain) kOfPoint(p base.StagePoint) int { return c.kOf[p.String()] }

func (c *chain) getProposal(h util.Hash) (base.ProposalSignFact, bool, error) {
	pr, found := c.prs[h.String()]

	return pr, found, nil
}
