package handover

import (
	"context"
	"fmt"
	"sort"
	"sync"
	"time"

	"github.com/pkg/errors"
	"github.com/spikeekips/mitum/base"
	isaacstates "github.com/spikeekips/mitum/isaac/states"
	"github.com/spikeekips/mitum/network/quicstream"
)

// net.go: the two real brokers of one run, joined by a network the harness
// controls. SendMessageFunc of either broker parks the calling goroutine as an
// in-flight request until the schedule resolves it (deliver to the peer's
// Receive and answer / lose / answer lost / duplicate / context cancelled).

type params struct {
	Kinds     []string `json:"kinds"`
	MinChal   uint64   `json:"min_chal"`
	ReadyEnd  uint64   `json:"ready_end"`
	MaxFail   uint64   `json:"max_fail"`
	MaxAsk    uint64   `json:"max_ask"`
	StepMS    int      `json:"step_ms,omitempty"` // time-out of one step
	RetryUS   int      `json:"retry_us,omitempty"`
	FreeRunMS int      `json:"-"`
}

// msgKey is the model's view of a message.
type msgKey struct {
	From string `json:"from"`
	T    string `json:"t"`
	K    int    `json:"k"`
	OK   bool   `json:"ok"`
	Er   bool   `json:"er"`
}

func (m msgKey) String() string { return fmt.Sprintf("%s:%s:%d:%v:%v", m.From, m.T, m.K, m.OK, m.Er) }

type request struct {
	key   msgKey
	msg   isaacstates.HandoverMessage
	reply chan error
	seq   int
}

type ret struct {
	Fin bool   `json:"fin"`
	Err string `json:"err"`
}

// snapshot: everything of the model state the real objects let us observe.
type snapshot struct {
	Xb    bool     `json:"xb"`
	Xc    bool     `json:"xc"`
	Xf    bool     `json:"xf"`
	Xlv   int      `json:"xlv"`
	Xcc   int      `json:"xcc"`
	Xlcc  int      `json:"xlcc"`
	Xs    int      `json:"xs"`
	Xre   int      `json:"xre"`
	Xpc   int      `json:"xpc"`
	Xfail int      `json:"xfail"`
	XOut  bool     `json:"xOut"`
	XWF   int      `json:"xWF"`
	XWC   int      `json:"xWC"`
	Xret  ret      `json:"xret"`
	XVote []int    `json:"xVoted"`
	Yrta  bool     `json:"yrta"`
	Yds   bool     `json:"yds"`
	Yid   bool     `json:"yid"`
	Yf    bool     `json:"yf"`
	Yc    bool     `json:"yc"`
	Yfail int      `json:"yfail"`
	Ypend []int    `json:"ypend"`
	YIn   int      `json:"yIn"`
	YSync bool     `json:"ySync"`
	YWF   int      `json:"yWF"`
	YWC   int      `json:"yWC"`
	Net   []string `json:"net"`
}

type world struct {
	p  params
	c  *chain
	mu sync.Mutex

	x *isaacstates.HandoverXBroker
	y *isaacstates.HandoverYBroker

	xargs *isaacstates.HandoverXBrokerArgs
	yargs *isaacstates.HandoverYBrokerArgs

	inflight []*request
	nseq     int

	// callbacks seen
	xOut, ySync        bool
	xWF, xWC, yWF, yWC int
	yIn                int
	ypend              map[int]bool
	ylast              int
	xVoted             map[int]bool
	xret               ret
	xfCached           bool
	handlerBusy        bool // a handler call of X (sendVoteproof / finish) has not returned
	handlerK           int
	events             []map[string]interface{} // binding B log
	record             bool
	lastRecv           string // class of the error the last Receive call returned

	// scripted answers
	askGood  bool
	syncCmd  chan string
	ctx      context.Context
	cancel   func()
	calls    sync.WaitGroup
	finished bool
}

var (
	errNet      = errors.Errorf("verif network: request or answer lost")
	chainCache  = map[string]*chain{}
	chainCacheL sync.Mutex
)

func chainFor(kinds []string) (*chain, error) {
	key := fmt.Sprint(kinds)

	chainCacheL.Lock()
	defer chainCacheL.Unlock()

	if c, ok := chainCache[key]; ok {
		return c, nil
	}

	c, err := newChain(kinds)
	if err != nil {
		return nil, err
	}

	chainCache[key] = c

	return c, nil
}

func newWorld(p params) (*world, error) {
	c, err := chainFor(p.Kinds)
	if err != nil {
		return nil, err
	}

	if p.StepMS < 1 {
		p.StepMS = 4000
	}

	if p.RetryUS < 1 {
		p.RetryUS = 300
	}

	w := &world{
		p: p, c: c,
		ypend:   map[int]bool{},
		xVoted:  map[int]bool{},
		xret:    ret{Err: "nil"},
		syncCmd: make(chan string, 4),
	}
	w.ctx, w.cancel = context.WithCancel(context.Background())

	yargs := isaacstates.NewHandoverYBrokerArgs(c.netID)
	yargs.MaxEnsureSendFailure = p.MaxFail
	yargs.MaxEnsureAsk = p.MaxAsk
	yargs.RetrySendMessageInterval = time.Duration(p.RetryUS) * time.Microsecond
	yargs.SendMessageFunc = func(_ context.Context, _ quicstream.ConnInfo, m isaacstates.HandoverMessage) error {
		return w.send("y", m)
	}
	yargs.NewDataFunc = func(isaacstates.HandoverMessageDataType, interface{}) error { return nil }
	yargs.WhenFinished = func(string, base.INITVoteproof, quicstream.ConnInfo) error {
		w.mu.Lock()
		w.yWF++
		w.mu.Unlock()

		return nil
	}
	yargs.WhenCanceled = func(string, error, quicstream.ConnInfo) {
		w.mu.Lock()
		w.yWC++
		w.log(map[string]interface{}{"a": "YWhenCanceled"})
		w.mu.Unlock()
	}
	yargs.AskRequestFunc = func(context.Context, quicstream.ConnInfo) (string, bool, error) {
		w.mu.Lock()
		good := w.askGood
		w.mu.Unlock()

		if !good {
			return "", false, errors.Errorf("verif: ask failed")
		}

		// what NewAskHandoverReceivedFunc -> States.NewHandoverXBroker does on X
		return w.newX(), false, nil
	}
	yargs.SyncDataFunc = func(ctx context.Context, _ quicstream.ConnInfo, readych chan<- struct{}) error {
		for {
			select {
			case <-ctx.Done():
				return ctx.Err()
			case cmd := <-w.syncCmd:
				switch cmd {
				case "ready":
					readych <- struct{}{}
				case "done":
					return nil
				default:
					return errors.Errorf("verif: sync data failed")
				}
			}
		}
	}

	w.yargs = yargs
	w.y = isaacstates.NewHandoverYBroker(w.ctx, yargs, quicstream.ConnInfo{})
	w.y.VerifSetStatesFuncs(
		func(vp base.Voteproof) error { // patchStates: st.vpch <- vp
			w.mu.Lock()
			k := c.kOfPoint(vp.Point())
			w.ypend[k] = true
			w.log(map[string]interface{}{"a": "YNewVoteproof", "k": k})
			w.mu.Unlock()

			return nil
		},
		func(vp base.INITVoteproof) error { // patchStates: finished voteproof -> consensus, nil -> syncing
			w.mu.Lock()
			if vp == nil {
				w.ySync = true
				w.log(map[string]interface{}{"a": "YWhenFinished", "k": 0})
			} else {
				w.yIn = c.kOfPoint(vp.Point())
				w.log(map[string]interface{}{"a": "YWhenFinished", "k": w.yIn})
			}
			w.mu.Unlock()

			return nil
		},
		nil,
	)

	return w, nil
}

// newX creates the broker of X (States.NewHandoverXBroker + patchStates).
func (w *world) newX() string {
	w.mu.Lock()
	defer w.mu.Unlock()

	if w.x != nil {
		return w.x.ID()
	}

	c := w.c
	xargs := isaacstates.NewHandoverXBrokerArgs(c.local, c.netID)
	xargs.MinChallengeCount = w.p.MinChal
	xargs.ReadyEnd = w.p.ReadyEnd
	xargs.MaxEnsureSendFailure = w.p.MaxFail
	xargs.RetrySendMessageInterval = time.Duration(w.p.RetryUS) * time.Microsecond
	xargs.CleanAfter = time.Hour
	xargs.CheckIsReady = func() (bool, error) { return true, nil } // as launch does
	xargs.GetProposal = c.getProposal
	xargs.SendMessageFunc = func(_ context.Context, _ quicstream.ConnInfo, m isaacstates.HandoverMessage) error {
		return w.send("x", m)
	}
	xargs.WhenFinished = func(string, base.INITVoteproof, base.Address, quicstream.ConnInfo) error {
		w.mu.Lock()
		w.xWF++
		w.mu.Unlock()

		return nil
	}
	xargs.WhenCanceled = func(string, error) {
		w.mu.Lock()
		w.xWC++
		w.log(map[string]interface{}{"a": "XWhenCanceled"})
		w.mu.Unlock()
	}

	w.xargs = xargs
	w.x = isaacstates.NewHandoverXBroker(w.ctx, xargs, quicstream.ConnInfo{})
	w.x.VerifSetStatesFuncs(
		func(vp base.INITVoteproof) error { // patchStates: setAllowConsensus(false); move to syncing
			w.mu.Lock()
			w.xOut = true
			k := 0
			if vp != nil {
				k = c.kOfPoint(vp.Point())
			}
			w.log(map[string]interface{}{"a": "XWhenFinished", "k": k})
			w.mu.Unlock()

			return nil
		},
		nil,
	)

	return w.x.ID()
}

func (w *world) log(e map[string]interface{}) { // w.mu held
	if w.record {
		w.events = append(w.events, e)
	}
}

func (w *world) classify(from string, m isaacstates.HandoverMessage) msgKey {
	k := msgKey{From: from}

	switch t := m.(type) {
	case isaacstates.HandoverMessageData:
		switch t.DataType() {
		case isaacstates.HandoverMessageDataTypeVoteproof:
			k.T = "data"
			if vp, err := t.LoadVoteproofData(); err == nil {
				k.K = w.c.kOfPoint(vp.Point())
			}
		case isaacstates.HandoverMessageDataTypeINITVoteproof:
			k.T = "data"
			if _, vp, err := t.LoadINITVoteproofData(); err == nil {
				k.K = w.c.kOfPoint(vp.Point())
			}
		case isaacstates.HandoverMessageDataTypeBallot:
			k.T = "ballot"
		default:
			k.T = "data:" + string(t.DataType())
		}
	case isaacstates.HandoverMessageFinish:
		k.T = "finish"
		if vp := t.INITVoteproof(); vp != nil {
			k.K = w.c.kOfPoint(vp.Point())
		}
	case isaacstates.HandoverMessageChallengeResponse:
		k.T = "resp"
		k.K = w.c.kOfPoint(t.Point())
		k.OK = t.OK()
		k.Er = t.Err() != nil
	case isaacstates.HandoverMessageCancel:
		k.T = "cancel"
	case isaacstates.HandoverMessageChallengeStagePoint:
		k.T = "chal"
		k.K = w.c.kOfPoint(t.Point())
		if w.c.challengeType(k.K) != "sp" {
			k.T = "chal:sp-for-bm"
		}
	case isaacstates.HandoverMessageChallengeBlockMap:
		k.T = "chal"
		k.K = w.c.kOfPoint(t.Point())
		if k.K < 1 || w.c.challengeType(k.K) != "bm" {
			k.T = "chal:bm-for-sp"
		}
	default:
		k.T = fmt.Sprintf("%T", m)
	}

	return k
}

// send is SendMessageFunc: park until resolved.
func (w *world) send(from string, m isaacstates.HandoverMessage) error {
	r := &request{key: w.classify(from, m), msg: m, reply: make(chan error, 1)}

	w.mu.Lock()
	if w.finished {
		w.mu.Unlock()

		return errNet
	}

	w.nseq++
	r.seq = w.nseq
	w.inflight = append(w.inflight, r)
	w.log(map[string]interface{}{"a": "Send", "m": r.key})
	w.mu.Unlock()

	return <-r.reply
}

func (w *world) find(key msgKey) *request {
	w.mu.Lock()
	defer w.mu.Unlock()

	for _, r := range w.inflight {
		if r.key == key {
			return r
		}
	}

	return nil
}

func (w *world) remove(r *request) {
	w.mu.Lock()
	defer w.mu.Unlock()

	for i := range w.inflight {
		if w.inflight[i] == r {
			w.inflight = append(w.inflight[:i], w.inflight[i+1:]...)

			return
		}
	}
}

// receive calls the peer's Receive as the network handler of launch does.
func (w *world) receive(to string, m interface{}) error {
	if to == "x" {
		return w.x.Receive(m)
	}

	return w.y.Receive(m)
}

func peer(from string) string {
	if from == "x" {
		return "y"
	}

	return "x"
}

// snap reads the observable state. Never touches isFinishedLocked of X while a
// handler call of X is outstanding (finish() holds that lock while it sends).
func (w *world) snap() snapshot {
	w.mu.Lock()
	x, busy := w.x, w.handlerBusy
	w.mu.Unlock()

	var s snapshot

	if x != nil {
		s.Xb = true
		s.Xc = x.VerifIsCanceled()

		if !busy {
			f := x.VerifIsFinished()

			w.mu.Lock()
			w.xfCached = f
			w.mu.Unlock()
		}

		cn := x.VerifCounters()
		if cn.HasLastVoteproof {
			s.Xlv = w.c.kOfPoint(cn.LastVoteproof)
		}

		if cn.HasPrevChallenge {
			s.Xpc = w.c.kOfPoint(cn.PrevChallenge)
		}

		s.Xcc, s.Xlcc = int(cn.ChallengeCount), int(cn.LastChallengeCount)
		s.Xs, s.Xre, s.Xfail = int(cn.Success), int(cn.ReadyEnd), int(cn.SendFailure)
	}

	s.Yrta, s.Yds = w.y.VerifIsReadyToAsk(), w.y.VerifIsDataSynced()
	s.Yid = w.y.IsAsked()
	s.Yf, s.Yc = w.y.VerifIsFinished(), w.y.VerifIsCanceled()
	s.Yfail = int(w.y.VerifSendFailure())

	w.mu.Lock()
	defer w.mu.Unlock()

	s.Xf = w.xfCached
	s.XOut, s.XWF, s.XWC, s.Xret = w.xOut, w.xWF, w.xWC, w.xret
	s.YIn, s.YSync, s.YWF, s.YWC = w.yIn, w.ySync, w.yWF, w.yWC
	s.XVote = keys(w.xVoted)
	s.Ypend = keys(w.ypend)

	s.Net = make([]string, len(w.inflight))
	for i, r := range w.inflight {
		s.Net[i] = r.key.String()
	}

	sort.Strings(s.Net)

	return s
}

func keys(m map[int]bool) []int {
	out := make([]int, 0, len(m))
	for k, v := range m {
		if v {
			out = append(out, k)
		}
	}

	sort.Ints(out)

	return out
}

// close releases every parked goroutine and cancels both brokers.
func (w *world) close() {
	w.mu.Lock()
	w.finished = true
	reqs := w.inflight
	w.inflight = nil
	w.mu.Unlock()

	for _, r := range reqs {
		r.reply <- errNet
	}

	w.cancel()

	done := make(chan struct{})
	go func() {
		w.calls.Wait()
		close(done)
	}()

	select {
	case <-done:
	case <-time.After(2 * time.Second):
	}

	// requests parked after the first sweep (retries)
	w.mu.Lock()
	reqs = w.inflight
	w.inflight = nil
	w.mu.Unlock()

	for _, r := range reqs {
		r.reply <- errNet
	}
}
