package c33

// Gate-driven histories (binding G): used only when util/worker.go carries the gates proposed in
// fixes/HOOK-C33-worker-gates.diff ("worker.job.cancel" before the cancel call of a failing job,
// "worker.job.release" before the slot of a job is given back). The failing job that is the last
// holder of a slot is HELD at a gate - i.e. between two steps of the end of its goroutine - while
// the caller makes its call (Wait / LazyWait / NewJob) from another goroutine; the gate is opened
// when the call has returned or, if it is blocked, after a grace time. The events are logged as
// in every other trace and judged by JobWorkerTrace.tla; the grace time only decides whether the
// call's return is logged before or after the steps the gate holds back, both are executions of
// the real code. Without the gates in the tree the first history notices that no job arrives at
// a gate and the family is skipped (stats "gates": 0).

import (
	"context"
	"sync"
	"sync/atomic"
	"time"

	"github.com/spikeekips/mitum/util"
)

type gateCtl struct {
	mu      sync.Mutex
	wk      *util.BaseJobWorker
	job     uint64 // job count (0-based) of the job to hold
	point   string
	arrived chan struct{}
	open    chan struct{}
	calls   int64 // gate calls of any worker job point seen (feature detection)
}

var gates = &gateCtl{}

func (g *gateCtl) fn(point string, args ...interface{}) {
	if len(point) < 11 || point[:11] != "worker.job." {
		return
	}
	atomic.AddInt64(&g.calls, 1)
	g.mu.Lock()
	hold := false
	if len(args) >= 2 {
		wk, _ := args[0].(*util.BaseJobWorker)
		jc, _ := args[1].(uint64)
		hold = wk != nil && wk == g.wk && jc == g.job && point == g.point
	}
	arrived, open := g.arrived, g.open
	g.mu.Unlock()
	if hold {
		close(arrived)
		<-open
	}
}

func (g *gateCtl) arm(wk *util.BaseJobWorker, job uint64, point string) {
	g.mu.Lock()
	g.wk, g.job, g.point = wk, job, point
	g.arrived, g.open = make(chan struct{}), make(chan struct{})
	g.mu.Unlock()
}

func (g *gateCtl) disarm() {
	g.mu.Lock()
	g.wk = nil
	g.mu.Unlock()
}

// one gate-driven history; call: "wait" | "lazywait" | "newjob". present=false: no job arrived at a gate.
func (w *windows) gated(sem int, point, call string, grace time.Duration) (present bool, err error) {
	r := &rec{evs: make([]ev, 0, 4*sem+16)}
	wk, err := util.NewBaseJobWorker(context.Background(), int64(sem))
	if err != nil {
		return false, err
	}
	var hold uint32
	gates.arm(wk, uint64(sem-1), point)
	defer gates.disarm()
	submit := func(j int, f func(ctx context.Context) error) bool {
		r.log(ev{"a": "NewJobCall", "j": j})
		e := wk.NewJob(func(ctx context.Context, _ uint64) error {
			atomic.AddInt64(&r.out, 1)
			defer atomic.AddInt64(&r.out, -1)
			r.logCC(ev{"a": "Start", "j": j}, ctx)
			return f(ctx)
		})
		r.log(ev{"a": "NewJobRet", "j": j, "ok": e == nil, "e": errID(e)})
		return e == nil
	}
	// jobs 1..sem-1 hold their slots (newjob) or succeed at once (wait); job sem fails at once
	for j := 1; j <= sem; j++ {
		j := j
		ok := submit(j, func(ctx context.Context) error {
			if j == sem {
				r.logCC(ev{"a": "End", "j": j, "e": j}, ctx)
				return jobErr[j]
			}
			if call == "newjob" {
				for atomic.LoadUint32(&hold) == 0 {
					time.Sleep(20 * time.Microsecond)
				}
			}
			r.logCC(ev{"a": "End", "j": j, "e": 0}, ctx)
			return nil
		})
		if !ok {
			return false, context.Canceled
		}
	}
	select {
	case <-gates.arrived:
		present = true
	case <-time.After(300 * time.Millisecond):
	}
	if !present {
		atomic.StoreUint32(&hold, 1)
		close(gates.open)
		wk.Done()
		_ = wk.Wait()
		r.settle()
		return false, nil
	}
	// the failing job is held at the gate: make the call from another goroutine
	ret := make(chan struct{})
	j := sem + 1
	go func() {
		defer close(ret)
		switch call {
		case "newjob":
			r.log(ev{"a": "NewJobCall", "j": j})
			e := wk.NewJob(func(ctx context.Context, _ uint64) error {
				atomic.AddInt64(&r.out, 1)
				defer atomic.AddInt64(&r.out, -1)
				r.logCC(ev{"a": "Start", "j": j}, ctx)
				r.logCC(ev{"a": "End", "j": j, "e": 0}, ctx)
				return nil
			})
			r.log(ev{"a": "NewJobRet", "j": j, "ok": e == nil, "e": errID(e)})
			if e == nil {
				w.stats["accepted:gated"]++
			}
		default:
			wk.Done()
			r.log(ev{"a": "Done"})
			r.log(ev{"a": "WaitCall"})
			var werr error
			if call == "lazywait" {
				werr = wk.LazyWait()
			} else {
				werr = wk.Wait()
			}
			r.log(ev{"a": "WaitRet", "e": errID(werr)})
			if werr == nil {
				w.stats["nil:gated"]++
			}
		}
	}()
	select {
	case <-ret:
	case <-time.After(grace):
	}
	close(gates.open)
	<-ret
	atomic.StoreUint32(&hold, 1)
	if call == "newjob" {
		wk.Done()
		r.log(ev{"a": "Done"})
		r.log(ev{"a": "WaitCall"})
		werr := wk.Wait()
		r.log(ev{"a": "WaitRet", "e": errID(werr)})
	}
	r.settle()
	size := sem
	if call == "newjob" {
		size = sem + 1
	}
	w.emit(r, "gated-"+call, ev{"a": "Reset", "kind": "base", "size": size, "limit": sem, "gate": point})
	return true, nil
}

// every gate x call x worker size 1..3, rounds times; nothing if the tree has no gates
func (w *windows) runGated(rounds int) error {
	util.VerifSetGate(gates.fn)
	defer util.VerifSetGate(nil)
	w.stats["gates"] = 0
	for k := 0; k < rounds; k++ {
		for _, point := range []string{"worker.job.cancel", "worker.job.release"} {
			for _, call := range []string{"wait", "lazywait", "newjob"} {
				for sem := 1; sem <= 3; sem++ {
					present, err := w.gated(sem, point, call, 2*time.Millisecond)
					if err != nil {
						return err
					}
					if !present {
						if atomic.LoadInt64(&gates.calls) == 0 {
							return nil // no gates in this tree
						}
						continue // this gate is not reached by a failing job in this tree
					}
					w.stats["gates"]++
				}
			}
		}
	}
	return nil
}
