package c33

// Aimed histories ("windows"): the schedule family TLC finds on JobWorker.tla when the end of a
// job goroutine is not in the order  callback returns / cancel with the error / release the slot
// (JobWorker_order_rc_*.cfg): a step of the caller - Wait's acquire of the whole semaphore and
// its read of the cause, a NewJob's acquire of one slot, the driver of RunJobWorker / BatchWork
// going on to Wait and to the next batch - falls between two steps of the tail of a FAILING job
// that is the last holder of a slot. Without a gate inside util/worker.go the steps of the tail
// cannot be held apart (fixes/HOOK-C33-worker-gates.diff proposes the gates), so the schedules
// are made likely instead of forced:
//   - the failing job waits for a flag; the caller raises it, both sides shake hands (both are on
//     a processor then) and the caller makes its call after a number of spins that a controller
//     keeps at the point where "the call was made first" and "the job returned first" are
//     equally frequent (the two sides draw numbers from one atomic counter; no clock is read),
//     plus a swept offset of some hundred spins to either side;
//   - "hammer" goroutines read the job context's Err() in a loop: Err locks the context's mutex,
//     like the cancel call of the failing job and like Wait's read of the cause, so a tail step
//     that takes a few instructions is stretched to a contended mutex hand-over (this is what
//     reaches the parked paths: a Wait / NewJob already blocked in the semaphore is woken by the
//     release and runs microseconds later).
// The verdict does not depend on any of this: the events are logged as in every other trace (End
// inside the callback before it returns, WaitRet / NewJobRet / RunRet / Pref after or inside the
// call) and judged by JobWorkerTrace.tla; the aim only makes the schedules likely. Histories of
// the same shape (same event sequence) are written once, with the number of repetitions.

import (
	"context"
	"encoding/json"
	"hash/fnv"
	"math/rand"
	"runtime"
	"sync"
	"sync/atomic"
	"time"

	"github.com/spikeekips/mitum/util"

	"mitumverif/internal/h"
)

func spin(n int) {
	var x uint64
	for i := 0; i < n; i++ {
		x += uint64(i) ^ x>>3
	}
	if x == 1 {
		atomic.AddUint64(&sink, x)
	}
}

// aim keeps the caller's delay (spins) at the point where call-first and return-first are
// equally frequent; one per family and shape, because the constant part differs.
type aim struct {
	delay, step float64
	n, first    int
}

// the spins of the two sides for an offset: a negative delay is spent on the job's side
func (a *aim) spins(offset int) (caller, job int) {
	d := int(a.delay) + offset
	if d < 0 {
		return 0, -d
	}
	return d, 0
}

// calibration shot (offset 0): the call drew its number before the job's return did
func (a *aim) feed(callFirst bool) {
	a.n++
	if callFirst {
		a.first++
		a.delay += a.step
	} else {
		a.delay -= a.step
	}
	if a.step > 3 {
		a.step *= 0.97
	}
	if a.delay < -50000 {
		a.delay = -50000
	}
	if a.delay > 50000 {
		a.delay = 50000
	}
}

const jobBase = 100 // least spins of the failing job between the handshake and its return

type windows struct {
	out   *h.Out
	rng   *rand.Rand
	aims  map[string]*aim
	seen  map[uint64]int // shape -> number of repetitions
	stats map[string]int
	idx   *int
}

func newWindows(out *h.Out, rng *rand.Rand, idx *int) *windows {
	return &windows{out: out, rng: rng, aims: map[string]*aim{}, seen: map[uint64]int{}, stats: map[string]int{}, idx: idx}
}

// k goroutines that read ctx.Err() until stop is raised
func hammer(ctx context.Context, k int, stop *uint32) *sync.WaitGroup {
	var wg sync.WaitGroup
	for i := 0; i < k; i++ {
		wg.Add(1)
		go func() {
			defer wg.Done()
			for atomic.LoadUint32(stop) == 0 {
				_ = ctx.Err()
			}
		}()
	}
	return &wg
}

func (w *windows) aimOf(key string) *aim {
	a := w.aims[key]
	if a == nil {
		a = &aim{delay: 0, step: 48}
		w.aims[key] = a
	}
	return a
}

// offset (spins) of the call relative to the balance point; calib: a calibration shot
func (w *windows) offset() (off int, calib bool) {
	switch w.rng.Intn(8) {
	case 0, 1:
		return 0, true
	case 2:
		return -w.rng.Intn(600), false // the call is inside (parked) when the job returns
	case 3:
		return w.rng.Intn(3000), false
	default:
		return w.rng.Intn(400) - 100, false
	}
}

// write the history unless one of the same shape was written already (then only counted)
func (w *windows) emit(r *rec, fam string, reset ev) {
	w.stats["shots:"+fam]++
	b, _ := json.Marshal(r.evs)
	hh := fnv.New64a()
	hh.Write([]byte(reset["kind"].(string)))
	hh.Write([]byte{byte(reset["size"].(int)), byte(reset["limit"].(int))})
	hh.Write(b)
	k := hh.Sum64()
	w.seen[k]++
	if w.seen[k] > 1 {
		return
	}
	w.stats["shapes:"+fam]++
	reset["i"] = *w.idx
	reset["aimed"] = fam
	r.flush(w.out, reset)
	*w.idx++
}

// every callback of this history has returned (their events are in the log)
func (r *rec) settle() {
	for i := 0; atomic.LoadInt64(&r.out) > 0; i++ {
		if i < 200 {
			runtime.Gosched()
		} else {
			time.Sleep(20 * time.Microsecond)
		}
	}
}

// the two sides of an aimed shot
type shot struct {
	started, release, ack, hold, stop uint32
	seq, retSeq, callSeq              int64
	jd                                int64
	jctx                              atomic.Value
}

// the failing job's body: wait for the flag, shake hands, spin, log End, return
func (s *shot) target(r *rec, j int, ctx context.Context) error {
	e := ev{"a": "End", "j": j, "e": j}
	s.jctx.Store(ctx)
	atomic.StoreUint32(&s.started, 1)
	for atomic.LoadUint32(&s.release) == 0 {
	}
	atomic.StoreUint32(&s.ack, 1)
	spin(jobBase + int(atomic.LoadInt64(&s.jd)))
	r.logCC(e, ctx)
	atomic.StoreInt64(&s.retSeq, atomic.AddInt64(&s.seq, 1))
	return jobErr[j]
}

// the caller's side: raise the flag, shake hands, spin, then the call follows
func (s *shot) fire(spins, jobSpins int) {
	atomic.AddInt64(&s.jd, int64(jobSpins))
	atomic.StoreUint32(&s.release, 1)
	for atomic.LoadUint32(&s.ack) == 0 {
	}
	spin(spins)
	s.callSeq = atomic.AddInt64(&s.seq, 1)
}

func (s *shot) callFirst() bool { return s.callSeq < atomic.LoadInt64(&s.retSeq) }

func (s *shot) waitStarted() {
	for atomic.LoadUint32(&s.started) == 0 {
		runtime.Gosched()
	}
}

// Wait (or LazyWait) aimed at the return of the failing job that is the last holder of a slot.
// sem slots, n >= sem jobs; job n fails, the others succeed at once.
func (w *windows) waitWindow(sem, n, nham int, lazy bool) error {
	r := &rec{evs: make([]ev, 0, 4*n+8)}
	wk, err := util.NewBaseJobWorker(context.Background(), int64(sem))
	if err != nil {
		return err
	}
	s := &shot{jd: int64(w.rng.Intn(64))}
	for j := 1; j <= n; j++ {
		j := j
		r.log(ev{"a": "NewJobCall", "j": j})
		e := wk.NewJob(func(ctx context.Context, _ uint64) error {
			atomic.AddInt64(&r.out, 1)
			defer atomic.AddInt64(&r.out, -1)
			r.logCC(ev{"a": "Start", "j": j}, ctx)
			if j < n {
				r.logCC(ev{"a": "End", "j": j, "e": 0}, ctx)
				return nil
			}
			return s.target(r, j, ctx)
		})
		r.log(ev{"a": "NewJobRet", "j": j, "ok": e == nil, "e": errID(e)})
		if e != nil {
			return e
		}
	}
	wk.Done()
	r.log(ev{"a": "Done"})
	s.waitStarted()
	var hw *sync.WaitGroup
	if nham > 0 {
		hw = hammer(s.jctx.Load().(context.Context), nham, &s.stop)
	}
	fam := "wait"
	if lazy {
		fam = "lazywait"
	}
	a := w.aimOf(fam + string(rune('0'+sem)) + string(rune('0'+nham)))
	off, calib := w.offset()
	r.log(ev{"a": "WaitCall"})
	var werr error
	s.fire(a.spins(off))
	if lazy {
		werr = wk.LazyWait()
	} else {
		werr = wk.Wait()
	}
	r.log(ev{"a": "WaitRet", "e": errID(werr)})
	if werr == nil {
		w.stats["nil:"+fam]++
	}
	atomic.StoreUint32(&s.stop, 1)
	if hw != nil {
		hw.Wait()
	}
	r.settle()
	if calib {
		a.feed(s.callFirst())
	}
	w.emit(r, fam, ev{"a": "Reset", "kind": "base", "size": n, "limit": sem})
	return nil
}

// NewJob aimed at the return of a failing job while every slot is held: jobs 1..sem-1 hold their
// slots until the aimed call has returned, job sem fails, the aimed call submits job sem+1.
func (w *windows) newJobWindow(sem, nham int) error {
	r := &rec{evs: make([]ev, 0, 4*sem+16)}
	wk, err := util.NewBaseJobWorker(context.Background(), int64(sem))
	if err != nil {
		return err
	}
	s := &shot{jd: int64(w.rng.Intn(64))}
	var holders int32
	submit := func(j int, f func(ctx context.Context) error) bool {
		r.log(ev{"a": "NewJobCall", "j": j})
		e := wk.NewJob(func(ctx context.Context, _ uint64) error {
			atomic.AddInt64(&r.out, 1)
			defer atomic.AddInt64(&r.out, -1)
			r.logCC(ev{"a": "Start", "j": j}, ctx)
			return f(ctx)
		})
		r.log(ev{"a": "NewJobRet", "j": j, "ok": e == nil, "e": errID(e)})
		return e == nil
	}
	for j := 1; j <= sem; j++ {
		j := j
		ok := submit(j, func(ctx context.Context) error {
			if j == sem {
				return s.target(r, j, ctx)
			}
			atomic.AddInt32(&holders, 1)
			for i := 0; atomic.LoadUint32(&s.hold) == 0; i++ {
				if i > 2000 {
					runtime.Gosched()
				}
			}
			r.logCC(ev{"a": "End", "j": j, "e": 0}, ctx)
			return nil
		})
		if !ok {
			return context.Canceled
		}
	}
	s.waitStarted()
	for atomic.LoadInt32(&holders) < int32(sem-1) {
		runtime.Gosched()
	}
	var hw *sync.WaitGroup
	if nham > 0 {
		hw = hammer(s.jctx.Load().(context.Context), nham, &s.stop)
	}
	a := w.aimOf("newjob" + string(rune('0'+sem)) + string(rune('0'+nham)))
	off, calib := w.offset()
	j := sem + 1
	r.log(ev{"a": "NewJobCall", "j": j})
	s.fire(a.spins(off))
	e := wk.NewJob(func(ctx context.Context, _ uint64) error {
		atomic.AddInt64(&r.out, 1)
		defer atomic.AddInt64(&r.out, -1)
		r.logCC(ev{"a": "Start", "j": j}, ctx)
		r.logCC(ev{"a": "End", "j": j, "e": 0}, ctx)
		return nil
	})
	r.log(ev{"a": "NewJobRet", "j": j, "ok": e == nil, "e": errID(e)})
	if e == nil {
		w.stats["accepted:newjob"]++
	}
	atomic.StoreUint32(&s.hold, 1)
	atomic.StoreUint32(&s.stop, 1)
	if hw != nil {
		hw.Wait()
	}
	wk.Done()
	r.log(ev{"a": "Done"})
	r.log(ev{"a": "WaitCall"})
	werr := wk.Wait()
	r.log(ev{"a": "WaitRet", "e": errID(werr)})
	r.settle()
	if calib {
		a.feed(s.callFirst())
	}
	w.emit(r, "newjob", ev{"a": "Reset", "kind": "base", "size": sem + 1, "limit": sem})
	return nil
}

// RunJobWorker / BatchWork whose only failing job is the last holder of a slot of its batch: the
// driver is (about to be) parked in Wait when the job returns. The job's return cannot be aimed
// at a call the library makes itself; the failing job returns a swept number of spins after the
// driver submitted the last job of the batch, with the context's mutex hammered.
func (w *windows) runWindow(batch bool, nham int) error {
	r := &rec{evs: make([]ev, 0, 64)}
	limit := 1 + w.rng.Intn(3)
	size := limit
	nb := 1
	if batch {
		nb = 2 + w.rng.Intn(2)
		size = limit*(nb-1) + 1 + w.rng.Intn(limit)
	} else if w.rng.Intn(2) == 0 {
		size = limit + w.rng.Intn(3)
	}
	// the failing index: the last one of the first batch (batch) / the last one (run)
	fail := size
	if batch {
		fail = limit
	}
	var stop uint32
	var hw *sync.WaitGroup
	var hamOnce sync.Once
	delay := 0
	switch w.rng.Intn(3) {
	case 0:
		delay = w.rng.Intn(400)
	case 1:
		delay = w.rng.Intn(6000)
	}
	f := func(ctx context.Context, i, last uint64) error {
		j := int(i) + 1
		atomic.AddInt64(&r.out, 1)
		defer atomic.AddInt64(&r.out, -1)
		r.logCC(ev{"a": "Start", "j": j, "last": int(last)}, ctx)
		if j != fail {
			r.logCC(ev{"a": "End", "j": j, "e": 0}, ctx)
			return nil
		}
		if nham > 0 {
			hamOnce.Do(func() { hw = hammer(ctx, nham, &stop) })
		}
		e := ev{"a": "End", "j": j, "e": j}
		spin(delay)
		r.logCC(e, ctx)
		return jobErr[j]
	}
	var err error
	fam := "run"
	r.log(ev{"a": "RunCall"})
	if batch {
		fam = "batch"
		err = util.BatchWork(context.Background(), int64(size), int64(limit),
			func(_ context.Context, last uint64) error {
				r.log(ev{"a": "Pref", "last": int(last), "e": 0})
				return nil
			}, f)
	} else {
		err = util.RunJobWorker(context.Background(), int64(limit), int64(size), func(ctx context.Context, i, _ uint64) error {
			return f(ctx, i, uint64(size-1))
		})
	}
	r.log(ev{"a": "RunRet", "e": errID(err)})
	if err == nil {
		w.stats["nil:"+fam]++
	}
	atomic.StoreUint32(&stop, 1)
	if hw != nil {
		hw.Wait()
	}
	r.settle()
	kind := "run"
	if batch {
		kind = "batch"
	}
	w.emit(r, fam, ev{"a": "Reset", "kind": kind, "size": size, "limit": limit})
	return nil
}

// aimed histories of every family in turn until the budget is used up (at least min rounds)
func (w *windows) run(budget time.Duration, min, max int) error {
	t0 := time.Now()
	for k := 0; k < max && (k < min || time.Since(t0) < budget); k++ {
		sem := 1 + w.rng.Intn(3)
		nham := []int{0, 0, 2, 3}[w.rng.Intn(4)]
		var err error
		switch k % 8 {
		case 0, 1, 2:
			err = w.waitWindow(sem, sem+[]int{0, 0, 1, 2}[w.rng.Intn(4)], nham, false)
		case 3:
			err = w.waitWindow(sem, sem, nham, true)
		case 4, 5:
			err = w.newJobWindow(sem, nham)
		case 6:
			err = w.runWindow(false, 2+w.rng.Intn(2))
		default:
			err = w.runWindow(true, 2+w.rng.Intn(2))
		}
		if err != nil {
			return err
		}
	}
	w.stats["ms"] = int(time.Since(t0) / time.Millisecond)
	return nil
}
