// Package c33 drives the real job workers of util/worker.go and records one event per call /
// callback (binding B; validated by spec/JobWorkerTrace.tla).
//
//	vh C33 record --num N --trace trace.ndjson
//
//	         [--aimed-ms B --aimed-min N --aimed-max N --stats stats.json]   (aimed histories, window.go)
//
// Kinds of traces: "base" / "errcb" (NewBaseJobWorker / NewErrCallbackJobWorker driven call by
// call: NewJob..., Done, Wait or LazyWait, a late NewJob, Close, parent cancellation at a random
// point), "run" / "runerrcb" (RunJobWorker / RunErrCallbackJobWorker), "batch" (BatchWork).
// Every event is written under one mutex; the cancellation state of the job's context is read
// while the event is written. Jobs never depend on wall-clock time for the verdict: they spin,
// yield or wait for their context a bounded while.
package c33

import (
	"context"
	"encoding/json"
	"errors"
	"fmt"
	"math/rand"
	"os"
	"runtime"
	"strconv"
	"sync"
	"sync/atomic"
	"time"

	"github.com/spikeekips/mitum/util"

	"mitumverif/internal/h"
)

func init() { h.Register("C33", run) }

type ev = map[string]interface{}

const maxJobs = 64

var (
	jobErr    [maxJobs + 1]error
	errParent = errors.New("parent cause")
	errPref   = errors.New("pref error")
)

func init() {
	for i := range jobErr {
		jobErr[i] = fmt.Errorf("error of job %d", i)
	}
}

func errID(err error) int {
	switch {
	case err == nil:
		return 0
	case errors.Is(err, errParent):
		return 100
	case errors.Is(err, errPref):
		return 150
	case errors.Is(err, util.ErrJobWorkerDone):
		return 102
	}
	for j := 1; j <= maxJobs; j++ {
		if errors.Is(err, jobErr[j]) {
			return j
		}
	}
	if errors.Is(err, context.Canceled) {
		return 101
	}
	return 199
}

type rec struct {
	mu  sync.Mutex
	evs []ev
	out int64 // jobs started and not yet ended
}

func (r *rec) log(e ev) {
	r.mu.Lock()
	r.evs = append(r.evs, e)
	r.mu.Unlock()
}

// log with the cancellation state of ctx read inside the critical section
func (r *rec) logCC(e ev, ctx context.Context) {
	r.mu.Lock()
	cc := 0
	if ctx.Err() != nil {
		cc = 1
	}
	e["cc"] = cc
	r.evs = append(r.evs, e)
	r.mu.Unlock()
}

func (r *rec) flush(out *h.Out, reset ev) {
	reset["n"] = len(r.evs)
	out.Emit(reset)
	for _, e := range r.evs {
		out.Emit(e)
	}
}

type plan struct {
	fail  bool
	work  int // 0 return at once, 1 spin, 2 yield, 3 wait for the context (bounded), 4 short sleep
	spins int
}

func randomPlans(rng *rand.Rand, n int, pfail float64) []plan {
	ps := make([]plan, n+1)
	for j := 1; j <= n; j++ {
		ps[j] = plan{fail: rng.Float64() < pfail, work: rng.Intn(5), spins: rng.Intn(20000)}
	}
	return ps
}

var sink uint64

func work(ctx context.Context, p plan) {
	switch p.work {
	case 1:
		var x uint64
		for i := 0; i < p.spins; i++ {
			x += uint64(i)
		}
		atomic.AddUint64(&sink, x)
	case 2:
		for i := 0; i < 1+p.spins%5; i++ {
			runtime.Gosched()
		}
	case 3:
		select {
		case <-ctx.Done():
		case <-time.After(time.Duration(200+p.spins%800) * time.Microsecond):
		}
	case 4:
		time.Sleep(time.Duration(p.spins%300) * time.Microsecond)
	}
}

// the job callback of job j (1-based)
func (r *rec) job(j int, p plan, extra ev) func(context.Context) error {
	return func(ctx context.Context) error {
		atomic.AddInt64(&r.out, 1)
		defer atomic.AddInt64(&r.out, -1)
		e := ev{"a": "Start", "j": j}
		for k, v := range extra {
			e[k] = v
		}
		r.logCC(e, ctx)
		work(ctx, p)
		var err error
		id := 0
		if p.fail {
			err, id = jobErr[j], j
		}
		r.logCC(ev{"a": "End", "j": j, "e": id}, ctx)
		return err
	}
}

func (r *rec) quiet() {
	// jobs of an abandoned worker (error return) may still run: let them end inside this trace
	for i := 0; i < 20000 && atomic.LoadInt64(&r.out) > 0; i++ {
		time.Sleep(50 * time.Microsecond)
	}
	time.Sleep(100 * time.Microsecond)
}

// a cancellation from outside at a random moment, logged as call / return
func (r *rec) canceller(rng *rand.Rand, c int, f func()) (start func(), wait func()) {
	delay := time.Duration(rng.Intn(600)) * time.Microsecond
	done := make(chan struct{})
	return func() {
			go func() {
				defer close(done)
				time.Sleep(delay)
				r.log(ev{"a": "CancelCall", "c": c})
				f()
				r.log(ev{"a": "CancelRet"})
			}()
		}, func() {
			<-done
		}
}

func direct(rng *rand.Rand, out *h.Out, idx int) error {
	r := &rec{}
	kind := "base"
	if rng.Intn(3) == 0 {
		kind = "errcb"
	}
	n := rng.Intn(41)
	if rng.Intn(4) == 0 {
		n = rng.Intn(61)
	}
	sem := int64(1 + rng.Intn(16))
	ps := randomPlans(rng, n+2, []float64{0, 0.05, 0.2, 0.5}[rng.Intn(4)])
	parent, pcancel := context.WithCancelCause(context.Background())
	defer pcancel(nil)
	var wk *util.BaseJobWorker
	var err error
	if kind == "errcb" {
		wk, err = util.NewErrCallbackJobWorker(parent, sem, func(e error) { r.log(ev{"a": "Errf", "e": errID(e)}) })
	} else {
		wk, err = util.NewBaseJobWorker(parent, sem)
	}
	if err != nil {
		return err
	}
	startC, waitC := func() {}, func() {}
	switch rng.Intn(6) {
	case 0:
		startC, waitC = r.canceller(rng, 100, func() { pcancel(errParent) })
	case 1:
		startC, waitC = r.canceller(rng, 101, func() { pcancel(nil) })
	case 2:
		startC, waitC = r.canceller(rng, 101, func() { wk.Close() })
	}
	startC()
	newJob := func(j int) {
		r.log(ev{"a": "NewJobCall", "j": j})
		f := r.job(j, ps[j], nil)
		e := wk.NewJob(func(ctx context.Context, _ uint64) error { return f(ctx) })
		r.log(ev{"a": "NewJobRet", "j": j, "ok": e == nil, "e": errID(e)})
	}
	for j := 1; j <= n; j++ {
		newJob(j)
	}
	wk.Done()
	r.log(ev{"a": "Done"})
	if rng.Intn(3) == 0 {
		newJob(n + 1) // after Done: must be refused
	}
	var werr error
	r.log(ev{"a": "WaitCall"})
	if rng.Intn(4) == 0 {
		werr = wk.LazyWait()
	} else {
		werr = wk.Wait()
	}
	r.log(ev{"a": "WaitRet", "e": errID(werr)})
	if rng.Intn(3) == 0 {
		newJob(n + 2)
	}
	waitC()
	r.quiet()
	r.flush(out, ev{"a": "Reset", "i": idx, "kind": kind, "size": n, "limit": int(sem)})
	return nil
}

func runKind(rng *rand.Rand, out *h.Out, idx int) error {
	r := &rec{}
	kind := "run"
	if rng.Intn(4) == 0 {
		kind = "runerrcb"
	}
	size := 1 + rng.Intn(40)
	wsize := int64(1 + rng.Intn(16))
	ps := randomPlans(rng, size, []float64{0, 0.05, 0.2, 0.5}[rng.Intn(4)])
	parent, pcancel := context.WithCancelCause(context.Background())
	defer pcancel(nil)
	startC, waitC := func() {}, func() {}
	switch rng.Intn(6) {
	case 0:
		startC, waitC = r.canceller(rng, 100, func() { pcancel(errParent) })
	case 1:
		startC, waitC = r.canceller(rng, 101, func() { pcancel(nil) })
	}
	startC()
	f := func(ctx context.Context, i, _ uint64) error {
		j := int(i) + 1
		return r.job(j, ps[j], ev{"last": size - 1})(ctx)
	}
	var err error
	r.log(ev{"a": "RunCall"})
	if kind == "runerrcb" {
		err = util.RunErrCallbackJobWorker(parent, wsize, int64(size), func(e error) { r.log(ev{"a": "Errf", "e": errID(e)}) }, f)
	} else {
		err = util.RunJobWorker(parent, wsize, int64(size), f)
	}
	r.log(ev{"a": "RunRet", "e": errID(err)})
	waitC()
	r.quiet()
	r.flush(out, ev{"a": "Reset", "i": idx, "kind": kind, "size": size, "limit": int(wsize)})
	return nil
}

func batchKind(rng *rand.Rand, out *h.Out, idx int) error {
	r := &rec{}
	size := 1 + rng.Intn(40)
	limit := 1 + rng.Intn(40)
	pf := []float64{0, 0, 0.03, 0.2}[rng.Intn(4)]
	ps := randomPlans(rng, size, pf)
	failPrefAt := -1
	if rng.Intn(8) == 0 {
		failPrefAt = rng.Intn(size)
	}
	parent, pcancel := context.WithCancelCause(context.Background())
	defer pcancel(nil)
	startC, waitC := func() {}, func() {}
	if rng.Intn(8) == 0 {
		startC, waitC = r.canceller(rng, 100, func() { pcancel(errParent) })
	}
	startC()
	r.log(ev{"a": "RunCall"})
	err := util.BatchWork(parent, int64(size), int64(limit),
		func(_ context.Context, last uint64) error {
			e := 0
			var err error
			if failPrefAt >= 0 && int(last) >= failPrefAt {
				e, err = 150, errPref
			}
			r.log(ev{"a": "Pref", "last": int(last), "e": e})
			return err
		},
		func(ctx context.Context, i, last uint64) error {
			j := int(i) + 1
			return r.job(j, ps[j], ev{"last": int(last)})(ctx)
		})
	r.log(ev{"a": "RunRet", "e": errID(err)})
	waitC()
	r.quiet()
	r.flush(out, ev{"a": "Reset", "i": idx, "kind": "batch", "size": size, "limit": limit})
	return nil
}

// the schedule TLC finds on JobWorker_cand.cfg: worker size 1, job 1 holds the slot until the
// driver is inside NewJob(2), then fails. No verdict depends on the waiting time.
func forcedAcquire(out *h.Out, idx int) error {
	r := &rec{}
	f := func(ctx context.Context, i, _ uint64) error {
		j := int(i) + 1
		if j == 1 {
			// holds the only slot for 3 ms - the driver is inside NewJob(2) by then - and fails
			return r.jobSleep(j, 3*time.Millisecond, true, ev{"last": 1})(ctx)
		}
		return r.job(j, plan{}, ev{"last": 1})(ctx)
	}
	r.log(ev{"a": "RunCall"})
	err := util.RunJobWorker(context.Background(), 1, 2, f)
	r.log(ev{"a": "RunRet", "e": errID(err)})
	r.quiet()
	r.flush(out, ev{"a": "Reset", "i": idx, "kind": "run", "size": 2, "limit": 1, "forced": "acquire"})
	return nil
}

func (r *rec) jobSleep(j int, d time.Duration, fail bool, extra ev) func(context.Context) error {
	return func(ctx context.Context) error {
		atomic.AddInt64(&r.out, 1)
		defer atomic.AddInt64(&r.out, -1)
		e := ev{"a": "Start", "j": j}
		for k, v := range extra {
			e[k] = v
		}
		r.logCC(e, ctx)
		time.Sleep(d)
		var err error
		id := 0
		if fail {
			err, id = jobErr[j], j
		}
		r.logCC(ev{"a": "End", "j": j, "e": id}, ctx)
		return err
	}
}

func run(args []string) error {
	if len(args) < 1 || args[0] != "record" {
		return fmt.Errorf("usage: C33 record --num N --trace f [--aimed-ms B --aimed-min N --aimed-max N --stats f]")
	}
	fl := h.Flags(args[1:])
	out, err := h.NewOut(fl["trace"])
	if err != nil {
		return err
	}
	defer out.Close()
	num, _ := strconv.Atoi(fl["num"])
	seed, _ := strconv.ParseInt(os.Getenv("VERIF_SEED"), 10, 64)
	rng := rand.New(rand.NewSource(seed*15485863 + 33))
	idx := 0
	for k := 0; k < 3; k++ {
		if err := forcedAcquire(out, idx); err != nil {
			return err
		}
		idx++
	}
	for k := 0; k < num; k++ {
		var err error
		switch k % 3 {
		case 0:
			err = direct(rng, out, idx)
		case 1:
			err = runKind(rng, out, idx)
		default:
			err = batchKind(rng, out, idx)
		}
		if err != nil {
			return err
		}
		idx++
	}
	// aimed histories (window.go): for a time budget, between a least and a greatest number
	ams, _ := strconv.Atoi(fl["aimed-ms"])
	amin, _ := strconv.Atoi(fl["aimed-min"])
	amax, _ := strconv.Atoi(fl["aimed-max"])
	w := newWindows(out, rng, &idx)
	if amax > 0 {
		if runtime.GOMAXPROCS(0) < 4 {
			runtime.GOMAXPROCS(4)
		}
		if err := w.run(time.Duration(ams)*time.Millisecond, amin, amax); err != nil {
			return err
		}
		// gate-driven histories (gated.go): only if the tree has the gates
		if err := w.runGated(2); err != nil {
			return err
		}
	}
	out.Emit(ev{"a": "Eof"})
	if fl["stats"] != "" {
		st := map[string]interface{}{"procs": runtime.GOMAXPROCS(0), "counts": w.stats}
		reps := []int{}
		for _, n := range w.seen {
			reps = append(reps, n)
		}
		st["shapes"] = len(reps)
		b, _ := json.Marshal(st)
		if err := os.WriteFile(fl["stats"], b, 0o644); err != nil {
			return err
		}
	}
	return nil
}
