package c33

import (
	"fmt"
	"math/rand"
	"strconv"
	"time"

	"mitumverif/internal/h"
)

func aimTest(fl map[string]string) error {
	out, err := h.NewOut(fl["trace"])
	if err != nil {
		return err
	}
	defer out.Close()
	num, _ := strconv.Atoi(fl["num"])
	idx := 0
	w := newWindows(out, rand.New(rand.NewSource(1)), &idx)
	t := time.Now()
	if err := w.run(time.Hour, num, num); err != nil {
		return err
	}
	fmt.Println("histories", num, "distinct", idx, "wall", time.Since(t))
	fmt.Println(w.stats)
	for k, a := range w.aims {
		fmt.Println(k, "delay", a.delay, "n", a.n, "callfirst", a.first)
	}
	return nil
}
