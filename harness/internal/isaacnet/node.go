package isaacnet

import (
	"context"
	"fmt"
	"sort"
	"sync"
	"sync/atomic"
	"time"

	"github.com/pkg/errors"
	"github.com/spikeekips/mitum/base"
	"github.com/spikeekips/mitum/isaac"
	isaacdatabase "github.com/spikeekips/mitum/isaac/database"
	isaacstates "github.com/spikeekips/mitum/isaac/states"
	leveldbstorage "github.com/spikeekips/mitum/storage/leveldb"
	"github.com/spikeekips/mitum/util"
	"github.com/spikeekips/mitum/util/hint"
)

// Node is one honest node: everything except the block writer, the transport functions and the
// memberlist is the real thing, wired as launch/p_states.go wires it.
type Node struct {
	net    *Net
	idx    int
	name   string
	local  base.LocalNode
	pool   *isaacdatabase.TempPool
	ppool  *loggingPool
	lvps   *isaac.LastVoteproofsHandler
	box    *isaacstates.Ballotbox
	states *isaacstates.States
	pps    *isaac.ProposalProcessors
	maker  *isaac.ProposalMaker
	sel    *isaac.BaseProposalSelector
	chain  *chain
	sv     *isaac.SuffrageVoting

	emu      sync.Mutex // {sequence number, sample of the last voteproofs} is one atomic step per node
	bmu      sync.Mutex
	bcasted  map[string]bool
	visited  sync.Map // state -> true
	lastSave atomic.Int64
}

// loggingPool logs the first appearance of a proposal (ProposalMaker stores every proposal it makes).
type loggingPool struct {
	*isaacdatabase.TempPool
	n *Node
}

func (p *loggingPool) SetProposal(pr base.ProposalSignFact) (bool, error) {
	p.n.net.noteProposal(pr)
	return p.TempPool.SetProposal(pr)
}

func (nt *Net) noteProposal(pr base.ProposalSignFact) {
	k := pr.Fact().Hash().String()
	if nt.log.known("p", k) {
		return
	}
	seq := nt.log.next()
	id := nt.log.id("p", k)
	fact := pr.ProposalFact()
	by := nt.indexOf(fact.Proposer())
	e := Ev{"a": "Prop", "id": id, "h": fact.Point().Height().Int64(), "r": fact.Point().Round().Uint64(),
		"prev": nt.log.id("m", fact.PreviousBlock().String())}
	if by >= 0 {
		e["by"] = nt.name(by)
	}
	nt.log.add(seq, e)
}

func lastSample(lvps *isaac.LastVoteproofsHandler) Ev {
	vp := lvps.Last().Cap()
	if vp == nil {
		return nil
	}
	return Ev{"h": vp.Point().Height().Int64(), "r": vp.Point().Round().Uint64(), "s": stageName(vp.Point().Stage()),
		"maj": vp.Result() == base.VoteResultMajority}
}

// emit logs an event of this node: the sequence number and the sample of the node's last
// voteproofs (the cap of the real LastVoteproofsHandler) are taken in one atomic step.
func (n *Node) emit(e Ev) {
	n.emu.Lock()
	seq := n.net.log.next()
	if l := lastSample(n.lvps); l != nil {
		e["last"] = l
	}
	n.emu.Unlock()
	e["n"] = n.name
	n.net.log.add(seq, e)
}

func (n *Node) voteproofFields(e Ev, vp base.Voteproof) {
	nt := n.net
	nt.pointFields(e, vp.Point())
	e["vp"] = nt.log.id("v", vp.ID())
	e["res"] = vp.Result().String()
	if m := vp.Majority(); m != nil {
		nt.factFields(e, m)
	}
	nt.expelFields(e, vp)
	switch vp.(type) {
	case isaac.INITVoteproof, isaac.ACCEPTVoteproof:
	case isaac.INITExpelVoteproof, isaac.ACCEPTExpelVoteproof:
		e["vpkind"] = "expel"
	case isaac.INITStuckVoteproof, isaac.ACCEPTStuckVoteproof:
		e["vpkind"] = "stuck"
	default:
		e["vpkind"] = fmt.Sprintf("%T", vp)
	}
	voters := []string{}
	for _, sf := range vp.SignFacts() {
		if i := nt.indexOf(sf.Node()); i >= 0 {
			voters = append(voters, nt.name(i))
		}
	}
	sort.Strings(voters)
	e["voters"] = voters
	e["nsuf"] = nt.sufAt(vp.Point().Height().SafePrev()).Len()
}

// onBoxVoteproof: hook in Ballotbox.newVoteproof - the ballot box emits a voteproof.
func (n *Node) onBoxVoteproof(vp base.Voteproof) {
	e := Ev{"a": "BoxVP"}
	n.voteproofFields(e, vp)
	if n.net.firstSeenVoteproof(vp.ID()) {
		e["src"] = "count"
		signers := []string{}
		for _, sf := range vp.SignFacts() {
			if i := n.net.indexOf(sf.Node()); i >= 0 {
				signers = append(signers, n.net.name(i))
			}
		}
		e["signers"] = signers
	} else {
		e["src"] = "ballot"
	}
	n.emit(e)
}

// vote wraps every Ballotbox.Vote of this node (incoming ballots and the handlers' VoteFunc). The
// sequence number is reserved before the call: an accepted ballot is then ordered before every
// voteproof counted from it.
func (n *Node) vote(bl base.Ballot) (bool, error) {
	nt := n.net
	nt.calls.Add(1)
	defer nt.calls.Add(-1)
	seq := nt.log.next()
	voted, err := n.box.Vote(bl)
	if !voted {
		nt.stat.votedFalse.Add(1)
		return voted, err
	}
	e := Ev{"a": "Vote", "n": n.name}
	if from := nt.indexOf(bl.SignFact().Node()); from >= 0 {
		e["from"] = nt.name(from)
	}
	nt.pointFields(e, bl.Point())
	nt.factFields(e, bl.SignFact().Fact().(base.BallotFact)) //nolint:forcetypeassert //...
	nt.expelFields(e, bl)
	nt.log.add(seq, e)
	return voted, err
}

// onBroadcast: the broadcast function of the DefaultBallotBroadcaster.
func (n *Node) onBroadcast(bl base.Ballot) error {
	k := ballotKey(bl)
	n.bmu.Lock()
	first := !n.bcasted[k]
	n.bcasted[k] = true
	n.bmu.Unlock()
	if first {
		n.net.bcastEvent(n.net.log.next(), n.idx, bl, false)
	}
	n.net.broadcast(n.idx, bl)
	return nil
}

// serveProposal: isaacnetwork.QuicstreamHandlerRequestProposal for requests naming this node as proposer.
func (n *Node) serveProposal(ctx context.Context, point base.Point, prev util.Hash) (base.ProposalSignFact, error) {
	switch pr, found, err := n.ppool.ProposalByPoint(point, n.local.Address(), prev); {
	case err != nil:
		return nil, err
	case found:
		return pr, nil
	}
	return n.maker.Make(ctx, point, prev)
}

func noop() error { return nil }

// expelProcessor: operation processor stub for the expel operations a suffrage-confirm voteproof hands to the
// proposal processor (no state is written; the writer stub applies the expel when the block is saved)
type expelProcessor struct{}

func (expelProcessor) PreProcess(ctx context.Context, _ base.Operation, _ base.GetStateFunc) (context.Context, base.OperationProcessReasonError, error) {
	return ctx, nil, nil
}

func (expelProcessor) Process(context.Context, base.Operation, base.GetStateFunc) ([]base.StateMergeValue, base.OperationProcessReasonError, error) {
	return nil, base.NewBaseOperationProcessReason("verif: expel applied by the block writer stub"), nil
}

func (expelProcessor) Close() error { return nil }

// onExpelMerged: SuffrageVoting's voted callback - the merged operation is gossiped to the reachable members
// (launch.broadcastSuffrageVotingFunc -> memberlist -> SuffrageVotingVoteFunc of the receiver)
func (n *Node) onExpelMerged(op base.SuffrageExpelOperation) {
	nt := n.net
	nt.noteExpelFact(op)
	e := Ev{"a": "ExpelOp", "h": op.ExpelFact().ExpelStart().Int64()}
	if t := nt.indexOf(op.ExpelFact().Node()); t >= 0 {
		e["target"] = nt.name(t)
	}
	signers := []string{}
	for _, sg := range op.NodeSigns() {
		if j := nt.indexOf(sg.Node()); j >= 0 {
			signers = append(signers, nt.name(j))
		}
	}
	sort.Strings(signers)
	e["signers"] = signers
	n.emit(e)
	for j, p := range nt.nodes {
		if p == nil || j == n.idx || p.sv == nil {
			continue
		}
		go func(j int, p *Node) {
			time.Sleep(time.Duration(2+j) * time.Millisecond)
			if !nt.reachable(n.idx, j) {
				return
			}
			if err := op.IsValid(nt.networkID); err != nil {
				return
			}
			suf := nt.sufAt(p.chain.height())
			if err := isaac.IsValidExpelWithSuffrageLifespan(p.chain.height(), op, suf, 100); err != nil {
				return
			}
			_, _ = p.sv.Vote(op)
		}(j, p)
	}
}

func newNode(nt *Net, idx int) (*Node, error) {
	encs, enc := encoders()
	local := nt.locals[idx]
	n := &Node{net: nt, idx: idx, name: nt.name(idx), local: local, chain: &chain{}, bcasted: map[string]bool{}}
	n.chain.blocks = []blockEntry{nt.genesis}

	pool, err := isaacdatabase.NewTempPool(leveldbstorage.NewMemStorage(), encs, enc, 0)
	if err != nil {
		return nil, err
	}
	n.pool = pool
	n.ppool = &loggingPool{TempPool: pool, n: n}

	// launch.PLastVoteproofsHandler + genesis
	n.lvps = isaac.NewLastVoteproofsHandler()
	_ = n.lvps.Set(nt.genesis.avp)

	// launch.PBallotbox
	n.box = isaacstates.NewBallotbox(local.Address(), func() base.Threshold { return nt.threshold }, nt.getSuffrage)
	_ = n.box.SetCountAfter(waitPreparingINITBallot)
	_ = n.box.SetInterval(ballotboxInterval)
	boxes.Store(n.box, n)

	lastBlockMap := func() (base.BlockMap, bool, error) { return n.chain.last().bm, true, nil }
	lastManifest := func() (base.Manifest, bool, error) { return n.chain.last().manifest, true, nil }
	getManifest := func(h base.Height) (base.Manifest, error) {
		if e, ok := n.chain.at(h); ok {
			return e.manifest, nil
		}
		return nil, nil
	}

	// proposals: real maker, real selector; the request function is the in-process network
	n.maker = isaac.NewProposalMaker(local, nt.networkID, nil, n.ppool, lastBlockMap)
	sargs := isaac.NewBaseProposalSelectorArgs()
	sargs.Pool = n.ppool
	sargs.Maker = n.maker
	sargs.ProposerSelectFunc = isaac.NewFixedProposerSelector(
		func(point base.Point, nodes []base.Node, _ util.Hash) (base.Node, error) {
			if len(nodes) < 1 {
				return nil, errors.Errorf("empty nodes")
			}
			return nodes[int((uint64(point.Height().Int64())+point.Round().Uint64())%uint64(len(nodes)))], nil
		}).Select
	sargs.GetNodesFunc = func(h base.Height) ([]base.Node, bool, error) {
		ns := nt.sufAt(h).Nodes()
		c := make([]base.Node, len(ns))
		copy(c, ns)
		return c, true, nil
	}
	sargs.RequestFunc = func(ctx context.Context, point base.Point, proposer base.Node, prev util.Hash) (base.ProposalSignFact, bool, error) {
		return nt.requestProposal(ctx, idx, nt.indexOf(proposer.Address()), point, prev)
	}
	sargs.TimeoutRequest = func() time.Duration { return proposalTimeoutRequest }
	sargs.RequestProposalInterval = proposalRequestInterval
	sargs.MinProposerWait = proposalMinProposerWait
	n.sel = isaac.NewBaseProposalSelector(local, sargs)

	// proposal processors: real ProposalProcessors + real DefaultProposalProcessor over the writer stub
	ppargs := isaac.NewDefaultProposalProcessorArgs()
	ppargs.NewWriterFunc = func(pr base.ProposalSignFact, _ base.GetStateFunc) (isaac.BlockWriter, error) {
		return &writer{n: n, proposal: pr}, nil
	}
	ppargs.GetStateFunc = func(string) (base.State, bool, error) { return nil, false, nil }
	ppargs.NewOperationProcessorFunc = func(_ base.Height, ht hint.Hint, _ base.GetStateFunc) (base.OperationProcessor, error) {
		if ht.Type() == isaac.SuffrageExpelOperationHint.Type() {
			return expelProcessor{}, nil // the expel takes effect when the block is saved (writer stub)
		}
		return nil, nil
	}
	ppargs.GetOperationFunc = func(context.Context, util.Hash, util.Hash) (base.Operation, error) {
		return nil, isaac.ErrOperationNotFoundInProcessor.Errorf("no operations in this network")
	}
	n.pps = isaac.NewProposalProcessors(
		func(pr base.ProposalSignFact, previous base.Manifest) (isaac.ProposalProcessor, error) {
			return isaac.NewDefaultProposalProcessor(pr, previous, ppargs)
		},
		func(_ context.Context, _ base.Point, h util.Hash) (base.ProposalSignFact, error) {
			switch pr, found, err := n.ppool.Proposal(h); {
			case err != nil:
				return nil, err
			case found:
				return pr, nil
			}
			pr, found := nt.fetchProposal(idx, h)
			if !found {
				return nil, util.ErrNotFound.Errorf("proposal %s", h)
			}
			if err := pr.IsValid(nt.networkID); err != nil {
				return nil, err
			}
			_, _ = n.ppool.SetProposal(pr)
			return pr, nil
		},
	)
	n.pps.SetRetry(30*time.Millisecond, 4)

	// launch.PSuffrageVoting: real SuffrageVoting over the node's TempPool; a merged operation is gossiped
	findExpels := func(context.Context, base.Height, base.Suffrage) ([]base.SuffrageExpelOperation, error) {
		return nil, nil
	}
	var resolver isaacstates.BallotStuckResolver
	if nt.cfg.Scenario == "x" {
		n.sv = isaac.NewSuffrageVoting(local.Address(), pool,
			func(util.Hash) (bool, error) { return false, nil },
			func(op base.SuffrageExpelOperation) error {
				n.onExpelMerged(op)
				return nil
			})
		n.box.SetSuffrageVoteFunc(func(op base.SuffrageExpelOperation) error {
			_, err := n.sv.Vote(op)
			return err
		})
		findExpels = func(ctx context.Context, h base.Height, suf base.Suffrage) ([]base.SuffrageExpelOperation, error) {
			return n.sv.Find(ctx, h, suf)
		}
		// launch.PBallotStuckResolver (the request for missing ballots is a no-op: ballots are re-broadcast anyway)
		votesv := isaacstates.VoteSuffrageVotingFunc(local, nt.networkID, n.box, n.sv, nt.getSuffrage)
		resolver = isaacstates.NewDefaultBallotStuckResolver(
			stuckWait, stuckInterval, stuckResolveAfter,
			isaacstates.FindMissingBallotsFromBallotboxFunc(local.Address(), nt.getSuffrage, n.box),
			func(context.Context, base.StagePoint, []base.Address) error { return nil },
			func(ctx context.Context, point base.StagePoint, nodes []base.Address) (base.Voteproof, error) {
				vp, err := votesv(ctx, point, nodes)
				if err == nil && vp != nil {
					e := Ev{"a": "StuckVP"}
					n.voteproofFields(e, vp)
					nt.firstSeenVoteproof(vp.ID())
					n.emit(e)
				}
				return vp, err
			},
		)
	}

	// launch.PStates
	args := isaacstates.NewStatesArgs()
	args.Ballotbox = n.box
	args.LastVoteproofsHandler = n.lvps
	args.BallotStuckResolver = resolver
	args.IntervalBroadcastBallot = func() time.Duration { return intervalBroadcastBallot }
	args.AllowConsensus = true
	_ = n.box.SetLastPointFromVoteproof(n.lvps.Last().Cap())
	args.IsInSyncSourcePoolFunc = func(base.Address) bool { return false }
	args.BallotBroadcaster = isaacstates.NewDefaultBallotBroadcaster(local.Address(), pool, n.onBroadcast)
	args.WhenNewVoteproof = func(vp base.Voteproof) {
		e := Ev{"a": "Voteproof"}
		n.voteproofFields(e, vp)
		n.emit(e)
	}
	states, err := isaacstates.NewStates(nt.networkID, local, args)
	if err != nil {
		return nil, err
	}
	n.states = states

	// launch.PStatesSetHandlers
	votef := func(bl base.Ballot) (bool, error) { return n.vote(bl) }
	states.SetWhenStateSwitched(func(next isaacstates.StateType) {
		n.visited.Store(next.String(), true)
		n.emit(Ev{"a": "Switched", "state": next.String()})
	})
	interval := func() time.Duration { return intervalBroadcastBallot }
	waitprep := func() time.Duration { return waitPreparingINITBallot }
	minwait := func() time.Duration { return minWaitNextBlockINITBallot }
	waitstuck := func() time.Duration { return intervalBroadcastBallot*2 + waitPreparingINITBallot }
	join := func(context.Context, base.Suffrage) error { return nil }

	cargs := isaacstates.NewConsensusHandlerArgs()
	cargs.IntervalBroadcastBallot = interval
	cargs.WaitPreparingINITBallot = waitprep
	cargs.MinWaitNextBlockINITBallot = minwait
	cargs.NodeInConsensusNodesFunc = nt.nodeInConsensusNodes
	cargs.ProposalSelectFunc = n.sel.Select
	cargs.ProposalProcessors = n.pps
	cargs.WhenNewBlockSaved = func(base.BlockMap) { n.box.Count() } // launch.DefaultWhenNewBlockSavedInConsensusStateFunc
	cargs.WhenNewBlockConfirmed = func(base.Height) {}
	cargs.IsEmptyProposalNoBlockFunc = func() bool { return false }
	cargs.IsEmptyProposalFunc = func(context.Context, base.ProposalSignFact) (bool, error) { return true, nil }
	cargs.VoteFunc = votef
	cargs.SuffrageVotingFindFunc = findExpels
	cargs.GetManifestFunc = getManifest

	jargs := isaacstates.NewJoiningHandlerArgs()
	jargs.NodeInConsensusNodesFunc = nt.nodeInConsensusNodes
	jargs.ProposalSelectFunc = n.sel.Select
	jargs.JoinMemberlistFunc = join
	jargs.LeaveMemberlistFunc = noop
	jargs.IntervalBroadcastBallot = interval
	jargs.WaitFirstVoteproof = waitstuck
	jargs.WaitPreparingINITBallot = waitprep
	jargs.MinWaitNextBlockINITBallot = minwait
	jargs.IsEmptyProposalNoBlockFunc = func() bool { return false }
	jargs.IsEmptyProposalFunc = func(context.Context, base.ProposalSignFact) (bool, error) { return true, nil }
	jargs.VoteFunc = votef
	jargs.SuffrageVotingFindFunc = findExpels
	jargs.LastManifestFunc = lastManifest

	bargs := isaacstates.NewBootingHandlerArgs()
	bargs.NodeInConsensusNodesFunc = nt.nodeInConsensusNodes
	bargs.LastManifestFunc = lastManifest

	sargs2 := isaacstates.NewSyncingHandlerArgs()
	sargs2.WaitStuckInterval = waitstuck
	sargs2.WaitPreparingINITBallot = waitprep
	sargs2.NodeInConsensusNodesFunc = nt.nodeInConsensusNodes
	sargs2.NewSyncerFunc = n.newSyncer
	sargs2.WhenReachedTopFunc = func(base.Height) { n.box.Count() }
	sargs2.JoinMemberlistFunc = join
	sargs2.LeaveMemberlistFunc = noop
	sargs2.WhenNewBlockSavedFunc = func(base.Height) {}

	brargs := isaacstates.NewBrokenHandlerArgs()
	brargs.LeaveMemberlistFunc = noop

	states.
		SetHandler(isaacstates.StateBroken, isaacstates.NewNewBrokenHandlerType(nt.networkID, local, brargs)).
		SetHandler(isaacstates.StateStopped, isaacstates.NewNewStoppedHandlerType(nt.networkID, local)).
		SetHandler(isaacstates.StateBooting, isaacstates.NewNewBootingHandlerType(nt.networkID, local, bargs)).
		SetHandler(isaacstates.StateJoining, isaacstates.NewNewJoiningHandlerType(nt.networkID, local, jargs)).
		SetHandler(isaacstates.StateConsensus, isaacstates.NewNewConsensusHandlerType(nt.networkID, local, cargs)).
		SetHandler(isaacstates.StateSyncing, isaacstates.NewNewSyncingHandlerType(nt.networkID, local, sargs2))

	return n, nil
}

func (n *Node) start(ctx context.Context) error {
	if err := n.box.Start(ctx); err != nil {
		return err
	}
	return n.states.Start(ctx)
}

func (n *Node) stop() {
	_ = n.states.Stop()
	_ = n.box.Stop()
	boxes.Delete(n.box)
}
