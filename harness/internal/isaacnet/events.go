// Package isaacnet is the multi-node binding of spec/ISAAC.tla (binding B): an in-process
// network of REAL isaacstates.States instances - real Ballotbox, real LastVoteproofsHandler,
// real DefaultBallotBroadcaster over a real TempPool (leveldb mem storage), real
// ProposalProcessors running the real DefaultProposalProcessor (only the BlockWriter below it is
// a stub: manifest = function of (proposal fact, previous manifest, height); Save appends to the
// node's in-memory chain), real ProposalMaker + real BaseProposalSelector, real Syncer (its
// transport functions read the peers' in-memory chains), really signed ballots made by the
// handlers themselves. Ballots travel through a network object (per-link FIFO goroutines,
// seeded random delays, partitions); a Byzantine node is a goroutine with a real key that sends
// different really-signed ballots for one stage point to different peers.
//
// Every step the real code makes visible is logged with one global atomic sequence number taken
// inside the callback; check/props/isaac.py turns the log into the trace spec/ISAACTrace.tla
// validates.
package isaacnet

import (
	"encoding/json"
	"fmt"
	"os"
	"sort"
	"sync"
	"sync/atomic"
	"time"
)

// Ev is one logged step. Hashes are replaced by small stable ids (first appearance order).
type Ev map[string]interface{}

type evLog struct {
	seq    uint64
	mu     sync.Mutex
	evs    []Ev
	start  time.Time
	idmu   sync.Mutex
	ids    map[string]string
	idn    map[string]int
	closed atomic.Bool
}

func newEvLog() *evLog {
	return &evLog{start: time.Now(), ids: map[string]string{}, idn: map[string]int{}}
}

func (l *evLog) next() uint64 { return atomic.AddUint64(&l.seq, 1) }

func (l *evLog) add(seq uint64, e Ev) {
	e["seq"] = seq
	e["t"] = time.Since(l.start).Milliseconds()
	l.mu.Lock()
	l.evs = append(l.evs, e)
	l.mu.Unlock()
}

// id maps a hash (or any long key) to kind+index; index by first appearance per kind.
func (l *evLog) id(kind, key string) string {
	l.idmu.Lock()
	defer l.idmu.Unlock()
	k := kind + "/" + key
	if v, ok := l.ids[k]; ok {
		return v
	}
	v := fmt.Sprintf("%s%d", kind, l.idn[kind])
	l.idn[kind]++
	l.ids[k] = v
	return v
}

// known reports whether the key already has an id (without assigning one).
func (l *evLog) known(kind, key string) bool {
	l.idmu.Lock()
	defer l.idmu.Unlock()
	_, ok := l.ids[kind+"/"+key]
	return ok
}

// write stores all events with seq < cut, ordered by seq.
func (l *evLog) write(path string, cut uint64, head Ev) error {
	l.mu.Lock()
	evs := make([]Ev, 0, len(l.evs))
	for _, e := range l.evs {
		if e["seq"].(uint64) < cut {
			evs = append(evs, e)
		}
	}
	l.mu.Unlock()
	sort.Slice(evs, func(i, j int) bool { return evs[i]["seq"].(uint64) < evs[j]["seq"].(uint64) })
	fd, err := os.Create(path)
	if err != nil {
		return err
	}
	defer fd.Close()
	enc := json.NewEncoder(fd)
	if err := enc.Encode(head); err != nil {
		return err
	}
	for _, e := range evs {
		if err := enc.Encode(e); err != nil {
			return err
		}
	}
	return nil
}
