package isaacnet

import (
	"context"
	"encoding/binary"
	"sync"
	"time"

	"github.com/pkg/errors"
	"github.com/spikeekips/mitum/base"
	"github.com/spikeekips/mitum/isaac"
	isaacdatabase "github.com/spikeekips/mitum/isaac/database"
	isaacstates "github.com/spikeekips/mitum/isaac/states"
	leveldbstorage "github.com/spikeekips/mitum/storage/leveldb"
	"github.com/spikeekips/mitum/util"
	"github.com/spikeekips/mitum/util/valuehash"
)

type blockEntry struct {
	manifest base.Manifest
	bm       base.BlockMap
	ivp      base.INITVoteproof
	avp      base.ACCEPTVoteproof
	round    uint64
	prop     util.Hash
}

// chain is a node's "database": block of height h at index h.
type chain struct {
	mu     sync.RWMutex
	blocks []blockEntry
}

func (c *chain) height() base.Height {
	c.mu.RLock()
	defer c.mu.RUnlock()
	return base.Height(int64(len(c.blocks)) - 1)
}

func (c *chain) at(h base.Height) (blockEntry, bool) {
	c.mu.RLock()
	defer c.mu.RUnlock()
	if h < 0 || int64(h) >= int64(len(c.blocks)) {
		return blockEntry{}, false
	}
	return c.blocks[h], true
}

func (c *chain) last() blockEntry {
	c.mu.RLock()
	defer c.mu.RUnlock()
	return c.blocks[len(c.blocks)-1]
}

// appendAt appends the block if it is exactly the next height; f runs under the lock (event logging),
// so that the order of Saved/Synced events of one node is the order of the chain.
func (c *chain) appendAt(e blockEntry, f func()) bool {
	c.mu.Lock()
	defer c.mu.Unlock()
	if e.manifest.Height() != base.Height(len(c.blocks)) {
		return false
	}
	c.blocks = append(c.blocks, e)
	f()
	return true
}

func manifestHash(proposal, previous util.Hash, height base.Height) util.Hash {
	b := make([]byte, 8)
	binary.BigEndian.PutUint64(b, uint64(height))
	return valuehash.NewSHA256(util.ConcatBytesSlice([]byte("verif-block"), proposal.Bytes(), previous.Bytes(), b))
}

func (nt *Net) makeGenesis() (blockEntry, error) {
	pr := valuehash.NewSHA256([]byte("verif-genesis-proposal"))
	m := base.NewDummyManifest(base.GenesisHeight, valuehash.NewSHA256([]byte("verif-genesis-block")))
	m.SetProposal(pr)
	fact := isaac.NewACCEPTBallotFact(base.RawPoint(0, 0), pr, m.Hash(), nil)
	sfs := make([]base.BallotSignFact, len(nt.locals))
	for i, l := range nt.locals {
		sf := isaac.NewACCEPTBallotSignFact(fact)
		if err := sf.NodeSign(l.Privatekey(), nt.networkID, l.Address()); err != nil {
			return blockEntry{}, err
		}
		sfs[i] = sf
	}
	avp := isaac.NewACCEPTVoteproof(base.RawPoint(0, 0))
	_ = avp.SetSignFacts(sfs).SetMajority(fact).SetThreshold(nt.threshold).Finish()
	if err := avp.IsValid(nt.networkID); err != nil {
		return blockEntry{}, errors.WithMessage(err, "genesis accept voteproof")
	}
	nt.log.id("m", m.Hash().String()) // m0 = genesis
	nt.firstSeenVoteproof(avp.ID())
	return blockEntry{manifest: m, bm: base.NewDummyBlockMap(m), avp: avp, prop: pr}, nil
}

// ------------------------------------------------------------------ block writer stub

// writer is the only stub below the real DefaultProposalProcessor: the manifest is a function of
// (proposal fact hash, previous manifest hash, height); Save appends the block to the chain.
type writer struct {
	n        *Node
	proposal base.ProposalSignFact
	manifest base.DummyManifest
	ivp      base.INITVoteproof
	avp      base.ACCEPTVoteproof
	made     bool
}

func (*writer) SetOperationsSize(uint64) {}

func (*writer) SetProcessResult(context.Context, uint64, util.Hash, util.Hash, bool, base.OperationProcessReasonError) error {
	return nil
}

func (*writer) SetStates(context.Context, uint64, []base.StateMergeValue, base.Operation) error {
	return nil
}

func (w *writer) Manifest(_ context.Context, previous base.Manifest) (base.Manifest, error) {
	if previous == nil {
		return nil, errors.Errorf("empty previous manifest")
	}
	height := previous.Height() + 1
	pf := w.proposal.Fact().Hash()
	nt := w.n.net
	mh := manifestHash(pf, previous.Hash(), height)
	// fault injection (scenario e): this node's block production diverges at this height - it
	// computes another manifest than everybody else, possibly late
	div, wait := nt.diverges(w.n.idx, height)
	if div {
		mh = valuehash.NewSHA256(util.ConcatBytesSlice([]byte("diverged"), mh.Bytes(), []byte(w.n.name)))
	}
	w.manifest = base.NewDummyManifest(height, mh)
	w.manifest.SetPrevious(previous.Hash())
	w.manifest.SetProposal(pf)
	w.made = true
	e := Ev{
		"a": "Processed", "h": height.Int64(), "r": w.proposal.Point().Round().Uint64(),
		"prop": nt.log.id("p", pf.String()), "blk": nt.log.id("m", w.manifest.Hash().String()),
		"prev": nt.log.id("m", previous.Hash().String()),
	}
	if div {
		e["div"] = true
	}
	w.n.emit(e)
	if wait > 0 {
		time.Sleep(wait)
	}
	return w.manifest, nil
}

func (w *writer) SetINITVoteproof(_ context.Context, vp base.INITVoteproof) error {
	w.ivp = vp
	return nil
}

func (w *writer) SetACCEPTVoteproof(_ context.Context, vp base.ACCEPTVoteproof) error {
	w.avp = vp
	return nil
}

func (w *writer) Save(context.Context) (base.BlockMap, error) {
	if !w.made {
		return nil, errors.Errorf("no manifest")
	}
	n := w.n
	bm := base.NewDummyBlockMapWithSign(w.manifest, n.local.Address(), n.local.Privatekey())
	e := blockEntry{manifest: w.manifest, bm: bm, ivp: w.ivp, avp: w.avp, round: w.proposal.Point().Round().Uint64(), prop: w.proposal.Fact().Hash()}
	var expelled []base.Address
	if x, ok := w.ivp.(base.HasExpels); ok {
		for _, op := range x.Expels() {
			expelled = append(expelled, op.ExpelFact().Node())
		}
	}
	if !n.chain.appendAt(e, func() {
		ev := Ev{"a": "Saved", "h": w.manifest.Height().Int64(), "blk": n.net.log.id("m", w.manifest.Hash().String())}
		if len(expelled) > 0 {
			n.net.noteExpelled(w.manifest.Height(), expelled)
			ex := []string{}
			for _, a := range expelled {
				if t := n.net.indexOf(a); t >= 0 {
					ex = append(ex, n.net.name(t))
				}
			}
			ev["ex"] = ex
		}
		n.emit(ev)
	}) {
		n.emit(Ev{"a": "SaveConflict", "h": w.manifest.Height().Int64(), "blk": n.net.log.id("m", w.manifest.Hash().String())})
		return nil, errors.Errorf("block of height %d can not be saved on a chain of height %d", w.manifest.Height(), n.chain.height())
	}
	return bm, nil
}

func (*writer) Cancel() error { return nil }

// ------------------------------------------------------------------ syncer transport

type memSyncPool struct {
	mu sync.Mutex
	m  map[base.Height]base.BlockMap
}

func (p *memSyncPool) BlockMap(h base.Height) (base.BlockMap, bool, error) {
	p.mu.Lock()
	defer p.mu.Unlock()
	m, ok := p.m[h]
	return m, ok, nil
}

func (p *memSyncPool) SetBlockMap(m base.BlockMap) error {
	p.mu.Lock()
	defer p.mu.Unlock()
	p.m[m.Manifest().Height()] = m
	return nil
}

func (*memSyncPool) Cancel() error { return nil }
func (*memSyncPool) Close() error  { return nil }

// newSyncer: what launch.newSyncerFunc does, over the peers' in-memory chains: a REAL
// isaacstates.Syncer; block maps, last block map and block bodies come from the most advanced
// reachable honest peer.
func (n *Node) newSyncer(height base.Height) (isaac.Syncer, error) {
	nt := n.net
	args := isaacstates.NewSyncerArgs()
	args.TempSyncPool = &memSyncPool{m: map[base.Height]base.BlockMap{}}
	args.LastBlockMapInterval = 150 * time.Millisecond
	args.LastBlockMapTimeout = 100 * time.Millisecond
	args.LastBlockMapFunc = func(_ context.Context, manifest util.Hash) (base.BlockMap, bool, error) {
		p := nt.bestPeer(n.idx, 0)
		if p == nil {
			return nil, false, nil
		}
		last := p.chain.last()
		if manifest != nil && last.manifest.Hash().Equal(manifest) {
			return nil, false, nil
		}
		return last.bm, true, nil
	}
	args.BlockMapFunc = func(ctx context.Context, h base.Height) (base.BlockMap, bool, error) {
		for { // launch.syncerBlockMapFunc retries until found
			if p := nt.bestPeer(n.idx, h); p != nil {
				if e, ok := p.chain.at(h); ok {
					return e.bm, true, nil
				}
			}
			select {
			case <-ctx.Done():
				return nil, false, ctx.Err()
			case <-time.After(30 * time.Millisecond):
			}
		}
	}
	args.NewImportBlocksFunc = func(ctx context.Context, from, to base.Height, _ int64,
		blockMapf func(context.Context, base.Height) (base.BlockMap, bool, error),
	) error {
		var last blockEntry
		for h := from; h <= to; h++ {
			bm, found, err := blockMapf(ctx, h)
			if err != nil || !found {
				return errors.Errorf("block map %d not found in temp sync pool", h)
			}
			var body blockEntry
			for {
				if p := nt.bestPeer(n.idx, h); p != nil {
					if e, ok := p.chain.at(h); ok && e.manifest.Hash().Equal(bm.Manifest().Hash()) {
						body = e
						break
					}
				}
				select {
				case <-ctx.Done():
					return ctx.Err()
				case <-time.After(30 * time.Millisecond):
				}
			}
			// the importer checks the block against its map and its voteproofs
			if body.avp == nil || body.avp.Result() != base.VoteResultMajority ||
				!body.avp.BallotMajority().NewBlock().Equal(bm.Manifest().Hash()) {
				return errors.Errorf("block %d: accept voteproof does not match manifest", h)
			}
			e := blockEntry{manifest: bm.Manifest(), bm: bm, ivp: body.ivp, avp: body.avp, round: body.round, prop: body.prop}
			if h <= n.chain.height() {
				continue
			}
			if !n.chain.appendAt(e, func() {
				n.emit(Ev{"a": "Synced", "h": h.Int64(), "blk": nt.log.id("m", bm.Manifest().Hash().String()),
					"vp": nt.log.id("v", body.avp.ID())})
			}) {
				return errors.Errorf("block %d can not be imported on a chain of height %d", h, n.chain.height())
			}
			last = e
		}
		if last.avp != nil { // launch.setLastVoteproofsfFromBlockReaderFunc
			if last.ivp != nil {
				_ = n.lvps.Set(last.ivp)
			}
			_ = n.lvps.Set(last.avp)
			n.emit(Ev{"a": "SyncedLast", "h": last.manifest.Height().Int64()})
		}
		return nil
	}

	prev := n.chain.last().bm
	syncer := isaacstates.NewSyncer(prev, args)
	n.emit(Ev{"a": "SyncerNew", "h": height.Int64()})
	go func() { _ = syncer.Add(height) }()
	return syncer, nil
}

// ------------------------------------------------------------------ encoder warm-up

var warmOnce sync.Once

// warmup encodes and decodes one object of every kind the pools will store (the JSON encoder
// compiles its codecs on first use, which takes hundreds of milliseconds - longer than the
// timing parameters of this network).
func (nt *Net) warmup() {
	warmOnce.Do(func() {
		encs, enc := encoders()
		pool, err := isaacdatabase.NewTempPool(leveldbstorage.NewMemStorage(), encs, enc, 0)
		if err != nil {
			return
		}
		defer pool.Close()
		l := nt.locals[0]
		id := nt.networkID
		prev := valuehash.NewSHA256([]byte("warm-prev"))
		blk := valuehash.NewSHA256([]byte("warm-blk"))
		signInit := func(f base.INITBallotFact) isaac.INITBallotSignFact {
			sf := isaac.NewINITBallotSignFact(f)
			_ = sf.NodeSign(l.Privatekey(), id, l.Address())
			return sf
		}
		signAccept := func(f base.ACCEPTBallotFact) isaac.ACCEPTBallotSignFact {
			sf := isaac.NewACCEPTBallotSignFact(f)
			_ = sf.NodeSign(l.Privatekey(), id, l.Address())
			return sf
		}
		for k := int64(0); k < 2; k++ {
			mk := isaac.NewProposalMaker(l, id, nil, pool, nil)
			pr, err := mk.Make(context.Background(), base.RawPoint(100+k, 0), prev)
			if err != nil {
				return
			}
			_, _, _ = pool.Proposal(pr.Fact().Hash())
			_, _, _ = pool.ProposalByPoint(base.RawPoint(100+k, 0), l.Address(), prev)
			_ = pr.IsValid(id)

			ifact := isaac.NewINITBallotFact(base.RawPoint(100+k, 0), prev, pr.Fact().Hash(), nil)
			afact := isaac.NewACCEPTBallotFact(base.RawPoint(100+k, 0), pr.Fact().Hash(), blk, nil)
			nfact := isaac.NewNotProcessedACCEPTBallotFact(base.RawPoint(100+k, 1), pr.Fact().Hash())

			ivp := isaac.NewINITVoteproof(base.RawPoint(100+k, 0))
			_ = ivp.SetSignFacts([]base.BallotSignFact{signInit(ifact)}).SetMajority(ifact).SetThreshold(nt.threshold).Finish()
			ivpd := isaac.NewINITVoteproof(base.RawPoint(100+k, 0))
			_ = ivpd.SetSignFacts([]base.BallotSignFact{signInit(ifact)}).SetThreshold(nt.threshold).Finish()
			avp := isaac.NewACCEPTVoteproof(base.RawPoint(100+k, 0))
			_ = avp.SetSignFacts([]base.BallotSignFact{signAccept(afact)}).SetMajority(afact).SetThreshold(nt.threshold).Finish()
			avpd := isaac.NewACCEPTVoteproof(base.RawPoint(100+k, 0))
			_ = avpd.SetSignFacts([]base.BallotSignFact{signAccept(afact)}).SetThreshold(nt.threshold).Finish()

			bls := []base.Ballot{
				isaac.NewINITBallot(avp, signInit(isaac.NewINITBallotFact(base.RawPoint(101+k, 0), blk, pr.Fact().Hash(), nil)), nil),
				isaac.NewACCEPTBallot(ivp, signAccept(afact), nil),
				isaac.NewINITBallot(ivpd, signInit(isaac.NewINITBallotFact(base.RawPoint(100+k, 1), prev, pr.Fact().Hash(), nil)), nil),
				isaac.NewACCEPTBallot(ivp, signAccept(nfact), nil),
				isaac.NewINITBallot(avpd, signInit(isaac.NewINITBallotFact(base.RawPoint(100+k, 2), prev, pr.Fact().Hash(), nil)), nil),
			}
			for _, bl := range bls {
				_, _ = pool.SetBallot(bl)
				_, _, _ = pool.Ballot(bl.Point().Point, bl.Point().Stage(), false)
				_ = bl.IsValid(id)
			}
		}
	})
}
