package isaacnet

import (
	"encoding/json"
	"fmt"
	"math/rand"
	"os"
	"strconv"
	"strings"
	"sync"
	"time"

	"github.com/spikeekips/mitum/base"

	"mitumverif/internal/h"
)

func init() { h.Register("ISAAC", run) }

// Config of one run.
type Config struct {
	Scenario      string        `json:"scenario"` // a | b | c | d | e
	N             int           `json:"n"`
	Byz           []int         `json:"byz"`
	Seed          int64         `json:"seed"`
	Target        int64         `json:"target"` // stop when every honest node saved this height
	Deadline      time.Duration `json:"deadline"`
	ByzEquivocate bool          `json:"byz_equivocate"`
	ByzProposals  bool          `json:"byz_proposals"`
	Out           string        `json:"out"`
}

// Summary is the head line of the event file.
type Summary struct {
	Config    Config              `json:"config"`
	Nodes     []string            `json:"nodes"`
	ByzNodes  []string            `json:"byznodes"`
	T10       int                 `json:"t10"`
	Heights   map[string]int64    `json:"heights"`
	States    map[string][]string `json:"states"`
	Final     map[string]string   `json:"final"`
	Reached   bool                `json:"reached"`
	WallMs    int64               `json:"wall_ms"`
	Delivered int64               `json:"delivered"`
	Dropped   int64               `json:"dropped"`
	Invalid   int64               `json:"invalid"`
	NotVoted  int64               `json:"notvoted"`
	ByzSent   int                 `json:"byzsent"`
	Faults    []string            `json:"faults"`
	Cut       []string            `json:"cut"`
	Events    int                 `json:"events"`
}

func scenarioConfig(sc string, seed int64) Config {
	c := Config{Scenario: sc, Seed: seed, Target: 6, Deadline: 9 * time.Second}
	switch sc {
	case "a":
		c.N = 3 + int(seed%3)
	case "b":
		c.N = 4
		c.Target = 9
		c.Deadline = 16 * time.Second
	case "c":
		c.N = 4
		c.Deadline = 14 * time.Second
	case "x":
		// one member is cut off for good; the others (all of them are needed: n=3) vote it out
		c.N = 3
		if seed%2 == 0 {
			c.N = 4 // two of four cut off
		}
		c.Target = 5
		c.Deadline = 20 * time.Second
	case "e":
		c.N = 4
		c.Target = 7
		c.Deadline = 14 * time.Second
	case "d":
		c.N = 4
		if seed%3 == 2 {
			c.N = 5
		}
		c.Byz = []int{c.N - 1}
		c.ByzEquivocate = true
		c.ByzProposals = seed%2 == 0
		c.Deadline = 14 * time.Second
	}
	return c
}

// runOne builds the network, applies the scenario's fault schedule, runs until every honest node
// reached the target height (or the deadline) and writes the event file.
func runOne(cfg Config) (*Summary, error) {
	t0 := time.Now()
	nt, err := newNet(cfg)
	if err != nil {
		return nil, err
	}
	rng := rand.New(rand.NewSource(cfg.Seed*7919 + 17))
	var faults []string
	var fmu sync.Mutex
	note := func(s string) {
		fmu.Lock()
		faults = append(faults, fmt.Sprintf("%dms %s", time.Since(t0).Milliseconds(), s))
		fmu.Unlock()
	}
	var honest []int
	for i := 0; i < cfg.N; i++ {
		if !nt.isByz(i) {
			honest = append(honest, i)
		}
	}

	var healed = true
	var victim = -1
	var cutoff []int
	switch cfg.Scenario {
	case "b":
		// cut the victim's gossip layer once every node has saved height 2; heal it when the others
		// are at least 3 blocks ahead (or after 5 s)
		victim = honest[rng.Intn(len(honest))]
		healed = false
		nt.wg.Add(1)
		go func() {
			defer nt.wg.Done()
			heights := func() (int64, int64) { // victim, max of the others
				var v, o int64
				for _, n := range nt.nodes {
					if n == nil {
						continue
					}
					hh := n.chain.height().Int64()
					if n.idx == victim {
						v = hh
					} else if hh > o {
						o = hh
					}
				}
				return v, o
			}
			wait := func(cond func() bool, max time.Duration) bool {
				end := time.Now().Add(max)
				for !cond() {
					select {
					case <-nt.ctx.Done():
						return false
					case <-time.After(20 * time.Millisecond):
					}
					if time.Now().After(end) {
						return true
					}
				}
				return true
			}
			if !wait(func() bool { v, _ := heights(); return v >= 2 }, cfg.Deadline) {
				return
			}
			select {
			case <-nt.ctx.Done():
				return
			case <-time.After(time.Duration(rng.Intn(300)) * time.Millisecond):
			}
			nt.isolated[victim].Store(true)
			note(fmt.Sprintf("isolate %s", nt.name(victim)))
			if !wait(func() bool { v, o := heights(); return o >= v+3 }, 5*time.Second) {
				return
			}
			nt.isolated[victim].Store(false)
			v, o := heights()
			note(fmt.Sprintf("heal %s at height %d, others %d", nt.name(victim), v, o))
			fmu.Lock()
			healed = true
			fmu.Unlock()
		}()
	case "x":
		nt.fullCut.Store(true)
		nvict := cfg.N - 2
		perm := rng.Perm(len(honest))
		var victims []int
		for k := 0; k < nvict; k++ {
			victims = append(victims, honest[perm[k]])
		}
		cutoff = victims
		nt.wg.Add(1)
		go func() {
			defer nt.wg.Done()
			for {
				minh := int64(1 << 40)
				for _, n := range nt.nodes {
					if n != nil && n.chain.height().Int64() < minh {
						minh = n.chain.height().Int64()
					}
				}
				if minh >= 2 {
					break
				}
				select {
				case <-nt.ctx.Done():
					return
				case <-time.After(20 * time.Millisecond):
				}
			}
			for _, v := range victims {
				nt.isolated[v].Store(true)
				note(fmt.Sprintf("cut off %s for good", nt.name(v)))
			}
		}()
	case "e":
		// one honest node's block production diverges at two heights (C10 broken at that node): it must
		// not save its own block, but go through SYNCING and take the agreed one (C11)
		x := honest[rng.Intn(len(honest))]
		nt.diverge = map[int]map[int64]time.Duration{x: {}}
		for _, hh := range []int64{2 + int64(rng.Intn(2)), 4 + int64(rng.Intn(2))} {
			nt.diverge[x][hh] = time.Duration(rng.Intn(2)*150) * time.Millisecond
		}
		victim = x
		note(fmt.Sprintf("diverge %s at %v", nt.name(x), nt.diverge[x]))
	case "c":
		slow := honest[rng.Intn(len(honest))]
		nt.extraOut[slow].Store(int64(120 + rng.Intn(130)))
		note(fmt.Sprintf("slow %s +%dms", nt.name(slow), nt.extraOut[slow].Load()))
		// the proposer of some round-0 points is unreachable (for proposal requests) from two nodes
		blockedHeights := map[int64][2]int{}
		for hh := int64(2); hh <= cfg.Target+4; hh++ {
			if rng.Intn(2) == 0 {
				p := rng.Perm(cfg.N)
				blockedHeights[hh] = [2]int{p[0], p[1]}
			}
		}
		note(fmt.Sprintf("proposer unreachable at %v", blockedHeights))
		nt.reqBlock = func(from, to int, point base.Point) bool {
			if point.Round() != 0 {
				return false
			}
			b, ok := blockedHeights[point.Height().Int64()]
			return ok && to != b[0] && to != b[1] && (from == b[0] || from == b[1])
		}
	}

	nt.startLinks()
	for _, n := range nt.nodes {
		if n == nil {
			continue
		}
		if err := n.start(nt.ctx); err != nil {
			return nil, err
		}
	}

	deadline := time.After(cfg.Deadline)
	tick := time.NewTicker(50 * time.Millisecond)
	defer tick.Stop()
	reached := false
loop:
	for {
		select {
		case <-deadline:
			break loop
		case <-tick.C:
			ok := true
			for _, n := range nt.nodes {
				iscut := false
				for _, v := range cutoff {
					if n != nil && n.idx == v {
						iscut = true
					}
				}
				if n != nil && !iscut && n.chain.height().Int64() < cfg.Target {
					ok = false
				}
			}
			fmu.Lock()
			hl := healed
			fmu.Unlock()
			if ok && hl {
				reached = true
				break loop
			}
		}
	}

	// stop: no new events after the cut; wait for Ballotbox.Vote calls in flight
	nt.cancel()
	for _, n := range nt.nodes {
		if n != nil {
			n.stop()
		}
	}
	for end := time.Now().Add(2 * time.Second); nt.calls.Load() > 0 && time.Now().Before(end); {
		time.Sleep(10 * time.Millisecond)
	}
	time.Sleep(100 * time.Millisecond)
	for end := time.Now().Add(2 * time.Second); nt.calls.Load() > 0 && time.Now().Before(end); {
		time.Sleep(10 * time.Millisecond)
	}
	cut := nt.log.next()
	for end := time.Now().Add(time.Second); nt.calls.Load() > 0 && time.Now().Before(end); {
		time.Sleep(10 * time.Millisecond)
	}

	s := &Summary{Config: cfg, T10: 670, Heights: map[string]int64{}, States: map[string][]string{}, Final: map[string]string{},
		Reached: reached, WallMs: time.Since(t0).Milliseconds(), Faults: faults}
	for i := 0; i < cfg.N; i++ {
		s.Nodes = append(s.Nodes, nt.name(i))
		if b, ok := nt.byz[i]; ok {
			s.ByzNodes = append(s.ByzNodes, nt.name(i))
			s.ByzSent += b.sent
		}
	}
	for _, n := range nt.nodes {
		if n == nil {
			continue
		}
		s.Heights[n.name] = n.chain.height().Int64()
		n.visited.Range(func(k, _ interface{}) bool {
			s.States[n.name] = append(s.States[n.name], k.(string))
			return true
		})
	}
	s.Delivered, s.Dropped, s.Invalid, s.NotVoted = nt.stat.delivered.Load(), nt.stat.dropped.Load(), nt.stat.invalid.Load(), nt.stat.votedFalse.Load()
	nt.log.mu.Lock()
	s.Events = len(nt.log.evs)
	nt.log.mu.Unlock()
	if victim >= 0 {
		s.Final["victim"] = nt.name(victim)
	}
	for _, v := range cutoff {
		s.Cut = append(s.Cut, nt.name(v))
	}
	var head Ev
	b, _ := json.Marshal(s)
	_ = json.Unmarshal(b, &head)
	head["a"] = "Run"
	if err := nt.log.write(cfg.Out, cut, head); err != nil {
		return nil, err
	}
	return s, nil
}

// run: vh-isaac ISAAC run --scenario a --seed 1 --out f.ndjson [--n N --target H --deadline 10s]
//
//	vh-isaac ISAAC batch --runs a:1,b:2,... --par 4 --outdir dir
func run(args []string) error {
	if len(args) < 1 {
		return fmt.Errorf("usage: ISAAC run|batch ...")
	}
	fl := h.Flags(args[1:])
	switch args[0] {
	case "run":
		seed, _ := strconv.ParseInt(fl["seed"], 10, 64)
		cfg := scenarioConfig(fl["scenario"], seed)
		applyFlags(&cfg, fl)
		cfg.Out = fl["out"]
		s, err := runOne(cfg)
		if err != nil {
			return err
		}
		b, _ := json.Marshal(s)
		fmt.Println(string(b))
		return nil
	case "batch":
		par, _ := strconv.Atoi(fl["par"])
		if par < 1 {
			par = 4
		}
		var cfgs []Config
		for k, r := range strings.Split(fl["runs"], ",") {
			p := strings.SplitN(r, ":", 2)
			if len(p) != 2 {
				return fmt.Errorf("bad run %q", r)
			}
			seed, _ := strconv.ParseInt(p[1], 10, 64)
			cfg := scenarioConfig(p[0], seed)
			applyFlags(&cfg, fl)
			cfg.Out = fmt.Sprintf("%s/run%03d-%s-%d.ndjson", fl["outdir"], k, p[0], seed)
			cfgs = append(cfgs, cfg)
		}
		if err := os.MkdirAll(fl["outdir"], 0o755); err != nil {
			return err
		}
		sem := make(chan struct{}, par)
		var wg sync.WaitGroup
		var mu sync.Mutex
		var firstErr error
		for i := range cfgs {
			wg.Add(1)
			sem <- struct{}{}
			go func(cfg Config) {
				defer wg.Done()
				defer func() { <-sem }()
				var s *Summary
				var err error
				if p := h.Catch(func() { s, err = runOne(cfg) }); p != "" {
					err = fmt.Errorf("%s", p)
				}
				mu.Lock()
				defer mu.Unlock()
				if err != nil {
					if firstErr == nil {
						firstErr = fmt.Errorf("run %s/%d: %w", cfg.Scenario, cfg.Seed, err)
					}
					return
				}
				b, _ := json.Marshal(s)
				fmt.Println(string(b))
			}(cfgs[i])
		}
		wg.Wait()
		return firstErr
	default:
		return fmt.Errorf("unknown mode %q", args[0])
	}
}

func applyFlags(cfg *Config, fl map[string]string) {
	if v, ok := fl["n"]; ok {
		cfg.N, _ = strconv.Atoi(v)
		if len(cfg.Byz) > 0 {
			cfg.Byz = []int{cfg.N - 1}
		}
	}
	if v, ok := fl["target"]; ok {
		cfg.Target, _ = strconv.ParseInt(v, 10, 64)
	}
	if v, ok := fl["deadline"]; ok {
		if d, err := time.ParseDuration(v); err == nil {
			cfg.Deadline = d
		}
	}
}
