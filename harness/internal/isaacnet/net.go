package isaacnet

import (
	"context"
	"fmt"
	"math/rand"
	"os"
	"sort"
	"sync"
	"sync/atomic"
	"time"

	"github.com/pkg/errors"
	"github.com/spikeekips/mitum/base"
	"github.com/spikeekips/mitum/isaac"
	isaacstates "github.com/spikeekips/mitum/isaac/states"
	"github.com/spikeekips/mitum/launch"
	"github.com/spikeekips/mitum/util"
	"github.com/spikeekips/mitum/util/encoder"
	jsonenc "github.com/spikeekips/mitum/util/encoder/json"
	"github.com/spikeekips/mitum/util/valuehash"
)

// timing knobs (the real defaults are seconds; the handlers take them as functions)
const (
	intervalBroadcastBallot    = 50 * time.Millisecond
	waitPreparingINITBallot    = 100 * time.Millisecond
	minWaitNextBlockINITBallot = 30 * time.Millisecond
	ballotboxInterval          = 100 * time.Millisecond
	proposalTimeoutRequest     = 100 * time.Millisecond
	proposalRequestInterval    = 20 * time.Millisecond
	proposalMinProposerWait    = 200 * time.Millisecond
	stuckWait                  = 400 * time.Millisecond // BallotStuckWait
	stuckInterval              = 100 * time.Millisecond
	stuckResolveAfter          = 300 * time.Millisecond // BallotStuckResolveAfter
)

var (
	encsOnce sync.Once
	gEncs    *encoder.Encoders
	gEnc     encoder.Encoder
)

func encoders() (*encoder.Encoders, encoder.Encoder) {
	encsOnce.Do(func() {
		gEnc = jsonenc.NewEncoder()
		gEncs = encoder.NewEncoders(gEnc, gEnc)
		if err := launch.LoadHinters(gEncs); err != nil {
			panic(err)
		}
	})
	return gEncs, gEnc
}

// the ballot box hook is process-global: dispatch by box
var (
	hookOnce sync.Once
	boxes    sync.Map // *isaacstates.Ballotbox -> *Node
)

func installHook() {
	hookOnce.Do(func() {
		isaacstates.VerifSetBoxVoteproofHook(func(box *isaacstates.Ballotbox, vp base.Voteproof) {
			if n, ok := boxes.Load(box); ok {
				n.(*Node).onBoxVoteproof(vp)
			}
		})
	})
}

type packet struct {
	bl base.Ballot
	at time.Time
}

type link struct {
	ch  chan packet
	mu  sync.Mutex
	rng *rand.Rand
}

// Net is one in-process network (one run).
type Net struct {
	cfg        Config
	log        *evLog
	networkID  base.NetworkID
	threshold  base.Threshold
	suf        base.Suffrage
	locals     []base.LocalNode
	names      []string
	nodes      []*Node // nil at Byzantine indices
	byz        map[int]*Byz
	links      [][]*link
	ctx        context.Context
	cancel     func()
	wg         sync.WaitGroup
	calls      atomic.Int64 // outstanding Ballotbox.Vote calls
	isolated   []atomic.Bool
	extraOut   []atomic.Int64 // extra delay (ms) of a node's outgoing ballots
	reqBlock   func(from, to int, point base.Point) bool
	diverge    map[int]map[int64]time.Duration // node -> height -> extra processing time
	validmu    sync.Mutex
	valid      map[string]bool
	vpmu       sync.Mutex
	vpseen     map[string]bool
	genesis    blockEntry
	sufmu      sync.Mutex
	expelled   map[base.Height][]base.Address
	expelFacts map[string]string
	fullCut    atomic.Bool // scenario x: the cut also covers the stream layer
	stat       struct {
		delivered, dropped, invalid, votedFalse atomic.Int64
	}
}

func (nt *Net) name(i int) string { return nt.names[i] }

func (nt *Net) indexOf(a base.Address) int {
	for i := range nt.locals {
		if nt.locals[i].Address().Equal(a) {
			return i
		}
	}
	return -1
}

func (nt *Net) diverges(i int, h base.Height) (bool, time.Duration) {
	m, ok := nt.diverge[i]
	if !ok {
		return false, 0
	}
	d, ok := m[h.Int64()]
	return ok, d
}

func (nt *Net) isByz(i int) bool { _, ok := nt.byz[i]; return ok }

// sufAt: the suffrage after block h = the genesis suffrage without the members expelled by the blocks up
// to h (scenario x; the writer stub records the expels of a saved block)
func (nt *Net) sufAt(h base.Height) base.Suffrage {
	nt.sufmu.Lock()
	defer nt.sufmu.Unlock()
	if len(nt.expelled) < 1 {
		return nt.suf
	}
	var nodes []base.Node
	for _, n := range nt.suf.Nodes() {
		out := false
		for eh, addrs := range nt.expelled {
			if eh > h {
				continue
			}
			for _, a := range addrs {
				if a.Equal(n.Address()) {
					out = true
				}
			}
		}
		if !out {
			nodes = append(nodes, n)
		}
	}
	suf, err := isaac.NewSuffrage(nodes)
	if err != nil {
		return nt.suf
	}
	return suf
}

func (nt *Net) noteExpelled(h base.Height, addrs []base.Address) {
	nt.sufmu.Lock()
	defer nt.sufmu.Unlock()
	if _, ok := nt.expelled[h]; !ok {
		nt.expelled[h] = addrs
	}
}

func (nt *Net) getSuffrage(h base.Height) (base.Suffrage, bool, error) { return nt.sufAt(h), true, nil }

func (nt *Net) nodeInConsensusNodes(node base.Node, h base.Height) (base.Suffrage, bool, error) {
	suf := nt.sufAt(h)
	return suf, suf.ExistsPublickey(node.Address(), node.Publickey()), nil
}

// reachable: may a ballot travel between i and j now (the gossip layer)
func (nt *Net) reachable(i, j int) bool {
	return !nt.isolated[i].Load() && !nt.isolated[j].Load()
}

// reachableReq: may a request (proposal, block map, block) travel between i and j now (the stream
// layer); in scenario b only the gossip layer of the victim is cut, so that the others keep
// getting the victim's proposals and go on without its ballots
func (nt *Net) reachableReq(i, j int) bool {
	return (nt.cfg.Scenario == "b" && !nt.fullCut.Load()) || nt.reachable(i, j)
}

func newNet(cfg Config) (*Net, error) {
	installHook()
	nt := &Net{
		cfg:        cfg,
		log:        newEvLog(),
		networkID:  base.NetworkID(fmt.Sprintf("verif-isaac-%d", cfg.Seed)),
		threshold:  base.Threshold(67),
		byz:        map[int]*Byz{},
		valid:      map[string]bool{},
		vpseen:     map[string]bool{},
		expelled:   map[base.Height][]base.Address{},
		expelFacts: map[string]string{},
	}
	nt.ctx, nt.cancel = context.WithCancel(context.Background())
	rng := rand.New(rand.NewSource(cfg.Seed))

	nodes := make([]base.Node, cfg.N)
	for i := 0; i < cfg.N; i++ {
		priv, err := base.NewMPrivatekeyFromSeed(fmt.Sprintf("verif-isaac-key-%d-%d-%032d", cfg.Seed, i, i))
		if err != nil {
			return nil, err
		}
		l := isaac.NewLocalNode(priv, base.NewStringAddress(fmt.Sprintf("node%d", i+1)))
		nt.locals = append(nt.locals, l)
		nt.names = append(nt.names, fmt.Sprintf("n%d", i+1))
		nodes[i] = l
	}
	suf, err := isaac.NewSuffrage(nodes)
	if err != nil {
		return nil, err
	}
	nt.suf = suf
	nt.isolated = make([]atomic.Bool, cfg.N)
	nt.extraOut = make([]atomic.Int64, cfg.N)

	if nt.genesis, err = nt.makeGenesis(); err != nil {
		return nil, err
	}

	nt.warmup()

	nt.links = make([][]*link, cfg.N)
	for i := 0; i < cfg.N; i++ {
		nt.links[i] = make([]*link, cfg.N)
		for j := 0; j < cfg.N; j++ {
			if i == j {
				continue
			}
			nt.links[i][j] = &link{ch: make(chan packet, 1<<12), rng: rand.New(rand.NewSource(rng.Int63()))}
		}
	}

	nt.nodes = make([]*Node, cfg.N)
	for i := 0; i < cfg.N; i++ {
		isbyz := false
		for _, b := range cfg.Byz {
			if b == i {
				isbyz = true
			}
		}
		if isbyz {
			b, err := newByz(nt, i, rand.New(rand.NewSource(rng.Int63())))
			if err != nil {
				return nil, err
			}
			nt.byz[i] = b
			continue
		}
		n, err := newNode(nt, i)
		if err != nil {
			return nil, errors.WithMessagef(err, "node %d", i)
		}
		nt.nodes[i] = n
	}
	return nt, nil
}

func (nt *Net) startLinks() {
	for i := range nt.links {
		for j := range nt.links[i] {
			if nt.links[i][j] == nil {
				continue
			}
			nt.wg.Add(1)
			go nt.runLink(i, j)
		}
	}
}

// runLink delivers the packets of one directed link in FIFO order, each after its delay.
func (nt *Net) runLink(from, to int) {
	defer nt.wg.Done()
	lk := nt.links[from][to]
	for {
		select {
		case <-nt.ctx.Done():
			return
		case p := <-lk.ch:
			if d := time.Until(p.at); d > 0 {
				select {
				case <-nt.ctx.Done():
					return
				case <-time.After(d):
				}
			}
			if !nt.reachable(from, to) {
				nt.stat.dropped.Add(1)
				continue
			}
			nt.deliver(from, to, p.bl)
		}
	}
}

// send puts one ballot on the link from -> to (delay 0..20 ms, plus the sender's extra delay).
func (nt *Net) send(from, to int, bl base.Ballot) {
	lk := nt.links[from][to]
	if lk == nil {
		return
	}
	lk.mu.Lock() // FIFO: the order on the link is the order of the send calls
	defer lk.mu.Unlock()
	d := time.Duration(lk.rng.Int63n(int64(20*time.Millisecond))) + time.Duration(nt.extraOut[from].Load())*time.Millisecond
	select {
	case lk.ch <- packet{bl: bl, at: time.Now().Add(d)}:
	default:
		nt.stat.dropped.Add(1)
	}
}

// broadcast is the broadcast function of an honest node's DefaultBallotBroadcaster.
func (nt *Net) broadcast(from int, bl base.Ballot) {
	for j := 0; j < nt.cfg.N; j++ {
		if j != from {
			nt.send(from, j, bl)
		}
	}
}

func ballotKey(bl base.Ballot) string { return valuehash.NewSHA256(bl.HashBytes()).String() }

// deliver: what launch's memberlist delegate does with an incoming ballot: IsValid, then Ballotbox.Vote.
func (nt *Net) deliver(from, to int, bl base.Ballot) {
	if b, ok := nt.byz[to]; ok {
		b.onBallot(bl)
		return
	}
	n := nt.nodes[to]
	if n == nil {
		return
	}
	k := ballotKey(bl)
	nt.validmu.Lock()
	ok, found := nt.valid[k]
	nt.validmu.Unlock()
	if !found {
		ok = bl.IsValid(nt.networkID) == nil
		nt.validmu.Lock()
		nt.valid[k] = ok
		nt.validmu.Unlock()
	}
	if !ok {
		nt.stat.invalid.Add(1)
		return
	}
	nt.stat.delivered.Add(1)
	_, _ = n.vote(bl)
}

// requestProposal: node `from` asks node `to` (the proposer) for its proposal of the point.
func (nt *Net) requestProposal(ctx context.Context, from, to int, point base.Point, prev util.Hash) (base.ProposalSignFact, bool, error) {
	if to < 0 || !nt.reachableReq(from, to) || (nt.reqBlock != nil && nt.reqBlock(from, to, point)) {
		return nil, false, errors.Errorf("unreachable")
	}
	var pr base.ProposalSignFact
	var err error
	if os.Getenv("ISAACNET_DEBUG") != "" {
		t0 := time.Now()
		defer func() {
			fmt.Fprintf(os.Stderr, "req %d->%d %v took %v err=%v\n", from, to, point, time.Since(t0), err)
		}()
	}
	if b, ok := nt.byz[to]; ok {
		pr, err = b.serveProposal(ctx, from, point, prev)
	} else {
		pr, err = nt.nodes[to].serveProposal(ctx, point, prev)
	}
	switch {
	case err != nil:
		return nil, false, err
	case pr == nil:
		return nil, false, nil
	}
	// isExpectedValidProposal of isaac.ConcurrentRequestProposal
	if pr.IsValid(nt.networkID) != nil || !pr.Point().Equal(point) || !pr.ProposalFact().Proposer().Equal(nt.locals[to].Address()) {
		return nil, false, nil
	}
	return pr, true, nil
}

// fetchProposal: proposal by fact hash from any reachable peer's pool.
func (nt *Net) fetchProposal(from int, h util.Hash) (base.ProposalSignFact, bool) {
	for j := 0; j < nt.cfg.N; j++ {
		if j == from || !nt.reachableReq(from, j) {
			continue
		}
		if b, ok := nt.byz[j]; ok {
			if pr, found := b.proposal(h); found {
				return pr, true
			}
			continue
		}
		if pr, found, err := nt.nodes[j].pool.Proposal(h); err == nil && found {
			return pr, true
		}
	}
	return nil, false
}

// bestPeer: the reachable honest peer with the longest chain.
func (nt *Net) bestPeer(from int, atleast base.Height) *Node {
	var best *Node
	for j := range nt.nodes {
		p := nt.nodes[j]
		if p == nil || j == from || !nt.reachableReq(from, j) {
			continue
		}
		if hh := p.chain.height(); hh >= atleast && (best == nil || hh > best.chain.height()) {
			best = p
		}
	}
	return best
}

// firstSeenVoteproof: true when this voteproof object (by id) has not been emitted by any ballot box yet.
func (nt *Net) firstSeenVoteproof(id string) bool {
	nt.vpmu.Lock()
	defer nt.vpmu.Unlock()
	if nt.vpseen[id] {
		return false
	}
	nt.vpseen[id] = true
	return true
}

func stageName(s base.Stage) string {
	switch s {
	case base.StageINIT:
		return "INIT"
	case base.StageACCEPT:
		return "ACCEPT"
	default:
		return s.String()
	}
}

// factFields describes a ballot fact with small ids.
func (nt *Net) factFields(e Ev, fact base.BallotFact) {
	e["fact"] = nt.log.id("f", fact.Hash().String())
	nt.factExpels(e, fact)
	switch t := fact.(type) {
	case isaac.SuffrageConfirmBallotFact:
		e["kind"] = "sc"
		e["prev"] = nt.log.id("m", t.PreviousBlock().String())
		e["prop"] = nt.log.id("p", t.Proposal().String())
	case isaac.EmptyProposalINITBallotFact:
		e["kind"] = "emptyproposal"
		e["prev"] = nt.log.id("m", t.PreviousBlock().String())
		e["prop"] = nt.log.id("p", t.Proposal().String())
	case base.INITBallotFact:
		e["kind"] = "init"
		e["prev"] = nt.log.id("m", t.PreviousBlock().String())
		e["prop"] = nt.log.id("p", t.Proposal().String())
		if w, ok := fact.(isaac.ExpelBallotFact); ok && len(w.ExpelFacts()) > 0 {
			e["kind"] = "init+expels"
		}
	case isaac.NotProcessedACCEPTBallotFact:
		e["kind"] = "notprocessed"
		e["prop"] = nt.log.id("p", t.Proposal().String())
		e["blk"] = nt.log.id("x", t.NewBlock().String())
	case isaac.EmptyOperationsACCEPTBallotFact:
		e["kind"] = "emptyoperations"
		e["prop"] = nt.log.id("p", t.Proposal().String())
		e["blk"] = nt.log.id("x", t.NewBlock().String())
	case base.ACCEPTBallotFact:
		e["kind"] = "accept"
		e["prop"] = nt.log.id("p", t.Proposal().String())
		e["blk"] = nt.log.id("m", t.NewBlock().String())
	default:
		e["kind"] = fmt.Sprintf("%T", fact)
	}
}

// expelFields: the members whose expel operations the ballot / voteproof carries
func (nt *Net) expelFields(e Ev, v interface{}) {
	w, ok := v.(base.HasExpels)
	if !ok {
		return
	}
	ops := w.Expels()
	if len(ops) < 1 {
		return
	}
	ex := []string{}
	signs := map[string][]string{}
	for _, op := range ops {
		t := nt.indexOf(op.ExpelFact().Node())
		if t < 0 {
			continue
		}
		ex = append(ex, nt.name(t))
		for _, sg := range op.NodeSigns() {
			if j := nt.indexOf(sg.Node()); j >= 0 {
				signs[nt.name(t)] = append(signs[nt.name(t)], nt.name(j))
			}
		}
	}
	sort.Strings(ex)
	e["ex"] = ex
	e["exsigns"] = signs
}

// factExpels: the members the expel facts of a ballot fact name
func (nt *Net) factExpels(e Ev, fact base.BallotFact) {
	w, ok := fact.(isaac.ExpelBallotFact)
	if !ok || len(w.ExpelFacts()) < 1 {
		return
	}
	fx := []string{}
	for _, h := range w.ExpelFacts() {
		fx = append(fx, nt.expelFactName(h))
	}
	sort.Strings(fx)
	e["fx"] = fx
}

func (nt *Net) expelFactName(h util.Hash) string {
	nt.sufmu.Lock()
	defer nt.sufmu.Unlock()
	if n, ok := nt.expelFacts[h.String()]; ok {
		return n
	}
	return "?" + nt.log.id("xf", h.String())
}

func (nt *Net) noteExpelFact(op base.SuffrageExpelOperation) {
	t := nt.indexOf(op.ExpelFact().Node())
	if t < 0 {
		return
	}
	nt.sufmu.Lock()
	nt.expelFacts[op.ExpelFact().Hash().String()] = nt.name(t)
	nt.sufmu.Unlock()
}

func (nt *Net) pointFields(e Ev, sp base.StagePoint) {
	e["h"] = sp.Height().Int64()
	e["r"] = sp.Round().Uint64()
	e["s"] = stageName(sp.Stage())
}

// noteBcast logs the first appearance of a ballot (node, stage point, fact) on the wire.
func (nt *Net) bcastEvent(seq uint64, from int, bl base.Ballot, byz bool) {
	e := Ev{"a": "Bcast", "n": nt.name(from)}
	if byz {
		e["byz"] = true
	}
	nt.pointFields(e, bl.Point())
	nt.factFields(e, bl.SignFact().Fact().(base.BallotFact)) //nolint:forcetypeassert //...
	if vp := bl.Voteproof(); vp != nil {
		e["vp"] = nt.log.id("v", vp.ID())
	}
	nt.expelFields(e, bl)
	nt.log.add(seq, e)
}
