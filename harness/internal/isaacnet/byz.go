package isaacnet

import (
	"context"
	"math/rand"
	"sync"

	"github.com/spikeekips/mitum/base"
	"github.com/spikeekips/mitum/isaac"
	isaacdatabase "github.com/spikeekips/mitum/isaac/database"
	leveldbstorage "github.com/spikeekips/mitum/storage/leveldb"
	"github.com/spikeekips/mitum/util"
	"github.com/spikeekips/mitum/util/valuehash"
)

// Byz is a Byzantine suffrage member: a goroutine-less reactor holding a REAL key. For the first
// honest ballot it sees of a stage point it really signs two ballots of that stage point with
// different facts (INIT: the honest proposal / its own second proposal; ACCEPT: the honest new
// block / a made-up block) - both carrying the voteproof of the honest ballot, so both pass
// Ballot.IsValid - and sends one to some peers and the other to the rest. As a proposer it hands
// out two different really-signed proposals for one point.
type Byz struct {
	net    *Net
	idx    int
	local  base.LocalNode
	rng    *rand.Rand
	pools  [2]*isaacdatabase.TempPool
	makers [2]*isaac.ProposalMaker
	mu     sync.Mutex
	seen   map[string]bool
	sent   int
}

type byzPool struct {
	*isaacdatabase.TempPool
	nt *Net
}

func (p *byzPool) SetProposal(pr base.ProposalSignFact) (bool, error) {
	p.nt.noteProposal(pr)
	return p.TempPool.SetProposal(pr)
}

func newByz(nt *Net, idx int, rng *rand.Rand) (*Byz, error) {
	encs, enc := encoders()
	b := &Byz{net: nt, idx: idx, local: nt.locals[idx], rng: rng, seen: map[string]bool{}}
	for k := 0; k < 2; k++ {
		pool, err := isaacdatabase.NewTempPool(leveldbstorage.NewMemStorage(), encs, enc, 0)
		if err != nil {
			return nil, err
		}
		b.pools[k] = pool
		b.makers[k] = isaac.NewProposalMaker(b.local, nt.networkID, nil, &byzPool{TempPool: pool, nt: nt}, nil)
	}
	return b, nil
}

// variantFor: which of the two ballots / proposals peer j gets. salt < 0: no equivocation for
// this stage point (every peer gets the first variant).
func (b *Byz) variantFor(j int, salt int64) int {
	if !b.net.cfg.ByzEquivocate || salt < 0 {
		return 0
	}
	return int(((salt >> uint(j)) & 1))
}

func (b *Byz) serveProposal(ctx context.Context, from int, point base.Point, prev util.Hash) (base.ProposalSignFact, error) {
	b.mu.Lock()
	defer b.mu.Unlock()
	k := 0
	if b.net.cfg.ByzProposals {
		k = int((int64(from) + point.Height().Int64() + int64(point.Round().Uint64())) % 2)
	}
	return b.makers[k].Make(ctx, point, prev)
}

func (b *Byz) proposal(h util.Hash) (base.ProposalSignFact, bool) {
	for k := range b.pools {
		if pr, found, err := b.pools[k].Proposal(h); err == nil && found {
			return pr, true
		}
	}
	return nil, false
}

func (b *Byz) onBallot(bl base.Ballot) {
	if b.net.isByz(b.net.indexOf(bl.SignFact().Node())) {
		return
	}
	sp := bl.Point()
	b.mu.Lock()
	if b.seen[sp.String()] {
		b.mu.Unlock()
		return
	}
	b.seen[sp.String()] = true
	// a random non-trivial split of the peers (bit j of salt), on about two thirds of the stage points
	salt := int64(-1)
	if b.rng.Intn(3) > 0 {
		honest := []int{}
		for j := 0; j < b.net.cfg.N; j++ {
			if j != b.idx && !b.net.isByz(j) {
				honest = append(honest, j)
			}
		}
		for {
			salt = b.rng.Int63n(1 << uint(b.net.cfg.N))
			ones := 0
			for _, j := range honest {
				ones += int((salt >> uint(j)) & 1)
			}
			if ones > 0 && ones < len(honest) {
				break
			}
		}
	}
	b.mu.Unlock()

	var variants [2]base.Ballot
	switch t := bl.(type) {
	case base.INITBallot:
		fact, ok := t.SignFact().Fact().(isaac.INITBallotFact)
		if !ok {
			return
		}
		// second proposal for the point: the Byzantine node's own (really signed) one
		b.mu.Lock()
		pr, err := b.makers[1].Make(context.Background(), sp.Point, fact.PreviousBlock())
		b.mu.Unlock()
		if err != nil {
			return
		}
		facts := [2]isaac.INITBallotFact{
			fact,
			isaac.NewINITBallotFact(sp.Point, fact.PreviousBlock(), pr.Fact().Hash(), nil),
		}
		for k := range facts {
			sf := isaac.NewINITBallotSignFact(facts[k])
			if err := sf.NodeSign(b.local.Privatekey(), b.net.networkID, b.local.Address()); err != nil {
				return
			}
			variants[k] = isaac.NewINITBallot(t.Voteproof(), sf, nil)
		}
	case base.ACCEPTBallot:
		fact, ok := t.SignFact().Fact().(isaac.ACCEPTBallotFact)
		if !ok {
			return
		}
		ivp, ok := t.Voteproof().(base.INITVoteproof)
		if !ok {
			return
		}
		bogus := valuehash.NewSHA256(util.ConcatBytesSlice([]byte("byz-block"), fact.NewBlock().Bytes()))
		facts := [2]isaac.ACCEPTBallotFact{
			fact,
			isaac.NewACCEPTBallotFact(sp.Point, fact.Proposal(), bogus, nil),
		}
		for k := range facts {
			sf := isaac.NewACCEPTBallotSignFact(facts[k])
			if err := sf.NodeSign(b.local.Privatekey(), b.net.networkID, b.local.Address()); err != nil {
				return
			}
			variants[k] = isaac.NewACCEPTBallot(ivp, sf, nil)
		}
	default:
		return
	}

	logged := [2]bool{}
	for j := 0; j < b.net.cfg.N; j++ {
		if j == b.idx || b.net.isByz(j) {
			continue
		}
		k := b.variantFor(j, salt)
		if variants[k].IsValid(b.net.networkID) != nil {
			continue
		}
		if !logged[k] {
			logged[k] = true
			b.net.bcastEvent(b.net.log.next(), b.idx, variants[k], true)
		}
		b.net.send(b.idx, j, variants[k])
		b.mu.Lock()
		b.sent++
		b.mu.Unlock()
	}
}
