// Package watcher binds spec/NodesWatcher.tla to the real isaac.LastConsensusNodesWatcher with the
// real isaac.SuffrageStateBuilder as its getFromRemote (as launch/p_suffrage.go wires them).
//
// The chain P(0..K) consists of real suffrage proofs (real SuffrageNodesStateValue states linked by
// hash, real fixed trees, block maps signed by the harness node; built as harness/internal/c18
// builds them), G(ForkAt..K) is a chain that does not prove from any P state, candidates states are
// real BaseStates of SuffrageCandidatesStateValue. The local database and the remote are function
// values answering from what the script set. The watcher's daemon runs with a short interval; its
// getFromRemote parks at a gate of the harness, so that one "check" step of the script is exactly
// one completed check of the real watcher: the parked (stale) call is answered with an error, the
// next one - which begins with the watcher's own Last() - is let through to the real builder.
// Reported, not judged: what Last() answered, which state the builder was asked with, whether
// whenUpdated was called and with what.
package watcher

import (
	"context"
	"encoding/json"
	"fmt"
	"sync"
	"time"

	"github.com/pkg/errors"
	"github.com/spikeekips/mitum/base"
	"github.com/spikeekips/mitum/isaac"
	isaacblock "github.com/spikeekips/mitum/isaac/block"
	"github.com/spikeekips/mitum/util"
	"github.com/spikeekips/mitum/util/fixedtree"
	"github.com/spikeekips/mitum/util/valuehash"

	"mitumverif/internal/h"
)

func init() { h.Register("WATCHER", run) }

var (
	networkID = base.NetworkID([]byte("watcher network id"))
	local     = isaac.NewLocalNode(base.NewMPrivatekey(), base.NewStringAddress("watcher-local"))
	errStale  = errors.Errorf("verif: stale check released")
)

func mkNodes(p string, n int) []base.Node {
	ns := make([]base.Node, n)
	for i := range ns {
		ns[i] = isaac.NewNode(base.NewMPrivatekey().Publickey(), base.NewStringAddress(fmt.Sprintf("watcher-%s%02d", p, i)))
	}
	return ns
}

func sufState(bh, sh base.Height, nodes []base.Node, prev util.Hash) base.State {
	sn := make([]base.SuffrageNodeStateValue, len(nodes))
	for i := range nodes {
		sn[i] = isaac.NewSuffrageNodeStateValue(nodes[i], bh)
	}
	return base.NewBaseState(bh, isaac.SuffrageStateKey, isaac.NewSuffrageNodesStateValue(sh, sn), prev,
		[]util.Hash{valuehash.RandomSHA256()})
}

func mkProof(st base.State, sufhash util.Hash) (base.SuffrageProof, error) {
	keys := []string{valuehash.RandomSHA256().String(), st.Hash().String(), valuehash.RandomSHA256().String()}
	w, err := fixedtree.NewWriter(base.StateFixedtreeHint, uint64(len(keys)))
	if err != nil {
		return nil, err
	}
	for i := range keys {
		if err := w.Add(uint64(i), fixedtree.NewBaseNode(keys[i])); err != nil {
			return nil, err
		}
	}
	if err := w.Write(func(uint64, fixedtree.Node) error { return nil }); err != nil {
		return nil, err
	}
	tree, err := w.Tree()
	if err != nil {
		return nil, err
	}
	path, err := tree.Proof(st.Hash().String())
	if err != nil {
		return nil, err
	}
	m := isaacblock.NewBlockMap()
	for _, t := range []base.BlockItemType{base.BlockItemProposal, base.BlockItemOperations, base.BlockItemOperationsTree,
		base.BlockItemStates, base.BlockItemStatesTree, base.BlockItemVoteproofs} {
		if err := m.SetItem(isaacblock.NewBlockMapItem(t, util.UUID().String())); err != nil {
			return nil, err
		}
	}
	var prevBlock util.Hash
	if st.Height() != base.GenesisHeight {
		prevBlock = valuehash.RandomSHA256()
	}
	m.SetManifest(isaac.NewManifest(st.Height(), prevBlock, valuehash.RandomSHA256(), valuehash.RandomSHA256(),
		tree.Root(), sufhash, time.Now().UTC()))
	if err := m.Sign(local.Address(), local.Privatekey(), networkID); err != nil {
		return nil, err
	}
	return isaacblock.NewSuffrageProof(m, st, path), nil
}

type worldT struct {
	K      int `json:"k"`
	Gap    int `json:"gap"`
	ForkAt int `json:"forkat"`
	MaxB   int `json:"maxb"`
}

type world struct {
	w     worldT
	P, G  map[int]base.SuffrageProof
	C     map[int]base.State
	label map[string]string // state hash -> "P2" / "G1" / "C3"
}

func newWorld(w worldT) (*world, error) {
	wd := &world{w: w, P: map[int]base.SuffrageProof{}, G: map[int]base.SuffrageProof{}, C: map[int]base.State{}, label: map[string]string{}}
	nodesA, nodesB := mkNodes("a", 3), mkNodes("b", 2)
	var prev util.Hash
	var states []base.State
	for x := 0; x <= w.K; x++ {
		st := sufState(base.Height(int64(x*w.Gap)), base.Height(int64(x)), nodesA, prev)
		p, err := mkProof(st, prev)
		if err != nil {
			return nil, err
		}
		wd.P[x] = p
		wd.label[st.Hash().String()] = fmt.Sprintf("P%d", x)
		states = append(states, st)
		prev = st.Hash()
	}
	// the fork: G(ForkAt) claims a previous state nobody has
	gprev := util.Hash(valuehash.RandomSHA256())
	for x := w.ForkAt; x <= w.K; x++ {
		st := sufState(base.Height(int64(x*w.Gap)), base.Height(int64(x)), nodesB, gprev)
		p, err := mkProof(st, gprev)
		if err != nil {
			return nil, err
		}
		wd.G[x] = p
		wd.label[st.Hash().String()] = fmt.Sprintf("G%d", x)
		gprev = st.Hash()
	}
	cands := mkNodes("c", 2)
	for b := 0; b <= w.MaxB; b++ {
		vs := []base.SuffrageCandidateStateValue{
			isaac.NewSuffrageCandidateStateValue(cands[b%2], base.Height(int64(b)), base.Height(int64(b+100))),
		}
		st := base.NewBaseState(base.Height(int64(b)), isaac.SuffrageCandidateStateKey,
			isaac.NewSuffrageCandidatesStateValue(vs), nil, []util.Hash{valuehash.RandomSHA256()})
		wd.C[b] = st
		wd.label[st.Hash().String()] = fmt.Sprintf("C%d", b)
	}
	return wd, nil
}

func (w *world) nameProof(p base.SuffrageProof) string {
	if p == nil {
		return ""
	}
	if l, ok := w.label[p.State().Hash().String()]; ok {
		return l
	}
	return "?"
}

func (w *world) nameState(st base.State) string {
	if st == nil {
		return ""
	}
	if l, ok := w.label[st.Hash().String()]; ok {
		return l
	}
	return "?"
}

type stepT struct {
	A string `json:"a"`
	P int    `json:"p"`
	C int    `json:"c"`
	H int    `json:"h"`
	M string `json:"m,omitempty"`
}

type caseT struct {
	I     int     `json:"i"`
	World *worldT `json:"world,omitempty"`
	Steps []stepT `json:"steps"`
	// Readers goroutines call Last() all the time while the steps are performed
	Readers int `json:"readers,omitempty"`
}

type stepOut struct {
	A       string   `json:"a"`
	Proof   string   `json:"proof"` // what Last() answered (after the step, for check)
	Cand    string   `json:"cand"`
	Err     string   `json:"err,omitempty"`
	Panic   string   `json:"panic,omitempty"`
	Asked   string   `json:"asked"`   // check: the state the builder was asked with ("" = nil)
	BuildOK bool     `json:"buildok"` // check: the builder answered without error
	BuildEr string   `json:"builderr,omitempty"`
	Served  []string `json:"served,omitempty"` // check: proofs the builder handed to the watcher
	Called  int      `json:"called"`           // check: calls of whenUpdated
	Prev    string   `json:"prev"`
	Upd     string   `json:"upd"`
	UpdC    string   `json:"updc"`
	Exists  string   `json:"exists,omitempty"`
}

type caseOut struct {
	I     int       `json:"i"`
	Steps []stepOut `json:"steps"`
	Note  string    `json:"note,omitempty"`
	// per reader: the distinct consecutive (proof, candidates) pairs its Last() calls answered
	Readers [][][2]string `json:"readers,omitempty"`
}

type env struct {
	sync.Mutex
	lp, lc, lh int
	rp, rc, rh int
	rmode      string
}

type parkedT struct {
	cmd chan bool // true = go to the real builder, false = stale: answer an error
}

type updT struct{ prev, upd, updc string }

type buildT struct {
	asked  string
	err    error
	served []string
}

func (w *world) runCase(c caseT) (out caseOut) {
	out.I = c.I
	e := &env{lp: -1, lc: -1, lh: -1, rp: 0, rc: -1, rh: 0, rmode: "main"}
	parked := make(chan parkedT)
	built := make(chan buildT, 4)
	upds := make(chan updT, 64)

	remoteProof := func(x int) base.SuffrageProof {
		e.Lock()
		defer e.Unlock()
		if e.rmode == "fork" && x >= w.w.ForkAt {
			return w.G[x]
		}
		return w.P[x]
	}
	builder := isaac.NewSuffrageStateBuilder(networkID,
		func(context.Context) (base.Height, base.SuffrageProof, bool, error) {
			e.Lock()
			m, rp, rh := e.rmode, e.rp, e.rh
			e.Unlock()
			if m == "err" {
				return base.NilHeight, nil, false, errors.Errorf("verif: remote fails")
			}
			return base.Height(int64(rh)), remoteProof(rp), true, nil
		},
		func(_ context.Context, sh base.Height) (base.SuffrageProof, bool, error) {
			e.Lock()
			m, rp := e.rmode, e.rp
			e.Unlock()
			if m == "err" {
				return nil, false, errors.Errorf("verif: remote fails")
			}
			x := int(sh.Int64())
			if x < 0 || x > rp {
				return nil, false, nil
			}
			return remoteProof(x), true, nil
		},
		func(context.Context) (base.State, bool, error) {
			e.Lock()
			m, rc := e.rmode, e.rc
			e.Unlock()
			if m == "err" {
				return nil, false, errors.Errorf("verif: remote fails")
			}
			if rc < 0 {
				return nil, false, nil
			}
			return w.C[rc], true, nil
		},
	)
	getLocal := func() (base.Height, base.SuffrageProof, base.State, bool, error) {
		e.Lock()
		defer e.Unlock()
		if e.lp < 0 {
			return base.NilHeight, nil, nil, false, nil
		}
		var c base.State
		if e.lc >= 0 {
			c = w.C[e.lc]
		}
		return base.Height(int64(e.lh)), w.P[e.lp], c, true, nil
	}
	getRemote := func(ctx context.Context, st base.State) (base.Height, []base.SuffrageProof, base.State, error) {
		pk := parkedT{cmd: make(chan bool)}
		select {
		case parked <- pk:
		case <-ctx.Done():
			return base.NilHeight, nil, nil, ctx.Err()
		}
		var goon bool
		select {
		case goon = <-pk.cmd:
		case <-ctx.Done():
			return base.NilHeight, nil, nil, ctx.Err()
		}
		if !goon {
			return base.NilHeight, nil, nil, errStale
		}
		ht, proofs, cst, err := builder.Build(ctx, st)
		b := buildT{asked: w.nameState(st), err: err}
		for i := range proofs {
			b.served = append(b.served, w.nameProof(proofs[i]))
		}
		built <- b
		return ht, proofs, cst, err
	}
	u, err := isaac.NewLastConsensusNodesWatcher(getLocal, getRemote,
		func(_ context.Context, prev, upd base.SuffrageProof, updc base.State) {
			upds <- updT{prev: w.nameProof(prev), upd: w.nameProof(upd), updc: w.nameState(updc)}
		}, time.Microsecond*300)
	if err != nil {
		out.Note = "new: " + err.Error()
		return out
	}
	if err := u.Start(context.Background()); err != nil {
		out.Note = "start: " + err.Error()
		return out
	}
	defer func() {
		done := make(chan struct{})
		go func() {
			for {
				select {
				case pk := <-parked:
					select {
					case pk.cmd <- false:
					case <-time.After(time.Second):
					}
				case <-done:
					return
				}
			}
		}()
		_ = u.Stop()
		close(done)
	}()

	if c.Readers > 0 {
		stop := make(chan struct{})
		var rwg sync.WaitGroup
		obs := make([][][2]string, c.Readers)
		for r := 0; r < c.Readers; r++ {
			rwg.Add(1)
			go func(r int) {
				defer rwg.Done()
				for {
					select {
					case <-stop:
						return
					default:
					}
					p, cst, err := u.Last()
					if err != nil {
						continue
					}
					pair := [2]string{w.nameProof(p), w.nameState(cst)}
					if n := len(obs[r]); n == 0 || obs[r][n-1] != pair {
						obs[r] = append(obs[r], pair)
					}
				}
			}(r)
		}
		defer func() {
			close(stop)
			rwg.Wait()
			out.Readers = obs
		}()
	}

	last := func(st *stepOut) {
		var p base.SuffrageProof
		var cst base.State
		var err error
		st.Panic = h.Catch(func() { p, cst, err = u.Last() })
		if err != nil {
			st.Err = err.Error()
		}
		st.Proof, st.Cand = w.nameProof(p), w.nameState(cst)
	}
	for _, s := range c.Steps {
		st := stepOut{A: s.A}
		switch s.A {
		case "local":
			e.Lock()
			e.lp, e.lc, e.lh = s.P, s.C, s.H
			e.Unlock()
		case "remote":
			e.Lock()
			e.rp, e.rc, e.rh, e.rmode = s.P, s.C, s.H, s.M
			e.Unlock()
		case "last":
			last(&st)
			if st.Panic == "" && st.Err == "" {
				// Exists() of a member of P's suffrage is Last() + membership
				var found bool
				var err error
				pn := h.Catch(func() { _, found, err = u.Exists(w.P[0].State().Value().(base.SuffrageNodesStateValue).Nodes()[0]) }) //nolint:forcetypeassert //...
				st.Exists = fmt.Sprintf("%v/%v/%v", found, err != nil, pn != "")
			}
		case "check":
			// release the parked (stale) call, then let the fresh one through
			var pk parkedT
			select {
			case pk = <-parked:
			case <-time.After(10 * time.Second):
				out.Note = "machinery: the watcher's daemon never asked the remote"
				out.Steps = append(out.Steps, st)
				return out
			}
			pk.cmd <- false
			select {
			case pk = <-parked:
			case <-time.After(10 * time.Second):
				out.Note = "machinery: the watcher's daemon never asked the remote again"
				out.Steps = append(out.Steps, st)
				return out
			}
			// nothing of an earlier check may be pending
			for len(upds) > 0 {
				<-upds
				st.Called += 100 // a call that belongs to no check of the script
			}
			pk.cmd <- true
			b := <-built
			st.Asked, st.BuildOK, st.Served = b.asked, b.err == nil, b.served
			if b.err != nil {
				st.BuildEr = firstLine(b.err.Error())
			}
			// the check is complete when the daemon parks again; whenUpdated runs in its own goroutine
			select {
			case pk2 := <-parked:
				go func() { // keep it parked for the next step: hand it back
					parked <- pk2
				}()
			case <-time.After(10 * time.Second):
				out.Note = "machinery: the check did not finish"
				out.Steps = append(out.Steps, st)
				return out
			}
			if b.err == nil {
				select {
				case x := <-upds:
					st.Called++
					st.Prev, st.Upd, st.UpdC = x.prev, x.upd, x.updc
				case <-time.After(3 * time.Second):
				}
			}
			time.Sleep(200 * time.Microsecond)
			for len(upds) > 0 {
				<-upds
				st.Called++
			}
			last(&st)
		}
		out.Steps = append(out.Steps, st)
	}
	return out
}

func firstLine(s string) string {
	for i := 0; i < len(s); i++ {
		if s[i] == '\n' {
			s = s[:i]
			break
		}
	}
	if len(s) > 300 {
		s = s[:300]
	}
	return s
}

func run(args []string) error {
	if len(args) < 1 || args[0] != "replay" {
		return fmt.Errorf("usage: WATCHER replay --in cases.ndjson --out res.ndjson")
	}
	fl := h.Flags(args[1:])
	var wd *world
	var cases []caseT
	if err := h.ReadNDJSON(fl["in"], func(line []byte) error {
		var c caseT
		if err := json.Unmarshal(line, &c); err != nil {
			return err
		}
		if c.World != nil {
			var err error
			wd, err = newWorld(*c.World)
			return err
		}
		cases = append(cases, c)
		return nil
	}); err != nil {
		return err
	}
	if wd == nil {
		return fmt.Errorf("no world line")
	}
	res := make([]caseOut, len(cases))
	next := make(chan int, 1024)
	go func() {
		for i := range cases {
			next <- i
		}
		close(next)
	}()
	var wg sync.WaitGroup
	for k := 0; k < 8; k++ {
		wg.Add(1)
		go func() {
			defer wg.Done()
			for i := range next {
				res[i] = wd.runCase(cases[i])
			}
		}()
	}
	wg.Wait()
	out, err := h.NewOut(fl["out"])
	if err != nil {
		return err
	}
	for i := range res {
		out.Emit(res[i])
	}
	return out.Close()
}
