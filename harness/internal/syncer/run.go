package syncer

import (
	"context"
	"encoding/json"
	"fmt"
	"math/rand"
	"os"
	"path/filepath"
	"runtime"
	"strconv"
	"strings"
	"sync"
	"sync/atomic"
	"time"

	"github.com/pkg/errors"

	"mitumverif/internal/h"
)

func init() { h.Register("SYNCER", run) }

type pt struct {
	Kind string
	H    int64
	Nth  int
}

// points of an execution, in the order they were reached
func (w *world) pointsSeen() []pt {
	var out []pt
	cnt := map[string]int{}
	w.mu.Lock()
	defer w.mu.Unlock()
	for _, e := range w.evs {
		var kind string
		var hh int64
		switch e["a"] {
		case "Fetch", "Pool", "NewImp", "Save", "Merge", "RemovePrev", "Finished":
			kind = e["a"].(string)
			hh = toI(e["h"])
		case "ImportCall", "MergeAll":
			kind = e["a"].(string)
			hh = toI(e["to"])
		default:
			continue
		}
		k := fmt.Sprintf("%s/%d", kind, hh)
		cnt[k]++
		out = append(out, pt{kind, hh, cnt[k]})
	}
	return out
}

func toI(v interface{}) int64 {
	switch x := v.(type) {
	case int64:
		return x
	case int:
		return int64(x)
	case float64:
		return int64(x)
	}
	return -99
}

const (
	stallAfter  = 4 * time.Second
	hardTimeout = 40 * time.Second
)

// runScenario runs one scenario on a fresh real Syncer and returns its events.
func runScenario(sc Scenario, root string, confirm bool) (*world, string, error) {
	if err := os.MkdirAll(root, 0o755); err != nil {
		return nil, "", err
	}
	w := newWorld(sc, root)
	if err := w.newSyncer(); err != nil {
		return nil, "", err
	}
	w.emit(Ev{"a": "Reset", "id": sc.ID, "l0": sc.L0, "remote": sc.Remote, "batch": sc.Batch,
		"forkprev": b2i(sc.ForkPrev), "lastmap": b2i(sc.LastMap)})

	ctx, cancel := context.WithCancel(context.Background())
	defer cancel()
	if err := w.s.Start(ctx); err != nil {
		return nil, "", err
	}

	stop := make(chan struct{})
	var rd sync.WaitGroup
	rd.Add(1)
	go func() {
		defer rd.Done()
		donech := w.s.Done()
		for {
			select {
			case <-stop:
				return
			case ht := <-w.s.Finished():
				atomic.AddInt64(&w.addsOut, 1)
				w.emit(Ev{"a": "Finished", "h": ht.Int64()})
				w.finSeen.Store(ht.Int64(), true)
				w.point(nil, "Finished", ht.Int64())
				atomic.AddInt64(&w.addsOut, -1)
			case <-donech:
				err := w.s.Err()
				cls, msg := "none", ""
				switch {
				case err == nil:
				case errors.Is(err, context.Canceled), errors.Is(err, context.DeadlineExceeded):
					cls = "canceled"
				default:
					cls = "error"
					msg = err.Error()
					if len(msg) > 160 {
						msg = msg[:160]
					}
				}
				w.emit(Ev{"a": "Done", "err": cls, "msg": msg})
				if cls == "error" {
					atomic.StoreInt32(&w.doneErr, 1)
				}
			}
		}
	}()

	for _, a := range sc.Start {
		w.do(nil, a, a.Op == "add")
	}

	status := ""
	t0 := time.Now()
	for status == "" {
		time.Sleep(time.Millisecond)
		w.mu.Lock()
		live := w.livelock
		lastEv := w.lastEv
		target := atomic.LoadInt64(&w.okTop)
		if sc.LastMap && w.remote > target {
			target = w.remote
		}
		w.mu.Unlock()
		switch {
		case atomic.LoadInt32(&w.cancelRet) == 1:
			status = "cancelled"
		case atomic.LoadInt32(&w.cancelCall) == 1:
			// wait for Cancel to return
			if time.Since(t0) > hardTimeout {
				status = "timeout"
			}
		case atomic.LoadInt32(&w.doneErr) == 1:
			status = "error"
		case live:
			w.mu.Lock()
			var k string
			for kk, n := range w.ncalls {
				if n >= 3 {
					k = kk
				}
			}
			w.mu.Unlock()
			w.emit(Ev{"a": "Livelock", "call": k})
			status = "livelock"
		case atomic.LoadInt64(&w.addsOut) == 0 && atomic.LoadInt64(&w.inflight) == 0:
			if _, seen := w.finSeen.Load(target); seen || target == sc.L0 {
				if t, fin := w.s.IsFinished(); fin && t.Int64() == target {
					status = "finished"
					break
				}
			}
			if time.Since(lastEv) > stallAfter && atomic.LoadInt32(&w.retrying) == 0 {
				t, fin := w.s.IsFinished()
				conf := 0
				if confirm && syncerQuiescent() {
					conf = 1
				}
				w.emit(Ev{"a": "Quiescent", "top": t.Int64(), "fin": b2i(fin), "confirmed": conf})
				status = "stalled"
			}
		}
		if status == "" && time.Since(t0) > hardTimeout {
			status = "timeout"
		}
	}

	if atomic.LoadInt32(&w.cancelCall) == 0 {
		if status == "finished" {
			t, fin := w.s.IsFinished()
			w.emit(Ev{"a": "IsFin", "top": t.Int64(), "fin": b2i(fin), "quiet": 1})
		}
		w.do(nil, Act{Op: "cancel"}, false)
	}
	for t1 := time.Now(); atomic.LoadInt32(&w.cancelRet) == 0; time.Sleep(time.Millisecond) {
		if time.Since(t1) > 10*time.Second {
			status = "timeout"
			break
		}
	}
	// importer jobs that ImportBlocks did not wait for
	for t1 := time.Now(); time.Since(t1) < 2*time.Second; time.Sleep(time.Millisecond) {
		if atomic.LoadInt64(&w.inflight) == 0 && atomic.LoadInt64(&w.addsOut) == 0 {
			break
		}
	}
	time.Sleep(3 * time.Millisecond)
	close(stop)
	rd.Wait()
	w.readers.Close()
	w.mu.Lock()
	last := w.last()
	w.mu.Unlock()
	w.emit(Ev{"a": "End", "store": last, "status": status})
	_ = os.RemoveAll(root)
	return w, status, nil
}

// syncerQuiescent: (only when a single Syncer lives in the process) the start() goroutine is parked in
// its select and no goroutine of the syncer is sending, syncing or adding: nothing will ever happen again.
func syncerQuiescent() bool {
	buf := make([]byte, 1<<22)
	n := runtime.Stack(buf, true)
	idle, busy := 0, 0
	for _, g := range strings.Split(string(buf[:n]), "\n\n") {
		if !strings.Contains(g, "isaac/states.(*Syncer)") {
			continue
		}
		lines := strings.Split(g, "\n")
		first := ""
		for _, l := range lines[1:] {
			if strings.HasPrefix(l, "\t") || strings.HasPrefix(l, "runtime.") {
				continue
			}
			first = l
			break
		}
		switch {
		case strings.Contains(first, "(*Syncer).start(") && strings.Contains(lines[0], "select"):
			idle++
		case strings.Contains(first, "(*Syncer).updateLastBlockMap("):
		default:
			busy++
		}
	}
	return idle == 1 && busy == 0
}

// ------------------------------------------------------------------ scenario generation

type bcfg struct {
	L0, Remote, Batch, T1, T2 int64
}

// a height above the first target (the first target itself when the remotes have no more)
func above(b bcfg, rng *rand.Rand) int64 {
	if b.Remote <= b.T1 {
		return b.T1
	}
	return b.T1 + 1 + rng.Int63n(b.Remote-b.T1)
}

func derive(b bcfg, tag string, pts []pt, full bool, rng *rand.Rand) []Scenario {
	var out []Scenario
	mk := func(class, name string, rules []Rule, start []Act) {
		if start == nil {
			start = []Act{{Op: "add", H: b.T1}}
		}
		out = append(out, Scenario{ID: tag + "/" + name, L0: b.L0, Remote: b.Remote, Batch: b.Batch, Start: start, Rules: rules, Class: class})
	}
	fetchFails := []string{"err", "fork", "notfound", "forkat", "badheight"}
	for i, p := range pts {
		at := fmt.Sprintf("%s%d.%d", p.Kind, p.H, p.Nth)
		r := func(x Rule) []Rule { x.Kind, x.H, x.Nth = p.Kind, p.H, p.Nth; return []Rule{x} }
		// a higher height is added while this step is in flight
		mk("add-at-point", "add@"+at, r(Rule{Acts: []Act{{Op: "add", H: b.T2}}}), nil)
		// Cancel at this point
		mk("cancel-at-point", "cancel@"+at, r(Rule{Acts: []Act{{Op: "cancel"}}}), nil)
		if full || i%2 == 0 {
			// several Adds at once: lower, equal, two higher ones; IsFinished observed meanwhile
			mk("adds-at-point", "adds@"+at, r(Rule{Acts: []Act{{Op: "add", H: b.T1 - 1}, {Op: "add", H: b.T2 - 1}, {Op: "isfin"},
				{Op: "add", H: b.T2}, {Op: "add", H: b.T1}}, Hold: 1}), nil)
		}
		switch p.Kind {
		case "Fetch":
			for j, f := range fetchFails {
				if full || j == i%len(fetchFails) || f == "err" {
					mk("fetch-"+f, f+"@"+at, r(Rule{Fail: f}), nil)
				}
			}
			if full || i%3 == 0 {
				// a slow source, the target is extended and then the extension's source fails
				mk("slow-add-fail", "slow@"+at, append(r(Rule{Hold: 8, Acts: []Act{{Op: "add", H: b.T2}}}),
					Rule{Kind: "Fetch", H: b.T2, Nth: 1, Fail: "err"}), nil)
			}
		case "Save":
			mk("save-fail", "savefail@"+at, r(Rule{Fail: "err"}), nil)
			if full || i%2 == 0 {
				mk("save-fail-add", "savefail+add@"+at, r(Rule{Fail: "err", Acts: []Act{{Op: "add", H: b.T2}}}), nil)
				// Cancel while another importer of the window is still saving
				mk("cancel-slow-save", "cancel+slow@"+at, append(r(Rule{Acts: []Act{{Op: "cancel"}}}),
					Rule{Kind: "Save", H: p.H + 1, Nth: 1, Hold: 30}, Rule{Kind: "Save", H: p.H - 1, Nth: 1, Hold: 30}), nil)
			}
		case "Finished":
			mk("add-after-finished", "addlow@"+at, r(Rule{Acts: []Act{{Op: "add", H: p.H}, {Op: "add", H: p.H - 1}, {Op: "isfin"}}}), nil)
		}
	}
	// two targets from the beginning, concurrently
	mk("two-adds", "start2", nil, []Act{{Op: "add", H: b.T1}, {Op: "add", H: b.T2}})
	mk("two-adds", "start2r", nil, []Act{{Op: "add", H: b.T2}, {Op: "add", H: b.T1}})
	// the remotes grow while syncing: the syncer's own last-block-map poll adds
	s := Scenario{ID: tag + "/lastmap", L0: b.L0, Remote: b.T1, Batch: b.Batch, LastMap: true, Class: "lastmap",
		Start: []Act{{Op: "add", H: b.T1}}, Rules: []Rule{{Kind: "Merge", H: b.T1, Nth: 1, Acts: []Act{{Op: "grow", H: b.T2}}}}}
	s.Remote = b.Remote
	out = append(out, s)
	// random combinations
	n := 6
	if full {
		n = 30
	}
	for k := 0; k < n && len(pts) > 0; k++ {
		var rules []Rule
		used := map[pt]bool{}
		for j := 0; j < 1+rng.Intn(3); j++ {
			p := pts[rng.Intn(len(pts))]
			if used[p] {
				continue
			}
			used[p] = true
			x := Rule{Kind: p.Kind, H: p.H, Nth: p.Nth}
			switch rng.Intn(6) {
			case 0:
				x.Acts = []Act{{Op: "add", H: above(b, rng)}}
			case 1:
				x.Acts = []Act{{Op: "add", H: b.T2}, {Op: "add", H: b.T1 + 1}}
				x.Hold = rng.Intn(4)
			case 2:
				x.Hold = 1 + rng.Intn(10)
			case 3:
				if p.Kind == "Fetch" {
					x.Fail = fetchFails[rng.Intn(len(fetchFails))]
				} else if p.Kind == "Save" {
					x.Fail = "err"
				} else {
					x.Acts = []Act{{Op: "isfin"}}
				}
			case 4:
				x.Acts = []Act{{Op: "add", H: b.T2}, {Op: "isfin"}}
			case 5:
				if rng.Intn(3) == 0 {
					x.Acts = []Act{{Op: "cancel"}}
				} else {
					x.Acts = []Act{{Op: "add", H: above(b, rng)}}
					x.Hold = rng.Intn(3)
				}
			}
			rules = append(rules, x)
		}
		start := []Act{{Op: "add", H: b.T1}}
		if rng.Intn(3) == 0 {
			start = append(start, Act{Op: "add", H: above(b, rng)})
		}
		mk("random", fmt.Sprintf("rnd%d", k), rules, start)
	}
	return out
}

func forkScenarios(full bool) []Scenario {
	var out []Scenario
	for _, b := range []bcfg{{2, 6, 2, 5, 6}, {1, 5, 3, 3, 5}, {0, 4, 1, 2, 4}, {3, 8, 2, 8, 8}} {
		tag := fmt.Sprintf("fork-l%d-b%d", b.L0, b.Batch)
		out = append(out,
			Scenario{ID: tag + "/removed", Class: "fork-prev", L0: b.L0, Remote: b.Remote, Batch: b.Batch, ForkPrev: true, Start: []Act{{Op: "add", H: b.T1}}},
			Scenario{ID: tag + "/notremoved", Class: "fork-prev-noremove", L0: b.L0, Remote: b.Remote, Batch: b.Batch, ForkPrev: true, NoRemove: true, Start: []Act{{Op: "add", H: b.T1}}},
			Scenario{ID: tag + "/removeerr", Class: "fork-prev-removeerr", L0: b.L0, Remote: b.Remote, Batch: b.Batch, ForkPrev: true, Start: []Act{{Op: "add", H: b.T1}},
				Rules: []Rule{{Kind: "RemovePrev", H: b.L0, Nth: 1, Fail: "err"}}},
			Scenario{ID: tag + "/removed+add", Class: "fork-prev", L0: b.L0, Remote: b.Remote, Batch: b.Batch, ForkPrev: true, Start: []Act{{Op: "add", H: b.T1}},
				Rules: []Rule{{Kind: "RemovePrev", H: b.L0, Nth: 1, Acts: []Act{{Op: "add", H: b.T2}}}}},
		)
		if !full {
			break
		}
	}
	return out
}

func bases(full bool) []bcfg {
	if !full {
		return []bcfg{{-1, 6, 2, 3, 6}, {1, 7, 3, 4, 7}, {2, 6, 1, 4, 5}}
	}
	return []bcfg{{-1, 6, 2, 3, 6}, {1, 7, 3, 4, 7}, {2, 6, 1, 4, 5}, {-1, 5, 5, 2, 5}, {0, 9, 2, 5, 9}, {3, 9, 3, 9, 9}, {0, 4, 33, 2, 4}}
}

// ------------------------------------------------------------------ commands

func runMany(scs []Scenario, par int, workdir string, confirm bool) ([]*world, []string, error) {
	ws := make([]*world, len(scs))
	st := make([]string, len(scs))
	errs := make([]error, len(scs))
	sem := make(chan struct{}, par)
	var wg sync.WaitGroup
	for i := range scs {
		wg.Add(1)
		sem <- struct{}{}
		go func(i int) {
			defer wg.Done()
			defer func() { <-sem }()
			ws[i], st[i], errs[i] = runScenario(scs[i], filepath.Join(workdir, fmt.Sprintf("root%05d", i)), confirm)
		}(i)
	}
	wg.Wait()
	for _, e := range errs {
		if e != nil {
			return nil, nil, e
		}
	}
	return ws, st, nil
}

func write(out *h.Out, scout *h.Out, scs []Scenario, ws []*world, st []string) {
	for i, w := range ws {
		for _, e := range w.evs {
			out.Emit(e)
		}
		if scout != nil {
			scout.Emit(map[string]interface{}{"id": scs[i].ID, "class": scs[i].Class, "status": st[i], "events": len(w.evs), "scenario": scs[i]})
		}
	}
}

func run(args []string) error {
	if len(args) < 1 {
		return errors.Errorf("usage: SYNCER batch|one ...")
	}
	f := h.Flags(args[1:])
	switch args[0] {
	case "batch":
		full := f["tier"] == "thorough"
		seed, _ := strconv.ParseInt(f["seed"], 10, 64)
		par, _ := strconv.Atoi(f["par"])
		if par < 1 {
			par = 8
		}
		work := f["work"]
		out, err := h.NewOut(f["out"])
		if err != nil {
			return err
		}
		scout, err := h.NewOut(f["scen"])
		if err != nil {
			return err
		}
		rng := rand.New(rand.NewSource(seed))
		var all []Scenario
		for _, b := range bases(full) {
			tag := fmt.Sprintf("l%d-b%d-t%d-%d", b.L0, b.Batch, b.T1, b.T2)
			bsc := Scenario{ID: tag + "/base", Class: "base", L0: b.L0, Remote: b.Remote, Batch: b.Batch, Start: []Act{{Op: "add", H: b.T1}}}
			w, st, err := runScenario(bsc, filepath.Join(work, "base"), false)
			if err != nil {
				return err
			}
			write(out, scout, []Scenario{bsc}, []*world{w}, []string{st})
			all = append(all, derive(b, tag, w.pointsSeen(), full, rng)...)
		}
		all = append(all, forkScenarios(full)...)
		ws, st, err := runMany(all, par, work, false)
		if err != nil {
			return err
		}
		write(out, scout, all, ws, st)
		if err := scout.Close(); err != nil {
			return err
		}
		return out.Close()
	case "one":
		b, err := os.ReadFile(f["in"])
		if err != nil {
			return err
		}
		var sc Scenario
		if err := json.Unmarshal(b, &sc); err != nil {
			return err
		}
		out, err := h.NewOut(f["out"])
		if err != nil {
			return err
		}
		w, st, err := runScenario(sc, filepath.Join(f["work"], "one"), f["confirm"] == "1")
		if err != nil {
			return err
		}
		write(out, nil, []Scenario{sc}, []*world{w}, []string{st})
		fmt.Println(st)
		return out.Close()
	}
	return errors.Errorf("unknown mode %q", args[0])
}
