// Package syncer drives the REAL isaacstates.Syncer (isaac/states/syncer.go) wired as
// launch/p_states.go wires it - real base.BatchIsValidMaps, real isaacblock.ImportBlocks, real
// LeveldbTempSyncPool over a leveldb mem storage, real signed isaacblock.BlockMaps with real
// isaac.Manifests - against harness-supplied sources (block map fetcher, block importers, a database
// that takes and removes blocks like isaacdatabase.Center) and records one event per call
// (binding B; validated by spec/SyncerTrace.tla).
package syncer

import (
	"context"
	"fmt"
	"io"
	"sync"
	"sync/atomic"
	"time"

	"github.com/pkg/errors"
	"github.com/spikeekips/mitum/base"
	"github.com/spikeekips/mitum/isaac"
	isaacblock "github.com/spikeekips/mitum/isaac/block"
	isaacdatabase "github.com/spikeekips/mitum/isaac/database"
	isaacstates "github.com/spikeekips/mitum/isaac/states"
	"github.com/spikeekips/mitum/launch"
	leveldbstorage "github.com/spikeekips/mitum/storage/leveldb"
	"github.com/spikeekips/mitum/util"
	"github.com/spikeekips/mitum/util/encoder"
	jsonenc "github.com/spikeekips/mitum/util/encoder/json"
	"github.com/spikeekips/mitum/util/valuehash"
)

type Ev map[string]interface{}

// Act is something the driver does at a point of the execution.
type Act struct {
	Op string `json:"op"` // add | cancel | grow | isfin
	H  int64  `json:"h,omitempty"`
}

// Rule: when the execution reaches the Nth occurrence of point (Kind, H) do Acts (concurrently with
// the syncer, which is inside the callback), hold the callback for Hold ms, then let it fail.
type Rule struct {
	Kind string `json:"kind"` // Fetch | Pool | ImportCall | NewImp | Save | Merge | MergeAll | RemovePrev | Finished
	H    int64  `json:"h"`
	Nth  int    `json:"nth"`
	Acts []Act  `json:"acts,omitempty"`
	Fail string `json:"fail,omitempty"` // Fetch: err|notfound|badheight|fork|forkat  Save: err  RemovePrev: err
	Hold int    `json:"hold,omitempty"`
}

type Scenario struct {
	ID       string `json:"id"`
	L0       int64  `json:"l0"`     // last stored height when the syncer is made; -1: empty database
	Remote   int64  `json:"remote"` // the remotes have 0..Remote
	Batch    int64  `json:"batch"`
	ForkPrev bool   `json:"forkprev,omitempty"` // the local block L0 differs from the remotes'
	NoRemove bool   `json:"noremove,omitempty"` // the database can not remove the block (already permanent)
	LastMap  bool   `json:"lastmap,omitempty"`  // LastBlockMapFunc reports the remotes' last block (internal Add)
	Start    []Act  `json:"start"`
	Rules    []Rule `json:"rules,omitempty"`
	Class    string `json:"class,omitempty"` // generator's label
}

var (
	encOnce sync.Once
	gEncs   *encoder.Encoders
	gEnc    encoder.Encoder
)

func encoders() (*encoder.Encoders, encoder.Encoder) {
	encOnce.Do(func() {
		gEnc = jsonenc.NewEncoder()
		gEncs = encoder.NewEncoders(gEnc, gEnc)
		if err := launch.LoadHinters(gEncs); err != nil {
			panic(err)
		}
	})
	return gEncs, gEnc
}

type stored struct {
	h    int64
	hash util.Hash
	ch   string
}

type world struct {
	sc      Scenario
	s       *isaacstates.Syncer
	local   base.LocalNode
	netID   base.NetworkID
	root    string
	readers *isaac.BlockItemReaders

	chainA map[int64]base.BlockMap // the remotes' chain
	chainB map[int64]base.BlockMap // a forking source: diverged below every height it serves
	chainC map[int64]base.BlockMap // a forking source that diverges exactly at the served height
	localL base.BlockMap           // the local block L0 when ForkPrev
	chOf   map[string]string       // manifest hash -> chain label

	mu       sync.Mutex
	evs      []Ev
	lastEv   time.Time
	blocks   []stored
	counts   map[string]int
	fired    map[int]bool
	remote   int64 // what LastBlockMapFunc reports
	ncalls   map[string]int
	livelock bool

	inflight   int64 // callbacks of the syncer that are running
	nadd       int64
	addsOut    int64 // Add/IsFinished goroutines not yet returned
	cancelOnce sync.Once
	cancelCall int32
	cancelRet  int32
	doneErr    int32
	retrying   int32
	finSeen    sync.Map
	okTop      int64 // highest height for which Add returned true
}

func (w *world) emit(e Ev) {
	w.mu.Lock()
	w.evs = append(w.evs, e)
	w.lastEv = time.Now()
	w.mu.Unlock()
}

func (w *world) mkmap(h int64, previous util.Hash, label string) base.BlockMap {
	m := isaacblock.NewBlockMap()
	for _, t := range []base.BlockItemType{
		base.BlockItemProposal, base.BlockItemOperations, base.BlockItemOperationsTree,
		base.BlockItemStates, base.BlockItemStatesTree, base.BlockItemVoteproofs,
	} {
		if err := m.SetItem(isaacblock.NewBlockMapItem(t, util.UUID().String())); err != nil {
			panic(err)
		}
	}
	var suf util.Hash
	if h != 0 {
		suf = valuehash.NewSHA256([]byte("suffrage"))
	}
	if h == 0 {
		previous = nil
	}
	man := isaac.NewManifest(base.Height(h), previous,
		valuehash.NewSHA256([]byte(fmt.Sprintf("proposal-%s-%d", label, h))),
		nil, nil, suf, time.Unix(1700000000+h, 0).UTC())
	m.SetManifest(man)
	if err := m.Sign(w.local.Address(), w.local.Privatekey(), w.netID); err != nil {
		panic(err)
	}
	w.chOf[man.Hash().String()] = label
	return m
}

func (w *world) label(m base.BlockMap) string {
	if l, ok := w.chOf[m.Manifest().Hash().String()]; ok {
		return l
	}
	return "?"
}

func newWorld(sc Scenario, root string) *world {
	w := &world{sc: sc, root: root, netID: base.NetworkID("verif-syncer"),
		chainA: map[int64]base.BlockMap{}, chainB: map[int64]base.BlockMap{}, chainC: map[int64]base.BlockMap{},
		chOf: map[string]string{}, counts: map[string]int{}, fired: map[int]bool{}, ncalls: map[string]int{},
		remote: sc.Remote, okTop: sc.L0}
	w.local = isaac.NewLocalNode(base.NewMPrivatekey(), base.NewStringAddress("syncer-local"))
	var prev util.Hash
	for h := int64(0); h <= sc.Remote; h++ {
		m := w.mkmap(h, prev, "A")
		w.chainA[h] = m
		prev = m.Manifest().Hash()
	}
	// chain B: its own block at every height > 0, each on B's own previous block
	prev = w.chainA[0].Manifest().Hash()
	for h := int64(1); h <= sc.Remote; h++ {
		if h >= 2 {
			prev = w.chainB[h-1].Manifest().Hash()
		} else {
			prev = valuehash.NewSHA256([]byte("B-genesis"))
		}
		w.chainB[h] = w.mkmap(h, prev, "B")
	}
	// chain C: another block at height h on the remotes' block h-1
	for h := int64(1); h <= sc.Remote; h++ {
		w.chainC[h] = w.mkmap(h, w.chainA[h-1].Manifest().Hash(), "C")
	}
	// the local database: 0..L0 of chain A (the block L0 is the node's own when ForkPrev)
	for h := int64(0); h <= sc.L0; h++ {
		m := w.chainA[h]
		if sc.ForkPrev && h == sc.L0 {
			var p util.Hash
			if h > 0 {
				p = w.chainA[h-1].Manifest().Hash()
			}
			w.localL = w.mkmap(h, p, "L")
			m = w.localL
		}
		w.blocks = append(w.blocks, stored{h: h, hash: m.Manifest().Hash(), ch: w.label(m)})
	}
	return w
}

func (w *world) last() int64 {
	if len(w.blocks) == 0 {
		return -1
	}
	return w.blocks[len(w.blocks)-1].h
}

// merge: isaacdatabase.Center.MergeBlockWriteDatabase takes only the block of height last+1 (any
// height when the database is empty).
func (w *world) merge(m base.BlockMap) error {
	h := m.Manifest().Height().Int64()
	w.mu.Lock()
	defer w.mu.Unlock()
	last := int64(-1)
	if n := len(w.blocks); n > 0 {
		last = w.blocks[n-1].h
	}
	e := Ev{"a": "Merge", "h": h, "ch": w.label(m), "ok": 1, "link": 1}
	if last > -1 && h != last+1 {
		e["ok"] = 0
		e["link"] = 0
		w.evs = append(w.evs, e)
		w.lastEv = time.Now()
		return errors.Errorf("new TempDatabase has wrong height; temp = prev + 1, temp=%d != prev=%d", h, last)
	}
	if h > 0 && (len(w.blocks) == 0 || !m.Manifest().Previous().Equal(w.blocks[len(w.blocks)-1].hash)) {
		e["link"] = 0
	}
	w.blocks = append(w.blocks, stored{h: h, hash: m.Manifest().Hash(), ch: w.label(m)})
	w.evs = append(w.evs, e)
	w.lastEv = time.Now()
	return nil
}

// removeBlocks: Center.RemoveBlocks(h) removes every block >= h (only blocks that are not yet permanent).
func (w *world) removeBlocks(h int64) bool {
	w.mu.Lock()
	defer w.mu.Unlock()
	if w.sc.NoRemove {
		return false
	}
	for i := range w.blocks {
		if w.blocks[i].h == h {
			w.blocks = w.blocks[:i]
			return true
		}
	}
	return false
}

// point: the execution reached (kind, h); returns the rule that fires here (or nil) after its
// actions were started and its hold elapsed.
func (w *world) point(ctx context.Context, kind string, h int64) *Rule {
	w.mu.Lock()
	k := fmt.Sprintf("%s/%d", kind, h)
	w.counts[k]++
	n := w.counts[k]
	var r *Rule
	for i := range w.sc.Rules {
		x := &w.sc.Rules[i]
		if !w.fired[i] && x.Kind == kind && x.H == h && x.Nth == n {
			w.fired[i] = true
			r = x
			break
		}
	}
	w.mu.Unlock()
	if r == nil {
		return nil
	}
	for _, a := range r.Acts {
		w.do(ctx, a, false)
	}
	if r.Hold > 0 {
		t := time.NewTimer(time.Duration(r.Hold) * time.Millisecond)
		defer t.Stop()
		if ctx != nil {
			select {
			case <-ctx.Done():
			case <-t.C:
			}
		} else {
			<-t.C
		}
	}
	return r
}

// do performs a driver action. Inside a callback of the syncer nothing may wait for the syncer (Add
// and IsFinished wait for the lock of prevvalue that sync() holds while it fetches the previous
// map; Cancel waits for start() to return): every call runs in its own goroutine.
func (w *world) do(ctx context.Context, a Act, wait bool) {
	switch a.Op {
	case "add":
		c := atomic.AddInt64(&w.nadd, 1)
		atomic.AddInt64(&w.addsOut, 1)
		started := make(chan struct{})
		done := make(chan struct{})
		go func() {
			w.emit(Ev{"a": "AddCall", "c": c, "h": a.H})
			close(started)
			ok := w.s.Add(base.Height(a.H))
			if ok {
				for {
					o := atomic.LoadInt64(&w.okTop)
					if a.H <= o || atomic.CompareAndSwapInt64(&w.okTop, o, a.H) {
						break
					}
				}
			}
			w.emit(Ev{"a": "AddRet", "c": c, "h": a.H, "ok": b2i(ok)})
			atomic.AddInt64(&w.addsOut, -1)
			close(done)
		}()
		<-started
		if wait {
			<-done
		} else {
			select {
			case <-done:
			case <-time.After(2 * time.Millisecond):
			}
		}
	case "cancel":
		started := make(chan struct{})
		w.cancelOnce.Do(func() {
			go func() {
				atomic.StoreInt32(&w.cancelCall, 1)
				w.emit(Ev{"a": "CancelCall"})
				close(started)
				err := w.s.Cancel()
				// the event is emitted under the lock that the database takes for a merge: no merge lies between
				w.emit(Ev{"a": "CancelRet", "ok": b2i(err == nil)})
				atomic.StoreInt32(&w.cancelRet, 1)
			}()
			<-started
			if wait {
				for atomic.LoadInt32(&w.cancelRet) == 0 {
					time.Sleep(time.Millisecond)
				}
			} else if ctx != nil {
				select {
				case <-ctx.Done():
				case <-time.After(300 * time.Millisecond):
				}
			} else {
				time.Sleep(2 * time.Millisecond)
			}
		})
	case "grow":
		w.mu.Lock()
		if a.H > w.remote {
			w.remote = a.H
		}
		w.mu.Unlock()
	case "isfin":
		atomic.AddInt64(&w.addsOut, 1)
		go func() {
			t, fin := w.s.IsFinished()
			w.emit(Ev{"a": "IsFin", "top": t.Int64(), "fin": b2i(fin), "quiet": 0})
			atomic.AddInt64(&w.addsOut, -1)
		}()
	}
}

func b2i(b bool) int {
	if b {
		return 1
	}
	return 0
}

// ------------------------------------------------------------------ the temp sync pool (real, logged)

type pool struct {
	isaac.TempSyncPool
	w *world
}

func (p *pool) SetBlockMap(m base.BlockMap) error {
	atomic.AddInt64(&p.w.inflight, 1)
	defer atomic.AddInt64(&p.w.inflight, -1)
	h := m.Manifest().Height().Int64()
	p.w.point(nil, "Pool", h)
	err := p.TempSyncPool.SetBlockMap(m)
	p.w.emit(Ev{"a": "Pool", "h": h, "ch": p.w.label(m), "ok": b2i(err == nil)})
	return err
}

// ------------------------------------------------------------------ block importer

type importer struct {
	w *world
	m base.BlockMap
}

func (*importer) WriteMap(base.BlockMap) error                             { return nil }
func (*importer) WriteItem(base.BlockItemType, isaac.BlockItemReader) error { return nil }

func (im *importer) Save(ctx context.Context) (func(context.Context) error, error) {
	w := im.w
	atomic.AddInt64(&w.inflight, 1)
	defer atomic.AddInt64(&w.inflight, -1)
	h := im.m.Manifest().Height().Int64()
	if r := w.point(ctx, "Save", h); r != nil && r.Fail != "" {
		w.emit(Ev{"a": "Save", "h": h, "ok": 0})
		return nil, errors.Errorf("verif: importer of block %d failed to save", h)
	}
	w.emit(Ev{"a": "Save", "h": h, "ok": 1})
	return func(ctx context.Context) error {
		atomic.AddInt64(&w.inflight, 1)
		defer atomic.AddInt64(&w.inflight, -1)
		w.point(ctx, "Merge", h)
		return w.merge(im.m)
	}, nil
}

func (im *importer) CancelImport(context.Context) error {
	im.w.emit(Ev{"a": "CancelImp", "h": im.m.Manifest().Height().Int64()})
	return nil
}

// ------------------------------------------------------------------ the syncer

func (w *world) newSyncer() error {
	encs, enc := encoders()
	w.readers = isaac.NewBlockItemReaders(w.root, encs, nil)
	if err := w.readers.Add(isaacblock.LocalFSWriterHint, isaacblock.NewDefaultItemReaderFunc(3)); err != nil {
		return err
	}
	tsp, err := isaacdatabase.NewLeveldbTempSyncPool(base.Height(w.sc.L0+1), leveldbstorage.NewMemStorage(), enc)
	if err != nil {
		return err
	}

	args := isaacstates.NewSyncerArgs()
	args.BatchLimit = w.sc.Batch
	args.TempSyncPool = &pool{TempSyncPool: tsp, w: w}
	args.LastBlockMapInterval = time.Hour
	if w.sc.LastMap {
		args.LastBlockMapInterval = 15 * time.Millisecond
	}
	args.LastBlockMapTimeout = time.Second
	args.LastBlockMapFunc = func(_ context.Context, manifest util.Hash) (base.BlockMap, bool, error) {
		if !w.sc.LastMap {
			return nil, false, nil
		}
		w.mu.Lock()
		m := w.chainA[w.remote]
		w.mu.Unlock()
		if manifest != nil && m.Manifest().Hash().Equal(manifest) {
			return nil, false, nil
		}
		// the syncer calls Add(height) with the answer
		w.emit(Ev{"a": "LastMap", "h": m.Manifest().Height().Int64()})
		return m, true, nil
	}
	args.BlockMapFunc = w.fetch
	args.RemovePrevBlockFunc = func(height base.Height) (bool, error) {
		atomic.AddInt64(&w.inflight, 1)
		defer atomic.AddInt64(&w.inflight, -1)
		h := height.Int64()
		if r := w.point(nil, "RemovePrev", h); r != nil && r.Fail != "" {
			w.emit(Ev{"a": "RemovePrev", "h": h, "removed": 0, "err": 1})
			return false, errors.Errorf("verif: failed to remove block %d", h)
		}
		removed := w.removeBlocks(h)
		w.emit(Ev{"a": "RemovePrev", "h": h, "removed": b2i(removed), "err": 0})
		return removed, nil
	}
	args.WhenStoppedFunc = func() error {
		w.emit(Ev{"a": "Stopped"})
		return nil
	}
	args.NewImportBlocksFunc = func(ctx context.Context, from, to base.Height, batchlimit int64,
		blockMapf func(context.Context, base.Height) (base.BlockMap, bool, error),
	) error {
		atomic.AddInt64(&w.inflight, 1)
		defer atomic.AddInt64(&w.inflight, -1)
		atomic.StoreInt32(&w.retrying, 0)
		k := fmt.Sprintf("%d-%d", from, to)
		w.mu.Lock()
		w.ncalls[k]++
		n := w.ncalls[k]
		w.mu.Unlock()
		w.emit(Ev{"a": "ImportCall", "from": from.Int64(), "to": to.Int64(), "n": n})
		w.point(ctx, "ImportCall", to.Int64())
		err := isaacblock.ImportBlocks(ctx, from, to, batchlimit, w.readers, blockMapf,
			func(context.Context, base.Height, base.BlockItemType, func(io.Reader, bool, string) error) error {
				return nil
			},
			func(m base.BlockMap) (isaac.BlockImporter, error) {
				h := m.Manifest().Height().Int64()
				w.point(ctx, "NewImp", h)
				w.emit(Ev{"a": "NewImp", "h": h, "ch": w.label(m)})
				return &importer{w: w, m: m}, nil
			},
			func([2]base.Voteproof, bool) error {
				w.emit(Ev{"a": "LastVps", "to": to.Int64()})
				return nil
			},
			func(ctx context.Context) error {
				w.point(ctx, "MergeAll", to.Int64())
				w.emit(Ev{"a": "MergeAll", "to": to.Int64()})
				return nil
			},
		)
		w.emit(Ev{"a": "ImportRet", "from": from.Int64(), "to": to.Int64(), "ok": b2i(err == nil)})
		if err != nil {
			atomic.StoreInt32(&w.retrying, 1) // syncBlocks waits one second (util.Retry) before the next call
			if n >= 3 {
				w.mu.Lock()
				w.livelock = true
				w.mu.Unlock()
			}
		}
		return err
	}

	var prev base.BlockMap
	if w.sc.L0 >= 0 {
		prev = w.chainA[w.sc.L0]
		if w.sc.ForkPrev {
			prev = w.localL
		}
	}
	w.s = isaacstates.NewSyncer(prev, args)
	return nil
}

func (w *world) fetch(ctx context.Context, height base.Height) (base.BlockMap, bool, error) {
	atomic.AddInt64(&w.inflight, 1)
	defer atomic.AddInt64(&w.inflight, -1)
	h := height.Int64()
	r := w.point(ctx, "Fetch", h)
	fail := ""
	if r != nil {
		fail = r.Fail
	}
	if fail == "" && ctx.Err() != nil { // a real fetcher gives up on a cancelled context
		w.emit(Ev{"a": "Fetch", "h": h, "res": "ctx", "ch": "-"})
		return nil, false, ctx.Err()
	}
	m, found := w.chainA[h]
	switch fail {
	case "err":
		w.emit(Ev{"a": "Fetch", "h": h, "res": "err", "ch": "-"})
		return nil, false, errors.Errorf("verif: source failed for block map %d", h)
	case "notfound":
		found = false
	case "badheight":
		if x, ok := w.chainA[h-1]; ok {
			w.emit(Ev{"a": "Fetch", "h": h, "res": "badheight", "ch": "A"})
			return x, true, nil
		}
	case "fork":
		if x, ok := w.chainB[h]; ok {
			w.emit(Ev{"a": "Fetch", "h": h, "res": "fork", "ch": "B"})
			return x, true, nil
		}
	case "forkat":
		if x, ok := w.chainC[h]; ok {
			w.emit(Ev{"a": "Fetch", "h": h, "res": "forkat", "ch": "C"})
			return x, true, nil
		}
	}
	if !found {
		w.emit(Ev{"a": "Fetch", "h": h, "res": "notfound", "ch": "-"})
		return nil, false, nil
	}
	w.emit(Ev{"a": "Fetch", "h": h, "res": "ok", "ch": "A"})
	return m, true, nil
}
