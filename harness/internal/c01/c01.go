// Package c01 replays every state of spec/Tally.tla into base.FindVoteResult,
// base.FindMajority and base.Threshold.VoteResult (binding A).
package c01

import (
	"encoding/json"
	"fmt"
	"math/rand"
	"os"
	"strconv"

	"github.com/spikeekips/mitum/base"

	"mitumverif/internal/h"
)

func init() { h.Register("C01", run) }

type kase struct {
	Q   uint   `json:"q"`
	T10 uint   `json:"t10"`
	R   uint   `json:"r"`
	Cnt []uint `json:"cnt"`
	Res string `json:"res"`
	Maj []int  `json:"maj"`
}

type result struct {
	I     int    `json:"i"`
	OK    bool   `json:"ok"`
	Entry string `json:"entry,omitempty"`
	Got   string `json:"got,omitempty"`
	Want  string `json:"want,omitempty"`
	Case  *kase  `json:"case,omitempty"`
	Calls int    `json:"calls"`
	Skip  int    `json:"skipped_threshold_entry,omitempty"` // C02 territory: Threshold(q) != Req
}

func run(args []string) error {
	fl := h.Flags(args)
	seed, _ := strconv.ParseInt(os.Getenv("VERIF_SEED"), 10, 64)
	rng := rand.New(rand.NewSource(seed))
	out, err := h.NewOut(fl["out"])
	if err != nil {
		return err
	}
	defer out.Close()
	i := 0
	return h.ReadNDJSON(fl["in"], func(line []byte) error {
		var k kase
		if err := json.Unmarshal(line, &k); err != nil {
			return err
		}
		i++
		res := result{I: i, OK: true}
		fail := func(entry, got, want string) {
			if res.OK {
				res.OK, res.Entry, res.Got, res.Want, res.Case = false, entry, got, want, &k
			}
		}
		// votes in three orders
		var votes []string
		for f, c := range k.Cnt {
			for j := uint(0); j < c; j++ {
				votes = append(votes, fmt.Sprintf("F%d", f+1))
			}
		}
		orders := [][]string{append([]string{}, votes...), rev(votes), shuffled(rng, votes)}
		check := func(entry string, r base.VoteResult, key string) {
			got := string(r)
			if got != k.Res {
				fail(entry, got+"/"+key, k.Res)
				return
			}
			if r == base.VoteResultMajority {
				ok := false
				for f := range k.Maj {
					if k.Maj[f] == 1 && key == fmt.Sprintf("F%d", f+1) {
						ok = true
					}
				}
				if !ok {
					fail(entry, "MAJORITY/"+key, "MAJORITY/one of maj")
				}
			} else if key != "" {
				fail(entry, got+"/"+key, got+"/<empty key>")
			}
		}
		for _, vs := range orders {
			var r base.VoteResult
			var key string
			if p := h.Catch(func() { r, key = base.FindVoteResult(k.Q, k.R, vs) }); p != "" {
				fail("FindVoteResult", p, k.Res)
				continue
			}
			res.Calls++
			check("FindVoteResult", r, key)
		}
		// FindMajority on the count vector (non-zero counts, as FindVoteResult builds it) in 3 orders
		var set []uint
		var idx []int
		for f, c := range k.Cnt {
			if c > 0 {
				set = append(set, c)
				idx = append(idx, f)
			}
		}
		for o := 0; o < 3 && len(set) > 0; o++ {
			s := append([]uint{}, set...)
			ix := append([]int{}, idx...)
			switch o {
			case 1:
				for a, b := 0, len(s)-1; a < b; a, b = a+1, b-1 {
					s[a], s[b], ix[a], ix[b] = s[b], s[a], ix[b], ix[a]
				}
			case 2:
				rng.Shuffle(len(s), func(a, b int) { s[a], s[b], ix[a], ix[b] = s[b], s[a], ix[b], ix[a] })
			}
			orig := append([]uint{}, s...)
			var m int
			if p := h.Catch(func() { m = base.FindMajority(k.Q, k.R, s...) }); p != "" {
				fail("FindMajority", p, k.Res)
				continue
			}
			res.Calls++
			switch {
			case m == -1:
				if k.Res != "NOT YET" {
					fail("FindMajority", "-1", k.Res)
				}
			case m == -2:
				if k.Res != "DRAW" {
					fail("FindMajority", "-2", k.Res)
				}
			case m >= 0 && m < len(orig):
				// index refers to the slice as passed
				if k.Res != "MAJORITY" || k.Maj[ix[m]] != 1 {
					fail("FindMajority", fmt.Sprintf("index %d (count %d)", m, orig[m]), k.Res)
				}
			default:
				fail("FindMajority", fmt.Sprintf("index %d out of range", m), k.Res)
			}
		}
		// threshold-taking entry, only where the real required count is the exact one (else: C02)
		if k.T10 != 0 {
			th := base.Threshold(float64(k.T10) / 10)
			if th.Threshold(k.Q) == k.R {
				var r base.VoteResult
				var key string
				if p := h.Catch(func() { r, key = th.VoteResult(k.Q, orders[2]) }); p != "" {
					fail("Threshold.VoteResult", p, k.Res)
				} else {
					res.Calls++
					check("Threshold.VoteResult", r, key)
				}
			} else {
				res.Skip = 1
			}
		}
		out.Emit(res)
		return nil
	})
}

func rev(s []string) []string {
	o := make([]string, len(s))
	for i := range s {
		o[len(s)-1-i] = s[i]
	}
	return o
}

func shuffled(r *rand.Rand, s []string) []string {
	o := append([]string{}, s...)
	r.Shuffle(len(o), func(a, b int) { o[a], o[b] = o[b], o[a] })
	return o
}
