// Package sufvote binds spec/SuffrageVoting.tla to the real isaac.SuffrageVoting.
//
// replay: every case is a call sequence printed by TLC (Vote(fact, signers) / Find(height)).
// Each one is performed on a fresh isaac.SuffrageVoting over a real isaacdatabase.TempPool
// (leveldb mem storage) with really signed isaac.SuffrageExpelOperations: one key per model
// node, one operation per (fact, signer set), signed once per world. After every call the
// harness reports what the call answered, what the voted callback was given and what the pool
// holds (fact, signers in stored order, IsValid against the network id). It judges nothing:
// check/props/sufvote.py compares with the values of the specification.
package sufvote

import (
	"context"
	"encoding/json"
	"fmt"
	"os"
	"runtime"
	"runtime/pprof"
	"sort"
	"strings"
	"sync"

	"github.com/spikeekips/mitum/base"
	"github.com/spikeekips/mitum/isaac"
	isaacdatabase "github.com/spikeekips/mitum/isaac/database"
	leveldbstorage "github.com/spikeekips/mitum/storage/leveldb"
	"github.com/spikeekips/mitum/util"
	"github.com/spikeekips/mitum/util/encoder"
	jsonenc "github.com/spikeekips/mitum/util/encoder/json"
	goleveldbopt "github.com/syndtr/goleveldb/leveldb/opt"
	goleveldbstorage "github.com/syndtr/goleveldb/leveldb/storage"

	"mitumverif/internal/h"
)

func init() { h.Register("SUFVOTE", run) }

type factT struct {
	Node string
	St   int64
	En   int64
}

func (f factT) key() string { return fmt.Sprintf("%s/%d/%d", f.Node, f.St, f.En) }

func (f *factT) UnmarshalJSON(b []byte) error {
	var a []json.RawMessage
	if err := json.Unmarshal(b, &a); err != nil {
		return err
	}
	if len(a) != 3 {
		return fmt.Errorf("fact needs 3 fields: %s", b)
	}
	if err := json.Unmarshal(a[0], &f.Node); err != nil {
		return err
	}
	if err := json.Unmarshal(a[1], &f.St); err != nil {
		return err
	}
	return json.Unmarshal(a[2], &f.En)
}

func (f factT) MarshalJSON() ([]byte, error) {
	return json.Marshal([]interface{}{f.Node, f.St, f.En})
}

type worldT struct {
	Member   []string `json:"member"`
	Outsider []string `json:"outsider"`
	Local    string   `json:"local"`
	InState  []factT  `json:"instate"`
	MaxH     int64    `json:"maxh"`
}

type callT struct {
	A string   `json:"a"` // "v" | "f"
	F factT    `json:"f"`
	S []string `json:"s"`
	H int64    `json:"h"`
}

type caseT struct {
	I     int      `json:"i"`
	World *worldT  `json:"world,omitempty"`
	Calls []callT  `json:"calls"`
	Alone bool     `json:"alone,omitempty"`
	Tag   []string `json:"tag,omitempty"`
}

type opOut struct {
	F     factT    `json:"f"`
	S     []string `json:"s"`             // NodeSigns() in stored order (the target's own is filtered by the code)
	Raw   int      `json:"raw"`           // len(Signs()): with the target's own signature
	Valid bool     `json:"valid"`         // IsValid(networkID) == nil: every signature verifies against THIS fact
	Why   string   `json:"why,omitempty"` // first line of the IsValid error
	Hash  string   `json:"hash,omitempty"`
}

type stepOut struct {
	A      string  `json:"a"`
	Voted  bool    `json:"voted"`
	Err    string  `json:"err,omitempty"`
	Panic  string  `json:"panic,omitempty"`
	Cb     []opOut `json:"cb,omitempty"`
	Ops    []opOut `json:"ops,omitempty"`
	Stored []opOut `json:"stored"`
}

type caseOut struct {
	I     int       `json:"i"`
	Steps []stepOut `json:"steps"`
}

type world struct {
	w      worldT
	enc    *jsonenc.Encoder
	encs   *encoder.Encoders
	netID  base.NetworkID
	nodes  map[string]base.LocalNode
	names  map[string]string // address string -> model name
	suf    base.Suffrage
	inst   map[string]bool // fact hash string -> in state
	mu     sync.Mutex
	ops    map[string]isaac.SuffrageExpelOperation
	cache  sync.Map
	starts []int64           // every height at which a fact of the cases starts: an operation covers its own start
	ophs   map[string]string // op key -> hash at creation (the harness' own objects must never be mutated)
}

func newWorld(w worldT) (*world, error) {
	enc := jsonenc.NewEncoder()
	encs := encoder.NewEncoders(enc, enc)
	for _, d := range []encoder.DecodeDetail{
		{Hint: base.MPublickeyHint, Instance: &base.MPublickey{}},
		{Hint: base.StringAddressHint, Instance: base.StringAddress{}},
		{Hint: isaac.SuffrageExpelOperationHint, Instance: isaac.SuffrageExpelOperation{}},
		{Hint: isaac.SuffrageExpelFactHint, Instance: isaac.SuffrageExpelFact{}},
	} {
		if err := enc.Add(d); err != nil {
			return nil, err
		}
	}
	wd := &world{w: w, enc: enc, encs: encs, netID: base.NetworkID("verif-sufvote"),
		nodes: map[string]base.LocalNode{}, names: map[string]string{}, inst: map[string]bool{},
		ops: map[string]isaac.SuffrageExpelOperation{}, ophs: map[string]string{}}
	var members []base.Node
	for _, n := range append(append([]string{}, w.Member...), w.Outsider...) {
		ln := base.NewBaseLocalNode(base.DummyNodeHint, base.NewMPrivatekey(), base.NewStringAddress("node-"+n))
		wd.nodes[n] = ln
		wd.names[ln.Address().String()] = n
	}
	for _, n := range w.Member {
		members = append(members, wd.nodes[n])
	}
	suf, err := isaac.NewSuffrage(members)
	if err != nil {
		return nil, err
	}
	wd.suf = suf
	for _, f := range w.InState {
		wd.inst[wd.fact(f).Hash().String()] = true
	}
	return wd, nil
}

func (w *world) fact(f factT) isaac.SuffrageExpelFact {
	return isaac.NewSuffrageExpelFact(w.nodes[f.Node].Address(), base.Height(f.St), base.Height(f.En), "verif "+f.key())
}

// op returns the operation for (fact, signers): signed in sorted signer order, made once.
func (w *world) op(f factT, signers []string) isaac.SuffrageExpelOperation {
	ss := append([]string{}, signers...)
	sort.Strings(ss)
	k := f.key() + "|" + strings.Join(ss, ",")
	w.mu.Lock()
	defer w.mu.Unlock()
	if o, ok := w.ops[k]; ok {
		return o
	}
	o := isaac.NewSuffrageExpelOperation(w.fact(f))
	for _, s := range ss {
		n, ok := w.nodes[s]
		if !ok {
			panic("unknown model node " + s)
		}
		if err := o.NodeSign(n.Privatekey(), w.netID, n.Address()); err != nil {
			panic(err)
		}
	}
	if err := o.IsValid(w.netID); err != nil {
		panic(fmt.Sprintf("generated operation %s is not valid: %+v", k, err))
	}
	w.ops[k] = o
	w.ophs[k] = o.Hash().String()
	return o
}

func (w *world) name(a base.Address) string {
	if n, ok := w.names[a.String()]; ok {
		return n
	}
	return "?" + a.String()
}

// describe reports an operation; the (costly) signature verification is cached by the operation's
// CONTENT (fact hash and signature bytes, BaseOperation.HashBytes) together with the hash it carries.
func (w *world) describe(op base.SuffrageExpelOperation) opOut {
	var ck string
	if hb, ok := op.(interface{ HashBytes() []byte }); ok && op.Hash() != nil {
		ck = op.Hash().String() + "/" + string(hb.HashBytes())
		if o, found := w.cache.Load(ck); found {
			return o.(opOut) //nolint:forcetypeassert //...
		}
	}
	o := w.describe0(op)
	if ck != "" {
		w.cache.Store(ck, o)
	}
	return o
}

func (w *world) describe0(op base.SuffrageExpelOperation) opOut {
	fact := op.ExpelFact()
	o := opOut{F: factT{Node: w.name(fact.Node()), St: fact.ExpelStart().Int64(), En: fact.ExpelEnd().Int64()}, S: []string{}}
	for _, s := range op.NodeSigns() {
		o.S = append(o.S, w.name(s.Node()))
	}
	o.Raw = len(op.Signs())
	if op.Hash() != nil {
		o.Hash = op.Hash().String()
	}
	var err error
	if pn := h.Catch(func() { err = op.IsValid(w.netID) }); pn != "" {
		o.Why = "panic in IsValid: " + firstLine(pn)
		return o
	}
	if err != nil {
		o.Why = firstLine(err.Error())
		return o
	}
	o.Valid = true
	return o
}

func firstLine(s string) string {
	if i := strings.IndexByte(s, '\n'); i >= 0 {
		s = s[:i]
	}
	if len(s) > 300 {
		s = s[:300]
	}
	return s
}

type runner struct {
	w    *world
	raw  *leveldbstorage.Storage
	pool *isaacdatabase.TempPool
}

func (w *world) newRunner() (*runner, error) {
	// leveldb mem storage as leveldbstorage.NewMemStorage() makes it, with a small write buffer (the
	// default 4 MiB buffer costs more to clear than a whole case costs to run)
	raw, err := leveldbstorage.NewStorage(goleveldbstorage.NewMemStorage(), &goleveldbopt.Options{WriteBuffer: 256 << 10})
	if err != nil {
		return nil, err
	}
	pool, err := isaacdatabase.NewTempPool(raw, w.encs, w.enc, 0)
	if err != nil {
		return nil, err
	}
	return &runner{w: w, raw: raw, pool: pool}, nil
}

func (r *runner) close() { _ = r.pool.Close(); _ = r.raw.Close() }

// stored reads the pool through its own traversal, height by height.
func (r *runner) stored() []opOut {
	seen := map[string]bool{}
	out := []opOut{}
	for _, ht := range r.w.starts {
		_ = r.pool.TraverseSuffrageExpelOperations(context.Background(), base.Height(ht),
			func(op base.SuffrageExpelOperation) (bool, error) {
				k := op.Fact().Hash().String()
				if !seen[k] {
					seen[k] = true
					out = append(out, r.w.describe(op))
				}
				return true, nil
			})
	}
	sort.Slice(out, func(i, j int) bool { return out[i].F.key() < out[j].F.key() })
	return out
}

func (r *runner) run(c caseT) caseOut {
	if err := r.pool.Clean(); err != nil {
		panic(err)
	}
	w := r.w
	var cbs []opOut
	sv := isaac.NewSuffrageVoting(w.nodes[w.w.Local].Address(), r.pool,
		func(hh util.Hash) (bool, error) { return w.inst[hh.String()], nil },
		func(op base.SuffrageExpelOperation) error { cbs = append(cbs, w.describe(op)); return nil },
	)
	out := caseOut{I: c.I}
	for _, cl := range c.Calls {
		st := stepOut{A: cl.A}
		switch cl.A {
		case "v":
			op := w.op(cl.F, cl.S)
			cbs = nil
			var voted bool
			var err error
			st.Panic = firstLine(h.Catch(func() { voted, err = sv.Vote(op) }))
			st.Voted = voted
			if err != nil {
				st.Err = firstLine(err.Error())
			}
			st.Cb = cbs
		case "f":
			var ops []base.SuffrageExpelOperation
			var err error
			st.Panic = firstLine(h.Catch(func() { ops, err = sv.Find(context.Background(), base.Height(cl.H), w.suf) }))
			if err != nil {
				st.Err = firstLine(err.Error())
			}
			st.Ops = []opOut{}
			for _, op := range ops {
				st.Ops = append(st.Ops, w.describe(op))
			}
		default:
			panic("unknown call " + cl.A)
		}
		st.Stored = r.stored()
		out.Steps = append(out.Steps, st)
	}
	return out
}

func run(args []string) error {
	if len(args) < 1 || args[0] != "replay" {
		return fmt.Errorf("usage: SUFVOTE replay --in cases.ndjson --out res.ndjson")
	}
	fl := h.Flags(args[1:])
	var wd *world
	var cases []caseT
	if err := h.ReadNDJSON(fl["in"], func(line []byte) error {
		var c caseT
		if err := json.Unmarshal(line, &c); err != nil {
			return fmt.Errorf("%w: %s", err, line)
		}
		if c.World != nil {
			var err error
			wd, err = newWorld(*c.World)
			return err
		}
		cases = append(cases, c)
		return nil
	}); err != nil {
		return err
	}
	if wd == nil {
		return fmt.Errorf("no world line in %s", fl["in"])
	}
	// make every operation before the workers start (signing order = first use order is irrelevant:
	// one object per (fact, signers))
	sts := map[int64]bool{}
	for _, c := range cases {
		for _, cl := range c.Calls {
			if cl.A == "v" {
				wd.op(cl.F, cl.S)
				if !sts[cl.F.St] {
					sts[cl.F.St] = true
					wd.starts = append(wd.starts, cl.F.St)
				}
			}
		}
	}
	if pf := os.Getenv("VERIF_PROF"); pf != "" {
		fd, err := os.Create(pf)
		if err != nil {
			return err
		}
		_ = pprof.StartCPUProfile(fd)
		defer pprof.StopCPUProfile()
	}
	nw := runtime.NumCPU() / 2
	if nw < 1 {
		nw = 1
	}
	if nw > 8 {
		nw = 8
	}
	res := make([]caseOut, len(cases))
	var wg sync.WaitGroup
	errs := make(chan error, nw)
	next := make(chan int, 1024)
	go func() {
		for i := range cases {
			next <- i
		}
		close(next)
	}()
	for k := 0; k < nw; k++ {
		wg.Add(1)
		go func() {
			defer wg.Done()
			r, err := wd.newRunner()
			if err != nil {
				errs <- err
				return
			}
			defer func() { r.close() }()
			n := 0
			for i := range next {
				// Clean() leaves tombstones in the mem storage and the pool's reverse iteration walks
				// over all of them: take a new storage every few cases
				if n++; n%4 == 0 {
					r.close()
					if r, err = wd.newRunner(); err != nil {
						errs <- err
						return
					}
				}
				res[i] = r.run(cases[i])
			}
		}()
	}
	wg.Wait()
	select {
	case err := <-errs:
		return err
	default:
	}
	// the harness' own operations must be what they were (Vote/Find work on decoded copies)
	for k, o := range wd.ops {
		if o.Hash().String() != wd.ophs[k] {
			return fmt.Errorf("operation %s of the harness was mutated by the code under test", k)
		}
		if err := o.IsValid(wd.netID); err != nil {
			return fmt.Errorf("operation %s of the harness was mutated by the code under test: %w", k, err)
		}
	}
	out, err := h.NewOut(fl["out"])
	if err != nil {
		return err
	}
	for i := range res {
		out.Emit(res[i])
	}
	if err := out.Close(); err != nil {
		return err
	}
	fmt.Fprintf(os.Stdout, "replayed %d cases with %d workers\n", len(res), nw)
	return nil
}
