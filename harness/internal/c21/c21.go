// Package c21: block commit is atomic across crashes (binding A and B of
// spec/BlockCommit.tla). Every crash configuration TLC enumerates - how many of the
// sequential storage writes of "write block X, write block Y, merge P, merge X, remove the
// merged temps" have landed, which of the parallel batches of X's permanent merge have
// landed - is forced on a real Center / LeveldbPermanent / LeveldbBlockWrite over a
// file-backed leveldb through the verif write hook of storage/leveldb; then all handles are
// dropped, the database is opened again as a node start does (new storage, permanent
// store, Center, MergeAllPermanent) and every read is compared with Database.tla's Reads
// for the chain up to the height the database reports.
package c21

import (
	"bytes"
	"encoding/hex"
	"encoding/json"
	"fmt"
	"os"
	"path/filepath"
	"runtime"
	"sort"
	"strconv"
	"sync"
	"time"

	"github.com/pkg/errors"
	"github.com/spikeekips/mitum/base"
	leveldbstorage "github.com/spikeekips/mitum/storage/leveldb"

	"mitumverif/internal/c19"
	"mitumverif/internal/h"
)

func init() { h.Register("C21", run) }

var errCrash = errors.New("verif: the process has stopped (fault injected)")

// Write is one storage write as the hook saw it.
type Write struct {
	A       string   `json:"a"`
	Kind    string   `json:"kind"` // tbatch | bm | proof | proofh | marker | tput | pbatch | remove | other
	Op      string   `json:"op"`
	N       int      `json:"n"`
	Classes []string `json:"classes"`
	HasBM   int      `json:"hasbm"`
	Landed  int      `json:"landed"`
	first   []byte
}

type ctl struct {
	mu          sync.Mutex
	armed       bool
	dead        bool
	seqAllowed  int
	permAllowed map[int]bool // 1-based index of X's permanent batches
	rmAllowed   int
	nseq        int // number of sequential writes of the scenario (the last one is perm-prev)
	seqCount    int
	rmCount     int
	permFirst   [][]byte // lowest key of X's permanent batches, in the order they are issued (from the dry run)
	log         []Write
	permLanded  []int
}

var (
	ctls   = map[*leveldbstorage.Storage]*ctl{}
	ctlsMu sync.RWMutex
)

func hook(st *leveldbstorage.Storage, op string, keys [][]byte, deletes int) error {
	ctlsMu.RLock()
	c := ctls[st]
	ctlsMu.RUnlock()

	if c == nil {
		return nil
	}

	return c.write(op, keys, deletes)
}

const tempKeyOffset = 2 + 8 + 26 // label + height + ULID

func classify(op string, keys [][]byte, deletes int) Write {
	w := Write{A: "w", Op: op, N: len(keys), Kind: "other"}
	cl := map[string]bool{}

	var region string

	for _, k := range keys {
		if len(k) < 4 {
			continue
		}

		var inner []byte

		switch {
		case k[0] == 0x01 && k[1] == 0x01 && len(k) >= tempKeyOffset+2:
			region = "temp"
			inner = k[tempKeyOffset : tempKeyOffset+2]
		case k[0] == 0x01 && k[1] == 0x02:
			region = "perm"
			inner = k[2:4]
		default:
			region = "other"
			inner = k[:2]
		}

		cl[hex.EncodeToString(inner)] = true

		if w.first == nil || bytes.Compare(k, w.first) < 0 {
			w.first = k
		}
	}

	for c := range cl {
		w.Classes = append(w.Classes, c)
	}

	sort.Strings(w.Classes)

	if cl["0206"] {
		w.HasBM = 1
	}

	switch {
	case deletes > 0:
		w.Kind = "remove"
	case region == "perm" && op == "batch":
		w.Kind = "pbatch"
	case region == "temp" && op == "batch":
		w.Kind = "tbatch"
	case region == "temp" && op == "put" && len(w.Classes) == 1:
		switch w.Classes[0] {
		case "0206":
			w.Kind = "bm"
		case "020d":
			w.Kind = "proof"
		case "020e":
			w.Kind = "proofh"
		case "0210":
			w.Kind = "marker"
		default:
			w.Kind = "tput"
		}
	}

	return w
}

func (c *ctl) write(op string, keys [][]byte, deletes int) error {
	w := classify(op, keys, deletes)

	c.mu.Lock()
	defer c.mu.Unlock()

	// A batch of X's permanent merge that is not to land is held back until the ones that are to land have
	// landed: its failure cancels the worker pool, and the batches not yet started would never be issued.
	if c.armed && w.Kind == "pbatch" && c.seqCount >= c.nseq && !c.permAllowed[c.permIndex(w.first)] {
		for i := 0; i < 500 && len(c.permLanded) < len(c.permAllowed); i++ {
			c.mu.Unlock()
			time.Sleep(time.Millisecond)
			c.mu.Lock()
		}
	}

	if !c.armed {
		return nil
	}

	allow := false

	switch {
	case w.Kind == "remove":
		allow = !c.dead && c.rmCount < c.rmAllowed
		if allow {
			c.rmCount++
		}
	case w.Kind == "pbatch" && c.seqCount >= c.nseq:
		// one of X's parallel batches: it lands iff the configuration says so, whatever else has failed
		idx := c.permIndex(w.first)
		allow = c.permAllowed[idx]

		if allow {
			c.permLanded = append(c.permLanded, idx)
		}
	default:
		// sequential part (X, Y, merge of P)
		allow = !c.dead && c.seqCount < c.seqAllowed
		if allow {
			c.seqCount++
		}
	}

	if allow {
		w.Landed = 1
	} else {
		c.dead = true
	}

	c.log = append(c.log, w)

	if !allow {
		return errCrash
	}

	return nil
}

func (c *ctl) permIndex(first []byte) int {
	for i := range c.permFirst {
		if bytes.Equal(c.permFirst[i], first) {
			return i + 1
		}
	}

	return -1
}

// Case is one crash configuration of BlockCommit.tla.
type Case struct {
	ID       int         `json:"id"`
	Mode     string      `json:"mode"` // "crash" | "log"
	NFill    int         `json:"nfill"`
	Suf      bool        `json:"suf"`
	Seq      int         `json:"seq"`
	Perm     []int       `json:"perm"`
	Rm       int         `json:"rm"`
	NSeq     int         `json:"nseq"`
	NP       int         `json:"np"`
	Last     int         `json:"last"`
	X        string      `json:"x"`
	OK       bool        `json:"ok"`
	Reads    []*c19.Want `json:"reads"`
	SeqNames []string    `json:"seqnames"`
}

type Result struct {
	ID         int        `json:"id"`
	Last       int        `json:"last"`            // height the restarted database reports
	Diffs      []c19.Diff `json:"diffs,omitempty"` // reads vs Reads of the chain up to Last
	FillFound  int        `json:"fill_found"`
	FillTotal  int        `json:"fill_total"`
	SeqLanded  int        `json:"seq_landed"`
	PermLanded []int      `json:"perm_landed"`
	RmLanded   int        `json:"rm_landed"`
	Stopped    string     `json:"stopped,omitempty"` // the call during which the process stopped
	Continue   string     `json:"continue,omitempty"`
	Infeasible string     `json:"infeasible,omitempty"` // the configuration could not be produced (never an alarm)
	Errs       []string   `json:"errs,omitempty"`
	Panic      string     `json:"panic,omitempty"`
	Fatal      string     `json:"fatal,omitempty"`
	Log        []Write    `json:"log,omitempty"`
	NKeysX     int        `json:"nkeysx"`
}

var keys4 = []string{"a", "b", c19.KeySUF, c19.KeyPOL}

type scenario struct {
	db   *c19.DB
	gen  *c19.Gen
	c    *ctl
	x, y *c19.Block
}

func xKeys(suf bool) []string {
	if suf {
		return []string{"a", "b", c19.KeySUF, c19.KeyPOL}
	}

	return []string{"a", "b", c19.KeyPOL}
}

// prepare: fresh database, blocks 0 and 1 committed, 0 merged into the permanent store.
func prepare(env *c19.Env, dir string, nfill int, suf bool) (*scenario, error) {
	gen := c19.NewGen(env)
	db := c19.NewDB(env, gen, dir, 64, 64)
	c := &ctl{}

	db.AfterOpenSt = func(d *c19.DB) {
		ctlsMu.Lock()
		ctls[d.St] = c
		ctlsMu.Unlock()
	}

	if err := db.Open(); err != nil {
		return nil, err
	}

	s := &scenario{db: db, gen: gen, c: c}

	b0, err := gen.NewBlock(0, 1, []string{"a", c19.KeySUF, c19.KeyPOL}, 0, 0)
	if err != nil {
		return nil, err
	}

	b1, err := gen.NewBlock(1, 1, []string{"b"}, -1, 0)
	if err != nil {
		return nil, err
	}

	for _, b := range []*c19.Block{b0, b1} {
		if err := db.WriteBlock(b); err != nil {
			return nil, err
		}
	}

	if err := db.Center.MergeAllPermanent(); err != nil {
		return nil, err
	}

	// block 0's merged temp is removed before the scenario starts
	if err := db.Center.VerifCleanRemoved(0); err != nil {
		return nil, err
	}

	sh := -1
	if suf {
		sh = 1
	}

	if s.x, err = gen.NewBlock(2, 1, xKeys(suf), sh, nfill); err != nil {
		return nil, err
	}

	if s.y, err = gen.NewBlock(3, 1, []string{"a"}, -1, 0); err != nil {
		return nil, err
	}

	return s, nil
}

func (s *scenario) forget() {
	ctlsMu.Lock()
	for st, c := range ctls {
		if c == s.c {
			delete(ctls, st)
		}
	}
	ctlsMu.Unlock()
}

// commit runs the scenario until a call fails; returns the name of the failing call.
func (s *scenario) commit() string {
	if err := s.db.WriteBlock(s.x); err != nil {
		return "write X"
	}

	if err := s.db.WriteBlock(s.y); err != nil {
		return "write Y"
	}

	if _, err := s.db.Center.VerifMergeOne(); err != nil {
		return "merge P"
	}

	if _, err := s.db.Center.VerifMergeOne(); err != nil {
		return "merge X"
	}

	if err := s.db.Center.VerifCleanRemoved(0); err != nil {
		return "clean removed"
	}

	return ""
}

var (
	dryMu    sync.Mutex
	dryCache = map[string][][]byte{}
	dryLogs  = map[string][]Write{}
)

// dry: the fault-free run; gives the write log (binding B) and the first keys of X's permanent batches.
func dry(env *c19.Env, root string, nfill int, suf bool) ([][]byte, []Write, error) {
	key := fmt.Sprintf("%d-%v", nfill, suf)

	dryMu.Lock()
	defer dryMu.Unlock()

	if f, ok := dryCache[key]; ok {
		return f, dryLogs[key], nil
	}

	dir := filepath.Join(root, "dry-"+key)
	defer os.RemoveAll(dir)

	s, err := prepare(env, dir, nfill, suf)
	if err != nil {
		return nil, nil, err
	}

	defer s.forget()
	defer func() { _ = s.db.Close() }()

	s.c.mu.Lock()
	s.c.armed = true
	s.c.seqAllowed = 1 << 30
	s.c.rmAllowed = 1 << 30
	s.c.nseq = 1 << 30 // every permanent batch counts as sequential here: all land
	s.c.mu.Unlock()

	if at := s.commit(); at != "" {
		return nil, nil, errors.Errorf("fault-free run stopped at %q", at)
	}

	s.c.mu.Lock()
	log := append([]Write{}, s.c.log...)
	s.c.mu.Unlock()

	// X's permanent batches: the pbatch writes after the first one (which is P's)
	var firsts [][]byte

	np := 0

	for i := range log {
		if log[i].Kind == "pbatch" {
			np++

			if np > 1 {
				firsts = append(firsts, log[i].first)
			}
		}
	}

	// the temp is iterated in descending key order: the batch with the highest keys is issued first
	sort.Slice(firsts, func(i, j int) bool { return bytes.Compare(firsts[i], firsts[j]) > 0 })

	dryCache[key] = firsts
	dryLogs[key] = log

	return firsts, log, nil
}

type runner struct {
	env  *c19.Env
	root string
}

func (r *runner) run(c *Case) (res Result) {
	res.ID = c.ID
	res.Last = -9

	if p := h.Catch(func() { r.run1(c, &res) }); p != "" {
		res.Panic = p
	}

	return res
}

func (r *runner) run1(c *Case, res *Result) {
	firsts, log, err := dry(r.env, r.root, c.NFill, c.Suf)
	if err != nil {
		res.Fatal = fmt.Sprintf("dry run: %+v", err)

		return
	}

	if c.Mode == "log" {
		res.Log = log

		return
	}

	if len(firsts) != c.NP {
		res.Fatal = fmt.Sprintf("the fault-free run wrote %d permanent batches for X, the model has %d", len(firsts), c.NP)

		return
	}

	dir := filepath.Join(r.root, fmt.Sprintf("case-%d", c.ID))
	defer os.RemoveAll(dir)

	s, err := prepare(r.env, dir, c.NFill, c.Suf)
	if err != nil {
		res.Fatal = fmt.Sprintf("prepare: %+v", err)

		return
	}

	defer s.forget()

	res.NKeysX = 2 // known operations
	for _, st := range append(append([]base.State{}, s.x.States...), s.x.ExtraSts...) {
		res.NKeysX += 1 + len(st.Operations())
	}

	s.c.mu.Lock()
	s.c.armed = true
	s.c.seqAllowed = c.Seq
	s.c.rmAllowed = c.Rm
	s.c.nseq = c.NSeq
	s.c.permFirst = firsts
	s.c.permAllowed = map[int]bool{}

	for _, i := range c.Perm {
		s.c.permAllowed[i] = true
	}
	s.c.mu.Unlock()

	res.Stopped = s.commit()

	// the batches that were let through before the failing one may still be on their way to the storage
	c19.WaitFrames("mergeTempDatabaseFromLeveldb")

	s.c.mu.Lock()
	s.c.dead = true
	res.SeqLanded = s.c.seqCount
	res.RmLanded = s.c.rmCount
	res.PermLanded = append([]int{}, s.c.permLanded...)
	unknown := false

	for _, w := range s.c.log {
		if w.Kind == "pbatch" && w.Landed == 0 && s.c.seqCount >= s.c.nseq && s.c.permIndex(w.first) < 0 {
			unknown = true
		}
	}
	s.c.mu.Unlock()

	sort.Ints(res.PermLanded)

	// the process is gone: every handle is dropped, nothing is written any more
	_ = s.db.Close()
	s.forget()

	if unknown {
		res.Fatal = "a permanent batch of X could not be identified"

		return
	}

	want := append([]int{}, c.Perm...)
	sort.Ints(want)

	if res.SeqLanded != c.Seq || fmt.Sprint(res.PermLanded) != fmt.Sprint(want) || res.RmLanded != c.Rm {
		res.Infeasible = fmt.Sprintf("landed seq=%d perm=%v rm=%d, wanted seq=%d perm=%v rm=%d", res.SeqLanded, res.PermLanded,
			res.RmLanded, c.Seq, want, c.Rm)

		return
	}

	// start again, as a node does: storage, permanent store, Center (loadTemps), MergeAllPermanent
	db2 := c19.NewDB(r.env, s.gen, dir, 64, 64)
	if err := db2.Open(); err != nil {
		res.Diffs = append(res.Diffs, c19.Diff{Read: "Restart", Got: "error: " + err.Error(), Want: "ok"})

		return
	}

	defer func() { _ = db2.Close() }()

	if err := db2.Center.MergeAllPermanent(); err != nil {
		res.Diffs = append(res.Diffs, c19.Diff{Read: "Restart.MergeAllPermanent", Got: "error: " + err.Error(), Want: "ok"})

		return
	}

	m, found, err := db2.Center.LastBlockMap()

	switch {
	case err != nil:
		res.Diffs = append(res.Diffs, c19.Diff{Read: "LastBlockMap", Got: "error: " + err.Error(), Want: "ok"})

		return
	case !found:
		res.Last = -1
	default:
		res.Last = int(m.Manifest().Height().Int64())
	}

	if res.Last < 0 || res.Last >= len(c.Reads) {
		res.Diffs = append(res.Diffs, c19.Diff{Read: "LastBlockMap", Got: strconv.Itoa(res.Last), Want: "1..3"})

		return
	}

	o := db2.Observe(db2.Center, keys4, 4, false)

	for _, e := range o.Errs {
		res.Errs = append(res.Errs, e)
	}

	res.Diffs = append(res.Diffs, c19.Compare(o, c.Reads[res.Last], keys4)...)

	// "every state" of X: the filler states
	res.FillTotal = len(s.x.ExtraSts)

	c19.ReadRound(func() { r.fillers(s, db2, res) })

	// the chain goes on from what is visible
	r.goOn(s, db2, res)
}

func (r *runner) fillers(s *scenario, db2 *c19.DB, res *Result) {
	for _, st := range s.x.ExtraSts {
		got, found, err := db2.Center.State(st.Key())
		if err != nil {
			res.Errs = append(res.Errs, "State(filler): "+err.Error())

			continue
		}

		if found && got.Hash().Equal(st.Hash()) {
			allops := true

			for _, op := range st.Operations() {
				if ok, _ := db2.Center.ExistsInStateOperation(op); !ok {
					allops = false
				}
			}

			if allops {
				res.FillFound++
			}
		}
	}

}

func (r *runner) goOn(s *scenario, db2 *c19.DB, res *Result) {
	next := res.Last + 1

	nb, err := s.gen.NewBlock(next, 2, []string{"b"}, -1, 0)
	if err != nil {
		res.Fatal = err.Error()

		return
	}

	if err := db2.WriteBlock(nb); err != nil {
		res.Continue = "write of height " + strconv.Itoa(next) + " fails: " + err.Error()

		return
	}

	switch m, found, err := db2.Center.LastBlockMap(); {
	case err != nil || !found:
		res.Continue = "no last block map after the next block"
	case int(m.Manifest().Height().Int64()) != next:
		res.Continue = fmt.Sprintf("last block map is %d after writing %d", m.Manifest().Height().Int64(), next)
	}
}

func run(args []string) error {
	if len(args) < 1 || args[0] != "run" {
		return errors.Errorf("usage: C21 run --in --out --dir")
	}

	fl := h.Flags(args[1:])

	env, err := c19.NewEnv()
	if err != nil {
		return err
	}

	root := fl["dir"]
	if root == "" {
		return errors.Errorf("--dir (under the run's work dir) is required")
	}

	if err := os.MkdirAll(root, 0o755); err != nil {
		return err
	}

	leveldbstorage.VerifWriteHook = hook

	out, err := h.NewOut(fl["out"])
	if err != nil {
		return err
	}

	defer out.Close()

	jobs := make(chan []byte, 64)

	var wg sync.WaitGroup

	var ferr error

	var fmu sync.Mutex

	workers := runtime.NumCPU()
	if workers > 8 {
		workers = 8
	}

	for i := 0; i < workers; i++ {
		wg.Add(1)

		go func() {
			defer wg.Done()

			r := &runner{env: env, root: root}

			for line := range jobs {
				var c Case
				if err := json.Unmarshal(line, &c); err != nil {
					fmu.Lock()
					ferr = err
					fmu.Unlock()

					continue
				}

				out.Emit(r.run(&c))
			}
		}()
	}

	err = h.ReadNDJSON(fl["in"], func(line []byte) error {
		jobs <- line

		return nil
	})

	close(jobs)
	wg.Wait()

	if err != nil {
		return err
	}

	return ferr
}
