// Package c09 drives a real isaacstates.States whose state handlers are verif stubs with
// scripted enter/exit outcomes (the handler interfaces are unexported; the stubs live in
// /repo/isaac/states/verif_states.go) and records one event per call / gate passage.
//
//	force: every schedule (a maximal behaviour of spec/States.tla, exported by TLC) is forced on
//	       the real code through the gates "switch:begin" / "switch:checked" (binding G)
//	free:  seeded random concurrent drivers (askers, a toggler, Hold, handover-y broker)
//
// The event log of both is validated by spec/StatesTrace.tla (binding B).
package c09

import (
	"context"
	"encoding/json"
	"fmt"
	"math/rand"
	"net"
	"os"
	"runtime"
	"strconv"
	"strings"
	"sync"
	"sync/atomic"
	"time"

	"github.com/spikeekips/mitum/base"
	isaacstates "github.com/spikeekips/mitum/isaac/states"
	"github.com/spikeekips/mitum/network/quicstream"

	"mitumverif/internal/h"
)

func init() {
	h.Register("C09", run)
	isaacstates.VerifSetGate(gate)
}

type ev = map[string]interface{}

var runs sync.Map // *isaacstates.States -> *runner

func gate(point string, args ...interface{}) {
	if !strings.HasPrefix(point, "switch:") || len(args) < 3 {
		return
	}

	st, ok := args[0].(*isaacstates.States)
	if !ok {
		return
	}

	v, ok := runs.Load(st)
	if !ok {
		return
	}

	v.(*runner).gate(point, string(args[1].(isaacstates.StateType)), string(args[2].(isaacstates.StateType)))
}

func gid() int64 {
	var b [64]byte
	n := runtime.Stack(b[:], false)
	s := strings.TrimPrefix(string(b[:n]), "goroutine ")
	if i := strings.IndexByte(s, ' '); i > 0 {
		s = s[:i]
	}
	v, _ := strconv.ParseInt(s, 10, 64)

	return v
}

type arrival struct {
	point   string
	f, n    string
	release chan struct{}
}

type outcome struct {
	exit, enter, rd string
}

type runner struct {
	st      *isaacstates.States
	out     *h.Out
	mu      sync.Mutex // event order, counters, rng
	logging bool
	count   map[string]int
	nev     int
	forced  atomic.Bool
	jitter  bool
	done    chan struct{}
	pmu     sync.Mutex
	parked  map[string]*arrival
	next    map[string]*outcome
	holdGid atomic.Int64
	rng     *rand.Rand
	intWG   sync.WaitGroup
	ids     int
	cancel  func()
	envMu   sync.Mutex // toggles and handover-y calls are not concurrent with each other (their events have no call/return pair)
}

var (
	networkID = base.NetworkID([]byte("verif-c09"))
	local     = base.RandomLocalNode()
	yci       = quicstream.UnsafeConnInfo(&net.UDPAddr{IP: net.IPv4(127, 0, 0, 1), Port: 4321}, true)
)

func newRunner(out *h.Out, al bool, seed int64) (*runner, error) {
	r := &runner{
		out: out, logging: true, count: map[string]int{}, done: make(chan struct{}),
		parked: map[string]*arrival{}, next: map[string]*outcome{}, rng: rand.New(rand.NewSource(seed)),
	}

	yargs := isaacstates.NewHandoverYBrokerArgs(networkID)
	yargs.SyncDataFunc = func(_ context.Context, _ quicstream.ConnInfo, readych chan<- struct{}) error {
		readych <- struct{}{}

		return nil
	}
	yargs.AskRequestFunc = func(context.Context, quicstream.ConnInfo) (string, bool, error) {
		return "verif-handover", false, nil
	}
	yargs.SendMessageFunc = func(context.Context, quicstream.ConnInfo, isaacstates.HandoverMessage) error {
		return nil
	}

	args := isaacstates.NewStatesArgs()
	args.AllowConsensus = al
	args.NewHandoverYBroker = func(ctx context.Context, ci quicstream.ConnInfo) (*isaacstates.HandoverYBroker, error) {
		return isaacstates.NewHandoverYBroker(ctx, yargs, ci), nil
	}

	st, err := isaacstates.NewStates(networkID, local, args)
	if err != nil {
		return nil, err
	}

	r.st = st
	st.SetWhenStateSwitched(func(next isaacstates.StateType) {
		t := r.thread()
		r.emit(ev{"a": "Switched", "t": t, "n": string(next), "cur": string(st.Current())})
	})
	st.VerifSetStubHandlers(r.script)
	runs.Store(st, r)

	r.emit(ev{"a": "Reset", "al": al})

	return r, nil
}

// start starts the daemon and waits until States.start() has installed the stopped
// handler and called switchState for the first time (requests before that see no current
// handler; the boot window is not part of the property).
func (r *runner) start() error {
	ctx, cancel := context.WithCancel(context.Background())
	r.cancel = cancel

	if err := r.st.Start(ctx); err != nil {
		return err
	}

	if !r.waitCount("loop/Begin", 1) {
		return fmt.Errorf("states did not start")
	}

	return nil
}

func (r *runner) thread() string {
	if g := r.holdGid.Load(); g != 0 && g == gid() {
		return "hold"
	}

	return "loop"
}

func (r *runner) emit(e ev) {
	r.mu.Lock()
	defer r.mu.Unlock()

	if !r.logging {
		return
	}

	r.out.Emit(e)
	r.nev++

	k := fmt.Sprint(e["a"])
	if t, ok := e["t"]; ok {
		k = fmt.Sprint(t) + "/" + k
	}

	r.count[k]++
}

func (r *runner) counter(k string) int {
	r.mu.Lock()
	defer r.mu.Unlock()

	return r.count[k]
}

func (r *runner) events() int {
	r.mu.Lock()
	defer r.mu.Unlock()

	return r.nev
}

func (r *runner) newID() int {
	r.mu.Lock()
	defer r.mu.Unlock()

	r.ids++

	return r.ids
}

// ---------------------------------------------------------------- hooks

func (r *runner) gate(point, f, n string) {
	t := r.thread()

	name := "Begin"
	if point == "switch:checked" {
		name = "Checked"
	}

	r.emit(ev{"a": name, "t": t, "f": f, "n": n})

	switch {
	case r.forced.Load():
		a := &arrival{point: point, f: f, n: n, release: make(chan struct{})}

		r.pmu.Lock()
		r.parked[t] = a
		r.pmu.Unlock()

		select {
		case <-a.release:
		case <-r.done:
		}
	case r.jitter:
		r.mu.Lock()
		k := r.rng.Intn(6)
		r.mu.Unlock()

		switch {
		case k < 2:
			runtime.Gosched()
		case k == 2:
			time.Sleep(time.Duration(20+k*30) * time.Microsecond)
		}
	}
}

func (r *runner) script(_ *isaacstates.States, e isaacstates.VerifStubEvent) isaacstates.VerifStubReply {
	switch e.Kind {
	case "exit":
		t := r.thread()
		o := r.pick(t, e).exit

		r.emit(ev{"a": "Exit", "t": t, "st": string(e.State), "n": string(e.Next), "o": o})

		if o == "finish" {
			return isaacstates.VerifStubReply{Outcome: "ok", Finish: true}
		}

		return isaacstates.VerifStubReply{Outcome: o}
	case "enter":
		t := r.thread()
		p := r.pick(t, e)
		rd := ""
		if p.enter == "redirect" {
			rd = p.rd
		}

		r.emit(ev{
			"a": "Enter", "t": t, "st": string(e.State), "from": string(e.From), "sf": string(e.SctxFrom),
			"prev": string(e.Prev), "al": e.Allowed, "o": p.enter, "rd": rd,
		})

		return isaacstates.VerifStubReply{Outcome: p.enter, Redirect: isaacstates.StateType(rd)}
	case "allow":
		r.emit(ev{"a": "Notify", "st": string(e.State), "b": e.Allow})

		if !e.Allow {
			// what JoiningHandler / ConsensusHandler do: ask to move to syncing, from a goroutine
			r.intWG.Add(1)

			go func() {
				defer r.intWG.Done()

				r.ask(string(e.State), "SYNCING", true)
			}()
		}
	}

	return isaacstates.VerifStubReply{}
}

var allStates = []string{"STOPPED", "BOOTING", "JOINING", "CONSENSUS", "SYNCING", "HANDOVER", "BROKEN"}

// pick returns the scripted (forced) or a random (free) outcome of the call.
func (r *runner) pick(t string, e isaacstates.VerifStubEvent) outcome {
	r.mu.Lock()
	defer r.mu.Unlock()

	if !r.jitter {
		if o := r.next[t]; o != nil {
			return *o
		}

		return outcome{exit: "ok", enter: "ok"}
	}

	o := outcome{exit: "ok", enter: "ok"}

	if e.Kind == "exit" {
		switch k := r.rng.Intn(20); {
		case k == 0:
			o.exit = "error"
		case k == 1:
			o.exit = "ignore"
		case k < 8 && e.State == isaacstates.StateHandover:
			o.exit = "finish"
		}

		return o
	}

	switch k := r.rng.Intn(20); {
	case k == 0 || (k == 1 && e.State != isaacstates.StateBroken):
		o.enter = "error"
	case k == 2:
		o.enter = "ignore"
	case k < 7:
		o.enter = "redirect"
		o.rd = []string{"SYNCING", "SYNCING", "JOINING", "CONSENSUS", "BOOTING", "BROKEN", "HANDOVER"}[r.rng.Intn(7)]
	case e.State == isaacstates.StateBooting && k < 14:
		o.enter = "redirect"
		o.rd = []string{"SYNCING", "JOINING"}[r.rng.Intn(2)]
	}

	return o
}

// ---------------------------------------------------------------- calls

func (r *runner) ask(f, n string, internal bool) {
	id := r.newID()
	r.emit(ev{"a": "AskC", "id": id, "f": f, "n": n, "int": internal})
	_ = r.st.VerifAskMoveState(isaacstates.StateType(f), isaacstates.StateType(n))
	r.emit(ev{"a": "AskR", "id": id})
}

func (r *runner) toggle(b bool) {
	r.envMu.Lock()
	defer r.envMu.Unlock()

	id := r.newID()
	r.emit(ev{"a": "TogC", "id": id, "b": b})
	set := r.st.SetAllowConsensus(b)
	r.emit(ev{"a": "TogR", "id": id, "set": set})
}

func (r *runner) hold() {
	id := r.newID()
	r.holdGid.Store(gid())
	r.emit(ev{"a": "HoldC", "id": id})
	_ = r.st.Hold()
	r.emit(ev{"a": "HoldR", "id": id})
	r.holdGid.Store(0)
}

func (r *runner) newY() bool {
	r.envMu.Lock()
	defer r.envMu.Unlock()

	err := r.st.NewHandoverYBroker(yci)
	r.emit(ev{"a": "NewY", "ok": err == nil})

	return err == nil
}

func (r *runner) askY() bool {
	r.envMu.Lock()
	defer r.envMu.Unlock()

	asked := false

	for i := 0; i < 400 && !asked; i++ {
		b := r.st.HandoverYBroker()
		if b == nil {
			break
		}

		if b.IsAsked() {
			// already asked before: the model's AskY is not enabled again
			return true
		}

		_, ok, err := b.Ask()
		if err != nil {
			break
		}

		if asked = ok; !asked {
			time.Sleep(500 * time.Microsecond)
		}
	}

	r.emit(ev{"a": "AskY", "ok": asked})

	return asked
}

// ---------------------------------------------------------------- forced schedules

var arriveTimeout = 2 * time.Second

func (r *runner) waitArrive(t, point string) *arrival {
	deadline := time.Now().Add(arriveTimeout)

	for {
		r.pmu.Lock()
		a := r.parked[t]
		r.pmu.Unlock()

		if a != nil && a.point == point {
			return a
		}

		if time.Now().After(deadline) {
			return nil
		}

		time.Sleep(50 * time.Microsecond)
	}
}

func (r *runner) parkedAt(t string) *arrival {
	r.pmu.Lock()
	defer r.pmu.Unlock()

	return r.parked[t]
}

func (r *runner) release(t string) {
	r.pmu.Lock()
	a := r.parked[t]
	r.parked[t] = nil
	r.pmu.Unlock()

	if a != nil {
		close(a.release)
	}
}

func (r *runner) waitCount(k string, want int) bool {
	deadline := time.Now().Add(arriveTimeout)

	for r.counter(k) < want {
		if time.Now().After(deadline) {
			return false
		}

		time.Sleep(50 * time.Microsecond)
	}

	return true
}

func settle() { time.Sleep(3 * time.Millisecond) }

// quiesce waits until no event has been logged for a while.
func (r *runner) quiesce() {
	last := r.events()
	stable := 0

	for i := 0; i < 2000 && stable < 3; i++ {
		time.Sleep(time.Millisecond)

		if n := r.events(); n == last {
			stable++
		} else {
			stable = 0
			last = n
		}
	}
}

func (r *runner) finish() (stuck bool) {
	r.mu.Lock()
	r.logging = false
	r.mu.Unlock()

	r.forced.Store(false)
	close(r.done)

	stopped := make(chan struct{})

	go func() {
		_ = r.st.Stop()
		close(stopped)
	}()

	select {
	case <-stopped:
	case <-time.After(5 * time.Second):
		stuck = true
	}

	if r.cancel != nil {
		r.cancel()
	}

	runs.Delete(r.st)

	return stuck
}

type step struct {
	A  string `json:"a"`
	T  string `json:"t"`
	F  string `json:"f"`
	N  string `json:"n"`
	K  string `json:"k"`
	O  string `json:"o"`
	Rd string `json:"rd"`
	B  bool   `json:"b"`
	Al bool   `json:"al"`
}

// force runs one schedule; returns "" if every step was carried out as scheduled, else the
// reason why not (infeasible: a goroutine did not arrive / arrived elsewhere; diverged: the
// code answered differently from the model). Either way the log is a real execution.
func force(out *h.Out, steps []step, seed int64) (reason string, stuck bool, err error) {
	if len(steps) < 1 || steps[0].A != "Init" {
		return "", false, fmt.Errorf("schedule does not start with Init")
	}

	r, err := newRunner(out, steps[0].Al, seed)
	if err != nil {
		return "", false, err
	}

	r.forced.Store(true)

	if err := r.start(); err != nil {
		return "", false, err
	}

	nEnter := map[string]int{}
	nExit := map[string]int{}
	nRep := map[string]int{}
	hadY := false

loop:
	for i, s := range steps[1:] {
		switch s.A {
		case "Ask":
			r.ask(s.F, s.N, false)
		case "IAsk", "FinalStop":
		case "Take":
			a := r.waitArrive("loop", "switch:begin")

			switch {
			case a == nil:
				reason = fmt.Sprintf("infeasible:step %d Take: loop did not arrive", i+1)

				break loop
			case a.f != s.F || a.n != s.N:
				reason = fmt.Sprintf("infeasible:step %d Take: order (%s,%s) taken instead of (%s,%s)", i+1, a.f, a.n, s.F, s.N)

				break loop
			}
		case "Snap":
			if a := r.waitArrive(s.T, "switch:begin"); a == nil {
				reason = fmt.Sprintf("infeasible:step %d Snap: %s did not arrive", i+1, s.T)

				break loop
			}

			r.release(s.T)
		case "Check":
			if s.K == "pass" {
				a := r.waitArrive(s.T, "switch:checked")

				switch {
				case a == nil:
					reason = fmt.Sprintf("diverged:step %d Check: no passed check, model (%s,%s)", i+1, s.F, s.N)

					break loop
				case a.f != s.F || a.n != s.N:
					reason = fmt.Sprintf("diverged:step %d Check: (%s,%s), model (%s,%s)", i+1, a.f, a.n, s.F, s.N)

					break loop
				}

				break
			}

			settle()

			if a := r.parkedAt(s.T); a != nil && a.point == "switch:checked" {
				reason = fmt.Sprintf("diverged:step %d Check: passed (%s,%s), model ignores", i+1, a.f, a.n)

				break loop
			}
		case "Exit":
			o := &outcome{exit: s.O, enter: "ok"}

			for _, x := range steps[i+2:] {
				if x.T == s.T && x.A == "Enter" {
					o.enter, o.rd = x.O, x.Rd

					break
				}

				if x.T == s.T {
					break
				}
			}

			r.mu.Lock()
			r.next[s.T] = o
			r.mu.Unlock()

			nExit[s.T]++
			r.release(s.T)

			if !r.waitCount(s.T+"/Exit", nExit[s.T]) {
				reason = fmt.Sprintf("infeasible:step %d Exit: %s did not call exit", i+1, s.T)

				break loop
			}
		case "Enter":
			nEnter[s.T]++

			if !r.waitCount(s.T+"/Enter", nEnter[s.T]) {
				reason = fmt.Sprintf("diverged:step %d Enter: %s did not call enter", i+1, s.T)

				break loop
			}
		case "Report":
			nRep[s.T]++

			if !r.waitCount(s.T+"/Switched", nRep[s.T]) {
				reason = fmt.Sprintf("diverged:step %d Report: %s did not report", i+1, s.T)

				break loop
			}
		case "Toggle":
			r.toggle(s.B)
			r.intWG.Wait()

			if hadY && s.B {
				settle() // the cancelled broker asks to move to syncing from its own goroutine
				hadY = false
			}
		case "Hold":
			go r.hold()

			if a := r.waitArrive("hold", "switch:begin"); a == nil {
				reason = fmt.Sprintf("infeasible:step %d Hold: did not arrive", i+1)

				break loop
			}
		case "NewY":
			if !r.newY() {
				reason = fmt.Sprintf("diverged:step %d NewY failed", i+1)

				break loop
			}

			hadY = true
		case "AskY":
			if !r.askY() {
				reason = fmt.Sprintf("diverged:step %d AskY failed", i+1)

				break loop
			}
		default:
			return "", false, fmt.Errorf("unknown schedule step %q", s.A)
		}
	}

	if reason == "" {
		r.quiesce()
	}

	stuck = r.finish()

	return reason, stuck, nil
}

// ---------------------------------------------------------------- free-running drivers

func free(out *h.Out, seed int64) (stuck bool, err error) {
	rng := rand.New(rand.NewSource(seed))

	r, err := newRunner(out, rng.Intn(2) == 0, seed)
	if err != nil {
		return false, err
	}

	r.jitter = true

	if err := r.start(); err != nil {
		return false, err
	}

	var wg sync.WaitGroup

	nap := func(g *rand.Rand, max int) {
		switch k := g.Intn(4); {
		case k == 0:
			runtime.Gosched()
		case k == 1:
		default:
			time.Sleep(time.Duration(g.Intn(max)+1) * time.Microsecond)
		}
	}

	nexts := []string{"JOINING", "CONSENSUS", "SYNCING", "JOINING", "CONSENSUS", "SYNCING", "BOOTING", "BROKEN", "HANDOVER"}

	askers := 1 + rng.Intn(2)
	for a := 0; a < askers; a++ {
		g := rand.New(rand.NewSource(rng.Int63()))
		k := 1 + g.Intn(3)

		wg.Add(1)

		go func() {
			defer wg.Done()

			for i := 0; i < k; i++ {
				nap(g, 300)

				f := string(r.st.Current())
				if g.Intn(4) == 0 {
					f = allStates[g.Intn(len(allStates))]
				}

				n := nexts[g.Intn(len(nexts))]
				if n == f {
					continue
				}

				r.ask(f, n, false)
			}
		}()
	}

	if rng.Intn(5) != 0 {
		g := rand.New(rand.NewSource(rng.Int63()))
		k := 1 + g.Intn(3)

		wg.Add(1)

		go func() {
			defer wg.Done()

			for i := 0; i < k; i++ {
				nap(g, 300)
				r.toggle(g.Intn(2) == 0)
				r.intWG.Wait()
			}
		}()
	}

	if rng.Intn(6) == 0 {
		g := rand.New(rand.NewSource(rng.Int63()))

		wg.Add(1)

		go func() {
			defer wg.Done()

			nap(g, 600)
			r.hold()
		}()
	}

	if rng.Intn(4) == 0 {
		g := rand.New(rand.NewSource(rng.Int63()))

		wg.Add(1)

		go func() {
			defer wg.Done()

			for i := 0; i < 3; i++ {
				nap(g, 200)

				if r.newY() {
					if g.Intn(4) != 0 {
						r.askY()
					}

					break
				}
			}
		}()
	}

	donech := make(chan struct{})

	go func() {
		wg.Wait()
		close(donech)
	}()

	select {
	case <-donech:
		r.quiesce()
	case <-time.After(5 * time.Second):
		stuck = true

		if p := os.Getenv("VERIF_C09_DUMP"); p != "" {
			b := make([]byte, 1<<22)
			_ = os.WriteFile(p, b[:runtime.Stack(b, true)], 0o600)
		}
	}

	if r.finish() {
		stuck = true
	}

	return stuck, nil
}

// ---------------------------------------------------------------- command

// vh C09 force --in schedules.ndjson --out trace.ndjson --res results.ndjson
// vh C09 free --num N --out trace.ndjson --res results.ndjson
func run(args []string) error {
	if len(args) < 1 {
		return fmt.Errorf("usage: C09 force|free ...")
	}

	fl := h.Flags(args[1:])

	seed, _ := strconv.ParseInt(os.Getenv("VERIF_SEED"), 10, 64)
	if seed == 0 {
		seed = 1
	}

	out, err := h.NewOut(fl["out"])
	if err != nil {
		return err
	}
	defer out.Close()

	res, err := h.NewOut(fl["res"])
	if err != nil {
		return err
	}
	defer res.Close()

	switch args[0] {
	case "force":
		i := 0

		return h.ReadNDJSON(fl["in"], func(line []byte) error {
			var steps []step
			if err := json.Unmarshal(line, &steps); err != nil {
				return err
			}

			first := out.N + 1

			reason, stuck, err := force(out, steps, seed+int64(i))
			if err != nil {
				return err
			}

			res.Emit(ev{"i": i, "first": first, "last": out.N, "reason": reason, "stuck": stuck})
			i++

			return nil
		})
	case "free":
		num, _ := strconv.Atoi(fl["num"])

		for i := 0; i < num; i++ {
			first := out.N + 1

			stuck, err := free(out, seed*1000003+int64(i))
			if err != nil {
				return err
			}

			res.Emit(ev{"i": i, "first": first, "last": out.N, "stuck": stuck})
		}

		return nil
	default:
		return fmt.Errorf("unknown mode %q", args[0])
	}
}
