// Package c20: reopening the storage returns exactly what was stored (binding A of
// spec/Database.tla with WithReopen). Behaviours with Reopen and PoolPut steps are replayed on a
// file-backed leveldb; at every Reopen all reads (objects by reference, Bytes reads verbatim,
// pool contents) are taken, everything is closed, storage / permanent store / Center / pool are
// created again, the reads are taken again and compared.
package c20

import (
	"context"
	"encoding/json"
	"fmt"
	"os"
	"path/filepath"
	"runtime"
	"sort"
	"strconv"
	"strings"
	"sync"

	"github.com/pkg/errors"
	"github.com/spikeekips/mitum/base"
	"github.com/spikeekips/mitum/isaac"
	isaacdatabase "github.com/spikeekips/mitum/isaac/database"
	isaacoperation "github.com/spikeekips/mitum/isaac/operation"
	"github.com/spikeekips/mitum/util"
	"github.com/spikeekips/mitum/util/valuehash"

	"mitumverif/internal/c19"
	"mitumverif/internal/h"
)

func init() { h.Register("C20", run) }

type Result struct {
	ID      int           `json:"id"`
	Reopen  []c19.ObsDiff `json:"reopen,omitempty"` // read before close vs read after reopen
	VsSpec  []c19.Diff    `json:"vsspec,omitempty"` // read vs the model (C19's business unless it appears only after a reopen)
	Errs    []string      `json:"errs,omitempty"`
	Panic   string        `json:"panic,omitempty"`
	Fatal   string        `json:"fatal,omitempty"`
	Steps   int           `json:"steps"`
	Reopens int           `json:"reopens"`
	PoolN   int           `json:"pooln"`
}

// PoolItem is one real object put into the pool database.
type PoolItem struct {
	Kind string
	N    int
	Read func(p *isaacdatabase.TempPool) (map[string]string, error) // read name -> canonical answer
}

type poolGen struct {
	env *c19.Env
	seq int
}

func (g *poolGen) hash(tag string) util.Hash {
	g.seq++

	return valuehash.NewSHA256([]byte(fmt.Sprintf("pool-%s-%d", tag, g.seq)))
}

func raw(eh string, meta, body []byte) string { return fmt.Sprintf("%s|%x|%x", eh, meta, body) }

func (g *poolGen) put(pool *isaacdatabase.TempPool, kind string, n int) (*PoolItem, error) {
	env := g.env
	name := fmt.Sprintf("%s#%d", kind, n)
	point := base.RawPoint(int64(30+n), uint64(n%3))

	switch kind {
	case "proposal":
		fact := isaac.NewProposalFact(point, env.Local.Address(), g.hash("prev"),
			[][2]util.Hash{{g.hash("op"), g.hash("fact")}})
		sf := isaac.NewProposalSignFact(fact)

		if err := sf.Sign(env.Local.Privatekey(), env.NetworkID); err != nil {
			return nil, err
		}

		if err := sf.IsValid(env.NetworkID); err != nil {
			return nil, errors.WithMessage(err, "generated proposal")
		}

		if ok, err := pool.SetProposal(sf); err != nil || !ok {
			return nil, errors.Errorf("SetProposal: %v %v", ok, err)
		}

		return &PoolItem{Kind: kind, N: n, Read: func(p *isaacdatabase.TempPool) (map[string]string, error) {
			out := map[string]string{}

			pr, found, err := p.Proposal(fact.Hash())
			if err != nil {
				return nil, err
			}

			out["Proposal("+name+")"] = hashOf(found, func() util.Hash { return pr.Fact().Hash() })

			eh, meta, body, found, err := p.ProposalBytes(fact.Hash())
			if err != nil {
				return nil, err
			}

			out["ProposalBytes("+name+")"] = fmt.Sprintf("%v|%s", found, raw(eh, meta, body))

			pr, found, err = p.ProposalByPoint(point, env.Local.Address(), fact.PreviousBlock())
			if err != nil {
				return nil, err
			}

			out["ProposalByPoint("+name+")"] = hashOf(found, func() util.Hash { return pr.Fact().Hash() })

			return out, nil
		}}, nil
	case "operation":
		fact := isaacoperation.NewSuffrageCandidateFact(base.Token(g.hash("token").Bytes()),
			base.NewStringAddress(fmt.Sprintf("cand-%d", n)), base.NewMPrivatekey().Publickey())
		op := isaacoperation.NewSuffrageCandidate(fact)

		if err := op.NodeSign(env.Local.Privatekey(), env.NetworkID, env.Local.Address()); err != nil {
			return nil, err
		}

		if ok, err := pool.SetOperation(context.Background(), op); err != nil || !ok {
			return nil, errors.Errorf("SetOperation: %v %v", ok, err)
		}

		return &PoolItem{Kind: kind, N: n, Read: func(p *isaacdatabase.TempPool) (map[string]string, error) {
			out := map[string]string{}

			rop, found, err := p.Operation(context.Background(), op.Hash())
			if err != nil {
				return nil, err
			}

			out["Operation("+name+")"] = hashOf(found, func() util.Hash { return rop.Hash() })

			eh, meta, body, found, err := p.OperationBytes(context.Background(), op.Hash())
			if err != nil {
				return nil, err
			}

			out["OperationBytes("+name+")"] = fmt.Sprintf("%v|%s", found, raw(eh, meta, body))

			return out, nil
		}}, nil
	case "expel":
		node := env.Nodes[1+n%2].Address()
		start := base.Height(int64(10 * n))
		fact := isaac.NewSuffrageExpelFact(node, start, start+5, "verif")
		op := isaac.NewSuffrageExpelOperation(fact)

		if err := op.NodeSign(env.Local.Privatekey(), env.NetworkID, env.Local.Address()); err != nil {
			return nil, err
		}

		if err := pool.SetSuffrageExpelOperation(op); err != nil {
			return nil, err
		}

		return &PoolItem{Kind: kind, N: n, Read: func(p *isaacdatabase.TempPool) (map[string]string, error) {
			rop, found, err := p.SuffrageExpelOperation(start+1, node)
			if err != nil {
				return nil, err
			}

			return map[string]string{
				"SuffrageExpelOperation(" + name + ")": hashOf(found, func() util.Hash { return rop.Hash() }),
			}, nil
		}}, nil
	case "ballot":
		afact := isaac.NewACCEPTBallotFact(point.PrevHeight(), g.hash("pr"), g.hash("blk"), nil)
		asf := isaac.NewACCEPTBallotSignFact(afact)

		if err := asf.NodeSign(env.Local.Privatekey(), env.NetworkID, env.Local.Address()); err != nil {
			return nil, err
		}

		avp := isaac.NewACCEPTVoteproof(afact.Point().Point)
		avp.SetMajority(afact).SetSignFacts([]base.BallotSignFact{asf}).SetThreshold(base.Threshold(100)).Finish()

		ifact := isaac.NewINITBallotFact(base.NewPoint(point.Height(), 0), afact.NewBlock(), g.hash("pr"), nil)
		isf := isaac.NewINITBallotSignFact(ifact)

		if err := isf.NodeSign(env.Local.Privatekey(), env.NetworkID, env.Local.Address()); err != nil {
			return nil, err
		}

		bl := isaac.NewINITBallot(avp, isf, nil)
		if err := bl.IsValid(env.NetworkID); err != nil {
			return nil, errors.WithMessage(err, "generated ballot")
		}

		if ok, err := pool.SetBallot(bl); err != nil || !ok {
			return nil, errors.Errorf("SetBallot: %v %v", ok, err)
		}

		return &PoolItem{Kind: kind, N: n, Read: func(p *isaacdatabase.TempPool) (map[string]string, error) {
			rbl, found, err := p.Ballot(ifact.Point().Point, base.StageINIT, false)
			if err != nil {
				return nil, err
			}

			return map[string]string{
				"Ballot(" + name + ")": hashOf(found, func() util.Hash { return rbl.SignFact().Fact().Hash() }),
			}, nil
		}}, nil
	}

	return nil, errors.Errorf("unknown pool kind %q", kind)
}

func hashOf(found bool, f func() util.Hash) string {
	if !found {
		return "-"
	}

	return f().String()
}

type runner struct {
	env    *c19.Env
	keys   []string
	maxLen int
	root   string
}

type session struct {
	db    *c19.DB
	pool  *isaacdatabase.TempPool
	items []*PoolItem
}

func (s *session) openPool() error {
	pool, err := isaacdatabase.NewTempPool(s.db.St, s.db.Env.Encs, s.db.Env.Enc, 16)
	if err != nil {
		return err
	}

	s.pool = pool

	return nil
}

func (s *session) observe(keys []string, maxLen int) (*c19.Obs, error) {
	o := s.db.ObserveAll(s.db.Center, keys, maxLen, true)

	for _, it := range s.items {
		m, err := it.Read(s.pool)
		if err != nil {
			return nil, errors.WithMessagef(err, "pool read %s#%d", it.Kind, it.N)
		}

		for k, v := range m {
			o.Raw[k] = "pool|" + v + "|"
		}
	}

	return o, nil
}

func (s *session) reopen() error {
	if err := s.pool.Close(); err != nil {
		return errors.WithMessage(err, "close pool")
	}

	if err := s.db.Close(); err != nil {
		return errors.WithMessage(err, "close database")
	}

	if err := s.db.Open(); err != nil {
		return errors.WithMessage(err, "reopen database")
	}

	return s.openPool()
}

func (r *runner) run(c *c19.Case) (res Result) {
	res.ID = c.ID
	dir := filepath.Join(r.root, fmt.Sprintf("case-%d", c.ID))

	defer os.RemoveAll(dir)

	gen := c19.NewGen(r.env)
	s := &session{db: c19.NewDB(r.env, gen, dir, c.PermCache, c.WriteCache)}

	if err := s.db.Open(); err != nil {
		res.Fatal = fmt.Sprintf("open: %+v", err)

		return res
	}

	defer func() {
		if s.pool != nil {
			_ = s.pool.Close()
		}

		_ = s.db.Close()
	}()

	if err := s.openPool(); err != nil {
		res.Fatal = fmt.Sprintf("open pool: %+v", err)

		return res
	}

	if p := h.Catch(func() { r.steps(c, s, gen, &res) }); p != "" {
		res.Panic = p
	}

	return res
}

func (r *runner) steps(c *c19.Case, s *session, gen *c19.Gen, res *Result) {
	pg := &poolGen{env: r.env}

	for i := range c.Acts {
		a := c.Acts[i]
		res.Steps++

		switch a.Name {
		case "Read":
			// ReadAll of the spec: every read is performed (what falls through to the permanent store fills its
			// state cache); compared with the model below when the case says so
			if i >= len(c.Reads) || c.Reads[i] == nil {
				_ = s.db.Observe(s.db.Center, r.keys, r.maxLen, false)

				continue
			}
		case "Write":
			b, err := c19.NewBlockOf(gen, &a, c.WriteCache)
			if err != nil {
				res.Fatal = fmt.Sprintf("step %d: generate block: %+v", i, err)

				return
			}

			if err := s.db.WriteBlock(b); err != nil {
				res.Fatal = fmt.Sprintf("step %d: write: %+v", i, err)

				return
			}
		case "MergeOne":
			if _, err := s.db.Center.VerifMergeOne(); err != nil {
				res.Fatal = fmt.Sprintf("step %d: merge: %+v", i, err)

				return
			}
		case "MergeAll":
			if err := s.db.Center.MergeAllPermanent(); err != nil {
				res.Fatal = fmt.Sprintf("step %d: merge all: %+v", i, err)

				return
			}
		case "Remove":
			if _, err := s.db.Center.RemoveBlocks(base.Height(int64(a.H))); err != nil {
				res.Fatal = fmt.Sprintf("step %d: remove: %+v", i, err)

				return
			}
		case "PoolPut":
			it, err := pg.put(s.pool, a.Kind, a.N)
			if err != nil {
				res.Fatal = fmt.Sprintf("step %d: pool put: %+v", i, err)

				return
			}

			s.items = append(s.items, it)
			res.PoolN++
		case "Reopen":
			before, err := s.observe(r.keys, r.maxLen)
			if err != nil {
				res.Fatal = fmt.Sprintf("step %d: %+v", i, err)

				return
			}

			if err := s.reopen(); err != nil {
				// the database does not come up again: nothing is readable any more
				res.Reopen = append(res.Reopen, c19.ObsDiff{Step: i, Read: "Reopen", Part: "error", Before: "open", After: err.Error()})

				return
			}

			after, err := s.observe(r.keys, r.maxLen)
			if err != nil {
				res.Fatal = fmt.Sprintf("step %d: %+v", i, err)

				return
			}

			res.Reopens++

			for _, d := range c19.DiffObs(before, after) {
				d.Step = i
				res.Reopen = append(res.Reopen, d)
			}

			for _, e := range after.Errs {
				res.Errs = append(res.Errs, fmt.Sprintf("step %d after reopen: %s", i, e))
			}
		default:
			res.Fatal = "unknown action " + a.Name

			return
		}

		if i >= len(c.Reads) || c.Reads[i] == nil {
			continue
		}

		o := s.db.ObserveAll(s.db.Center, r.keys, r.maxLen, false)

		for _, d := range c19.Compare(o, c.Reads[i], r.keys) {
			d.Step = i
			d.Act = a.Name
			res.VsSpec = append(res.VsSpec, d)
		}

		// pool contents: every item the model holds is readable
		want := map[string]bool{}
		for _, row := range c.Reads[i].Pool {
			if len(row) == 2 {
				want[fmt.Sprintf("%v#%v", row[0], row[1])] = true
			}
		}

		got := map[string]bool{}

		for _, it := range s.items {
			m, err := it.Read(s.pool)
			if err != nil {
				res.Errs = append(res.Errs, fmt.Sprintf("step %d: pool read: %v", i, err))

				continue
			}

			all := true

			for _, v := range m {
				if v == "-" || strings.HasPrefix(v, "false|") {
					all = false
				}
			}

			if all {
				got[fmt.Sprintf("%s#%d", it.Kind, it.N)] = true
			}
		}

		var names []string
		for k := range want {
			names = append(names, k)
		}

		for k := range got {
			if !want[k] {
				names = append(names, k)
			}
		}

		sort.Strings(names)

		for _, k := range names {
			if want[k] != got[k] {
				res.VsSpec = append(res.VsSpec, c19.Diff{Step: i, Act: a.Name, Read: "Pool", Arg: k,
					Got: fmt.Sprint(got[k]), Want: fmt.Sprint(want[k])})
			}
		}
	}
}

func run(args []string) error {
	if len(args) < 1 || args[0] != "replay" {
		return errors.Errorf("usage: C20 replay --in --out --keys --maxlen --dir")
	}

	fl := h.Flags(args[1:])

	env, err := c19.NewEnv()
	if err != nil {
		return err
	}

	keys := strings.Split(fl["keys"], ",")
	maxlen, _ := strconv.Atoi(fl["maxlen"])

	root := fl["dir"]
	if root == "" {
		return errors.Errorf("--dir (under the run's work dir) is required")
	}

	if err := os.MkdirAll(root, 0o755); err != nil {
		return err
	}

	out, err := h.NewOut(fl["out"])
	if err != nil {
		return err
	}

	defer out.Close()

	jobs := make(chan []byte, 64)

	var wg sync.WaitGroup

	var ferr error

	var fmu sync.Mutex

	for i := 0; i < runtime.NumCPU(); i++ {
		wg.Add(1)

		go func() {
			defer wg.Done()

			r := &runner{env: env, keys: keys, maxLen: maxlen, root: root}

			for line := range jobs {
				var c c19.Case
				if err := json.Unmarshal(line, &c); err != nil {
					fmu.Lock()
					ferr = err
					fmu.Unlock()

					continue
				}

				out.Emit(r.run(&c))
			}
		}()
	}

	err = h.ReadNDJSON(fl["in"], func(line []byte) error {
		jobs <- line

		return nil
	})

	close(jobs)
	wg.Wait()

	if err != nil {
		return err
	}

	return ferr
}
