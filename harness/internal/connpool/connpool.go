// Package connpool drives the REAL quicstream.ConnectionPool with a stub dial function that creates harness
// connections (real Streamer implementations whose context the harness can end, whose Stream returns a chosen error).
//   replay: TLC-enumerated sequential call scripts (spec/ConnPool.tla), reply + projected state compared after every call
//   sched : forced concurrent schedules (dial function parked at a gate), facts judged by check/props/connpool.py
package connpool

import (
	"context"
	"encoding/json"
	"fmt"
	"io"
	"net"
	"os"
	"sync"
	"sync/atomic"
	"time"

	"github.com/pkg/errors"
	"github.com/spikeekips/mitum/network/quicstream"

	"mitumverif/internal/h"
)

func init() { h.Register("CONNPOOL", run) }

type idKey struct{}

type hconn struct {
	id     int
	addr   string
	ctx    context.Context
	cancel func()
	closes int32
	broke  int32
	mu     sync.Mutex
	next   error
}

func (c *hconn) Stream(context.Context, quicstream.StreamFunc) error {
	c.mu.Lock()
	defer c.mu.Unlock()
	return c.next
}

func (c *hconn) OpenStream(context.Context) (io.Reader, io.WriteCloser, func() error, error) {
	return nil, nil, nil, errors.Errorf("harness connection: no streams")
}

func (c *hconn) Close() error {
	atomic.AddInt32(&c.closes, 1)
	c.cancel()
	return nil
}

func (c *hconn) Context() context.Context { return c.ctx }

type timeoutErr struct{}

func (timeoutErr) Error() string   { return "harness net error" }
func (timeoutErr) Timeout() bool   { return true }
func (timeoutErr) Temporary() bool { return false }

var _ net.Error = timeoutErr{}

type dialer struct {
	mu      sync.Mutex
	conns   []*hconn
	mode    string // ok | fail | probe
	calls   int    // non-probe calls
	running map[string]int
	maxrun  int
	gate    chan struct{} // when non-nil: park here (after signalling parked)
	parked  chan string
}

func (d *dialer) dial(ctx context.Context, ci quicstream.ConnInfo) (quicstream.Streamer, error) {
	addr := ci.Addr().String()
	d.mu.Lock()
	mode := d.mode
	if mode != "probe" {
		d.calls++
	}
	d.running[addr]++
	if d.running[addr] > d.maxrun {
		d.maxrun = d.running[addr]
	}
	gate := d.gate
	d.mu.Unlock()
	if gate != nil && mode != "probe" {
		d.parked <- addr
		<-gate
	}
	d.mu.Lock()
	defer d.mu.Unlock()
	d.running[addr]--
	if mode != "ok" {
		return nil, errors.Errorf("harness dial failure")
	}
	c := &hconn{id: len(d.conns) + 1, addr: addr}
	cctx, cancel := context.WithCancel(context.Background())
	c.ctx = context.WithValue(cctx, idKey{}, c)
	c.cancel = cancel
	d.conns = append(d.conns, c)
	return c, nil
}

func (d *dialer) set(mode string) { d.mu.Lock(); d.mode = mode; d.mu.Unlock() }

func connOf(s quicstream.Streamer) *hconn {
	if s == nil {
		return nil
	}
	c, _ := s.Context().Value(idKey{}).(*hconn)
	return c
}

func ci(i int) quicstream.ConnInfo {
	return quicstream.UnsafeConnInfo(&net.UDPAddr{IP: net.IPv4(127, 0, 0, 1), Port: 4000 + i}, true)
}

type rig struct {
	pool    *quicstream.ConnectionPool
	d       *dialer
	handles []quicstream.Streamer
	na      int
}

func newRig(size uint64, na int) (*rig, error) {
	d := &dialer{mode: "ok", running: map[string]int{}, parked: make(chan string, 8)}
	p, err := quicstream.NewConnectionPool(size, d.dial)
	if err != nil {
		return nil, err
	}
	return &rig{pool: p, d: d, na: na}, nil
}

// live: per address the id of the stored connection whose context is not done (0: nothing stored or stored but done).
// Observed with Dial under a failing dial function: Set leaves the map untouched when the callback errs.
func (r *rig) live() []int {
	r.d.mu.Lock()
	old := r.d.mode
	r.d.mode = "probe"
	r.d.mu.Unlock()
	out := make([]int, r.na)
	for a := 1; a <= r.na; a++ {
		s, err := r.pool.Dial(context.Background(), ci(a))
		if err == nil {
			if c := connOf(s); c != nil {
				out[a-1] = c.id
			}
		}
	}
	r.d.set(old)
	return out
}

func (r *rig) closed(n int) []int {
	r.d.mu.Lock()
	defer r.d.mu.Unlock()
	out := make([]int, n)
	for i, c := range r.d.conns {
		if i < n && atomic.LoadInt32(&c.closes) > 0 {
			out[i] = 1
		}
	}
	return out
}

type step struct {
	A      string `json:"a"`
	Addr   int    `json:"addr"`
	X      int    `json:"x"`
	Ret    int    `json:"ret"`
	Live   []int  `json:"live"`
	Closed []int  `json:"closed"`
	Nd     int    `json:"nd"`
}

type got struct {
	A       string `json:"a"`
	Ret     int    `json:"ret"`
	Live    []int  `json:"live"`
	Closed  []int  `json:"closed"`
	Nd      int    `json:"nd"`
	HConn   int    `json:"hconn,omitempty"`   // Stream: connection the handle wraps
	Wrapped bool   `json:"wrapped,omitempty"` // Stream: the scripted error came back unchanged
	Skipped bool   `json:"skipped,omitempty"`
	Closes  []int  `json:"closes,omitempty"`
}

func (r *rig) do(s step, idx int) (g got) {
	g.A = s.A
	switch s.A {
	case "Dial":
		if s.X == 1 {
			r.d.set("ok")
		} else {
			r.d.set("fail")
		}
		st, err := r.pool.Dial(context.Background(), ci(s.Addr))
		r.d.set("ok")
		if err == nil {
			if c := connOf(st); c != nil {
				g.Ret = c.id
			} else {
				g.Ret = -1
			}
			r.handles = append(r.handles, st)
		}
	case "Close":
		if r.pool.Close(ci(s.Addr)) {
			g.Ret = 1
		}
	case "CloseAll":
		if err := r.pool.CloseAll(); err != nil {
			g.Ret = -1
		}
	case "Stream":
		hd := r.handles[s.Addr-1]
		c := connOf(hd)
		g.HConn = c.id
		var e error
		switch s.X {
		case 1:
			e = errors.Errorf("harmless")
		case 2:
			if (idx+s.Addr)%2 == 0 {
				e = errors.Wrap(quicstream.ErrNetwork.Errorf("scripted"), "wrapped")
			} else {
				e = errors.WithStack(timeoutErr{})
			}
		}
		c.mu.Lock()
		c.next = e
		c.mu.Unlock()
		rerr := hd.Stream(context.Background(), nil)
		g.Wrapped = rerr == e
	case "Break":
		c := r.d.conns[s.Addr-1]
		atomic.StoreInt32(&c.broke, 1)
		c.cancel()
	case "Clean", "Stop":
		// clean() is unexported and tied to a 3 s ticker: spec only in the replay (real ticker: sched "ticker")
		if s.A == "Stop" {
			r.pool.Stop()
		}
	}
	g.Live = r.live()
	g.Closed = r.closed(len(s.Closed))
	r.d.mu.Lock()
	g.Nd = r.d.calls
	r.d.mu.Unlock()
	return g
}

func eqInts(a, b []int) bool {
	if len(a) != len(b) {
		return false
	}
	for i := range a {
		if a[i] != b[i] {
			return false
		}
	}
	return true
}

func replay(fl map[string]string) error {
	out, err := h.NewOut(fl["out"])
	if err != nil {
		return err
	}
	defer out.Close()
	n := 0
	return h.ReadNDJSON(fl["in"], func(line []byte) error {
		var sc struct {
			I     int    `json:"i"`
			Steps []step `json:"steps"`
		}
		if err := json.Unmarshal(line, &sc); err != nil {
			return err
		}
		n++
		size := uint64(1)
		if sc.I%3 == 2 {
			size = 4 // sharded map
		}
		na := len(sc.Steps[0].Live)
		r, err := newRig(size, na)
		if err != nil {
			return err
		}
		res := map[string]interface{}{"i": sc.I, "ok": true}
		var gots []got
		skip := false
		pan := h.Catch(func() {
			for k, s := range sc.Steps {
				if s.A == "Clean" && s.Ret == 0 {
					// a clean tick that removes something cannot be replayed without the ticker: does this one change the state?
					// (decided by the caller: x=1 marks a tick that removed an entry)
				}
				if s.A == "Clean" && s.X == 1 {
					skip = true
					break
				}
				g := r.do(s, sc.I)
				gots = append(gots, g)
				bad := ""
				switch {
				case g.Ret != s.Ret:
					bad = "ret"
				case !eqInts(g.Live, s.Live):
					bad = "live"
				case !eqInts(g.Closed, s.Closed):
					bad = "closed"
				case g.Nd != s.Nd:
					bad = "dialcount"
				case s.A == "Stream" && !g.Wrapped:
					bad = "error-not-passed-through"
				}
				if bad != "" {
					res["ok"] = false
					res["k"] = k
					res["field"] = bad
					res["want"] = s
					break
				}
			}
		})
		r.pool.Stop()
		if pan != "" {
			res["ok"] = false
			res["field"] = "panic"
			res["panic"] = pan
		}
		r.d.mu.Lock()
		res["maxrun"] = r.d.maxrun
		cl := []int{}
		for _, c := range r.d.conns {
			cl = append(cl, int(atomic.LoadInt32(&c.closes)))
		}
		r.d.mu.Unlock()
		res["closes"] = cl
		res["skipped"] = skip
		res["got"] = gots
		out.Emit(res)
		return nil
	})
}

// ---------------------------------------------------------------- forced schedules

type ev map[string]interface{}

type sched struct {
	r   *rig
	mu  sync.Mutex
	evs []ev
	wg  sync.WaitGroup
}

func (s *sched) log(e ev) {
	s.mu.Lock()
	e["n"] = len(s.evs)
	s.evs = append(s.evs, e)
	s.mu.Unlock()
}

func (s *sched) goDial(name string, a int) chan struct{} {
	done := make(chan struct{})
	s.wg.Add(1)
	go func() {
		defer s.wg.Done()
		defer close(done)
		s.log(ev{"e": "call", "op": "Dial", "who": name, "addr": a})
		st, err := s.r.pool.Dial(context.Background(), ci(a))
		id := 0
		if err == nil {
			id = connOf(st).id
		}
		s.log(ev{"e": "ret", "op": "Dial", "who": name, "addr": a, "ret": id})
	}()
	return done
}

func (s *sched) goOp(name, op string, a int) chan struct{} {
	done := make(chan struct{})
	s.wg.Add(1)
	go func() {
		defer s.wg.Done()
		defer close(done)
		s.log(ev{"e": "call", "op": op, "who": name, "addr": a})
		ret := 0
		switch op {
		case "Close":
			if s.r.pool.Close(ci(a)) {
				ret = 1
			}
		case "CloseAll":
			_ = s.r.pool.CloseAll()
		}
		s.log(ev{"e": "ret", "op": op, "who": name, "addr": a, "ret": ret})
	}()
	return done
}

func returned(c chan struct{}, d time.Duration) bool {
	select {
	case <-c:
		return true
	case <-time.After(d):
		return false
	}
}

func waitParked(d *dialer) error {
	select {
	case <-d.parked:
		return nil
	case <-time.After(10 * time.Second):
		return errors.Errorf("dial function was not entered within 10 s")
	}
}

func runSched(name string, size uint64) (map[string]interface{}, error) {
	r, err := newRig(size, 2)
	if err != nil {
		return nil, err
	}
	defer r.pool.Stop()
	s := &sched{r: r}
	res := map[string]interface{}{"sched": name, "size": size}
	gate := make(chan struct{})
	park := func() { r.d.mu.Lock(); r.d.gate = gate; r.d.mu.Unlock() }
	settle := 30 * time.Millisecond
	switch name {
	case "dial-dial-same":
		park()
		d1 := s.goDial("t1", 1)
		if err := waitParked(r.d); err != nil {
			return nil, err
		}
		d2 := s.goDial("t2", 1)
		res["second_returned_while_first_in_dialf"] = returned(d2, settle)
		s.log(ev{"e": "release"})
		close(gate)
		<-d1
		<-d2
	case "dial-dial-other":
		park()
		d1 := s.goDial("t1", 1)
		if err := waitParked(r.d); err != nil {
			return nil, err
		}
		d2 := s.goDial("t2", 2)
		// with one map lock the second dial function is not entered before the first leaves (informational)
		select {
		case <-r.d.parked:
			res["other_address_dialled_concurrently"] = true
		case <-time.After(settle):
			res["other_address_dialled_concurrently"] = false
		}
		s.log(ev{"e": "release"})
		close(gate)
		<-d1
		<-d2
	case "dial-close", "dial-closeall", "redial-close", "redial-closeall":
		if name[:2] == "re" { // an entry whose context is done is stored while the new dial is parked
			if _, err := r.pool.Dial(context.Background(), ci(1)); err != nil {
				return nil, err
			}
			r.d.conns[0].cancel()
			atomic.StoreInt32(&r.d.conns[0].broke, 1)
			s.log(ev{"e": "setup", "what": "conn 1 stored for addr 1 and broken"})
		}
		park()
		d1 := s.goDial("t1", 1)
		if err := waitParked(r.d); err != nil {
			return nil, err
		}
		op := "Close"
		if name[len(name)-3:] == "all" {
			op = "CloseAll"
		}
		c := s.goOp("t2", op, 1)
		res["op_returned_while_dial_in_dialf"] = returned(c, settle)
		s.log(ev{"e": "release"})
		close(gate)
		<-d1
		<-c
	case "ticker":
		// the real 3 s ticker: a broken stored connection is removed (without Close), a healthy one stays
		if _, err := r.pool.Dial(context.Background(), ci(1)); err != nil {
			return nil, err
		}
		if _, err := r.pool.Dial(context.Background(), ci(2)); err != nil {
			return nil, err
		}
		r.d.conns[0].cancel()
		atomic.StoreInt32(&r.d.conns[0].broke, 1)
		time.Sleep(6500 * time.Millisecond) // two ticks
		res["close1_removed"] = r.pool.Close(ci(1))
		res["conn1_closes_before_close"] = int(atomic.LoadInt32(&r.d.conns[0].closes))
		res["close2_removed"] = r.pool.Close(ci(2))
	default:
		return nil, errors.Errorf("unknown schedule %s", name)
	}
	s.wg.Wait()
	r.d.mu.Lock()
	r.d.gate = nil
	res["dialcalls"] = r.d.calls
	res["maxrun"] = r.d.maxrun
	r.d.mu.Unlock()
	res["live"] = r.live()
	var cs []map[string]interface{}
	r.d.mu.Lock()
	for _, c := range r.d.conns {
		cs = append(cs, map[string]interface{}{"id": c.id, "addr": c.addr, "closes": atomic.LoadInt32(&c.closes),
			"broken": atomic.LoadInt32(&c.broke) == 1, "done": c.ctx.Err() != nil})
	}
	r.d.mu.Unlock()
	res["conns"] = cs
	res["events"] = s.evs
	return res, nil
}

func scheds(fl map[string]string) error {
	out, err := h.NewOut(fl["out"])
	if err != nil {
		return err
	}
	defer out.Close()
	names := []string{"dial-dial-same", "dial-dial-other", "dial-close", "dial-closeall", "redial-close", "redial-closeall"}
	reps := 3
	if fl["tier"] == "thorough" {
		reps = 20
	}
	for _, n := range names {
		for _, size := range []uint64{1, 4} {
			for k := 0; k < reps; k++ {
				var res map[string]interface{}
				var err error
				pan := h.Catch(func() { res, err = runSched(n, size) })
				if pan != "" {
					res = map[string]interface{}{"sched": n, "size": size, "panic": pan}
				} else if err != nil {
					res = map[string]interface{}{"sched": n, "size": size, "infeasible": err.Error()}
				}
				out.Emit(res)
			}
		}
	}
	if fl["tier"] == "thorough" {
		res, err := runSched("ticker", 1)
		if err != nil {
			return err
		}
		out.Emit(res)
	}
	return nil
}

func run(args []string) error {
	if len(args) < 1 {
		return fmt.Errorf("usage: CONNPOOL replay|sched --in f --out f")
	}
	fl := h.Flags(args[1:])
	switch args[0] {
	case "replay":
		return replay(fl)
	case "sched":
		return scheds(fl)
	}
	fmt.Fprintln(os.Stderr, "unknown mode", args[0])
	return fmt.Errorf("unknown mode")
}
