package c37

// Concurrent histories of the real member table (binding B, searched for a linearization by
// spec/MembersTrace.tla) and forced schedules (spec/MembersPool.tla, Discipline "free").
//
// The table is used through its own methods only. What the harness controls is the node
// address object of every member it hands to the table: the table asks that object for
// String() (the key of the per-node list) and Equal() (re-join under another node?) from
// inside its update protocol, so these calls are the boundaries between the steps of a join /
// leave on the two internal tables. At such a boundary a goroutine of the harness is
//   - parked until the controller lets it go on (forced schedules: the command list
//     "advance goroutine g to its next boundary or to its return" enumerated by TLC), or
//   - delayed at random (free-running histories).
// A goroutine that cannot be advanced because it waits for a lock of the table is left alone
// (the schedule degrades into one the locks allow); whatever happened, the recorded call /
// return history and the observation of every read after all goroutines returned is what is
// judged.

import (
	"bytes"
	"encoding/json"
	"fmt"
	"math/rand"
	"net"
	"os"
	"runtime"
	"strconv"
	"sync"
	"sync/atomic"
	"time"

	"github.com/spikeekips/mitum/base"
	"github.com/spikeekips/mitum/network/quicmemberlist"

	"mitumverif/internal/h"
)

const (
	modePass   = 0 // boundaries are not noticed
	modeForced = 1 // a worker parks at every boundary
	modeFree   = 2 // a worker is delayed at random at a boundary
)

const (
	stParked  = 1
	stRunning = 2
	stDone    = 3
)

type call struct {
	Op   string `json:"op"`
	Addr string `json:"addr"`
	Node string `json:"node"`
}

type rep struct {
	B int    `json:"b"`
	N string `json:"n"`
	L int    `json:"l"`
	O int    `json:"o"`
}

type worker struct {
	idx     int
	goid    int64
	state   atomic.Int32
	inCall  atomic.Bool
	release chan struct{}
	calls   []call
	rng     *rand.Rand
	points  int
}

// ctl is the controller of one history.
type ctl struct {
	mode    atomic.Int32
	mu      sync.RWMutex
	byGoid  map[int64]*worker
	workers []*worker
	stackb  []byte
}

func goid() int64 {
	var b [64]byte
	n := runtime.Stack(b[:], false)
	// "goroutine 123 [running]:"
	s := b[len("goroutine "):n]
	i := bytes.IndexByte(s, ' ')
	if i < 0 {
		return -1
	}
	id, _ := strconv.ParseInt(string(s[:i]), 10, 64)
	return id
}

func (c *ctl) lookup(id int64) *worker {
	c.mu.RLock()
	w := c.byGoid[id]
	c.mu.RUnlock()
	return w
}

// point is called from String()/Equal() of every gated address.
func (c *ctl) point() {
	m := c.mode.Load()
	if m == modePass {
		return
	}
	w := c.lookup(goid())
	if w == nil || !w.inCall.Load() {
		return
	}
	w.points++
	switch m {
	case modeForced:
		w.park()
	case modeFree:
		switch x := w.rng.Intn(100); {
		case x < 45:
		case x < 70:
			for i := 1 + w.rng.Intn(3); i > 0; i-- {
				runtime.Gosched()
			}
		default:
			time.Sleep(time.Duration(1+w.rng.Intn(60)) * time.Microsecond)
		}
	}
}

func (w *worker) park() {
	w.state.Store(stParked)
	<-w.release
}

// gaddr is the node address handed to the table.
type gaddr struct {
	base.Address
	c *ctl
}

func plain(a base.Address) base.Address {
	if g, ok := a.(gaddr); ok {
		return g.Address
	}
	return a
}

func (a gaddr) String() string {
	a.c.point()
	return a.Address.String()
}

func (a gaddr) Equal(b base.Address) bool {
	a.c.point()
	if b == nil {
		return false
	}
	return a.Address.String() == plain(b).String()
}

// lockBlocked returns the goroutines that wait for a sync.Mutex / sync.RWMutex right now.
func (c *ctl) lockBlocked() map[int64]bool {
	for {
		n := runtime.Stack(c.stackb, true)
		if n < len(c.stackb) {
			out := map[int64]bool{}
			for _, blk := range bytes.Split(c.stackb[:n], []byte("\n\n")) {
				if !bytes.HasPrefix(blk, []byte("goroutine ")) {
					continue
				}
				line := blk
				if i := bytes.IndexByte(blk, '\n'); i >= 0 {
					line = blk[:i]
				}
				s := line[len("goroutine "):]
				i := bytes.IndexByte(s, ' ')
				if i < 0 {
					continue
				}
				id, err := strconv.ParseInt(string(s[:i]), 10, 64)
				if err != nil {
					continue
				}
				st := s[i+1:]
				if bytes.HasPrefix(st, []byte("[sync.Mutex.Lock")) || bytes.HasPrefix(st, []byte("[sync.RWMutex.")) {
					out[id] = true
				}
			}
			return out
		}
		c.stackb = make([]byte, 2*len(c.stackb))
	}
}

// settle waits until every worker is parked, has finished, or waits for a lock of the table.
func (c *ctl) settle() error {
	deadline := time.Now().Add(20 * time.Second)
	for spins := 0; ; spins++ {
		running := 0
		for _, w := range c.workers {
			if w.state.Load() == stRunning {
				running++
			}
		}
		if running == 0 {
			return nil
		}
		if spins < 200 {
			runtime.Gosched()
			continue
		}
		blocked := c.lockBlocked()
		all := true
		for _, w := range c.workers {
			if w.state.Load() == stRunning && !blocked[w.goid] {
				all = false
			}
		}
		if all {
			return nil
		}
		if time.Now().After(deadline) {
			buf := make([]byte, 1<<20)
			n := runtime.Stack(buf, true)
			return fmt.Errorf("the goroutines of a history did not settle:\n%s", buf[:n])
		}
		time.Sleep(20 * time.Microsecond)
	}
}

// advance lets a parked worker run to its next boundary / return / lock; false: the worker was not parked.
func (c *ctl) advance(w *worker) (bool, error) {
	if !w.state.CompareAndSwap(stParked, stRunning) {
		return false, nil
	}
	w.release <- struct{}{}
	return true, c.settle()
}

// releaseAll lets everybody run to the end.
func (c *ctl) releaseAll() error {
	c.mode.Store(modePass)
	deadline := time.Now().Add(20 * time.Second)
	for {
		done := true
		for _, w := range c.workers {
			switch w.state.Load() {
			case stDone:
			case stParked:
				done = false
				if w.state.CompareAndSwap(stParked, stRunning) {
					w.release <- struct{}{}
				}
			default:
				done = false
			}
		}
		if done {
			return nil
		}
		if time.Now().After(deadline) {
			buf := make([]byte, 1<<20)
			n := runtime.Stack(buf, true)
			return fmt.Errorf("the goroutines of a history did not finish:\n%s", buf[:n])
		}
		runtime.Gosched()
	}
}

// ---------------------------------------------------------------------------------- history

type hist struct {
	mu  sync.Mutex
	evs []map[string]interface{}
}

func (hs *hist) call(g int, c call) int {
	hs.mu.Lock()
	defer hs.mu.Unlock()
	hs.evs = append(hs.evs, map[string]interface{}{"a": "Call", "g": g, "op": c.Op, "addr": c.Addr, "node": c.Node})
	return len(hs.evs) - 1
}

func (hs *hist) ret(g, at int, r rep) {
	hs.mu.Lock()
	defer hs.mu.Unlock()
	hs.evs[at]["r"] = r
	hs.evs = append(hs.evs, map[string]interface{}{"a": "Ret", "g": g})
}

// world = one fresh table and what the model values mean for it.
type world struct {
	e    *env
	p    *quicmemberlist.VerifMembersPool
	c    *ctl
	hs   *hist
	nvar atomic.Int64
}

func newWorld(e *env) *world {
	return &world{e: e, p: quicmemberlist.VerifNewMembersPool(), hs: &hist{},
		c: &ctl{byGoid: map[int64]*worker{}, stackb: make([]byte, 1<<16)}}
}

// udp returns one of the equivalent representations of the model address (see env.addr).
func (w *world) udp(a string) *net.UDPAddr {
	u := w.e.udp[a]
	if w.nvar.Add(1)%2 == 0 {
		return &net.UDPAddr{IP: u.IP.To4(), Port: u.Port}
	}
	return &net.UDPAddr{IP: u.IP.To16(), Port: u.Port}
}

func (w *world) member(a, n string) quicmemberlist.Member {
	m, err := quicmemberlist.NewMember(a+"@"+n, w.udp(a), gaddr{Address: w.e.node[n], c: w.c}, w.e.pub, "1.2.3.4:4321", true)
	if err != nil {
		panic(err)
	}
	return m
}

// do performs one call of goroutine g on the real table between its Call and Ret events.
func (w *world) do(g int, c call, wk *worker) {
	var m quicmemberlist.Member
	var u *net.UDPAddr
	if c.Op == "Join" {
		m = w.member(c.Addr, c.Node)
	} else if c.Addr != "none" {
		u = w.udp(c.Addr)
	}
	r := rep{N: "none"}
	at := w.hs.call(g, c)
	if wk != nil {
		wk.inCall.Store(true)
	}
	switch c.Op {
	case "Join":
		r.B = b2n(w.p.Set(m))
	case "Leave":
		removed, err := w.p.Remove(u)
		if err != nil {
			panic(err)
		}
		r.B = b2n(removed)
	case "Exists":
		r.B = b2n(w.p.Exists(u))
	case "Get":
		x, found := w.p.Get(u)
		r.B = b2n(found)
		if wk != nil {
			wk.inCall.Store(false)
		}
		if found && x != nil {
			r.N = w.e.modelNode(plain(x.Address()))
		}
	case "Len":
		r.L = w.p.Len()
	case "Empty":
		w.p.Empty()
	case "MembersLen":
		r.L = w.p.MembersLen(w.e.node[c.Node])
	case "Others":
		l, o, f := w.p.MembersLenOthers(w.e.node[c.Node], u)
		r.L, r.O, r.B = l, o, b2n(f)
	default:
		panic("unknown call " + c.Op)
	}
	if wk != nil {
		wk.inCall.Store(false)
	}
	w.hs.ret(g, at, r)
}

func b2n(b bool) int {
	if b {
		return 1
	}
	return 0
}

// emit writes the history: HReset, its events, the observation after everybody returned.
func (w *world) emit(out *h.Out, i int, meta map[string]interface{}) {
	fin := w.e.obs(w.p)
	fin["a"] = "Final"
	hd := map[string]interface{}{"a": "HReset", "i": i, "n": len(w.hs.evs) + 1}
	for k, v := range meta {
		hd[k] = v
	}
	out.Emit(hd)
	for _, e := range w.hs.evs {
		out.Emit(e)
	}
	out.Emit(fin)
}

// start starts the goroutines of the history; in forced mode everyone parks before its first call.
func (w *world) start(calls [][]call, mode int32, seed int64) (*sync.WaitGroup, chan struct{}) {
	var wg, reg sync.WaitGroup
	gun := make(chan struct{})
	for k := range calls {
		wk := &worker{idx: k + 1, release: make(chan struct{}), calls: calls[k], rng: rand.New(rand.NewSource(seed*1000 + int64(k)))}
		wk.state.Store(stRunning)
		w.c.workers = append(w.c.workers, wk)
	}
	for _, wk := range w.c.workers {
		wg.Add(1)
		reg.Add(1)
		go func(wk *worker) {
			defer wg.Done()
			wk.goid = goid()
			w.c.mu.Lock()
			w.c.byGoid[wk.goid] = wk
			w.c.mu.Unlock()
			reg.Done()
			if mode == modeForced {
				wk.park()
			} else {
				<-gun
				if wk.rng.Intn(3) == 0 {
					time.Sleep(time.Duration(wk.rng.Intn(40)) * time.Microsecond)
				}
			}
			for _, c := range wk.calls {
				w.do(wk.idx, c, wk)
			}
			wk.state.Store(stDone)
		}(wk)
	}
	reg.Wait()
	w.c.mode.Store(mode)
	return &wg, gun
}

// prefix brings the fresh table to the given content with sequential joins of goroutine 0.
func (w *world) prefix(init map[string]string) {
	for _, a := range addrs {
		if n, ok := init[a]; ok && n != "none" {
			w.do(0, call{"Join", a, n}, nil)
		}
	}
}

type sched struct {
	I    int               `json:"i"`
	Init map[string]string `json:"init"`
	Ops  []call            `json:"ops"`
	Toks []int             `json:"toks"`
}

// vh C37 forced --in schedules.ndjson --out trace.ndjson
func runForced(fl map[string]string) error {
	out, err := h.NewOut(fl["out"])
	if err != nil {
		return err
	}
	defer out.Close()
	e := newEnv()
	n, asplanned, tokens, skipped := 0, 0, 0, 0
	err = h.ReadNDJSON(fl["in"], func(line []byte) error {
		var s sched
		if err := json.Unmarshal(line, &s); err != nil {
			return err
		}
		w := newWorld(e)
		w.prefix(s.Init)
		calls := make([][]call, len(s.Ops))
		for k := range s.Ops {
			calls[k] = []call{s.Ops[k]}
		}
		wg, _ := w.start(calls, modeForced, 0)
		if err := w.c.settle(); err != nil {
			return err
		}
		planned := true
		for _, t := range s.Toks {
			if t < 1 || t > len(w.c.workers) {
				return fmt.Errorf("schedule %d: no goroutine %d", s.I, t)
			}
			ok, err := w.c.advance(w.c.workers[t-1])
			if err != nil {
				return err
			}
			tokens++
			if !ok {
				skipped++
				planned = false
			}
		}
		for _, wk := range w.c.workers {
			if wk.state.Load() != stDone {
				planned = false
			}
		}
		if err := w.c.releaseAll(); err != nil {
			return err
		}
		wg.Wait()
		if planned {
			asplanned++
		}
		w.emit(out, s.I, map[string]interface{}{"fam": "forced", "planned": planned})
		n++
		return nil
	})
	if err != nil {
		return err
	}
	out.Emit(map[string]interface{}{"a": "End"})
	b, _ := json.Marshal(map[string]int{"histories": n, "as_planned": asplanned, "tokens": tokens, "tokens_skipped": skipped})
	fmt.Println(string(b))
	return nil
}

// vh C37 free --num N --base I --out trace.ndjson [--empty P]: seeded random histories of 2-4 goroutines, delays at the
// boundaries; --empty P: P percent of the calls are Empty() (it has no boundary the harness could hold it at)
func runFree(fl map[string]string) error {
	out, err := h.NewOut(fl["out"])
	if err != nil {
		return err
	}
	defer out.Close()
	num, _ := strconv.Atoi(fl["num"])
	base0, _ := strconv.Atoi(fl["base"])
	seed, _ := strconv.ParseInt(os.Getenv("VERIF_SEED"), 10, 64)
	empty, _ := strconv.Atoi(fl["empty"])
	rng := rand.New(rand.NewSource(seed*7919 + 37 + int64(empty)))
	e := newEnv()
	ncalls := 0
	for i := 0; i < num; i++ {
		w := newWorld(e)
		// the focus address leaves and re-joins under its node from several goroutines at once
		focus := addrs[rng.Intn(2)]
		fnode := nodes[0]
		if rng.Intn(5) == 0 {
			fnode = nodes[1]
		}
		init := map[string]string{}
		if rng.Intn(10) < 7 {
			init[focus] = fnode
		}
		for _, a := range addrs[:3] {
			if a != focus && rng.Intn(3) == 0 {
				init[a] = nodes[rng.Intn(10)/8]
			}
		}
		w.prefix(init)
		ng := 2 + rng.Intn(3)
		calls := make([][]call, ng)
		for k := range calls {
			calls[k] = make([]call, 1+rng.Intn(3))
			for j := range calls[k] {
				other := addrs[rng.Intn(3)]
				onode := nodes[rng.Intn(10)/8]
				if empty > 0 && rng.Intn(100) < empty {
					calls[k][j] = call{"Empty", "none", "none"}
					ncalls++
					continue
				}
				switch x := rng.Intn(100); {
				case x < 33:
					calls[k][j] = call{"Leave", focus, "none"}
				case x < 66:
					calls[k][j] = call{"Join", focus, fnode}
				case x < 74:
					calls[k][j] = call{"Join", other, onode}
				case x < 80:
					calls[k][j] = call{"Leave", other, "none"}
				case x < 85:
					calls[k][j] = call{"Exists", focus, "none"}
				case x < 90:
					calls[k][j] = call{"Get", focus, "none"}
				case x < 94:
					calls[k][j] = call{"MembersLen", "none", fnode}
				case x < 98:
					calls[k][j] = call{"Others", focus, fnode}
				default:
					calls[k][j] = call{"Len", "none", "none"}
				}
				ncalls++
			}
		}
		wg, gun := w.start(calls, modeFree, seed*100003+int64(i))
		close(gun)
		wg.Wait()
		w.c.mode.Store(modePass)
		w.emit(out, base0+i, map[string]interface{}{"fam": "free", "goroutines": ng})
	}
	out.Emit(map[string]interface{}{"a": "End"})
	b, _ := json.Marshal(map[string]int{"histories": num, "calls": ncalls})
	fmt.Println(string(b))
	return nil
}
