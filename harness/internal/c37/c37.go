// Package c37 drives the real quicmemberlist member table and records one event per call
// (binding B; validated by spec/MembersTrace.tla): sequentially (this file) and from several
// goroutines at once (conc.go).
package c37

import (
	"fmt"
	"math/rand"
	"net"
	"os"
	"strconv"

	"github.com/spikeekips/mitum/base"
	"github.com/spikeekips/mitum/network/quicmemberlist"

	"mitumverif/internal/h"
)

func init() { h.Register("C37", run) }

var addrs = []string{"a1", "a2", "a3", "a4"}
var nodes = []string{"n1", "n2"}

type env struct {
	n    int // call counter: picks the representation of an address per call
	udp  map[string]*net.UDPAddr
	node map[string]base.Address
	pub  base.Publickey
	back map[string]string // memberid -> model addr
}

func newEnv() *env {
	e := &env{udp: map[string]*net.UDPAddr{}, node: map[string]base.Address{}, back: map[string]string{}}
	for i, a := range addrs {
		// same IP, different ports for a1/a2; different IPs for a3/a4
		ip := net.IPv4(127, 0, 0, 1)
		if i >= 2 {
			ip = net.IPv4(10, 0, 0, byte(i))
		}
		e.udp[a] = &net.UDPAddr{IP: ip, Port: 4000 + i%2}
	}
	for _, n := range nodes {
		e.node[n] = base.RandomAddress(n + "-")
	}
	e.pub = base.NewMPrivatekey().Publickey()
	return e
}

// addr returns one of the equivalent in-memory representations of the model address
// (net.IPv4 gives the 16-byte form, To4 the 4-byte form; same IP.Equal, same String):
// the table must treat them as the same member address.
func (e *env) addr(a string) *net.UDPAddr {
	e.n++
	u := e.udp[a]
	if e.n%2 == 0 {
		return &net.UDPAddr{IP: u.IP.To4(), Port: u.Port}
	}
	return &net.UDPAddr{IP: u.IP.To16(), Port: u.Port}
}

func (e *env) member(a, n string) quicmemberlist.Member {
	m, err := quicmemberlist.NewMember(a+"@"+n, e.addr(a), e.node[n], e.pub, "1.2.3.4:4321", true)
	if err != nil {
		panic(err)
	}
	return m
}

func (e *env) modelAddr(u *net.UDPAddr) string {
	for a, x := range e.udp {
		if x.IP.Equal(u.IP) && x.Port == u.Port {
			return a
		}
	}
	return "?" + u.String()
}

func (e *env) modelNode(ad base.Address) string {
	for n, x := range e.node {
		if x.Equal(ad) {
			return n
		}
	}
	return "?"
}

type op struct {
	kind string // J, L, E
	a, n string
}

func allOps() []op {
	var ops []op
	for _, a := range addrs {
		for _, n := range nodes {
			ops = append(ops, op{"J", a, n})
		}
		ops = append(ops, op{"L", a, ""})
	}
	return ops
}

func (e *env) obs(p *quicmemberlist.VerifMembersPool) map[string]interface{} {
	ex := map[string]bool{}
	gf := map[string]bool{}
	gn := map[string]string{}
	for _, a := range addrs {
		ex[a] = p.Exists(e.addr(a))
		m, found := p.Get(e.addr(a))
		gf[a] = found
		gn[a] = "none"
		if found && m != nil {
			gn[a] = e.modelNode(m.Address())
		}
	}
	ml := map[string]int{}
	others := map[string]map[string][3]int{}
	for _, n := range nodes {
		ml[n] = p.MembersLen(e.node[n])
		others[n] = map[string][3]int{}
		for _, a := range addrs {
			l, o, f := p.MembersLenOthers(e.node[n], e.addr(a))
			fi := 0
			if f {
				fi = 1
			}
			others[n][a] = [3]int{l, o, fi}
		}
	}
	trav := []string{}
	p.Traverse(func(m quicmemberlist.Member) bool {
		trav = append(trav, e.modelAddr(m.Addr()))
		return true
	})
	return map[string]interface{}{"a": "Obs", "len": p.Len(), "exists": ex, "getfound": gf, "getnode": gn,
		"mlen": ml, "others": others, "trav": trav}
}

func (e *env) runSeq(out *h.Out, seq []op) {
	p := quicmemberlist.VerifNewMembersPool()
	out.Emit(map[string]interface{}{"a": "Reset"})
	for _, o := range seq {
		switch o.kind {
		case "J":
			added := p.Set(e.member(o.a, o.n))
			out.Emit(map[string]interface{}{"a": "Join", "addr": o.a, "node": o.n, "added": added})
		case "L":
			removed, err := p.Remove(e.addr(o.a))
			if err != nil {
				panic(err)
			}
			out.Emit(map[string]interface{}{"a": "Leave", "addr": o.a, "removed": removed})
		case "E":
			p.Empty()
			out.Emit(map[string]interface{}{"a": "Empty"})
		}
		out.Emit(e.obs(p))
	}
}

// vh C37 record --mode exhaustive --depth D --out f | --mode random --num N --len L --out f
// vh C37 forced --in schedules --out f | vh C37 free --num N --base I --out f   (conc.go)
func run(args []string) error {
	fl := h.Flags(args)
	if len(args) > 0 && args[0] == "forced" {
		return runForced(fl)
	}
	if len(args) > 0 && args[0] == "free" {
		return runFree(fl)
	}
	out, err := h.NewOut(fl["out"])
	if err != nil {
		return err
	}
	defer out.Close()
	e := newEnv()
	ops := allOps()
	nseq := 0
	switch fl["mode"] {
	case "exhaustive":
		depth, _ := strconv.Atoi(fl["depth"])
		// every sequence of exactly `depth` operations over a reduced alphabet (a1,a2 of n1/n2; a3 of n1)
		var red []op
		for _, o := range ops {
			if o.a == "a4" || (o.a == "a3" && o.n == "n2") {
				continue
			}
			red = append(red, o)
		}
		seq := make([]op, depth)
		var rec func(i int)
		rec = func(i int) {
			if i == depth {
				e.runSeq(out, seq)
				nseq++
				return
			}
			for _, o := range red {
				seq[i] = o
				rec(i + 1)
			}
		}
		rec(0)
	case "random":
		num, _ := strconv.Atoi(fl["num"])
		ln, _ := strconv.Atoi(fl["len"])
		seed, _ := strconv.ParseInt(os.Getenv("VERIF_SEED"), 10, 64)
		rng := rand.New(rand.NewSource(seed))
		full := append(append([]op{}, ops...), op{"E", "", ""})
		for i := 0; i < num; i++ {
			seq := make([]op, 1+rng.Intn(ln))
			for j := range seq {
				seq[j] = full[rng.Intn(len(full))]
			}
			e.runSeq(out, seq)
			nseq++
		}
	default:
		return fmt.Errorf("unknown mode %q", fl["mode"])
	}
	fmt.Printf("sequences=%d events=%d\n", nseq, out.N)
	return nil
}
