package c34

// vh C34 storm --ms D --trace trace.ndjson
//
// Registration storm (sentence 3, schedule-independent): several goroutines call New() with
// 10-minute intervals on a few shared ids (so that registrations overwrite each other), on fresh
// ids, interleaved with StopTimers, while the timer loop passes over the registry as fast as it
// can - either the real daemon started with the smallest resolution, or iterate() called back to
// back from one goroutine (VerifIterate; the daemon does exactly this at every tick). A run lasts
// seconds, the intervals are minutes: ANY callback that starts has started before its interval
// elapsed, whatever the schedule was. It is the only way the outside can see a registration that
// becomes visible to the loop before its first deadline is in place (the window is inside
// NewTimer; no gate is needed, the loop is simply given very many chances to look into it).
//
// Only instances whose callback started are logged (Reg with the time New was called, then the
// loop's steps for that instance, then CbStart with its time), so the log stays small and
// TimersTrace.tla judges it like every other log.

import (
	"context"
	"fmt"
	"math/rand"
	"os"
	"strconv"
	"sync"
	"sync/atomic"
	"time"

	"github.com/spikeekips/mitum/util"

	"mitumverif/internal/h"
)

const stormInterval = 10 * time.Minute

type storm struct {
	mu     sync.Mutex
	out    *h.Out
	t0     time.Time
	news   int64
	stops  int64
	passes int64
	early  int64
	nextX  int
}

func (s *storm) us(t time.Time) int64 { return int64(t.Sub(s.t0) / time.Microsecond) }

func (s *storm) newTimer(ts *util.SimpleTimers, id string) {
	called := time.Now()
	cb := func(_ context.Context, n uint64) (bool, error) {
		now := time.Now()
		atomic.AddInt64(&s.early, 1)
		s.mu.Lock()
		if s.nextX < 20 && n == 0 {
			s.nextX++
			x := s.nextX
			mid := []string{"a", "b", "c"}[x%3] // the monitor knows three ids; which one is immaterial here
			s.out.Emit(ev{"a": "Reg", "id": mid, "x": x, "iv": int64(stormInterval / time.Microsecond), "t": s.us(called), "real": id})
			s.out.Emit(ev{"a": "Snap", "S": []int{x}})
			s.out.Emit(ev{"a": "RunEnter", "x": x})
			s.out.Emit(ev{"a": "RunChecked", "x": x})
			s.out.Emit(ev{"a": "CbStart", "x": x, "n": n, "t": s.us(now)})
			s.out.Emit(ev{"a": "CbEnd", "x": x, "r": "keep", "t": s.us(time.Now())})
		}
		s.mu.Unlock()
		return true, nil
	}
	_, _ = ts.New(util.TimerID(id), func(uint64) time.Duration { return stormInterval }, cb)
	atomic.AddInt64(&s.news, 1)
}

func (s *storm) run(rng *rand.Rand, idx int, shards uint64, daemon bool, dur time.Duration) error {
	res := time.Hour
	if daemon {
		res = time.Nanosecond
	}
	ts, err := util.NewSimpleTimers(shards, res)
	if err != nil {
		return err
	}
	s.t0 = time.Now()
	s.news, s.stops, s.passes, s.early, s.nextX = 0, 0, 0, 0, 0
	mode := "iterate"
	if daemon {
		mode = "daemon"
	}
	s.out.Emit(ev{"a": "Reset", "i": idx, "mode": "storm", "loop": mode, "shards": shards})
	var stop int32
	var wg sync.WaitGroup
	if daemon {
		if err := ts.Start(context.Background()); err != nil {
			return err
		}
	} else {
		wg.Add(1)
		go func() {
			defer wg.Done()
			ctx := context.Background()
			for atomic.LoadInt32(&stop) == 0 {
				_ = ts.VerifIterate(ctx)
				atomic.AddInt64(&s.passes, 1)
			}
		}()
	}
	shared := []string{"storm-a", "storm-b", "storm-c", "storm-d"}
	for g := 0; g < 6; g++ {
		wg.Add(1)
		r := rand.New(rand.NewSource(rng.Int63()))
		go func(g int) {
			defer wg.Done()
			for k := 0; atomic.LoadInt32(&stop) == 0; k++ {
				switch p := r.Intn(10); {
				case p < 6:
					s.newTimer(ts, shared[r.Intn(len(shared))])
				case p < 8:
					id := "storm-" + strconv.Itoa(g) + "-" + strconv.Itoa(k%5)
					s.newTimer(ts, id)
					if r.Intn(2) == 0 {
						_ = ts.StopTimers([]util.TimerID{util.TimerID(id)})
						atomic.AddInt64(&s.stops, 1)
					}
				default:
					_ = ts.StopTimers([]util.TimerID{util.TimerID(shared[r.Intn(len(shared))])})
					atomic.AddInt64(&s.stops, 1)
				}
			}
		}(g)
	}
	deadline := time.Now().Add(dur)
	for time.Now().Before(deadline) && atomic.LoadInt64(&s.early) < 3 {
		time.Sleep(2 * time.Millisecond)
	}
	atomic.StoreInt32(&stop, 1)
	wg.Wait()
	if daemon {
		_ = ts.Stop()
	} else {
		_ = ts.StopAllTimers()
	}
	time.Sleep(2 * time.Millisecond) // jobs of collected instances, if any
	s.mu.Lock()
	s.out.Emit(ev{"a": "Storm", "news": atomic.LoadInt64(&s.news), "stops": atomic.LoadInt64(&s.stops),
		"passes": atomic.LoadInt64(&s.passes), "started": atomic.LoadInt64(&s.early), "ms": int64(time.Since(s.t0) / time.Millisecond)})
	s.mu.Unlock()
	return nil
}

func runStorm(fl map[string]string) error {
	out, err := h.NewOut(fl["trace"])
	if err != nil {
		return err
	}
	defer out.Close()
	ms, _ := strconv.Atoi(fl["ms"])
	if ms <= 0 {
		ms = 1500
	}
	seed, _ := strconv.ParseInt(os.Getenv("VERIF_SEED"), 10, 64)
	rng := rand.New(rand.NewSource(seed*6700417 + 34))
	util.VerifSetGate(nil)
	s := &storm{out: out}
	idx := 0
	for _, daemon := range []bool{false, true} {
		for _, shards := range []uint64{1, 16} {
			if err := s.run(rng, idx, shards, daemon, time.Duration(ms)*time.Millisecond); err != nil {
				return fmt.Errorf("storm %d: %w", idx, err)
			}
			idx++
		}
	}
	return nil
}
