// Package c34 drives the real util.SimpleTimers (property C34).
//
//	vh C34 gate   --in schedules.ndjson --trace trace.ndjson --out res.ndjson
//	    binding G: every schedule is a behaviour of spec/Timers.tla; the verif gates of
//	    util/timers.go hold each job goroutine until the schedule releases it, the driver
//	    performs the API calls and the ticks (VerifIterate) in the schedule's order.
//	vh C34 record --num N --trace trace.ndjson
//	    binding B: the real daemon loop (1 ms resolution) races seeded drivers; the gates
//	    only log.
//
// In both modes every event is written under one mutex at the point where it happens
// (registration and removal inside the registry's shard lock), so the order of the log is
// an order the real execution went through; spec/TimersTrace.tla judges the log.
package c34

import (
	"context"
	"encoding/json"
	"errors"
	"fmt"
	"math/rand"
	"os"
	"runtime"
	"sort"
	"strconv"
	"sync"
	"time"

	"github.com/spikeekips/mitum/util"

	"mitumverif/internal/h"
)

func init() { h.Register("C34", run) }

type ev = map[string]interface{}

var errPlanned = errors.New("planned callback error")

type tm struct {
	x      int
	id     string
	iv     time.Duration
	t      *util.SimpleTimer
	reg    bool
	zeroAt uint64            // interval(zeroAt) = 0 ("no next interval"); 0 = never
	plan   map[uint64]string // free mode: answer of the n-th callback
	result string            // forced mode: answer of the callback in progress
}

type removal struct{ x, by int }

// what the job goroutine has done so far
type jobState struct {
	checked bool // passed the context check
	tried   bool // reached removeTimer
	removed bool // its removeTimer removed an instance
}

type ctl struct {
	mu      sync.Mutex
	out     *h.Out
	t0      time.Time
	forced  bool
	inst    map[*util.SimpleTimer]*tm
	byX     map[int]*tm
	jobOf   map[uint64]int
	jobSt   map[uint64]*jobState
	waiting map[string][]chan struct{}
	doneCnt map[int]int
	cbN     map[int]int // callbacks of x that have returned (= t.called)
	spawned int
	done    int
	rems    []removal
	snap    []int
	snapN   int
	notify  chan struct{}
	ts      *util.SimpleTimers
	timeout time.Duration
	closed  bool
	nlog    int
	entered int
}

func gid() uint64 {
	var b [64]byte
	n := runtime.Stack(b[:], false)
	// "goroutine 123 [running]:"
	s := b[10:n]
	var g uint64
	for _, c := range s {
		if c < '0' || c > '9' {
			break
		}
		g = g*10 + uint64(c-'0')
	}
	return g
}

func newCtl(out *h.Out, forced bool) *ctl {
	return &ctl{out: out, forced: forced, inst: map[*util.SimpleTimer]*tm{}, byX: map[int]*tm{},
		jobOf: map[uint64]int{}, jobSt: map[uint64]*jobState{}, waiting: map[string][]chan struct{}{}, doneCnt: map[int]int{}, cbN: map[int]int{},
		notify: make(chan struct{}, 1), t0: time.Now(), timeout: 20 * time.Second}
}

// emit under mu; a closed controller (its trace has ended) drops the events of late goroutines
func (c *ctl) emit(e ev) {
	if c.closed {
		return
	}
	c.nlog++
	c.out.Emit(e)
}

func (c *ctl) us() int64 { return int64(time.Since(c.t0) / time.Microsecond) }

func (c *ctl) poke() {
	select {
	case c.notify <- struct{}{}:
	default:
	}
}

// log e (and, in forced mode, park the goroutine under key) atomically
func (c *ctl) at(e ev, key string) {
	c.mu.Lock()
	if _, ok := e["t"]; ok {
		e["t"] = c.us()
	}
	c.emit(e)
	var ch chan struct{}
	if c.forced && key != "" {
		ch = make(chan struct{})
		c.waiting[key] = append(c.waiting[key], ch)
	}
	c.mu.Unlock()
	c.poke()
	if ch != nil {
		<-ch
	}
}

func key(kind string, x int) string { return kind + ":" + strconv.Itoa(x) }

func (c *ctl) gate(point string, args ...interface{}) {
	switch point {
	case "timers.iterate.snapshot":
		if args[0].(*util.SimpleTimers) != c.ts {
			return
		}
		timers := args[1].([]*util.SimpleTimer)
		c.mu.Lock()
		S := make([]int, 0, len(timers))
		for _, t := range timers {
			if m := c.inst[t]; m != nil {
				S = append(S, m.x)
			}
		}
		sort.Ints(S)
		c.spawned += len(S)
		c.snap = S
		c.snapN++
		if len(S) > 0 {
			c.emit(ev{"a": "Snap", "S": S})
		}
		c.mu.Unlock()
		c.poke()
	case "timer.run.enter":
		m := c.lookup(args[0])
		if m == nil {
			return
		}
		g := gid()
		c.mu.Lock()
		c.jobOf[g] = m.x
		c.jobSt[g] = &jobState{}
		c.entered++
		c.mu.Unlock()
		c.at(ev{"a": "RunEnter", "x": m.x}, key("enter", m.x))
	case "timer.run.checked":
		if m := c.lookup(args[0]); m != nil {
			g := gid()
			c.mu.Lock()
			if st := c.jobSt[g]; st != nil {
				st.checked = true
			}
			c.mu.Unlock()
			c.at(ev{"a": "RunChecked", "x": m.x}, key("checked", m.x))
		}
	case "timers.job.remove":
		if m := c.lookup(args[1]); m != nil {
			g := gid()
			c.mu.Lock()
			ck := false
			if st := c.jobSt[g]; st != nil {
				st.tried = true
				ck = st.checked
			}
			c.mu.Unlock()
			c.at(ev{"a": "JobRemove", "x": m.x, "ck": ck}, key("remove", m.x))
		}
	case "timers.job.done":
		m := c.lookup(args[1])
		if m == nil {
			return
		}
		g := gid()
		c.mu.Lock()
		rmv := 0
		if st := c.jobSt[g]; st != nil && st.tried {
			rmv = 1
			if st.removed {
				rmv = 2
			}
		}
		delete(c.jobOf, g)
		delete(c.jobSt, g)
		c.doneCnt[m.x]++
		c.done++
		c.emit(ev{"a": "JobDone", "x": m.x, "rmv": rmv})
		c.mu.Unlock()
		c.poke()
	}
}

func (c *ctl) lookup(a interface{}) *tm {
	t, ok := a.(*util.SimpleTimer)
	if !ok {
		return nil
	}
	c.mu.Lock()
	defer c.mu.Unlock()
	return c.inst[t]
}

// newTimer builds a real SimpleTimer whose interval function, callback and removal
// callback report to the log.
func (c *ctl) newTimer(x int, id string, iv time.Duration, plan map[uint64]string) *tm {
	m := &tm{x: x, id: id, iv: iv, plan: plan}
	for n, r := range plan {
		if r == "nonext" {
			m.zeroAt = n + 1
		}
	}
	intervalf := func(n uint64) time.Duration {
		c.mu.Lock()
		if n == 0 && !m.reg {
			// first call: inside timers.Set, under the registry's shard lock
			m.reg = true
			c.emit(ev{"a": "Reg", "id": id, "x": x, "iv": int64(iv / time.Microsecond), "t": c.us()})
		}
		z := m.zeroAt
		c.mu.Unlock()
		if z != 0 && n == z {
			return 0
		}
		return iv
	}
	callback := func(_ context.Context, n uint64) (bool, error) {
		c.at(ev{"a": "CbStart", "x": x, "n": n, "t": 0}, key("cb", x))
		c.mu.Lock()
		r := m.result
		if r == "" {
			r = m.plan[n]
		}
		if r == "" {
			r = "keep"
		}
		m.result = ""
		c.cbN[x]++
		c.emit(ev{"a": "CbEnd", "x": x, "r": r, "t": c.us()})
		c.mu.Unlock()
		switch r {
		case "stop":
			return false, nil
		case "err":
			return true, errPlanned
		default: // keep, nonext (the next interval is 0)
			return true, nil
		}
	}
	removed := func() {
		g := gid()
		c.mu.Lock()
		by := c.jobOf[g]
		if st := c.jobSt[g]; st != nil {
			st.removed = true
		}
		c.rems = append(c.rems, removal{x, by})
		c.emit(ev{"a": "Removed", "x": x, "by": by})
		c.mu.Unlock()
	}
	m.t = util.NewSimpleTimer(util.TimerID(id), intervalf, callback, removed)
	c.mu.Lock()
	c.inst[m.t] = m
	c.byX[x] = m
	c.mu.Unlock()
	return m
}

// await blocks until cond() (evaluated under mu) or the time-out
func (c *ctl) await(cond func() bool) bool {
	deadline := time.Now().Add(c.timeout)
	for {
		c.mu.Lock()
		ok := cond()
		c.mu.Unlock()
		if ok {
			return true
		}
		rest := time.Until(deadline)
		if rest <= 0 {
			return false
		}
		if rest > 50*time.Millisecond {
			rest = 50 * time.Millisecond
		}
		select {
		case <-c.notify:
		case <-time.After(rest):
		}
	}
}

func (c *ctl) release(k string) bool {
	c.mu.Lock()
	defer c.mu.Unlock()
	w := c.waiting[k]
	if len(w) == 0 {
		return false
	}
	close(w[0])
	c.waiting[k] = w[1:]
	return true
}

func (c *ctl) parked(k string) bool { return len(c.waiting[k]) > 0 }

// drain: gates stop blocking, everything parked is released, wait for the jobs to finish
func (c *ctl) drain() error {
	c.mu.Lock()
	c.forced = false
	for k, w := range c.waiting {
		for _, ch := range w {
			close(ch)
		}
		delete(c.waiting, k)
	}
	c.mu.Unlock()
	if !c.await(func() bool { return c.done >= c.spawned }) {
		return fmt.Errorf("jobs did not finish: spawned %d done %d", c.spawned, c.done)
	}
	return nil
}

func (c *ctl) quiesce() {
	last, since := -1, time.Now()
	deadline := time.Now().Add(c.timeout)
	for time.Now().Before(deadline) {
		c.mu.Lock()
		n, all, started := c.nlog, c.done >= c.spawned, c.entered == c.done
		c.mu.Unlock()
		if all {
			return
		}
		if n != last {
			last, since = n, time.Now()
		}
		if started && time.Since(since) > 150*time.Millisecond {
			return
		}
		time.Sleep(5 * time.Millisecond)
	}
}

func strs(v interface{}) []string {
	var out []string
	if l, ok := v.([]interface{}); ok {
		for _, s := range l {
			out = append(out, s.(string))
		}
	}
	sort.Strings(out)
	return out
}

func ints(v interface{}) []int {
	out := []int{}
	if l, ok := v.([]interface{}); ok {
		for _, s := range l {
			out = append(out, int(s.(float64)))
		}
	}
	sort.Ints(out)
	return out
}

func tids(ss []string) []util.TimerID {
	out := make([]util.TimerID, len(ss))
	for i := range ss {
		out[i] = util.TimerID(ss[i])
	}
	return out
}

func sameInts(a, b []int) bool {
	if len(a) != len(b) {
		return false
	}
	for i := range a {
		if a[i] != b[i] {
			return false
		}
	}
	return true
}

var universe = []string{"a", "b", "c"}

func minus(all, ex []string) []string {
	out := []string{}
	for _, a := range all {
		f := false
		for _, e := range ex {
			if e == a {
				f = true
			}
		}
		if !f {
			out = append(out, a)
		}
	}
	return out
}

func (c *ctl) obs() {
	ids := c.ts.TimerIDs()
	l := make([]string, len(ids))
	for i := range ids {
		l[i] = ids[i].String()
	}
	c.mu.Lock()
	c.emit(ev{"a": "Obs", "ids": l})
	c.mu.Unlock()
}

func (c *ctl) stopCall(api string, covered []string, f func()) []int {
	c.mu.Lock()
	n0 := len(c.rems)
	c.emit(ev{"a": "StopCall", "g": 1, "api": api, "ids": covered})
	c.mu.Unlock()
	f()
	c.mu.Lock()
	c.emit(ev{"a": "StopRet", "g": 1})
	got := []int{}
	for _, r := range c.rems[n0:] {
		if r.by == 0 {
			got = append(got, r.x)
		}
	}
	c.mu.Unlock()
	sort.Ints(got)
	return got
}

// one forced schedule; returns "" or the reason why the real code left the schedule
func (c *ctl) schedule(idx int, steps []map[string]interface{}) (string, int, error) {
	nextX := 1
	for si, st := range steps {
		a, _ := st["a"].(string)
		x := 0
		if v, ok := st["x"].(float64); ok {
			x = int(v)
		}
		div := ""
		switch a {
		case "New":
			if x != nextX {
				return "", si, fmt.Errorf("schedule %d: instance numbering %d != %d", idx, x, nextX)
			}
			nextX++
			m := c.newTimer(x, st["id"].(string), time.Nanosecond, nil)
			added, err := c.ts.NewTimer(m.t)
			if err != nil || !added {
				div = fmt.Sprintf("New: added=%v err=%v", added, err)
			}
		case "StopTimers":
			ids := strs(st["ids"])
			got := c.stopCall("StopTimers", ids, func() { _ = c.ts.StopTimers(tids(ids)) })
			if want := ints(st["removed"]); !sameInts(got, want) {
				div = fmt.Sprintf("StopTimers%v removed %v, model %v", ids, got, want)
			}
		case "StopOthers":
			ex := strs(st["ex"])
			var got []int
			if len(ex) == 0 && idx%2 == 1 {
				got = c.stopCall("StopAllTimers", minus(universe, ex), func() { _ = c.ts.StopAllTimers() })
			} else {
				got = c.stopCall("StopOthers", minus(universe, ex), func() { _ = c.ts.StopOthers(tids(ex)) })
			}
			if want := ints(st["removed"]); !sameInts(got, want) {
				div = fmt.Sprintf("StopOthers%v removed %v, model %v", ex, got, want)
			}
		case "Tick":
			want := ints(st["snap"])
			var got []int
			for try := 0; try < 6; try++ {
				if try > 0 {
					time.Sleep(100 * time.Microsecond)
				}
				if err := c.ts.VerifIterate(context.Background()); err != nil {
					return "", si, err
				}
				c.mu.Lock()
				got = c.snap
				c.mu.Unlock()
				if len(got) > 0 || len(want) == 0 {
					break
				}
			}
			if !sameInts(got, want) {
				div = fmt.Sprintf("Tick collected %v, model %v", got, want)
				break
			}
			for _, y := range got {
				k := key("enter", y)
				if !c.await(func() bool { return c.parked(k) }) {
					div = fmt.Sprintf("infeasible: job of %d did not reach run()", y)
				}
			}
		case "RunCheck":
			kc, kr := key("checked", x), key("remove", x)
			c.mu.Lock()
			c0, r0 := len(c.waiting[kc]), len(c.waiting[kr])
			c.mu.Unlock()
			if !c.release(key("enter", x)) {
				div = "RunCheck: no job at run() entry"
				break
			}
			if !c.await(func() bool { return len(c.waiting[kc]) > c0 || len(c.waiting[kr]) > r0 }) {
				div = "infeasible: RunCheck did not arrive"
				break
			}
			c.mu.Lock()
			pass := len(c.waiting[kc]) > c0
			c.mu.Unlock()
			if want, _ := st["pass"].(bool); pass != want {
				div = fmt.Sprintf("RunCheck(%d) pass=%v, model %v", x, pass, want)
			}
		case "CbStart":
			// the answer of this callback decides interval(called+1), asked before the callback
			r := "keep"
			for _, later := range steps[si+1:] {
				if la, _ := later["a"].(string); la == "CbEnd" && int(later["x"].(float64)) == x {
					r, _ = later["r"].(string)
					break
				}
			}
			c.mu.Lock()
			m := c.byX[x]
			if r == "nonext" {
				m.zeroAt = uint64(c.cbCount(x)) + 1
			}
			m.result = r // also what the callback answers if the schedule is left before its CbEnd
			c.mu.Unlock()
			if !c.release(key("checked", x)) {
				div = "CbStart: no job past the context check"
				break
			}
			k := key("cb", x)
			if !c.await(func() bool { return c.parked(k) }) {
				div = "infeasible: callback not entered"
			}
		case "CbEnd":
			r, _ := st["r"].(string)
			c.mu.Lock()
			kr := key("remove", x)
			c.byX[x].result = r
			d0, r0 := c.doneCnt[x], len(c.waiting[kr])
			c.mu.Unlock()
			if !c.release(key("cb", x)) {
				div = "CbEnd: no callback in progress"
				break
			}
			if !c.await(func() bool { return len(c.waiting[kr]) > r0 || c.doneCnt[x] > d0 }) {
				div = "infeasible: callback did not return"
				break
			}
			c.mu.Lock()
			removing := len(c.waiting[kr]) > r0
			c.mu.Unlock()
			if removing != (r != "keep") {
				div = fmt.Sprintf("CbEnd(%d,%s): job removes=%v", x, r, removing)
			}
		case "AfterRun":
			c.mu.Lock()
			d0 := c.doneCnt[x]
			n0 := len(c.rems)
			c.mu.Unlock()
			if !c.release(key("remove", x)) {
				div = "AfterRun: no job before removeTimer"
				break
			}
			if !c.await(func() bool { return c.doneCnt[x] > d0 }) {
				div = "infeasible: job did not finish"
				break
			}
			c.mu.Lock()
			got := 0
			for _, r := range c.rems[n0:] {
				if r.by == x {
					got = r.x
				}
			}
			c.mu.Unlock()
			want := 0
			if v, ok := st["victim"].(float64); ok {
				want = int(v)
			}
			if got != want {
				div = fmt.Sprintf("AfterRun(%d) removed %d, model %d", x, got, want)
			}
		case "Advance":
			time.Sleep(time.Millisecond)
		default:
			return "", si, fmt.Errorf("unknown step %q", a)
		}
		if div != "" {
			return div, si, nil
		}
		switch a {
		case "New", "StopTimers", "StopOthers", "AfterRun":
			c.obs() // quiescent: every job goroutine is parked or gone
		}
	}
	return "", len(steps), nil
}

// number of callbacks of x that have returned (= t.called of the next run)
func (c *ctl) cbCount(x int) int { return c.cbN[x] }

var sizes = []uint64{1, 2, 16}

func runGate(fl map[string]string) error {
	out, err := h.NewOut(fl["trace"])
	if err != nil {
		return err
	}
	defer out.Close()
	res, err := h.NewOut(fl["out"])
	if err != nil {
		return err
	}
	defer res.Close()
	var cur *ctl
	util.VerifSetGate(func(p string, a ...interface{}) {
		if cur != nil {
			cur.gate(p, a...)
		}
	})
	defer util.VerifSetGate(nil)
	idx := 0
	return h.ReadNDJSON(fl["in"], func(line []byte) error {
		var sc struct {
			I     int                      `json:"i"`
			Steps []map[string]interface{} `json:"steps"`
		}
		if err := json.Unmarshal(line, &sc); err != nil {
			return err
		}
		idx++
		c := newCtl(out, true)
		ts, err := util.NewSimpleTimers(sizes[sc.I%len(sizes)], time.Hour)
		if err != nil {
			return err
		}
		c.ts = ts
		cur = c
		out.Emit(ev{"a": "Reset", "i": sc.I})
		div, at, err := c.schedule(sc.I, sc.Steps)
		if err != nil {
			return err
		}
		if derr := c.drain(); derr != nil {
			return fmt.Errorf("schedule %d: %w", sc.I, derr)
		}
		c.obs()
		rems := [][2]int{}
		for _, r := range c.rems {
			rems = append(rems, [2]int{r.by, r.x})
		}
		res.Emit(ev{"i": sc.I, "diverged": div, "at": at, "steps": len(sc.Steps), "removals": rems, "shards": sizes[sc.I%len(sizes)]})
		cur = nil
		return nil
	})
}

// ---- free running ----

func runRecord(fl map[string]string) error {
	out, err := h.NewOut(fl["trace"])
	if err != nil {
		return err
	}
	defer out.Close()
	num, _ := strconv.Atoi(fl["num"])
	nops, _ := strconv.Atoi(fl["ops"])
	if nops == 0 {
		nops = 30
	}
	seed, _ := strconv.ParseInt(os.Getenv("VERIF_SEED"), 10, 64)
	rng := rand.New(rand.NewSource(seed*7919 + 34))
	var cur *ctl
	var curmu sync.RWMutex
	util.VerifSetGate(func(p string, a ...interface{}) {
		curmu.RLock()
		c := cur
		curmu.RUnlock()
		if c != nil {
			c.gate(p, a...)
		}
	})
	defer util.VerifSetGate(nil)
	results := []string{"keep", "keep", "keep", "stop", "err", "nonext"}
	for k := 0; k < num; k++ {
		c := newCtl(out, false)
		ts, err := util.NewSimpleTimers(sizes[k%len(sizes)], time.Millisecond)
		if err != nil {
			return err
		}
		c.ts = ts
		curmu.Lock()
		cur = c
		curmu.Unlock()
		out.Emit(ev{"a": "Reset", "i": k})
		if err := ts.Start(context.Background()); err != nil {
			return err
		}
		nextX := 1
		for o := 0; o < nops && nextX <= 24; o++ {
			switch p := rng.Intn(10); {
			case p < 5:
				plan := map[uint64]string{}
				for n := uint64(0); n < 4; n++ {
					r := results[rng.Intn(len(results))]
					plan[n] = r
					if r != "keep" {
						break
					}
				}
				iv := time.Duration(1+rng.Intn(4)) * time.Millisecond
				m := c.newTimer(nextX, universe[rng.Intn(len(universe))], iv, plan)
				nextX++
				if added, err := ts.NewTimer(m.t); err != nil || !added {
					return fmt.Errorf("NewTimer: added=%v err=%v", added, err)
				}
			case p < 7:
				var ids []string
				for _, u := range universe {
					if rng.Intn(2) == 0 {
						ids = append(ids, u)
					}
				}
				if len(ids) == 0 {
					ids = []string{universe[rng.Intn(len(universe))]}
				}
				c.stopCall("StopTimers", ids, func() { _ = ts.StopTimers(tids(ids)) })
			case p < 8:
				ex := []string{}
				for _, u := range universe {
					if rng.Intn(2) == 0 {
						ex = append(ex, u)
					}
				}
				c.stopCall("StopOthers", minus(universe, ex), func() { _ = ts.StopOthers(tids(ex)) })
			case p < 9 && rng.Intn(3) == 0:
				c.stopCall("StopAllTimers", universe, func() { _ = ts.StopAllTimers() })
			default:
				time.Sleep(time.Duration(rng.Intn(3000)) * time.Microsecond)
			}
			if rng.Intn(3) == 0 {
				time.Sleep(time.Duration(rng.Intn(1500)) * time.Microsecond)
			}
		}
		c.stopCall("Stop", universe, func() { _ = ts.Stop() })
		// the loop has returned: no new jobs. A collected instance whose NewJob lost against the
		// daemon's cancellation has no job, so wait for the jobs that did start: every job that
		// entered run() has ended and the log has been silent for a while.
		c.quiesce()
		c.mu.Lock()
		c.closed = true
		c.mu.Unlock()
		curmu.Lock()
		cur = nil
		curmu.Unlock()
	}
	return nil
}

func run(args []string) error {
	if len(args) < 1 {
		return fmt.Errorf("usage: C34 gate|record|storm ...")
	}
	fl := h.Flags(args[1:])
	switch args[0] {
	case "gate":
		return runGate(fl)
	case "record":
		return runRecord(fl)
	case "storm":
		return runStorm(fl)
	}
	return fmt.Errorf("unknown mode %q", args[0])
}
