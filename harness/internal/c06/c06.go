// Package c06 binds spec/LastPoint.tla, spec/LastPointRel.tla and spec/LastVoteproofs.tla to the
// real isaac.LastPoint, isaacstates.Ballotbox (SetLastPoint / SetLastPointFromVoteproof) and
// isaac.LastVoteproofsHandler.
//
//	table    --in cases --out res        binding A: every (last, cand) pair TLC dumped -> real Before /
//	                                     IsNewBallot / IsNewVoteproofbyPoint / IsNewVoteproof(real voteproof)
//	relation --maxh H --maxr R --out f   binding B: the REAL transition relation: every (last, cand) pair
//	                                     offered to a fresh real Ballotbox, every (ivp, avp, cand) triple
//	                                     offered to a real LastVoteproofsHandler; graph with integer node ids
//	replay   --in behaviours --out res   binding A: TLC -simulate sequences into ONE long-lived Ballotbox /
//	                                     ONE long-lived LastVoteproofsHandler
//	votes    --maxh H --maxr R ...       binding B: the moves the box makes itself while it VOTES (really
//	                                     signed ballots with embedded voteproofs, Count) - see votes.go
//
// A position is {h, r, s, m, c}: height, round, stage (1 INIT, 3 ACCEPT, 0 none), majority 0/1,
// suffrage-confirm 0/1; the zero position is {-1,0,0,0,0}.
package c06

import (
	"encoding/json"
	"fmt"

	"github.com/spikeekips/mitum/base"
	"github.com/spikeekips/mitum/isaac"
	isaacstates "github.com/spikeekips/mitum/isaac/states"
	"github.com/spikeekips/mitum/util"
	"github.com/spikeekips/mitum/util/valuehash"

	"mitumverif/internal/h"
)

func init() { h.Register("C06", run) }

type Pos struct {
	H int64 `json:"h"`
	R int64 `json:"r"`
	S int   `json:"s"`
	M int   `json:"m"`
	C int   `json:"c"`
}

var zero = Pos{H: -1}

func (p Pos) isZero() bool { return p.S == 0 }

func (p Pos) key() string { return fmt.Sprintf("%d.%d.%d.%d.%d", p.H, p.R, p.S, p.M, p.C) }

func stageOf(s int) base.Stage {
	switch s {
	case 1:
		return base.StageINIT
	case 3:
		return base.StageACCEPT
	default:
		return base.StageUnknown
	}
}

func stageNum(s base.Stage) int {
	switch s {
	case base.StageINIT:
		return 1
	case base.StageACCEPT:
		return 3
	default:
		return 0
	}
}

func (p Pos) stagePoint() base.StagePoint {
	return base.NewStagePoint(base.RawPoint(p.H, uint64(p.R)), stageOf(p.S))
}

// lastPoint builds the real isaac.LastPoint of a model position (zero -> zero value).
func (p Pos) lastPoint() (isaac.LastPoint, error) {
	if p.isZero() {
		return isaac.LastPoint{}, nil
	}
	return isaac.NewLastPoint(p.stagePoint(), p.M == 1, p.C == 1)
}

func fromLastPoint(l isaac.LastPoint) Pos {
	if l.IsZero() {
		return zero
	}
	return Pos{H: l.Height().Int64(), R: int64(l.Round().Uint64()), S: stageNum(l.Stage()), M: b2i(l.IsMajority()), C: b2i(l.IsSuffrageConfirm())}
}

func fromVoteproof(vp base.Voteproof) Pos {
	if vp == nil {
		return zero
	}
	p := vp.Point()
	return Pos{
		H: p.Height().Int64(), R: int64(p.Round().Uint64()), S: stageNum(p.Stage()),
		M: b2i(vp.Result() == base.VoteResultMajority),
		C: b2i(vp.Majority() != nil && isaac.IsSuffrageConfirmBallotFact(vp.Majority())),
	}
}

func b2i(b bool) int {
	if b {
		return 1
	}
	return 0
}

// vpFactory makes really-signed voteproofs for positions (one-node suffrage; the last-point code
// under test looks at Point, Result and Majority only, validation is C03/C04's subject).
type vpFactory struct {
	node  base.LocalNode
	netID base.NetworkID
	cache map[string]base.Voteproof
	back  map[string]Pos // voteproof ID -> position
}

func newFactory() *vpFactory {
	return &vpFactory{node: base.RandomLocalNode(), netID: base.NetworkID([]byte("c06-network")), cache: map[string]base.Voteproof{}, back: map[string]Pos{}}
}

// constructible: a voteproof's suffrage-confirm flag comes from its majority fact, so (m=0,c=1) does not exist.
func constructible(p Pos) bool {
	return !p.isZero() && !(p.C == 1 && p.M == 0) && !(p.C == 1 && p.S != 1)
}

func (f *vpFactory) fresh(p Pos) base.Voteproof {
	point := base.RawPoint(p.H, uint64(p.R))
	switch p.S {
	case 1:
		var fact base.INITBallotFact
		if p.C == 1 {
			fact = isaac.NewSuffrageConfirmBallotFact(point, valuehash.RandomSHA256(), valuehash.RandomSHA256(), []util.Hash{valuehash.RandomSHA256()})
		} else {
			fact = isaac.NewINITBallotFact(point, valuehash.RandomSHA256(), valuehash.RandomSHA256(), nil)
		}
		sf := isaac.NewINITBallotSignFact(fact)
		if err := sf.NodeSign(f.node.Privatekey(), f.netID, f.node.Address()); err != nil {
			panic(err)
		}
		vp := isaac.NewINITVoteproof(point)
		if p.M == 1 {
			vp.SetMajority(fact)
		}
		vp.SetSignFacts([]base.BallotSignFact{sf}).SetThreshold(base.Threshold(100)).Finish()
		return vp
	case 3:
		fact := isaac.NewACCEPTBallotFact(point, valuehash.RandomSHA256(), valuehash.RandomSHA256(), nil)
		sf := isaac.NewACCEPTBallotSignFact(fact)
		if err := sf.NodeSign(f.node.Privatekey(), f.netID, f.node.Address()); err != nil {
			panic(err)
		}
		vp := isaac.NewACCEPTVoteproof(point)
		if p.M == 1 {
			vp.SetMajority(fact)
		}
		vp.SetSignFacts([]base.BallotSignFact{sf}).SetThreshold(base.Threshold(100)).Finish()
		return vp
	}
	panic("no voteproof for " + p.key())
}

// vp returns the one canonical voteproof object of a position.
func (f *vpFactory) vp(p Pos) base.Voteproof {
	if v, ok := f.cache[p.key()]; ok {
		return v
	}
	v := f.fresh(p)
	if got := fromVoteproof(v); got != p {
		panic(fmt.Sprintf("factory built %v for %v", got, p))
	}
	f.cache[p.key()] = v
	f.back[v.ID()] = p
	return v
}

func newBox() *isaacstates.Ballotbox {
	return isaacstates.NewBallotbox(
		base.RandomAddress("c06-"),
		func() base.Threshold { return base.Threshold(100) },
		func(base.Height) (base.Suffrage, bool, error) { return nil, false, nil },
	)
}

func positions(maxh, maxr int64) []Pos {
	var ps []Pos
	for hh := int64(0); hh <= maxh; hh++ {
		for r := int64(0); r <= maxr; r++ {
			if hh == 0 && r != 0 {
				continue
			}
			for _, s := range []int{1, 3} {
				for m := 0; m <= 1; m++ {
					for c := 0; c <= 1; c++ {
						if c == 1 && s != 1 {
							continue
						}
						ps = append(ps, Pos{hh, r, s, m, c})
					}
				}
			}
		}
	}
	return ps
}

func run(args []string) error {
	if len(args) < 1 {
		return fmt.Errorf("mode: table | relation | replay | votes")
	}
	fl := h.Flags(args[1:])
	switch args[0] {
	case "table":
		return table(fl)
	case "relation":
		return relation(fl)
	case "replay":
		return replay(fl)
	case "votes":
		return votes(fl)
	}
	return fmt.Errorf("unknown mode %q", args[0])
}

// ---------------------------------------------------------------- table (binding A)

type tcase struct {
	Last Pos `json:"last"`
	Cand Pos `json:"cand"`
}

type tres struct {
	I      int    `json:"i"`
	Before bool   `json:"before"`
	NB     bool   `json:"nb"`
	NV     bool   `json:"nv"`
	NVVP   *bool  `json:"nvvp"` // isaac.IsNewVoteproof on the real voteproof (nil: position has no voteproof)
	HNew   *bool  `json:"hnew"` // LastVoteproofs{cap=last}.IsNew(real voteproof)
	Panic  string `json:"panic,omitempty"`
}

func table(fl map[string]string) error {
	out, err := h.NewOut(fl["out"])
	if err != nil {
		return err
	}
	defer out.Close()
	f := newFactory()
	i := 0
	return h.ReadNDJSON(fl["in"], func(line []byte) error {
		var c tcase
		if err := json.Unmarshal(line, &c); err != nil {
			return err
		}
		i++
		res := tres{I: i}
		res.Panic = h.Catch(func() {
			last, err := c.Last.lastPoint()
			if err != nil {
				panic(err)
			}
			sp := c.Cand.stagePoint()
			res.Before = last.Before(sp, c.Cand.C == 1)
			res.NB = isaac.IsNewBallot(last, sp, c.Cand.C == 1)
			res.NV = isaac.IsNewVoteproofbyPoint(last, sp, c.Cand.M == 1, c.Cand.C == 1)
			if constructible(c.Cand) {
				v := isaac.IsNewVoteproof(last, f.vp(c.Cand))
				res.NVVP = &v
				if constructible(c.Last) {
					// a handler whose cap is the voteproof of `last`
					hd := isaac.NewLastVoteproofsHandler()
					hd.ForceSetLast(f.vp(c.Last))
					w := hd.IsNew(f.vp(c.Cand))
					w2 := hd.Last().IsNew(f.vp(c.Cand))
					if w != w2 {
						panic("LastVoteproofsHandler.IsNew != LastVoteproofs.IsNew")
					}
					res.HNew = &w
				}
			}
		})
		out.Emit(res)
		return nil
	})
}

// ---------------------------------------------------------------- relation (binding B)

type brow struct {
	K     string `json:"k"` // "B"
	Last  Pos    `json:"last"`
	Cand  Pos    `json:"cand"`
	OK    bool   `json:"ok"`
	After Pos    `json:"after"`
	Entry string `json:"entry"`
}

type vedge struct {
	Cand Pos  `json:"cand"`
	Ret  bool `json:"ret"`
	New  bool `json:"new"` // IsNew(cand) asked just before the Set (ret && new = the voteproof was TAKEN, not only filled in)
	To   int  `json:"to"`
}

type vnode struct {
	K   string  `json:"k"` // "V"
	ID  int     `json:"id"`
	Ivp Pos     `json:"ivp"`
	Avp Pos     `json:"avp"`
	Cap Pos     `json:"cap"`
	Out []vedge `json:"out"`
}

func relation(fl map[string]string) error {
	var maxh, maxr int64
	fmt.Sscan(fl["maxh"], &maxh)
	fmt.Sscan(fl["maxr"], &maxr)
	outB, err := h.NewOut(fl["out"] + ".box")
	if err != nil {
		return err
	}
	defer outB.Close()
	outV, err := h.NewOut(fl["out"] + ".hdl")
	if err != nil {
		return err
	}
	defer outV.Close()
	f := newFactory()
	ps := positions(maxh, maxr)
	lasts := append([]Pos{zero}, ps...)

	// Ballotbox: every (last, cand) on a fresh real box; `last` is installed through the same API
	// (the zero position accepts anything - checked).
	for _, l := range lasts {
		for _, c := range ps {
			for _, entry := range []string{"SetLastPoint", "SetLastPointFromVoteproof"} {
				if entry == "SetLastPointFromVoteproof" && !constructible(c) {
					continue
				}
				box := newBox()
				if !l.isZero() {
					lp, err := l.lastPoint()
					if err != nil {
						return err
					}
					if !box.SetLastPoint(lp) {
						return fmt.Errorf("fresh box refused first last point %v", l)
					}
					if got := fromLastPoint(box.LastPoint()); got != l {
						return fmt.Errorf("fresh box: LastPoint()=%v after SetLastPoint(%v)", got, l)
					}
				}
				row := brow{K: "B", Last: l, Cand: c, Entry: entry}
				if entry == "SetLastPoint" {
					cp, err := c.lastPoint()
					if err != nil {
						return err
					}
					row.OK = box.SetLastPoint(cp)
				} else {
					row.OK = box.SetLastPointFromVoteproof(f.vp(c))
				}
				row.After = fromLastPoint(box.LastPoint())
				outB.Emit(row)
			}
		}
	}

	// LastVoteproofsHandler: nodes = (ivp, avp) pairs, built with ForceSetLast in the order that keeps both.
	var inits, accepts []Pos
	inits = append(inits, zero)
	accepts = append(accepts, zero)
	var cands []Pos
	for _, p := range ps {
		if !constructible(p) {
			continue
		}
		cands = append(cands, p)
		if p.S == 1 {
			inits = append(inits, p)
		} else {
			accepts = append(accepts, p)
		}
	}
	ids := map[string]int{}
	var nodes []*vnode
	for _, iv := range inits {
		for _, av := range accepts {
			n := &vnode{K: "V", ID: len(nodes) + 1, Ivp: iv, Avp: av}
			ids[iv.key()+"|"+av.key()] = n.ID
			nodes = append(nodes, n)
		}
	}
	build := func(iv, av Pos) (*isaac.LastVoteproofsHandler, error) {
		hd := isaac.NewLastVoteproofsHandler()
		switch {
		case iv.isZero() && av.isZero():
		case iv.isZero():
			hd.ForceSetLast(f.vp(av))
		case av.isZero():
			hd.ForceSetLast(f.vp(iv))
		case iv.stagePoint().Point.Compare(av.stagePoint().Point) > 0:
			hd.ForceSetLast(f.vp(av))
			hd.ForceSetLast(f.vp(iv))
		default:
			hd.ForceSetLast(f.vp(iv))
			hd.ForceSetLast(f.vp(av))
		}
		l := hd.Last()
		if gi, ga := f.posOf(l.INIT()), f.posOf(l.ACCEPT()); gi != iv || ga != av {
			return nil, fmt.Errorf("cannot build handler state ivp=%v avp=%v: got %v %v", iv, av, gi, ga)
		}
		return hd, nil
	}
	for _, n := range nodes {
		hd, err := build(n.Ivp, n.Avp)
		if err != nil {
			return err
		}
		n.Cap = f.posOf(hd.Last().Cap())
		for _, c := range cands {
			hd, _ := build(n.Ivp, n.Avp)
			isnew := hd.IsNew(f.vp(c))
			ret := hd.Set(f.vp(c))
			l := hd.Last()
			to, ok := ids[f.posOf(l.INIT()).key()+"|"+f.posOf(l.ACCEPT()).key()]
			if !ok {
				return fmt.Errorf("handler left the domain: %v %v", f.posOf(l.INIT()), f.posOf(l.ACCEPT()))
			}
			n.Out = append(n.Out, vedge{Cand: c, Ret: ret, New: isnew, To: to})
		}
		outV.Emit(n)
	}
	return nil
}

// posOf maps a voteproof held by the handler back to its model position (by voteproof ID).
func (f *vpFactory) posOf(vp base.Voteproof) Pos {
	if vp == nil {
		return zero
	}
	p, ok := f.back[vp.ID()]
	if !ok {
		panic("handler holds a voteproof the factory did not make: " + vp.ID())
	}
	return p
}

// ---------------------------------------------------------------- replay (binding A, long-lived objects)

type step struct {
	A    string `json:"a"` // "SetB" | "SetV" | "ForceV"
	Last Pos    `json:"last"`
	Cand Pos    `json:"cand"`
	Acc  bool   `json:"acc"`
	Ivp  Pos    `json:"ivp"`
	Avp  Pos    `json:"avp"`
	Mvp  Pos    `json:"mvp"`
	Ret  bool   `json:"ret"`
}

type rres struct {
	B     int    `json:"b"`
	I     int    `json:"i"`
	A     string `json:"a"`
	Cand  Pos    `json:"cand"`
	OK    bool   `json:"ok"`    // real return value
	After Pos    `json:"after"` // real position after the call (box: LastPoint; handler: Cap)
	Ivp   Pos    `json:"ivp"`
	Avp   Pos    `json:"avp"`
	Mvp   Pos    `json:"mvp"`
	NewB  []bool `json:"newb,omitempty"` // IsNew* of the candidate against the position before the call
	Panic string `json:"panic,omitempty"`
}

func replay(fl map[string]string) error {
	out, err := h.NewOut(fl["out"])
	if err != nil {
		return err
	}
	defer out.Close()
	f := newFactory()
	b := 0
	return h.ReadNDJSON(fl["in"], func(line []byte) error {
		var steps []step
		if err := json.Unmarshal(line, &steps); err != nil {
			return err
		}
		b++
		box := newBox()
		hd := isaac.NewLastVoteproofsHandler()
		for i, s := range steps {
			res := rres{B: b, I: i + 1, A: s.A, Cand: s.Cand}
			res.Panic = h.Catch(func() {
				switch s.A {
				case "SetB":
					cp, err := s.Cand.lastPoint()
					if err != nil {
						panic(err)
					}
					before := box.LastPoint()
					res.NewB = []bool{isaac.IsNewBallot(before, s.Cand.stagePoint(), s.Cand.C == 1)}
					// alternate the two entry points where a voteproof exists
					if constructible(s.Cand) && (b+i)%2 == 0 {
						res.OK = box.SetLastPointFromVoteproof(f.vp(s.Cand))
					} else {
						res.OK = box.SetLastPoint(cp)
					}
					res.After = fromLastPoint(box.LastPoint())
				case "SetV", "ForceV":
					vp := f.vp(s.Cand)
					res.NewB = []bool{hd.IsNew(vp)}
					if s.A == "SetV" {
						res.OK = hd.Set(vp)
					} else {
						res.OK = hd.ForceSetLast(vp)
					}
					l := hd.Last()
					res.After = f.posOf(l.Cap())
					res.Ivp, res.Avp, res.Mvp = f.posOf(l.INIT()), f.posOf(l.ACCEPT()), f.posOf(l.Majority())
				default:
					panic("unknown action " + s.A)
				}
			})
			out.Emit(res)
		}
		return nil
	})
}
