package c06

// Mode "votes": the moves the ballot box makes ITSELF while it votes (spec/LastPointVote.tla,
// validated by spec/LastPointVoteTrace.tla - binding B).
//
// A real isaacstates.Ballotbox is driven with really signed ballots (built by the ballot factory
// of harness/internal/c04: real nodes with their own keys, real INIT / suffrage-confirm / ACCEPT
// ballot facts and sign facts, really signed embedded voteproofs, expel operations) and
// box.LastPoint() is read before and after every call of Vote / Count / SetLastPoint.
//
//	votes --family f1|f1late|f2|rnd|all --maxh H --maxr R --num N --len L --out prefix
//
// writes one trace per family (events separated by "Reset"):
//
//	prefix.f1   every start position (installed with SetLastPoint on a fresh box) x every ballot
//	            (stage point, INIT / suffrage-confirm / ACCEPT) x every embedded voteproof (any
//	            position, or none); plain 3-node suffrage, and a 4-node suffrage where the last node
//	            is expelled (ballots and voteproofs carry the expel, as the protocol does)
//	prefix.f1late  the same with the suffrage unknown when the ballot arrives: the position is moved by
//	            Ballotbox.Count after the suffrage is learnt (quick: suffrage-confirm ballots only)
//	prefix.f2   every start position x every record voted to a decision (all agree / draw at the
//	            second vote / draw at the last vote) with every voteproof the protocol embeds
//	prefix.rnd  seeded consensus-like flows (INIT -> suffrage confirm -> ACCEPT -> next height or
//	            round) with late and duplicate ballots by other nodes, SetLastPoint and Count calls
//	            in between, and histories where the suffrage is learnt late
//
// Model heights 1.. are real heights c04.HeightBase+1.. .

import (
	"fmt"
	"math/rand"
	"os"
	"runtime"
	"strconv"
	"time"

	"github.com/spikeekips/mitum/base"
	isaacstates "github.com/spikeekips/mitum/isaac/states"

	"mitumverif/internal/c04"
	"mitumverif/internal/h"
)

// VKey names a record of the box: stage point + kind ("I" INIT, "S" suffrage confirm, "A" ACCEPT).
type VKey struct {
	H int    `json:"h"`
	R int    `json:"r"`
	K string `json:"k"`
}

func (k VKey) stage() int {
	if k.K == "A" {
		return 3
	}
	return 1
}

type vballot struct {
	N string
	K VKey
	F string
	E Pos // embedded voteproof by position; zero = none
}

type vop struct {
	A string // SetLast | Vote | Count | Learn
	P Pos
	B vballot
}

type vhist struct {
	NN  int
	T10 int
	Ex  bool // the last node is expelled: ballots and voteproofs carry the expel
	Suf bool // the suffrage is known from the start
	Tag string
	Ops []vop
}

// vev is one logged event. Fields a kind of event does not use are left out (the trace spec reads
// a field only under the guard of the event kind).
type vev struct {
	A      string `json:"a"`
	Hist   int    `json:"hist,omitempty"` // Reset
	Tag    string `json:"tag,omitempty"`
	NN     int    `json:"nn,omitempty"`
	T10    int    `json:"t10,omitempty"`
	Ex     *bool  `json:"ex,omitempty"`
	Suf    *bool  `json:"suf,omitempty"`
	P      *Pos   `json:"p,omitempty"` // SetLast
	N      string `json:"n,omitempty"` // Vote
	K      *VKey  `json:"k,omitempty"`
	F      string `json:"f,omitempty"`
	E      *Pos   `json:"e,omitempty"`
	OK     *bool  `json:"ok,omitempty"` // SetLast: accepted; Vote: voted; Count: has voteproof
	Before *Pos   `json:"before,omitempty"`
	After  *Pos   `json:"after,omitempty"`
	Emit   *[]Pos `json:"emit,omitempty"` // Vote, Count: voteproofs handed to Ballotbox.Voteproof() by the call
	Err    string `json:"err,omitempty"`
}

func up(p Pos) Pos {
	if p.isZero() {
		return p
	}
	p.H += c04.HeightBase
	return p
}

func down(p Pos) Pos {
	if p.isZero() {
		return zero
	}
	p.H -= c04.HeightBase
	return p
}

type vrunner struct {
	out       *h.Out
	envs      map[string]*c04.Env
	env       *c04.Env
	hist      vhist
	nhist     int
	box       *isaacstates.Ballotbox
	known     bool
	baseline  int
	unsettled int
	votes     int
}

func (r *vrunner) exList() []string {
	if !r.hist.Ex {
		return nil
	}
	return []string{fmt.Sprintf("n%d", r.hist.NN-1)}
}

// evp describes the really signed voteproof of a position: a majority is every (not expelled) node
// signing fact A, a draw is every node signing a fact of its own.
func (r *vrunner) evp(e Pos) (c04.VPSpec, error) {
	if e.isZero() {
		return c04.VPSpec{}, nil
	}
	if !constructible(e) {
		return c04.VPSpec{}, fmt.Errorf("no voteproof has position %v", e)
	}
	ex := r.exList()
	v := c04.VPSpec{
		Name: fmt.Sprintf("e|%s|%v", e.key(), ex), H: int(e.H), R: int(e.R), S: e.S, SC: e.C == 1, Ex: ex, T10: r.hist.T10,
		// the voteproof suffrage-confirm ballots end in is a plain one over the whole suffrage
		Plain: e.C == 1,
	}
	i := 0
	for _, n := range r.env.Names {
		if len(ex) > 0 && n == ex[0] {
			continue
		}
		f := "A"
		if e.M == 0 {
			f = fmt.Sprintf("D%d", i)
		}
		v.Votes = append(v.Votes, []string{n, f})
		i++
	}
	vp := r.env.Voteproof(v)
	if got := down(fromVoteproof(vp)); got != e {
		return v, fmt.Errorf("voteproof factory built %v for %v (n=%d t=%d ex=%v)", got, e, r.hist.NN, r.hist.T10, ex)
	}
	return v, nil
}

func (r *vrunner) ballot(b vballot) (base.Ballot, error) {
	spec, err := r.evp(b.E)
	if err != nil {
		return nil, err
	}
	if b.K.K == "A" && !b.E.isZero() && b.E.S != 1 {
		return nil, fmt.Errorf("an ACCEPT ballot cannot embed %v", b.E)
	}
	return r.env.Ballot(c04.BallotSpec{
		Node: b.N, H: b.K.H, R: b.K.R, S: b.K.stage(), SC: b.K.K == "S", F: b.F, Ex: r.exList(), EVP: spec,
	}), nil
}

// settle waits for the goroutines Vote spawned (deferred count, new-ballot callback).
func (r *vrunner) settle() {
	deadline := time.Now().Add(20 * time.Second)
	for i := 0; ; i++ {
		if runtime.NumGoroutine() <= r.baseline {
			return
		}
		if i < 200 {
			runtime.Gosched()
		} else {
			time.Sleep(20 * time.Microsecond)
		}
		if time.Now().After(deadline) {
			r.unsettled++
			return
		}
	}
}

func (r *vrunner) drain() []Pos {
	ps := []Pos{}
	for {
		select {
		case vp := <-r.box.Voteproof():
			ps = append(ps, down(fromVoteproof(vp)))
		default:
			return ps
		}
	}
}

func (r *vrunner) run(hist vhist) error {
	r.hist = hist
	r.nhist++
	ek := fmt.Sprintf("%d|%d", hist.NN, hist.T10)
	if r.envs[ek] == nil {
		r.envs[ek] = c04.NewEnv(hist.NN, hist.T10)
	}
	r.env = r.envs[ek]
	env := r.env
	r.known = hist.Suf
	r.box = isaacstates.NewBallotbox(env.Locals["n0"].Address(),
		func() base.Threshold { return env.Threshold },
		func(base.Height) (base.Suffrage, bool, error) {
			if !r.known {
				return nil, false, nil
			}
			return env.Suf, true, nil
		},
	)
	r.box.SetCountAfter(24 * time.Hour) // a held draw is never released (holds are C04's subject)
	runtime.Gosched()
	r.baseline = runtime.NumGoroutine()

	r.out.Emit(vev{A: "Reset", Hist: r.nhist, Tag: hist.Tag, NN: hist.NN, T10: hist.T10, Ex: &hist.Ex, Suf: &hist.Suf})

	for _, o := range hist.Ops {
		if o.A == "Learn" {
			r.known = true
			r.out.Emit(vev{A: "Learn"})
			continue
		}
		ev := vev{A: o.A}
		before := down(fromLastPoint(r.box.LastPoint()))
		ev.Before = &before
		var ferr error
		var ok bool
		pan := h.Catch(func() {
			switch o.A {
			case "SetLast":
				p := o.P
				ev.P = &p
				lp, err := up(o.P).lastPoint()
				if err != nil {
					ferr = err
					return
				}
				ok = r.box.SetLastPoint(lp)
			case "Vote":
				b := o.B
				ev.N, ev.K, ev.F, ev.E = b.N, &b.K, b.F, &b.E
				bl, err := r.ballot(o.B)
				if err != nil {
					ferr = err
					return
				}
				voted, err := r.box.Vote(bl)
				r.votes++
				ok = voted
				if err != nil {
					ev.Err = err.Error()
				}
			case "Count":
				ok = r.box.Count()
			default:
				ferr = fmt.Errorf("unknown op %q", o.A)
			}
		})
		if ferr != nil {
			return ferr
		}
		if pan != "" {
			ev.Err = "panic: " + pan[:min(len(pan), 300)]
		}
		ev.OK = &ok
		r.settle()
		after := down(fromLastPoint(r.box.LastPoint()))
		ev.After = &after
		if o.A != "SetLast" {
			emit := r.drain()
			ev.Emit = &emit
		}
		r.out.Emit(ev)
	}
	return nil
}

// ---------------------------------------------------------------- families

func vpositions(maxh, maxr int64) []Pos {
	var ps []Pos
	for _, p := range positions(maxh, maxr) {
		if p.H >= 1 {
			ps = append(ps, p)
		}
	}
	return ps
}

func vkeys(maxh, maxr int64) []VKey {
	var ks []VKey
	for hh := 1; hh <= int(maxh); hh++ {
		for r := 0; r <= int(maxr); r++ {
			for _, k := range []string{"I", "S", "A"} {
				ks = append(ks, VKey{hh, r, k})
			}
		}
	}
	return ks
}

// canon: the voteproofs a ballot of key k carries in the protocol (LastPointVote!Canon).
func canon(k VKey, maxr int64) []Pos {
	hh, r := int64(k.H), int64(k.R)
	var ps []Pos
	switch {
	case k.K == "S":
		ps = []Pos{{hh, r, 1, 1, 0}}
	case k.K == "A":
		ps = []Pos{{hh, r, 1, 1, 0}, {hh, r, 1, 1, 1}}
	case r == 0:
		if hh > 1 {
			for r2 := int64(0); r2 <= maxr; r2++ {
				ps = append(ps, Pos{hh - 1, r2, 3, 1, 0})
			}
		}
	default:
		ps = []Pos{{hh, r - 1, 3, 0, 0}, {hh, r - 1, 1, 0, 0}}
	}
	return ps
}

func startOps(start Pos) []vop {
	if start.isZero() {
		return nil
	}
	return []vop{{A: "SetLast", P: start}}
}

func familyOne(maxh, maxr int64, run func(vhist) error) error {
	starts := append([]Pos{zero}, vpositions(maxh, maxr)...)
	var evps []Pos
	evps = append(evps, zero)
	for _, p := range vpositions(maxh, maxr) {
		if constructible(p) {
			evps = append(evps, p)
		}
	}
	for _, variant := range []vhist{{NN: 3, T10: 670, Suf: true, Tag: "f1"}, {NN: 4, T10: 670, Ex: true, Suf: true, Tag: "f1x"}} {
		for _, st := range starts {
			for _, k := range vkeys(maxh, maxr) {
				es := evps
				if variant.Ex {
					es = append([]Pos{zero}, canon(k, maxr)...)
				}
				for _, e := range es {
					if k.K == "A" && !e.isZero() && e.S != 1 {
						continue
					}
					hist := variant
					hist.Ops = append(startOps(st), vop{A: "Vote", B: vballot{N: "n1", K: k, F: "A", E: e}})
					if err := run(hist); err != nil {
						return err
					}
				}
			}
		}
	}
	return nil
}

// familyOneLate: the ballot arrives while the suffrage is unknown (kept unvalidated, nothing counted);
// the position is then moved by Ballotbox.Count once the suffrage is known. all = every kind of
// ballot, otherwise the suffrage-confirm ones (the record filter that lets any voteproof through).
func familyOneLate(maxh, maxr int64, all bool, run func(vhist) error) error {
	starts := append([]Pos{zero}, vpositions(maxh, maxr)...)
	evps := []Pos{zero}
	for _, p := range vpositions(maxh, maxr) {
		if constructible(p) {
			evps = append(evps, p)
		}
	}
	for _, st := range starts {
		for _, k := range vkeys(maxh, maxr) {
			if !all && k.K != "S" {
				continue
			}
			for _, e := range evps {
				if k.K == "A" && !e.isZero() && e.S != 1 {
					continue
				}
				hist := vhist{NN: 3, T10: 670, Suf: false, Tag: "f1late"}
				hist.Ops = append(startOps(st), vop{A: "Vote", B: vballot{N: "n1", K: k, F: "A", E: e}}, vop{A: "Learn"}, vop{A: "Count"})
				if err := run(hist); err != nil {
					return err
				}
			}
		}
	}
	return nil
}

func familyTwo(maxh, maxr int64, run func(vhist) error) error {
	starts := append([]Pos{zero}, vpositions(maxh, maxr)...)
	type variant struct {
		h    vhist
		pats []string
	}
	for _, v := range []variant{
		{vhist{NN: 3, T10: 670, Suf: true, Tag: "f2"}, []string{"AAA", "ABA", "AAB"}},
		{vhist{NN: 4, T10: 670, Ex: true, Suf: true, Tag: "f2x"}, []string{"AAA"}},
		{vhist{NN: 3, T10: 670, Suf: false, Tag: "f2late"}, []string{"AAA", "AB"}},
	} {
		for _, st := range starts {
			for _, k := range vkeys(maxh, maxr) {
				for _, e := range append([]Pos{zero}, canon(k, maxr)...) {
					for _, pat := range v.pats {
						hist := v.h
						hist.Ops = startOps(st)
						for i, f := range pat {
							hist.Ops = append(hist.Ops, vop{A: "Vote", B: vballot{N: fmt.Sprintf("n%d", i), K: k, F: string(f), E: e}})
						}
						if !hist.Suf {
							// nothing was counted while the suffrage was unknown: Count does it
							hist.Ops = append(hist.Ops, vop{A: "Learn"}, vop{A: "Count"})
						}
						if err := run(hist); err != nil {
							return err
						}
					}
				}
			}
		}
	}
	return nil
}

// randomHist: one consensus-like flow with deviations.
func randomHist(rng *rand.Rand, maxh, maxr int64, length int) vhist {
	hist := vhist{NN: 3 + rng.Intn(2), T10: 670, Suf: rng.Intn(6) > 0, Tag: "rnd"}
	if hist.NN == 4 {
		hist.Ex = rng.Intn(2) == 0
	}
	voters := hist.NN
	if hist.Ex {
		voters--
	}
	var flow []vballot
	lastAccept := zero // ACCEPT majority of the previous height
	for hh := int64(1); hh <= maxh; hh++ {
		prevRound := zero // how the previous round of this height ended (a draw)
		for r := int64(0); r <= maxr; r++ {
			stageVotes := func(k VKey, e Pos, agree bool) {
				order := rng.Perm(voters)
				if rng.Intn(4) == 0 && len(order) > 1 {
					order = order[:len(order)-1] // a node stays silent
				}
				for j, i := range order {
					f := "A"
					if !agree && j > 0 {
						f = string(rune('A' + j%3))
					}
					flow = append(flow, vballot{N: fmt.Sprintf("n%d", i), K: k, F: f, E: e})
				}
			}
			var e Pos
			switch {
			case r == 0:
				e = lastAccept
			default:
				e = prevRound
			}
			if rng.Intn(8) == 0 {
				e = zero
			}
			initAgree := rng.Intn(3) > 0
			stageVotes(VKey{int(hh), int(r), "I"}, e, initAgree)
			if !initAgree {
				prevRound = Pos{hh, r, 1, 0, 0}
				continue
			}
			ivp := Pos{hh, r, 1, 1, 0}
			if hist.Ex || rng.Intn(5) == 0 {
				scAgree := rng.Intn(4) > 0
				stageVotes(VKey{int(hh), int(r), "S"}, ivp, scAgree)
				if scAgree {
					ivp = Pos{hh, r, 1, 1, 1}
				}
			}
			accAgree := rng.Intn(3) > 0
			stageVotes(VKey{int(hh), int(r), "A"}, ivp, accAgree)
			if accAgree {
				lastAccept = Pos{hh, r, 3, 1, 0}
				break
			}
			prevRound = Pos{hh, r, 3, 0, 0}
		}
	}
	// deviations: ballots arrive late, twice, from another node, out of order; the states move the
	// position themselves; somebody asks for a count
	var ops []vop
	ps := vpositions(maxh, maxr)
	learnAt := -1
	if !hist.Suf {
		learnAt = rng.Intn(len(flow) + 1)
	}
	for i, b := range flow {
		if i == learnAt {
			ops = append(ops, vop{A: "Learn"}, vop{A: "Count"})
		}
		switch p := rng.Intn(20); {
		case p < 4 && i > 0: // an earlier ballot again, by some node
			o := flow[rng.Intn(i)]
			o.N = fmt.Sprintf("n%d", rng.Intn(hist.NN))
			ops = append(ops, vop{A: "Vote", B: o})
		case p == 4 && i+1 < len(flow): // a later ballot early
			ops = append(ops, vop{A: "Vote", B: flow[i+1+rng.Intn(len(flow)-i-1)]})
		case p == 5:
			ops = append(ops, vop{A: "SetLast", P: ps[rng.Intn(len(ps))]})
		case p == 6:
			ops = append(ops, vop{A: "Count"})
		case p == 7: // the ballot is lost
			continue
		}
		ops = append(ops, vop{A: "Vote", B: b})
		if len(ops) >= length {
			break
		}
	}
	if learnAt >= len(flow) || (learnAt >= 0 && len(ops) >= length) {
		ops = append(ops, vop{A: "Learn"}, vop{A: "Count"})
	}
	hist.Ops = ops
	return hist
}

func votes(fl map[string]string) error {
	var maxh, maxr int64
	fmt.Sscan(fl["maxh"], &maxh)
	fmt.Sscan(fl["maxr"], &maxr)
	num, _ := strconv.Atoi(fl["num"])
	length, _ := strconv.Atoi(fl["len"])
	seed, _ := strconv.ParseInt(os.Getenv("VERIF_SEED"), 10, 64)

	// one P: a Gosched in settle() runs the goroutines a Vote left behind right away instead of
	// spinning next to them
	defer runtime.GOMAXPROCS(runtime.GOMAXPROCS(1))

	envs := map[string]*c04.Env{}
	total := map[string]int{}
	unsettled := 0
	family := func(name string, gen func(run func(vhist) error) error) error {
		out, err := h.NewOut(fl["out"] + "." + name)
		if err != nil {
			return err
		}
		defer out.Close()
		r := &vrunner{out: out, envs: envs}
		if err := gen(r.run); err != nil {
			return err
		}
		total[name+".histories"] = r.nhist
		total[name+".votes"] = r.votes
		unsettled += r.unsettled
		return nil
	}
	gens := map[string]func(run func(vhist) error) error{
		"f1": func(run func(vhist) error) error { return familyOne(maxh, maxr, run) },
		"f1late": func(run func(vhist) error) error {
			return familyOneLate(maxh, maxr, os.Getenv("VERIF_TIER") == "thorough", run)
		},
		"f2": func(run func(vhist) error) error { return familyTwo(maxh, maxr, run) },
		"rnd": func(run func(vhist) error) error {
			rng := rand.New(rand.NewSource(seed*7919 + 17))
			for i := 0; i < num; i++ {
				// longer flows need more heights and rounds than the exhaustive families
				if err := run(randomHist(rng, maxh+1, maxr+1, length)); err != nil {
					return err
				}
			}
			return nil
		},
	}
	for _, name := range []string{"f1", "f1late", "f2", "rnd"} {
		if fl["family"] != "" && fl["family"] != "all" && fl["family"] != name {
			continue
		}
		if err := family(name, gens[name]); err != nil {
			return err
		}
	}
	fmt.Printf("%v unsettled=%d\n", total, unsettled)
	if unsettled > 0 {
		return fmt.Errorf("%d calls left goroutines behind", unsettled)
	}
	return nil
}
