// Package h holds the small shared pieces of the conformance harness:
// command registry, ndjson I/O, panic capture.
package h

import (
	"bufio"
	"encoding/json"
	"fmt"
	"os"
	"runtime/debug"
	"sort"
	"sync"
)

type Cmd func(args []string) error

var cmds = map[string]Cmd{}

func Register(name string, c Cmd) { cmds[name] = c }

func Lookup(name string) (Cmd, bool) { c, ok := cmds[name]; return c, ok }

func Names() []string {
	var ns []string
	for k := range cmds {
		ns = append(ns, k)
	}
	sort.Strings(ns)
	return ns
}

// ReadNDJSON calls f with every non-empty line of the file.
func ReadNDJSON(path string, f func(line []byte) error) error {
	fd, err := os.Open(path)
	if err != nil {
		return err
	}
	defer fd.Close()
	sc := bufio.NewScanner(fd)
	sc.Buffer(make([]byte, 1<<20), 1<<28)
	for sc.Scan() {
		b := sc.Bytes()
		if len(b) == 0 {
			continue
		}
		c := make([]byte, len(b))
		copy(c, b)
		if err := f(c); err != nil {
			return err
		}
	}
	return sc.Err()
}

// Out is a concurrency-safe ndjson writer.
type Out struct {
	mu sync.Mutex
	fd *os.File
	w  *bufio.Writer
	N  int
}

func NewOut(path string) (*Out, error) {
	fd, err := os.Create(path)
	if err != nil {
		return nil, err
	}
	return &Out{fd: fd, w: bufio.NewWriterSize(fd, 1<<20)}, nil
}

func (o *Out) Emit(v interface{}) {
	b, err := json.Marshal(v)
	if err != nil {
		panic(err)
	}
	o.mu.Lock()
	o.w.Write(b)
	o.w.WriteByte('\n')
	o.N++
	o.mu.Unlock()
}

func (o *Out) Close() error {
	o.mu.Lock()
	defer o.mu.Unlock()
	if err := o.w.Flush(); err != nil {
		return err
	}
	return o.fd.Close()
}

// Catch runs f and returns a non-empty description if it panicked.
func Catch(f func()) (panicked string) {
	defer func() {
		if r := recover(); r != nil {
			panicked = fmt.Sprintf("panic: %v\n%s", r, debug.Stack())
		}
	}()
	f()
	return ""
}

// Flags: tiny "--k v" parser (all values strings).
func Flags(args []string) map[string]string {
	m := map[string]string{}
	for i := 0; i < len(args); i++ {
		a := args[i]
		if len(a) > 2 && a[:2] == "--" {
			if i+1 < len(args) {
				m[a[2:]] = args[i+1]
				i++
			} else {
				m[a[2:]] = "1"
			}
		}
	}
	return m
}

// Main is the entry point of every per-property harness binary:
// vh-<ID> <ID> <mode> [--flag value ...]
func Main() {
	if len(os.Args) < 2 {
		fmt.Fprintln(os.Stderr, "usage: vh <PROP> <mode> [--flag value ...]; props:", Names())
		os.Exit(2)
	}
	c, ok := Lookup(os.Args[1])
	if !ok {
		fmt.Fprintln(os.Stderr, "unknown property", os.Args[1], "have", Names())
		os.Exit(2)
	}
	if err := c(os.Args[2:]); err != nil {
		fmt.Fprintf(os.Stderr, "vh %s: %+v\n", os.Args[1], err)
		os.Exit(2)
	}
}
