// Package c07 replays the cases and scripts of spec/Proposer.tla through the real proposal selection
// pipeline (binding A): isaac.NewBaseProposalSelector with
//   - GetNodesFunc answering by block height: the listing of the case (a fresh copy, in the listed order);
//     in a script the suffrage of that height of the chain as it is at that moment ("not found" above
//     its top), the suffrage of the point's height in the listed order,
//   - ProposerSelectFunc = the real BlockBasedProposerSelector.Select, wrapped only to log which
//     node it returned for which node list,
//   - a RequestFunc that logs which node is asked and answers with a proposal really signed by
//     that node (or fails, for the first nfail nodes asked),
//   - a real ProposalMaker for the local node and a real TempPool on leveldb mem storage.
//
// A single case is put to a selector object made for it. A script (history part of the spec) keeps
// one selector object per model selector for all its selections - as a consensus node does - while
// block events change the suffrage between heights; every selection of a script is put at the same
// time to a second selector object made for this one call (a node that has just started: other
// listing of the same suffrage, same point, same previous block).
//
// Model node i is mapped to a real node whose address string has the rank the spec's `order`
// gives it among the addresses, so address order differs from id order.
package c07

import (
	"context"
	"encoding/json"
	"fmt"
	"math/rand"
	"os"
	"sort"
	"strconv"
	"sync"
	"time"

	"github.com/pkg/errors"
	"github.com/spikeekips/mitum/base"
	"github.com/spikeekips/mitum/isaac"
	isaacdatabase "github.com/spikeekips/mitum/isaac/database"
	leveldbstorage "github.com/spikeekips/mitum/storage/leveldb"
	"github.com/spikeekips/mitum/util"
	"github.com/spikeekips/mitum/util/encoder"
	jsonenc "github.com/spikeekips/mitum/util/encoder/json"
	"github.com/spikeekips/mitum/util/valuehash"
	leveldbOpt "github.com/syndtr/goleveldb/leveldb/opt"
	leveldbStorage "github.com/syndtr/goleveldb/leveldb/storage"

	"mitumverif/internal/h"
)

func init() { h.Register("C07", run) }

// event of a script of the history part: K = 0 the block of height G is saved, its state holds the
// suffrage Suf and its hash has the byte sum HS; K = 1 the long-lived selector object Sel (of node
// Loc) is asked for the point (H, R), GetNodesFunc lists the suffrage of block H-1 as Listing.
type event struct {
	K       int   `json:"k"`
	G       int   `json:"g"`
	Suf     []int `json:"suf"`
	HS      int   `json:"hs"`
	Sel     int   `json:"sel"`
	Loc     int   `json:"loc"`
	H       int64 `json:"h"`
	R       int64 `json:"r"`
	Listing []int `json:"listing"`
	NFail   int   `json:"nfail"`
}

type selres struct {
	Ev          int    `json:"ev"` // index of the event in the script
	Vet         result `json:"vet"`
	Twin        result `json:"twin"`
	TwinLocal   int    `json:"twin_local"`
	TwinListing []int  `json:"twin_listing"`
}

type sresult struct {
	I     int      `json:"i"`
	Sels  []selres `json:"sels"`
	Panic string   `json:"panic,omitempty"`
	Ms    int64    `json:"ms"`
}

type kase struct {
	Script  []event `json:"script,omitempty"`
	Listing []int   `json:"listing"`
	Order   []int   `json:"order"` // all model nodes, in address order
	H       int64   `json:"h"`
	R       int64   `json:"r"`
	HS      int     `json:"hs"`
	Local   int     `json:"local"`
	NFail   int     `json:"nfail"`
}

type result struct {
	I        int      `json:"i"`
	Selected []int    `json:"selected"`          // nodes returned by the real ProposerSelectFunc, consecutive repeats removed
	Sorted   [][]int  `json:"sorted,omitempty"`  // node lists the real ProposerSelectFunc was given (first two)
	Asked    []int    `json:"asked"`             // nodes handed to RequestFunc, consecutive repeats removed
	Events   [][2]int `json:"events"`            // ordered log: [0,id] = ProposerSelectFunc returned id, [1,id] = RequestFunc asked id (consecutive repeats removed)
	Winner   int      `json:"winner"`            // proposer of the proposal Select returned (-1: error)
	Valid    bool     `json:"valid"`             // returned proposal is for the point and previous block
	Heights  []int64  `json:"heights,omitempty"` // block heights GetNodesFunc was asked for
	Err      string   `json:"err,omitempty"`
	Panic    string   `json:"panic,omitempty"`
	Ms       int64    `json:"ms"`
	WaitMs   int64    `json:"wait_ms"` // the proposer wait of this call: a call that took longer ran into its deadline
}

var (
	netID = base.NetworkID([]byte("c07-network"))
	enc   *jsonenc.Encoder
	encs  *encoder.Encoders
)

func setupEncoders() error {
	enc = jsonenc.NewEncoder()
	encs = encoder.NewEncoders(enc, enc)
	for _, d := range []encoder.DecodeDetail{
		{Hint: base.MPublickeyHint, Instance: &base.MPublickey{}},
		{Hint: base.StringAddressHint, Instance: base.StringAddress{}},
		{Hint: isaac.ProposalFactHint, Instance: isaac.ProposalFact{}},
		{Hint: isaac.ProposalSignFactHint, Instance: isaac.ProposalSignFact{}},
	} {
		if err := encs.AddDetail(d); err != nil {
			return err
		}
	}
	return nil
}

// hashWithSum returns a 32-byte hash whose bytes add up to sum.
func hashWithSum(sum int, rng *rand.Rand) util.Hash {
	b := make([]byte, 32)
	left := sum
	for i := 0; i < 32 && left > 0; i++ {
		v := 255
		if left < v {
			v = left
		}
		b[i] = byte(v)
		left -= v
	}
	if left > 0 {
		panic("byte sum too large for 32 bytes")
	}
	rng.Shuffle(len(b), func(i, j int) { b[i], b[j] = b[j], b[i] })
	return valuehash.NewBytes(b)
}

// sm64 is a splitmix64 rand.Source64 (math/rand's own source costs ~0.5 ms to seed; one is made per case).
type sm64 uint64

func (s *sm64) Seed(seed int64) { *s = sm64(seed) }
func (s *sm64) Uint64() uint64 {
	*s += 0x9e3779b97f4a7c15
	z := uint64(*s)
	z = (z ^ (z >> 30)) * 0xbf58476d1ce4e5b9
	z = (z ^ (z >> 27)) * 0x94d049bb133111eb
	return z ^ (z >> 31)
}
func (s *sm64) Int63() int64 { return int64(s.Uint64() >> 1) }

func newRng(seed int64) *rand.Rand { s := sm64(seed); return rand.New(&s) }

type world struct {
	nodes map[int]base.LocalNode // model id -> real node (0 = the outsider)
	back  map[string]int
}

// newWorld gives every model node an address such that sorting by address string yields `order`.
func newWorld(order []int) *world {
	w := &world{nodes: map[int]base.LocalNode{}, back: map[string]int{}}
	addrs := make([]string, len(order))
	for i := range addrs {
		addrs[i] = util.UUID().String()
	}
	sort.Strings(addrs)
	for i, id := range order {
		ad := base.NewStringAddress(addrs[i])
		w.nodes[id] = isaac.NewLocalNode(base.NewMPrivatekey(), ad)
		w.back[ad.String()] = id
	}
	out := base.NewStringAddress("outsider-" + util.UUID().String())
	w.nodes[0] = isaac.NewLocalNode(base.NewMPrivatekey(), out)
	w.back[out.String()] = 0
	// address order must be the given order
	for i := 1; i < len(order); i++ {
		if !(w.nodes[order[i-1]].Address().String() < w.nodes[order[i]].Address().String()) {
			panic("address order broken")
		}
	}
	return w
}

func (w *world) id(a base.Address) int {
	if i, ok := w.back[a.String()]; ok {
		return i
	}
	return -2
}

func dedupe(xs []int) []int {
	var out []int
	for _, x := range xs {
		if len(out) == 0 || out[len(out)-1] != x {
			out = append(out, x)
		}
	}
	if out == nil {
		out = []int{}
	}
	return out
}

// selector is one real, possibly long-lived, isaac.BaseProposalSelector of one node with its own
// real TempPool; what its hooks saw during the current call is logged.
type selector struct {
	w       *world
	local   int
	minwait time.Duration
	pool    *isaacdatabase.TempPool
	ps      *isaac.BaseProposalSelector

	mu       sync.Mutex
	epoch    int                             // number of the current call; carried by the context given to Select
	getNodes func(base.Height) ([]int, bool) // what GetNodesFunc answers during the current call (model ids, listed order)
	nfail    int
	failed   map[int]bool
	selected []int
	asked    []int
	events   [][2]int
	sorted   [][]int
	heights  []int64 // block heights GetNodesFunc was asked for
}

// Every selector object gets a real TempPool of its own on leveldb mem storage. Opening a leveldb costs
// ~10 ms of CPU (buffers), and tens of thousands of selector objects are made, so the pools of finished
// selectors are emptied ((*TempPool).Clean deletes every key) and handed to the next ones.
var poolFree = make(chan *isaacdatabase.TempPool, 2048)

func getPool() *isaacdatabase.TempPool {
	select {
	case p := <-poolFree:
		return p
	default:
	}
	st, err := leveldbstorage.NewStorage(leveldbStorage.NewMemStorage(), &leveldbOpt.Options{
		WriteBuffer:            64 << 10,
		BlockCacheCapacity:     64 << 10,
		CompactionTableSize:    64 << 10,
		DisableSeeksCompaction: true,
	})
	if err != nil {
		panic(err)
	}
	pool, err := isaacdatabase.NewTempPool(st, encs, enc, 0)
	if err != nil {
		panic(err)
	}
	return pool
}

func putPool(p *isaacdatabase.TempPool) {
	if err := p.Clean(); err != nil {
		_ = p.Close()
		return
	}
	select {
	case poolFree <- p:
	default:
		_ = p.Close()
	}
}

type epochKey struct{}

func newSelector(w *world, localid int, minwait time.Duration) *selector {
	s := &selector{w: w, local: localid, minwait: minwait}
	pool := getPool()
	s.pool = pool
	local := w.nodes[localid]
	real := isaac.NewBlockBasedProposerSelector()

	args := isaac.NewBaseProposalSelectorArgs()
	args.Pool = pool
	args.Maker = isaac.NewProposalMaker(local, netID, nil, pool, nil)
	args.GetNodesFunc = func(g base.Height) ([]base.Node, bool, error) {
		s.mu.Lock()
		s.heights = append(s.heights, g.Int64())
		f := s.getNodes
		s.mu.Unlock()
		ids, found := f(g)
		if !found {
			return nil, false, nil
		}
		ns := make([]base.Node, len(ids)) // a fresh slice at every call: the code sorts it in place
		for j, id := range ids {
			ns[j] = w.nodes[id]
		}
		return ns, true, nil
	}
	args.ProposerSelectFunc = func(ctx context.Context, p base.Point, nodes []base.Node, pb util.Hash) (base.Node, error) {
		n, err := real.Select(ctx, p, nodes, pb)
		s.mu.Lock()
		if err == nil && n != nil {
			s.selected = append(s.selected, w.id(n.Address()))
			s.logev(0, w.id(n.Address()))
			if len(s.sorted) < 2 {
				l := make([]int, len(nodes))
				for j := range nodes {
					l[j] = w.id(nodes[j].Address())
				}
				if len(s.sorted) == 0 || len(s.sorted[len(s.sorted)-1]) != len(l) {
					s.sorted = append(s.sorted, l)
				}
			}
		}
		s.mu.Unlock()
		return n, err
	}
	args.RequestFunc = func(ctx context.Context, p base.Point, proposer base.Node, pb util.Hash) (base.ProposalSignFact, bool, error) {
		id := w.id(proposer.Address())
		s.mu.Lock()
		if ep, _ := ctx.Value(epochKey{}).(int); ep != s.epoch {
			// a request goroutine left over from an earlier call of this selector object (the code starts
			// one per try and does not wait for it when the deadline comes first): nobody reads its answer
			s.mu.Unlock()
			return nil, false, errors.Errorf("call is over")
		}
		s.asked = append(s.asked, id)
		s.logev(1, id)
		fail := s.failed[id]
		if !fail && len(s.failed) < s.nfail {
			s.failed[id] = true
			fail = true
		}
		s.mu.Unlock()
		if fail {
			return nil, false, errors.Errorf("node %d does not answer", id)
		}
		n, ok := w.nodes[id]
		if !ok {
			return nil, false, errors.Errorf("unknown node")
		}
		sf := isaac.NewProposalSignFact(isaac.NewProposalFact(p, n.Address(), pb, nil))
		if err := sf.Sign(n.Privatekey(), netID); err != nil {
			return nil, false, err
		}
		return sf, true, nil
	}
	args.RequestProposalInterval = time.Millisecond * 20
	// the first proposer is retried until the deadline; a failing one costs the whole wait
	args.MinProposerWait = minwait
	args.TimeoutRequest = func() time.Duration { return time.Second * 8 }

	s.ps = isaac.NewBaseProposalSelector(local, args)
	return s
}

func (s *selector) logev(kind, id int) {
	if n := len(s.events); n == 0 || s.events[n-1] != [2]int{kind, id} {
		s.events = append(s.events, [2]int{kind, id})
	}
}

func (s *selector) close() { putPool(s.pool) }

// call puts one selection to the real selector object.
func (s *selector) call(
	i int, point base.Point, prev util.Hash, nfail int, wait time.Duration, getNodes func(base.Height) ([]int, bool),
) result {
	res := result{I: i, Winner: -1, WaitMs: wait.Milliseconds()}
	if mw := s.minwait.Milliseconds(); res.WaitMs < mw {
		res.WaitMs = mw
	}
	start := time.Now()
	s.mu.Lock()
	s.epoch++
	ctx := context.WithValue(context.Background(), epochKey{}, s.epoch)
	s.getNodes, s.nfail, s.failed = getNodes, nfail, map[int]bool{}
	s.selected, s.asked, s.events, s.sorted, s.heights = nil, nil, nil, nil, nil
	s.mu.Unlock()
	res.Panic = h.Catch(func() {
		pr, err := s.ps.Select(ctx, point, prev, wait)
		s.mu.Lock()
		res.Selected, res.Asked, res.Sorted = dedupe(s.selected), dedupe(s.asked), s.sorted
		res.Events = append([][2]int{}, s.events...)
		res.Heights = append([]int64{}, s.heights...)
		s.mu.Unlock()
		if err != nil {
			res.Err = err.Error()
			return
		}
		res.Winner = s.w.id(pr.ProposalFact().Proposer())
		res.Valid = pr.Point().Equal(point) && pr.ProposalFact().PreviousBlock().Equal(prev)
	})
	if res.Events == nil {
		res.Events = [][2]int{}
	}
	res.Ms = time.Since(start).Milliseconds()
	return res
}

func waits(nfail int) (minwait, wait time.Duration) {
	if nfail > 0 {
		return time.Millisecond * 1500, 0
	}
	return time.Millisecond * 1500, time.Second * 8
}

// runCase: one selection by a selector object made for it.
func runCase(i int, k kase, w *world, rng *rand.Rand) (res result) {
	res = result{I: i, Winner: -1, Events: [][2]int{}}
	if p := h.Catch(func() {
		minwait, wait := waits(k.NFail)
		s := newSelector(w, k.Local, minwait)
		defer s.close()
		res = s.call(i, base.RawPoint(k.H, uint64(k.R)), hashWithSum(k.HS, rng), k.NFail, wait,
			func(base.Height) ([]int, bool) { return k.Listing, true })
	}); p != "" {
		res.Panic = p
	}
	return res
}

// runScript replays one script of the history part: a chain that grows block by block (the
// suffrage of a block height is what GetNodesFunc answers for that height, nothing above the
// top of the chain), long-lived selector objects that are asked point after point, and for every
// selection a selector object made for this single call (a node that has just started), which
// gets another listing of the same suffrage, the same point and the same previous block.
func runScript(i int, k kase, w *world, rng *rand.Rand) (res sresult) {
	res = sresult{I: i, Sels: []selres{}}
	start := time.Now()
	vets := map[int]*selector{}
	defer func() {
		for _, s := range vets {
			s.close()
		}
	}()
	res.Panic = h.Catch(func() {
		var sufs [][]int       // sufs[g] = members in the state of block g
		var hashes []util.Hash // hashes[g] = hash of block g
		shuffled := func(ids []int, r *rand.Rand) []int {
			out := append([]int{}, ids...)
			r.Shuffle(len(out), func(a, b int) { out[a], out[b] = out[b], out[a] })
			return out
		}
		for ei, e := range k.Script {
			switch e.K {
			case 0:
				if e.G != len(sufs) {
					panic(fmt.Sprintf("script %d: block %d after %d blocks", i, e.G, len(sufs)))
				}
				sufs = append(sufs, append([]int{}, e.Suf...))
				hashes = append(hashes, hashWithSum(e.HS, rng))
			case 1:
				if e.H < 1 || int(e.H) > len(sufs) {
					panic(fmt.Sprintf("script %d: point of height %d with %d blocks", i, e.H, len(sufs)))
				}
				minwait, wait := waits(e.NFail)
				vet, ok := vets[e.Sel]
				if !ok {
					vet = newSelector(w, e.Loc, minwait)
					vets[e.Sel] = vet
				}
				top := len(sufs) - 1
				chain := func(listing []int, r *rand.Rand) func(base.Height) ([]int, bool) {
					var l sync.Mutex
					return func(g base.Height) ([]int, bool) {
						switch {
						case g.Int64() < 0 || g.Int64() > int64(top):
							return nil, false
						case g.Int64() == e.H-1:
							return listing, true
						default:
							l.Lock()
							defer l.Unlock()
							return shuffled(sufs[g.Int64()], r), true
						}
					}
				}
				// the node that has just started: the same node when proposers fail (which nodes are
				// asked depends on who is local), otherwise any node
				tlocal := e.Loc
				if e.NFail == 0 {
					cands := append([]int{0}, e.Listing...)
					tlocal = cands[rng.Intn(len(cands))]
				}
				tlisting := shuffled(e.Listing, rng)
				sr := selres{Ev: ei, TwinLocal: tlocal, TwinListing: tlisting}
				point := base.RawPoint(e.H, uint64(e.R))
				prev := hashes[e.H-1]
				r1 := newRng(rng.Int63())
				r2 := newRng(rng.Int63())
				var wg sync.WaitGroup
				wg.Add(2)
				go func() {
					defer wg.Done()
					sr.Vet = vet.call(ei, point, prev, e.NFail, wait, chain(e.Listing, r1))
				}()
				go func() {
					defer wg.Done()
					sr.Twin = result{I: ei, Winner: -1, Events: [][2]int{}}
					if p := h.Catch(func() {
						twin := newSelector(w, tlocal, minwait)
						defer twin.close()
						sr.Twin = twin.call(ei, point, prev, e.NFail, wait, chain(tlisting, r2))
					}); p != "" {
						sr.Twin.Panic = p
					}
				}()
				wg.Wait()
				res.Sels = append(res.Sels, sr)
			default:
				panic(fmt.Sprintf("script %d: event kind %d", i, e.K))
			}
		}
	})
	res.Ms = time.Since(start).Milliseconds()
	return res
}

func run(args []string) error {
	if len(args) < 1 || args[0] != "replay" {
		return fmt.Errorf("mode: replay --in cases --out results [--par N]")
	}
	fl := h.Flags(args[1:])
	if err := setupEncoders(); err != nil {
		return err
	}
	seed, _ := strconv.ParseInt(os.Getenv("VERIF_SEED"), 10, 64)
	par := 192 // the runs mostly sleep (33 ms ticker before the first request, proposer wait)
	if v, err := strconv.Atoi(fl["par"]); err == nil && v > 0 {
		par = v
	}
	var cases []kase
	if err := h.ReadNDJSON(fl["in"], func(line []byte) error {
		var k kase
		if err := json.Unmarshal(line, &k); err != nil {
			return err
		}
		cases = append(cases, k)
		return nil
	}); err != nil {
		return err
	}
	// self-test of the pool round trip (encoders): a stored proposal must come back
	{
		w := newWorld([]int{1})
		pool, err := isaacdatabase.NewTempPool(leveldbstorage.NewMemStorage(), encs, enc, 0)
		if err != nil {
			return err
		}
		n := w.nodes[1]
		prev := valuehash.RandomSHA256()
		sf := isaac.NewProposalSignFact(isaac.NewProposalFact(base.RawPoint(3, 1), n.Address(), prev, nil))
		if err := sf.Sign(n.Privatekey(), netID); err != nil {
			return err
		}
		if _, err := pool.SetProposal(sf); err != nil {
			return err
		}
		got, found, err := pool.ProposalByPoint(base.RawPoint(3, 1), n.Address(), prev)
		if err != nil || !found || !got.Fact().Hash().Equal(sf.Fact().Hash()) {
			return fmt.Errorf("pool round trip failed: found=%v err=%v", found, err)
		}
		_ = pool.Close()
	}
	// one world (address assignment) per distinct order
	worlds := map[string]*world{}
	for _, k := range cases {
		key := fmt.Sprint(k.Order)
		if _, ok := worlds[key]; !ok {
			worlds[key] = newWorld(k.Order)
		}
	}
	results := make([]interface{}, len(cases))
	var wg sync.WaitGroup
	sem := make(chan struct{}, par)
	for i := range cases {
		wg.Add(1)
		sem <- struct{}{}
		go func(i int) {
			defer wg.Done()
			defer func() { <-sem }()
			rng := newRng(seed*1000003 + int64(i))
			if cases[i].Script != nil {
				results[i] = runScript(i+1, cases[i], worlds[fmt.Sprint(cases[i].Order)], rng)
			} else {
				results[i] = runCase(i+1, cases[i], worlds[fmt.Sprint(cases[i].Order)], rng)
			}
		}(i)
	}
	wg.Wait()
	out, err := h.NewOut(fl["out"])
	if err != nil {
		return err
	}
	defer out.Close()
	for i := range results {
		out.Emit(results[i])
	}
	return nil
}
