// Package c07 replays the cases of spec/Proposer.tla through the real proposal selection
// pipeline (binding A): isaac.NewBaseProposalSelector with
//   - GetNodesFunc returning the listing of the case (a fresh copy, in the listed order),
//   - ProposerSelectFunc = the real BlockBasedProposerSelector.Select, wrapped only to log which
//     node it returned for which node list,
//   - a RequestFunc that logs which node is asked and answers with a proposal really signed by
//     that node (or fails, for the first nfail nodes asked),
//   - a real ProposalMaker for the local node and a real TempPool on leveldb mem storage.
//
// Model node i is mapped to a real node whose address string has the rank the spec's `order`
// gives it among the addresses, so address order differs from id order.
package c07

import (
	"context"
	"encoding/json"
	"fmt"
	"math/rand"
	"os"
	"sort"
	"strconv"
	"sync"
	"time"

	"github.com/pkg/errors"
	"github.com/spikeekips/mitum/base"
	"github.com/spikeekips/mitum/isaac"
	isaacdatabase "github.com/spikeekips/mitum/isaac/database"
	leveldbstorage "github.com/spikeekips/mitum/storage/leveldb"
	"github.com/spikeekips/mitum/util"
	"github.com/spikeekips/mitum/util/encoder"
	jsonenc "github.com/spikeekips/mitum/util/encoder/json"
	"github.com/spikeekips/mitum/util/valuehash"

	"mitumverif/internal/h"
)

func init() { h.Register("C07", run) }

type kase struct {
	Listing []int `json:"listing"`
	Order   []int `json:"order"` // all model nodes, in address order
	H       int64 `json:"h"`
	R       int64 `json:"r"`
	HS      int   `json:"hs"`
	Local   int   `json:"local"`
	NFail   int   `json:"nfail"`
}

type result struct {
	I        int    `json:"i"`
	Selected []int  `json:"selected"` // nodes returned by the real ProposerSelectFunc, consecutive repeats removed
	Sorted   [][]int `json:"sorted,omitempty"` // node lists the real ProposerSelectFunc was given (first two)
	Asked    []int  `json:"asked"`    // nodes handed to RequestFunc, consecutive repeats removed
	Events   [][2]int `json:"events"` // ordered log: [0,id] = ProposerSelectFunc returned id, [1,id] = RequestFunc asked id (consecutive repeats removed)
	Winner   int    `json:"winner"`   // proposer of the proposal Select returned (-1: error)
	Valid    bool   `json:"valid"`    // returned proposal is for the point and previous block
	Err      string `json:"err,omitempty"`
	Panic    string `json:"panic,omitempty"`
	Ms       int64  `json:"ms"`
}

var (
	netID = base.NetworkID([]byte("c07-network"))
	enc   *jsonenc.Encoder
	encs  *encoder.Encoders
)

func setupEncoders() error {
	enc = jsonenc.NewEncoder()
	encs = encoder.NewEncoders(enc, enc)
	for _, d := range []encoder.DecodeDetail{
		{Hint: base.MPublickeyHint, Instance: &base.MPublickey{}},
		{Hint: base.StringAddressHint, Instance: base.StringAddress{}},
		{Hint: isaac.ProposalFactHint, Instance: isaac.ProposalFact{}},
		{Hint: isaac.ProposalSignFactHint, Instance: isaac.ProposalSignFact{}},
	} {
		if err := encs.AddDetail(d); err != nil {
			return err
		}
	}
	return nil
}

// hashWithSum returns a 32-byte hash whose bytes add up to sum.
func hashWithSum(sum int, rng *rand.Rand) util.Hash {
	b := make([]byte, 32)
	left := sum
	for i := 0; i < 32 && left > 0; i++ {
		v := 255
		if left < v {
			v = left
		}
		b[i] = byte(v)
		left -= v
	}
	if left > 0 {
		panic("byte sum too large for 32 bytes")
	}
	rng.Shuffle(len(b), func(i, j int) { b[i], b[j] = b[j], b[i] })
	return valuehash.NewBytes(b)
}

type world struct {
	nodes map[int]base.LocalNode // model id -> real node (0 = the outsider)
	back  map[string]int
}

// newWorld gives every model node an address such that sorting by address string yields `order`.
func newWorld(order []int) *world {
	w := &world{nodes: map[int]base.LocalNode{}, back: map[string]int{}}
	addrs := make([]string, len(order))
	for i := range addrs {
		addrs[i] = util.UUID().String()
	}
	sort.Strings(addrs)
	for i, id := range order {
		ad := base.NewStringAddress(addrs[i])
		w.nodes[id] = isaac.NewLocalNode(base.NewMPrivatekey(), ad)
		w.back[ad.String()] = id
	}
	out := base.NewStringAddress("outsider-" + util.UUID().String())
	w.nodes[0] = isaac.NewLocalNode(base.NewMPrivatekey(), out)
	w.back[out.String()] = 0
	// address order must be the given order
	for i := 1; i < len(order); i++ {
		if !(w.nodes[order[i-1]].Address().String() < w.nodes[order[i]].Address().String()) {
			panic("address order broken")
		}
	}
	return w
}

func (w *world) id(a base.Address) int {
	if i, ok := w.back[a.String()]; ok {
		return i
	}
	return -2
}

func dedupe(xs []int) []int {
	var out []int
	for _, x := range xs {
		if len(out) == 0 || out[len(out)-1] != x {
			out = append(out, x)
		}
	}
	if out == nil {
		out = []int{}
	}
	return out
}

func runCase(i int, k kase, w *world, rng *rand.Rand) result {
	res := result{I: i, Winner: -1}
	start := time.Now()
	res.Panic = h.Catch(func() {
		pool, err := isaacdatabase.NewTempPool(leveldbstorage.NewMemStorage(), encs, enc, 0)
		if err != nil {
			panic(err)
		}
		defer pool.Close()
		local := w.nodes[k.Local]
		point := base.RawPoint(k.H, uint64(k.R))
		prev := hashWithSum(k.HS, rng)

		var mu sync.Mutex
		var selected, asked []int
		var events [][2]int
		logev := func(kind, id int) {
			if n := len(events); n == 0 || events[n-1] != [2]int{kind, id} {
				events = append(events, [2]int{kind, id})
			}
		}
		var sorted [][]int
		failed := map[int]bool{}
		real := isaac.NewBlockBasedProposerSelector()

		args := isaac.NewBaseProposalSelectorArgs()
		args.Pool = pool
		args.Maker = isaac.NewProposalMaker(local, netID, nil, pool, nil)
		args.GetNodesFunc = func(base.Height) ([]base.Node, bool, error) {
			ns := make([]base.Node, len(k.Listing))
			for j, id := range k.Listing {
				ns[j] = w.nodes[id]
			}
			return ns, true, nil
		}
		args.ProposerSelectFunc = func(ctx context.Context, p base.Point, nodes []base.Node, pb util.Hash) (base.Node, error) {
			n, err := real.Select(ctx, p, nodes, pb)
			mu.Lock()
			if err == nil && n != nil {
				selected = append(selected, w.id(n.Address()))
				logev(0, w.id(n.Address()))
				if len(sorted) < 2 {
					l := make([]int, len(nodes))
					for j := range nodes {
						l[j] = w.id(nodes[j].Address())
					}
					if len(sorted) == 0 || len(sorted[len(sorted)-1]) != len(l) {
						sorted = append(sorted, l)
					}
				}
			}
			mu.Unlock()
			return n, err
		}
		args.RequestFunc = func(_ context.Context, p base.Point, proposer base.Node, pb util.Hash) (base.ProposalSignFact, bool, error) {
			id := w.id(proposer.Address())
			mu.Lock()
			asked = append(asked, id)
			logev(1, id)
			fail := failed[id]
			if !fail && len(failed) < k.NFail {
				failed[id] = true
				fail = true
			}
			mu.Unlock()
			if fail {
				return nil, false, errors.Errorf("node %d does not answer", id)
			}
			n, ok := w.nodes[id]
			if !ok {
				return nil, false, errors.Errorf("unknown node")
			}
			sf := isaac.NewProposalSignFact(isaac.NewProposalFact(p, n.Address(), pb, nil))
			if err := sf.Sign(n.Privatekey(), netID); err != nil {
				return nil, false, err
			}
			return sf, true, nil
		}
		args.RequestProposalInterval = time.Millisecond * 20
		// the first proposer is retried until the deadline; a failing one costs the whole wait
		args.MinProposerWait = time.Second * 8
		if k.NFail > 0 {
			args.MinProposerWait = time.Millisecond * 1500
		}
		args.TimeoutRequest = func() time.Duration { return time.Second * 8 }

		ps := isaac.NewBaseProposalSelector(local, args)
		pr, err := ps.Select(context.Background(), point, prev, 0)
		mu.Lock()
		res.Selected, res.Asked, res.Sorted = dedupe(selected), dedupe(asked), sorted
		res.Events = append([][2]int{}, events...)
		mu.Unlock()
		if err != nil {
			res.Err = err.Error()
			return
		}
		res.Winner = w.id(pr.ProposalFact().Proposer())
		res.Valid = pr.Point().Equal(point) && pr.ProposalFact().PreviousBlock().Equal(prev)
	})
	res.Ms = time.Since(start).Milliseconds()
	return res
}

func run(args []string) error {
	if len(args) < 1 || args[0] != "replay" {
		return fmt.Errorf("mode: replay --in cases --out results [--par N]")
	}
	fl := h.Flags(args[1:])
	if err := setupEncoders(); err != nil {
		return err
	}
	seed, _ := strconv.ParseInt(os.Getenv("VERIF_SEED"), 10, 64)
	par := 48
	if v, err := strconv.Atoi(fl["par"]); err == nil && v > 0 {
		par = v
	}
	var cases []kase
	if err := h.ReadNDJSON(fl["in"], func(line []byte) error {
		var k kase
		if err := json.Unmarshal(line, &k); err != nil {
			return err
		}
		cases = append(cases, k)
		return nil
	}); err != nil {
		return err
	}
	// self-test of the pool round trip (encoders): a stored proposal must come back
	{
		w := newWorld([]int{1})
		pool, err := isaacdatabase.NewTempPool(leveldbstorage.NewMemStorage(), encs, enc, 0)
		if err != nil {
			return err
		}
		n := w.nodes[1]
		prev := valuehash.RandomSHA256()
		sf := isaac.NewProposalSignFact(isaac.NewProposalFact(base.RawPoint(3, 1), n.Address(), prev, nil))
		if err := sf.Sign(n.Privatekey(), netID); err != nil {
			return err
		}
		if _, err := pool.SetProposal(sf); err != nil {
			return err
		}
		got, found, err := pool.ProposalByPoint(base.RawPoint(3, 1), n.Address(), prev)
		if err != nil || !found || !got.Fact().Hash().Equal(sf.Fact().Hash()) {
			return fmt.Errorf("pool round trip failed: found=%v err=%v", found, err)
		}
		_ = pool.Close()
	}
	// one world (address assignment) per distinct order
	worlds := map[string]*world{}
	for _, k := range cases {
		key := fmt.Sprint(k.Order)
		if _, ok := worlds[key]; !ok {
			worlds[key] = newWorld(k.Order)
		}
	}
	results := make([]result, len(cases))
	var wg sync.WaitGroup
	sem := make(chan struct{}, par)
	for i := range cases {
		wg.Add(1)
		sem <- struct{}{}
		go func(i int) {
			defer wg.Done()
			defer func() { <-sem }()
			rng := rand.New(rand.NewSource(seed*1000003 + int64(i)))
			results[i] = runCase(i+1, cases[i], worlds[fmt.Sprint(cases[i].Order)], rng)
		}(i)
	}
	wg.Wait()
	out, err := h.NewOut(fl["out"])
	if err != nil {
		return err
	}
	defer out.Close()
	for i := range results {
		out.Emit(results[i])
	}
	return nil
}
