// Package c05 registers the C05 entry of the conformance harness. The driver (a real
// isaacstates.Ballotbox fed with scripted, really signed ballots; accessor snapshots after
// every call) is shared with C04: see mitumverif/internal/c04.
package c05

import (
	"mitumverif/internal/c04"
	"mitumverif/internal/h"
)

func init() { h.Register("C05", c04.Run) }
