// Package c26: the Redis-backed permanent database answers every read exactly as the
// leveldb-backed one (binding A of spec/Database.tla with WithCenter = FALSE). The same
// blocks (real temp databases) are merged into a LeveldbPermanent and into a RedisPermanent
// whose go-redis client talks to an in-process miniredis; after every step every read of
// both is taken (objects by reference, Bytes reads verbatim) and compared, also across
// Reopen (a new permanent database object over the same stored data).
package c26

import (
	"context"
	"encoding/json"
	"fmt"
	"runtime"
	"strconv"
	"strings"
	"sync"
	"sync/atomic"

	"github.com/alicebob/miniredis/v2"
	"github.com/pkg/errors"
	"github.com/redis/go-redis/v9"
	"github.com/spikeekips/mitum/isaac"
	isaacdatabase "github.com/spikeekips/mitum/isaac/database"
	redisstorage "github.com/spikeekips/mitum/storage/redis"

	"mitumverif/internal/c19"
	"mitumverif/internal/h"
)

func init() { h.Register("C26", run) }

type Result struct {
	ID      int           `json:"id"`
	Backend []c19.ObsDiff `json:"backend,omitempty"` // Before = leveldb, After = redis
	VsSpec  []c19.Diff    `json:"vsspec,omitempty"`  // redis vs the model
	VsSpecL []c19.Diff    `json:"vsspecl,omitempty"` // leveldb vs the model
	Errs    []string      `json:"errs,omitempty"`
	Panic   string        `json:"panic,omitempty"`
	Fatal   string        `json:"fatal,omitempty"`
	Steps   int           `json:"steps"`
	Reads   int           `json:"reads"`
	Reopens int           `json:"reopens"`
}

var (
	server  *miniredis.Miniredis
	prefixN atomic.Int64
)

func redisFactory(prefix string) func(*c19.DB) (isaac.PermanentDatabase, error) {
	return func(d *c19.DB) (isaac.PermanentDatabase, error) {
		st, err := redisstorage.NewStorage(context.Background(), &redis.Options{Network: "tcp", Addr: server.Addr()}, prefix)
		if err != nil {
			return nil, err
		}

		return isaacdatabase.NewRedisPermanent(st, d.Env.Encs, d.Env.Enc, d.PermCache)
	}
}

type runner struct {
	env    *c19.Env
	keys   []string
	maxLen int
}

func (r *runner) run(c *c19.Case) (res Result) {
	res.ID = c.ID
	gen := c19.NewGen(r.env)

	l := c19.NewDB(r.env, gen, "", c.PermCache, c.WriteCache)
	rd := c19.NewDB(r.env, gen, "", c.PermCache, c.WriteCache)
	rd.NewPerm = redisFactory(fmt.Sprintf("verif-%d-%d", c.ID, prefixN.Add(1)))

	if err := l.Open(); err != nil {
		res.Fatal = fmt.Sprintf("open leveldb: %+v", err)

		return res
	}

	defer func() { _ = l.Close() }()

	if err := rd.Open(); err != nil {
		res.Fatal = fmt.Sprintf("open redis: %+v", err)

		return res
	}

	defer func() {
		if rd.Perm != nil {
			_ = rd.Perm.Clean()
		}

		_ = rd.Close()
	}()

	if p := h.Catch(func() { r.steps(c, l, rd, gen, &res) }); p != "" {
		res.Panic = p
	}

	return res
}

func (r *runner) steps(c *c19.Case, l, rd *c19.DB, gen *c19.Gen, res *Result) {
	for i := range c.Acts {
		a := c.Acts[i]
		res.Steps++

		switch a.Name {
		case "PermMerge":
			b, err := gen.NewBlock(a.H, a.G, a.St, a.Sh, 0)
			if err != nil {
				res.Fatal = fmt.Sprintf("step %d: generate block: %+v", i, err)

				return
			}

			if err := l.PermMerge(b); err != nil {
				res.Fatal = fmt.Sprintf("step %d: leveldb merge: %+v", i, err)

				return
			}

			if err := rd.PermMerge(b); err != nil {
				res.Backend = append(res.Backend, c19.ObsDiff{Step: i, Read: "MergeTempDatabase", Part: "error", Before: "ok", After: err.Error()})

				return
			}
		case "Reopen":
			// a new permanent database object over the stored data
			if err := l.Perm.Close(); err != nil {
				res.Fatal = fmt.Sprintf("step %d: close leveldb perm: %+v", i, err)

				return
			}

			if err := l.OpenOn(); err != nil {
				res.Fatal = fmt.Sprintf("step %d: reopen leveldb perm: %+v", i, err)

				return
			}

			if err := rd.Perm.Close(); err != nil {
				res.Backend = append(res.Backend, c19.ObsDiff{Step: i, Read: "Close", Part: "error", Before: "ok", After: err.Error()})

				return
			}

			if err := rd.OpenOn(); err != nil {
				res.Backend = append(res.Backend, c19.ObsDiff{Step: i, Read: "Reopen", Part: "error", Before: "ok", After: err.Error()})

				return
			}

			res.Reopens++
		default:
			res.Fatal = "unknown action " + a.Name

			return
		}

		if i >= len(c.Reads) || c.Reads[i] == nil {
			continue
		}

		ol := l.Observe(l.Perm, r.keys, r.maxLen, true)
		or := rd.Observe(rd.Perm, r.keys, r.maxLen, true)
		res.Reads++

		for _, d := range c19.DiffObs(ol, or) {
			d.Step = i
			res.Backend = append(res.Backend, d)
		}

		for _, e := range or.Errs {
			res.Errs = append(res.Errs, fmt.Sprintf("step %d redis: %s", i, e))
		}

		for _, d := range c19.Compare(or, c.Reads[i], r.keys) {
			d.Step = i
			d.Act = a.Name
			res.VsSpec = append(res.VsSpec, d)
		}

		for _, d := range c19.Compare(ol, c.Reads[i], r.keys) {
			d.Step = i
			d.Act = a.Name
			res.VsSpecL = append(res.VsSpecL, d)
		}
	}
}

func run(args []string) error {
	if len(args) < 1 {
		return errors.Errorf("usage: C26 replay|forced ...")
	}

	var err error

	if server, err = miniredis.Run(); err != nil {
		return errors.WithMessage(err, "start miniredis")
	}

	defer server.Close()

	fl := h.Flags(args[1:])

	switch args[0] {
	case "forced":
		c19.PermFactory = func(d *c19.DB) (isaac.PermanentDatabase, error) {
			return redisFactory(fmt.Sprintf("verif-forced-%d", prefixN.Add(1)))(d)
		}

		return c19.Forced(fl)
	case "replay":
	default:
		return errors.Errorf("unknown mode %q", args[0])
	}

	env, err := c19.NewEnv()
	if err != nil {
		return err
	}

	keys := strings.Split(fl["keys"], ",")
	maxlen, _ := strconv.Atoi(fl["maxlen"])

	out, err := h.NewOut(fl["out"])
	if err != nil {
		return err
	}

	defer out.Close()

	jobs := make(chan []byte, 64)

	var wg sync.WaitGroup

	var ferr error

	var fmu sync.Mutex

	for i := 0; i < runtime.NumCPU(); i++ {
		wg.Add(1)

		go func() {
			defer wg.Done()

			r := &runner{env: env, keys: keys, maxLen: maxlen}

			for line := range jobs {
				var c c19.Case
				if err := json.Unmarshal(line, &c); err != nil {
					fmu.Lock()
					ferr = err
					fmu.Unlock()

					continue
				}

				out.Emit(r.run(&c))
			}
		}()
	}

	err = h.ReadNDJSON(fl["in"], func(line []byte) error {
		jobs <- line

		return nil
	})

	close(jobs)
	wg.Wait()

	if err != nil {
		return err
	}

	return ferr
}
