// Package c36 drives the real launch.RateLimitHandler.
//
// mode "replay" (binding A): every input line is one history of spec/RateLimit.tla (JSON
// array: Init, then Request / AddNode / Set* actions). A fresh RateLimitHandler with real
// rule sets is built for each history; after every request the RateLimiterResult found in
// the context (ruleset type, description, limiter) is reported.
//
// The harness clock is read before and after every request (tb, ta) and the limiter's
// own rule (burst, per) is taken from the RateLimiterResult, for spec/RateLimitTrace.tla.
//
// mode "bursts": bursts of requests during which one rule (limit, burst) stays in force
// while the harness perturbs everything else - the suffrage state hash, rule sets replaced
// by equal ones, the type of the picked rule flipping between rule sets that hold the same
// rule, the consensus nodes under an unchanged state hash, traffic of other limiter
// instances - in the trace format of spec/RateLimitTrace.tla.
package c36

import (
	"context"
	"encoding/json"
	"fmt"
	"math/rand"
	"net"
	"os"
	"strconv"
	"strings"
	"sync"
	"time"

	"github.com/spikeekips/mitum/base"
	"github.com/spikeekips/mitum/launch"
	"github.com/spikeekips/mitum/util"
	"github.com/spikeekips/mitum/util/valuehash"

	"mitumverif/internal/h"
)

func init() { h.Register("C36", run) }

var addrs = map[string]*net.UDPAddr{
	"a1": {IP: net.ParseIP("10.0.1.5"), Port: 4321},
	"a2": {IP: net.ParseIP("10.0.2.5"), Port: 4321},
	"a3": {IP: net.ParseIP("192.168.7.5"), Port: 4321},
}

var netsCIDR = map[string]string{"N1": "10.0.1.0/24", "N2": "10.0.0.0/16"}

func node(s string) base.Address { return base.NewStringAddress(s) }

const per = 3 * time.Second

type ruleMap map[string]int // handler -> burst, 0 = no rule

func (m ruleMap) real() launch.RateLimiterRuleMap {
	r := map[string]launch.RateLimiterRule{}
	for hd, b := range m {
		switch {
		case b > 0:
			r[hd] = launch.NewRateLimiterRule(per, b)
		case b == -1: // rejects everything
			r[hd] = launch.LimitRateLimiterRule()
		case b == -2:
			r[hd] = launch.NoLimitRateLimiterRule()
		}
	}
	return launch.NewRateLimiterRuleMap(nil, r)
}

type wrapped struct {
	Nil bool            `json:"nil"`
	V   json.RawMessage `json:"v"`
}

type netEntry struct {
	Net string  `json:"net"`
	M   ruleMap `json:"m"`
}

type action struct {
	A       string          `json:"a"`
	Cid     *wrapped        `json:"cid"`
	Nets    *wrapped        `json:"nets"`
	Nodes   *wrapped        `json:"nodes"`
	Suf     ruleMap         `json:"suf"`
	Def     ruleMap         `json:"def"`
	Members []string        `json:"members"`
	Hash    int             `json:"hash"`
	Set     json.RawMessage `json:"set"`
	Addr    string          `json:"addr"`
	H       string          `json:"h"`
	C       string          `json:"c"`
	Node    string          `json:"node"`
}

type obs struct {
	Step    int     `json:"step"` // index in the history (0 = Init)
	Type    string  `json:"type"`
	Burst   int     `json:"burst"`
	Desc    string  `json:"desc"` // client id / net name / ""
	Limiter string  `json:"limiter"`
	Allowed bool    `json:"allowed"`
	PerNs   int64   `json:"per_ns,omitempty"` // the limiter's period for `burst` tokens, as it reports it
	Tb      int64   `json:"tb"`               // harness clock before / after the call, ns since the start of the history
	Ta      int64   `json:"ta"`
	Tokens  float64 `json:"tokens"` // RateLimiterResult.Tokens (only used to name the class of a broken bound)
	Added   *bool   `json:"added,omitempty"`
	Err     string  `json:"err,omitempty"`
}

type result struct {
	I     int    `json:"i"`
	Obs   []obs  `json:"obs"`
	Panic string `json:"panic,omitempty"`
	Calls int    `json:"calls"`
}

// members and hash are what the harness' IsInConsensusNodesFunc answers: exists(node) and the hash of the suffrage
// state. They are set independently of each other (in production the hash covers the suffrage state only, exists
// also the candidates).
type world struct {
	rules   *launch.RateLimiterRules
	handler *launch.RateLimitHandler
	members map[string]bool
	hash    int
}

func newWorld() (*world, error) {
	w := &world{members: map[string]bool{}, hash: 1}
	w.rules = launch.NewRateLimiterRules()
	w.rules.SetIsInConsensusNodesFunc(func() (util.Hash, func(base.Address) bool, error) {
		return valuehash.NewSHA256([]byte("state-" + strconv.Itoa(w.hash))), func(a base.Address) bool {
			return w.members[a.String()]
		}, nil
	})
	args := launch.NewRateLimitHandlerArgs()
	args.Rules = w.rules
	hd, err := launch.NewRateLimitHandler(args)
	if err != nil {
		return nil, err
	}
	w.handler = hd
	return w, nil
}

func tick() { time.Sleep(30 * time.Microsecond) } // time.Now().UnixNano() strictly later at the next action

func (w *world) setCid(x *wrapped) error {
	if x.Nil {
		return w.rules.SetClientIDRuleSet(nil)
	}
	var m map[string]ruleMap
	if err := json.Unmarshal(x.V, &m); err != nil {
		return err
	}
	r := map[string]launch.RateLimiterRuleMap{}
	for k, v := range m {
		r[k] = v.real()
	}
	return w.rules.SetClientIDRuleSet(launch.NewClientIDRateLimiterRuleSet(r))
}

func (w *world) setNets(x *wrapped) error {
	if x.Nil {
		return w.rules.SetNetRuleSet(nil)
	}
	var l []netEntry
	if err := json.Unmarshal(x.V, &l); err != nil {
		return err
	}
	rs := launch.NewNetRateLimiterRuleSet()
	for _, e := range l {
		_, ipnet, err := net.ParseCIDR(netsCIDR[e.Net])
		if err != nil {
			return err
		}
		rs.Add(ipnet, e.M.real())
	}
	if err := rs.IsValid(nil); err != nil {
		return err
	}
	return w.rules.SetNetRuleSet(rs)
}

func (w *world) setNodes(x *wrapped) error {
	if x.Nil {
		return w.rules.SetNodeRuleSet(nil)
	}
	var m map[string]ruleMap
	if err := json.Unmarshal(x.V, &m); err != nil {
		return err
	}
	r := map[string]launch.RateLimiterRuleMap{}
	for k, v := range m {
		r[node(k).String()] = v.real()
	}
	return w.rules.SetNodeRuleSet(launch.NewNodeRateLimiterRuleSet(r))
}

func (w *world) setMembers(ms []string, hash int) {
	m := map[string]bool{}
	for _, s := range ms {
		m[node(s).String()] = true
	}
	w.members, w.hash = m, hash
}

func unwrap(raw json.RawMessage) (*wrapped, error) {
	var x wrapped
	err := json.Unmarshal(raw, &x)
	return &x, err
}

func descOf(t, d string) string {
	switch t {
	case "clientid":
		var x struct {
			C string `json:"client_id"`
		}
		_ = json.Unmarshal([]byte(d), &x)
		return x.C
	case "net":
		var x struct {
			N string `json:"net"`
		}
		_ = json.Unmarshal([]byte(d), &x)
		for k, v := range netsCIDR {
			if v == x.N {
				return k
			}
		}
		return x.N
	default:
		return d
	}
}

// the limiter as humanizeRateLimiter prints it: "<burst>/<duration>", "0" (rejects everything) = -1, "nolimit" = -2
func burstOf(limiter string) int {
	if i := strings.Index(limiter, "/"); i > 0 {
		n, _ := strconv.Atoi(limiter[:i])
		return n
	}
	if limiter == "nolimit" {
		return -2
	}
	return -1
}

func perOf(limiter string) time.Duration {
	if i := strings.Index(limiter, "/"); i > 0 {
		d, err := time.ParseDuration(limiter[i+1:])
		if err == nil {
			return d
		}
	}
	return 0
}

func (w *world) request(addr *net.UDPAddr, hd, cid string) (launch.RateLimiterResult, bool, error) {
	ctx := context.WithValue(context.Background(), launch.RateLimiterLimiterNameContextKey, hd)
	if cid != "" {
		ctx = context.WithValue(ctx, launch.RateLimiterClientIDContextKey, cid)
	}
	rctx, err := w.handler.Func(ctx, addr, func(c context.Context) (context.Context, error) { return c, nil })
	if rctx == nil {
		return launch.RateLimiterResult{}, false, fmt.Errorf("no context returned (%v)", err)
	}
	f, ok := rctx.Value(launch.RateLimiterResultContextKey).(func() launch.RateLimiterResult)
	if !ok {
		return launch.RateLimiterResult{}, false, fmt.Errorf("no RateLimiterResult in the context (%v)", err)
	}
	r := f()
	return r, err == nil, nil
}

func (w *world) play(hist []action, res *result) error {
	start := time.Now()
	for i, a := range hist {
		tick()
		switch a.A {
		case "Init":
			if err := w.setCid(a.Cid); err != nil {
				return err
			}
			if err := w.setNets(a.Nets); err != nil {
				return err
			}
			if err := w.setNodes(a.Nodes); err != nil {
				return err
			}
			if err := w.rules.SetSuffrageRuleSet(launch.NewSuffrageRateLimiterRuleSet(a.Suf.real())); err != nil {
				return err
			}
			if err := w.rules.SetDefaultRuleMap(a.Def.real()); err != nil {
				return err
			}
			w.setMembers(a.Members, a.Hash)
		case "SetClientID", "SetNet", "SetNode":
			x, err := unwrap(a.Set)
			if err != nil {
				return err
			}
			switch a.A {
			case "SetClientID":
				err = w.setCid(x)
			case "SetNet":
				err = w.setNets(x)
			default:
				err = w.setNodes(x)
			}
			if err != nil {
				return err
			}
		case "SetSuffrage", "SetDefault":
			var m ruleMap
			if err := json.Unmarshal(a.Set, &m); err != nil {
				return err
			}
			if a.A == "SetSuffrage" {
				if err := w.rules.SetSuffrageRuleSet(launch.NewSuffrageRateLimiterRuleSet(m.real())); err != nil {
					return err
				}
			} else if err := w.rules.SetDefaultRuleMap(m.real()); err != nil {
				return err
			}
		case "SetMembers", "SetStateHash", "SetCandidates":
			// what IsInConsensusNodesFunc answers from now on: exists(node) and the suffrage state hash are two
			// independent values (SetMembers: both change; SetStateHash: the hash only; SetCandidates: exists only)
			w.setMembers(a.Members, a.Hash)
		case "AddNode":
			added := w.handler.AddNode(addrs[a.Addr], node(a.Node))
			res.Calls++
			res.Obs = append(res.Obs, obs{Step: i, Added: &added})
		case "Request":
			tb := time.Since(start)
			r, allowed, err := w.request(addrs[a.Addr], a.H, a.C)
			ta := time.Since(start)
			res.Calls++
			if err != nil {
				res.Obs = append(res.Obs, obs{Step: i, Err: err.Error()})
				continue
			}
			res.Obs = append(res.Obs, obs{Step: i, Type: r.RulesetType, Burst: burstOf(r.Limiter), Limiter: r.Limiter,
				Desc: descOf(r.RulesetType, r.RulesetDesc), Allowed: allowed, PerNs: int64(perOf(r.Limiter)),
				Tb: int64(tb), Ta: int64(ta), Tokens: r.Tokens})
		default:
			return fmt.Errorf("unknown action %q", a.A)
		}
	}
	return nil
}

func run(args []string) error {
	if len(args) < 1 {
		return fmt.Errorf("mode?")
	}
	fl := h.Flags(args[1:])
	out, err := h.NewOut(fl["out"])
	if err != nil {
		return err
	}
	defer out.Close()
	if args[0] == "bursts" {
		n, _ := strconv.Atoi(fl["n"])
		return bursts(n, out)
	}
	// the histories are independent (one handler each): replay them by batches on several goroutines,
	// results in the order of the input
	i := 0
	var batch [][]action
	flush := func() error {
		results := make([]result, len(batch))
		errs := make([]error, len(batch))
		var wg sync.WaitGroup
		next := make(chan int)
		for g := 0; g < 8; g++ {
			wg.Add(1)
			go func() {
				defer wg.Done()
				for k := range next {
					res := result{I: i + k + 1, Obs: []obs{}}
					w, err := newWorld()
					if err != nil {
						errs[k] = err
						continue
					}
					res.Panic = h.Catch(func() { errs[k] = w.play(batch[k], &res) })
					results[k] = res
				}
			}()
		}
		for k := range batch {
			next <- k
		}
		close(next)
		wg.Wait()
		for k := range batch {
			if errs[k] != nil {
				return errs[k]
			}
			out.Emit(results[k])
		}
		i += len(batch)
		batch = batch[:0]
		return nil
	}
	if err := h.ReadNDJSON(fl["in"], func(line []byte) error {
		var hist []action
		if err := json.Unmarshal(line, &hist); err != nil {
			return err
		}
		batch = append(batch, hist)
		if len(batch) >= 4000 {
			return flush()
		}
		return nil
	}); err != nil {
		return err
	}
	return flush()
}

// ---------------------------------------------------------------- enforcement

// one recorded execution as spec/RateLimitTrace.tla reads it: per limiter instance the calls
// [burst, per, tb, ta, ok, step] in call order. Times in microseconds: tb rounded down, ta up (the
// window only grows), per down (a shorter period is a higher rate: the bound only gets weaker).
type traceLine struct {
	Src           string      `json:"src"`
	Insts         [][][]int64 `json:"insts"`
	Names         []string    `json:"names"`
	Rule          string      `json:"rule"`
	Where         string      `json:"where"`   // the rule set that gives the main instance its rule
	Perturb       string      `json:"perturb"` // what changes between the calls
	Calls         int         `json:"calls"`
	Allowed       int         `json:"allowed"`
	Perturbations int         `json:"perturbations"`
}

type burstWorld struct {
	*world
	m   launch.RateLimiterRuleMap
	cid string
}

// install (on) or take away (off) the rule set `kind`; every rule set holds the same rule map
func (b *burstWorld) install(kind string, on bool) error {
	switch kind {
	case "defaultmap":
		return b.rules.SetDefaultRuleMap(b.m)
	case "clientid":
		if !on {
			return b.rules.SetClientIDRuleSet(nil)
		}
		return b.rules.SetClientIDRuleSet(launch.NewClientIDRateLimiterRuleSet(map[string]launch.RateLimiterRuleMap{"cx": b.m}))
	case "net":
		if !on {
			return b.rules.SetNetRuleSet(nil)
		}
		rs := launch.NewNetRateLimiterRuleSet()
		_, ipnet, _ := net.ParseCIDR(netsCIDR["N1"])
		rs.Add(ipnet, b.m)
		return b.rules.SetNetRuleSet(rs)
	case "node":
		if !on {
			return b.rules.SetNodeRuleSet(nil)
		}
		return b.rules.SetNodeRuleSet(launch.NewNodeRateLimiterRuleSet(map[string]launch.RateLimiterRuleMap{node("n1").String(): b.m}))
	case "suffrage": // on / off = the node is / is not a consensus node (a new suffrage state either way)
		if on {
			b.setMembers([]string{"n1"}, b.hash+1)
		} else {
			b.setMembers(nil, b.hash+1)
		}
		return nil
	}
	return fmt.Errorf("rule set %q?", kind)
}

// one burst: a fresh handler; the rule for the request stands in the rule set `where` AND in the
// default map, so that the rule in force (limit, burst) is the same whatever rule set is picked;
// calls as fast as possible with random short pauses, for about `span`; between the calls
// perturbations of the family `perturb`.
func oneBurst(rng *rand.Rand, rule launch.RateLimiterRule, d time.Duration, where, perturb string, maxCalls int, span time.Duration) (traceLine, error) {
	line := traceLine{Src: "burst", Rule: rule.String(), Where: where, Perturb: perturb, Names: []string{"a1/hx"}, Insts: [][][]int64{{}}}
	w, err := newWorld()
	if err != nil {
		return line, err
	}
	b := &burstWorld{world: w, m: launch.NewRateLimiterRuleMap(&rule, nil)}
	if err := b.install("defaultmap", true); err != nil {
		return line, err
	}
	if where == "clientid" || (where == "defaultmap" && perturb == "type-flip") {
		b.cid = "cx"
	}
	if where == "suffrage" {
		if err := b.rules.SetSuffrageRuleSet(launch.NewSuffrageRateLimiterRuleSet(b.m)); err != nil {
			return line, err
		}
	}
	if where != "defaultmap" {
		if err := b.install(where, true); err != nil {
			return line, err
		}
	}
	flipKind, flipOn := where, true
	if where == "defaultmap" {
		flipKind, flipOn = "clientid", false
	}
	inst := map[string]int{"a1/hx": 0}
	tick()
	start := time.Now()
	if where == "node" || where == "suffrage" {
		// the node of an address is learned after its first request: a request to another handler, then AddNode,
		// so that the limiter of a1/hx is of the type `where` from its first call on
		if _, _, err := w.request(addrs["a1"], "hw", b.cid); err != nil {
			return line, err
		}
		if !w.handler.AddNode(addrs["a1"], node("n1")) {
			return line, fmt.Errorf("AddNode failed")
		}
		tick()
	}
	call := func(addr, hd string) (launch.RateLimiterResult, error) {
		tb := time.Since(start)
		r, allowed, err := w.request(addrs[addr], hd, b.cid)
		ta := time.Since(start)
		if err != nil {
			return r, err
		}
		k, found := inst[addr+"/"+hd]
		if !found {
			k = len(line.Insts)
			inst[addr+"/"+hd] = k
			line.Insts = append(line.Insts, [][]int64{})
			line.Names = append(line.Names, addr+"/"+hd)
		}
		ok := int64(0)
		if allowed {
			ok = 1
			line.Allowed++
		}
		line.Calls++
		line.Insts[k] = append(line.Insts[k], []int64{int64(burstOf(r.Limiter)), int64(perOf(r.Limiter) / time.Microsecond),
			int64(tb / time.Microsecond), int64((ta + time.Microsecond - 1) / time.Microsecond), ok, int64(line.Calls)})
		return r, nil
	}
	for c := 0; c < maxCalls; c++ {
		if c >= 2 && rng.Intn(3) == 0 {
			var err error
			switch perturb {
			case "hash": // a new suffrage state, the consensus nodes stay
				w.hash++
			case "membership": // the node leaves / joins the consensus nodes, the suffrage state (hash) stays
				flipOn = !flipOn
				if flipOn {
					b.setMembers([]string{"n1"}, b.hash)
				} else {
					b.setMembers(nil, b.hash)
				}
			case "equal-sets": // a rule set is replaced by an equal one
				kinds := []string{"defaultmap", where}
				if where == "suffrage" {
					err = b.rules.SetSuffrageRuleSet(launch.NewSuffrageRateLimiterRuleSet(b.m))
				} else {
					err = b.install(kinds[rng.Intn(2)], true)
				}
			case "type-flip": // the picked rule set changes, the rule does not
				flipOn = !flipOn
				err = b.install(flipKind, flipOn)
			case "other-traffic":
				if _, err = call([]string{"a2", "a1", "a3"}[rng.Intn(3)], []string{"hy", "hy", "hx"}[rng.Intn(3)]); err != nil {
					return line, err
				}
			}
			if err != nil {
				return line, err
			}
			if perturb != "none" {
				line.Perturbations++
				tick()
			}
		}
		r, err := call("a1", "hx")
		if err != nil {
			return line, err
		}
		if c == 0 && r.RulesetType != where {
			return line, fmt.Errorf("burst under the %s rule set: limiter of type %q", where, r.RulesetType)
		}
		if time.Since(start) > span && c >= 12 { // at least a dozen calls, however slow the machine is
			break
		}
		switch rng.Intn(6) {
		case 0:
			if rule.Burst > 0 {
				time.Sleep(time.Duration(rng.Int63n(int64(d)/int64(rule.Burst)*2 + 1)))
			}
		case 1:
			time.Sleep(time.Duration(rng.Intn(200)) * time.Microsecond)
		}
	}
	return line, nil
}

func bursts(n int, out *h.Out) error {
	seed, _ := strconv.ParseInt(os.Getenv("VERIF_SEED"), 10, 64)
	rng := rand.New(rand.NewSource(seed*31 + 36))
	type spec struct {
		burst int
		d     time.Duration
	}
	specs := []spec{{1, 10 * time.Millisecond}, {5, 50 * time.Millisecond}, {20, 100 * time.Millisecond}, {3, time.Second},
		{2, 3 * time.Millisecond}, {40, 20 * time.Millisecond}, {7, 70 * time.Millisecond}, {33, 3 * time.Second}}
	// (rule set, perturbation): the first ones are run by the quick tier
	combos := [][2]string{{"defaultmap", "none"}, {"suffrage", "hash"}, {"clientid", "equal-sets"}, {"net", "type-flip"},
		{"node", "equal-sets"}, {"suffrage", "membership"}, {"suffrage", "type-flip"}, {"clientid", "type-flip"}, {"net", "other-traffic"},
		{"node", "type-flip"}, {"suffrage", "equal-sets"}, {"defaultmap", "type-flip"}, {"clientid", "none"},
		{"suffrage", "other-traffic"}, {"net", "equal-sets"}, {"node", "hash"}, {"defaultmap", "equal-sets"},
		{"net", "none"}, {"suffrage", "none"}, {"node", "none"}, {"clientid", "other-traffic"}, {"defaultmap", "other-traffic"},
		{"node", "other-traffic"}, {"clientid", "hash"}}
	for i := len(specs); i < n; i++ { // drawn before any call, so that they depend on the seed only
		specs = append(specs, spec{1 + rng.Intn(30), time.Duration(2+rng.Intn(120)) * time.Millisecond})
	}
	for i := 0; i < n; i++ {
		s := specs[i]
		span := 3 * s.d
		if span > 250*time.Millisecond {
			span = 250 * time.Millisecond
		}
		c := combos[i%len(combos)]
		line, err := oneBurst(rng, launch.NewRateLimiterRule(s.d, s.burst), s.d, c[0], c[1], 140, span)
		if err != nil {
			return err
		}
		out.Emit(line)
	}
	z, err := oneBurst(rng, launch.LimitRateLimiterRule(), time.Second, "defaultmap", "equal-sets", 50, 20*time.Millisecond)
	if err != nil {
		return err
	}
	out.Emit(z)
	nl, err := oneBurst(rng, launch.NoLimitRateLimiterRule(), time.Second, "defaultmap", "equal-sets", 50, 20*time.Millisecond)
	if err != nil {
		return err
	}
	out.Emit(nl)
	return nil
}
