// Package c36 drives the real launch.RateLimitHandler.
//
// mode "replay" (binding A): every input line is one history of spec/RateLimit.tla (JSON
// array: Init, then Request / AddNode / Set* actions). A fresh RateLimitHandler with real
// rule sets is built for each history; after every request the RateLimiterResult found in
// the context (ruleset type, description, limiter) is reported.
//
// mode "bursts": bursts of requests under one fixed rule, with the harness clock read
// before and after every call, for spec/RateLimitTrace.tla.
package c36

import (
	"context"
	"encoding/json"
	"fmt"
	"math/rand"
	"net"
	"os"
	"strconv"
	"strings"
	"time"

	"github.com/spikeekips/mitum/base"
	"github.com/spikeekips/mitum/launch"
	"github.com/spikeekips/mitum/util"
	"github.com/spikeekips/mitum/util/valuehash"

	"mitumverif/internal/h"
)

func init() { h.Register("C36", run) }

var addrs = map[string]*net.UDPAddr{
	"a1": {IP: net.ParseIP("10.0.1.5"), Port: 4321},
	"a2": {IP: net.ParseIP("10.0.2.5"), Port: 4321},
	"a3": {IP: net.ParseIP("192.168.7.5"), Port: 4321},
}

var netsCIDR = map[string]string{"N1": "10.0.1.0/24", "N2": "10.0.0.0/16"}

func node(s string) base.Address { return base.NewStringAddress(s) }

const per = 3 * time.Second

type ruleMap map[string]int // handler -> burst, 0 = no rule

func (m ruleMap) real() launch.RateLimiterRuleMap {
	r := map[string]launch.RateLimiterRule{}
	for hd, b := range m {
		if b > 0 {
			r[hd] = launch.NewRateLimiterRule(per, b)
		}
	}
	return launch.NewRateLimiterRuleMap(nil, r)
}

type wrapped struct {
	Nil bool            `json:"nil"`
	V   json.RawMessage `json:"v"`
}

type netEntry struct {
	Net string  `json:"net"`
	M   ruleMap `json:"m"`
}

type action struct {
	A       string          `json:"a"`
	Cid     *wrapped        `json:"cid"`
	Nets    *wrapped        `json:"nets"`
	Nodes   *wrapped        `json:"nodes"`
	Suf     ruleMap         `json:"suf"`
	Def     ruleMap         `json:"def"`
	Members []string        `json:"members"`
	Hash    int             `json:"hash"`
	Set     json.RawMessage `json:"set"`
	Addr    string          `json:"addr"`
	H       string          `json:"h"`
	C       string          `json:"c"`
	Node    string          `json:"node"`
}

type obs struct {
	Step    int    `json:"step"` // index in the history (0 = Init)
	Type    string `json:"type"`
	Burst   int    `json:"burst"`
	Desc    string `json:"desc"` // client id / net name / ""
	Limiter string `json:"limiter"`
	Allowed bool   `json:"allowed"`
	Added   *bool  `json:"added,omitempty"`
	Err     string `json:"err,omitempty"`
}

type result struct {
	I     int    `json:"i"`
	Obs   []obs  `json:"obs"`
	Panic string `json:"panic,omitempty"`
	Calls int    `json:"calls"`
}

type world struct {
	rules   *launch.RateLimiterRules
	handler *launch.RateLimitHandler
	members map[string]bool
	hash    int
}

func newWorld() (*world, error) {
	w := &world{members: map[string]bool{}, hash: 1}
	w.rules = launch.NewRateLimiterRules()
	w.rules.SetIsInConsensusNodesFunc(func() (util.Hash, func(base.Address) bool, error) {
		return valuehash.NewSHA256([]byte("state-" + strconv.Itoa(w.hash))), func(a base.Address) bool {
			return w.members[a.String()]
		}, nil
	})
	args := launch.NewRateLimitHandlerArgs()
	args.Rules = w.rules
	hd, err := launch.NewRateLimitHandler(args)
	if err != nil {
		return nil, err
	}
	w.handler = hd
	return w, nil
}

func tick() { time.Sleep(30 * time.Microsecond) } // time.Now().UnixNano() strictly later at the next action

func (w *world) setCid(x *wrapped) error {
	if x.Nil {
		return w.rules.SetClientIDRuleSet(nil)
	}
	var m map[string]ruleMap
	if err := json.Unmarshal(x.V, &m); err != nil {
		return err
	}
	r := map[string]launch.RateLimiterRuleMap{}
	for k, v := range m {
		r[k] = v.real()
	}
	return w.rules.SetClientIDRuleSet(launch.NewClientIDRateLimiterRuleSet(r))
}

func (w *world) setNets(x *wrapped) error {
	if x.Nil {
		return w.rules.SetNetRuleSet(nil)
	}
	var l []netEntry
	if err := json.Unmarshal(x.V, &l); err != nil {
		return err
	}
	rs := launch.NewNetRateLimiterRuleSet()
	for _, e := range l {
		_, ipnet, err := net.ParseCIDR(netsCIDR[e.Net])
		if err != nil {
			return err
		}
		rs.Add(ipnet, e.M.real())
	}
	if err := rs.IsValid(nil); err != nil {
		return err
	}
	return w.rules.SetNetRuleSet(rs)
}

func (w *world) setNodes(x *wrapped) error {
	if x.Nil {
		return w.rules.SetNodeRuleSet(nil)
	}
	var m map[string]ruleMap
	if err := json.Unmarshal(x.V, &m); err != nil {
		return err
	}
	r := map[string]launch.RateLimiterRuleMap{}
	for k, v := range m {
		r[node(k).String()] = v.real()
	}
	return w.rules.SetNodeRuleSet(launch.NewNodeRateLimiterRuleSet(r))
}

func (w *world) setMembers(ms []string, hash int) {
	m := map[string]bool{}
	for _, s := range ms {
		m[node(s).String()] = true
	}
	w.members, w.hash = m, hash
}

func unwrap(raw json.RawMessage) (*wrapped, error) {
	var x wrapped
	err := json.Unmarshal(raw, &x)
	return &x, err
}

func descOf(t, d string) string {
	switch t {
	case "clientid":
		var x struct {
			C string `json:"client_id"`
		}
		_ = json.Unmarshal([]byte(d), &x)
		return x.C
	case "net":
		var x struct {
			N string `json:"net"`
		}
		_ = json.Unmarshal([]byte(d), &x)
		for k, v := range netsCIDR {
			if v == x.N {
				return k
			}
		}
		return x.N
	default:
		return d
	}
}

func burstOf(limiter string) int {
	if i := strings.Index(limiter, "/"); i > 0 {
		n, _ := strconv.Atoi(limiter[:i])
		return n
	}
	return -1 // "nolimit" / "0"
}

func (w *world) request(addr *net.UDPAddr, hd, cid string) (launch.RateLimiterResult, bool, error) {
	ctx := context.WithValue(context.Background(), launch.RateLimiterLimiterNameContextKey, hd)
	if cid != "" {
		ctx = context.WithValue(ctx, launch.RateLimiterClientIDContextKey, cid)
	}
	rctx, err := w.handler.Func(ctx, addr, func(c context.Context) (context.Context, error) { return c, nil })
	if rctx == nil {
		return launch.RateLimiterResult{}, false, fmt.Errorf("no context returned (%v)", err)
	}
	f, ok := rctx.Value(launch.RateLimiterResultContextKey).(func() launch.RateLimiterResult)
	if !ok {
		return launch.RateLimiterResult{}, false, fmt.Errorf("no RateLimiterResult in the context (%v)", err)
	}
	r := f()
	return r, err == nil, nil
}

func (w *world) play(hist []action, res *result) error {
	for i, a := range hist {
		tick()
		switch a.A {
		case "Init":
			if err := w.setCid(a.Cid); err != nil {
				return err
			}
			if err := w.setNets(a.Nets); err != nil {
				return err
			}
			if err := w.setNodes(a.Nodes); err != nil {
				return err
			}
			if err := w.rules.SetSuffrageRuleSet(launch.NewSuffrageRateLimiterRuleSet(a.Suf.real())); err != nil {
				return err
			}
			if err := w.rules.SetDefaultRuleMap(a.Def.real()); err != nil {
				return err
			}
			w.setMembers(a.Members, a.Hash)
		case "SetClientID", "SetNet", "SetNode":
			x, err := unwrap(a.Set)
			if err != nil {
				return err
			}
			switch a.A {
			case "SetClientID":
				err = w.setCid(x)
			case "SetNet":
				err = w.setNets(x)
			default:
				err = w.setNodes(x)
			}
			if err != nil {
				return err
			}
		case "SetSuffrage", "SetDefault":
			var m ruleMap
			if err := json.Unmarshal(a.Set, &m); err != nil {
				return err
			}
			if a.A == "SetSuffrage" {
				if err := w.rules.SetSuffrageRuleSet(launch.NewSuffrageRateLimiterRuleSet(m.real())); err != nil {
					return err
				}
			} else if err := w.rules.SetDefaultRuleMap(m.real()); err != nil {
				return err
			}
		case "SetMembers":
			w.setMembers(a.Members, a.Hash)
		case "AddNode":
			added := w.handler.AddNode(addrs[a.Addr], node(a.Node))
			res.Calls++
			res.Obs = append(res.Obs, obs{Step: i, Added: &added})
		case "Request":
			r, allowed, err := w.request(addrs[a.Addr], a.H, a.C)
			res.Calls++
			if err != nil {
				res.Obs = append(res.Obs, obs{Step: i, Err: err.Error()})
				continue
			}
			res.Obs = append(res.Obs, obs{Step: i, Type: r.RulesetType, Burst: burstOf(r.Limiter), Limiter: r.Limiter,
				Desc: descOf(r.RulesetType, r.RulesetDesc), Allowed: allowed})
		default:
			return fmt.Errorf("unknown action %q", a.A)
		}
	}
	return nil
}

func run(args []string) error {
	if len(args) < 1 {
		return fmt.Errorf("mode?")
	}
	fl := h.Flags(args[1:])
	out, err := h.NewOut(fl["out"])
	if err != nil {
		return err
	}
	defer out.Close()
	if args[0] == "bursts" {
		n, _ := strconv.Atoi(fl["n"])
		return bursts(n, out)
	}
	i := 0
	return h.ReadNDJSON(fl["in"], func(line []byte) error {
		var hist []action
		if err := json.Unmarshal(line, &hist); err != nil {
			return err
		}
		i++
		res := result{I: i, Obs: []obs{}}
		w, err := newWorld()
		if err != nil {
			return err
		}
		var perr error
		res.Panic = h.Catch(func() { perr = w.play(hist, &res) })
		if perr != nil {
			return perr
		}
		out.Emit(res)
		return nil
	})
}

// ---------------------------------------------------------------- enforcement

type burstLine struct {
	Burst int      `json:"burst"`
	Per   int64    `json:"per"` // microseconds (TLC integers are 32 bit)
	Kind  string   `json:"kind"`
	ObsR  []obsRec `json:"obs"`
	Rule  string   `json:"rule"`
	Src   string   `json:"src"`
}

// microseconds since the start of the burst: tb rounded down, ta rounded up (the window only grows)
type obsRec struct {
	Tb int64 `json:"tb"`
	Ta int64 `json:"ta"`
	OK int   `json:"ok"`
}

// one burst: a fresh handler whose rule for the request is `rule` (placed in the rule set `src`),
// calls as fast as possible with random short pauses, for about `span`.
func oneBurst(rng *rand.Rand, rule launch.RateLimiterRule, kind string, burst int, d time.Duration, src string, maxCalls int, span time.Duration) (burstLine, error) {
	w, err := newWorld()
	if err != nil {
		return burstLine{}, err
	}
	m := launch.NewRateLimiterRuleMap(&rule, nil)
	cid := ""
	switch src {
	case "defaultmap":
		err = w.rules.SetDefaultRuleMap(m)
	case "clientid":
		cid = "cx"
		err = w.rules.SetClientIDRuleSet(launch.NewClientIDRateLimiterRuleSet(map[string]launch.RateLimiterRuleMap{"cx": m}))
	case "net":
		rs := launch.NewNetRateLimiterRuleSet()
		_, ipnet, _ := net.ParseCIDR(netsCIDR["N1"])
		rs.Add(ipnet, m)
		err = w.rules.SetNetRuleSet(rs)
	}
	if err != nil {
		return burstLine{}, err
	}
	tick()
	line := burstLine{Burst: burst, Per: int64(d / time.Microsecond), Kind: kind, Rule: fmt.Sprintf("%d/%s", burst, d), Src: src}
	start := time.Now()
	for c := 0; c < maxCalls; c++ {
		tb := time.Since(start)
		r, allowed, err := w.request(addrs["a1"], "hx", cid)
		ta := time.Since(start)
		if err != nil {
			return line, err
		}
		if c == 0 && r.RulesetType != src {
			return line, fmt.Errorf("burst under %s rule: limiter of type %q", src, r.RulesetType)
		}
		ok := 0
		if allowed {
			ok = 1
		}
		line.ObsR = append(line.ObsR, obsRec{Tb: int64(tb / time.Microsecond), Ta: int64((ta + time.Microsecond - 1) / time.Microsecond), OK: ok})
		if ta > span {
			break
		}
		switch rng.Intn(6) {
		case 0:
			if burst > 0 {
				time.Sleep(time.Duration(rng.Int63n(int64(d)/int64(burst)*2 + 1)))
			}
		case 1:
			time.Sleep(time.Duration(rng.Intn(200)) * time.Microsecond)
		}
	}
	return line, nil
}

func bursts(n int, out *h.Out) error {
	seed, _ := strconv.ParseInt(os.Getenv("VERIF_SEED"), 10, 64)
	rng := rand.New(rand.NewSource(seed*31 + 36))
	type spec struct {
		burst int
		d     time.Duration
	}
	specs := []spec{{1, 10 * time.Millisecond}, {5, 50 * time.Millisecond}, {20, 100 * time.Millisecond}, {3, time.Second},
		{2, 3 * time.Millisecond}, {40, 20 * time.Millisecond}, {7, 70 * time.Millisecond}, {33, 3 * time.Second}}
	srcs := []string{"defaultmap", "clientid", "net"}
	for i := 0; i < n; i++ {
		s := specs[i%len(specs)]
		if i >= len(specs) {
			s = spec{1 + rng.Intn(30), time.Duration(2+rng.Intn(120)) * time.Millisecond}
		}
		span := 3 * s.d
		if span > 250*time.Millisecond {
			span = 250 * time.Millisecond
		}
		line, err := oneBurst(rng, launch.NewRateLimiterRule(s.d, s.burst), "limit", s.burst, s.d, srcs[i%3], 140, span)
		if err != nil {
			return err
		}
		out.Emit(line)
	}
	z, err := oneBurst(rng, launch.LimitRateLimiterRule(), "zero", 0, time.Second, "defaultmap", 50, 20*time.Millisecond)
	if err != nil {
		return err
	}
	out.Emit(z)
	nl, err := oneBurst(rng, launch.NoLimitRateLimiterRule(), "nolimit", 0, time.Second, "defaultmap", 50, 20*time.Millisecond)
	if err != nil {
		return err
	}
	out.Emit(nl)
	return nil
}
