package c28

import (
	"bytes"
	"encoding/base64"
	"encoding/json"
	"fmt"
	"regexp"
	"strconv"
	"strings"
	"time"

	"github.com/spikeekips/mitum/base"
	"github.com/spikeekips/mitum/isaac"
	"github.com/spikeekips/mitum/util"

	"mitumverif/internal/h"
)

// Case is one line of the catalogue of spec/SignedObjects.tla.
type Case struct {
	Kind  string   `json:"kind"`
	Mut   string   `json:"mut"`
	Path  []string `json:"path"`
	Role  string   `json:"role"`
	Cls   string   `json:"cls"`
	Scope string   `json:"scope"`
	Rel   string   `json:"rel"`
	To    string   `json:"to"`
	Ideal bool     `json:"ideal"`
	Impl  bool     `json:"impl"`
}

var (
	reHash = regexp.MustCompile(`^[0-9a-f]{64}$`)
	reHex  = regexp.MustCompile(`^[0-9a-f]{100,}$`)
)

// another value of the same type
func (w *world) otherValue(c Case, v interface{}) (interface{}, error) {
	switch t := v.(type) {
	case float64:
		return t + 1, nil
	case bool:
		return !t, nil
	case string:
		switch {
		case c.Role == "sig" || reHex.MatchString(t):
			sig, err := w.nodes[1].Privatekey().Sign([]byte("another message"))
			if err != nil {
				return nil, err
			}

			return sig.String(), nil
		case strings.HasSuffix(t, "mpu"):
			for _, n := range w.nodes {
				if n.Publickey().String() != t {
					return n.Publickey().String(), nil
				}
			}
		case strings.HasSuffix(t, "sas"):
			for i := len(w.nodes) - 1; i >= 0; i-- {
				if w.nodes[i].Address().String() != t {
					return w.nodes[i].Address().String(), nil
				}
			}
		case reHash.MatchString(t):
			return hsh("other|" + t).String(), nil
		case t == "INIT":
			return "ACCEPT", nil
		case t == "ACCEPT":
			return "INIT", nil
		}

		if ts, err := time.Parse(time.RFC3339Nano, t); err == nil {
			return ts.Add(time.Second).Format(time.RFC3339Nano), nil
		}

		if b, err := base64.StdEncoding.DecodeString(t); err == nil && len(b) > 0 && c.Path[len(c.Path)-1] == "token" {
			return base64.StdEncoding.EncodeToString(append(b, 'x')), nil
		}

		if strings.HasPrefix(t, "checksum-") || c.Path[len(c.Path)-1] == "type" {
			// block map item: another item type / checksum
			if c.Path[len(c.Path)-1] == "type" {
				if t == "operations" {
					return "states", nil
				}

				return "operations", nil
			}
		}

		return t + "x", nil
	}

	return nil, fmt.Errorf("no other value for %T", v)
}

func setPath(tree interface{}, path []string, f func(interface{}) (interface{}, error)) error {
	cur := tree

	for i, p := range path {
		last := i == len(path)-1

		switch t := cur.(type) {
		case map[string]interface{}:
			x, ok := t[p]
			if !ok {
				return fmt.Errorf("no key %q", p)
			}

			if last {
				nv, err := f(x)
				if err != nil {
					return err
				}

				t[p] = nv

				return nil
			}

			cur = x
		case []interface{}:
			idx, err := strconv.Atoi(p)
			if err != nil || idx >= len(t) {
				return fmt.Errorf("bad index %q", p)
			}

			if last {
				nv, err := f(t[idx])
				if err != nil {
					return err
				}

				t[idx] = nv

				return nil
			}

			cur = t[idx]
		default:
			return fmt.Errorf("cannot descend into %T at %q", cur, p)
		}
	}

	return fmt.Errorf("empty path")
}

type result struct {
	Outcome string `json:"outcome"` // rejected-decode, rejected-isvalid, accepted, noop, error
	Err     string `json:"err"`
	From    string `json:"from"`
	ToVal   string `json:"toval"`
}

func short(err error) string {
	s := err.Error()
	if len(s) > 220 {
		s = s[len(s)-220:]
	}

	return s
}

func (w *world) twin(c Case) result {
	p := base.RawPoint(w.h, w.r+1)
	mk := func(kind string) base.BallotFact {
		switch kind {
		case "init-ballot-fact":
			return isaac.NewINITBallotFact(p, hsh("prev"), hsh("pr"), []util.Hash{hsh("ex")})
		case "suffrage-confirm-ballot-fact":
			return isaac.NewSuffrageConfirmBallotFact(p, hsh("prev"), hsh("pr"), []util.Hash{hsh("ex")})
		case "empty-proposal-init-ballot-fact":
			return isaac.NewEmptyProposalINITBallotFact(p, hsh("prev"), hsh("pr"))
		case "accept-ballot-fact":
			return isaac.NewACCEPTBallotFact(p, hsh("pr"), hsh("blk"), nil)
		case "empty-operations-accept-ballot-fact":
			return isaac.NewEmptyOperationsACCEPTBallotFact(p, hsh("pr"))
		case "not-processed-accept-ballot-fact":
			return isaac.NewNotProcessedACCEPTBallotFact(p, hsh("pr"))
		}

		return nil
	}

	a, b := mk(c.Kind), mk(c.To)
	if a == nil || b == nil {
		return result{Outcome: "error", Err: "unknown kinds"}
	}

	// the empty-operations / not-processed constructors draw a random block hash: compare through the encoded
	// form with the block hash of the first
	if c.Kind != "accept-ballot-fact" && strings.HasSuffix(c.Kind, "accept-ballot-fact") ||
		c.To != "accept-ballot-fact" && strings.HasSuffix(c.To, "accept-ballot-fact") {
		ba, _ := util.MarshalJSON(a)

		var tree map[string]interface{}
		_ = json.Unmarshal(ba, &tree)
		tree["_hint"] = c.To + "-v0.0.1"
		bb, _ := json.Marshal(tree)

		obj, err := w.enc.Decode(bb)
		if err != nil {
			return result{Outcome: "rejected-decode", Err: short(err)}
		}

		if err := obj.(util.IsValider).IsValid(NetworkID); err != nil {
			return result{Outcome: "rejected-isvalid", Err: short(err)}
		}

		return result{Outcome: "accepted", From: a.Hash().String(), ToVal: obj.(base.Fact).Hash().String()}
	}

	if a.Hash().Equal(b.Hash()) {
		return result{Outcome: "accepted", From: a.Hash().String(), ToVal: b.Hash().String()}
	}

	return result{Outcome: "rejected-isvalid", Err: "hashes differ"}
}

func (w *world) runCase(c Case) (res result) {
	if pan := h.Catch(func() { res = w.runCase0(c) }); pan != "" {
		// a panic while decoding or validating attacker-controlled input is not a rejection
		return result{Outcome: "panic", Err: pan[:min(len(pan), 300)]}
	}

	return res
}

// prepared is one catalogue case applied to a freshly built object: the encoded genuine object, the encoded
// mutated one and the network id the mutated one is validated under (the netid case: the same bytes, another id).
type prepared struct {
	orig, mutated []byte
	netM          base.NetworkID
	from, to      string
}

func (w *world) prepare(c Case) (*prepared, *result) {
	obj := w.Build(c.Kind)

	orig, err := util.MarshalJSON(obj)
	if err != nil {
		return nil, &result{Outcome: "error", Err: err.Error()}
	}

	var tree interface{}
	if err := json.Unmarshal(orig, &tree); err != nil {
		return nil, &result{Outcome: "error", Err: err.Error()}
	}

	p := &prepared{orig: orig, netM: NetworkID}

	switch c.Mut {
	case "field":
		if err := setPath(tree, c.Path, func(v interface{}) (interface{}, error) {
			nv, err := w.otherValue(c, v)
			p.from, p.to = fmt.Sprint(v), fmt.Sprint(nv)

			return nv, err
		}); err != nil {
			return nil, &result{Outcome: "error", Err: err.Error()}
		}
	case "kind":
		if err := setPath(tree, c.Path, func(v interface{}) (interface{}, error) {
			p.from, p.to = fmt.Sprint(v), c.To+"-v0.0.1"

			return p.to, nil
		}); err != nil {
			return nil, &result{Outcome: "error", Err: err.Error()}
		}
	case "netid":
		p.netM = OtherNetworkID
		p.mutated = orig

		return p, nil
	case "signs-drop-all", "signs-drop-one", "signs-dup", "signs-swap":
		m := tree.(map[string]interface{}) //nolint:forcetypeassert //...
		signs := m["signs"].([]interface{}) //nolint:forcetypeassert //...

		switch c.Mut {
		case "signs-drop-all":
			m["signs"] = []interface{}{}
		case "signs-drop-one":
			m["signs"] = signs[1:]
		case "signs-dup":
			m["signs"] = append(append([]interface{}{}, signs...), signs[0])
		case "signs-swap":
			n := append([]interface{}{}, signs...)
			n[0], n[1] = n[1], n[0]
			m["signs"] = n
		}
	default:
		return nil, &result{Outcome: "error", Err: "unknown mutation " + c.Mut}
	}

	mutated, err := json.Marshal(tree)
	if err != nil {
		return nil, &result{Outcome: "error", Err: err.Error()}
	}

	p.mutated = mutated

	return p, nil
}

// validate is what a receiving node does: decode with the real encoder (or take the instance decoded earlier),
// IsValid(network id).
func (w *world) validate(b []byte, inst interface{}, net base.NetworkID) (dec interface{}, res result) {
	dec = inst

	if dec == nil {
		i, err := w.enc.Decode(b)
		if err != nil {
			return nil, result{Outcome: "rejected-decode", Err: short(err)}
		}

		dec = i
	}

	v, ok := dec.(util.IsValider)
	if !ok {
		return dec, result{Outcome: "error", Err: fmt.Sprintf("%T is not an IsValider", dec)}
	}

	if err := v.IsValid(net); err != nil {
		return dec, result{Outcome: "rejected-isvalid", Err: short(err)}
	}

	return dec, result{Outcome: "accepted"}
}

func (w *world) runCase0(c Case) result {
	if c.Mut == "twin" {
		return w.twin(c)
	}

	p, bad := w.prepare(c)
	if bad != nil {
		return *bad
	}

	dec, res := w.validate(p.mutated, nil, p.netM)
	res.From, res.ToVal = p.from, p.to

	if res.Outcome != "accepted" {
		return res
	}

	if c.Mut != "netid" {
		// did the mutation survive decoding? (the decoded object, encoded again, must differ from the original)
		again, err := util.MarshalJSON(dec)
		if err == nil && jsonEqual(again, p.orig) {
			res.Outcome = "noop"
		}
	}

	return res
}

// HStep is one validation of a history of spec/SignedObjects.tla: the genuine object under its own network id
// ("G") or the mutated one of the case ("M"), on a freshly decoded copy or on the instance decoded earlier in
// this history from the same bytes.
type HStep struct {
	R    string `json:"r"`
	Copy string `json:"copy"`
	Ok   bool   `json:"ok"`
}

type stepResult struct {
	Outcome string `json:"outcome"`
	Err     string `json:"err,omitempty"`
}

// runHistory validates, in this one process, the requests of the history on an object nothing in the process
// has seen before (every Build differs from every earlier one in every hash and signature).
func (w *world) runHistory(c Case, hist []HStep) []stepResult {
	p, bad := w.prepare(c)
	if bad != nil {
		return []stepResult{{Outcome: "error", Err: bad.Err}}
	}

	sameBytes := bytes.Equal(p.orig, p.mutated)
	insts := map[string]interface{}{}
	out := make([]stepResult, 0, len(hist))

	for _, st := range hist {
		b, net, key := p.orig, NetworkID, "g"

		if st.R == "M" {
			b, net = p.mutated, p.netM

			if !sameBytes {
				key = "m"
			}
		}

		var inst interface{}
		if st.Copy == "same" {
			inst = insts[key] // nil (decoded again) if the bytes could not be decoded before
		}

		var res result

		if pan := h.Catch(func() {
			var dec interface{}

			dec, res = w.validate(b, inst, net)
			if dec != nil {
				insts[key] = dec
			}
		}); pan != "" {
			res = result{Outcome: "panic", Err: pan[:min(len(pan), 300)]}
		}

		out = append(out, stepResult{Outcome: res.Outcome, Err: res.Err})
	}

	return out
}

func jsonEqual(a, b []byte) bool {
	var x, y interface{}
	if json.Unmarshal(a, &x) != nil || json.Unmarshal(b, &y) != nil {
		return false
	}

	ba, _ := json.Marshal(x)
	bb, _ := json.Marshal(y)

	return string(ba) == string(bb)
}

func replay(w *world, in, out string) error {
	o, err := h.NewOut(out)
	if err != nil {
		return err
	}
	defer o.Close()

	// the unmodified objects are valid - otherwise every rejection would be meaningless
	for _, k := range Kinds {
		obj := w.Build(k)

		b, err := util.MarshalJSON(obj)
		if err != nil {
			return fmt.Errorf("%s: %w", k, err)
		}

		dec, err := w.enc.Decode(b)
		if err != nil {
			return fmt.Errorf("baseline decode of %s: %w", k, err)
		}

		if err := dec.(util.IsValider).IsValid(NetworkID); err != nil { //nolint:forcetypeassert //...
			return fmt.Errorf("baseline object %s is not valid: %w", k, err)
		}
	}

	return h.ReadNDJSON(in, func(line []byte) error {
		var c struct {
			Case
			Hists [][]HStep `json:"hists"`
		}

		if err := json.Unmarshal(line, &c); err != nil {
			return err
		}

		r := w.runCase(c.Case)
		row := map[string]interface{}{"outcome": r.Outcome, "err": r.Err, "from": r.From, "toval": r.ToVal}

		// the histories of the case: a mutation without effect has no mutated object, a twin is not validated
		if len(c.Hists) > 0 && c.Mut != "twin" && r.Outcome != "noop" && r.Outcome != "error" {
			hs := make([][]stepResult, 0, len(c.Hists))
			for _, hist := range c.Hists {
				hs = append(hs, w.runHistory(c.Case, hist))
			}

			row["hists"] = hs
		}

		o.Emit(row)

		return nil
	})
}
