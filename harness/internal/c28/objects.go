// Package c28 builds real signed protocol objects, encodes them with the real JSON encoder,
// applies one mutation of the catalogue of spec/SignedObjects.tla to the decoded JSON tree,
// decodes the result with the real encoder and asks the object's own IsValid(networkID)
// (binding A of property C28).
package c28

import (
	"fmt"
	"math/rand"
	"time"

	"github.com/spikeekips/mitum/base"
	"github.com/spikeekips/mitum/isaac"
	isaacblock "github.com/spikeekips/mitum/isaac/block"
	isaacoperation "github.com/spikeekips/mitum/isaac/operation"
	"github.com/spikeekips/mitum/launch"
	"github.com/spikeekips/mitum/util"
	"github.com/spikeekips/mitum/util/encoder"
	jsonenc "github.com/spikeekips/mitum/util/encoder/json"
	"github.com/spikeekips/mitum/util/localtime"
	"github.com/spikeekips/mitum/util/valuehash"
)

var (
	NetworkID      = base.NetworkID([]byte("verif-c28-network"))
	OtherNetworkID = base.NetworkID([]byte("verif-c28-network-b"))
)

type world struct {
	enc   *jsonenc.Encoder
	nodes []base.LocalNode
	salt  string // varies every hash, token and text between passes and between builds
	h     int64  // block height of the objects
	r     uint64
	seed  int64
	h0    int64
	built int64 // number of objects built so far
}

func newWorld(seed int64) (*world, error) {
	enc := jsonenc.NewEncoder()
	encs := encoder.NewEncoders(enc, enc)

	if err := launch.LoadHinters(encs); err != nil {
		return nil, err
	}

	rng := rand.New(rand.NewSource(seed))
	w := &world{enc: enc, salt: fmt.Sprintf("s%d|", seed), h: 33 + rng.Int63n(1000), r: uint64(rng.Intn(4)), seed: seed}
	w.h0 = w.h

	for i := 0; i < 4; i++ {
		w.nodes = append(w.nodes, isaac.NewLocalNode(base.NewMPrivatekey(), base.NewStringAddress(fmt.Sprintf("node%d-c28", i))))
	}

	return w, nil
}

var salt string

func hsh(s string) util.Hash { return valuehash.NewSHA256([]byte(salt + s)) }

func (w *world) expel(i int, signers ...int) isaac.SuffrageExpelOperation {
	fact := isaac.NewSuffrageExpelFact(w.nodes[i].Address(), base.Height(w.h-1), base.Height(w.h+1), "no response "+w.salt)
	op := isaac.NewSuffrageExpelOperation(fact)

	for _, j := range signers {
		n := w.nodes[j]
		if err := op.NodeSign(n.Privatekey(), NetworkID, n.Address()); err != nil {
			panic(err)
		}
	}

	return op
}

func (w *world) initFact(kind string) base.BallotFact {
	p := base.RawPoint(w.h, w.r+1)
	ex := []util.Hash{w.expel(3, 0, 1, 2).Fact().Hash()}

	switch kind {
	case "init-ballot-fact":
		return isaac.NewINITBallotFact(p, hsh("prev"), hsh("pr"), ex)
	case "suffrage-confirm-ballot-fact":
		return isaac.NewSuffrageConfirmBallotFact(p, hsh("prev"), hsh("pr"), ex)
	case "empty-proposal-init-ballot-fact":
		return isaac.NewEmptyProposalINITBallotFact(p, hsh("prev"), hsh("pr"))
	case "accept-ballot-fact":
		return isaac.NewACCEPTBallotFact(p, hsh("pr"), hsh("blk"), ex)
	case "empty-operations-accept-ballot-fact":
		return isaac.NewEmptyOperationsACCEPTBallotFact(p, hsh("pr"))
	case "not-processed-accept-ballot-fact":
		return isaac.NewNotProcessedACCEPTBallotFact(p, hsh("pr"))
	}

	panic("unknown fact kind " + kind)
}

func (w *world) signFact(factKind string) base.BallotSignFact {
	f := w.initFact(factKind)
	n := w.nodes[0]

	switch t := f.(type) {
	case base.INITBallotFact:
		sf := isaac.NewINITBallotSignFact(t)
		if err := sf.NodeSign(n.Privatekey(), NetworkID, n.Address()); err != nil {
			panic(err)
		}

		return sf
	case base.ACCEPTBallotFact:
		sf := isaac.NewACCEPTBallotSignFact(t)
		if err := sf.NodeSign(n.Privatekey(), NetworkID, n.Address()); err != nil {
			panic(err)
		}

		return sf
	}

	panic("not a ballot fact")
}

func (w *world) acceptVoteproof(p base.Point) isaac.ACCEPTVoteproof {
	f := isaac.NewACCEPTBallotFact(p, hsh("pr0"), hsh("prev"), nil)

	var sfs []base.BallotSignFact

	for _, n := range w.nodes[:3] {
		sf := isaac.NewACCEPTBallotSignFact(f)
		if err := sf.NodeSign(n.Privatekey(), NetworkID, n.Address()); err != nil {
			panic(err)
		}

		sfs = append(sfs, sf)
	}

	vp := isaac.NewACCEPTVoteproof(p)
	_ = vp.SetSignFacts(sfs).SetMajority(f).SetThreshold(67).Finish()

	return vp
}

func (w *world) initVoteproof(p base.Point, pr util.Hash) isaac.INITVoteproof {
	f := isaac.NewINITBallotFact(p, hsh("prev"), pr, nil)

	var sfs []base.BallotSignFact

	for _, n := range w.nodes[:3] {
		sf := isaac.NewINITBallotSignFact(f)
		if err := sf.NodeSign(n.Privatekey(), NetworkID, n.Address()); err != nil {
			panic(err)
		}

		sfs = append(sfs, sf)
	}

	vp := isaac.NewINITVoteproof(p)
	_ = vp.SetSignFacts(sfs).SetMajority(f).SetThreshold(67).Finish()

	return vp
}

func (w *world) nodeOp(kind string) interface{} {
	tok := base.Token([]byte("token-c28" + w.salt))
	sign := func(op interface {
		NodeSign(base.Privatekey, base.NetworkID, base.Address) error
	}, idx ...int) {
		for _, j := range idx {
			n := w.nodes[j]
			if err := op.NodeSign(n.Privatekey(), NetworkID, n.Address()); err != nil {
				panic(err)
			}
		}
	}

	switch kind {
	case "suffrage-expel-operation":
		return w.expel(3, 0, 1, 2)
	case "suffrage-join-operation":
		op := isaacoperation.NewSuffrageJoin(isaacoperation.NewSuffrageJoinFact(tok, w.nodes[3].Address(), base.Height(w.h)))
		sign(&op, 3, 0, 1)

		return op
	case "suffrage-disjoin-operation":
		op := isaacoperation.NewSuffrageDisjoin(isaacoperation.NewSuffrageDisjoinFact(tok, w.nodes[2].Address(), base.Height(w.h)))
		sign(&op, 2)

		return op
	case "suffrage-candidate-operation":
		op := isaacoperation.NewSuffrageCandidate(isaacoperation.NewSuffrageCandidateFact(tok, w.nodes[3].Address(), w.nodes[3].Publickey()))
		sign(&op, 3)

		return op
	case "network-policy-operation":
		op := isaacoperation.NewNetworkPolicy(isaacoperation.NewNetworkPolicyFact(tok, isaac.DefaultNetworkPolicy()))
		sign(&op, 0, 1, 2)

		return op
	}

	panic("unknown operation kind " + kind)
}

func (w *world) blockMap() isaacblock.BlockMap {
	m := isaacblock.NewBlockMap()
	m.SetManifest(isaac.NewManifest(base.Height(w.h), hsh("prev"), hsh("pr"), hsh("optree"), hsh("sttree"), hsh("suf"), localtime.Now().UTC().Add(-time.Minute)))

	for _, t := range []base.BlockItemType{base.BlockItemProposal, base.BlockItemVoteproofs, base.BlockItemOperationsTree,
		base.BlockItemStatesTree, base.BlockItemOperations, base.BlockItemStates} {
		if err := m.SetItem(isaacblock.NewBlockMapItem(t, "checksum-"+w.salt+string(t))); err != nil {
			panic(err)
		}
	}

	n := w.nodes[0]
	if err := m.Sign(n.Address(), n.Privatekey(), NetworkID); err != nil {
		panic(err)
	}

	return m
}

// Build returns a fresh real object of the kind. No two objects built by one process share a hash, a token, a
// height or (hence) a signature: whatever the validating code remembers about one of them says nothing about
// the others, so that the first validation of an object is a validation "in isolation" and the histories of
// spec/SignedObjects.tla are the only place where something is validated twice. (Signatures are deterministic
// and signing times have millisecond resolution: two builds of the same content within one millisecond would
// otherwise be the same object.)
func (w *world) Build(kind string) interface{} {
	w.built++
	w.h = w.h0 + w.built%100000
	w.salt = fmt.Sprintf("s%d.%d|", w.seed, w.built)
	salt = w.salt

	return w.build(kind)
}

func (w *world) build(kind string) interface{} {
	switch kind {
	case "init-ballot-fact", "suffrage-confirm-ballot-fact", "empty-proposal-init-ballot-fact", "accept-ballot-fact",
		"empty-operations-accept-ballot-fact", "not-processed-accept-ballot-fact":
		return w.initFact(kind)
	case "proposal-fact":
		return isaac.NewProposalFact(base.RawPoint(w.h, w.r+1), w.nodes[0].Address(), hsh("prev"),
			[][2]util.Hash{{hsh("op0"), hsh("fact0")}, {hsh("op1"), hsh("fact1")}})
	case "suffrage-expel-fact":
		return isaac.NewSuffrageExpelFact(w.nodes[3].Address(), base.Height(w.h-1), base.Height(w.h+1), "no response "+w.salt)
	case "init-ballot-sign-fact":
		return w.signFact("init-ballot-fact")
	case "init-ballot-sign-fact(suffrage-confirm)":
		return w.signFact("suffrage-confirm-ballot-fact")
	case "init-ballot-sign-fact(empty-proposal)":
		return w.signFact("empty-proposal-init-ballot-fact")
	case "accept-ballot-sign-fact":
		return w.signFact("accept-ballot-fact")
	case "accept-ballot-sign-fact(empty-operations)":
		return w.signFact("empty-operations-accept-ballot-fact")
	case "accept-ballot-sign-fact(not-processed)":
		return w.signFact("not-processed-accept-ballot-fact")
	case "proposal-sign-fact":
		f := isaac.NewProposalFact(base.RawPoint(w.h, w.r+1), w.nodes[0].Address(), hsh("prev"), [][2]util.Hash{{hsh("op0"), hsh("fact0")}})
		sf := isaac.NewProposalSignFact(f)

		if err := sf.Sign(w.nodes[0].Privatekey(), NetworkID); err != nil {
			panic(err)
		}

		return sf
	case "init-ballot":
		p := base.RawPoint(w.h, 0)
		f := isaac.NewINITBallotFact(p, hsh("prev"), hsh("pr"), nil)
		sf := isaac.NewINITBallotSignFact(f)

		if err := sf.NodeSign(w.nodes[0].Privatekey(), NetworkID, w.nodes[0].Address()); err != nil {
			panic(err)
		}

		return isaac.NewINITBallot(w.acceptVoteproof(base.RawPoint(w.h-1, 0)), sf, nil)
	case "accept-ballot":
		p := base.RawPoint(w.h, 0)
		f := isaac.NewACCEPTBallotFact(p, hsh("pr"), hsh("blk"), nil)
		sf := isaac.NewACCEPTBallotSignFact(f)

		if err := sf.NodeSign(w.nodes[0].Privatekey(), NetworkID, w.nodes[0].Address()); err != nil {
			panic(err)
		}

		return isaac.NewACCEPTBallot(w.initVoteproof(p, hsh("pr")), sf, nil)
	case "suffrage-expel-operation", "suffrage-join-operation", "suffrage-disjoin-operation", "suffrage-candidate-operation",
		"network-policy-operation":
		return w.nodeOp(kind)
	case "blockmap":
		return w.blockMap()
	case "manifest":
		return isaac.NewManifest(base.Height(w.h), hsh("prev"), hsh("pr"), hsh("optree"), hsh("sttree"), hsh("suf"), localtime.Now().UTC().Add(-time.Minute))
	case "base-state":
		var sufnodes []base.SuffrageNodeStateValue
		for _, n := range w.nodes[:3] {
			sufnodes = append(sufnodes, isaac.NewSuffrageNodeStateValue(n, base.Height(w.h-2)))
		}

		return base.NewBaseState(base.Height(w.h), isaac.SuffrageStateKey, isaac.NewSuffrageNodesStateValue(base.Height(w.h-20), sufnodes), hsh("prevstate"),
			[]util.Hash{hsh("op0"), hsh("op1")})
	}

	panic("unknown kind " + kind)
}

var Kinds = []string{
	"init-ballot-fact", "suffrage-confirm-ballot-fact", "empty-proposal-init-ballot-fact", "accept-ballot-fact",
	"empty-operations-accept-ballot-fact", "not-processed-accept-ballot-fact", "proposal-fact", "suffrage-expel-fact",
	"init-ballot-sign-fact", "init-ballot-sign-fact(suffrage-confirm)", "init-ballot-sign-fact(empty-proposal)",
	"accept-ballot-sign-fact", "accept-ballot-sign-fact(empty-operations)", "accept-ballot-sign-fact(not-processed)",
	"proposal-sign-fact", "init-ballot", "accept-ballot",
	"suffrage-expel-operation", "suffrage-join-operation", "suffrage-disjoin-operation", "suffrage-candidate-operation",
	"network-policy-operation", "blockmap", "manifest", "base-state",
}
