package c28

import (
	"encoding/json"
	"fmt"
	"sort"
	"strconv"
	"strings"

	"github.com/spikeekips/mitum/util"

	"mitumverif/internal/h"
)

func init() { h.Register("C28", run) }

// leaves lists every scalar leaf of a decoded JSON tree with its path ("a.b[2].c").
func leaves(prefix string, v interface{}, out map[string]interface{}) {
	switch t := v.(type) {
	case map[string]interface{}:
		for k, x := range t {
			p := k
			if prefix != "" {
				p = prefix + "." + k
			}

			leaves(p, x, out)
		}
	case []interface{}:
		for i, x := range t {
			leaves(fmt.Sprintf("%s[%d]", prefix, i), x, out)
		}
	default:
		out[prefix] = v
	}
}

func run(args []string) error {
	if len(args) < 1 {
		return fmt.Errorf("mode missing")
	}

	fl := h.Flags(args[1:])

	seed, _ := strconv.ParseInt(fl["seed"], 10, 64)
	salt = fmt.Sprintf("s%d|", seed)

	w, err := newWorld(seed)
	if err != nil {
		return err
	}

	switch args[0] {
	case "leaves":
		out, err := h.NewOut(fl["out"])
		if err != nil {
			return err
		}
		defer out.Close()

		for _, k := range Kinds {
			obj := w.Build(k)

			b, err := util.MarshalJSON(obj)
			if err != nil {
				return fmt.Errorf("%s: %w", k, err)
			}

			var tree interface{}
			if err := json.Unmarshal(b, &tree); err != nil {
				return err
			}

			m := map[string]interface{}{}
			leaves("", tree, m)

			var ps []string
			for p := range m {
				ps = append(ps, p)
			}

			sort.Strings(ps)

			var ls []map[string]interface{}
			for _, p := range ps {
				ls = append(ls, map[string]interface{}{"path": p, "value": m[p]})
			}

			valid := ""
			if v, ok := obj.(util.IsValider); ok {
				if err := v.IsValid(NetworkID); err != nil {
					valid = err.Error()
				}
			} else {
				valid = "not an IsValider"
			}

			out.Emit(map[string]interface{}{"kind": k, "leaves": ls, "valid": valid, "json": string(b)})
		}

		return nil
	case "replay":
		return replay(w, fl["in"], fl["out"])
	}

	return fmt.Errorf("unknown mode %q", strings.Join(args, " "))
}
