// Package c14 replays the terminal states of spec/BlockMapChain.tla (case = chain length,
// batch limit, previous map, answer of every request, arrival order) into the real
// base.BatchIsValidMaps (binding A). The arrival order is forced without hooks: the
// blockMapf handed to the code blocks every request until the schedule releases it, and
// the next request is only released after the code called `callback` for the previous one
// (BatchIsValidMaps calls it right after validating under its lock) or returned.
package c14

import (
	"context"
	"encoding/json"
	"fmt"
	"os"
	"strconv"
	"sync"
	"time"

	"github.com/pkg/errors"
	"github.com/spikeekips/mitum/base"
	"github.com/spikeekips/mitum/util"
	"github.com/spikeekips/mitum/util/valuehash"

	"mitumverif/internal/h"
)

func init() { h.Register("C14", run) }

type amap struct {
	H    int64 `json:"h"`
	ID   int64 `json:"id"`
	Prev int64 `json:"prev"`
}

type kase struct {
	I       int    `json:"i"`
	N       int64  `json:"n"`
	Limit   int64  `json:"limit"`
	PK      string `json:"pk"`
	PrevH   int64  `json:"prevh"` // height of the previous map, -1 when pk = "nil"
	Order   []int  `json:"order"`
	Answers []amap `json:"answers"`
}

type result struct {
	I          int    `json:"i"`
	Ret        string `json:"ret"` // ok | err | panic
	Err        string `json:"err,omitempty"`
	Panic      string `json:"panic,omitempty"`
	Called     []int  `json:"called"`  // requests whose map reached callback, in order
	Arrived    []int  `json:"arrived"` // requests released, in order
	FreeRun    int    `json:"freerun"` // requests released after the schedule was used up
	Infeasible string `json:"infeasible,omitempty"`
}

const (
	errH  = -101
	noneP = -98
)

func hashOf(id int64) util.Hash {
	if id == noneP {
		return nil
	}
	return valuehash.NewSHA256([]byte("blockmap-id:" + strconv.FormatInt(id, 10)))
}

// reqMap is the answer to one request: a repository DummyBlockMap plus the request index,
// so that callback can tell which answer it got (two requests may be answered by equal maps).
type reqMap struct {
	base.DummyBlockMap
	req int
}

func mkMap(a amap, req int) reqMap {
	man := base.NewDummyManifest(base.Height(a.H), hashOf(a.ID))
	man.SetPrevious(hashOf(a.Prev))
	return reqMap{DummyBlockMap: base.DummyBlockMap{M: man}, req: req}
}

var errInjected = errors.New("injected fetch error")

func one(k kase) result {
	res := result{I: k.I, Called: []int{}, Arrived: []int{}}
	n := int(k.N)
	arrived := make([]chan struct{}, n+1)
	release := make([]chan struct{}, n+1)
	for i := 1; i <= n; i++ {
		arrived[i] = make(chan struct{})
		release[i] = make(chan struct{})
	}
	var once = make([]sync.Once, n+1)
	cb := make(chan int, n+1)
	anyArrived := make(chan int, n+1)

	var prev base.BlockMap
	if k.PK == "map" {
		prev = mkMap(amap{H: k.PrevH, ID: k.PrevH, Prev: k.PrevH - 1}, 0)
	}
	blockMapf := func(ctx context.Context, height base.Height) (base.BlockMap, error) {
		i := int(height.Int64() - k.PrevH)
		if i < 1 || i > n {
			return nil, errors.Errorf("driver: request for height %d outside the range", height)
		}
		once[i].Do(func() { close(arrived[i]); anyArrived <- i })
		select {
		case <-release[i]:
		case <-ctx.Done():
			return nil, ctx.Err()
		}
		a := k.Answers[i-1]
		if a.H == errH {
			return nil, errInjected
		}
		return mkMap(a, i), nil
	}
	var mu sync.Mutex
	callback := func(m base.BlockMap) error {
		rm, ok := m.(reqMap)
		if !ok {
			return errors.Errorf("driver: foreign map in callback")
		}
		mu.Lock()
		res.Called = append(res.Called, rm.req)
		mu.Unlock()
		cb <- rm.req
		return nil
	}

	done := make(chan struct{})
	var err error
	go func() {
		defer close(done)
		res.Panic = h.Catch(func() {
			err = base.BatchIsValidMaps(context.Background(), prev, base.Height(k.PrevH+k.N), k.Limit, blockMapf, callback)
		})
	}()

	const patience = 10 * time.Second
	released := map[int]bool{}
	finished := false
sched:
	for _, i := range k.Order {
		select {
		case <-arrived[i]:
		case <-done:
			finished = true
			break sched
		case <-time.After(patience):
			res.Infeasible = fmt.Sprintf("request %d never arrived", i)
			break sched
		}
		released[i] = true
		res.Arrived = append(res.Arrived, i)
		close(release[i])
		// wait until the code is through with this answer: callback, or the whole call returned
		for waiting := true; waiting; {
			select {
			case j := <-cb:
				if j == i {
					waiting = false
				}
			case <-done:
				finished = true
				break sched
			case <-time.After(patience):
				// the job failed without ending the call yet (BatchWork returns on the first error)
				res.Infeasible = fmt.Sprintf("no callback and no return after request %d", i)
				break sched
			}
		}
	}
	// schedule used up (the model stops at the first rejected answer): let the real code run on
	for !finished {
		select {
		case <-done:
			finished = true
		case i := <-anyArrived:
			if !released[i] {
				released[i] = true
				res.FreeRun++
				res.Arrived = append(res.Arrived, i)
				close(release[i])
			}
		case <-cb:
		case <-time.After(patience):
			res.Infeasible = "call did not return"
			finished = true
		}
	}
	if res.Infeasible != "" {
		// unblock whatever still waits, then give up on this case
		for i := 1; i <= n; i++ {
			if !released[i] {
				close(release[i])
			}
		}
		select {
		case <-done:
		case <-time.After(patience):
		}
		return res
	}
	switch {
	case res.Panic != "":
		res.Ret = "panic"
	case err != nil:
		res.Ret, res.Err = "err", err.Error()
	default:
		res.Ret = "ok"
	}
	mu.Lock()
	res.Called = append([]int{}, res.Called...)
	mu.Unlock()
	return res
}

func run(args []string) error {
	if len(args) < 1 || args[0] != "replay" {
		return fmt.Errorf("usage: C14 replay --in cases.ndjson --out res.ndjson [--seq 1 --start N]")
	}
	fl := h.Flags(args[1:])
	var cases []kase
	if err := h.ReadNDJSON(fl["in"], func(line []byte) error {
		var k kase
		if err := json.Unmarshal(line, &k); err != nil {
			return err
		}
		cases = append(cases, k)
		return nil
	}); err != nil {
		return err
	}
	if fl["seq"] != "" {
		start, _ := strconv.Atoi(fl["start"])
		fd, err := os.OpenFile(fl["out"], os.O_CREATE|os.O_WRONLY|os.O_TRUNC, 0o644)
		if err != nil {
			return err
		}
		defer fd.Close()
		for i := start; i < len(cases); i++ {
			b, _ := json.Marshal(one(cases[i]))
			if _, err := fd.Write(append(b, '\n')); err != nil {
				return err
			}
		}
		return nil
	}
	out, err := h.NewOut(fl["out"])
	if err != nil {
		return err
	}
	defer out.Close()
	results := make([]result, len(cases))
	var wg sync.WaitGroup
	sem := make(chan struct{}, 16)
	for i := range cases {
		wg.Add(1)
		sem <- struct{}{}
		go func(i int) {
			defer wg.Done()
			defer func() { <-sem }()
			// watchdog: every wait inside one() is bounded; a case that still takes minutes means the
			// machine (or the driver) is stuck - give up without a verdict instead of hanging the check
			wd := time.AfterFunc(3*time.Minute, func() {
				fmt.Fprintf(os.Stderr, "driver watchdog: case %d did not finish within 3 minutes: %+v\n", i, cases[i])
				os.Exit(3)
			})
			results[i] = one(cases[i])
			wd.Stop()
		}(i)
	}
	wg.Wait()
	for i := range results {
		out.Emit(results[i])
	}
	return nil
}
