// Package c16: real blocks from C10's pipeline => tampered copies (re-written by the real
// LocalFSWriter, so every checksum is re-established and the map is signed again) => the
// real isaacblock.BlockImporter fed through isaacblock.ImportBlocks, wired as
// launch.ImportBlocks / the syncer do. Reports whether the block was stored and what the
// repository's own validator (IsValidBlockFromLocalFS) says about what was stored.
package c16

import (
	"context"
	"crypto/sha256"
	"encoding/json"
	"fmt"
	"io"
	"os"
	"path/filepath"
	"runtime"
	"sort"
	"strconv"
	"sync"
	"time"

	"github.com/pkg/errors"
	"github.com/spikeekips/mitum/base"
	"github.com/spikeekips/mitum/isaac"
	isaacblock "github.com/spikeekips/mitum/isaac/block"
	"github.com/spikeekips/mitum/util"
	"github.com/spikeekips/mitum/util/fixedtree"
	"github.com/spikeekips/mitum/util/valuehash"

	"mitumverif/internal/c10"
	"mitumverif/internal/h"
)

func init() { h.Register("C16", run) }

type CaseIn struct {
	Chain   c10.ChainT `json:"chain"`   // the last block is the one that is imported
	Tampers []string   `json:"tampers"` // applied in order to a copy of the block
	Order   []string   `json:"order"`   // item types in the order they are handed to the importer (nil: concurrently)
	Raw     bool       `json:"raw"`     // import the writer's own files (no re-write); only without tampers
}

type CaseOut struct {
	I         int      `json:"i"`
	Err       string   `json:"err,omitempty"` // machinery
	Skipped   string   `json:"skipped,omitempty"`
	Stored    bool     `json:"stored"`
	ImportErr string   `json:"import_err,omitempty"`
	Validator string   `json:"validator"`        // "" = IsValidBlockFromLocalFS accepts what was stored
	SourceVal string   `json:"source_validator"` // the same validator on the (tampered) source
	Items     []string `json:"items"`
	NOps      int      `json:"nops"`
	NStates   int      `json:"nstates"`
	HasSuf    bool     `json:"has_suffrage_state"`
	DBMembers []string `json:"db_members,omitempty"` // suffrage in the importing node's database afterwards
	DBPolicy  string   `json:"db_policy,omitempty"`
	SourceObs *Obs     `json:"source_obs,omitempty"` // ImportValidity.tla Facts() read back from the (tampered) source
	StoredObs *Obs     `json:"stored_obs,omitempty"` // ... and from what the importer stored
}

// Obs is ImportValidity.tla's Facts(b) of the files of one block: what the relations R3..R7
// (and the root clauses of R1, R2) are evaluated on, by check/props/c16.py and not by any
// validator of the repository.
type Obs struct {
	IVP     [2]int64 `json:"ivp"` // INIT voteproof: height - manifest height, round
	AVP     [2]int64 `json:"avp"` // ACCEPT voteproof: the same
	Maj     bool     `json:"maj"` // the ACCEPT voteproof has a majority
	NBM     bool     `json:"nbm"` // ... for the manifest's hash
	PropM   bool     `json:"propm"`
	PropH   int64    `json:"proph"`
	OpsRoot bool     `json:"opsroot"`
	StsRoot bool     `json:"stsroot"`
	Stale   []string `json:"stale"` // listed items whose bytes do not have the map's checksum
	Signed  bool     `json:"signed"`
	Err     string   `json:"err,omitempty"` // an item could not be read back
}

func run(args []string) error {
	if len(args) < 1 || args[0] != "replay" {
		return fmt.Errorf("usage: C16 replay --in cases.ndjson --out res.ndjson --work dir")
	}
	fl := h.Flags(args[1:])
	work := fl["work"]
	if work == "" {
		work = filepath.Join(os.TempDir(), fmt.Sprintf("verif-c16-%d", os.Getpid()))
	}
	_ = os.RemoveAll(work)
	if err := os.MkdirAll(work, 0o700); err != nil {
		return err
	}
	defer os.RemoveAll(work)
	out, err := h.NewOut(fl["out"])
	if err != nil {
		return err
	}
	defer out.Close()
	var cases []CaseIn
	if err := h.ReadNDJSON(fl["in"], func(line []byte) error {
		var c CaseIn
		if err := json.Unmarshal(line, &c); err != nil {
			return err
		}
		cases = append(cases, c)
		return nil
	}); err != nil {
		return err
	}
	ws := c10.NewWorlds(filepath.Join(work, "worlds"))
	defer ws.Close()
	srcs := &sources{m: map[string]*source{}, dir: filepath.Join(work, "src")}
	par := runtime.NumCPU() / 2
	if v, err := strconv.Atoi(fl["par"]); err == nil && v > 0 {
		par = v
	}
	if par < 1 {
		par = 1
	}
	outs := make([]*CaseOut, len(cases))
	var wg sync.WaitGroup
	ch := make(chan int)
	for wk := 0; wk < par; wk++ {
		wg.Add(1)
		go func(wk int) {
			defer wg.Done()
			for i := range ch {
				o := &CaseOut{I: i}
				dir := filepath.Join(work, fmt.Sprintf("case-%d", i))
				if p := h.Catch(func() { runCase(ws, srcs, dir, cases[i], o) }); p != "" {
					o.Err = p
				}
				_ = os.RemoveAll(dir)
				outs[i] = o
			}
		}(wk)
	}
	for i := range cases {
		ch <- i
	}
	close(ch)
	wg.Wait()
	for _, o := range outs {
		out.Emit(o)
	}
	return nil
}

// source is a real block: produced by the pipeline on a fork of the world below it.
type source struct {
	w      *c10.World
	env    *c10.Env // holds the block (database + files)
	prep   *c10.Prepared
	res    *c10.RunResult
	height base.Height
	items  *blockItems
}

type sources struct {
	mu  sync.Mutex
	m   map[string]*source
	dir string
	n   int
}

type blockItems struct {
	bm      base.BlockMap
	pr      base.ProposalSignFact
	ops     []base.Operation
	sts     []base.State
	opstree fixedtree.Tree
	ststree fixedtree.Tree
	vps     [2]base.Voteproof
}

func (s *sources) get(ws *c10.Worlds, chain c10.ChainT) (*source, error) {
	b, _ := json.Marshal(chain)
	k := string(b)
	s.mu.Lock()
	defer s.mu.Unlock()
	if v, ok := s.m[k]; ok {
		return v, nil
	}
	n := len(chain.Blocks)
	w, err := ws.Get(chain, n-1)
	if err != nil {
		return nil, err
	}
	s.n++
	env, err := w.Fork(filepath.Join(s.dir, fmt.Sprintf("source-%d", s.n)))
	if err != nil {
		return nil, err
	}
	prep, err := w.PrepareBlock(env, chain.Blocks[n-1])
	if err != nil {
		return nil, err
	}
	r := env.Run(prep, c10.RunOpts{Workers: 7, Save: true})
	if r.Err != "" || r.Panic != "" {
		return nil, errors.Errorf("source block: %s%s", r.Err, r.Panic)
	}
	src := &source{w: w, env: env, prep: prep, res: r, height: r.Manifest.Height()}
	if src.items, err = loadItems(env.Readers, src.height); err != nil {
		return nil, errors.WithMessage(err, "read source block")
	}
	s.m[k] = src
	return src, nil
}

func loadItems(readers *isaac.BlockItemReaders, height base.Height) (*blockItems, error) {
	it := &blockItems{}
	bm, found, err := isaac.BlockItemReadersDecode[base.BlockMap](readers.Item, height, base.BlockItemMap, nil)
	if err != nil || !found {
		return nil, errors.Errorf("blockmap: found=%v err=%v", found, err)
	}
	it.bm = bm
	var rerr error
	bm.Items(func(item base.BlockMapItem) bool {
		switch item.Type() {
		case base.BlockItemProposal:
			it.pr, _, rerr = isaac.BlockItemReadersDecode[base.ProposalSignFact](readers.Item, height, item.Type(), nil)
		case base.BlockItemOperationsTree:
			it.opstree, _, rerr = isaac.BlockItemReadersDecode[fixedtree.Tree](readers.Item, height, item.Type(), nil)
		case base.BlockItemStatesTree:
			it.ststree, _, rerr = isaac.BlockItemReadersDecode[fixedtree.Tree](readers.Item, height, item.Type(), nil)
		case base.BlockItemVoteproofs:
			it.vps, _, rerr = isaac.BlockItemReadersDecode[[2]base.Voteproof](readers.Item, height, item.Type(), nil)
		case base.BlockItemOperations:
			_, it.ops, _, rerr = isaac.BlockItemReadersDecodeItems[base.Operation](readers.Item, height, item.Type(), nil, nil)
		case base.BlockItemStates:
			_, it.sts, _, rerr = isaac.BlockItemReadersDecodeItems[base.State](readers.Item, height, item.Type(), nil, nil)
		}
		return rerr == nil
	})
	return it, rerr
}

func (it *blockItems) clone() *blockItems {
	c := *it
	c.ops = append([]base.Operation{}, it.ops...)
	c.sts = append([]base.State{}, it.sts...)
	return &c
}

// rewrite writes the items through the real LocalFSWriter into root: checksums are
// computed from what is written and the map is signed by local.
func rewrite(root string, src *source, it *blockItems, manifest base.Manifest, dropOps, dropSts bool) (base.BlockMap, error) {
	if err := os.MkdirAll(root, 0o700); err != nil {
		return nil, err
	}
	ctx := context.Background()
	env := src.env
	fs, err := isaacblock.NewLocalFSWriter(root, src.height, env.Encs.JSON(), env.Encs.Default(), env.Local, env.NetworkID)
	if err != nil {
		return nil, err
	}
	if err := fs.SetProposal(ctx, it.pr); err != nil {
		return nil, err
	}
	if !dropOps {
		for i, op := range it.ops {
			if err := fs.SetOperation(ctx, uint64(len(it.ops)), uint64(i), op); err != nil {
				return nil, err
			}
		}
	}
	if it.opstree.Len() > 0 {
		if err := fs.SetOperationsTree(ctx, it.opstree); err != nil {
			return nil, err
		}
	}
	if !dropSts {
		for i, st := range it.sts {
			if err := fs.SetState(ctx, uint64(len(it.sts)), uint64(i), st); err != nil {
				return nil, err
			}
		}
	}
	if it.ststree.Len() > 0 {
		if dropSts {
			if err := setTreeOnly(fs, ctx, it.ststree); err != nil {
				return nil, err
			}
		} else if err := fs.SetStatesTree(ctx, it.ststree); err != nil {
			return nil, err
		}
	}
	if err := fs.SetManifest(ctx, manifest); err != nil {
		return nil, err
	}
	if err := fs.SetINITVoteproof(ctx, it.vps[0].(base.INITVoteproof)); err != nil {
		return nil, err
	}
	if err := fs.SetACCEPTVoteproof(ctx, it.vps[1].(base.ACCEPTVoteproof)); err != nil {
		return nil, err
	}
	return fs.Save(ctx)
}

// setTreeOnly: a states tree item without a states item. SetStatesTree always registers the
// (then empty) states file, so the tree is written with no state handed over before; the
// writer then lists an empty states item, which is what a source without states would send.
func setTreeOnly(fs *isaacblock.LocalFSWriter, ctx context.Context, tr fixedtree.Tree) error {
	return fs.SetStatesTree(ctx, tr)
}

type tamperCtx struct {
	src      *source
	it       *blockItems
	manifest base.Manifest
	dropOps  bool
	dropSts  bool
	post     []func(root string, bm base.BlockMap) (base.BlockMap, error) // after the re-write
	na       string                                                       // not applicable to this block
	// the two voteproofs are chosen / built from these after all tamper actions, so that they
	// compose: each voteproof has its own point
	ivpPoint base.Point
	avpPoint base.Point
	avpNB    util.Hash
	avpDraw  bool
	prev     *blockItems // the block below (genuine voteproofs of another height)
}

func (t *tamperCtx) below() (*blockItems, error) {
	if t.prev == nil {
		prev, err := loadItems(t.src.w.Env.Readers, t.src.height-1)
		if err != nil {
			return nil, err
		}
		t.prev = prev
	}
	return t.prev, nil
}

func majorityNewBlock(vp base.Voteproof) util.Hash {
	if avp, ok := vp.(base.ACCEPTVoteproof); ok && avp.BallotMajority() != nil {
		return avp.BallotMajority().NewBlock()
	}
	return nil
}

func sameHash(a, b util.Hash) bool {
	return a != nil && b != nil && a.Equal(b)
}

// voteproofs: the block's own voteproof where the tamper actions left its point (and, ACCEPT,
// its majority) alone, the genuine voteproof of the block below where they ask for exactly
// that one, otherwise one really signed by the block's voters at the asked point.
func (t *tamperCtx) voteproofs() (vps [2]base.Voteproof, err error) {
	src := t.src
	own := src.items.vps
	var prev *blockItems
	if t.ivpPoint.Height() == src.height-1 || t.avpPoint.Height() == src.height-1 {
		if prev, err = t.below(); err != nil {
			return vps, err
		}
	}
	switch {
	case t.ivpPoint.Equal(own[0].Point().Point):
		vps[0] = own[0]
	case prev != nil && t.ivpPoint.Equal(prev.vps[0].Point().Point):
		vps[0] = prev.vps[0]
	default:
		if vps[0], err = initAt(src, t.ivpPoint); err != nil {
			return vps, err
		}
	}
	switch {
	case !t.avpDraw && t.avpPoint.Equal(own[1].Point().Point) && sameHash(t.avpNB, majorityNewBlock(own[1])):
		vps[1] = own[1]
	case !t.avpDraw && prev != nil && t.avpPoint.Equal(prev.vps[1].Point().Point) &&
		sameHash(t.avpNB, majorityNewBlock(prev.vps[1])):
		vps[1] = prev.vps[1]
	default:
		if vps[1], err = acceptAt(src, t.avpPoint, t.avpNB, t.avpDraw); err != nil {
			return vps, err
		}
	}
	return vps, nil
}

func otherOp(src *source, id string) (base.Operation, error) {
	return src.w.Cast.Op(c10.OpT{ID: "tamper-" + id, K: "cand", N: "x9", Key: "own", Signs: []c10.SignT{{N: "x9", K: "own"}}})
}

func opsTreeOf(facts []util.Hash) (fixedtree.Tree, error) {
	g, err := fixedtree.NewWriter(base.OperationFixedtreeHint, uint64(len(facts)))
	if err != nil {
		return fixedtree.Tree{}, err
	}
	for i, f := range facts {
		if err := g.Add(uint64(i), base.NewInStateOperationFixedtreeNode(f, "")); err != nil {
			return fixedtree.Tree{}, err
		}
	}
	return g.Tree()
}

func stsTreeOf(sts []base.State) (fixedtree.Tree, error) {
	g, err := fixedtree.NewWriter(base.StateFixedtreeHint, uint64(len(sts)))
	if err != nil {
		return fixedtree.Tree{}, err
	}
	for i, st := range sts {
		if err := g.Add(uint64(i), fixedtree.NewBaseNode(st.Hash().String())); err != nil {
			return fixedtree.Tree{}, err
		}
	}
	return g.Tree()
}

func sufIndex(sts []base.State) int {
	for i, st := range sts {
		if st.Key() == isaac.SuffrageStateKey {
			return i
		}
	}
	return -1
}

// forgedSuffrage: the block's suffrage state with one more member (a valid state of its own).
func forgedSuffrage(src *source, st base.State) (base.State, error) {
	v, err := base.LoadSuffrageNodesStateValue(st)
	if err != nil {
		return nil, err
	}
	a := src.w.Cast.Actor("x9")
	nodes := append([]base.SuffrageNodeStateValue{}, v.Nodes()...)
	nodes = append(nodes, isaac.NewSuffrageNodeStateValue(isaac.NewNode(a.Own.Publickey(), a.Addr), st.Height()+1))
	return base.NewBaseState(st.Height(), st.Key(), isaac.NewSuffrageNodesStateValue(v.Height(), nodes), st.Previous(), st.Operations()), nil
}

func extraPolicyState(src *source, height base.Height) base.State {
	return base.NewBaseState(height, isaac.NetworkPolicyStateKey, isaac.NewNetworkPolicyStateValue(c10.Policy("p2")),
		valuehash.NewSHA256([]byte("verif-prev")), []util.Hash{valuehash.NewSHA256([]byte("verif-op"))})
}

func hasKey(sts []base.State, key string) bool {
	for _, st := range sts {
		if st.Key() == key {
			return true
		}
	}
	return false
}

func apply(t *tamperCtx, name string) error {
	it, src := t.it, t.src
	switch name {
	// ---- R1: operations <-> operations tree <-> manifest
	case "ops_drop":
		if len(it.ops) < 1 {
			t.na = name
			return nil
		}
		it.ops = it.ops[:len(it.ops)-1]
	case "ops_dup":
		if len(it.ops) < 1 {
			t.na = name
			return nil
		}
		it.ops = append(it.ops, it.ops[0])
	case "ops_alter":
		if len(it.ops) < 1 {
			t.na = name
			return nil
		}
		op, err := otherOp(src, "alter")
		if err != nil {
			return err
		}
		it.ops[len(it.ops)-1] = op
	case "ops_extra":
		op, err := otherOp(src, "extra")
		if err != nil {
			return err
		}
		it.ops = append(it.ops, op)
		if it.opstree.Len() < 1 {
			t.na = name // the map cannot list operations without a tree
		}
	case "ops_foreign_tree":
		if it.opstree.Len() < 1 {
			t.na = name
			return nil
		}
		facts := make([]util.Hash, it.opstree.Len())
		for i := range facts {
			facts[i] = valuehash.NewSHA256([]byte(fmt.Sprintf("foreign-fact-%d", i)))
		}
		tr, err := opsTreeOf(facts)
		if err != nil {
			return err
		}
		it.opstree = tr
	case "ops_item_dropped":
		if len(it.ops) < 1 {
			t.na = name
			return nil
		}
		t.dropOps = true
	// ---- R2: states <-> states tree <-> manifest, heights
	case "sts_missing":
		if len(it.sts) < 1 {
			t.na = name
			return nil
		}
		// drop a state that is not the suffrage state if there is one
		k := len(it.sts) - 1
		for i, st := range it.sts {
			if st.Key() != isaac.SuffrageStateKey {
				k = i
			}
		}
		it.sts = append(it.sts[:k:k], it.sts[k+1:]...)
	case "sts_extra":
		if hasKey(it.sts, isaac.NetworkPolicyStateKey) || it.ststree.Len() < 1 {
			t.na = name
			return nil
		}
		it.sts = append(it.sts, extraPolicyState(src, src.height))
	case "sts_alter":
		k := sufIndex(it.sts)
		if k < 0 {
			t.na = name
			return nil
		}
		st, err := forgedSuffrage(src, it.sts[k])
		if err != nil {
			return err
		}
		it.sts[k] = st
	case "sts_foreign_tree": // a tree made of the states that are sent (whatever they are now)
		if len(it.sts) < 1 {
			t.na = name
			return nil
		}
		tr, err := stsTreeOf(it.sts)
		if err != nil {
			return err
		}
		if tr.Root().Equal(t.manifest.StatesTree()) {
			// nothing was changed before: make it foreign
			tr, err = stsTreeOf(append(append([]base.State{}, it.sts...), extraPolicyState(src, src.height)))
			if err != nil {
				return err
			}
		}
		it.ststree = tr
	case "sts_height":
		k := len(it.sts) - 1
		if k < 0 {
			t.na = name
			return nil
		}
		st := it.sts[k]
		// (the hash of a state does not cover its height: the states tree stays the same tree)
		it.sts[k] = base.NewBaseState(st.Height()-1, st.Key(), st.Value(), st.Previous(), st.Operations())
		if !it.sts[k].Hash().Equal(st.Hash()) {
			return errors.Errorf("the hash of a state covers its height")
		}
	// ---- R3: proposal
	case "proposal_other":
		f := it.pr.ProposalFact()
		fact := isaac.NewProposalFact(f.Point(), f.Proposer(), f.PreviousBlock(),
			[][2]util.Hash{{valuehash.NewSHA256([]byte("other-op")), valuehash.NewSHA256([]byte("other-fact"))}})
		pr := isaac.NewProposalSignFact(fact)
		if err := pr.Sign(src.prep.In.Proposer.Own, src.env.NetworkID); err != nil {
			return err
		}
		it.pr = pr
	case "proposal_height":
		f := it.pr.ProposalFact()
		fact := isaac.NewProposalFact(base.NewPoint(f.Point().Height()+1, 0), f.Proposer(), f.PreviousBlock(), f.Operations())
		pr := isaac.NewProposalSignFact(fact)
		if err := pr.Sign(src.prep.In.Proposer.Own, src.env.NetworkID); err != nil {
			return err
		}
		it.pr = pr
	// ---- R4: voteproofs at the manifest's point; each of the two on its own
	case "vps_other_block", "ivp_prev", "avp_prev":
		if src.height < 1 {
			t.na = name
			return nil
		}
		if name != "avp_prev" {
			t.ivpPoint = base.NewPoint(src.height-1, t.ivpPoint.Round())
		}
		if name != "ivp_prev" {
			prev, err := t.below()
			if err != nil {
				return err
			}
			t.avpPoint = base.NewPoint(src.height-1, t.avpPoint.Round())
			if t.avpNB = majorityNewBlock(prev.vps[1]); t.avpNB == nil {
				t.avpNB = prev.bm.Manifest().Hash()
			}
		}
	case "ivp_next":
		t.ivpPoint = base.NewPoint(src.height+1, t.ivpPoint.Round())
	case "avp_next":
		t.avpPoint = base.NewPoint(src.height+1, t.avpPoint.Round())
		t.avpNB = valuehash.NewSHA256([]byte("the block above"))
	case "ivp_round":
		t.ivpPoint = base.NewPoint(t.ivpPoint.Height(), t.ivpPoint.Round()+1)
	case "vps_other_round":
		t.avpPoint = base.NewPoint(t.avpPoint.Height(), t.avpPoint.Round()+1)
	// ---- R5: ACCEPT majority for the manifest hash
	case "avp_other_newblock":
		t.avpNB = valuehash.NewSHA256([]byte("another block"))
	case "avp_draw":
		t.avpDraw = true
	// ---- R6: checksums of the map = checksums of the items
	case "checksum":
		t.post = append(t.post, func(root string, bm base.BlockMap) (base.BlockMap, error) {
			// the proposal file is replaced by the proposal of another re-write (signed again: other
			// signature time => other bytes); the map still lists the first one's checksum
			alt := filepath.Join(root, "..", "alt")
			it2 := t.it.clone()
			// the same fact signed again: the same proposal, other bytes
			fact, ok := it2.pr.ProposalFact().(isaac.ProposalFact)
			if !ok {
				return nil, errors.Errorf("proposal fact is %T", it2.pr.ProposalFact())
			}
			pr := isaac.NewProposalSignFact(fact)
			if err := pr.Sign(src.prep.In.Proposer.Own, src.env.NetworkID); err != nil {
				return nil, err
			}
			it2.pr = pr
			if _, err := rewrite(alt, src, it2, t.manifest, t.dropOps, t.dropSts); err != nil {
				return nil, err
			}
			name, err := isaacblock.DefaultBlockItemFileName(base.BlockItemProposal, src.env.Enc.Hint().Type())
			if err != nil {
				return nil, err
			}
			from := filepath.Join(alt, isaac.BlockHeightDirectory(src.height), name)
			to := filepath.Join(root, isaac.BlockHeightDirectory(src.height), name)
			b, err := os.ReadFile(from)
			if err != nil {
				return nil, err
			}
			return bm, os.WriteFile(to, b, 0o600)
		})
	// ---- R7: the map is signed
	case "map_unsigned":
		t.post = append(t.post, func(root string, bm base.BlockMap) (base.BlockMap, error) {
			m := bm.(isaacblock.BlockMap)
			if err := m.Sign(src.env.Local.Address(), src.env.Local.Privatekey(), base.NetworkID([]byte("another network"))); err != nil {
				return nil, err
			}
			name, err := isaacblock.DefaultBlockItemFileName(base.BlockItemMap, src.env.Enc.Hint().Type())
			if err != nil {
				return nil, err
			}
			p := filepath.Join(root, isaac.BlockHeightDirectory(src.height), name)
			old, err := os.ReadFile(p)
			if err != nil {
				return nil, err
			}
			// keep the header line, replace the body
			var head []byte
			for i, c := range old {
				if c == '\n' {
					head = old[:i+1]
					break
				}
			}
			body, err := src.env.Enc.Marshal(m)
			if err != nil {
				return nil, err
			}
			return m, os.WriteFile(p, append(append([]byte{}, head...), append(body, '\n')...), 0o600)
		})
	default:
		return errors.Errorf("unknown tamper %q", name)
	}
	return nil
}

// acceptAt builds a really signed ACCEPT voteproof of the block's voters: a majority for
// newblock, or (draw) every voter voting for another block.
func acceptAt(src *source, point base.Point, newblock util.Hash, draw bool) (base.ACCEPTVoteproof, error) {
	voters := src.prep.In.Voters
	env := src.env
	sfs := make([]base.BallotSignFact, len(voters))
	var maj base.BallotFact
	for i, v := range voters {
		nb := newblock
		if draw {
			nb = valuehash.NewSHA256([]byte(fmt.Sprintf("draw-%d", i)))
		}
		fact := isaac.NewACCEPTBallotFact(point, src.prep.Proposal.Fact().Hash(), nb, nil)
		if !draw {
			maj = fact
		}
		sf := isaac.NewACCEPTBallotSignFact(fact)
		if err := sf.NodeSign(v.A.Key(v.K), env.NetworkID, v.A.Addr); err != nil {
			return nil, err
		}
		sfs[i] = sf
	}
	vp := isaac.NewACCEPTVoteproof(point)
	if maj != nil {
		vp.SetMajority(maj)
	}
	vp.SetSignFacts(sfs).SetThreshold(env.Params.Threshold()).Finish()
	return vp, nil
}

// initAt builds a really signed INIT voteproof of the block's voters at another point.
func initAt(src *source, point base.Point) (base.INITVoteproof, error) {
	env := src.env
	prevblock := src.items.bm.Manifest().Previous()
	if point.Height() > src.height {
		prevblock = src.items.bm.Manifest().Hash()
	}
	fact := isaac.NewINITBallotFact(point, prevblock, src.prep.Proposal.Fact().Hash(), nil)
	voters := src.prep.In.Voters
	sfs := make([]base.BallotSignFact, len(voters))
	for i, v := range voters {
		sf := isaac.NewINITBallotSignFact(fact)
		if err := sf.NodeSign(v.A.Key(v.K), env.NetworkID, v.A.Addr); err != nil {
			return nil, err
		}
		sfs[i] = sf
	}
	vp := isaac.NewINITVoteproof(point)
	vp.SetMajority(fact).SetSignFacts(sfs).SetThreshold(env.Params.Threshold()).Finish()
	return vp, nil
}

// observe reads ImportValidity.tla's Facts() back from the files of a block.
func observe(readers *isaac.BlockItemReaders, height base.Height, networkID base.NetworkID) *Obs {
	o := &Obs{Stale: []string{}}
	bm, found, err := isaac.BlockItemReadersDecode[base.BlockMap](readers.Item, height, base.BlockItemMap, nil)
	if err != nil || !found {
		o.Err = fmt.Sprintf("blockmap: found=%v err=%v", found, err)
		return o
	}
	man := bm.Manifest()
	o.Signed = bm.IsValid(networkID) == nil
	var hasOpsTree, hasStsTree bool
	note := func(t base.BlockItemType, err error) {
		if err != nil && o.Err == "" {
			o.Err = t.String() + ": " + short(err)
		}
	}
	bm.Items(func(item base.BlockMapItem) bool {
		t := item.Type()
		// the bytes against the map's checksum
		cw := util.NewHashChecksumWriter(sha256.New())
		_, found, err := readers.Item(height, t, func(ir isaac.BlockItemReader) error {
			r, err := ir.Reader().Decompress()
			if err != nil {
				return err
			}
			_, err = io.Copy(cw, r)
			return err
		})
		switch {
		case err != nil || !found:
			note(t, errors.Errorf("read: found=%v err=%v", found, err))
		case cw.Checksum() != item.Checksum():
			o.Stale = append(o.Stale, t.String())
		}
		_ = cw.Close()
		switch t {
		case base.BlockItemProposal:
			pr, _, err := isaac.BlockItemReadersDecode[base.ProposalSignFact](readers.Item, height, t, nil)
			if err != nil || pr == nil {
				note(t, errors.Errorf("decode: %v", err))
				break
			}
			o.PropM = sameHash(pr.Fact().Hash(), man.Proposal())
			o.PropH = int64(pr.ProposalFact().Point().Height() - man.Height())
		case base.BlockItemOperationsTree:
			tr, _, err := isaac.BlockItemReadersDecode[fixedtree.Tree](readers.Item, height, t, nil)
			if err != nil {
				note(t, err)
				break
			}
			hasOpsTree = true
			o.OpsRoot = sameHash(tr.Root(), man.OperationsTree())
		case base.BlockItemStatesTree:
			tr, _, err := isaac.BlockItemReadersDecode[fixedtree.Tree](readers.Item, height, t, nil)
			if err != nil {
				note(t, err)
				break
			}
			hasStsTree = true
			o.StsRoot = sameHash(tr.Root(), man.StatesTree())
		case base.BlockItemVoteproofs:
			vps, _, err := isaac.BlockItemReadersDecode[[2]base.Voteproof](readers.Item, height, t, nil)
			if err != nil || vps[0] == nil || vps[1] == nil {
				note(t, errors.Errorf("decode: %v", err))
				break
			}
			o.IVP = [2]int64{int64(vps[0].Point().Height() - man.Height()), int64(vps[0].Point().Round())}
			o.AVP = [2]int64{int64(vps[1].Point().Height() - man.Height()), int64(vps[1].Point().Round())}
			nb := majorityNewBlock(vps[1])
			o.Maj = vps[1].Majority() != nil && nb != nil
			o.NBM = sameHash(nb, man.Hash())
		}
		return true
	})
	if !hasOpsTree {
		o.OpsRoot = man.OperationsTree() == nil
	}
	if !hasStsTree {
		o.StsRoot = man.StatesTree() == nil
	}
	sort.Strings(o.Stale)
	return o
}

func runCase(ws *c10.Worlds, srcs *sources, dir string, c CaseIn, o *CaseOut) {
	src, err := srcs.get(ws, c.Chain)
	if err != nil {
		o.Err = "source: " + err.Error()
		return
	}
	t := &tamperCtx{src: src, it: src.items.clone(), manifest: src.items.bm.Manifest()}
	t.ivpPoint = src.items.vps[0].Point().Point
	t.avpPoint = src.items.vps[1].Point().Point
	t.avpNB = t.manifest.Hash()
	for _, name := range c.Tampers {
		if err := apply(t, name); err != nil {
			o.Err = "tamper " + name + ": " + err.Error()
			return
		}
		if t.na != "" {
			o.Skipped = "tamper " + t.na + " does not apply to this block"
			return
		}
	}
	if len(c.Tampers) > 0 {
		vps, err := t.voteproofs()
		if err != nil {
			o.Err = "voteproofs: " + err.Error()
			return
		}
		t.it.vps = vps
	}
	var fromRoot string
	if c.Raw && len(c.Tampers) == 0 {
		fromRoot = src.env.Root
	} else {
		fromRoot = filepath.Join(dir, "from")
		bm, err := rewrite(fromRoot, src, t.it, t.manifest, t.dropOps, t.dropSts)
		if err != nil {
			o.Err = "re-write: " + err.Error()
			return
		}
		for _, f := range t.post {
			if bm, err = f(fromRoot, bm); err != nil {
				o.Err = "re-write (post): " + err.Error()
				return
			}
		}
	}
	encs, _ := c10.Encoders()
	from := isaac.NewBlockItemReaders(fromRoot, encs, nil)
	if err := from.Add(isaacblock.LocalFSWriterHint, isaacblock.NewDefaultItemReaderFunc(3)); err != nil {
		o.Err = err.Error()
		return
	}
	// (not closed: item jobs of a failed import may still be reading)

	if fm, found, _ := isaac.BlockItemReadersDecode[base.BlockMap](from.Item, src.height, base.BlockItemMap, nil); found {
		fm.Items(func(item base.BlockMapItem) bool {
			o.Items = append(o.Items, item.Type().String())
			return true
		})
	}
	o.NOps, o.NStates, o.HasSuf = len(t.it.ops), len(t.it.sts), sufIndex(t.it.sts) >= 0
	if t.dropOps {
		o.NOps = 0
	}
	if t.dropSts {
		o.NStates = 0
	}
	if err := isaacblock.IsValidBlockFromLocalFS(from.Item, src.height, src.env.NetworkID, nil, nil, nil); err != nil {
		o.SourceVal = short(err)
	}
	o.SourceObs = observe(from, src.height, src.env.NetworkID)

	// the importing node: synced up to the block below
	dest, err := src.w.Fork(filepath.Join(dir, "to"))
	if err != nil {
		o.Err = "fork: " + err.Error()
		return
	}

	var order []string
	for _, x := range c.Order { // only the items this map lists arrive
		for _, y := range o.Items {
			if x == y {
				order = append(order, x)
			}
		}
	}
	gate := newOrderGate(order)
	ierr := isaacblock.ImportBlocks(
		context.Background(), src.height, src.height, 333, dest.Readers,
		func(_ context.Context, height base.Height) (base.BlockMap, bool, error) {
			m, found, err := isaac.BlockItemReadersDecode[base.BlockMap](from.Item, height, base.BlockItemMap, nil)
			if err != nil || !found {
				return m, found, err
			}
			// as the syncer's block map function: a map is validated when it is fetched
			if err := m.IsValid(src.env.NetworkID); err != nil {
				return nil, false, err
			}
			return m, true, nil
		},
		func(_ context.Context, height base.Height, item base.BlockItemType,
			f func(r io.Reader, found bool, compressFormat string) error,
		) error {
			gate.enter(item.String())
			defer gate.leave(item.String())
			switch _, found, err := from.Item(height, item, func(ir isaac.BlockItemReader) error {
				return f(ir.Reader(), true, ir.Reader().Format)
			}); {
			case err != nil:
				return err
			case !found:
				return f(nil, false, "")
			default:
				return nil
			}
		},
		func(m base.BlockMap) (isaac.BlockImporter, error) { // as launch.newBlockImpoterFunc
			bwdb, err := dest.DB.NewBlockWriteDatabase(m.Manifest().Height())
			if err != nil {
				return nil, err
			}
			return isaacblock.NewBlockImporter(dest.Readers.Root(), encs, m, bwdb,
				func(context.Context) error { return dest.DB.MergeBlockWriteDatabase(bwdb) }, dest.NetworkID)
		},
		nil,
		func(context.Context) error { return dest.DB.MergeAllPermanent() },
	)
	if ierr != nil {
		o.ImportErr = short(ierr)
	}
	if m, found, err := dest.DB.BlockMap(src.height); err == nil && found && m != nil && ierr == nil {
		o.Stored = true
	}
	if !o.Stored {
		return
	}
	if err := isaacblock.IsValidBlockFromLocalFS(dest.Readers.Item, src.height, dest.NetworkID, nil, nil, nil); err != nil {
		o.Validator = short(err)
	}
	o.StoredObs = observe(dest.Readers, src.height, dest.NetworkID)
	dest.Prev = t.manifest
	if p, err := src.w.ProjectEnv(dest); err == nil {
		for _, m := range p.Members {
			o.DBMembers = append(o.DBMembers, m.N)
		}
		o.DBPolicy = p.Policy
	}
}

func short(err error) string {
	s := err.Error()
	if len(s) > 240 {
		s = s[:240]
	}
	return s
}

// orderGate hands the items to the importer one after the other in the given order.
type orderGate struct {
	mu    sync.Mutex
	order []string
	pos   int
	cond  *sync.Cond
	start time.Time
}

func newOrderGate(order []string) *orderGate {
	g := &orderGate{order: order, start: time.Now()}
	g.cond = sync.NewCond(&g.mu)
	return g
}

func (g *orderGate) index(item string) int {
	for i, s := range g.order {
		if s == item {
			return i
		}
	}
	return -1
}

func (g *orderGate) enter(item string) {
	if len(g.order) == 0 {
		return
	}
	k := g.index(item)
	if k < 0 {
		return
	}
	g.mu.Lock()
	defer g.mu.Unlock()
	for g.pos < k {
		// items that are not in this block's map never arrive: skip them after a while
		if time.Since(g.start) > 3*time.Second {
			return
		}
		waitCond(g.cond, 50*time.Millisecond)
	}
}

func (g *orderGate) leave(item string) {
	if len(g.order) == 0 {
		return
	}
	k := g.index(item)
	g.mu.Lock()
	if k >= g.pos {
		g.pos = k + 1
	}
	g.mu.Unlock()
	g.cond.Broadcast()
}

func waitCond(c *sync.Cond, d time.Duration) {
	t := time.AfterFunc(d, c.Broadcast)
	c.Wait()
	t.Stop()
}
