// Package c02 records the table n -> [Threshold(t).Threshold(n) for t = 51.0 .. 100.0]
// from the real base.Threshold (binding B: the table is validated by spec/TallyTable.tla).
package c02

import (
	"fmt"
	"math/rand"
	"os"
	"sort"
	"strconv"

	"github.com/spikeekips/mitum/base"

	"mitumverif/internal/h"
)

func init() { h.Register("C02", run) }

type row struct {
	N uint   `json:"n"`
	R []uint `json:"r"`
	V string `json:"v"` // how the thresholds were made: "value" (Go constant) or "text" (decoded, as a voteproof / params carry them)
}

// vh C02 record --from A --to B [--extra K] --out f   (extra: K seeded n in 1..100000 + multiples of 100)
func run(args []string) error {
	fl := h.Flags(args)
	from, _ := strconv.Atoi(fl["from"])
	to, _ := strconv.Atoi(fl["to"])
	extra, _ := strconv.Atoi(fl["extra"])
	seed, _ := strconv.ParseInt(os.Getenv("VERIF_SEED"), 10, 64)
	ns := map[uint]bool{}
	for n := from; n <= to; n++ {
		ns[uint(n)] = true
	}
	if extra > 0 {
		for n := 100; n <= 100000; n += 100 {
			ns[uint(n)] = true
		}
		rng := rand.New(rand.NewSource(seed))
		for i := 0; i < extra; i++ {
			ns[uint(1+rng.Intn(100000))] = true
		}
	}
	var list []uint
	for n := range ns {
		list = append(list, n)
	}
	sort.Slice(list, func(a, b int) bool { return list[a] < list[b] })
	// thresholds both ways a configuration can create them
	// "text": the way a threshold reaches a node in a voteproof or in the parameters (MarshalText of the
	// sender, UnmarshalText of the receiver); a decoder that moves the value changes the required count
	// just as the arithmetic would, so these thresholds get their own table rows.
	ths := make([]base.Threshold, 491)
	tths := make([]base.Threshold, 491)
	for k := 0; k < 491; k++ {
		t10 := 510 + k
		ths[k] = base.Threshold(float64(t10) / 10)
		if err := ths[k].IsValid(nil); err != nil {
			return err
		}
		b, err := ths[k].MarshalText()
		if err != nil {
			return err
		}
		if k%2 == 1 { // both spellings a text can have
			b = []byte(fmt.Sprintf("%d.%d", t10/10, t10%10))
		}
		if err := tths[k].UnmarshalText(b); err != nil {
			return fmt.Errorf("threshold %d: text %q does not decode: %w", t10, b, err)
		}
	}
	out, err := h.NewOut(fl["out"])
	if err != nil {
		return err
	}
	defer out.Close()
	for _, n := range list {
		r := row{N: n, R: make([]uint, 491), V: "value"}
		for k := range ths {
			r.R[k] = ths[k].Threshold(n)
		}
		out.Emit(r)
		if n%100 == 0 || n%10 == 3 || n <= 300 {
			r = row{N: n, R: make([]uint, 491), V: "text"}
			for k := range tths {
				r.R[k] = tths[k].Threshold(n)
			}
			out.Emit(r)
		}
	}
	return nil
}
