// Package c31 replays the cases of spec/Hint.tla (hint strings) and the behaviours of
// spec/HintSet.tla (CompatibleSet) on the real util/hint package (binding A).
package c31

import (
	"encoding/json"
	"fmt"
	"math/rand"
	"os"
	"regexp"
	"strconv"
	"strings"

	"github.com/spikeekips/mitum/util"
	"github.com/spikeekips/mitum/util/hint"

	"mitumverif/internal/h"
)

func init() { h.Register("C31", run) }

func run(args []string) error {
	if len(args) < 1 {
		return fmt.Errorf("usage: C31 strings|random|set ...")
	}
	fl := h.Flags(args[1:])
	out, err := h.NewOut(fl["out"])
	if err != nil {
		return err
	}
	defer out.Close()
	seed, _ := strconv.ParseInt(os.Getenv("VERIF_SEED"), 10, 64)
	if s, ok := fl["seed"]; ok {
		seed, _ = strconv.ParseInt(s, 10, 64)
	}
	switch args[0] {
	case "strings":
		subs, _ := strconv.Atoi(fl["subs"])
		return replayStrings(fl["in"], seed, subs, out)
	case "random":
		num, _ := strconv.Atoi(fl["num"])
		only := -1
		if s, ok := fl["only"]; ok {
			only, _ = strconv.Atoi(s)
		}
		return randomStrings(seed, num, only, out)
	case "set":
		return replaySet(fl["in"], out)
	}
	return fmt.Errorf("unknown mode %q", args[0])
}

// ---------------------------------------------------------------- hint strings

type strCase struct {
	K         string `json:"k"`
	T         string `json:"t"`
	V         string `json:"v"`
	S         string `json:"s"`
	Marker    bool   `json:"marker"`
	Readings  int    `json:"readings"`
	CodeT     string `json:"code_t"`
	CodeV     string `json:"code_v"`
	CodeErr   bool   `json:"code_err"`
	CodeValid bool   `json:"code_valid"`
	Valid     bool   `json:"valid"` // k = type
}

type strFail struct {
	Entry    string `json:"entry"` // ParseHint | ParseHint(cached) | EnsureParseHint | UnmarshalText | json | String | IsValid | Type.IsValid
	Kind     string `json:"kind"`  // roundtrip | valid-different | print | valid-refused | type-grammar | panic
	T        string `json:"t"`
	V        string `json:"v"`
	S        string `json:"s"`
	GotT     string `json:"got_t"`
	GotV     string `json:"got_v"`
	GotErr   string `json:"got_err,omitempty"`
	GotValid bool   `json:"got_valid"`
	Marker   bool   `json:"marker"`
}

type strRow struct {
	I       int       `json:"i"`
	Calls   int       `json:"calls"`
	Subs    int       `json:"subs"`
	Fails   []strFail `json:"fails,omitempty"`
	TransMM []string  `json:"transcription_mismatch,omitempty"`
	Case    *strCase  `json:"case,omitempty"` // random mode: the generated case
}

var reMarker = regexp.MustCompile(`-v\d`)

// substitution of the model alphabet by characters of the same class; 'v', '0' and the
// symbols stand for themselves
type subst map[byte]byte

func identity() subst { return subst{} }

func randomSubst(r *rand.Rand) subst {
	letters := "abcdefghijklmnopqrstuwxyz" // no 'v'
	return subst{'a': letters[r.Intn(len(letters))], '1': "123456789"[r.Intn(9)]}
}

func (m subst) apply(s string) string {
	b := []byte(s)
	for i := range b {
		if c, ok := m[b[i]]; ok {
			b[i] = c
		}
	}
	return string(b)
}

func checkHint(t, v, s string, marker bool, row *strRow) (gotT, gotV string, gotErr bool, ok bool) {
	fail := func(entry, kind string, gt, gv, ge string, gvalid bool) {
		row.Fails = append(row.Fails, strFail{Entry: entry, Kind: kind, T: t, V: v, S: s, GotT: gt, GotV: gv, GotErr: ge, GotValid: gvalid, Marker: marker})
	}
	var ver util.Version
	var verr error
	if p := h.Catch(func() { ver, verr = util.ParseVersion(v) }); p != "" || verr != nil || ver.String() != v {
		// the case generator must hand over printed versions
		row.TransMM = append(row.TransMM, fmt.Sprintf("version %q is not a printed version: %v %q %s", v, verr, ver.String(), p))
		return "", "", false, false
	}
	var ht hint.Hint
	if p := h.Catch(func() { ht = hint.NewHint(hint.Type(t), ver) }); p != "" {
		fail("NewHint", "panic", "", "", p, false)
		return "", "", false, false
	}
	row.Calls++
	if err := ht.IsValid(nil); err != nil {
		fail("IsValid", "valid-refused", "", "", err.Error(), false)
	}
	if ht.String() != s {
		fail("String", "print", "", ht.String(), "", false)
	}
	judge := func(entry string, p hint.Hint, err error) {
		row.Calls++
		gt, gv := p.Type().String(), p.Version().String()
		if err == nil && gt == t && gv == v {
			return
		}
		valid := err == nil && p.IsValid(nil) == nil
		kind := "roundtrip"
		if valid {
			kind = "valid-different"
		}
		es := ""
		if err != nil {
			es = err.Error()
		}
		fail(entry, kind, gt, gv, es, valid)
	}
	first := true
	for _, entry := range []string{"ParseHint", "ParseHint(cached)", "EnsureParseHint", "UnmarshalText", "json"} {
		var p hint.Hint
		var err error
		if pn := h.Catch(func() {
			switch entry {
			case "ParseHint", "ParseHint(cached)":
				p, err = hint.ParseHint(s)
			case "EnsureParseHint":
				p = hint.EnsureParseHint(s)
			case "UnmarshalText":
				err = p.UnmarshalText([]byte(s))
			case "json":
				var b []byte
				if b, err = json.Marshal(ht); err == nil {
					err = json.Unmarshal(b, &p)
				}
			}
		}); pn != "" {
			fail(entry, "panic", "", "", pn, false)
			continue
		}
		if first {
			gotT, gotV, gotErr, ok = p.Type().String(), p.Version().String(), err != nil, true
			first = false
		}
		judge(entry, p, err)
	}
	return gotT, gotV, gotErr, ok
}

func replayStrings(in string, seed int64, subs int, out *h.Out) error {
	i := 0
	return h.ReadNDJSON(in, func(line []byte) error {
		var c strCase
		if err := json.Unmarshal(line, &c); err != nil {
			return err
		}
		row := strRow{I: i}
		i++
		switch c.K {
		case "type":
			row.Calls++
			var err error
			if p := h.Catch(func() { err = hint.Type(c.S).IsValid(nil) }); p != "" {
				row.Fails = append(row.Fails, strFail{Entry: "Type.IsValid", Kind: "panic", S: c.S, GotErr: p})
			} else if (err == nil) != c.Valid {
				row.Fails = append(row.Fails, strFail{Entry: "Type.IsValid", Kind: "type-grammar", S: c.S, GotValid: err == nil})
			}
		case "hint":
			r := rand.New(rand.NewSource(seed*7919 + int64(row.I)))
			for k := 0; k <= subs; k++ {
				m := identity()
				if k > 0 {
					m = randomSubst(r)
				}
				row.Subs++
				gt, gv, ge, ok := checkHint(m.apply(c.T), m.apply(c.V), m.apply(c.S), c.Marker, &row)
				if ok && (gt != m.apply(c.CodeT) || gv != m.apply(c.CodeV) || ge != c.CodeErr) {
					row.TransMM = append(row.TransMM, fmt.Sprintf("%s: real (%q,%q,err=%v) transcription (%q,%q,err=%v)", m.apply(c.S), gt, gv, ge, m.apply(c.CodeT), m.apply(c.CodeV), c.CodeErr))
				}
			}
		default:
			return fmt.Errorf("unknown case kind %q", c.K)
		}
		out.Emit(row)
		return nil
	})
}

// random valid types up to 100 characters (some with "-v<digit>" inside) and random printed versions
func randomStrings(seed int64, num, only int, out *h.Out) error {
	const alnum = "abcdefghijklmnopqrstuvwxyz0123456789"
	const mid = alnum + "-_+"
	gen := func(i int) strRow {
		r := rand.New(rand.NewSource(seed*104729 + int64(i)))
		n := 2 + r.Intn(99)
		if r.Intn(3) == 0 {
			n = 2 + r.Intn(12)
		}
		b := make([]byte, n)
		for j := range b {
			if j == 0 || j == n-1 {
				b[j] = alnum[r.Intn(len(alnum))]
			} else {
				b[j] = mid[r.Intn(len(mid))]
			}
		}
		if n >= 5 && r.Intn(3) == 0 { // plant a marker
			p := 1 + r.Intn(n-4)
			copy(b[p:], "-v"+string("0123456789"[r.Intn(10)]))
		}
		t := string(b)
		idents := []string{"a", "rc1", "v2", "beta", "0", "7", "x-y", "alpha.1"}
		v := fmt.Sprintf("v%d.%d.%d", r.Intn(31), r.Intn(21), r.Intn(21))
		if r.Intn(2) == 0 {
			v += "-" + idents[r.Intn(len(idents))]
		}
		if r.Intn(3) == 0 {
			v += "+" + idents[r.Intn(len(idents))]
		}
		if len(v) > 20 {
			v = v[:strings.IndexAny(v, "-+")]
		}
		row := strRow{I: i, Subs: 1}
		c := &strCase{K: "hint", T: t, V: v, S: t + "-" + v, Marker: reMarker.MatchString(t)}
		row.Case = c
		if hint.Type(t).IsValid(nil) != nil {
			row.TransMM = append(row.TransMM, "generated type refused: "+t)
			return row
		}
		checkHint(c.T, c.V, c.S, c.Marker, &row)
		return row
	}
	if only >= 0 {
		out.Emit(gen(only))
		return nil
	}
	for i := 0; i < num; i++ {
		out.Emit(gen(i))
	}
	return nil
}

// ---------------------------------------------------------------- CompatibleSet

type call struct {
	Op    string `json:"op"`
	S     string `json:"s"`
	Found bool   `json:"found"`
	Val   int    `json:"val"`
	H     string `json:"h"`
	Err   bool   `json:"err"`
}

type setMismatch struct {
	Cache bool   `json:"cache"`
	At    int    `json:"at"` // 0-based index of the call
	Op    string `json:"op"`
	Got   string `json:"got"`
	Want  string `json:"want"`
}

type setRow struct {
	I     int           `json:"i"`
	Calls int           `json:"calls"`
	Mism  []setMismatch `json:"mism,omitempty"`
}

func splitHint(s string) (hint.Hint, error) {
	i := strings.Index(s, "-v")
	if i < 0 {
		return hint.Hint{}, fmt.Errorf("no version in %q", s)
	}
	v, err := util.ParseVersion(s[i+1:])
	if err != nil {
		return hint.Hint{}, err
	}
	return hint.NewHint(hint.Type(s[:i]), v), nil
}

func playSet(calls []call, size int, row *setRow) {
	st := hint.NewCompatibleSet[int](size)
	for i, c := range calls {
		var got, want string
		bad := false
		p := h.Catch(func() {
			row.Calls++
			switch c.Op {
			case "add":
				ht, err := splitHint(c.S)
				if err != nil {
					panic(err)
				}
				aerr := st.Add(ht, i+1)
				got, want = fmt.Sprintf("err=%v", aerr != nil), fmt.Sprintf("err=%v", c.Err)
				bad = (aerr != nil) != c.Err
			case "find":
				ht, err := splitHint(c.S)
				if err != nil {
					panic(err)
				}
				v, found := st.Find(ht)
				if !found {
					v = 0
				}
				got, want = fmt.Sprintf("found=%v val=%d", found, v), fmt.Sprintf("found=%v val=%d", c.Found, c.Val)
				bad = got != want
			case "findstr":
				ht, v, found, err := st.FindByString(c.S)
				switch {
				case c.Err: // not a hint: nothing may be found
					got, want = fmt.Sprintf("found=%v err=%v", found, err != nil), "found=false"
					bad = found
				default:
					hs := ""
					if !found {
						v = 0
					} else {
						hs = ht.String()
					}
					got = fmt.Sprintf("found=%v val=%d hint=%s", found, v, hs)
					want = fmt.Sprintf("found=%v val=%d hint=%s", c.Found, c.Val, c.H)
					bad = got != want // an error instead of "not found" is the same answer
					got += fmt.Sprintf(" err=%v", err != nil)
				}
			case "findtype":
				ht, v, found := st.FindBytType(hint.Type(c.S))
				hs := ""
				if !found {
					v = 0
				} else {
					hs = ht.String()
				}
				got, want = fmt.Sprintf("found=%v val=%d hint=%s", found, v, hs), fmt.Sprintf("found=%v val=%d hint=%s", c.Found, c.Val, c.H)
				bad = got != want
			case "findtypestr":
				ht, v, found, err := st.FindBytTypeString(c.S)
				switch {
				case c.Err:
					got, want = fmt.Sprintf("found=%v err=%v", found, err != nil), "found=false"
					bad = found
				default:
					hs := ""
					if !found {
						v = 0
					} else {
						hs = ht.String()
					}
					got = fmt.Sprintf("found=%v val=%d hint=%s", found, v, hs)
					want = fmt.Sprintf("found=%v val=%d hint=%s", c.Found, c.Val, c.H)
					bad = got != want // an error instead of "not found" is the same answer
					got += fmt.Sprintf(" err=%v", err != nil)
				}
			default:
				panic("unknown op " + c.Op)
			}
		})
		if p != "" {
			row.Mism = append(row.Mism, setMismatch{Cache: size > 0, At: i, Op: c.Op, Got: p, Want: "no panic"})
			return
		}
		if bad {
			row.Mism = append(row.Mism, setMismatch{Cache: size > 0, At: i, Op: c.Op, Got: got, Want: want})
			return // later replies depend on the state that already differs
		}
	}
}

func replaySet(in string, out *h.Out) error {
	i := 0
	return h.ReadNDJSON(in, func(line []byte) error {
		var calls []call
		if err := json.Unmarshal(line, &calls); err != nil {
			return err
		}
		row := setRow{I: i}
		i++
		playSet(calls, 0, &row)
		playSet(calls, 8, &row)
		out.Emit(row)
		return nil
	})
}
