// Package c18 replays the terminal states of the `Build` part of spec/SuffrageChain.tla
// into the real isaac.SuffrageStateBuilder (binding A). The remote is played by callback
// functions that serve real suffrage proofs (real SuffrageNodesStateValue states linked by
// hash, real fixed trees, real signed block maps) according to the scenario: the main chain
// P(x), a chain forked from it G(f, x), a malformed proof Z (suffrage height 0 above the
// genesis block), not-found and error answers. The batch limit is lowered with the
// repository's test setter. A panic inside Build (also inside its job goroutines, which
// kills the process: see --seq) is a violation.
package c18

import (
	"context"
	"encoding/json"
	"fmt"
	"math/rand"
	"os"
	"strconv"
	"sync"
	"time"

	"github.com/pkg/errors"
	"github.com/spikeekips/mitum/base"
	"github.com/spikeekips/mitum/isaac"
	isaacblock "github.com/spikeekips/mitum/isaac/block"
	"github.com/spikeekips/mitum/util"
	"github.com/spikeekips/mitum/util/fixedtree"
	"github.com/spikeekips/mitum/util/valuehash"

	"mitumverif/internal/h"
)

func init() { h.Register("C18", run) }

type label struct {
	C string `json:"c"` // P | G | Z | nil | notfound | error
	X int    `json:"x"`
}

type scen struct {
	Kind string `json:"kind"`
	A    int    `json:"a"`
	B    int    `json:"b"`
}

type kase struct {
	Idx        int     `json:"idx"`
	K          int     `json:"k"`
	Gap        int     `json:"gap"`
	Local      int     `json:"local"`
	Limit      int64   `json:"limit"`
	Scen       scen    `json:"scen"`
	Last       label   `json:"last"`
	LastSigned bool    `json:"lastsigned"`
	Resp       []label `json:"resp"` // answer to getSuffrageProof(h), h = index
	ForkAt     int     `json:"forkat"`
}

type result struct {
	Idx        int     `json:"idx"`
	Ret        string  `json:"ret"` // ok | err | panic
	Err        string  `json:"err,omitempty"`
	Panic      string  `json:"panic,omitempty"`
	Out        []label `json:"out"`
	Requested  []int   `json:"requested"`
	OutOfRange []int   `json:"out_of_range_requests,omitempty"`
}

var (
	networkID = base.NetworkID([]byte("c18 network id"))
	local     = isaac.NewLocalNode(base.NewMPrivatekey(), base.NewStringAddress("c18-local"))
	nodesA    = mkNodes("a", 3)
	nodesB    = mkNodes("b", 2)
)

func mkNodes(p string, n int) []base.Node {
	ns := make([]base.Node, n)
	for i := range ns {
		ns[i] = isaac.NewNode(base.NewMPrivatekey().Publickey(), base.NewStringAddress(fmt.Sprintf("c18-%s%02d", p, i)))
	}
	return ns
}

func sufState(bh, sh base.Height, nodes []base.Node, prev util.Hash) base.State {
	sn := make([]base.SuffrageNodeStateValue, len(nodes))
	for i := range nodes {
		sn[i] = isaac.NewSuffrageNodeStateValue(nodes[i], bh)
	}
	return base.NewBaseState(bh, isaac.SuffrageStateKey, isaac.NewSuffrageNodesStateValue(sh, sn), prev,
		[]util.Hash{valuehash.RandomSHA256()})
}

// a real proof for st: block with three states (st in the middle), manifest carrying the
// states tree root, map signed by the local node.
func mkProof(st base.State, sufhash util.Hash, nid base.NetworkID) (base.SuffrageProof, error) {
	keys := []string{valuehash.RandomSHA256().String(), st.Hash().String(), valuehash.RandomSHA256().String()}
	w, err := fixedtree.NewWriter(base.StateFixedtreeHint, uint64(len(keys)))
	if err != nil {
		return nil, err
	}
	for i := range keys {
		if err := w.Add(uint64(i), fixedtree.NewBaseNode(keys[i])); err != nil {
			return nil, err
		}
	}
	if err := w.Write(func(uint64, fixedtree.Node) error { return nil }); err != nil {
		return nil, err
	}
	tree, err := w.Tree()
	if err != nil {
		return nil, err
	}
	path, err := tree.Proof(st.Hash().String())
	if err != nil {
		return nil, err
	}
	m := isaacblock.NewBlockMap()
	for _, t := range []base.BlockItemType{base.BlockItemProposal, base.BlockItemOperations, base.BlockItemOperationsTree,
		base.BlockItemStates, base.BlockItemStatesTree, base.BlockItemVoteproofs} {
		if err := m.SetItem(isaacblock.NewBlockMapItem(t, util.UUID().String())); err != nil {
			return nil, err
		}
	}
	var prevBlock util.Hash
	if st.Height() != base.GenesisHeight {
		prevBlock = valuehash.RandomSHA256()
	}
	m.SetManifest(isaac.NewManifest(st.Height(), prevBlock, valuehash.RandomSHA256(), valuehash.RandomSHA256(),
		tree.Root(), sufhash, time.Now().UTC()))
	if err := m.Sign(local.Address(), local.Privatekey(), nid); err != nil {
		return nil, err
	}
	return isaacblock.NewSuffrageProof(m, st, path), nil
}

type world struct {
	k, gap int
	main   []base.State
	fork   map[int]base.State // G(forkat, x) by x
	z      base.State
	proofs map[label]base.SuffrageProof
	byhash map[string]label
}

func newWorld(k kase) (*world, error) {
	w := &world{k: k.K, gap: k.Gap, fork: map[int]base.State{}, proofs: map[label]base.SuffrageProof{}, byhash: map[string]label{}}
	bh := func(x int) base.Height { return base.Height(int64(x * k.Gap)) }
	var prev util.Hash
	add := func(l label, st base.State, sufhash util.Hash) error {
		p, err := mkProof(st, sufhash, networkID)
		if err != nil {
			return err
		}
		w.proofs[l] = p
		w.byhash[st.Hash().String()] = l
		return nil
	}
	for x := 0; x <= k.K; x++ {
		st := sufState(bh(x), base.Height(int64(x)), nodesA, prev)
		w.main = append(w.main, st)
		if err := add(label{"P", x}, st, prev); err != nil {
			return nil, err
		}
		prev = st.Hash()
	}
	f := k.ForkAt
	if k.Scen.Kind == "fork-one" {
		f = k.Scen.A
	}
	if f >= 0 {
		var gprev util.Hash
		if f > 0 {
			gprev = w.main[f-1].Hash()
		}
		last := f
		if k.Scen.Kind != "fork-one" {
			last = k.K
		}
		for x := f; x <= last; x++ {
			st := sufState(bh(x), base.Height(int64(x)), nodesB, gprev)
			w.fork[x] = st
			if err := add(label{"G", x}, st, gprev); err != nil {
				return nil, err
			}
			gprev = st.Hash()
		}
	}
	w.z = sufState(bh(1), base.GenesisHeight, nodesB, nil)
	if err := add(label{"Z", 0}, w.z, nil); err != nil {
		return nil, err
	}
	return w, nil
}

func (w *world) stateOf(l label) base.State {
	switch l.C {
	case "P":
		return w.main[l.X]
	case "G":
		return w.fork[l.X]
	default:
		return w.z
	}
}

var errInjected = errors.New("injected remote error")

func one(k kase, rng *rand.Rand) (res result, err error) {
	res.Idx = k.Idx
	res.Out = []label{}
	res.Requested = []int{}
	w, err := newWorld(k)
	if err != nil {
		return res, err
	}
	lastproof, found := w.proofs[k.Last]
	if !found {
		return res, fmt.Errorf("no proof for last label %+v", k.Last)
	}
	if !k.LastSigned {
		if lastproof, err = mkProof(w.stateOf(k.Last), nil, base.NetworkID([]byte("another network"))); err != nil {
			return res, err
		}
	}
	var localstate base.State
	if k.Local >= 0 {
		localstate = w.main[k.Local]
	}
	jitter := make([]time.Duration, len(k.Resp)+1)
	for i := range jitter {
		jitter[i] = time.Duration(rng.Intn(300)) * time.Microsecond
	}
	var mu sync.Mutex
	b := isaac.NewSuffrageStateBuilder(networkID,
		func(context.Context) (base.Height, base.SuffrageProof, bool, error) {
			return lastproof.Map().Manifest().Height(), lastproof, true, nil
		},
		func(_ context.Context, height base.Height) (base.SuffrageProof, bool, error) {
			hh := int(height.Int64())
			mu.Lock()
			res.Requested = append(res.Requested, hh)
			if hh < 0 || hh >= len(k.Resp) {
				res.OutOfRange = append(res.OutOfRange, hh)
			}
			mu.Unlock()
			if hh < 0 || hh >= len(k.Resp) {
				return nil, false, nil
			}
			time.Sleep(jitter[hh]) // vary the order in which the answers reach prove()
			switch l := k.Resp[hh]; l.C {
			case "notfound":
				return nil, false, nil
			case "error":
				return nil, false, errInjected
			default:
				p, found := w.proofs[l]
				if !found {
					return nil, false, fmt.Errorf("driver: no proof for label %+v", l)
				}
				return p, true, nil
			}
		},
		func(context.Context) (base.State, bool, error) { return nil, false, nil },
	)
	b.SetBatchLimit(k.Limit)

	var proofs []base.SuffrageProof
	var berr error
	done := make(chan struct{})
	go func() {
		defer close(done)
		res.Panic = h.Catch(func() { _, proofs, _, berr = b.Build(context.Background(), localstate) })
	}()
	select {
	case <-done:
	case <-time.After(60 * time.Second):
		return res, fmt.Errorf("Build did not return within 60s for %+v", k)
	}
	switch {
	case res.Panic != "":
		res.Ret = "panic"
	case berr != nil:
		res.Ret, res.Err = "err", berr.Error()
	default:
		res.Ret = "ok"
		for i := range proofs {
			if proofs[i] == nil {
				res.Out = append(res.Out, label{"nil", -1})
				continue
			}
			l, found := w.byhash[proofs[i].State().Hash().String()]
			if !found {
				l = label{"unknown", -1}
			}
			res.Out = append(res.Out, l)
		}
	}
	return res, nil
}

func run(args []string) error {
	if len(args) < 1 || args[0] != "replay" {
		return fmt.Errorf("usage: C18 replay --in cases.ndjson --out res.ndjson [--seq 1 --start N]")
	}
	fl := h.Flags(args[1:])
	seed, _ := strconv.ParseInt(os.Getenv("VERIF_SEED"), 10, 64)
	var cases []kase
	if err := h.ReadNDJSON(fl["in"], func(line []byte) error {
		var k kase
		if err := json.Unmarshal(line, &k); err != nil {
			return err
		}
		cases = append(cases, k)
		return nil
	}); err != nil {
		return err
	}
	start, _ := strconv.Atoi(fl["start"])
	if fl["only"] != "" {
		// one case in its own process; after Build returned, wait: job goroutines that Build left
		// behind (BatchWork returns on the first error) may still panic, and that must be
		// attributed to this case and not to the next one.
		n, _ := strconv.Atoi(fl["only"])
		if n < 0 || n >= len(cases) {
			return fmt.Errorf("no case %d", n)
		}
		r, err := one(cases[n], rand.New(rand.NewSource(seed*1000003+int64(n))))
		if err != nil {
			return err
		}
		time.Sleep(400 * time.Millisecond)
		b, _ := json.Marshal(r)
		return os.WriteFile(fl["out"], append(b, '\n'), 0o644)
	}
	// results are written one by one and unbuffered: when a job goroutine of Build panics the
	// process dies and the first case without a result is the one that crashed it.
	fd, err := os.OpenFile(fl["out"], os.O_CREATE|os.O_WRONLY|os.O_TRUNC, 0o644)
	if err != nil {
		return err
	}
	defer fd.Close()
	for i := start; i < len(cases); i++ {
		r, err := one(cases[i], rand.New(rand.NewSource(seed*1000003+int64(i))))
		if err != nil {
			return err
		}
		b, _ := json.Marshal(r)
		if _, err := fd.Write(append(b, '\n')); err != nil {
			return err
		}
	}
	time.Sleep(300 * time.Millisecond) // let goroutines left behind by the last cases show a late panic
	return nil
}
