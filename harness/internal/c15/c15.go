// Package c15 replays the cases enumerated by TLC from spec/Import.tla into the real
// isaacblock.ImportBlocks (binding A). The importers are recording stubs
// (isaacblock.DummyBlockImporter with closures): what is under test is ImportBlocks /
// saveImporters / util.BatchWork, i.e. which importer is saved, merged, cancelled and
// when, for every (count, batch limit) and every single fault of the environment.
package c15

import (
	"context"
	"encoding/json"
	"fmt"
	"io"
	"os"
	"sort"
	"strconv"
	"sync"
	"time"

	"github.com/pkg/errors"
	"github.com/spikeekips/mitum/base"
	"github.com/spikeekips/mitum/isaac"
	isaacblock "github.com/spikeekips/mitum/isaac/block"
	"github.com/spikeekips/mitum/util/valuehash"

	"mitumverif/internal/h"
)

func init() { h.Register("C15", run) }

type fault struct {
	Kind string `json:"kind"`
	At   int64  `json:"at"`
}

type kase struct {
	I     int   `json:"i"`
	From  int64 `json:"from"`
	Count int64 `json:"count"`
	Limit int64 `json:"limit"`
	Fault fault `json:"fault"`
}

type result struct {
	I               int     `json:"i"`
	OK              bool    `json:"ok"`              // ImportBlocks returned nil
	Err             string  `json:"err,omitempty"`   // its error
	Panic           string  `json:"panic,omitempty"` // it panicked
	Stored          []int64 `json:"stored"`          // Save returned nil and no CancelImport afterwards
	Merged          []int64 `json:"merged"`          // heights in the order their deferred merge returned nil
	Perm            []int64 `json:"perm"`            // heights covered by a successful merge-all call
	Cancelled       []int64 `json:"cancelled"`
	Twice           []int64 `json:"twice"`             // saved more than once
	SaveAfterCancel []int64 `json:"save_after_cancel"` // Save returned after CancelImport of the same importer (error path race)
	Created         int     `json:"created"`           // importers constructed
	NMergeAll       int     `json:"nmergeall"`
}

type recorder struct {
	mu        sync.Mutex
	saved     map[int64]int
	cancelled map[int64]bool
	merged    []int64
	sac       []int64
	perm      map[int64]bool
	created   int
	nmergeall int
}

var errInjected = errors.New("injected fault")

func one(k kase) result {
	rec := &recorder{saved: map[int64]int{}, cancelled: map[int64]bool{}, perm: map[int64]bool{}}
	is := func(kind string, hh int64) bool { return k.Fault.Kind == kind && k.Fault.At == hh }

	blockMapf := func(_ context.Context, height base.Height) (base.BlockMap, bool, error) {
		hh := height.Int64()
		switch {
		case is("map-notfound", hh):
			return nil, false, nil
		case is("map-error", hh):
			return nil, false, errInjected
		}
		m := isaacblock.NewBlockMap()
		m.SetManifest(base.NewDummyManifest(height, valuehash.RandomSHA256()))
		return m, true, nil
	}
	blockItemf := func(context.Context, base.Height, base.BlockItemType, func(io.Reader, bool, string) error) error {
		return errors.Errorf("block maps of this driver have no items")
	}
	newImporter := func(m base.BlockMap) (isaac.BlockImporter, error) {
		hh := m.Manifest().Height().Int64()
		if is("new-importer", hh) {
			return nil, errInjected
		}
		rec.mu.Lock()
		rec.created++
		rec.mu.Unlock()
		return &isaacblock.DummyBlockImporter{
			Savef: func(context.Context) (func(context.Context) error, error) {
				if is("save", hh) {
					return nil, errInjected
				}
				rec.mu.Lock()
				rec.saved[hh]++
				if rec.cancelled[hh] {
					rec.sac = append(rec.sac, hh)
				}
				rec.mu.Unlock()
				return func(context.Context) error {
					if is("deferred", hh) {
						return errInjected
					}
					rec.mu.Lock()
					rec.merged = append(rec.merged, hh)
					rec.mu.Unlock()
					return nil
				}, nil
			},
			CancelImportf: func(context.Context) error {
				rec.mu.Lock()
				rec.cancelled[hh] = true
				rec.mu.Unlock()
				return nil
			},
		}, nil
	}
	mergeAll := func(context.Context) error {
		rec.mu.Lock()
		defer rec.mu.Unlock()
		rec.nmergeall++
		var fresh []int64
		for _, hh := range rec.merged {
			if !rec.perm[hh] {
				fresh = append(fresh, hh)
			}
		}
		for _, hh := range fresh {
			if is("merge", hh) {
				return errInjected
			}
		}
		for _, hh := range fresh {
			rec.perm[hh] = true
		}
		return nil
	}

	res := result{I: k.I}
	done := make(chan struct{})
	go func() {
		defer close(done)
		var err error
		res.Panic = h.Catch(func() {
			err = isaacblock.ImportBlocks(context.Background(),
				base.Height(k.From), base.Height(k.From+k.Count-1), k.Limit,
				nil, blockMapf, blockItemf, newImporter, nil, mergeAll)
		})
		switch {
		case res.Panic != "":
		case err != nil:
			res.Err = err.Error()
		default:
			res.OK = true
		}
	}()
	select {
	case <-done:
	case <-time.After(60 * time.Second):
		res.Err = "HANG"
		return res
	}

	rec.mu.Lock()
	defer rec.mu.Unlock()
	for hh, n := range rec.saved {
		if !rec.cancelled[hh] {
			res.Stored = append(res.Stored, hh)
		}
		if n > 1 {
			res.Twice = append(res.Twice, hh)
		}
	}
	for hh := range rec.cancelled {
		res.Cancelled = append(res.Cancelled, hh)
	}
	for hh := range rec.perm {
		res.Perm = append(res.Perm, hh)
	}
	res.Merged = append([]int64{}, rec.merged...)
	res.SaveAfterCancel = append([]int64{}, rec.sac...)
	for _, s := range []*[]int64{&res.Stored, &res.Cancelled, &res.Perm, &res.Twice} {
		if *s == nil {
			*s = []int64{}
		}
		sort.Slice(*s, func(a, b int) bool { return (*s)[a] < (*s)[b] })
	}
	res.Created, res.NMergeAll = rec.created, rec.nmergeall
	return res
}

func run(args []string) error {
	if len(args) >= 1 && args[0] == "real" {
		return runReal(h.Flags(args[1:]))
	}
	if len(args) < 1 || args[0] != "replay" {
		return fmt.Errorf("usage: C15 replay|real --in cases.ndjson --out res.ndjson")
	}
	fl := h.Flags(args[1:])
	var cases []kase
	if err := h.ReadNDJSON(fl["in"], func(line []byte) error {
		var k kase
		if err := json.Unmarshal(line, &k); err != nil {
			return err
		}
		cases = append(cases, k)
		return nil
	}); err != nil {
		return err
	}
	if fl["seq"] != "" {
		// crash isolation: a panic inside a job goroutine of the code under test cannot be
		// recovered and kills the process; run one case at a time, write each result at once,
		// so that the first case without a result is the one that crashed.
		start, _ := strconv.Atoi(fl["start"])
		fd, err := os.OpenFile(fl["out"], os.O_CREATE|os.O_WRONLY|os.O_TRUNC, 0o644)
		if err != nil {
			return err
		}
		defer fd.Close()
		for i := start; i < len(cases); i++ {
			r := one(cases[i])
			if r.Err == "HANG" {
				return fmt.Errorf("case %d (%+v) did not return within 60s", i, cases[i])
			}
			b, _ := json.Marshal(r)
			if _, err := fd.Write(append(b, '\n')); err != nil {
				return err
			}
		}
		return nil
	}
	out, err := h.NewOut(fl["out"])
	if err != nil {
		return err
	}
	defer out.Close()

	results := make([]result, len(cases))
	var wg sync.WaitGroup
	sem := make(chan struct{}, 8)
	for i := range cases {
		wg.Add(1)
		sem <- struct{}{}
		go func(i int) {
			defer wg.Done()
			defer func() { <-sem }()
			results[i] = one(cases[i])
		}(i)
	}
	wg.Wait()
	for i := range results {
		if results[i].Err == "HANG" {
			return fmt.Errorf("case %d (%+v) did not return within 60s", i, cases[i])
		}
		out.Emit(results[i])
	}
	return nil
}
