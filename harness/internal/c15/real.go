package c15

// "real" mode (thorough tier, and a small grid in the quick tier): the same question as the
// stub replay, asked of the real storage. Real blocks (operations + tree, proposal, states +
// tree, INIT/ACCEPT voteproofs, manifest, signed map) are written with the real
// isaacblock.LocalFSWriter; ImportBlocks imports a range of them with the real
// isaacblock.BlockImporter into a real isaacdatabase.Center over leveldb mem storages; the
// verdict is read from Center.LastBlockMap()/BlockMap(h) and from the imported local fs.

import (
	"context"
	"encoding/json"
	"fmt"
	"io"
	"os"
	"time"

	"github.com/spikeekips/mitum/base"
	"github.com/spikeekips/mitum/isaac"
	isaacblock "github.com/spikeekips/mitum/isaac/block"
	isaacdatabase "github.com/spikeekips/mitum/isaac/database"
	leveldbstorage "github.com/spikeekips/mitum/storage/leveldb"
	"github.com/spikeekips/mitum/util"
	"github.com/spikeekips/mitum/util/encoder"
	jsonenc "github.com/spikeekips/mitum/util/encoder/json"
	"github.com/spikeekips/mitum/util/fixedtree"
	"github.com/spikeekips/mitum/util/valuehash"

	"mitumverif/internal/h"
)

type realCase struct {
	I     int   `json:"i"`
	From  int64 `json:"from"`
	Count int64 `json:"count"`
	Limit int64 `json:"limit"`
}

type realResult struct {
	I          int     `json:"i"`
	OK         bool    `json:"ok"`
	Err        string  `json:"err,omitempty"`
	Panic      string  `json:"panic,omitempty"`
	LastHeight int64   `json:"last_height"` // Center.LastBlockMap().Manifest().Height(), -1 = none
	Missing    []int64 `json:"missing"`     // heights of from..to without BlockMap(h) in the database
	MissingFS  []int64 `json:"missing_fs"`  // heights of from..to without a block map in the imported local fs
	LastVPs    bool    `json:"last_voteproofs_set"`
	Setup      string  `json:"setup_error,omitempty"`
}

type env struct {
	enc       *jsonenc.Encoder
	encs      *encoder.Encoders
	local     base.LocalNode
	networkID base.NetworkID
	srcRoot   string
	readers   *isaac.BlockItemReaders
}

func newEnv() (*env, error) {
	e := &env{networkID: base.NetworkID([]byte("c15 network id"))}
	e.enc = jsonenc.NewEncoder()
	e.encs = encoder.NewEncoders(e.enc, e.enc)
	e.local = isaac.NewLocalNode(base.NewMPrivatekey(), base.NewStringAddress("c15-local"))
	for _, d := range []encoder.DecodeDetail{
		{Hint: base.MPublickeyHint, Instance: &base.MPublickey{}},
		{Hint: base.StringAddressHint, Instance: base.StringAddress{}},
		{Hint: base.DummyStateValueHint, Instance: base.DummyStateValue{}},
		{Hint: base.BaseStateHint, Instance: base.BaseState{}},
		{Hint: isaac.ProposalFactHint, Instance: isaac.ProposalFact{}},
		{Hint: isaac.ProposalSignFactHint, Instance: isaac.ProposalSignFact{}},
		{Hint: isaacblock.BlockMapHint, Instance: isaacblock.BlockMap{}},
		{Hint: isaac.INITVoteproofHint, Instance: isaac.INITVoteproof{}},
		{Hint: isaac.ACCEPTVoteproofHint, Instance: isaac.ACCEPTVoteproof{}},
		{Hint: isaac.DummyOperationFactHint, Instance: isaac.DummyOperationFact{}},
		{Hint: isaac.DummyOperationHint, Instance: isaac.DummyOperation{}},
		{Hint: base.OperationFixedtreeHint, Instance: base.OperationFixedtreeNode{}},
		{Hint: base.StateFixedtreeHint, Instance: fixedtree.BaseNode{}},
		{Hint: isaac.INITBallotFactHint, Instance: isaac.INITBallotFact{}},
		{Hint: isaac.ACCEPTBallotFactHint, Instance: isaac.ACCEPTBallotFact{}},
		{Hint: isaac.INITBallotSignFactHint, Instance: isaac.INITBallotSignFact{}},
		{Hint: isaac.ACCEPTBallotSignFactHint, Instance: isaac.ACCEPTBallotSignFact{}},
		{Hint: isaac.ManifestHint, Instance: isaac.Manifest{}},
		{Hint: isaac.BlockItemFileHint, Instance: isaac.BlockItemFile{}},
		{Hint: isaac.BlockItemFilesHint, Instance: isaac.BlockItemFiles{}},
	} {
		if err := e.encs.AddDetail(d); err != nil {
			return nil, err
		}
	}
	var err error
	if e.srcRoot, err = os.MkdirTemp("", "c15-src"); err != nil {
		return nil, err
	}
	e.readers = e.newReaders(e.srcRoot)
	return e, nil
}

func (e *env) newReaders(root string) *isaac.BlockItemReaders {
	r := isaac.NewBlockItemReaders(root, e.encs, nil)
	_ = r.Add(isaacblock.LocalFSWriterHint, isaacblock.NewDefaultItemReaderFunc(3))
	return r
}

func (e *env) voteproofs(point base.Point, prev, proposal, newblock util.Hash) (base.INITVoteproof, base.ACCEPTVoteproof, error) {
	ifact := isaac.NewINITBallotFact(point, prev, proposal, nil)
	isf := isaac.NewINITBallotSignFact(ifact)
	if err := isf.NodeSign(e.local.Privatekey(), e.networkID, e.local.Address()); err != nil {
		return nil, nil, err
	}
	ivp := isaac.NewINITVoteproof(point)
	ivp.SetMajority(ifact).SetSignFacts([]base.BallotSignFact{isf}).SetThreshold(base.Threshold(100)).Finish()

	afact := isaac.NewACCEPTBallotFact(point, proposal, newblock, nil)
	asf := isaac.NewACCEPTBallotSignFact(afact)
	if err := asf.NodeSign(e.local.Privatekey(), e.networkID, e.local.Address()); err != nil {
		return nil, nil, err
	}
	avp := isaac.NewACCEPTVoteproof(point)
	avp.SetMajority(afact).SetSignFacts([]base.BallotSignFact{asf}).SetThreshold(base.Threshold(100)).Finish()
	return ivp, avp, nil
}

// genBlocks writes blocks 0..n-1, chained by their manifest hashes, under srcRoot.
func (e *env) genBlocks(n int64) error {
	ctx := context.Background()
	var prev util.Hash
	for hgt := int64(0); hgt < n; hgt++ {
		height := base.Height(hgt)
		point := base.NewPoint(height, 0)
		fs, err := isaacblock.NewLocalFSWriter(e.srcRoot, height, e.enc, e.enc, e.local, e.networkID)
		if err != nil {
			return err
		}
		const nops = 2
		ophs := make([][2]util.Hash, nops)
		opsw, err := fixedtree.NewWriter(base.OperationFixedtreeHint, nops)
		if err != nil {
			return err
		}
		for i := 0; i < nops; i++ {
			fact := isaac.NewDummyOperationFact(util.UUID().Bytes(), valuehash.RandomSHA256())
			op, err := isaac.NewDummyOperation(fact, e.local.Privatekey(), e.networkID)
			if err != nil {
				return err
			}
			ophs[i] = [2]util.Hash{op.Hash(), op.Fact().Hash()}
			if err := fs.SetOperation(ctx, nops, uint64(i), op); err != nil {
				return err
			}
			if err := opsw.Add(uint64(i), base.NewInStateOperationFixedtreeNode(op.Fact().Hash(), "")); err != nil {
				return err
			}
		}
		opstree, err := opsw.Tree()
		if err != nil {
			return err
		}
		if err := fs.SetOperationsTree(ctx, opstree); err != nil {
			return err
		}
		pr := isaac.NewProposalSignFact(isaac.NewProposalFact(point, e.local.Address(), prev, ophs))
		if err := pr.Sign(e.local.Privatekey(), e.networkID); err != nil {
			return err
		}
		if err := fs.SetProposal(ctx, pr); err != nil {
			return err
		}
		const nsts = 2
		stsw, err := fixedtree.NewWriter(base.StateFixedtreeHint, nsts)
		if err != nil {
			return err
		}
		for i := 0; i < nsts; i++ {
			key := fmt.Sprintf("c15-state-%d-%d", hgt, i)
			st := base.NewBaseState(height, key, base.NewDummyStateValue(util.UUID().String()), valuehash.RandomSHA256(), nil)
			if err := stsw.Add(uint64(i), fixedtree.NewBaseNode(key)); err != nil {
				return err
			}
			if err := fs.SetState(ctx, nsts, uint64(i), st); err != nil {
				return err
			}
		}
		ststree, err := stsw.Tree()
		if err != nil {
			return err
		}
		if err := fs.SetStatesTree(ctx, ststree); err != nil {
			return err
		}
		manifest := isaac.NewManifest(height, prev, pr.Fact().Hash(), opstree.Root(), ststree.Root(), nil, time.Now().UTC())
		ivp, avp, err := e.voteproofs(point, prev, pr.Fact().Hash(), manifest.Hash())
		if err != nil {
			return err
		}
		if err := fs.SetINITVoteproof(ctx, ivp); err != nil {
			return err
		}
		if err := fs.SetACCEPTVoteproof(ctx, avp); err != nil {
			return err
		}
		if err := fs.SetManifest(ctx, manifest); err != nil {
			return err
		}
		if _, err := fs.Save(ctx); err != nil {
			return fmt.Errorf("save block %d: %w", hgt, err)
		}
		prev = manifest.Hash()
	}
	return nil
}

func (e *env) importRange(db *isaacdatabase.Center, root string, from, to base.Height, limit int64, lastvps *bool) error {
	return isaacblock.ImportBlocks(context.Background(), from, to, limit, e.readers,
		func(_ context.Context, height base.Height) (base.BlockMap, bool, error) {
			m, found, err := isaac.BlockItemReadersDecode[base.BlockMap](e.readers.Item, height, base.BlockItemMap, nil)
			if err != nil {
				return nil, false, err
			}
			return m, found, nil
		},
		func(_ context.Context, height base.Height, item base.BlockItemType, f func(io.Reader, bool, string) error) error {
			switch _, found, err := e.readers.Item(height, item, func(ir isaac.BlockItemReader) error {
				return f(ir.Reader(), true, ir.Reader().Format)
			}); {
			case err != nil:
				return err
			case !found:
				return f(nil, false, "")
			default:
				return nil
			}
		},
		func(m base.BlockMap) (isaac.BlockImporter, error) {
			bwdb, err := db.NewBlockWriteDatabase(m.Manifest().Height())
			if err != nil {
				return nil, err
			}
			return isaacblock.NewBlockImporter(root, e.encs, m, bwdb,
				func(context.Context) error { return db.MergeBlockWriteDatabase(bwdb) }, e.networkID)
		},
		func(_ [2]base.Voteproof, found bool) error {
			*lastvps = found
			return nil
		},
		func(context.Context) error { return db.MergeAllPermanent() },
	)
}

func (e *env) one(k realCase) (res realResult) {
	res = realResult{I: k.I, LastHeight: -1, Missing: []int64{}, MissingFS: []int64{}}
	root, err := os.MkdirTemp("", "c15-import")
	if err != nil {
		res.Setup = err.Error()
		return res
	}
	defer os.RemoveAll(root)
	st := leveldbstorage.NewMemStorage()
	perm, err := isaacdatabase.NewLeveldbPermanent(leveldbstorage.NewMemStorage(), e.encs, e.enc, 1)
	if err != nil {
		res.Setup = err.Error()
		return res
	}
	db, err := isaacdatabase.NewCenter(st, e.encs, e.enc, perm,
		func(height base.Height) (isaac.BlockWriteDatabase, error) {
			return isaacdatabase.NewLeveldbBlockWrite(height, st, e.encs, e.enc), nil
		})
	if err != nil {
		res.Setup = err.Error()
		return res
	}
	defer db.Close()
	var vps bool
	if k.From > 0 {
		// the blocks below `from` are imported first in one batch that is not full
		// (count < limit: stored on the pinned tree as well)
		if err := e.importRange(db, root, 0, base.Height(k.From-1), k.From+1, &vps); err != nil {
			res.Setup = "import of the blocks below from: " + err.Error()
			return res
		}
		if m, found, err := db.LastBlockMap(); err != nil || !found || m.Manifest().Height() != base.Height(k.From-1) {
			res.Setup = fmt.Sprintf("blocks below from not stored: found=%v err=%v", found, err)
			return res
		}
	}
	vps = false
	to := base.Height(k.From + k.Count - 1)
	var ierr error
	res.Panic = h.Catch(func() { ierr = e.importRange(db, root, base.Height(k.From), to, k.Limit, &vps) })
	switch {
	case res.Panic != "":
	case ierr != nil:
		res.Err = ierr.Error()
	default:
		res.OK = true
	}
	res.LastVPs = vps
	if m, found, err := db.LastBlockMap(); err == nil && found {
		res.LastHeight = m.Manifest().Height().Int64()
	}
	imported := e.newReaders(root)
	for hh := k.From; hh <= to.Int64(); hh++ {
		if _, found, err := db.BlockMap(base.Height(hh)); err != nil || !found {
			res.Missing = append(res.Missing, hh)
		}
		if _, found, err := isaac.BlockItemReadersDecode[base.BlockMap](imported.Item, base.Height(hh), base.BlockItemMap, nil); err != nil || !found {
			res.MissingFS = append(res.MissingFS, hh)
		}
	}
	return res
}

func runReal(fl map[string]string) error {
	var cases []realCase
	var maxh int64
	if err := h.ReadNDJSON(fl["in"], func(line []byte) error {
		var k realCase
		if err := json.Unmarshal(line, &k); err != nil {
			return err
		}
		if k.From+k.Count > maxh {
			maxh = k.From + k.Count
		}
		cases = append(cases, k)
		return nil
	}); err != nil {
		return err
	}
	e, err := newEnv()
	if err != nil {
		return err
	}
	defer os.RemoveAll(e.srcRoot)
	if err := e.genBlocks(maxh); err != nil {
		return fmt.Errorf("generate source blocks: %w", err)
	}
	out, err := h.NewOut(fl["out"])
	if err != nil {
		return err
	}
	defer out.Close()
	for i := range cases {
		out.Emit(e.one(cases[i]))
	}
	return nil
}
