// Package c35 replays the tables and queries of spec/ACL.tla into the real launch.ACL
// (binding A). A table is loaded through launch.YAMLACL.Import with the permissions
// written by the real ACLPerm.String; every query goes to ACL.Allow and to the function
// NewACLAllowFunc builds (what the network handlers call).
package c35

import (
	"context"
	"encoding/json"
	"fmt"
	"sort"
	"strings"

	"github.com/rs/zerolog"
	"github.com/spikeekips/mitum/base"
	"github.com/spikeekips/mitum/launch"
	"github.com/spikeekips/mitum/util/encoder"
	jsonenc "github.com/spikeekips/mitum/util/encoder/json"

	"mitumverif/internal/h"
)

func init() { h.Register("C35", run) }

type step struct {
	A       string          `json:"a"`
	New     int             `json:"new"` // 1: first step of a behaviour (fresh ACL)
	Cells   [][]interface{} `json:"cells"`
	Queries [][]interface{} `json:"queries"`
	P       int             `json:"p"`
	Text    []string        `json:"text"`
}

type fail struct {
	Entry string        `json:"entry"`
	Q     []interface{} `json:"q,omitempty"`
	Got   string        `json:"got"`
	Want  string        `json:"want"`
}

type result struct {
	I            int      `json:"i"`
	OK           bool     `json:"ok"`
	Calls        int      `json:"calls"`
	Fails        []fail   `json:"fails,omitempty"`
	AssignedDiff int      `json:"assigned_diff,omitempty"` // informational: first return value of Allow vs the deciding entry
	FreshOK      *bool    `json:"fresh_ok,omitempty"`      // failing step of a walk: does a fresh ACL with the same table answer as specified?
	Updated      *bool    `json:"updated,omitempty"`
	Notes        []string `json:"notes,omitempty"`
}

type world struct {
	enc   encoder.Encoder
	users map[string]string
}

var scopes = map[string]launch.ACLScope{
	"a":        launch.DesignACLScope,
	"b":        launch.StatesAllowConsensusACLScope,
	"c":        launch.HandoverACLScope,
	"other":    launch.ACLScope("verif.no-such-scope"),
	"_default": launch.ACLScope("_default"),
}

func newWorld() (*world, error) {
	enc := jsonenc.NewEncoder()
	if err := enc.Add(encoder.DecodeDetail{Hint: base.MPublickeyHint, Instance: &base.MPublickey{}}); err != nil {
		return nil, err
	}
	w := &world{enc: enc, users: map[string]string{"_default": "_default"}}
	for _, u := range []string{"u", "v", "w", "super", "nobody"} {
		k, err := base.NewMPrivatekeyFromSeed("verif-c35-user-" + u + "-0123456789abcdef0123456789abcdef")
		if err != nil {
			return nil, err
		}
		w.users[u] = k.Publickey().String()
	}
	return w, nil
}

func (w *world) user(m string) string {
	if s, ok := w.users[m]; ok {
		return s
	}
	panic("unknown model user " + m)
}

func scope(m string) launch.ACLScope {
	if s, ok := scopes[m]; ok {
		return s
	}
	panic("unknown model scope " + m)
}

func num(i interface{}) int { return int(i.(float64)) }

// yamlOf renders the table; rows and columns in a deterministic order that varies with i,
// so that the order of users / scopes in the document is exercised too.
func (w *world) yamlOf(cells [][]interface{}, i int) string {
	rows := map[string][][2]string{}
	for _, c := range cells {
		u := w.user(c[0].(string))
		rows[u] = append(rows[u], [2]string{string(scope(c[1].(string))), launch.ACLPerm(num(c[2])).String()})
	}
	var us []string
	for u := range rows {
		us = append(us, u)
	}
	sort.Strings(us)
	if i%2 == 1 {
		for a, b := 0, len(us)-1; a < b; a, b = a+1, b-1 {
			us[a], us[b] = us[b], us[a]
		}
	}
	if len(us) < 1 {
		return "{}\n"
	}
	var sb strings.Builder
	for _, u := range us {
		fmt.Fprintf(&sb, "%s:\n", u)
		r := rows[u]
		sort.Slice(r, func(a, b int) bool { return r[a][0] < r[b][0] })
		if i%3 == 1 {
			for a, b := 0, len(r)-1; a < b; a, b = a+1, b-1 {
				r[a], r[b] = r[b], r[a]
			}
		}
		for _, kv := range r {
			fmt.Fprintf(&sb, "  %s: %s\n", kv[0], kv[1])
		}
	}
	return sb.String()
}

func (w *world) fresh() (*launch.YAMLACL, error) {
	acl, err := launch.NewACL(1<<9, w.user("super"))
	if err != nil {
		return nil, err
	}
	return launch.NewYAMLACL(acl), nil
}

// ask puts every query to the real ACL; returns the failures
func (w *world) ask(y *launch.YAMLACL, queries [][]interface{}, res *result, count bool) []fail {
	nop := zerolog.Nop()
	af := launch.NewACLAllowFunc(y.ACL, &nop)
	var fails []fail
	for _, q := range queries {
		u, s, req := w.user(q[0].(string)), scope(q[1].(string)), launch.ACLPerm(num(q[2]))
		want, dec := num(q[3]) == 1, num(q[4])
		var assigned launch.ACLPerm
		var allow, allow2 bool
		if p := h.Catch(func() { assigned, allow = y.Allow(u, s, req) }); p != "" {
			fails = append(fails, fail{Entry: "ACL.Allow", Q: q[:3], Got: p, Want: fmt.Sprint(want)})
			continue
		}
		if p := h.Catch(func() { allow2 = af(context.Background(), u, s, req, nil) }); p != "" {
			fails = append(fails, fail{Entry: "ACLAllowFunc", Q: q[:3], Got: p, Want: fmt.Sprint(want)})
			continue
		}
		if count {
			res.Calls += 2
		}
		if allow != want {
			fails = append(fails, fail{Entry: "ACL.Allow", Q: q[:3], Got: fmt.Sprintf("%v (assigned %d)", allow, assigned), Want: fmt.Sprintf("%v (deciding %d)", want, dec)})
		} else if allow2 != want {
			fails = append(fails, fail{Entry: "ACLAllowFunc", Q: q[:3], Got: fmt.Sprint(allow2), Want: fmt.Sprint(want)})
		} else if count && q[0].(string) != "super" && int(assigned) != dec {
			res.AssignedDiff++
		}
	}
	return fails
}

func run(args []string) error {
	fl := h.Flags(args)
	w, err := newWorld()
	if err != nil {
		return err
	}
	out, err := h.NewOut(fl["out"])
	if err != nil {
		return err
	}
	defer out.Close()
	var y *launch.YAMLACL
	i := 0
	return h.ReadNDJSON(fl["in"], func(line []byte) error {
		var st step
		if err := json.Unmarshal(line, &st); err != nil {
			return err
		}
		i++
		res := result{I: i, OK: true}
		switch st.A {
		case "table":
			if st.New == 1 || y == nil {
				if y, err = w.fresh(); err != nil {
					return err
				}
			}
			doc := w.yamlOf(st.Cells, i)
			var updated bool
			var ierr error
			if p := h.Catch(func() { updated, ierr = y.Import([]byte(doc), w.enc) }); p != "" {
				res.Fails = append(res.Fails, fail{Entry: "YAMLACL.Import", Got: p, Want: "no panic"})
			} else if ierr != nil {
				// a table of the specification is a legal document: refusing it is a finding of the
				// binding (machinery), reported as such by the driver
				return fmt.Errorf("Import refused a table of the specification: %v\n%s", ierr, doc)
			}
			res.Calls++
			res.Updated = &updated
			res.Fails = append(res.Fails, w.ask(y, st.Queries, &res, true)...)
			if len(res.Fails) > 0 && st.New != 1 {
				f, err := w.fresh()
				if err != nil {
					return err
				}
				if _, err := f.Import([]byte(doc), w.enc); err != nil {
					return err
				}
				ok := len(w.ask(f, st.Queries, &res, false)) == 0
				res.FreshOK = &ok
			}
		case "perm":
			p := launch.ACLPerm(st.P)
			want := strings.Join(st.Text, "")
			got := p.String()
			res.Calls++
			if got != want {
				res.Fails = append(res.Fails, fail{Entry: "ACLPerm.String", Got: got, Want: want})
			}
			if b, err := p.MarshalText(); err != nil || string(b) != want {
				res.Fails = append(res.Fails, fail{Entry: "ACLPerm.MarshalText", Got: fmt.Sprintf("%q %v", b, err), Want: want})
			}
			var back launch.ACLPerm
			if err := back.UnmarshalText([]byte(got)); err != nil || back != p {
				res.Fails = append(res.Fails, fail{Entry: "ACLPerm.UnmarshalText(String())", Got: fmt.Sprintf("%d %v", back, err), Want: fmt.Sprint(st.P)})
			}
			var back2 launch.ACLPerm
			if err := back2.UnmarshalText([]byte(want)); err != nil || back2 != p {
				res.Fails = append(res.Fails, fail{Entry: "ACLPerm.UnmarshalText(spec text)", Got: fmt.Sprintf("%d %v", back2, err), Want: fmt.Sprint(st.P)})
			}
			if err := p.IsValid(nil); err != nil {
				res.Fails = append(res.Fails, fail{Entry: "ACLPerm.IsValid", Got: err.Error(), Want: "valid"})
			}
			res.Calls += 4
			if st.P == 79 {
				// informational (text -> perm for texts no permission prints to): not constrained by the statement
				for _, n := range []int{78, 79, 255, 256, 257} {
					var q launch.ACLPerm
					err := q.UnmarshalText([]byte(strings.Repeat("o", n)))
					res.Notes = append(res.Notes, fmt.Sprintf("UnmarshalText(\"o\"x%d) = %d (%s) err=%v valid=%v", n, q, q, err, q.IsValid(nil) == nil))
				}
			}
		default:
			return fmt.Errorf("unknown step %q", st.A)
		}
		res.OK = len(res.Fails) == 0
		if len(res.Fails) > 6 {
			res.Fails = res.Fails[:6]
		}
		out.Emit(res)
		return nil
	})
}
