package fsstore

import (
	"bytes"
	"compress/gzip"
	"context"
	"crypto/sha256"
	"fmt"
	"io"
	"net"
	"net/http"
	"net/url"
	"os"
	"path/filepath"
	"sort"
	"strings"

	"mitumverif/internal/c10"
	"mitumverif/internal/h"

	"github.com/pkg/errors"
	"github.com/spikeekips/mitum/base"
	"github.com/spikeekips/mitum/isaac"
	isaacblock "github.com/spikeekips/mitum/isaac/block"
	"github.com/spikeekips/mitum/util"
	"github.com/spikeekips/mitum/util/fixedtree"
)

type VariantOut struct {
	Kind     string `json:"kind"` // variant
	H        int64  `json:"h"`
	T        string `json:"t"`
	Format   string `json:"format"` // gz | plain
	Scheme   string `json:"scheme"` // local | file | http
	Native   bool   `json:"native"` // the format the LocalFSWriter itself uses for this item
	UpErr    string `json:"up_err"`
	Updated  bool   `json:"updated"`
	Found    bool   `json:"found"`
	Err      string `json:"err"`
	Same     bool   `json:"same"`    // decoded item identical to the one decoded from the writer's own file
	SumOK    bool   `json:"sum_ok"`  // sha256 of the decompressed stream = check sum in the map
	ValidErr string `json:"valid_err"`
	RBCalled bool   `json:"rb_called"` // BlockItemReadByBlockItemFileFuncWithRemote: callback got the item
	RBFound  bool   `json:"rb_found"`
	RBErr    string `json:"rb_err"`
}

// fileServer serves dir over http on 127.0.0.1
func fileServer(dir string) (baseURL string, stop func(), err error) {
	ln, err := net.Listen("tcp", "127.0.0.1:0")
	if err != nil {
		return "", nil, err
	}
	srv := &http.Server{Handler: http.FileServer(http.Dir(dir))}
	go func() { _ = srv.Serve(ln) }()
	return "http://" + ln.Addr().String(), func() { _ = srv.Close() }, nil
}

func gunzip(b []byte) ([]byte, error) {
	r, err := gzip.NewReader(bytes.NewReader(b))
	if err != nil {
		return nil, err
	}
	return io.ReadAll(r)
}

func gz(b []byte) []byte {
	var buf bytes.Buffer
	w, _ := gzip.NewWriterLevel(&buf, gzip.BestSpeed)
	_, _ = w.Write(b)
	_ = w.Close()
	return buf.Bytes()
}

// canon: identity of a decoded item by its hashes
func canon(v interface{}) string {
	switch t := v.(type) {
	case base.BlockMap:
		var l []string
		t.Items(func(i base.BlockMapItem) bool { l = append(l, i.Type().String()+"="+i.Checksum()); return true })
		sort.Strings(l)
		return "map:" + t.Manifest().Hash().String() + "," + strings.Join(l, ",")
	case base.ProposalSignFact:
		return "proposal:" + t.Fact().Hash().String() + fmt.Sprint(len(t.Signs()))
	case [2]base.Voteproof:
		s := "vps:"
		for _, vp := range t {
			if vp == nil {
				s += "nil,"
				continue
			}
			s += fmt.Sprintf("%x/%d,", sha256.Sum256(vp.HashBytes()), len(vp.SignFacts()))
		}
		return s
	case fixedtree.Tree:
		if t.Len() < 1 {
			return "tree:empty"
		}
		s := fmt.Sprintf("tree:%d:%s", t.Len(), t.Root().String())
		_ = t.Traverse(func(i uint64, n fixedtree.Node) (bool, error) { s += "," + n.Key(); return true, nil })
		return s
	case []interface{}:
		s := fmt.Sprintf("list:%d", len(t))
		for _, x := range t {
			switch y := x.(type) {
			case base.Operation:
				s += "," + y.Hash().String()
			case base.State:
				s += "," + y.Hash().String()
			default:
				s += fmt.Sprintf(",?%T", x)
			}
		}
		return s
	default:
		return fmt.Sprintf("?%T", v)
	}
}

func decodeCanon(itemf isaac.BlockItemReadersItemFunc, height base.Height, t base.BlockItemType, want string) (found bool, got string, sumok bool, err error) {
	_, found, err = itemf(height, t, func(ir isaac.BlockItemReader) error {
		// check sum of the decompressed stream and decoding from the same bytes
		hs := sha256.New()
		dr, err := ir.Reader().Tee(nil, hs)
		if err != nil {
			return err
		}
		_ = dr
		v, err := ir.Decode()
		if err != nil {
			return err
		}
		if err := ir.Reader().Exaust(); err != nil {
			return err
		}
		sumok = hexsum(hs.Sum(nil)) == want
		got = canon(v)
		return nil
	})
	return found, got, sumok, err
}

func variantCases(l *lab, out *h.Out) error {
	src, err := l.source(2, baseChain().Blocks[2], "base")
	if err != nil {
		return err
	}
	H := src.height
	root, env0, err := l.caseRoot(src, "variants")
	if err != nil {
		return err
	}
	env0.Close()
	if err := copyTree(src.env.Root, root); err != nil { // block H itself
		return err
	}
	env, err := l.envAt(root, src, true)
	if err != nil {
		return err
	}
	defer env.Close()
	remoteDir := l.fresh("remote")
	extDir := l.fresh("ext")
	for _, d := range []string{remoteDir, extDir} {
		if err := os.MkdirAll(d, 0o700); err != nil {
			return err
		}
	}
	baseURL, stop, err := fileServer(remoteDir)
	if err != nil {
		return err
	}
	defer stop()
	remotes := isaac.NewDefaultRemotesBlockItemReadFunc()
	ctx := context.Background()

	origFJ, err := os.ReadFile(isaac.BlockItemFilesPath(root, H))
	if err != nil {
		return err
	}
	bfiles, found, err := isaac.LoadBlockItemFilesPath(root, H, env.Encs.JSON())
	if err != nil || !found {
		return errors.Errorf("block item files: %v %v", found, err)
	}
	readers0 := newReaders(root, env, nil)
	itemf0 := isaac.BlockItemReadersItemFuncWithRemote(readers0, remotes, nil)(ctx)
	types := []base.BlockItemType{base.BlockItemMap}
	sums := map[base.BlockItemType]string{}
	src.items.bm.Items(func(i base.BlockMapItem) bool {
		types = append(types, i.Type())
		sums[i.Type()] = i.Checksum()
		return true
	})
	want := map[base.BlockItemType]string{}
	for _, t := range types {
		f, got, _, err := decodeCanon(itemf0, H, t, sums[t])
		if err != nil || !f {
			return errors.Errorf("reference decode of %s: %v %v", t, f, err)
		}
		want[t] = got
	}
	readers0.Close()

	for _, t := range types {
		of, _ := bfiles.Item(t)
		origName := strings.TrimPrefix(of.URI().Path, "/")
		raw, err := os.ReadFile(filepath.Join(hdirOf(root, H), origName))
		if err != nil {
			return err
		}
		plain := raw
		nativeGz := of.CompressFormat() == "gz"
		if nativeGz {
			if plain, err = gunzip(raw); err != nil {
				return err
			}
		}
		plainName := strings.TrimSuffix(origName, ".gz")
		for _, format := range []string{"gz", "plain"} {
			name, body, cf := plainName, plain, ""
			if format == "gz" {
				name, body, cf = plainName+".gz", gz(plain), "gz"
			}
			for _, scheme := range []string{"local", "file", "http"} {
				o := VariantOut{Kind: "variant", H: H.Int64(), T: t.String(), Format: format, Scheme: scheme, Native: nativeGz == (format == "gz")}
				var nf base.BlockItemFile
				var cleanup string
				switch scheme {
				case "local":
					p := filepath.Join(hdirOf(root, H), name)
					if name != origName {
						if err := os.WriteFile(p, body, 0o600); err != nil {
							return err
						}
						cleanup = p
					}
					nf = isaac.NewLocalFSBlockItemFile(name, "")
				case "file":
					p := filepath.Join(extDir, fmt.Sprintf("%d-%s", H, name))
					if err := os.WriteFile(p, body, 0o600); err != nil {
						return err
					}
					nf = isaac.NewFileBlockItemFile(p, "")
				case "http":
					p := filepath.Join(remoteDir, fmt.Sprintf("%d-%s", H, name))
					if err := os.WriteFile(p, body, 0o600); err != nil {
						return err
					}
					u, _ := url.Parse(baseURL + "/" + filepath.Base(p))
					nf = isaac.NewBlockItemFile(*u, cf)
				}
				mk := isaac.NewBlockItemFilesMaker(env.Encs.JSON())
				for it, f := range bfiles.Items() {
					if it == t {
						f = nf
					}
					if _, err := mk.SetItem(it, f); err != nil {
						return err
					}
				}
				nb, err := mk.Bytes()
				if err != nil {
					return err
				}
				readers := newReaders(root, env, nil)
				up, err := readers.WriteItemFiles(H, nb)
				o.Updated, o.UpErr = up, short(err)
				itemf := isaac.BlockItemReadersItemFuncWithRemote(readers, remotes, nil)(ctx)
				if p := h.Catch(func() {
					f, got, sumok, err := decodeCanon(itemf, H, t, sums[t])
					o.Found, o.Err, o.SumOK = f, short(err), sumok || t == base.BlockItemMap
					o.Same = f && err == nil && got == want[t]
					o.ValidErr = short(isaacblock.IsValidBlockFromLocalFS(itemf, H, env.NetworkID, nil, nil, nil))
					rb := isaac.BlockItemReadByBlockItemFileFuncWithRemote(readers, remotes)
					f2, err2 := rb(ctx, H, t, nf, func(ir isaac.BlockItemReader) error {
						_, err := ir.Decode()
						if err == nil {
							o.RBCalled = true
						}
						return err
					})
					o.RBFound, o.RBErr = f2, short(err2)
				}); p != "" {
					o.Err = p
				}
				// back to the writer's own files
				if _, err := readers.WriteItemFiles(H, origFJ); err != nil {
					return errors.WithMessage(err, "restore block item files")
				}
				readers.Close()
				if cleanup != "" {
					_ = os.Remove(cleanup)
				}
				out.Emit(o)
			}
		}
	}
	return nil
}

var _ = util.ErrNotFound
var _ c10.ChainT
