package fsstore

import (
	"fmt"
	"os"
	"path/filepath"
	"strings"
	"syscall"
	"unsafe"

	"github.com/pkg/errors"
)

// FsOp is one observed file-system effect of the real writer (inotify), in the order the
// kernel queued it. Where: "temp" (the writer's directory), "temps" (root/temp), "parent"
// (the directory holding the height directory and <h>.json).
type FsOp struct {
	Where string `json:"w"`
	Op    string `json:"op"` // create | write | close | rm | from | to | other
	Name  string `json:"n"`
}

type watcher struct {
	fd  int
	wds map[int32]string
}

func newWatcher() (*watcher, error) {
	fd, err := syscall.InotifyInit1(syscall.IN_NONBLOCK | syscall.IN_CLOEXEC)
	if err != nil {
		return nil, errors.Wrap(err, "inotify")
	}
	return &watcher{fd: fd, wds: map[int32]string{}}, nil
}

func (w *watcher) add(where, dir string) error {
	wd, err := syscall.InotifyAddWatch(w.fd, dir,
		syscall.IN_CREATE|syscall.IN_MODIFY|syscall.IN_CLOSE_WRITE|syscall.IN_DELETE|syscall.IN_MOVED_FROM|syscall.IN_MOVED_TO|syscall.IN_DELETE_SELF|syscall.IN_MOVE_SELF)
	if err != nil {
		return errors.Wrap(err, "inotify add "+dir)
	}
	w.wds[int32(wd)] = where
	return nil
}

func (w *watcher) close() { _ = syscall.Close(w.fd) }

// drain returns every event queued so far.
func (w *watcher) drain() []FsOp {
	var out []FsOp
	buf := make([]byte, 1<<16)
	for {
		n, err := syscall.Read(w.fd, buf)
		if n <= 0 || err != nil {
			return out
		}
		for off := 0; off+syscall.SizeofInotifyEvent <= n; {
			ev := (*syscall.InotifyEvent)(unsafe.Pointer(&buf[off]))
			nb := buf[off+syscall.SizeofInotifyEvent : off+syscall.SizeofInotifyEvent+int(ev.Len)]
			name := strings.TrimRight(string(nb), "\x00")
			off += syscall.SizeofInotifyEvent + int(ev.Len)
			where, ok := w.wds[ev.Wd]
			if !ok {
				continue
			}
			op := "other"
			switch {
			case ev.Mask&syscall.IN_CREATE != 0:
				op = "create"
			case ev.Mask&syscall.IN_MODIFY != 0:
				op = "write"
			case ev.Mask&syscall.IN_CLOSE_WRITE != 0:
				op = "close"
			case ev.Mask&syscall.IN_DELETE != 0:
				op = "rm"
			case ev.Mask&syscall.IN_MOVED_FROM != 0:
				op = "from"
			case ev.Mask&syscall.IN_MOVED_TO != 0:
				op = "to"
			case ev.Mask&(syscall.IN_DELETE_SELF|syscall.IN_MOVE_SELF|syscall.IN_IGNORED) != 0:
				continue
			}
			out = append(out, FsOp{Where: where, Op: op, Name: name})
		}
	}
}

// materialise builds, in dst, the directory state after the first k observed operations of
// Save: it starts from `pre` (copy of the data root just before Save) and takes file
// contents from `post` (the data root after the real Save). The j-th of m "write" events of
// one file leaves the first j/m of its final bytes.
func materialise(pre, post, dst string, tempName string, relH string, fjName string, ops []FsOp, k int) error {
	if err := copyTree(pre, dst); err != nil {
		return err
	}
	tdir := filepath.Join(dst, "temp", tempName)
	parent := filepath.Dir(filepath.Join(dst, relH))
	hd := filepath.Join(dst, relH)
	moved := false
	nwrites := map[string]int{}
	for _, o := range ops {
		if o.Op == "write" {
			nwrites[o.Where+"/"+o.Name]++
		}
	}
	seen := map[string]int{}
	final := func(o FsOp) ([]byte, error) {
		switch o.Where {
		case "temp":
			return os.ReadFile(filepath.Join(post, relH, o.Name))
		default:
			return os.ReadFile(filepath.Join(filepath.Dir(filepath.Join(post, relH)), o.Name))
		}
	}
	path := func(o FsOp) string {
		switch o.Where {
		case "temp":
			if moved {
				return filepath.Join(hd, o.Name)
			}
			return filepath.Join(tdir, o.Name)
		default:
			return filepath.Join(parent, o.Name)
		}
	}
	for i := 0; i < k && i < len(ops); i++ {
		o := ops[i]
		switch o.Op {
		case "create":
			if o.Where == "temps" {
				continue
			}
			if o.Where == "parent" && o.Name != fjName {
				if err := os.MkdirAll(path(o), 0o700); err != nil {
					return err
				}
				continue
			}
			if err := os.MkdirAll(filepath.Dir(path(o)), 0o700); err != nil {
				return err
			}
			if err := os.WriteFile(path(o), nil, 0o600); err != nil {
				return err
			}
		case "write":
			b, err := final(o)
			if err != nil {
				// a file Save removes later (empty operations / states file): what is in it does not matter
				b = []byte{0x1f, 0x8b}
			}
			key := o.Where + "/" + o.Name
			seen[key]++
			n := len(b) * seen[key] / nwrites[key]
			if err := os.WriteFile(path(o), b[:n], 0o600); err != nil {
				return err
			}
		case "rm":
			_ = os.Remove(path(o))
		case "from":
			// the matching "to" performs the move
		case "to":
			if o.Where == "parent" {
				if err := os.MkdirAll(parent, 0o700); err != nil {
					return err
				}
				if err := os.Rename(tdir, hd); err != nil {
					return err
				}
				moved = true
			}
		}
	}
	return nil
}

// changing tells whether an observed operation changes what a restart finds on disk
func (o FsOp) changing() bool {
	switch o.Op {
	case "create", "write", "rm", "to":
		return true
	}
	return false
}

func (o FsOp) String() string { return fmt.Sprintf("%s:%s:%s", o.Where, o.Op, o.Name) }
