// Package fsstore binds spec/FSStore.tla to the real block file store: LocalFSWriter,
// BlockItemReaders, the local-fs validators and launch's start-up checks, on directories
// below the run's work directory. Blocks are real blocks made by the pipeline driver of
// harness/internal/c10 (DefaultProposalProcessor + Writer + LocalFSWriter).
package fsstore

import (
	"context"
	"crypto/sha256"
	"encoding/hex"
	"fmt"
	"io"
	"os"
	"path/filepath"
	"sort"
	"strings"

	"mitumverif/internal/c10"

	"github.com/pkg/errors"
	"github.com/spikeekips/mitum/base"
	"github.com/spikeekips/mitum/isaac"
	isaacblock "github.com/spikeekips/mitum/isaac/block"
	"github.com/spikeekips/mitum/util/fixedtree"
)

var genesis = []string{"a", "b", "c"}

const t10 = 670

func signs(ns ...string) []c10.SignT {
	out := make([]c10.SignT, len(ns))
	for i, n := range ns {
		out[i] = c10.SignT{N: n, K: "own"}
	}
	return out
}

// the stored chain: full, bare, full, full blocks
func baseChain() c10.ChainT {
	return c10.ChainT{Genesis: genesis, T10: t10, Blocks: []c10.BlockT{
		{Ops: []c10.OpT{
			{ID: "pol1", K: "policy", Pol: "p1", Signs: signs("a", "b", "c")},
			{ID: "cand-d", K: "cand", N: "d", Key: "own", Signs: signs("d")},
		}},
		{Ops: nil},
		{Ops: []c10.OpT{{ID: "pol2", K: "policy", Pol: "p2", Signs: signs("a", "b", "c")}}},
	}}
}

// alternative last blocks (another block of the same height)
func altBlock(h int) c10.BlockT {
	return c10.BlockT{Ops: []c10.OpT{
		{ID: fmt.Sprintf("alt-pol-%d", h), K: "policy", Pol: "p0", Signs: signs("a", "b", "c")},
		{ID: fmt.Sprintf("alt-cand-%d", h), K: "cand", N: "e", Key: "own", Signs: signs("e")},
	}}
}

type blockItems struct {
	bm      base.BlockMap
	pr      base.ProposalSignFact
	ops     []base.Operation
	sts     []base.State
	opstree fixedtree.Tree
	ststree fixedtree.Tree
	vps     [2]base.Voteproof
}

func (it *blockItems) shape() string {
	switch {
	case len(it.ops) > 0 && len(it.sts) > 0:
		return "full"
	case len(it.sts) > 0:
		return "noops"
	default:
		return "bare"
	}
}

// source: a real block of height H on top of the world of the blocks below it
type source struct {
	w      *c10.World // blocks 0..H-1 (files + database)
	env    *c10.Env   // database with block H, directory holding only block H
	height base.Height
	items  *blockItems
	kvs    [][2][]byte // database snapshot with block H
}

type lab struct {
	dir  string
	ws   *c10.Worlds
	n    int
	srcs map[string]*source
}

func newLab(dir string) *lab {
	return &lab{dir: dir, ws: c10.NewWorlds(filepath.Join(dir, "worlds")), srcs: map[string]*source{}}
}

func (l *lab) close() { l.ws.Close() }

func (l *lab) fresh(name string) string {
	l.n++
	return filepath.Join(l.dir, fmt.Sprintf("%s-%d", name, l.n))
}

// source builds block `last` on top of the first n blocks of the base chain.
func (l *lab) source(n int, last c10.BlockT, tag string) (*source, error) {
	k := fmt.Sprintf("%d/%s", n, tag)
	if s, ok := l.srcs[k]; ok {
		return s, nil
	}
	chain := baseChain()
	w, err := l.ws.Get(chain, n)
	if err != nil {
		return nil, errors.WithMessage(err, "world")
	}
	env, err := w.Fork(filepath.Join(l.fresh("source"), "data"))
	if err != nil {
		return nil, err
	}
	prep, err := w.PrepareBlock(env, last)
	if err != nil {
		return nil, err
	}
	r := env.Run(prep, c10.RunOpts{Workers: 5, Save: true})
	if r.Err != "" || r.Panic != "" {
		return nil, errors.Errorf("source block: %s%s", r.Err, r.Panic)
	}
	s := &source{w: w, env: env, height: r.Manifest.Height()}
	if s.items, err = loadItems(env.Readers, s.height); err != nil {
		return nil, errors.WithMessage(err, "read source block")
	}
	if s.kvs, err = env.Snapshot(); err != nil {
		return nil, err
	}
	l.srcs[k] = s
	return s, nil
}

func loadItems(readers *isaac.BlockItemReaders, height base.Height) (*blockItems, error) {
	it := &blockItems{}
	bm, found, err := isaac.BlockItemReadersDecode[base.BlockMap](readers.Item, height, base.BlockItemMap, nil)
	if err != nil || !found {
		return nil, errors.Errorf("blockmap: found=%v err=%v", found, err)
	}
	it.bm = bm
	var rerr error
	bm.Items(func(item base.BlockMapItem) bool {
		switch item.Type() {
		case base.BlockItemProposal:
			it.pr, _, rerr = isaac.BlockItemReadersDecode[base.ProposalSignFact](readers.Item, height, item.Type(), nil)
		case base.BlockItemOperationsTree:
			it.opstree, _, rerr = isaac.BlockItemReadersDecode[fixedtree.Tree](readers.Item, height, item.Type(), nil)
		case base.BlockItemStatesTree:
			it.ststree, _, rerr = isaac.BlockItemReadersDecode[fixedtree.Tree](readers.Item, height, item.Type(), nil)
		case base.BlockItemVoteproofs:
			it.vps, _, rerr = isaac.BlockItemReadersDecode[[2]base.Voteproof](readers.Item, height, item.Type(), nil)
		case base.BlockItemOperations:
			_, it.ops, _, rerr = isaac.BlockItemReadersDecodeItems[base.Operation](readers.Item, height, item.Type(), nil, nil)
		case base.BlockItemStates:
			_, it.sts, _, rerr = isaac.BlockItemReadersDecodeItems[base.State](readers.Item, height, item.Type(), nil, nil)
		}
		return rerr == nil
	})
	return it, rerr
}

// ---------------------------------------------------------------- step-wise writer

var writerSteps = []string{"new", "ops", "sts", "manifest", "voteproofs", "proposal", "opstree", "ststree"}

type stepWriter struct {
	root string
	src  *source
	it   *blockItems
	fs   *isaacblock.LocalFSWriter
	next int
}

func newStepWriter(root string, src *source) *stepWriter {
	return &stepWriter{root: root, src: src, it: src.items}
}

// step performs the next Set* call (the order isaacblock.Writer drives them); calls the
// real Writer would not make for this block are skipped.
func (s *stepWriter) step() (name string, err error) {
	if s.next >= len(writerSteps) {
		return "", errors.Errorf("no more steps")
	}
	name = writerSteps[s.next]
	s.next++
	ctx := context.Background()
	env := s.src.env
	it := s.it
	switch name {
	case "new":
		s.fs, err = isaacblock.NewLocalFSWriter(s.root, s.src.height, env.Encs.JSON(), env.Encs.Default(), env.Local, env.NetworkID)
	case "ops":
		for i, op := range it.ops {
			if err = s.fs.SetOperation(ctx, uint64(len(it.ops)), uint64(i), op); err != nil {
				return name, err
			}
		}
	case "sts":
		for i, st := range it.sts {
			if err = s.fs.SetState(ctx, uint64(len(it.sts)), uint64(i), st); err != nil {
				return name, err
			}
		}
	case "manifest":
		err = s.fs.SetManifest(ctx, it.bm.Manifest())
	case "voteproofs":
		if err = s.fs.SetINITVoteproof(ctx, it.vps[0].(base.INITVoteproof)); err == nil {
			err = s.fs.SetACCEPTVoteproof(ctx, it.vps[1].(base.ACCEPTVoteproof))
		}
	case "proposal":
		err = s.fs.SetProposal(ctx, it.pr)
	case "opstree":
		if it.opstree.Len() > 0 {
			err = s.fs.SetOperationsTree(ctx, it.opstree)
		}
	case "ststree":
		if it.ststree.Len() > 0 {
			err = s.fs.SetStatesTree(ctx, it.ststree)
		}
	}
	return name, err
}

func (s *stepWriter) upTo(n int) error {
	for s.next < n {
		if name, err := s.step(); err != nil {
			return errors.WithMessage(err, name)
		}
	}
	return nil
}

func (s *stepWriter) all() error { return s.upTo(len(writerSteps)) }

func (s *stepWriter) save() (base.BlockMap, error) { return s.fs.Save(context.Background()) }

// ---------------------------------------------------------------- directory helpers

func copyTree(src, dst string) error {
	return filepath.Walk(src, func(p string, fi os.FileInfo, err error) error {
		if err != nil {
			return err
		}
		rel, _ := filepath.Rel(src, p)
		t := filepath.Join(dst, rel)
		if fi.IsDir() {
			return os.MkdirAll(t, 0o700)
		}
		in, err := os.Open(p)
		if err != nil {
			return err
		}
		defer in.Close()
		out, err := os.OpenFile(t, os.O_WRONLY|os.O_CREATE|os.O_TRUNC, 0o600)
		if err != nil {
			return err
		}
		defer out.Close()
		_, err = io.Copy(out, in)
		return err
	})
}

// treeSum: relative path -> sha256 of every regular file below dir ("" for directories)
func treeSum(dir string) map[string]string {
	out := map[string]string{}
	_ = filepath.Walk(dir, func(p string, fi os.FileInfo, err error) error {
		if err != nil {
			return nil
		}
		rel, _ := filepath.Rel(dir, p)
		if fi.IsDir() {
			out[rel+"/"] = ""
			return nil
		}
		b, err := os.ReadFile(p)
		if err != nil {
			out[rel] = "unreadable"
			return nil
		}
		h := sha256.Sum256(b)
		out[rel] = hex.EncodeToString(h[:8])
		return nil
	})
	return out
}

// sub keeps the entries of a tree sum below a prefix
func sub(m map[string]string, prefix string) map[string]string {
	out := map[string]string{}
	for k, v := range m {
		if strings.HasPrefix(k, prefix) {
			out[k] = v
		}
	}
	return out
}

func sameTree(a, b map[string]string) (diff []string) {
	for k, v := range a {
		if w, ok := b[k]; !ok {
			diff = append(diff, "-"+k)
		} else if w != v {
			diff = append(diff, "~"+k)
		}
	}
	for k := range b {
		if _, ok := a[k]; !ok {
			diff = append(diff, "+"+k)
		}
	}
	sort.Strings(diff)
	return diff
}

func hdirOf(root string, h base.Height) string {
	return filepath.Join(root, isaac.BlockHeightDirectory(h))
}

func relHdir(h base.Height) string {
	return strings.TrimPrefix(isaac.BlockHeightDirectory(h), "/")
}

func exists(p string) bool {
	_, err := os.Stat(p)
	return err == nil
}

func tempDirs(root string) []string {
	es, err := os.ReadDir(filepath.Join(root, isaacblock.BlockTempDirectoryPrefix))
	if err != nil {
		return nil
	}
	var out []string
	for _, e := range es {
		out = append(out, e.Name())
	}
	sort.Strings(out)
	return out
}

func short(err error) string {
	if err == nil {
		return ""
	}
	s := err.Error()
	if i := strings.IndexByte(s, '\n'); i >= 0 {
		s = s[:i]
	}
	if len(s) > 240 {
		s = s[:240]
	}
	return s
}
