package fsstore

import (
	"context"
	"fmt"
	"os"
	"path/filepath"
	"strconv"
	"sync"

	"mitumverif/internal/c10"
	"mitumverif/internal/h"

	"github.com/pkg/errors"
	"github.com/spikeekips/mitum/base"
	"github.com/spikeekips/mitum/isaac"
)

func init() { h.Register("FSSTORE", run) }

// vh-fsstore FSSTORE run --dir <scratch> --out <ndjson> [--only crash,twice,variants,cleanup] [--races N]
func run(args []string) error {
	if len(args) < 1 || args[0] != "run" {
		return errors.Errorf("usage: FSSTORE run --dir D --out F")
	}
	fl := h.Flags(args[1:])
	dir, outp := fl["dir"], fl["out"]
	if dir == "" || outp == "" {
		return errors.Errorf("--dir and --out are required")
	}
	seed, _ := strconv.ParseInt(os.Getenv("VERIF_SEED"), 10, 64)
	races, _ := strconv.Atoi(fl["races"])
	if races == 0 {
		races = 20
	}
	only := fl["only"]
	want := func(k string) bool { return only == "" || contains(only, k) }
	if err := os.MkdirAll(dir, 0o700); err != nil {
		return err
	}
	if a, err := filepath.Abs(dir); err == nil {
		dir = a
	}
	out, err := h.NewOut(outp)
	if err != nil {
		return err
	}
	defer out.Close()
	l := newLab(dir)
	defer l.close()

	if want("crash") {
		for n := 0; n < 3; n++ {
			if err := crashCases(l, n, out); err != nil {
				return errors.WithMessage(err, fmt.Sprintf("crash cases, height %d", n+1))
			}
		}
	}
	if want("twice") {
		for _, n := range []int{0, 2} {
			if err := twiceCases(l, n, races, seed, out); err != nil {
				return errors.WithMessage(err, "twice cases")
			}
		}
	}
	if want("variants") {
		if err := variantCases(l, out); err != nil {
			return errors.WithMessage(err, "variant cases")
		}
	}
	if want("cleanup") {
		if err := cleanupCases(l, seed, out); err != nil {
			return errors.WithMessage(err, "cleanup cases")
		}
	}
	return nil
}

func contains(list, k string) bool {
	for _, s := range splitComma(list) {
		if s == k {
			return true
		}
	}
	return false
}

func splitComma(s string) []string {
	var out []string
	cur := ""
	for _, c := range s {
		if c == ',' {
			out = append(out, cur)
			cur = ""
		} else {
			cur += string(c)
		}
	}
	return append(out, cur)
}

// caseRoot: a node's data directory holding the blocks below src.height, and its database
func (l *lab) caseRoot(src *source, name string) (string, *c10.Env, error) {
	root := filepath.Join(l.fresh(name), "data")
	if err := copyTree(src.w.Env.Root, root); err != nil {
		return "", nil, err
	}
	env, err := src.w.Fork(root)
	return root, env, err
}

func (l *lab) envAt(root string, src *source, withBlock bool) (*c10.Env, error) {
	if !withBlock {
		return src.w.Fork(root)
	}
	return c10.Fork(root, src.env.NetworkID, base.Threshold(float64(t10)/10), src.env.Local, src.kvs)
}

type CrashOut struct {
	Kind   string `json:"kind"` // crash
	Shape  string `json:"shape"`
	H      int64  `json:"h"`
	Phase  string `json:"phase"` // items | save | done
	CP     string `json:"cp"`    // items: name of the last Set* step done; save: index of the last observed op
	Op     string `json:"op,omitempty"`
	DBHas  bool   `json:"db_has"`
	Obs    Obs    `json:"obs"`
	Hash   string `json:"hash"` // manifest hash of the block being written
	Prefix string `json:"prefix_ok,omitempty"`
}

type TraceOut struct {
	Kind  string              `json:"kind"` // trace
	Shape string              `json:"shape"`
	H     int64               `json:"h"`
	Calls []map[string]interface{} `json:"calls"`
	FJ    string              `json:"fj"`
	Same  []string            `json:"materialised_vs_real"` // differences between the materialised final state and the real one
}

func crashCases(l *lab, n int, out *h.Out) error {
	src, err := l.source(n, baseChain().Blocks[n], "base")
	if err != nil {
		return err
	}
	H := src.height
	shape := src.items.shape()
	hash := src.items.bm.Manifest().Hash().String()

	// (a) the process stops between two Set* calls: the real writer is abandoned there
	for k := 1; k <= len(writerSteps); k++ {
		root, env, err := l.caseRoot(src, "crash-items")
		if err != nil {
			return err
		}
		sw := newStepWriter(root, src)
		if err := sw.upTo(k); err != nil {
			return err
		}
		o := observe(root, env, H, nil, src)
		out.Emit(CrashOut{Kind: "crash", Shape: shape, H: H.Int64(), Phase: "items", CP: writerSteps[k-1], Obs: o, Hash: hash})
		env.Close()
	}

	// (b) inside Save: observe the real Save's file-system operations, then rebuild every prefix
	root, env, err := l.caseRoot(src, "crash-save")
	if err != nil {
		return err
	}
	defer env.Close()
	sw := newStepWriter(root, src)
	wt, err := newWatcher()
	if err != nil {
		return err
	}
	defer wt.close()
	tr := TraceOut{Kind: "trace", Shape: shape, H: H.Int64()}
	temps := filepath.Join(root, "temp")
	if err := os.MkdirAll(temps, 0o700); err != nil {
		return err
	}
	parent := filepath.Dir(hdirOf(root, H))
	if err := os.MkdirAll(parent, 0o700); err != nil {
		return err
	}
	if err := wt.add("temps", temps); err != nil {
		return err
	}
	if err := wt.add("parent", parent); err != nil {
		return err
	}
	var tempName string
	for sw.next < len(writerSteps) {
		name, err := sw.step()
		if err != nil {
			return errors.WithMessage(err, name)
		}
		if name == "new" {
			ts := tempDirs(root)
			if len(ts) != 1 {
				return errors.Errorf("expected one temp directory, have %v", ts)
			}
			tempName = ts[0]
			if err := wt.add("temp", filepath.Join(temps, tempName)); err != nil {
				return err
			}
		}
		tr.Calls = append(tr.Calls, map[string]interface{}{"call": name, "ops": wt.drain()})
	}
	pre := filepath.Join(l.fresh("pre"), "data")
	if err := copyTree(root, pre); err != nil {
		return err
	}
	if _, err := sw.save(); err != nil {
		return errors.WithMessage(err, "real Save")
	}
	ops := wt.drain()
	tr.Calls = append(tr.Calls, map[string]interface{}{"call": "save", "ops": ops})
	fjName := base.BlockItemFilesName(H)
	fullFJ, _ := os.ReadFile(isaac.BlockItemFilesPath(root, H))
	tr.FJ = fjName
	full := map[int64][]byte{H.Int64(): fullFJ}

	for k := 0; k <= len(ops); k++ {
		if k > 0 && !ops[k-1].changing() {
			continue
		}
		dst := filepath.Join(l.fresh("crash-save-k"), "data")
		if err := materialise(pre, root, dst, tempName, relHdir(H), fjName, ops, k); err != nil {
			return errors.WithMessage(err, fmt.Sprintf("materialise prefix %d", k))
		}
		if k == len(ops) || (k < len(ops) && allQuiet(ops[k:])) {
			tr.Same = sameTree(treeSum(dst), treeSum(root))
			if tr.Same == nil {
				tr.Same = []string{}
			}
		}
		envk, err := l.envAt(dst, src, false)
		if err != nil {
			return err
		}
		o := observe(dst, envk, H, full, src)
		co := CrashOut{Kind: "crash", Shape: shape, H: H.Int64(), Phase: "save", CP: strconv.Itoa(k), Obs: o, Hash: hash}
		if k > 0 {
			co.Op = ops[k-1].String()
		}
		out.Emit(co)
		envk.Close()
	}
	// the real final state with the database merged (the normal outcome), then a restart
	// (the files are the pipeline's own, as is the database: the tree item files are written by
	// concurrent jobs, their line order - and so their check sum in the map - differs from one writing
	// of the same block to the next, and PLoadFromDatabase compares the two maps item by item)
	dst := filepath.Join(l.fresh("crash-done"), "data")
	if err := copyTree(src.w.Env.Root, dst); err != nil {
		return err
	}
	if err := copyTree(src.env.Root, dst); err != nil {
		return err
	}
	envd, err := l.envAt(dst, src, true)
	if err != nil {
		return err
	}
	o := observe(dst, envd, H, nil, nil)
	out.Emit(CrashOut{Kind: "crash", Shape: shape, H: H.Int64(), Phase: "done", CP: "done", DBHas: true, Obs: o, Hash: hash})
	_ = full
	envd.Close()
	if tr.Same == nil {
		tr.Same = []string{"not-compared"}
	}
	out.Emit(tr)
	return nil
}

func allQuiet(ops []FsOp) bool {
	for _, o := range ops {
		if o.changing() {
			return false
		}
	}
	return true
}

// ---------------------------------------------------------------- the same height twice

type TwiceOut struct {
	Kind      string    `json:"kind"` // twice
	Scen      string    `json:"scen"`
	H         int64     `json:"h"`
	ASave     string    `json:"a_save"` // "" = success
	BSave     string    `json:"b_save"`
	BCancel   string    `json:"b_cancel"`
	ADiff     []string  `json:"a_diff"`      // A's height directory + <h>.json: after B vs. right after A's Save
	TempAfterB []string `json:"temp_after_b"` // temp directories left after B's failed Save
	TempEnd   []string  `json:"temp_end"`     // ... after B's Cancel
	HashA     string    `json:"hash_a"`
	HashB     string    `json:"hash_b"`
	After     HeightObs `json:"after"`
	Attempt   int       `json:"attempt,omitempty"`
	SaveAgain string    `json:"save_again,omitempty"` // A.Save() called a second time
}

func blockTree(root string, H base.Height) map[string]string {
	t := treeSum(root)
	out := sub(t, relHdir(H))
	rel, _ := filepath.Rel(root, isaac.BlockItemFilesPath(root, H))
	if v, ok := t[rel]; ok {
		out[rel] = v
	}
	return out
}

func twiceCases(l *lab, n int, races int, seed int64, out *h.Out) error {
	a, err := l.source(n, baseChain().Blocks[n], "base")
	if err != nil {
		return err
	}
	b, err := l.source(n, altBlock(n+1), "alt")
	if err != nil {
		return err
	}
	H := a.height
	mk := func(scen string) TwiceOut {
		return TwiceOut{Kind: "twice", Scen: scen, H: H.Int64(), HashA: a.items.bm.Manifest().Hash().String(),
			HashB: b.items.bm.Manifest().Hash().String(), ADiff: []string{}, TempAfterB: []string{}, TempEnd: []string{}}
	}
	finish := func(o *TwiceOut, root string, env *c10.Env, before map[string]string) {
		if before != nil {
			if d := sameTree(before, blockTree(root, H)); d != nil {
				o.ADiff = d
			}
		}
		o.After = observeHeight(root, env, H, nil)
		if t := tempDirs(root); t != nil {
			o.TempEnd = t
		}
	}

	{ // sequential: A stored, then B written and saved
		root, env, err := l.caseRoot(a, "twice-seq")
		if err != nil {
			return err
		}
		o := mk("sequential")
		wa, wb := newStepWriter(root, a), newStepWriter(root, b)
		if err := wa.all(); err != nil {
			return err
		}
		_, err = wa.save()
		o.ASave = short(err)
		before := blockTree(root, H)
		_, err = wa.save()
		o.SaveAgain = short(err)
		if err := wb.all(); err != nil {
			return err
		}
		_, err = wb.save()
		o.BSave = short(err)
		if t := tempDirs(root); t != nil {
			o.TempAfterB = t
		}
		o.BCancel = short(wb.fs.Cancel())
		finish(&o, root, env, before)
		out.Emit(o)
		env.Close()
	}
	{ // interleaved: B is written first, A saves, B saves
		root, env, err := l.caseRoot(a, "twice-int")
		if err != nil {
			return err
		}
		o := mk("interleaved")
		wa, wb := newStepWriter(root, a), newStepWriter(root, b)
		for wa.next < len(writerSteps) {
			if _, err := wb.step(); err != nil {
				return err
			}
			if _, err := wa.step(); err != nil {
				return err
			}
		}
		_, err = wa.save()
		o.ASave = short(err)
		before := blockTree(root, H)
		_, err = wb.save()
		o.BSave = short(err)
		if t := tempDirs(root); t != nil {
			o.TempAfterB = t
		}
		o.BCancel = short(wb.fs.Cancel())
		finish(&o, root, env, before)
		out.Emit(o)
		env.Close()
	}
	{ // B is cancelled while A is half written; A then completes
		root, env, err := l.caseRoot(a, "twice-cancel")
		if err != nil {
			return err
		}
		o := mk("cancel-other")
		wa, wb := newStepWriter(root, a), newStepWriter(root, b)
		if err := wa.upTo(4); err != nil {
			return err
		}
		if err := wb.all(); err != nil {
			return err
		}
		o.BCancel = short(wb.fs.Cancel())
		if t := tempDirs(root); t != nil {
			o.TempAfterB = t
		}
		if err := wa.all(); err != nil {
			o.ASave = "steps: " + short(err)
		} else {
			_, err = wa.save()
			o.ASave = short(err)
		}
		o.BSave = "not-called"
		finish(&o, root, env, nil)
		out.Emit(o)
		env.Close()
	}
	{ // a Save that fails AFTER its rename (<height>.json cannot be created) must not leave its height directory
		root, env, err := l.caseRoot(a, "twice-saveerr")
		if err != nil {
			return err
		}
		o := mk("save-error-after-rename")
		wa := newStepWriter(root, a)
		if err := wa.all(); err != nil {
			return err
		}
		if err := os.MkdirAll(isaac.BlockItemFilesPath(root, H), 0o700); err != nil { // a directory in the file's place
			return err
		}
		_, err = wa.save()
		o.ASave = short(err)
		o.BSave = "not-called"
		_ = os.Remove(isaac.BlockItemFilesPath(root, H))
		o.After = observeHeight(root, env, H, nil)
		if t := tempDirs(root); t != nil {
			o.TempAfterB = t
		}
		_ = wa.fs.Cancel()
		out.Emit(o)
		env.Close()
	}
	// both Save at the same moment (real goroutines; the schedule is whatever the run gives)
	for i := 0; i < races; i++ {
		root, env, err := l.caseRoot(a, "twice-race")
		if err != nil {
			return err
		}
		o := mk("race")
		o.Attempt = i
		wa, wb := newStepWriter(root, a), newStepWriter(root, b)
		if err := wa.all(); err != nil {
			return err
		}
		if err := wb.all(); err != nil {
			return err
		}
		var wg sync.WaitGroup
		start := make(chan struct{})
		var ea, eb error
		wg.Add(2)
		go func() { defer wg.Done(); <-start; _, ea = wa.save() }()
		go func() { defer wg.Done(); <-start; _, eb = wb.save() }()
		close(start)
		wg.Wait()
		o.ASave, o.BSave = short(ea), short(eb)
		if t := tempDirs(root); t != nil {
			o.TempAfterB = t
		}
		finish(&o, root, env, nil)
		out.Emit(o)
		env.Close()
		_ = os.RemoveAll(filepath.Dir(root))
	}
	_ = seed
	_ = context.Background
	return nil
}
