package fsstore

import (
	"context"
	"crypto/sha256"
	"fmt"
	"math/rand"
	"net/url"
	"os"
	"path/filepath"
	"sort"
	"strings"
	"sync"
	"sync/atomic"
	"time"

	"mitumverif/internal/c10"
	"mitumverif/internal/h"

	"github.com/pkg/errors"
	"github.com/spikeekips/mitum/base"
	"github.com/spikeekips/mitum/isaac"
)

type CleanHeight struct {
	H      int64  `json:"h"`
	Kind   string `json:"kind"` // what <h>.json names now: local | remote | mixed | none
	Dir    bool   `json:"dir"`
	Read   string `json:"read"` // "" = map and every item read with matching check sums
	DirSum bool   `json:"dir_same"` // directory content identical to the stored block (when Dir)
}

type CleanOut struct {
	Kind     string        `json:"kind"` // cleanup
	Scen     string        `json:"scen"`
	Removed  []int64       `json:"removed"` // WhenEmptyHeightDirectoryRemoved calls
	Pool     []int64       `json:"pool"`    // heights still queued in the (emulated) pool
	Heights  []CleanHeight `json:"heights"`
	Temp     []string      `json:"temp"`      // temp directories at the end
	TempGone bool          `json:"temp_gone"` // a writer's temp directory vanished while it was writing
	WSave    string        `json:"w_save,omitempty"`
	Notes    []string      `json:"notes"`
	Reads    int           `json:"reads"`
	BadReads []string      `json:"bad_reads"`
}

type pool struct {
	mu sync.Mutex
	m  map[base.Height]bool
}

func (p *pool) add(h base.Height) error    { p.mu.Lock(); p.m[h] = true; p.mu.Unlock(); return nil }
func (p *pool) remove(h base.Height) error { p.mu.Lock(); delete(p.m, h); p.mu.Unlock(); return nil }
func (p *pool) list() ([]base.Height, error) {
	p.mu.Lock()
	defer p.mu.Unlock()
	var out []base.Height
	for k := range p.m {
		out = append(out, k)
	}
	sort.Slice(out, func(i, j int) bool { return out[i] < out[j] })
	return out, nil
}

type cleanWorld struct {
	root    string
	env     *c10.Env
	top     base.Height
	baseURL string
	local   map[base.Height][]byte // the writer's own <h>.json
	remote  map[base.Height][]byte // every item behind http
	stored  map[base.Height]map[string]string
	pool    *pool
	after   atomic.Int64
	removed []int64
	rmu     sync.Mutex
}

func (cw *cleanWorld) args() *isaac.BlockItemReadersArgs {
	a := isaac.NewBlockItemReadersArgs()
	a.LoadEmptyHeightsFunc = cw.pool.list
	a.AddEmptyHeightFunc = cw.pool.add
	a.CancelAddedEmptyHeightFunc = cw.pool.remove
	a.RemoveEmptyAfter = func() time.Duration { return time.Duration(cw.after.Load()) }
	a.RemoveEmptyInterval = func() time.Duration { return 2 * time.Millisecond }
	a.WhenEmptyHeightDirectoryRemoved = func(h base.Height) {
		cw.rmu.Lock()
		cw.removed = append(cw.removed, h.Int64())
		cw.rmu.Unlock()
	}
	return a
}

// readHeight: map and every item through the readers (local or remote), check sums compared
func (cw *cleanWorld) readHeight(readers *isaac.BlockItemReaders, height base.Height) string {
	itemf := isaac.BlockItemReadersItemFuncWithRemote(readers, isaac.NewDefaultRemotesBlockItemReadFunc(), nil)(context.Background())
	bm, found, err := isaac.BlockItemReadersDecode[base.BlockMap](itemf, height, base.BlockItemMap, nil)
	if err != nil || !found {
		return fmt.Sprintf("map: found=%v %s", found, short(err))
	}
	res := ""
	bm.Items(func(item base.BlockMapItem) bool {
		_, found, err := itemf(height, item.Type(), func(ir isaac.BlockItemReader) error {
			hs := sha256.New()
			if _, err := ir.Reader().Tee(nil, hs); err != nil {
				return err
			}
			if _, err := ir.Reader().Decompress(); err != nil {
				return err
			}
			if err := ir.Reader().Exaust(); err != nil {
				return err
			}
			if hexsum(hs.Sum(nil)) != item.Checksum() {
				return errors.Errorf("checksum-mismatch")
			}
			return nil
		})
		if err != nil || !found {
			res = fmt.Sprintf("%s: found=%v %s", item.Type(), found, short(err))
			return false
		}
		return true
	})
	return res
}

func (cw *cleanWorld) kind(height base.Height) string {
	bf, found, err := isaac.LoadBlockItemFilesPath(cw.root, height, cw.env.Encs.JSON())
	if err != nil || !found {
		return "none"
	}
	nl, nr := 0, 0
	for _, f := range bf.Items() {
		if isaac.IsInLocalBlockItemFile(f.URI()) {
			nl++
		} else {
			nr++
		}
	}
	switch {
	case nr == 0:
		return "local"
	case nl == 0:
		return "remote"
	default:
		return "mixed"
	}
}

func (cw *cleanWorld) snapshot(o *CleanOut, readers *isaac.BlockItemReaders) {
	for i := base.GenesisHeight; i <= cw.top; i++ {
		ch := CleanHeight{H: i.Int64(), Kind: cw.kind(i), Dir: exists(hdirOf(cw.root, i))}
		ch.Read = cw.readHeight(readers, i)
		if ch.Dir {
			ch.DirSum = sameTree(cw.stored[i], sub(treeSum(cw.root), relHdir(i))) == nil
		}
		o.Heights = append(o.Heights, ch)
	}
	cw.rmu.Lock()
	o.Removed = append([]int64{}, cw.removed...)
	cw.rmu.Unlock()
	hs, _ := cw.pool.list()
	o.Pool = []int64{}
	for _, x := range hs {
		o.Pool = append(o.Pool, x.Int64())
	}
	if t := tempDirs(cw.root); t != nil {
		o.Temp = t
	} else {
		o.Temp = []string{}
	}
}

func newCleanWorld(l *lab, baseURL, remoteDir string) (*cleanWorld, *source, error) {
	next, err := l.source(3, altBlock(4), "h4")
	if err != nil {
		return nil, nil, err
	}
	root, env, err := l.caseRoot(next, "cleanup")
	if err != nil {
		return nil, nil, err
	}
	cw := &cleanWorld{root: root, env: env, top: next.height - 1, baseURL: baseURL, pool: &pool{m: map[base.Height]bool{}},
		local: map[base.Height][]byte{}, remote: map[base.Height][]byte{}, stored: map[base.Height]map[string]string{}}
	cw.after.Store(int64(time.Hour))
	tag := filepath.Base(filepath.Dir(root))
	for i := base.GenesisHeight; i <= cw.top; i++ {
		b, err := os.ReadFile(isaac.BlockItemFilesPath(root, i))
		if err != nil {
			return nil, nil, err
		}
		cw.local[i] = b
		cw.stored[i] = sub(treeSum(root), relHdir(i))
		bf, _, err := isaac.LoadBlockItemFilesPath(root, i, env.Encs.JSON())
		if err != nil {
			return nil, nil, err
		}
		mk := isaac.NewBlockItemFilesMaker(env.Encs.JSON())
		for t, f := range bf.Items() {
			name := strings.TrimPrefix(f.URI().Path, "/")
			rn := fmt.Sprintf("%s-%d-%s", tag, i, name)
			body, err := os.ReadFile(filepath.Join(hdirOf(root, i), name))
			if err != nil {
				return nil, nil, err
			}
			if err := os.WriteFile(filepath.Join(remoteDir, rn), body, 0o600); err != nil {
				return nil, nil, err
			}
			u, _ := url.Parse(baseURL + "/" + rn)
			if _, err := mk.SetItem(t, isaac.NewBlockItemFile(*u, f.CompressFormat())); err != nil {
				return nil, nil, err
			}
		}
		if cw.remote[i], err = mk.Bytes(); err != nil {
			return nil, nil, err
		}
	}
	return cw, next, nil
}

func waitFor(d time.Duration, f func() bool) bool {
	end := time.Now().Add(d)
	for time.Now().Before(end) {
		if f() {
			return true
		}
		time.Sleep(2 * time.Millisecond)
	}
	return f()
}

func cleanupCases(l *lab, seed int64, out *h.Out) error {
	remoteDir := l.fresh("remote")
	if err := os.MkdirAll(remoteDir, 0o700); err != nil {
		return err
	}
	baseURL, stop, err := fileServer(remoteDir)
	if err != nil {
		return err
	}
	defer stop()
	ctx, cancel := context.WithCancel(context.Background())
	defer cancel()

	scen := func(name string, f func(cw *cleanWorld, next *source, readers *isaac.BlockItemReaders, o *CleanOut) error) error {
		cw, next, err := newCleanWorld(l, baseURL, remoteDir)
		if err != nil {
			return err
		}
		defer cw.env.Close()
		readers := newReaders(cw.root, cw.env, cw.args())
		if err := readers.Start(ctx); err != nil {
			return err
		}
		defer readers.Close()
		o := CleanOut{Kind: "cleanup", Scen: name, Notes: []string{}, BadReads: []string{}, Heights: []CleanHeight{}}
		if p := h.Catch(func() { err = f(cw, next, readers, &o) }); p != "" {
			o.Notes = append(o.Notes, p)
		}
		if err != nil {
			return errors.WithMessage(err, name)
		}
		out.Emit(o)
		return nil
	}
	removedHas := func(cw *cleanWorld, x int64) bool {
		cw.rmu.Lock()
		defer cw.rmu.Unlock()
		for _, r := range cw.removed {
			if r == x {
				return true
			}
		}
		return false
	}

	// S1: every item of height 1 moved to a remote; the pass removes the directory, nothing else
	if err := scen("upload-remote", func(cw *cleanWorld, _ *source, readers *isaac.BlockItemReaders, o *CleanOut) error {
		if _, err := readers.WriteItemFiles(1, cw.remote[1]); err != nil {
			return err
		}
		cw.after.Store(int64(time.Millisecond))
		if !waitFor(3*time.Second, func() bool { return removedHas(cw, 1) }) {
			o.Notes = append(o.Notes, "no-removal-observed")
		}
		time.Sleep(30 * time.Millisecond)
		cw.snapshot(o, readers)
		return nil
	}); err != nil {
		return err
	}
	// S2: moved to a remote and back to the local files before the pass
	if err := scen("upload-remote-then-local", func(cw *cleanWorld, _ *source, readers *isaac.BlockItemReaders, o *CleanOut) error {
		if _, err := readers.WriteItemFiles(1, cw.remote[1]); err != nil {
			return err
		}
		if _, err := readers.WriteItemFiles(1, cw.local[1]); err != nil {
			return err
		}
		cw.after.Store(int64(time.Millisecond))
		time.Sleep(150 * time.Millisecond)
		cw.snapshot(o, readers)
		return nil
	}); err != nil {
		return err
	}
	// S3: restart with a pool that still lists heights: 1 (remote now), 2 (local again: the cancel was
	// lost), 4 (being written: temp directory only)
	if err := scen("restart-with-stale-pool", func(cw *cleanWorld, next *source, readers *isaac.BlockItemReaders, o *CleanOut) error {
		if _, err := readers.WriteItemFiles(1, cw.remote[1]); err != nil {
			return err
		}
		_ = cw.pool.add(2)
		_ = cw.pool.add(4)
		sw := newStepWriter(cw.root, next)
		if err := sw.upTo(5); err != nil {
			return err
		}
		before := tempDirs(cw.root)
		r2 := newReaders(cw.root, cw.env, cw.args()) // loadAndRemoveEmptyHeightDirectories runs in the constructor
		defer r2.Close()
		o.TempGone = len(tempDirs(cw.root)) < len(before)
		if err := sw.all(); err != nil {
			o.WSave = "steps: " + short(err)
		} else {
			_, err := sw.save()
			o.WSave = short(err)
		}
		cw.top = next.height
		cw.stored[next.height] = sub(treeSum(cw.root), relHdir(next.height))
		cw.snapshot(o, r2)
		return nil
	}); err != nil {
		return err
	}
	// S4: concurrent: passes every 2 ms, uploads of heights 1..3 to the remote at random moments, a
	// writer storing height 4 step by step, a reader reading everything all the time
	return scen("concurrent", func(cw *cleanWorld, next *source, readers *isaac.BlockItemReaders, o *CleanOut) error {
		rnd := rand.New(rand.NewSource(seed))
		cw.after.Store(int64(time.Millisecond))
		var wg sync.WaitGroup
		stopc := make(chan struct{})
		var mu sync.Mutex
		wg.Add(1)
		go func() { // reader
			defer wg.Done()
			for {
				select {
				case <-stopc:
					return
				default:
				}
				for i := base.GenesisHeight; i <= cw.top; i++ {
					r := cw.readHeight(readers, i)
					mu.Lock()
					o.Reads++
					if r != "" {
						o.BadReads = append(o.BadReads, fmt.Sprintf("%d: %s", i, r))
					}
					mu.Unlock()
				}
			}
		}()
		delays := []int{rnd.Intn(20), rnd.Intn(20), rnd.Intn(20)}
		wg.Add(1)
		go func() { // operator
			defer wg.Done()
			for i, d := range delays {
				time.Sleep(time.Duration(d) * time.Millisecond)
				if _, err := readers.WriteItemFiles(base.Height(i+1), cw.remote[base.Height(i+1)]); err != nil {
					mu.Lock()
					o.Notes = append(o.Notes, "upload: "+short(err))
					mu.Unlock()
				}
			}
		}()
		sw := newStepWriter(cw.root, next)
		for sw.next < len(writerSteps) {
			if _, err := sw.step(); err != nil {
				o.WSave = "steps: " + short(err)
				break
			}
			if len(tempDirs(cw.root)) < 1 {
				o.TempGone = true
			}
			time.Sleep(time.Duration(rnd.Intn(8)) * time.Millisecond)
		}
		if o.WSave == "" {
			_, err := sw.save()
			o.WSave = short(err)
		}
		waitFor(2*time.Second, func() bool { return removedHas(cw, 1) && removedHas(cw, 2) && removedHas(cw, 3) })
		close(stopc)
		wg.Wait()
		cw.top = next.height
		cw.stored[next.height] = sub(treeSum(cw.root), relHdir(next.height))
		cw.snapshot(o, readers)
		return nil
	})
}
