package fsstore

import (
	"context"
	"crypto/sha256"
	"io"
	"os"
	"path/filepath"

	"mitumverif/internal/c10"
	"mitumverif/internal/h"

	"github.com/rs/zerolog"
	"github.com/spikeekips/mitum/base"
	"github.com/spikeekips/mitum/isaac"
	isaacblock "github.com/spikeekips/mitum/isaac/block"
	"github.com/spikeekips/mitum/launch"
	"github.com/spikeekips/mitum/util"
	"github.com/spikeekips/mitum/util/logging"
)

// ItemObs: what the readers give for one item the block map names
type ItemObs struct {
	T       string `json:"t"`
	Found   bool   `json:"found"`             // raw bytes handed out (Reader)
	SumOK   bool   `json:"sum_ok"`            // sha256(decompressed bytes) = check sum in the map
	Err     string `json:"err,omitempty"`     // error of the raw read
	Decoded bool   `json:"decoded"`           // Item() decoded it
	DErr    string `json:"derr,omitempty"`
}

// HeightObs: one height as a freshly started reader sees it
type HeightObs struct {
	H        int64     `json:"h"`
	Dir      bool      `json:"dir"`   // height directory exists
	FJ       string    `json:"fj"`    // <h>.json on disk: none | empty | partial | full
	Files    string    `json:"files"` // ItemFiles: found | notfound | error
	Map      string    `json:"map"`   // block map through the readers: found | notfound | error
	MapHash  string    `json:"maphash,omitempty"`
	MapErr   string    `json:"maperr,omitempty"`
	Items    []ItemObs `json:"items"`
	ValidErr string    `json:"valid_err"` // IsValidBlockFromLocalFS
}

// Obs: one (re)start of a node on a data directory + database
type Obs struct {
	CleanErr   string      `json:"clean_err,omitempty"`
	TempLeft   []string    `json:"temp_left"`
	CheckA     string      `json:"check_a"` // launch.PCheckBlocksOfStorage error ("" = passed)
	CheckB     string      `json:"check_b"` // launch.PLoadFromDatabase error
	LastErr    string      `json:"last_err"`// isaacblock.IsValidLastBlocks (what CheckA looks at)
	DBLast     int64       `json:"db_last"`
	Highest    int64       `json:"highest"` // FindHighestDirectory
	AllMapsErr string      `json:"allmaps_err"` // IsValidAllBlockMapsFromLocalFS(0..Highest)
	Heights    []HeightObs `json:"heights"`
	Retry      string      `json:"retry"`      // "" not tried | "ok" | error of a fresh writer's Save for DBLast+1
	RetryStep  string      `json:"retry_step,omitempty"`
	After      *HeightObs  `json:"after,omitempty"` // the height after a successful retry
	Panic      string      `json:"panic,omitempty"`
}

func newReaders(root string, env *c10.Env, args *isaac.BlockItemReadersArgs) *isaac.BlockItemReaders {
	r := isaac.NewBlockItemReaders(root, env.Encs, args)
	_ = r.Add(isaacblock.LocalFSWriterHint, isaacblock.NewDefaultItemReaderFunc(3))
	return r
}

func fjState(root string, height base.Height, full []byte) string {
	b, err := os.ReadFile(isaac.BlockItemFilesPath(root, height))
	switch {
	case err != nil:
		return "none"
	case len(b) == 0:
		return "empty"
	case full != nil && len(b) < len(full):
		return "partial"
	default:
		return "full"
	}
}

func observeHeight(root string, env *c10.Env, height base.Height, fullFJ []byte) HeightObs {
	o := HeightObs{H: height.Int64(), Dir: exists(hdirOf(root, height)), FJ: fjState(root, height, fullFJ), Items: []ItemObs{}}
	// (readers of an observation are never closed: util.BatchWork returns on the first error while its
	// other jobs still run, and a closed BlockItemReaders makes them panic)
	readers := newReaders(root, env, nil)
	switch _, found, err := readers.ItemFiles(height); {
	case err != nil:
		o.Files = "error"
	case !found:
		o.Files = "notfound"
	default:
		o.Files = "found"
	}
	bm, found, err := isaac.BlockItemReadersDecode[base.BlockMap](readers.Item, height, base.BlockItemMap, nil)
	switch {
	case err != nil:
		o.Map, o.MapErr = "error", short(err)
	case !found:
		o.Map = "notfound"
	default:
		o.Map = "found"
		o.MapHash = bm.Manifest().Hash().String()
		bm.Items(func(item base.BlockMapItem) bool {
			ob := ItemObs{T: item.Type().String()}
			found, err := readers.Reader(height, item.Type(), func(r io.Reader, compressFormat string) error {
				cr, err := util.NewCompressedReader(r, compressFormat, nil)
				if err != nil {
					return err
				}
				dr, err := cr.Decompress()
				if err != nil {
					return err
				}
				hs := sha256.New()
				if _, err := io.Copy(hs, dr); err != nil {
					return err
				}
				ob.SumOK = hexsum(hs.Sum(nil)) == item.Checksum()
				return nil
			})
			ob.Found, ob.Err = found && err == nil, short(err)
			_, dfound, derr := readers.Item(height, item.Type(), func(ir isaac.BlockItemReader) error {
				switch item.Type() {
				case base.BlockItemOperations, base.BlockItemStates:
					_, err := ir.DecodeItems(func(uint64, uint64, interface{}) error { return nil })
					return err
				default:
					_, err := ir.Decode()
					return err
				}
			})
			ob.Decoded, ob.DErr = dfound && derr == nil, short(derr)
			o.Items = append(o.Items, ob)
			return true
		})
	}
	o.ValidErr = short(isaacblock.IsValidBlockFromLocalFS(readers.Item, height, env.NetworkID, nil, nil, nil))
	return o
}

func hexsum(b []byte) string {
	const hexd = "0123456789abcdef"
	out := make([]byte, len(b)*2)
	for i, c := range b {
		out[i*2], out[i*2+1] = hexd[c>>4], hexd[c&15]
	}
	return string(out)
}

// startup runs what `run` does with the local fs before the node serves anything:
// launch.PCheckLocalFS's temp clean-up, launch.PCheckBlocksOfStorage, launch.PLoadFromDatabase
// (the real functions, on a context built with launch's own P-functions).
func startup(root string, env *c10.Env, o *Obs) {
	if err := isaacblock.CleanBlockTempDirectory(root); err != nil {
		o.CleanErr = short(err)
	}
	o.TempLeft = tempDirs(root)
	if o.TempLeft == nil {
		o.TempLeft = []string{}
	}
	log := logging.NewLogging(func(z zerolog.Context) zerolog.Context { return z })
	design := launch.NodeDesign{Storage: launch.NodeStorageDesign{Base: filepath.Dir(root)}}
	pctx := context.Background()
	pctx = context.WithValue(pctx, launch.LoggingContextKey, log)
	pctx = context.WithValue(pctx, launch.DesignContextKey, design)
	pctx = context.WithValue(pctx, launch.EncodersContextKey, env.Encs)
	pctx = context.WithValue(pctx, launch.ISAACParamsContextKey, env.Params)
	pctx = context.WithValue(pctx, launch.CenterDatabaseContextKey, isaac.Database(env.DB))
	var err error
	for _, f := range []func(context.Context) (context.Context, error){
		launch.PBlockItemReadersDecompressFunc, launch.PBlockItemReaders, launch.PRemotesBlockItemReaderFunc,
	} {
		if pctx, err = f(pctx); err != nil {
			o.CheckA, o.CheckB = "machinery: "+short(err), "machinery: "+short(err)
			return
		}
	}
	if _, err := launch.PCheckBlocksOfStorage(pctx); err != nil {
		o.CheckA = short(err)
	}
	if _, err := launch.PLoadFromDatabase(pctx); err != nil {
		o.CheckB = short(err)
	}
	readers := newReaders(root, env, nil)
	o.LastErr = short(isaacblock.IsValidLastBlocks(readers, isaac.NewDefaultRemotesBlockItemReadFunc(), env.DB, env.NetworkID))
}

// observe: restart on (root, database of env) and look at every height up to `top`.
// retry: items of the height the database expects next (nil: none).
func observe(root string, env *c10.Env, top base.Height, fullFJ map[int64][]byte, retry *source) (o Obs) {
	o.Heights = []HeightObs{}
	o.Highest, o.DBLast = -1, -1
	if p := h.Catch(func() {
		startup(root, env, &o)
		if m, found, err := env.DB.LastBlockMap(); err == nil && found {
			o.DBLast = m.Manifest().Height().Int64()
		}
		if hh, _, found, err := isaacblock.FindHighestDirectory(root); err == nil && found {
			o.Highest = hh.Int64()
			readers := newReaders(root, env, nil)
			o.AllMapsErr = short(isaacblock.IsValidAllBlockMapsFromLocalFS(readers, hh, env.NetworkID))
		} else if err != nil {
			o.AllMapsErr = "find highest: " + short(err)
		}
		for i := base.GenesisHeight; i <= top; i++ {
			o.Heights = append(o.Heights, observeHeight(root, env, i, fullFJ[i.Int64()]))
		}
		if retry != nil && retry.height.Int64() == o.DBLast+1 {
			sw := newStepWriter(root, retry)
			if err := sw.all(); err != nil {
				o.Retry, o.RetryStep = short(err), writerSteps[sw.next-1]
				return
			}
			if _, err := sw.save(); err != nil {
				o.Retry, o.RetryStep = short(err), "save"
				_ = sw.fs.Cancel()
				return
			}
			o.Retry = "ok"
			a := observeHeight(root, env, retry.height, nil)
			o.After = &a
		}
	}); p != "" {
		o.Panic = p
	}
	return o
}
