package c10

import (
	"crypto/sha1"
	"encoding/hex"
	"encoding/json"
	"fmt"
	"os"
	"path/filepath"
	"sync"

	"github.com/pkg/errors"
	"github.com/spikeekips/mitum/base"
	"github.com/spikeekips/mitum/isaac"
	isaacoperation "github.com/spikeekips/mitum/isaac/operation"
	"github.com/spikeekips/mitum/launch"
	"github.com/spikeekips/mitum/util"
	"github.com/spikeekips/mitum/util/valuehash"
)

// BlockT is a model block: operations in proposal order. Operations of kind "expel" are
// carried by the INIT voteproof (in their order), "unknown" is a hash pair nobody can resolve.
type BlockT struct {
	Ops []OpT `json:"ops"`
}

// ChainT is a model chain: genesis members + threshold, then blocks at heights 1..n.
type ChainT struct {
	Genesis []string `json:"genesis"`
	T10     int      `json:"t10"` // threshold * 10
	Blocks  []BlockT `json:"blocks"`
}

type MemberP struct {
	N     string `json:"n"`
	Key   string `json:"key"`
	Start int64  `json:"start"`
}

type CandP struct {
	N        string `json:"n"`
	Key      string `json:"key"`
	Start    int64  `json:"start"`
	Deadline int64  `json:"deadline"`
}

// Proj is what the database says after a block, in model terms. *At is the height of the
// state (-1: no such state), *Ops the number of operations recorded in it.
type Proj struct {
	Height  int64     `json:"height"`
	Members []MemberP `json:"members"`
	SufH    int64     `json:"sufh"`
	SufAt   int64     `json:"suf_at"`
	SufOps  int       `json:"suf_ops"`
	Cands   []CandP   `json:"cands"`
	CandAt  int64     `json:"cand_at"`
	CandOps int       `json:"cand_ops"`
	Policy  string    `json:"policy"`
	PolAt   int64     `json:"pol_at"`
	PolOps  int       `json:"pol_ops"`
}

// World is a chain built on a real node, with a snapshot from which it can be forked.
type World struct {
	Chain  ChainT
	Cast   *Cast
	Env    *Env
	Projs  []Proj       // after genesis, after block 1, ...
	Runs   []*RunResult // per block (nil for genesis)
	Preps  []*Prepared
	kvs    [][2][]byte
	thresh base.Threshold
}

func (c ChainT) key(n int) string {
	b, _ := json.Marshal(ChainT{Genesis: c.Genesis, T10: c.T10, Blocks: c.Blocks[:n]})
	h := sha1.Sum(b)
	return hex.EncodeToString(h[:8])
}

// BuildWorld generates genesis as launch/genesis.go does and then every block of the chain
// through the full pipeline (Process + Save). It fails (error) when a block cannot be made.
func BuildWorld(root string, chain ChainT, workers int64) (*World, error) {
	tag := chain.key(0)
	networkID := base.NetworkID([]byte("verif-net-" + tag))
	cast := NewCast(tag, networkID)
	th := base.Threshold(float64(chain.T10) / 10)
	if len(chain.Genesis) < 1 {
		return nil, errors.Errorf("empty genesis")
	}
	local := cast.Actor(chain.Genesis[0]).Local()
	env, err := NewEnv(root, networkID, th, local, nil)
	if err != nil {
		return nil, err
	}
	w := &World{Chain: chain, Cast: cast, Env: env, thresh: th}

	nodes := make([]base.Node, len(chain.Genesis))
	for i, n := range chain.Genesis {
		a := cast.Actor(n)
		nodes[i] = isaac.NewNode(a.Own.Publickey(), a.Addr)
	}
	facts := []base.Fact{
		isaacoperation.NewSuffrageGenesisJoinFact(nodes, networkID),
		isaacoperation.NewGenesisNetworkPolicyFact(Policy("p0")),
	}
	g := launch.NewGenesisBlockGenerator(local, networkID, env.Encs, env.DB, root, facts,
		func() (base.BlockMap, bool, error) { return env.DB.LastBlockMap() })
	bm, err := g.Generate()
	if err != nil {
		return nil, errors.WithMessage(err, "genesis")
	}
	env.Prev = bm.Manifest()
	p, err := w.Project()
	if err != nil {
		return nil, err
	}
	w.Projs = append(w.Projs, p)
	w.Runs = append(w.Runs, nil)
	w.Preps = append(w.Preps, nil)

	for i := range chain.Blocks {
		prep, err := w.PrepareBlock(env, chain.Blocks[i])
		if err != nil {
			return nil, errors.WithMessage(err, fmt.Sprintf("prepare block %d", i+1))
		}
		r := env.Run(prep, RunOpts{Workers: workers, Save: true})
		if r.Err != "" || r.Panic != "" {
			return nil, errors.Errorf("block %d: %s%s", i+1, r.Err, r.Panic)
		}
		p, err := w.Project()
		if err != nil {
			return nil, err
		}
		w.Projs = append(w.Projs, p)
		w.Runs = append(w.Runs, r)
		w.Preps = append(w.Preps, prep)
	}
	if w.kvs, err = env.Snapshot(); err != nil {
		return nil, err
	}
	return w, nil
}

// Fork opens a fresh node holding the same database content (block files are not copied).
func (w *World) Fork(root string) (*Env, error) {
	return Fork(root, w.Env.NetworkID, w.thresh, w.Env.Local, w.kvs)
}

// Project reads the three built-in states from the node's database.
func (w *World) Project() (Proj, error) { return w.ProjectEnv(w.Env) }

func (w *World) ProjectEnv(env *Env) (Proj, error) {
	p := Proj{SufAt: -1, CandAt: -1, PolAt: -1, Height: -1}
	if env.Prev != nil {
		p.Height = env.Prev.Height().Int64()
	}
	switch st, found, err := env.DB.State(isaac.SuffrageStateKey); {
	case err != nil:
		return p, err
	case found:
		v, err := base.LoadSuffrageNodesStateValue(st)
		if err != nil {
			return p, err
		}
		p.SufH = v.Height().Int64()
		p.SufAt = st.Height().Int64()
		p.SufOps = len(st.Operations())
		for _, n := range v.Nodes() {
			name := w.Cast.NameOf(n.Address())
			p.Members = append(p.Members, MemberP{N: name, Key: w.Cast.KeyTag(name, n.Publickey()), Start: n.Start().Int64()})
		}
	}
	switch st, found, err := env.DB.State(isaac.SuffrageCandidateStateKey); {
	case err != nil:
		return p, err
	case found:
		nodes, err := base.LoadNodesFromSuffrageCandidatesState(st)
		if err != nil {
			return p, err
		}
		p.CandAt = st.Height().Int64()
		p.CandOps = len(st.Operations())
		for _, n := range nodes {
			name := w.Cast.NameOf(n.Address())
			p.Cands = append(p.Cands, CandP{
				N: name, Key: w.Cast.KeyTag(name, n.Publickey()),
				Start: n.Start().Int64(), Deadline: n.Deadline().Int64(),
			})
		}
	}
	switch st, found, err := env.DB.State(isaac.NetworkPolicyStateKey); {
	case err != nil:
		return p, err
	case found:
		v, ok := st.Value().(base.NetworkPolicyStateValue)
		if !ok {
			return p, errors.Errorf("policy state value is %T", st.Value())
		}
		p.Policy = PolicyTag(v.Policy())
		p.PolAt = st.Height().Int64()
		p.PolOps = len(st.Operations())
	}
	if p.Members == nil {
		p.Members = []MemberP{}
	}
	if p.Cands == nil {
		p.Cands = []CandP{}
	}
	return p, nil
}

// PrepareBlock turns a model block into a signed proposal and INIT voteproof on top of
// env's last block: proposer = first current member, voters = every current member that is
// not expelled by this block, each with the key it is registered with.
func (w *World) PrepareBlock(env *Env, b BlockT) (*Prepared, error) {
	proj, err := w.ProjectEnv(env)
	if err != nil {
		return nil, err
	}
	height := env.Prev.Height() + 1
	in := BlockInput{Point: base.NewPoint(height, 0), NilPairs: map[int][2]util.Hash{}}
	expelled := map[string]bool{}
	for _, t := range b.Ops {
		switch t.K {
		case "expel":
			op, err := w.Cast.Op(t)
			if err != nil {
				return nil, err
			}
			x, ok := op.(isaac.SuffrageExpelOperation)
			if !ok {
				return nil, errors.Errorf("expel operation is %T", op)
			}
			in.Expels = append(in.Expels, x)
			expelled[t.N] = true
		case "unknown":
			in.NilPairs[len(in.Ops)] = [2]util.Hash{
				valuehash.NewSHA256([]byte("unknown-op-" + t.ID)), valuehash.NewSHA256([]byte("unknown-fact-" + t.ID)),
			}
			in.Ops = append(in.Ops, nil)
		default:
			op, err := w.Cast.Op(t)
			if err != nil {
				return nil, errors.WithMessage(err, "build "+t.ID)
			}
			in.Ops = append(in.Ops, op)
		}
	}
	for _, m := range proj.Members {
		if in.Proposer == nil {
			in.Proposer = w.Cast.Actor(m.N)
		}
		if !expelled[m.N] {
			in.Voters = append(in.Voters, Voter{A: w.Cast.Actor(m.N), K: m.Key})
		}
	}
	if in.Proposer == nil {
		return nil, errors.Errorf("no member to propose")
	}
	ids := map[string]string{}
	for _, t := range b.Ops {
		if t.K == "expel" {
			op, _ := w.Cast.Op(t)
			ids[op.Hash().String()] = t.ID
		}
	}
	prep, err := env.Prepare(in)
	if err != nil {
		return nil, err
	}
	for _, x := range prep.In.Expels { // sorted by SetExpels
		prep.ExpelIDs = append(prep.ExpelIDs, ids[x.Hash().String()])
	}
	return prep, nil
}

// ---------------------------------------------------------------- world cache

type Worlds struct {
	mu   sync.Mutex
	dir  string
	m    map[string]*World
	errs map[string]error
	n    int
}

func NewWorlds(dir string) *Worlds {
	return &Worlds{dir: dir, m: map[string]*World{}, errs: map[string]error{}}
}

// Get builds (once) the world of the first n blocks of the chain.
func (ws *Worlds) Get(chain ChainT, n int) (*World, error) {
	k := chain.key(n)
	ws.mu.Lock()
	defer ws.mu.Unlock()
	if w, ok := ws.m[k]; ok {
		return w, nil
	}
	if err, ok := ws.errs[k]; ok {
		return nil, err
	}
	ws.n++
	root := filepath.Join(ws.dir, fmt.Sprintf("world-%d-%s", ws.n, k))
	sub := ChainT{Genesis: chain.Genesis, T10: chain.T10, Blocks: chain.Blocks[:n]}
	w, err := BuildWorld(root, sub, 7)
	if err != nil {
		ws.errs[k] = err
		return nil, err
	}
	ws.m[k] = w
	return w, nil
}

func (ws *Worlds) Close() {
	ws.mu.Lock()
	defer ws.mu.Unlock()
	for _, w := range ws.m {
		w.Env.Close()
	}
	_ = os.RemoveAll(ws.dir)
}
