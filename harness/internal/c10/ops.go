package c10

import (
	"encoding/json"
	"fmt"
	"strings"
	"sync"

	"github.com/pkg/errors"
	"github.com/spikeekips/mitum/base"
	"github.com/spikeekips/mitum/isaac"
	isaacoperation "github.com/spikeekips/mitum/isaac/operation"
	"github.com/spikeekips/mitum/util"
	"github.com/spikeekips/mitum/util/valuehash"
)

// SignT is a model signature: node name + key tag.
//
//	own    signed with the node's own key
//	alt    signed with another key under the node's address
//	forged claims the node's own public key, the signature was made with the other key
type SignT struct {
	N string `json:"n"`
	K string `json:"k"`
}

// OpT is a model operation (a catalogue entry of spec/BlockProcess.tla).
type OpT struct {
	ID    string  `json:"id"`
	K     string  `json:"k"`   // join | cand | disjoin | expel | policy | unknown
	N     string  `json:"n"`   // target node
	Key   string  `json:"key"` // cand: the key the candidate declares
	S     int64   `json:"s"`   // join/disjoin: start; expel: first height
	E     int64   `json:"e"`   // expel: last height
	Pol   string  `json:"pol"` // policy: new policy tag
	Signs []SignT `json:"signs"`
}

// Policies are the model's policy tags.
func Policy(tag string) isaac.NetworkPolicy {
	p := isaac.DefaultNetworkPolicy()
	p.SetSuffrageCandidateLifespan(2)
	p.SetSuffrageCandidateLimiterRule(isaac.NewFixedSuffrageCandidateLimiterRule(2))
	switch tag {
	case "p0":
	case "p1":
		p.SetMaxOperationsInProposal(99)
	case "p2":
		p.SetMaxOperationsInProposal(77)
		p.SetSuffrageCandidateLifespan(3)
	default:
		panic("unknown policy tag " + tag)
	}
	return p
}

func PolicyTag(p base.NetworkPolicy) string {
	if p == nil {
		return ""
	}
	for _, t := range []string{"p0", "p1", "p2"} {
		if base.IsEqualNetworkPolicy(Policy(t), p) {
			return t
		}
	}
	return "?"
}

// Cast maps model names to real nodes and caches the real operations by catalogue id, so
// that the same model operation is the same real operation wherever it is used.
type Cast struct {
	Tag       string
	NetworkID base.NetworkID
	mu        sync.Mutex // cases run in parallel on one world
	actors    map[string]*Actor
	ops       map[string]base.Operation
}

func NewCast(tag string, networkID base.NetworkID) *Cast {
	return &Cast{Tag: tag, NetworkID: networkID, actors: map[string]*Actor{}, ops: map[string]base.Operation{}}
}

func (c *Cast) Actor(name string) *Actor {
	c.mu.Lock()
	defer c.mu.Unlock()
	a, ok := c.actors[name]
	if !ok {
		a = NewActor(c.Tag, name)
		c.actors[name] = a
	}
	return a
}

// NameOf maps an address back to the model name.
func (c *Cast) NameOf(addr base.Address) string {
	s := addr.String()
	return strings.TrimPrefix(strings.TrimSuffix(s, base.StringAddressHint.Type().String()), "nd-")
}

// KeyTag tells which of the actor's keys a public key is.
func (c *Cast) KeyTag(name string, pub base.Publickey) string {
	a := c.Actor(name)
	switch {
	case pub == nil:
		return "nil"
	case pub.Equal(a.Own.Publickey()):
		return "own"
	case pub.Equal(a.Alt.Publickey()):
		return "alt"
	default:
		return "?"
	}
}

func (c *Cast) sign(s SignT, fact base.Fact) (base.BaseNodeSign, error) {
	a := c.Actor(s.N)
	switch s.K {
	case "own", "alt":
		return base.NewBaseNodeSignFromFact(a.Addr, a.Key(s.K), c.NetworkID, fact)
	case "forged":
		x, err := base.NewBaseNodeSignFromFact(a.Addr, a.Alt, c.NetworkID, fact)
		if err != nil {
			return x, err
		}
		return base.NewBaseNodeSign(a.Addr, a.Own.Publickey(), x.Signature(), x.SignedAt()), nil
	default:
		return base.BaseNodeSign{}, errors.Errorf("unknown key tag %q", s.K)
	}
}

type nodeSignSetter interface {
	SetNodeSigns([]base.NodeSign) error
}

// Op builds (once) the real, really signed operation of a model operation.
func (c *Cast) Op(t OpT) (base.Operation, error) {
	c.mu.Lock()
	op, ok := c.ops[t.ID]
	c.mu.Unlock()
	if ok {
		return op, nil
	}
	built, err := c.build(t)
	if err != nil {
		return nil, err
	}
	c.mu.Lock()
	defer c.mu.Unlock()
	if op, ok := c.ops[t.ID]; ok { // built twice at the same moment: keep the first
		return op, nil
	}
	c.ops[t.ID] = built
	return built, nil
}

func (c *Cast) build(t OpT) (base.Operation, error) {
	token := base.Token([]byte("verif-" + t.ID))
	var fact base.Fact
	var setter nodeSignSetter
	switch t.K {
	case "join":
		f := isaacoperation.NewSuffrageJoinFact(token, c.Actor(t.N).Addr, base.Height(t.S))
		o := isaacoperation.NewSuffrageJoin(f)
		fact, setter = f, &o
	case "cand":
		f := isaacoperation.NewSuffrageCandidateFact(token, c.Actor(t.N).Addr, c.Actor(t.N).Key(t.Key).Publickey())
		o := isaacoperation.NewSuffrageCandidate(f)
		fact, setter = f, &o
	case "disjoin":
		f := isaacoperation.NewSuffrageDisjoinFact(token, c.Actor(t.N).Addr, base.Height(t.S))
		o := isaacoperation.NewSuffrageDisjoin(f)
		fact, setter = f, &o
	case "expel":
		f := isaac.NewSuffrageExpelFact(c.Actor(t.N).Addr, base.Height(t.S), base.Height(t.E), "verif "+t.ID)
		o := isaac.NewSuffrageExpelOperation(f)
		fact, setter = f, &o
	case "policy":
		f := isaacoperation.NewNetworkPolicyFact(token, Policy(t.Pol))
		o := isaacoperation.NewNetworkPolicy(f)
		fact, setter = f, &o
	default:
		return nil, errors.Errorf("unknown operation kind %q", t.K)
	}
	signs := make([]base.NodeSign, len(t.Signs))
	dup := false
	seen := map[string]bool{}
	for i, s := range t.Signs {
		ns, err := c.sign(s, fact)
		if err != nil {
			return nil, err
		}
		signs[i] = ns
		if seen[s.N] {
			dup = true
		}
		seen[s.N] = true
	}
	if !dup {
		if err := setter.SetNodeSigns(signs); err != nil {
			return nil, err
		}
		return derefOp(setter), nil
	}
	// duplicated node signs cannot be made through the API: decode them, as the network would
	first := make([]base.NodeSign, 0, len(signs))
	seen = map[string]bool{}
	for i, s := range t.Signs {
		if !seen[s.N] {
			first = append(first, signs[i])
		}
		seen[s.N] = true
	}
	if err := setter.SetNodeSigns(first); err != nil {
		return nil, err
	}
	return c.reencode(derefOp(setter), fact, signs)
}

func derefOp(s nodeSignSetter) base.Operation {
	switch o := s.(type) {
	case *isaacoperation.SuffrageJoin:
		return *o
	case *isaacoperation.SuffrageCandidate:
		return *o
	case *isaacoperation.SuffrageDisjoin:
		return *o
	case *isaac.SuffrageExpelOperation:
		return *o
	case *isaacoperation.NetworkPolicy:
		return *o
	}
	panic(fmt.Sprintf("unknown op type %T", s))
}

func (c *Cast) reencode(op base.Operation, fact base.Fact, signs []base.NodeSign) (base.Operation, error) {
	_, enc := Encoders()
	b, err := enc.Marshal(op)
	if err != nil {
		return nil, err
	}
	var m map[string]json.RawMessage
	if err := json.Unmarshal(b, &m); err != nil {
		return nil, err
	}
	bs := make([]util.Byter, len(signs)+1)
	bs[0] = fact.Hash()
	raw := make([]json.RawMessage, len(signs))
	for i := range signs {
		bs[i+1] = signs[i]
		if raw[i], err = enc.Marshal(signs[i]); err != nil {
			return nil, err
		}
	}
	h := valuehash.NewSHA256(util.ConcatByters(bs...))
	if m["signs"], err = json.Marshal(raw); err != nil {
		return nil, err
	}
	if m["hash"], err = json.Marshal(h.String()); err != nil {
		return nil, err
	}
	b2, err := json.Marshal(m)
	if err != nil {
		return nil, err
	}
	i, err := enc.Decode(b2)
	if err != nil {
		return nil, errors.WithMessage(err, "decode operation with duplicated signs")
	}
	out, ok := i.(base.Operation)
	if !ok {
		return nil, errors.Errorf("decoded %T is not an operation", i)
	}
	return out, nil
}

// ReasonTag maps the reason text of the real processors to the model's tag.
func ReasonTag(msg string) string {
	for _, p := range reasonPrefixes {
		if strings.HasPrefix(msg, p) {
			return p
		}
	}
	if strings.Contains(msg, "invalid operation") {
		return "invalid"
	}
	return msg
}

var reasonPrefixes = []string{
	"not candidate",
	"candidate already preprocessed",
	"already preprocessed",
	"candidate already in suffrage",
	"candidate not in candidates",
	"start does not match",
	"candidate expired",
	"not signed by candidate key",
	"not signed by Join",
	"not enough signs",
	"already candidate up to",
	"reached limit",
	"already withdrew",
	"not in suffrage",
	"not signed by node key",
	"wrong start height",
	"expired",
	"only one network policy operation allowed",
	"same with existing network policy",
	"invalid operation",
}
