// Package c10 holds the block pipeline driver shared by C10, C16 and C17: a real
// isaacdatabase.Center over a leveldb mem storage, the operation processors wired by
// launch.POperationProcessorsMap (with launch's candidate limiter), the real
// isaac.DefaultProposalProcessor, isaacblock.Writer and LocalFSWriter as
// launch.NewBlockWriterFunc / launch/genesis.go wire them. Nothing of the code under test
// is replaced; the decorators below only delegate (they record calls, inject scheduling
// noise and, for forced schedules, hold an operation's Process() until it is its turn).
package c10

import (
	"context"
	"fmt"
	"math/rand"
	"os"
	"path/filepath"
	"runtime"
	"sort"
	"strings"
	"sync"
	"time"

	"github.com/pkg/errors"
	"github.com/spikeekips/mitum/base"
	"github.com/spikeekips/mitum/isaac"
	isaacblock "github.com/spikeekips/mitum/isaac/block"
	isaacdatabase "github.com/spikeekips/mitum/isaac/database"
	"github.com/spikeekips/mitum/launch"
	leveldbstorage "github.com/spikeekips/mitum/storage/leveldb"
	"github.com/spikeekips/mitum/util"
	"github.com/spikeekips/mitum/util/encoder"
	jsonenc "github.com/spikeekips/mitum/util/encoder/json"
	"github.com/spikeekips/mitum/util/hint"
	leveldbStorage "github.com/syndtr/goleveldb/leveldb/storage"
)

// Actor is a model node name mapped to a real address and two real keys: "own" (the key it
// registers and normally signs with) and "alt" (another key used under the same address).
type Actor struct {
	Name string
	Addr base.Address
	Own  base.Privatekey
	Alt  base.Privatekey
}

func NewActor(tag, name string) *Actor {
	mk := func(kind string) base.Privatekey {
		k, err := base.NewMPrivatekeyFromSeed(fmt.Sprintf("mitum-verif-key/%s/%s/%s/0123456789abcdef0123456789", tag, name, kind))
		if err != nil {
			panic(err)
		}
		return k
	}
	return &Actor{Name: name, Addr: base.NewStringAddress("nd-" + name), Own: mk("own"), Alt: mk("alt")}
}

func (a *Actor) Key(tag string) base.Privatekey {
	if tag == "alt" {
		return a.Alt
	}
	return a.Own
}

func (a *Actor) Local() base.LocalNode { return isaac.NewLocalNode(a.Own, a.Addr) }

// Env is one node's storage: database, block directory, encoders, wiring.
type Env struct {
	Root      string
	Encs      *encoder.Encoders
	Enc       encoder.Encoder
	NetworkID base.NetworkID
	Params    *isaac.Params
	Local     base.LocalNode
	St        *leveldbstorage.Storage
	Perm      *isaacdatabase.LeveldbPermanent
	DB        *isaacdatabase.Center
	Oprs      *hint.CompatibleSet[isaac.NewOperationProcessorInternalFunc]
	Prev      base.Manifest
	Readers   *isaac.BlockItemReaders
}

var (
	encsOnce sync.Once
	gEncs    *encoder.Encoders
	gEnc     encoder.Encoder
)

func Encoders() (*encoder.Encoders, encoder.Encoder) {
	encsOnce.Do(func() {
		gEnc = jsonenc.NewEncoder()
		gEncs = encoder.NewEncoders(gEnc, gEnc)
		if err := launch.LoadHinters(gEncs); err != nil {
			panic(err)
		}
	})
	return gEncs, gEnc
}

// NewEnv opens a node over the given leveldb storage (nil: a new mem storage).
func NewEnv(root string, networkID base.NetworkID, threshold base.Threshold, local base.LocalNode,
	st *leveldbstorage.Storage,
) (*Env, error) {
	encs, enc := Encoders()
	if err := os.MkdirAll(root, 0o700); err != nil {
		return nil, err
	}
	if st == nil {
		var err error
		if st, err = leveldbstorage.NewStorage(leveldbStorage.NewMemStorage(), nil); err != nil {
			return nil, err
		}
	}
	params := isaac.DefaultParams(networkID)
	if err := params.SetThreshold(threshold); err != nil {
		return nil, err
	}
	perm, err := isaacdatabase.NewLeveldbPermanent(st, encs, enc, 0)
	if err != nil {
		return nil, err
	}
	db, err := isaacdatabase.NewCenter(st, encs, enc, perm,
		func(height base.Height) (isaac.BlockWriteDatabase, error) {
			return isaacdatabase.NewLeveldbBlockWrite(height, st, encs, enc), nil
		})
	if err != nil {
		return nil, err
	}
	e := &Env{Root: root, Encs: encs, Enc: enc, NetworkID: networkID, Params: params, Local: local, St: st, Perm: perm, DB: db}

	// the operation processors exactly as launch wires them
	pctx := context.Background()
	pctx = context.WithValue(pctx, launch.ISAACParamsContextKey, params)
	pctx = context.WithValue(pctx, launch.CenterDatabaseContextKey, isaac.Database(db))
	if pctx, err = launch.PSuffrageCandidateLimiterSet(pctx); err != nil {
		return nil, err
	}
	if pctx, err = launch.POperationProcessorsMap(pctx); err != nil {
		return nil, err
	}
	if err := util.LoadFromContextOK(pctx, launch.OperationProcessorsMapContextKey, &e.Oprs); err != nil {
		return nil, err
	}
	e.Readers = isaac.NewBlockItemReaders(root, encs, nil)
	if err := e.Readers.Add(isaacblock.LocalFSWriterHint, isaacblock.NewDefaultItemReaderFunc(3)); err != nil {
		return nil, err
	}
	if m, found, err := db.LastBlockMap(); err != nil {
		return nil, err
	} else if found {
		e.Prev = m.Manifest()
	}
	return e, nil
}

// Snapshot copies every key of the storage (after merging the temps into the permanent
// database), so that a world can be forked cheaply.
func (e *Env) Snapshot() ([][2][]byte, error) {
	if err := e.DB.MergeAllPermanent(); err != nil {
		return nil, err
	}
	var kvs [][2][]byte
	err := e.St.Iter(nil, func(k, v []byte) (bool, error) {
		kvs = append(kvs, [2][]byte{append([]byte{}, k...), append([]byte{}, v...)})
		return true, nil
	}, true)
	return kvs, err
}

// Fork opens a new Env over a copy of the snapshot, sharing the block directory root.
func Fork(root string, networkID base.NetworkID, threshold base.Threshold, local base.LocalNode, kvs [][2][]byte) (*Env, error) {
	st, err := leveldbstorage.NewStorage(leveldbStorage.NewMemStorage(), nil)
	if err != nil {
		return nil, err
	}
	for i := range kvs {
		if err := st.Put(kvs[i][0], kvs[i][1], nil); err != nil {
			return nil, err
		}
	}
	return NewEnv(root, networkID, threshold, local, st)
}

func (e *Env) Close() {
	_ = e.DB.Close()
	_ = e.St.Close()
}

// ---------------------------------------------------------------- block input

type BlockInput struct {
	Point    base.Point
	Proposer *Actor
	Ops      []base.Operation // proposal order; a nil entry is an operation nobody has (hash pair only)
	NilPairs map[int][2]util.Hash
	Expels   []base.SuffrageExpelOperation // carried by the INIT voteproof
	Voters   []Voter                       // sign both voteproofs
}

// Voter is a suffrage member and the key it is registered with.
type Voter struct {
	A *Actor
	K string
}

type Prepared struct {
	In       BlockInput
	Proposal base.ProposalSignFact
	IVP      base.INITVoteproof
	pool     map[string]base.Operation
	index    map[string]int // operation hash -> index in cops+reserved
	N        int
	ExpelIDs []string // model ids of the voteproof's expels in their real (sorted) order
}

func (e *Env) Prepare(in BlockInput) (*Prepared, error) {
	p := &Prepared{In: in, pool: map[string]base.Operation{}, index: map[string]int{}}
	pairs := make([][2]util.Hash, len(in.Ops))
	for i, op := range in.Ops {
		if op == nil {
			pairs[i] = in.NilPairs[i]
			continue
		}
		pairs[i] = [2]util.Hash{op.Hash(), op.Fact().Hash()}
		p.pool[op.Hash().String()] = op
		p.index[op.Hash().String()] = i
	}
	p.N = len(in.Ops) + len(in.Expels)

	var prev util.Hash
	if e.Prev != nil {
		prev = e.Prev.Hash()
	}
	fact := isaac.NewProposalFact(in.Point, in.Proposer.Addr, prev, pairs)
	pr := isaac.NewProposalSignFact(fact)
	if err := pr.Sign(in.Proposer.Own, e.NetworkID); err != nil {
		return nil, err
	}
	p.Proposal = pr

	var expelfacts []util.Hash
	for _, x := range in.Expels {
		expelfacts = append(expelfacts, x.Fact().Hash())
	}
	ifact := isaac.NewINITBallotFact(in.Point, prev, pr.Fact().Hash(), expelfacts)
	sfs := make([]base.BallotSignFact, len(in.Voters))
	for i, v := range in.Voters {
		sf := isaac.NewINITBallotSignFact(ifact)
		if err := sf.NodeSign(v.A.Key(v.K), e.NetworkID, v.A.Addr); err != nil {
			return nil, err
		}
		sfs[i] = sf
	}
	if len(in.Expels) > 0 {
		vp := isaac.NewINITExpelVoteproof(in.Point)
		vp.SetMajority(ifact).SetSignFacts(sfs).SetThreshold(e.Params.Threshold())
		vp.SetExpels(in.Expels)
		vp.Finish()
		p.IVP = vp
	} else {
		vp := isaac.NewINITVoteproof(in.Point)
		vp.SetMajority(ifact).SetSignFacts(sfs).SetThreshold(e.Params.Threshold()).Finish()
		p.IVP = vp
	}
	if x, ok := p.IVP.(base.ExpelVoteproof); ok {
		for j, op := range x.Expels() { // SetExpels sorted them by fact hash
			p.index[op.Hash().String()] = len(in.Ops) + j
		}
	}
	return p, nil
}

func (e *Env) AcceptVoteproof(p *Prepared, newblock util.Hash, voters []Voter) (base.ACCEPTVoteproof, error) {
	var expelfacts []util.Hash
	for _, x := range p.In.Expels {
		expelfacts = append(expelfacts, x.Fact().Hash())
	}
	afact := isaac.NewACCEPTBallotFact(p.In.Point, p.Proposal.Fact().Hash(), newblock, expelfacts)
	sfs := make([]base.BallotSignFact, len(voters))
	for i, v := range voters {
		sf := isaac.NewACCEPTBallotSignFact(afact)
		if err := sf.NodeSign(v.A.Key(v.K), e.NetworkID, v.A.Addr); err != nil {
			return nil, err
		}
		sfs[i] = sf
	}
	if len(p.In.Expels) > 0 {
		vp := isaac.NewACCEPTExpelVoteproof(p.In.Point)
		vp.SetMajority(afact).SetSignFacts(sfs).SetThreshold(e.Params.Threshold())
		vp.SetExpels(p.In.Expels)
		vp.Finish()
		return vp, nil
	}
	vp := isaac.NewACCEPTVoteproof(p.In.Point)
	vp.SetMajority(afact).SetSignFacts(sfs).SetThreshold(e.Params.Threshold()).Finish()
	return vp, nil
}

// ---------------------------------------------------------------- one run

type RunOpts struct {
	Workers int64 // MaxWorkerSize of the proposal processor and worker size of the block writer
	Noise   int64 // != 0: seed of the scheduling noise
	Sched   []int // forced order of Process() calls by operation index; nil: free
	Save    bool  // Save() after Process() (ACCEPT voteproof signed by In.Voters)
	Timeout time.Duration
}

type OpResult struct {
	Index   int    `json:"i"`
	InState bool   `json:"in"`
	Reason  string `json:"reason,omitempty"`
	Fact    string `json:"fact"`
}

type RunResult struct {
	Err        string     `json:"err,omitempty"`
	Panic      string     `json:"panic,omitempty"`
	Hash       string     `json:"hash,omitempty"`
	OpsRoot    string     `json:"ops_root,omitempty"`
	StsRoot    string     `json:"sts_root,omitempty"`
	Suffrage   string     `json:"suffrage,omitempty"`
	Results    []OpResult `json:"results,omitempty"`
	MergeOrder []int      `json:"merge_order,omitempty"` // order of SetStates calls (observed)
	Infeasible bool       `json:"infeasible,omitempty"`  // forced schedule not followed (time-out at a gate)
	Workers    int64      `json:"w"`
	Forced     bool       `json:"forced,omitempty"`
	Manifest   base.Manifest `json:"-"`
	BlockMap   base.BlockMap `json:"-"`
	AVP        base.ACCEPTVoteproof `json:"-"`
}

func (r *RunResult) Key() string {
	if r.Err != "" || r.Panic != "" {
		return "ERR:" + r.Err + r.Panic
	}
	return strings.Join([]string{r.Hash, r.OpsRoot, r.StsRoot, r.Suffrage}, "/")
}

type noise struct {
	mu sync.Mutex
	r  *rand.Rand
}

func (n *noise) hit() {
	if n == nil {
		return
	}
	n.mu.Lock()
	v := n.r.Intn(10)
	d := n.r.Intn(150)
	n.mu.Unlock()
	switch {
	case v < 4:
	case v < 7:
		runtime.Gosched()
	default:
		time.Sleep(time.Duration(d) * time.Microsecond)
	}
}

type gates struct {
	mu      sync.Mutex
	rel     map[int]chan struct{}
	done    map[int]chan struct{}
	open    bool
	timeout time.Duration
}

func newGates(timeout time.Duration) *gates {
	return &gates{rel: map[int]chan struct{}{}, done: map[int]chan struct{}{}, timeout: timeout}
}

func (g *gates) ch(m map[int]chan struct{}, i int) chan struct{} {
	g.mu.Lock()
	defer g.mu.Unlock()
	c, ok := m[i]
	if !ok {
		c = make(chan struct{})
		m[i] = c
	}
	return c
}

func (g *gates) wait(i int) {
	g.mu.Lock()
	op := g.open
	g.mu.Unlock()
	if op {
		return
	}
	select {
	case <-g.ch(g.rel, i):
	case <-time.After(g.timeout * 4):
	}
}

func (g *gates) release(i int) {
	c := g.ch(g.rel, i)
	select {
	case <-c:
	default:
		close(c)
	}
}

func (g *gates) finished(i int) {
	c := g.ch(g.done, i)
	select {
	case <-c:
	default:
		close(c)
	}
}

func (g *gates) openAll() {
	g.mu.Lock()
	g.open = true
	for _, c := range g.rel {
		select {
		case <-c:
		default:
			close(c)
		}
	}
	g.mu.Unlock()
}

// drive releases the gates in the given order, each after the previous job has finished.
func (g *gates) drive(sched []int) (feasible bool) {
	defer g.openAll()
	for _, i := range sched {
		g.release(i)
		select {
		case <-g.ch(g.done, i):
		case <-time.After(g.timeout):
			return false
		}
	}
	return true
}

// gatedProcessor delegates to the real processor; Process() first passes the gate.
type gatedProcessor struct {
	base.OperationProcessor
	run *oneRun
}

func (p *gatedProcessor) Process(ctx context.Context, op base.Operation, gs base.GetStateFunc) (
	[]base.StateMergeValue, base.OperationProcessReasonError, error,
) {
	idx, ok := p.run.p.index[op.Hash().String()]
	if ok && p.run.g != nil {
		p.run.g.wait(idx)
	}
	p.run.n.hit()
	a, b, c := p.OperationProcessor.Process(ctx, op, gs)
	p.run.n.hit()
	if ok && p.run.g != nil && (len(a) < 1 || c != nil) {
		p.run.g.finished(idx) // no SetProcessResult will follow
	}
	return a, b, c
}

// recWriter delegates to the real isaacblock.Writer and records what the proposal
// processor hands to it.
type recWriter struct {
	isaac.BlockWriter
	run *oneRun
}

func (w *recWriter) SetProcessResult(ctx context.Context, index uint64, op, fact util.Hash, instate bool,
	reason base.OperationProcessReasonError,
) error {
	w.run.n.hit()
	err := w.BlockWriter.SetProcessResult(ctx, index, op, fact, instate, reason)
	r := OpResult{Index: int(index), InState: instate, Fact: fact.String()}
	if reason != nil {
		r.Reason = reason.Msg()
	}
	w.run.mu.Lock()
	w.run.results = append(w.run.results, r)
	w.run.mu.Unlock()
	if w.run.g != nil {
		w.run.g.finished(int(index))
	}
	return err
}

func (w *recWriter) SetStates(ctx context.Context, index uint64, values []base.StateMergeValue, op base.Operation) error {
	w.run.n.hit()
	w.run.mu.Lock()
	w.run.order = append(w.run.order, int(index))
	w.run.mu.Unlock()
	err := w.BlockWriter.SetStates(ctx, index, values, op)
	w.run.n.hit()
	return err
}

type oneRun struct {
	p       *Prepared
	n       *noise
	g       *gates
	mu      sync.Mutex
	results []OpResult
	order   []int
	writer  isaac.BlockWriter
}

// Run processes the prepared proposal once. Without Save the writer is cancelled and the
// node's database is left as it was.
func (e *Env) Run(p *Prepared, o RunOpts) *RunResult {
	res := &RunResult{Workers: o.Workers, Forced: o.Sched != nil}
	if o.Timeout == 0 {
		o.Timeout = 5 * time.Second
	}
	r := &oneRun{p: p}
	if o.Noise != 0 {
		r.n = &noise{r: rand.New(rand.NewSource(o.Noise))}
	}
	if o.Sched != nil {
		r.g = newGates(o.Timeout)
	}

	args := isaac.NewDefaultProposalProcessorArgs()
	args.MaxWorkerSize = o.Workers
	inner := launch.NewBlockWriterFunc(e.Local, e.NetworkID, e.Root, e.Encs.JSON(), e.Encs.Default(), e.DB, o.Workers, 0)
	args.NewWriterFunc = func(pr base.ProposalSignFact, gs base.GetStateFunc) (isaac.BlockWriter, error) {
		w, err := inner(pr, gs)
		if err != nil {
			return nil, err
		}
		r.writer = &recWriter{BlockWriter: w, run: r}
		return r.writer, nil
	}
	args.GetStateFunc = func(key string) (base.State, bool, error) {
		r.n.hit()
		return e.DB.State(key)
	}
	args.GetOperationFunc = func(_ context.Context, oph, fact util.Hash) (base.Operation, error) {
		r.n.hit()
		// as launch.getProposalOperationFunc
		switch found, err := e.DB.ExistsInStateOperation(fact); {
		case err != nil:
			return nil, err
		case found:
			return nil, isaac.ErrOperationAlreadyProcessedInProcessor.Errorf("already processed")
		}
		op, ok := p.pool[oph.String()]
		if !ok {
			return nil, isaac.ErrOperationNotFoundInProcessor.Errorf("not found in remote")
		}
		// what the pool / the network handler does before an operation is kept
		if err := op.IsValid(e.NetworkID); err != nil {
			// (not Wrap: an error that also is util.ErrInvalid makes the processor drop the
			// operation silently instead of recording it with a reason)
			return nil, isaac.ErrInvalidOperationInProcessor.Errorf("%s", firstLine(err.Error()))
		}
		return op, nil
	}
	args.NewOperationProcessorFunc = func(height base.Height, ht hint.Hint, gs base.GetStateFunc) (base.OperationProcessor, error) {
		v, found := e.Oprs.Find(ht)
		if !found {
			return nil, nil
		}
		opp, err := v(height, gs)
		if err != nil || opp == nil {
			return opp, err
		}
		return &gatedProcessor{OperationProcessor: opp, run: r}, nil
	}
	args.EmptyProposalNoBlockFunc = func() bool {
		pol := e.DB.LastNetworkPolicy()
		return pol != nil && pol.EmptyProposalNoBlock()
	}

	pp, err := isaac.NewDefaultProposalProcessor(p.Proposal, e.Prev, args)
	if err != nil {
		res.Err = "new processor: " + err.Error()
		return res
	}

	feasible := make(chan bool, 1)
	if r.g != nil {
		go func() { feasible <- r.g.drive(o.Sched) }()
	}

	ctx, cancel := context.WithTimeout(context.Background(), o.Timeout*time.Duration(4+len(o.Sched)))
	defer cancel()
	var m base.Manifest
	func() {
		defer func() {
			if x := recover(); x != nil {
				res.Panic = fmt.Sprintf("panic in Process: %v", x)
			}
		}()
		m, err = pp.Process(ctx, p.IVP)
	}()
	if r.g != nil {
		r.g.openAll()
		res.Infeasible = !<-feasible
	}
	r.mu.Lock()
	res.Results = append([]OpResult{}, r.results...)
	res.MergeOrder = append([]int{}, r.order...)
	r.mu.Unlock()
	sort.Slice(res.Results, func(i, j int) bool { return res.Results[i].Index < res.Results[j].Index })

	// Nothing in the repository cancels the block writer of a processor that was processed but
	// not saved (only the processor's context is cancelled), and Writer.Cancel() is not safe
	// against the writer's still running save jobs; so do what the node does.
	cleanup := func() {
		_ = pp.Cancel()
	}
	switch {
	case res.Panic != "":
		cleanup()
		return res
	case err != nil:
		res.Err = rootMsg(err)
		cleanup()
		return res
	}
	res.Manifest = m
	res.Hash = m.Hash().String()
	res.OpsRoot = hs(m.OperationsTree())
	res.StsRoot = hs(m.StatesTree())
	res.Suffrage = hs(m.Suffrage())

	if !o.Save {
		cleanup()
		return res
	}
	avp, err := e.AcceptVoteproof(p, m.Hash(), p.In.Voters)
	if err != nil {
		res.Err = "accept voteproof: " + err.Error()
		cleanup()
		return res
	}
	res.AVP = avp
	bm, err := pp.Save(ctx, avp)
	if err != nil {
		res.Err = "save: " + rootMsg(err)
		cleanup()
		return res
	}
	res.BlockMap = bm
	e.Prev = m
	return res
}

func firstLine(s string) string {
	if i := strings.IndexByte(s, '\n'); i >= 0 {
		s = s[:i]
	}
	if len(s) > 200 {
		s = s[:200]
	}
	return s
}

func hs(h util.Hash) string {
	if h == nil {
		return ""
	}
	return h.String()
}

func rootMsg(err error) string {
	s := err.Error()
	if len(s) > 300 {
		s = s[:300]
	}
	return s
}

// RemoveBlockDir removes the directory of a block saved at height (used after a forked run).
func (e *Env) RemoveBlockDir(height base.Height) {
	_ = os.RemoveAll(filepath.Join(e.Root, isaac.BlockHeightDirectory(height)))
	_ = os.Remove(isaac.BlockItemFilesPath(e.Root, height))
	_ = os.RemoveAll(filepath.Join(e.Root, isaacblock.BlockTempDirectoryPrefix))
}

var _ = errors.New
