package c10

import (
	"encoding/json"
	"fmt"
	"os"
	"path/filepath"
	"runtime"
	"runtime/pprof"
	"strconv"
	"sync"

	"github.com/spikeekips/mitum/base"
	"github.com/spikeekips/mitum/isaac"
	isaacoperation "github.com/spikeekips/mitum/isaac/operation"

	"mitumverif/internal/h"
)

func init() { h.Register("C10", Run) }

// CaseIn is one replay case: a chain whose last block is the block under test.
type CaseIn struct {
	Chain  ChainT  `json:"chain"`
	Scheds [][]int `json:"scheds"` // forced Process() orders (operation indexes) of the last block
	Free   []int64 `json:"free"`   // worker sizes of the unforced, noisy runs
	Reps   int     `json:"reps"`   // unforced runs per worker size
}

type CaseOut struct {
	I      int          `json:"i"`
	Err    string       `json:"err,omitempty"` // the case could not be run (machinery)
	Script []Proj       `json:"script,omitempty"`
	Prior  *Proj        `json:"prior,omitempty"`
	After  *Proj        `json:"after,omitempty"`
	Runs   []*RunResult `json:"runs,omitempty"`
	Saved  *RunResult   `json:"saved,omitempty"`
	Same   bool         `json:"same"`
	Expels []string     `json:"expels,omitempty"` // ids of the voteproof's expels in their real order
	NOps   int          `json:"nops"`
}

// Run is the harness entry (also registered as C17 by package c17).
func Run(args []string) error {
	if len(args) < 1 {
		return fmt.Errorf("usage: C10 replay|selftest --in cases.ndjson --out res.ndjson --work dir")
	}
	fl := h.Flags(args[1:])
	switch args[0] {
	case "replay":
		return replay(fl)
	case "threshold":
		return thresholdTable(fl)
	case "facts":
		// prints "<id> <fact hash>" for model operations (one JSON OpT per line): the order of
		// expels inside a voteproof is the order of their fact hashes
		cast := NewCast("facts", []byte("facts"))
		return h.ReadNDJSON(fl["in"], func(line []byte) error {
			var t OpT
			if err := json.Unmarshal(line, &t); err != nil {
				return err
			}
			op, err := cast.Op(t)
			if err != nil {
				return err
			}
			fmt.Println(t.ID, op.Fact().Hash().String())
			return nil
		})
	default:
		return fmt.Errorf("unknown mode %q", args[0])
	}
}

func replay(fl map[string]string) error {
	seed, _ := strconv.ParseInt(os.Getenv("VERIF_SEED"), 10, 64)
	if pf := fl["cpuprofile"]; pf != "" {
		f, err := os.Create(pf)
		if err != nil {
			return err
		}
		_ = pprof.StartCPUProfile(f)
		defer pprof.StopCPUProfile()
	}
	work := fl["work"]
	if work == "" {
		work = filepath.Join(os.TempDir(), fmt.Sprintf("verif-c10-%d", os.Getpid()))
	}
	_ = os.RemoveAll(work)
	if err := os.MkdirAll(work, 0o700); err != nil {
		return err
	}
	defer os.RemoveAll(work)
	out, err := h.NewOut(fl["out"])
	if err != nil {
		return err
	}
	defer out.Close()

	var cases []CaseIn
	if err := h.ReadNDJSON(fl["in"], func(line []byte) error {
		var c CaseIn
		if err := json.Unmarshal(line, &c); err != nil {
			return err
		}
		cases = append(cases, c)
		return nil
	}); err != nil {
		return err
	}

	ws := NewWorlds(filepath.Join(work, "worlds"))
	defer ws.Close()

	par := runtime.NumCPU() / 2
	if par < 1 {
		par = 1
	}
	if v, err := strconv.Atoi(fl["par"]); err == nil && v > 0 {
		par = v
	}
	outs := make([]*CaseOut, len(cases))
	var wg sync.WaitGroup
	ch := make(chan int)
	for wk := 0; wk < par; wk++ {
		wg.Add(1)
		go func(wk int) {
			defer wg.Done()
			for i := range ch {
				o := &CaseOut{I: i}
				if p := h.Catch(func() { RunCase(ws, filepath.Join(work, fmt.Sprintf("fork-%d", wk)), cases[i], seed+int64(i)*7919, o) }); p != "" {
					o.Err = p
				}
				outs[i] = o
			}
		}(wk)
	}
	for i := range cases {
		ch <- i
	}
	close(ch)
	wg.Wait()
	for _, o := range outs {
		out.Emit(o)
	}
	return nil
}

// RunCase builds (or reuses) the world of all blocks but the last, then processes the last
// block several times on it: forced schedules, unforced noisy runs with the given worker
// sizes (not saved), and finally once more with Save on a fork, whose database is projected.
func RunCase(ws *Worlds, forkroot string, c CaseIn, seed int64, o *CaseOut) {
	n := len(c.Chain.Blocks)
	if n < 1 {
		o.Err = "no block under test"
		return
	}
	w, err := ws.Get(c.Chain, n-1)
	if err != nil {
		o.Err = "world: " + err.Error()
		return
	}
	o.Script = w.Projs
	prior := w.Projs[len(w.Projs)-1]
	o.Prior = &prior

	_ = os.RemoveAll(forkroot)
	env, err := w.Fork(forkroot)
	if err != nil {
		o.Err = "fork: " + err.Error()
		return
	}
	defer func() {
		env.Close()
		_ = os.RemoveAll(forkroot)
	}()
	prep, err := w.PrepareBlock(env, c.Chain.Blocks[n-1])
	if err != nil {
		o.Err = "prepare: " + err.Error()
		return
	}
	o.NOps = prep.N
	o.Expels = prep.ExpelIDs
	for _, s := range c.Scheds {
		o.Runs = append(o.Runs, env.Run(prep, RunOpts{Workers: 64, Sched: s, Noise: 0}))
	}
	reps := c.Reps
	if reps < 1 {
		reps = 1
	}
	k := int64(0)
	for _, ww := range c.Free {
		for r := 0; r < reps; r++ {
			k++
			o.Runs = append(o.Runs, env.Run(prep, RunOpts{Workers: ww, Noise: seed + k}))
		}
	}
	o.Saved = env.Run(prep, RunOpts{Workers: 7, Noise: seed + 1000, Save: true})
	o.Same = true
	for _, r := range o.Runs {
		if r.Key() != o.Saved.Key() {
			o.Same = false
		}
	}
	if o.Saved.Err == "" && o.Saved.Panic == "" {
		p, err := w.ProjectEnv(env)
		if err != nil {
			o.Err = "project: " + err.Error()
			return
		}
		o.After = &p
	}
	for _, r := range append(append([]*RunResult{}, o.Runs...), o.Saved) {
		for i := range r.Results {
			r.Results[i].Reason = ReasonTag(r.Results[i].Reason)
		}
	}
}

// thresholdTable calls the real base.CheckFactSignsBySuffrage for suffrages of n real nodes
// and k valid member signatures (the join / network-policy acceptance rule) and reports the
// verdict next to the exact one (k*1000 >= t10*n).
func thresholdTable(fl map[string]string) error {
	out, err := h.NewOut(fl["out"])
	if err != nil {
		return err
	}
	defer out.Close()
	maxn, _ := strconv.Atoi(fl["maxn"])
	if maxn < 1 {
		maxn = 48
	}
	cast := NewCast("threshold", []byte("threshold"))
	fact := isaacoperation.NewSuffrageJoinFact(base.Token("t"), cast.Actor("c1").Addr, 1)
	var nodes []base.Node
	var signs []base.NodeSign
	for i := 0; i < maxn; i++ {
		a := cast.Actor(fmt.Sprintf("t%02d", i))
		nodes = append(nodes, isaac.NewNode(a.Own.Publickey(), a.Addr))
		ns, err := base.NewBaseNodeSignFromFact(a.Addr, a.Own, cast.NetworkID, fact)
		if err != nil {
			return err
		}
		signs = append(signs, ns)
	}
	type row struct {
		N    int  `json:"n"`
		K    int  `json:"k"`
		T10  int  `json:"t10"`
		Real bool `json:"real"`
		Want bool `json:"want"`
	}
	total, diff := 0, 0
	for n := 1; n <= maxn; n++ {
		suf, err := isaac.NewSuffrage(nodes[:n])
		if err != nil {
			return err
		}
		for t10 := 510; t10 <= 1000; t10++ {
			th := base.Threshold(float64(t10) / 10)
			for k := 0; k <= n; k++ {
				total++
				real := base.CheckFactSignsBySuffrage(suf, th, signs[:k]) == nil
				want := k*1000 >= t10*n
				if real != want {
					diff++
					out.Emit(row{N: n, K: k, T10: t10, Real: real, Want: want})
				}
			}
		}
	}
	out.Emit(map[string]int{"total": total, "diff": diff})
	return nil
}
