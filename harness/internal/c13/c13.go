// Package c13 replays the terminal states of spec/SuffrageChain.tla (chain, position, tree
// shape, forgery) into the real isaacblock.SuffrageProof (binding A). Everything is real:
// SuffrageNodesStateValue states linked by their hashes, a fixedtree over the block's state
// hashes, an isaac.Manifest carrying that tree's root inside an isaacblock.BlockMap signed
// with a real key, and proofs extracted by the real fixedtree code. The forgeries of the
// catalogue are built from those real parts; the verdict of the code is
// IsValid(networkID) == nil && Prove(previous) == nil.
package c13

import (
	"encoding/json"
	"fmt"
	"os"
	"strconv"
	"time"

	"github.com/spikeekips/mitum/base"
	"github.com/spikeekips/mitum/isaac"
	isaacblock "github.com/spikeekips/mitum/isaac/block"
	"github.com/spikeekips/mitum/util"
	"github.com/spikeekips/mitum/util/fixedtree"
	"github.com/spikeekips/mitum/util/valuehash"

	"mitumverif/internal/h"
)

func init() { h.Register("C13", run) }

type forged struct {
	Kind string `json:"kind"`
	J    int    `json:"j"`
}

type kase struct {
	Idx    int    `json:"idx"`
	K      int    `json:"k"`
	I      int    `json:"i"`
	Gap    int    `json:"gap"`
	TSize  int    `json:"tsize"`
	TPos   int    `json:"tpos"`
	Forged forged `json:"forged"`
}

type result struct {
	Idx      int    `json:"idx"`
	Verdict  string `json:"verdict"` // accept | reject | panic
	IsValid  string `json:"isvalid,omitempty"`
	Prove    string `json:"prove,omitempty"`
	Panic    string `json:"panic,omitempty"`
	PathOK   bool   `json:"path_proves_state"`        // fixedtree Proof.Prove(state hash) == nil
	RootOK   bool   `json:"path_root_is_states_tree"` // last node of the path == manifest.StatesTree()
	Unusable string `json:"unusable,omitempty"`       // the forgery could not be built for this shape
}

var (
	networkID = base.NetworkID([]byte("c13 network id"))
	local     = isaac.NewLocalNode(base.NewMPrivatekey(), base.NewStringAddress("c13-local"))
	nodesA    = mkNodes("a", 3)
	nodesB    = mkNodes("b", 3)
)

func mkNodes(p string, n int) []base.Node {
	ns := make([]base.Node, n)
	for i := range ns {
		ns[i] = isaac.NewNode(base.NewMPrivatekey().Publickey(), base.NewStringAddress(fmt.Sprintf("c13-%s%02d", p, i)))
	}
	return ns
}

// world is one chain s_0..s_k with its blocks.
type world struct {
	gap    int
	states map[int]base.State // S(x)
	forks  map[int]base.State // F(x)
}

func sufState(bh base.Height, sh base.Height, nodes []base.Node, prev util.Hash) base.State {
	sn := make([]base.SuffrageNodeStateValue, len(nodes))
	for i := range nodes {
		sn[i] = isaac.NewSuffrageNodeStateValue(nodes[i], bh)
	}
	return base.NewBaseState(bh, isaac.SuffrageStateKey, isaac.NewSuffrageNodesStateValue(sh, sn), prev,
		[]util.Hash{valuehash.RandomSHA256()})
}

func newWorld(k, gap int) *world {
	w := &world{gap: gap, states: map[int]base.State{}, forks: map[int]base.State{}}
	var prev util.Hash
	for x := 0; x <= k+1; x++ {
		w.states[x] = sufState(base.Height(int64(x*gap)), base.Height(int64(x)), nodesA, prev)
		w.forks[x] = sufState(base.Height(int64(x*gap)), base.Height(int64(x)), nodesB, prev)
		prev = w.states[x].Hash()
	}
	return w
}

func otherKeys(bh base.Height, n int, tag string) []string {
	ks := make([]string, n)
	for i := range ks {
		st := base.NewBaseState(bh, fmt.Sprintf("c13-%s-%d-%s", tag, i, util.UUID().String()),
			base.NewDummyStateValue(util.UUID().String()), nil, nil)
		ks[i] = st.Hash().String()
	}
	return ks
}

// tree over `size` keys with `key` at index pos.
func mkTree(key string, size, pos int, others []string) (fixedtree.Tree, error) {
	w, err := fixedtree.NewWriter(base.StateFixedtreeHint, uint64(size))
	if err != nil {
		return fixedtree.Tree{}, err
	}
	o := 0
	for i := 0; i < size; i++ {
		k := key
		if i != pos {
			k = others[o]
			o++
		}
		if err := w.Add(uint64(i), fixedtree.NewBaseNode(k)); err != nil {
			return fixedtree.Tree{}, err
		}
	}
	if err := w.Write(func(uint64, fixedtree.Node) error { return nil }); err != nil {
		return fixedtree.Tree{}, err
	}
	return w.Tree()
}

func mkMap(bh base.Height, statesRoot, suffrage util.Hash, nid base.NetworkID) (isaacblock.BlockMap, error) {
	m := isaacblock.NewBlockMap()
	for _, t := range []base.BlockItemType{base.BlockItemProposal, base.BlockItemOperations, base.BlockItemOperationsTree,
		base.BlockItemStates, base.BlockItemStatesTree, base.BlockItemVoteproofs} {
		if err := m.SetItem(isaacblock.NewBlockMapItem(t, util.UUID().String())); err != nil {
			return m, err
		}
	}
	var prevBlock util.Hash
	if bh != base.GenesisHeight {
		prevBlock = valuehash.RandomSHA256()
	}
	m.SetManifest(isaac.NewManifest(bh, prevBlock, valuehash.RandomSHA256(), valuehash.RandomSHA256(), statesRoot,
		suffrage, time.Now().UTC()))
	err := m.Sign(local.Address(), local.Privatekey(), nid)
	return m, err
}

func indexHeight(idx int) int {
	hgt := 0
	for n := idx + 1; n > 1; n >>= 1 {
		hgt++
	}
	return hgt
}

func one(k kase) (res result, err error) {
	res.Idx = k.Idx
	w := newWorld(k.K, k.Gap)
	bh := func(x int) base.Height { return base.Height(int64(x * k.Gap)) }
	st := w.states[k.I]
	key := st.Hash().String()
	others := otherKeys(bh(k.I), k.TSize-1, "o")
	tree, err := mkTree(key, k.TSize, k.TPos, others)
	if err != nil {
		return res, err
	}
	path, err := tree.Proof(key)
	if err != nil {
		return res, err
	}
	var sufhash util.Hash
	var prev base.State
	if k.I > 0 {
		prev = w.states[k.I-1]
		sufhash = prev.Hash()
	}
	m, err := mkMap(bh(k.I), tree.Root(), sufhash, networkID)
	if err != nil {
		return res, err
	}

	switch f := k.Forged; f.Kind {
	case "none":
	case "foreign-tree":
		// another tree (other size, other states) that contains the state hash
		size := map[int]int{1: 3, 2: 1, 3: 6}[k.TSize]
		if size == 0 {
			size = k.TSize + 2
		}
		ft, err := mkTree(key, size, size/2, otherKeys(bh(k.I), size-1, "f"))
		if err != nil {
			return res, err
		}
		if path, err = ft.Proof(key); err != nil {
			return res, err
		}
	case "extended-tree":
		et, err := mkTree(key, k.TSize+3, k.TPos, append(append([]string{}, others...), otherKeys(bh(k.I), 3, "e")...))
		if err != nil {
			return res, err
		}
		if path, err = et.Proof(key); err != nil {
			return res, err
		}
	case "reroot-cut":
		// keep the pairs below level m and end the path at the ancestor of that level
		hgt := indexHeight(k.TPos)
		if hgt < 1 {
			res.Unusable = "state is the root of its tree"
			return res, nil
		}
		ns := path.Nodes()
		anc := k.TPos
		for lvl := 1; lvl < hgt; lvl++ {
			anc = (anc - 1) / 2
		}
		// ns[2*hgt], ns[2*hgt+1] are the children of the root; anc is one of them
		top := ns[2*hgt]
		if anc%2 == 0 {
			top = ns[2*hgt+1]
		}
		cut := append(append([]fixedtree.Node{}, ns[:2*hgt]...), top)
		path = fixedtree.NewProof(cut)
	case "path-tamper":
		ns := append([]fixedtree.Node{}, path.Nodes()...)
		ns[len(ns)-1] = ns[len(ns)-1].SetHash(valuehash.RandomSHA256())
		path = fixedtree.NewProof(ns)
	case "swap-state":
		st = w.states[f.J]
	case "fork-state":
		st = w.forks[k.I]
	case "forged-state-own-tree":
		st = w.forks[k.I]
		fk := st.Hash().String()
		ft, err := mkTree(fk, k.TSize, k.TPos, otherKeys(bh(k.I), k.TSize-1, "g"))
		if err != nil {
			return res, err
		}
		if path, err = ft.Proof(fk); err != nil {
			return res, err
		}
	case "prev-gap":
		prev = w.states[k.I-2]
	case "prev-fork":
		prev = w.forks[k.I-1]
	case "prev-stale":
		prev = w.states[k.I]
	case "prev-future":
		prev = w.states[k.I+1]
	case "prev-nil":
		prev = nil
	case "prev-at-genesis":
		prev = w.states[0]
	case "map-other-height":
		ot, err := mkTree(w.states[f.J].Hash().String(), k.TSize, k.TPos, otherKeys(bh(f.J), k.TSize-1, "m"))
		if err != nil {
			return res, err
		}
		if m, err = mkMap(bh(f.J), ot.Root(), nil, networkID); err != nil {
			return res, err
		}
	case "map-fork":
		ot, err := mkTree(w.forks[k.I].Hash().String(), k.TSize, k.TPos, otherKeys(bh(k.I), k.TSize-1, "m"))
		if err != nil {
			return res, err
		}
		if m, err = mkMap(bh(k.I), ot.Root(), sufhash, networkID); err != nil {
			return res, err
		}
	case "map-bad-signature":
		if m, err = mkMap(bh(k.I), tree.Root(), sufhash, base.NetworkID([]byte("another network"))); err != nil {
			return res, err
		}
	default:
		return res, fmt.Errorf("unknown forgery %q", f.Kind)
	}

	// what the forgery really is, measured with the repository's own primitives
	res.PathOK = path.Prove(st.Hash().String()) == nil
	if ns := path.Nodes(); len(ns) > 0 && ns[len(ns)-1] != nil {
		res.RootOK = ns[len(ns)-1].Hash().Equal(m.Manifest().StatesTree())
	}

	proof := isaacblock.NewSuffrageProof(m, st, path)
	var verr, perr error
	res.Panic = h.Catch(func() {
		if verr = proof.IsValid(networkID); verr != nil {
			return
		}
		perr = proof.Prove(prev)
	})
	switch {
	case res.Panic != "":
		res.Verdict = "panic"
	case verr != nil:
		res.Verdict, res.IsValid = "reject", verr.Error()
	case perr != nil:
		res.Verdict, res.Prove = "reject", perr.Error()
	default:
		res.Verdict = "accept"
	}
	return res, nil
}

func run(args []string) error {
	if len(args) < 1 || args[0] != "replay" {
		return fmt.Errorf("usage: C13 replay --in cases.ndjson --out res.ndjson")
	}
	fl := h.Flags(args[1:])
	start, _ := strconv.Atoi(fl["start"])
	_ = os.Getenv
	out, err := h.NewOut(fl["out"])
	if err != nil {
		return err
	}
	defer out.Close()
	n := 0
	return h.ReadNDJSON(fl["in"], func(line []byte) error {
		var k kase
		if err := json.Unmarshal(line, &k); err != nil {
			return err
		}
		n++
		if n <= start {
			return nil
		}
		r, err := one(k)
		if err != nil {
			return fmt.Errorf("case %d %+v: %w", k.Idx, k, err)
		}
		out.Emit(r)
		return nil
	})
}
