// Package c25 replays the operations of spec/PrefixStorage.tla on real
// leveldbstorage.PrefixStorage objects that share one leveldbstorage.Storage over
// goleveldb memory storage (binding A). After every operation the raw store is read back
// through goleveldb itself (not through the code under test) and returned together with
// the reply of the call.
//
// Objects: an operation names the object it goes through: "kept" = the one prefix storage
// object per prefix that lives for the whole walk / history, "fresh" = a new one made for
// this call. Sizes: Fill(p, n) writes the n filler keys p ++ {02 hi lo} through the object
// in one batch; the model keeps them as one run, so stores and Iter replies are returned
// with the fillers folded into runs [key p ++ {02}, value, from, to] (consecutive filler
// numbers of one prefix with one value, in visiting order).
package c25

import (
	"encoding/json"
	"fmt"
	"time"

	"github.com/pkg/errors"
	"github.com/spikeekips/mitum/storage"
	leveldbstorage "github.com/spikeekips/mitum/storage/leveldb"
	leveldbOpt "github.com/syndtr/goleveldb/leveldb/opt"
	leveldbStorage "github.com/syndtr/goleveldb/leveldb/storage"
	leveldbutil "github.com/syndtr/goleveldb/leveldb/util"

	"mitumverif/internal/h"
)

func init() { h.Register("C25", run) }

const watchdog = 60 * time.Second

var errHang = errors.New("call did not return")

type op struct {
	A    string          `json:"a"`
	P    []int           `json:"p"`
	O    string          `json:"o"` // "kept" (default) | "fresh"
	N    int             `json:"n"` // Fill: number of filler keys
	K    []int           `json:"k"`
	V    int             `json:"v"`
	S    []int           `json:"s"`
	L    []int           `json:"l"`
	Asc  bool            `json:"asc"`
	Stop int             `json:"stop"`
	Lim  int             `json:"lim"`
	B    [][]interface{} `json:"b"`
}

type step struct {
	New    int             `json:"new"`    // 1: first step of a walk (fresh store)
	Single int             `json:"single"` // 1: independent case: store := pre, closed := closed, then the operation
	Init   int             `json:"init"`   // 1: first step of a history: store := pre (written with goleveldb itself)
	Op     op              `json:"op"`
	Pre    [][]interface{} `json:"pre"`
	Closed [][]int         `json:"closed"`
}

type result struct {
	I     int             `json:"i"`
	Res   interface{}     `json:"res"`             // reply in the specification's form
	Err   string          `json:"err,omitempty"`   // error text of the call (any)
	KV    [][]interface{} `json:"kv"`              // raw store after the call: [[key bytes...], value]
	Panic string          `json:"panic,omitempty"` // panic text
	Hang  bool            `json:"hang,omitempty"`  // the call did not return within the watchdog time; the driver stops here
	Calls int             `json:"calls"`
}

func bs(a []int) []byte {
	if len(a) == 1 && a[0] == -1 {
		return nil
	}
	b := make([]byte, len(a))
	for i := range a {
		b[i] = byte(a[i])
	}
	return b
}

func ints(b []byte) []int {
	a := make([]int, len(b))
	for i := range b {
		a[i] = int(b[i])
	}
	return a
}

func anyInts(v interface{}) []int {
	l := v.([]interface{})
	a := make([]int, len(l))
	for i := range l {
		a[i] = int(l[i].(float64))
	}
	return a
}

func val(v int) []byte { return []byte{'v', byte('0' + v)} }

func unval(b []byte) int {
	if len(b) == 2 && b[0] == 'v' {
		return int(b[1] - '0')
	}
	return -1
}

const fillerByte = 2

// filler reports whether k is a filler key (.. 02 hi lo; no other key of the model holds the byte 02)
// and returns the key of its run (.. 02) and its number
func filler(k []byte) ([]byte, int, bool) {
	n := len(k)
	if n < 3 || k[n-3] != fillerByte {
		return nil, 0, false
	}
	return k[:n-2], int(k[n-2])<<8 | int(k[n-1]), true
}

func fillerKey(run []byte, i int) []byte {
	k := make([]byte, 0, len(run)+2)
	k = append(k, run...)
	return append(k, byte(i>>8), byte(i))
}

// folder collects visited entries and folds consecutive fillers of one run into [run key, value, from, to]
type folder struct {
	out  [][]interface{}
	run  []byte
	v    int
	from int
	to   int
	open bool
	n    int // entries seen
}

func (f *folder) flush() {
	if f.open {
		f.out = append(f.out, []interface{}{ints(f.run), f.v, f.from, f.to})
		f.open = false
	}
}

func (f *folder) add(k, b []byte) {
	f.n++
	v := unval(b)
	run, i, ok := filler(k)
	if !ok {
		f.flush()
		f.out = append(f.out, []interface{}{ints(k), v})
		return
	}
	if f.open && string(run) == string(f.run) && v == f.v {
		switch {
		case f.to == f.from && (i == f.to+1 || i == f.to-1),
			f.to > f.from && i == f.to+1,
			f.to < f.from && i == f.to-1:
			f.to = i
			return
		}
	}
	f.flush()
	f.run, f.v, f.from, f.to, f.open = append([]byte{}, run...), v, i, i, true
}

func (f *folder) done() [][]interface{} {
	f.flush()
	if f.out == nil {
		return [][]interface{}{}
	}
	return f.out
}

type world struct {
	st     *leveldbstorage.Storage
	stores map[string]*leveldbstorage.PrefixStorage
}

// newWorld opens a store over goleveldb memory storage. A history / walk writes some ten thousand
// bytes: a small write buffer (goleveldb's default is 4 MiB, allocated and cleared per store) makes a
// store per history affordable, so that the deleted versions of earlier histories, which goleveldb
// keeps and its iterators walk over, do not pile up.
func newWorld() *world {
	st, err := leveldbstorage.NewStorage(leveldbStorage.NewMemStorage(), &leveldbOpt.Options{
		WriteBuffer:            256 << 10,
		BlockCacheCapacity:     64 << 10,
		DisableSeeksCompaction: true,
	})
	if err != nil {
		panic(err)
	}
	return &world{st: st, stores: map[string]*leveldbstorage.PrefixStorage{}}
}

func (w *world) close() { _ = w.st.Close() }

// obj returns the object an operation goes through
func (w *world) obj(o op) *leveldbstorage.PrefixStorage {
	if o.O == "fresh" {
		return leveldbstorage.NewPrefixStorage(w.st, bs(o.P))
	}
	return w.store(o.P)
}

func (w *world) store(p []int) *leveldbstorage.PrefixStorage {
	k := fmt.Sprint(p)
	if s, ok := w.stores[k]; ok {
		return s
	}
	s := leveldbstorage.NewPrefixStorage(w.st, bs(p))
	w.stores[k] = s
	return s
}

// dump reads the raw store with goleveldb's own iterator
func (w *world) dump() [][]interface{} {
	var f folder
	it := w.st.DB().NewIterator(nil, nil)
	defer it.Release()
	for it.Next() {
		f.add(it.Key(), it.Value())
	}
	return f.done()
}

// reset empties the raw store and forgets the prefix storages (goleveldb calls only)
func (w *world) reset(pre [][]interface{}, closed [][]int) error {
	it := w.st.DB().NewIterator(nil, nil)
	var keys [][]byte
	for it.Next() {
		keys = append(keys, append([]byte{}, it.Key()...))
	}
	it.Release()
	for _, k := range keys {
		if err := w.st.DB().Delete(k, nil); err != nil {
			return err
		}
	}
	w.stores = map[string]*leveldbstorage.PrefixStorage{}
	for _, kv := range pre {
		k, v := bs(anyInts(kv[0])), val(int(kv[1].(float64)))
		if len(kv) == 4 { // a run of fillers
			for i := int(kv[2].(float64)); i <= int(kv[3].(float64)); i++ {
				if err := w.st.DB().Put(fillerKey(k, i), v, nil); err != nil {
					return err
				}
			}
			continue
		}
		if err := w.st.DB().Put(k, v, nil); err != nil {
			return err
		}
	}
	for _, p := range closed {
		if err := w.store(p).Close(); err != nil {
			return err
		}
	}
	return nil
}

func reply(err error) (interface{}, string) {
	switch {
	case err == nil:
		return "ok", ""
	case errors.Is(err, storage.ErrClosed):
		return "closed", err.Error()
	default:
		return "error", err.Error()
	}
}

func (w *world) do(o op, res *result) {
	switch o.A {
	case "Put":
		res.Res, res.Err = reply(w.obj(o).Put(bs(o.K), val(o.V), nil))
	case "Get":
		b, found, err := w.obj(o).Get(bs(o.K))
		if err != nil {
			res.Res, res.Err = reply(err)
			return
		}
		if found {
			res.Res = []int{1, unval(b)}
		} else {
			res.Res = []int{0, 0}
		}
	case "Exists":
		found, err := w.obj(o).Exists(bs(o.K))
		if err != nil {
			res.Res, res.Err = reply(err)
			return
		}
		if found {
			res.Res = 1
		} else {
			res.Res = 0
		}
	case "Delete":
		res.Res, res.Err = reply(w.obj(o).Delete(bs(o.K), nil))
	case "Iter":
		var r *leveldbutil.Range
		if s, l := bs(o.S), bs(o.L); s != nil || l != nil {
			r = &leveldbutil.Range{Start: s, Limit: l}
		}
		var f folder
		err := w.obj(o).Iter(r, func(k, v []byte) (bool, error) {
			f.add(k, v)
			return o.Stop == 0 || f.n < o.Stop, nil
		}, o.Asc)
		seen := f.done()
		if err != nil {
			res.Res, res.Err = reply(err)
			if len(seen) > 0 {
				res.Res = seen
			}
			return
		}
		res.Res = seen
	case "Batch":
		s := w.obj(o)
		b := s.NewBatch()
		for _, e := range o.B {
			switch e[0].(string) {
			case "put":
				b.Put(bs(anyInts(e[1])), val(int(e[2].(float64))))
			default:
				b.Delete(bs(anyInts(e[1])))
			}
		}
		res.Res, res.Err = reply(s.Batch(b, nil))
	case "Fill":
		s := w.obj(o)
		b := s.NewBatch()
		for i := 0; i < o.N; i++ {
			b.Put(fillerKey([]byte{fillerByte}, i), val(1))
		}
		res.Res, res.Err = reply(s.Batch(b, nil))
	case "Remove":
		res.Res, res.Err = reply(w.obj(o).Remove())
	case "Close":
		res.Res, res.Err = reply(w.obj(o).Close())
	case "RawPut":
		res.Res, res.Err = reply(w.st.Put(bs(o.K), val(o.V), nil))
	case "RemoveByPrefix":
		res.Res, res.Err = reply(leveldbstorage.RemoveByPrefix(w.st, bs(o.P)))
	case "BatchRemove":
		var r *leveldbutil.Range
		if s, l := bs(o.S), bs(o.L); s != nil || l != nil {
			r = &leveldbutil.Range{Start: s, Limit: l}
		}
		n, err := leveldbstorage.BatchRemove(w.st, r, o.Lim)
		if err != nil {
			res.Res, res.Err = reply(err)
			return
		}
		res.Res = n
	default:
		panic("unknown operation " + o.A)
	}
}

func run(args []string) error {
	fl := h.Flags(args)
	out, err := h.NewOut(fl["out"])
	if err != nil {
		return err
	}
	defer out.Close()
	var w *world
	defer func() {
		if w != nil {
			w.close()
		}
	}()
	i, singles := 0, 0
	err = h.ReadNDJSON(fl["in"], func(line []byte) error {
		var st step
		if err := json.Unmarshal(line, &st); err != nil {
			return err
		}
		i++
		switch {
		case w == nil:
			w = newWorld()
		case st.New == 1:
			w.close()
			w = newWorld()
		}
		if st.Single == 1 {
			// a fresh store now and then: goleveldb keeps every overwritten / deleted version until a
			// compaction, and its iterators walk over them
			if singles++; singles%400 == 0 {
				w.close()
				w = newWorld()
			}
			if err := w.reset(st.Pre, st.Closed); err != nil {
				return err
			}
		} else if st.Init == 1 {
			if err := w.reset(st.Pre, nil); err != nil {
				return err
			}
		}
		res := result{I: i, Calls: 1}
		done := make(chan struct{})
		go func() {
			res.Panic = h.Catch(func() { w.do(st.Op, &res) })
			close(done)
		}()
		select {
		case <-done:
		case <-time.After(watchdog):
			// a call that does not come back: report it and stop (the goroutine cannot be killed);
			// the driver judges what was answered so far
			out.Emit(result{I: i, Hang: true, Calls: 1, KV: [][]interface{}{}})
			return errHang
		}
		res.KV = w.dump()
		out.Emit(res)
		return nil
	})
	if err == errHang {
		w = nil // do not Close() a store a runaway call may still hold
		return nil
	}
	return err
}
