// Package stuck drives the REAL isaacstates.DefaultBallotStuckResolver with harness-supplied callback
// functions and small timing parameters and records one event per API call and per callback entry /
// exit (binding B; validated by spec/StuckResolverTrace.tla). API calls that a scenario wants "while the
// run is inside callback X" are made by the callback itself, between its Enter and Exit events: the Exit
// event is then logged after the call returned and before the resolver's code runs again - whatever the
// run does afterwards happens after the call returned, under every schedule (no wall-clock judgement).
package stuck

import (
	"context"
	"encoding/json"
	"fmt"
	"math/rand"
	"os"
	"runtime"
	"strconv"
	"strings"
	"sync"
	"sync/atomic"
	"time"

	"github.com/pkg/errors"
	"github.com/spikeekips/mitum/base"
	"github.com/spikeekips/mitum/isaac"
	isaacstates "github.com/spikeekips/mitum/isaac/states"

	"mitumverif/internal/h"
)

func init() { h.Register("STUCK", run) }

type Ev map[string]interface{}

type Op struct {
	Op string `json:"op"` // newpoint | cancel | clean
	P  int64  `json:"p,omitempty"`
}

// Step: the answer of the n-th callback of one kind of one run, and what the driver does meanwhile.
type Step struct {
	Res  string `json:"res"` // find/findalone: err|notok|none|nodes  request: ok|err  vote: err|nil|vp
	Ops  []Op   `json:"ops,omitempty"`
	Hold int    `json:"hold,omitempty"` // microseconds inside the callback (lets ticks pile up)
}

type Script struct {
	Find      []Step `json:"find,omitempty"`
	Request   []Step `json:"request,omitempty"`
	FindAlone []Step `json:"findalone,omitempty"`
	Vote      []Step `json:"vote,omitempty"`
}

type Scenario struct {
	ID           string            `json:"id"`
	Class        string            `json:"class,omitempty"`
	WaitUS       int               `json:"wait_us"`
	IntervalUS   int               `json:"interval_us"`
	ResolveUS    int               `json:"resolve_us"`
	Start        []Op              `json:"start"`
	StartGapUS   int               `json:"start_gap_us,omitempty"` // pause between the start calls
	Scripts      map[string]Script `json:"scripts"`                // by point
	MaxCallbacks int               `json:"max_callbacks,omitempty"`
}

// model point k (1..) -> a real stage point, same order
func stagePoint(k int64) base.StagePoint {
	k--
	st := base.StageINIT
	if k%2 == 1 {
		st = base.StageACCEPT
	}
	return base.NewStagePoint(base.RawPoint(10+k/4, uint64((k/2)%2)), st)
}

func modelPoint(p base.StagePoint) int64 {
	k := (p.Height().Int64()-10)*4 + int64(p.Round().Uint64())*2
	if p.Stage() == base.StageACCEPT {
		k++
	}
	return k + 1
}

type world struct {
	sc  Scenario
	r   *isaacstates.DefaultBallotStuckResolver
	ctx context.Context

	mu   sync.Mutex // the event log
	evs  []Ev
	api  sync.Mutex // serialises the API calls (the log order of their events is the order of the calls)
	used map[string]int

	inflight int64
	ncb      int64
	nodes    []base.Address
}

func (w *world) emit(e Ev) {
	w.mu.Lock()
	w.evs = append(w.evs, e)
	w.mu.Unlock()
}

func (w *world) do(op Op) {
	w.api.Lock()
	defer w.api.Unlock()
	switch op.Op {
	case "newpoint":
		// the run may call back before NewPoint has returned: the call is logged first
		w.emit(Ev{"a": "NewPointCall", "p": op.P})
		ok := w.r.NewPoint(w.ctx, stagePoint(op.P))
		w.emit(Ev{"a": "NewPoint", "p": op.P, "ok": b2i(ok)})
	case "cancel":
		w.r.Cancel(stagePoint(op.P))
		w.emit(Ev{"a": "Cancel", "p": op.P})
	case "clean":
		w.r.Clean()
		w.emit(Ev{"a": "Clean"})
	}
}

func b2i(b bool) int {
	if b {
		return 1
	}
	return 0
}

func (w *world) step(kind string, p int64) Step {
	w.mu.Lock()
	defer w.mu.Unlock()
	key := fmt.Sprintf("%d/%s", p, kind)
	n := w.used[key]
	w.used[key]++
	var q []Step
	s := w.sc.Scripts[strconv.FormatInt(p, 10)]
	switch kind {
	case "find":
		q = s.Find
	case "request":
		q = s.Request
	case "findalone":
		q = s.FindAlone
	case "vote":
		q = s.Vote
	}
	if n < len(q) {
		return q[n]
	}
	// beyond the script: end the run
	switch kind {
	case "find", "findalone":
		return Step{Res: "none"}
	case "request":
		return Step{Res: "err"}
	default:
		return Step{Res: "err"}
	}
}

func (w *world) callback(kind string, point base.StagePoint) Step {
	atomic.AddInt64(&w.inflight, 1)
	defer atomic.AddInt64(&w.inflight, -1)
	p := modelPoint(point)
	w.emit(Ev{"a": "Enter", "k": kind, "p": p})
	st := w.step(kind, p)
	if n := atomic.AddInt64(&w.ncb, 1); w.sc.MaxCallbacks > 0 && int(n) > w.sc.MaxCallbacks {
		st = Step{Res: "err"} // runaway guard
	}
	for _, op := range st.Ops {
		w.do(op)
	}
	if st.Hold > 0 {
		time.Sleep(time.Duration(st.Hold) * time.Microsecond)
	}
	w.emit(Ev{"a": "Exit", "k": kind, "p": p, "res": st.Res})
	return st
}

func resolverGoroutines() int {
	buf := make([]byte, 1<<21)
	n := runtime.Stack(buf, true)
	return strings.Count(string(buf[:n]), "isaac/states.(*DefaultBallotStuckResolver)")
}

func runScenario(sc Scenario) ([]Ev, string) {
	w := &world{sc: sc, used: map[string]int{}, nodes: []base.Address{base.NewStringAddress("missing-node")}}
	ctx, cancel := context.WithCancel(context.Background())
	defer cancel()
	w.ctx = ctx
	errSource := errors.Errorf("verif: source failed")
	find := func(_ context.Context, point base.StagePoint, alone bool) ([]base.Address, bool, error) {
		kind := "find"
		if alone {
			kind = "findalone"
		}
		switch st := w.callback(kind, point); st.Res {
		case "err":
			return nil, false, errSource
		case "notok":
			return nil, false, nil
		case "none":
			return nil, true, nil
		default:
			return w.nodes, true, nil
		}
	}
	request := func(_ context.Context, point base.StagePoint, _ []base.Address) error {
		if st := w.callback("request", point); st.Res == "err" {
			return errSource
		}
		return nil
	}
	vote := func(_ context.Context, point base.StagePoint, _ []base.Address) (base.Voteproof, error) {
		switch st := w.callback("vote", point); st.Res {
		case "err":
			return nil, errSource
		case "nil":
			return nil, nil
		default:
			if point.Stage() == base.StageACCEPT {
				vp := isaac.NewACCEPTStuckVoteproof(point.Point)
				return vp, nil
			}
			vp := isaac.NewINITStuckVoteproof(point.Point)
			return vp, nil
		}
	}
	us := func(n int) time.Duration { return time.Duration(n) * time.Microsecond }
	w.r = isaacstates.NewDefaultBallotStuckResolver(us(sc.WaitUS), us(sc.IntervalUS), us(sc.ResolveUS), find, request, vote)

	w.emit(Ev{"a": "Reset", "id": sc.ID})
	stop := make(chan struct{})
	var rd sync.WaitGroup
	rd.Add(1)
	go func() {
		defer rd.Done()
		for {
			select {
			case <-stop:
				return
			case vp := <-w.r.Voteproof():
				w.emit(Ev{"a": "Vp", "p": modelPoint(vp.Point())})
			}
		}
	}()
	for i, op := range sc.Start {
		if i > 0 && sc.StartGapUS > 0 {
			time.Sleep(us(sc.StartGapUS))
		}
		w.do(op)
	}
	// the end: no goroutine of the resolver is alive any more (every run ended by its script or was cancelled)
	status := "ended"
	t0 := time.Now()
	for {
		if atomic.LoadInt64(&w.inflight) == 0 && resolverGoroutines() == 0 && len(w.r.Voteproof()) == 0 {
			break
		}
		if time.Since(t0) > 15*time.Second {
			status = "timeout"
			break
		}
		time.Sleep(200 * time.Microsecond)
	}
	time.Sleep(300 * time.Microsecond)
	close(stop)
	rd.Wait()
	if status == "timeout" {
		w.r.Clean()
	}
	w.emit(Ev{"a": "End", "status": status})
	return w.evs, status
}

// ------------------------------------------------------------------ scenarios

var (
	findRes    = []string{"err", "notok", "none", "nodes"}
	requestRes = []string{"ok", "err"}
	voteRes    = []string{"err", "nil", "vp"}
)

func pkey(p int64) string { return strconv.FormatInt(p, 10) }

// the full resolution of one run when resolveAfter has elapsed: find, request, findalone, vote -> vp
func fullScript(gatherTicks int) Script {
	s := Script{}
	for i := 0; i < gatherTicks; i++ {
		s.Find = append(s.Find, Step{Res: "nodes"})
		s.Request = append(s.Request, Step{Res: "ok"})
	}
	s.FindAlone = []Step{{Res: "nodes"}}
	s.Vote = []Step{{Res: "vp"}}
	return s
}

func clone(s Script) Script {
	b, _ := json.Marshal(s)
	var o Script
	_ = json.Unmarshal(b, &o)
	return o
}

func at(s *Script, kind string, n int) *Step {
	var q *[]Step
	switch kind {
	case "find":
		q = &s.Find
	case "request":
		q = &s.Request
	case "findalone":
		q = &s.FindAlone
	default:
		q = &s.Vote
	}
	for len(*q) <= n {
		*q = append(*q, Step{Res: map[string]string{"find": "nodes", "request": "ok", "findalone": "nodes", "vote": "nil"}[kind]})
	}
	return &(*q)[n]
}

func generate(full bool, rng *rand.Rand) []Scenario {
	var out []Scenario
	mk := func(class, id string, resolveUS int, start []Op, scripts map[string]Script) {
		out = append(out, Scenario{ID: id, Class: class, WaitUS: 300, IntervalUS: 200, ResolveUS: resolveUS,
			Start: start, Scripts: scripts, MaxCallbacks: 60})
	}
	P := int64(3)
	np := []Op{{Op: "newpoint", P: P}}

	// 1. every outcome of the callbacks of the first resolving tick (resolveAfter elapsed at once)
	for _, f := range findRes {
		for _, rq := range requestRes {
			for _, fa := range findRes {
				for _, v := range voteRes {
					if (f != "nodes" && (rq != "ok" || fa != "nodes" || v != "vp")) ||
						(rq != "ok" && (fa != "nodes" || v != "vp")) || (fa != "nodes" && v != "vp") {
						continue // the later answers are never asked for
					}
					s := Script{Find: []Step{{Res: f}}, Request: []Step{{Res: rq}}, FindAlone: []Step{{Res: fa}}, Vote: []Step{{Res: v}}}
					mk("outcomes", fmt.Sprintf("out/%s-%s-%s-%s", f, rq, fa, v), 0, np, map[string]Script{pkey(P): s})
				}
			}
		}
	}
	// gathering ticks first (resolveAfter later), then the resolution
	for _, g := range []int{2, 4} {
		mk("gather-then-resolve", fmt.Sprintf("gather%d", g), 700, np, map[string]Script{pkey(P): fullScript(g + 6)})
	}

	// 2. an API call while the run is inside each callback of the resolving tick (and of a gathering tick)
	calls := []struct {
		name string
		op   Op
	}{
		{"cancel-same", Op{Op: "cancel", P: P}}, {"cancel-newer", Op{Op: "cancel", P: P + 1}}, {"cancel-older", Op{Op: "cancel", P: P - 1}},
		{"newpoint-newer", Op{Op: "newpoint", P: P + 1}}, {"newpoint-same", Op{Op: "newpoint", P: P}}, {"newpoint-older", Op{Op: "newpoint", P: P - 1}},
		{"clean", Op{Op: "clean"}},
	}
	for _, c := range calls {
		for _, kind := range []string{"find", "request", "findalone", "vote"} {
			for _, tick := range []int{0, 1} {
				if tick == 1 && !full && kind != "find" && kind != "vote" {
					continue
				}
				s := fullScript(3)
				if kind == "find" || kind == "request" {
					at(&s, kind, tick).Ops = []Op{c.op}
				} else {
					// the resolving callbacks come once; make the first vote answer nil so that there is a second round
					if tick == 1 {
						s.FindAlone = []Step{{Res: "nodes"}, {Res: "nodes"}}
						s.Vote = []Step{{Res: "nil"}, {Res: "vp"}}
					}
					at(&s, kind, tick).Ops = []Op{c.op}
				}
				scripts := map[string]Script{pkey(P): s}
				if c.op.Op == "newpoint" && c.op.P > P {
					scripts[pkey(c.op.P)] = fullScript(2)
				}
				mk("call-in-callback", fmt.Sprintf("in-%s%d/%s", kind, tick, c.name), 0, np, scripts)
			}
		}
	}
	// 3. the call arrives while a tick is pending: the callback holds longer than the interval, answers notok
	// (the run goes back to its select with both the ticker and the cancelled context ready)
	reps := 12
	if full {
		reps = 60
	}
	for i := 0; i < reps; i++ {
		c := calls[[]int{0, 1, 3, 6}[i%4]]
		s := Script{Find: []Step{{Res: "notok"}, {Res: "notok", Ops: []Op{c.op}, Hold: 500}, {Res: "nodes"}, {Res: "nodes"}},
			Request: []Step{{Res: "ok"}, {Res: "ok"}}, FindAlone: []Step{{Res: "nodes"}}, Vote: []Step{{Res: "vp"}}}
		scripts := map[string]Script{pkey(P): s}
		if c.op.Op == "newpoint" {
			scripts[pkey(c.op.P)] = Script{Find: []Step{{Res: "none"}}}
		}
		mk("call-with-tick-pending", fmt.Sprintf("pending%d/%s", i, c.name), 0, np, scripts)
	}
	// 4. calls from outside the callbacks: before the initial wait is over, right at its end, afterwards
	for i, gap := range []int{0, 150, 300, 320, 600, 1200} {
		for _, c := range calls {
			scripts := map[string]Script{pkey(P): fullScript(8)}
			if c.op.Op == "newpoint" && c.op.P > P {
				scripts[pkey(c.op.P)] = fullScript(2)
			}
			sc := Scenario{ID: fmt.Sprintf("outside%d/%s", i, c.name), Class: "call-from-outside", WaitUS: 300, IntervalUS: 200, ResolveUS: 400,
				Start: []Op{{Op: "newpoint", P: P}, c.op}, StartGapUS: gap, Scripts: scripts, MaxCallbacks: 60}
			out = append(out, sc)
		}
	}
	// 5. the same point again: refused; after Clean: a new run (one resolution per run)
	mk("same-point-after-clean", "reclean", 0, []Op{{Op: "newpoint", P: P}},
		map[string]Script{pkey(P): {Find: []Step{{Res: "nodes"}, {Res: "nodes"}}, Request: []Step{{Res: "ok"}, {Res: "ok"}},
			FindAlone: []Step{{Res: "nodes"}, {Res: "nodes"}}, Vote: []Step{{Res: "nil", Ops: []Op{{Op: "newpoint", P: P}, {Op: "clean"}, {Op: "newpoint", P: P}}}, {Res: "vp"}}}})
	// strong reading: a run for a point at or below a cancelled one
	mk("strong-reading", "below-cancelled", 0, []Op{{Op: "newpoint", P: 1}, {Op: "cancel", P: 3}, {Op: "newpoint", P: 2}},
		map[string]Script{"1": fullScript(1), "2": {Find: []Step{{Res: "none"}}}})

	// 6. seeded random: several points, random answers, random calls inside callbacks
	n := 40
	if full {
		n = 400
	}
	for i := 0; i < n; i++ {
		scripts := map[string]Script{}
		var start []Op
		np := 1 + rng.Intn(3)
		for j := 0; j < np; j++ {
			start = append(start, Op{Op: "newpoint", P: int64(1 + rng.Intn(6))})
		}
		for p := int64(1); p <= 7; p++ {
			s := Script{}
			for t := 0; t < 1+rng.Intn(4); t++ {
				rs := []string{"nodes", "nodes", "nodes", "notok", "none", "err"}
				s.Find = append(s.Find, Step{Res: rs[rng.Intn(len(rs))]})
				s.Request = append(s.Request, Step{Res: []string{"ok", "ok", "ok", "err"}[rng.Intn(4)]})
				s.FindAlone = append(s.FindAlone, Step{Res: rs[rng.Intn(len(rs))]})
				s.Vote = append(s.Vote, Step{Res: []string{"nil", "vp", "vp", "err"}[rng.Intn(4)]})
			}
			for k := 0; k < rng.Intn(3); k++ {
				kind := []string{"find", "request", "findalone", "vote"}[rng.Intn(4)]
				var op Op
				switch rng.Intn(5) {
				case 0:
					op = Op{Op: "clean"}
				case 1, 2:
					op = Op{Op: "cancel", P: p - 1 + int64(rng.Intn(3))}
				default:
					op = Op{Op: "newpoint", P: p - 1 + int64(rng.Intn(3))}
				}
				if op.P < 1 && op.Op != "clean" {
					op.P = 1
				}
				st := at(&s, kind, rng.Intn(2))
				st.Ops = append(st.Ops, op)
				if rng.Intn(3) == 0 {
					st.Hold = rng.Intn(400)
				}
			}
			scripts[pkey(p)] = s
		}
		out = append(out, Scenario{ID: fmt.Sprintf("rnd%d", i), Class: "random", WaitUS: 100 + rng.Intn(300), IntervalUS: 100 + rng.Intn(200),
			ResolveUS: []int{0, 0, 300, 900}[rng.Intn(4)], Start: start, StartGapUS: rng.Intn(500), Scripts: scripts, MaxCallbacks: 80})
	}
	return out
}

func run(args []string) error {
	if len(args) < 1 {
		return errors.Errorf("usage: STUCK batch|one ...")
	}
	f := h.Flags(args[1:])
	out, err := h.NewOut(f["out"])
	if err != nil {
		return err
	}
	switch args[0] {
	case "batch":
		seed, _ := strconv.ParseInt(f["seed"], 10, 64)
		scs := generate(f["tier"] == "thorough", rand.New(rand.NewSource(seed)))
		scout, err := h.NewOut(f["scen"])
		if err != nil {
			return err
		}
		for _, sc := range scs {
			evs, st := runScenario(sc)
			for _, e := range evs {
				out.Emit(e)
			}
			scout.Emit(map[string]interface{}{"id": sc.ID, "class": sc.Class, "status": st, "events": len(evs), "scenario": sc})
		}
		if err := scout.Close(); err != nil {
			return err
		}
	case "one":
		b, err := os.ReadFile(f["in"])
		if err != nil {
			return err
		}
		var sc Scenario
		if err := json.Unmarshal(b, &sc); err != nil {
			return err
		}
		evs, st := runScenario(sc)
		for _, e := range evs {
			out.Emit(e)
		}
		fmt.Println(st)
	default:
		return errors.Errorf("unknown mode %q", args[0])
	}
	return out.Close()
}
