// Package c12 replays the cases of spec/FixedTree.tla on the real fixedtree.Writer,
// fixedtree.Tree and fixedtree.Proof with the real (SHA3-256) node hash and random
// distinct keys (binding A). mode "replay": one case per state of the specification.
// mode "big": one large tree (index arithmetic far beyond the specification's sizes).
package c12

import (
	"encoding/json"
	"fmt"
	"math/bits"
	"math/rand"
	"os"
	"strconv"

	"github.com/spikeekips/mitum/util/fixedtree"
	"github.com/spikeekips/mitum/util/hint"
	"github.com/spikeekips/mitum/util/valuehash"

	"mitumverif/internal/h"
)

func init() { h.Register("C12", run) }

var ht = hint.MustNewHint("verif-fixedtree-v0.0.1")

type kase struct {
	Size   int           `json:"size"`
	MutT   []interface{} `json:"mutT"`
	X      int           `json:"x"`
	MutP   []interface{} `json:"mutP"`
	Layout []int         `json:"layout"`
	Height int           `json:"height"`
}

type result struct {
	I           int    `json:"i"`
	Valid       *bool  `json:"valid,omitempty"`       // Tree.IsValid == nil
	ValidErr    string `json:"validerr,omitempty"`
	RootChanged *bool  `json:"rootchanged,omitempty"` // root of the re-keyed tree differs
	RekeyValid  *bool  `json:"rekeyvalid,omitempty"`
	Proves      *bool  `json:"proves,omitempty"`      // Proof.IsValid == nil && Proof.Prove(key) == nil (unmodified proof)
	ProveErr    string `json:"proveerr,omitempty"`
	LayoutOK    *bool  `json:"layout_ok,omitempty"`   // length and entries of the extracted proof are the specification's
	LayoutGot   string `json:"layout_got,omitempty"`
	Detect      *bool  `json:"detect,omitempty"`      // modified proof: IsValid != nil || Prove != nil
	DetectBy    string `json:"detect_by,omitempty"`
	RootIsLast  *bool  `json:"root_is_last,omitempty"`
	Panic       string `json:"panic,omitempty"`
	Calls       int    `json:"calls"`
}

type world struct {
	rng   *rand.Rand
	salt  uint32
	trees map[int]fixedtree.Tree
}

func (w *world) key(i int) string { return fmt.Sprintf("k%d-%08x", i, w.salt) }

func (w *world) fresh() string { return fmt.Sprintf("fresh-%08x-%08x", w.salt, w.rng.Uint32()) }

func (w *world) build(size int, rekey int, newkey string) (fixedtree.Tree, error) {
	wr, err := fixedtree.NewWriter(ht, uint64(size))
	if err != nil {
		return fixedtree.Tree{}, err
	}
	// nodes are added in a random order: the Writer places them by index
	order := w.rng.Perm(size)
	for _, i := range order {
		k := w.key(i)
		if i == rekey {
			k = newkey
		}
		if err := wr.Add(uint64(i), fixedtree.NewBaseNode(k)); err != nil {
			return fixedtree.Tree{}, err
		}
	}
	return wr.Tree()
}

func (w *world) tree(size int) (fixedtree.Tree, error) {
	if t, ok := w.trees[size]; ok {
		return t, nil
	}
	t, err := w.build(size, -1, "")
	if err != nil {
		return t, err
	}
	if len(w.trees) > 64 {
		w.trees = map[int]fixedtree.Tree{}
	}
	w.trees[size] = t
	return t, nil
}

// mutate returns the node with another key (same hash) or another hash (same key)
func (w *world) mutate(n fixedtree.Node, field string, variant int) fixedtree.Node {
	switch field {
	case "key":
		return fixedtree.NewBaseNode(w.fresh()).SetHash(n.Hash())
	default:
		b := append([]byte{}, n.Hash().Bytes()...)
		switch variant % 3 {
		case 0: // one bit flipped
			b[w.rng.Intn(len(b))] ^= 1 << uint(w.rng.Intn(8))
			return fixedtree.NewBaseNode(n.Key()).SetHash(valuehash.NewBytes(b))
		case 1: // the hash of something else
			return fixedtree.NewBaseNode(n.Key()).SetHash(valuehash.NewSHA256([]byte(w.fresh())))
		default: // the hash the node would have without children (for a leaf that is its hash: take another)
			hh := valuehash.NewSHA256([]byte(n.Key()))
			if hh.Equal(n.Hash()) {
				hh = valuehash.NewSHA256([]byte(w.fresh()))
			}
			return fixedtree.NewBaseNode(n.Key()).SetHash(hh)
		}
	}
}

func bp(b bool) *bool { return &b }

func (w *world) one(k kase, i int, res *result) error {
	t, err := w.tree(k.Size)
	if err != nil {
		return err
	}
	res.Calls++
	if len(k.MutT) == 0 && k.X < 0 {
		err := t.IsValid(nil)
		res.Valid = bp(err == nil)
		if err != nil {
			res.ValidErr = err.Error()
		}
		return nil
	}
	if len(k.MutT) == 2 {
		idx, field := int(k.MutT[0].(float64)), k.MutT[1].(string)
		if field == "rekey" {
			t2, err := w.build(k.Size, idx, w.fresh())
			if err != nil {
				return err
			}
			res.RootChanged = bp(!t2.Root().Equal(t.Root()))
			res.RekeyValid = bp(t2.IsValid(nil) == nil)
			res.Calls += 2
			return nil
		}
		nodes := append([]fixedtree.Node{}, t.Nodes()...)
		t2, err := fixedtree.NewTree(ht, nodes)
		if err != nil {
			return err
		}
		if err := t2.Set(uint64(idx), w.mutate(nodes[idx], field, i)); err != nil {
			return err
		}
		verr := t2.IsValid(nil)
		res.Valid = bp(verr == nil)
		if verr != nil {
			res.ValidErr = verr.Error()
		}
		res.Calls++
		return nil
	}
	// proof of node x
	key := w.key(k.X)
	p, err := t.Proof(key)
	if err != nil {
		res.Proves = bp(false)
		res.ProveErr = "Tree.Proof: " + err.Error()
		return nil
	}
	pn := p.Nodes()
	lok := len(pn) == len(k.Layout)
	for j := 0; lok && j < len(pn); j++ {
		switch {
		case k.Layout[j] < 0:
			lok = pn[j] != nil && pn[j].IsEmpty()
		default:
			lok = pn[j] != nil && !pn[j].IsEmpty() && pn[j].Key() == w.key(k.Layout[j]) &&
				pn[j].Hash().Equal(t.Node(uint64(k.Layout[j])).Hash())
		}
	}
	if lok {
		lok = len(pn) == 2*(k.Height+1)+1
	}
	if len(k.MutP) == 0 {
		res.LayoutOK = bp(lok)
		if !lok {
			res.LayoutGot = fmt.Sprint(pn)
		}
		res.RootIsLast = bp(len(pn) > 0 && pn[len(pn)-1] != nil && pn[len(pn)-1].Hash().Equal(t.Root()))
		e1 := p.IsValid(nil)
		e2 := p.Prove(key)
		res.Calls += 3
		res.Proves = bp(e1 == nil && e2 == nil)
		if e1 != nil {
			res.ProveErr = "IsValid: " + e1.Error()
		} else if e2 != nil {
			res.ProveErr = "Prove: " + e2.Error()
		}
		return nil
	}
	j, field := int(k.MutP[0].(float64)), k.MutP[1].(string)
	if j >= len(pn) || pn[j] == nil || pn[j].IsEmpty() {
		res.LayoutOK = bp(false)
		res.LayoutGot = fmt.Sprint(pn)
		return nil
	}
	nodes := append([]fixedtree.Node{}, pn...)
	nodes[j] = w.mutate(pn[j], field, i)
	p2 := fixedtree.NewProof(nodes)
	e1 := p2.IsValid(nil)
	e2 := p2.Prove(key)
	res.Calls += 3
	res.Detect = bp(e1 != nil || e2 != nil)
	switch {
	case e1 != nil:
		res.DetectBy = "IsValid: " + e1.Error()
	case e2 != nil:
		res.DetectBy = "Prove: " + e2.Error()
	}
	return nil
}

func run(args []string) error {
	if len(args) < 1 {
		return fmt.Errorf("mode?")
	}
	fl := h.Flags(args[1:])
	seed, _ := strconv.ParseInt(os.Getenv("VERIF_SEED"), 10, 64)
	rng := rand.New(rand.NewSource(seed*7919 + 12))
	w := &world{rng: rng, salt: rng.Uint32(), trees: map[int]fixedtree.Tree{}}
	out, err := h.NewOut(fl["out"])
	if err != nil {
		return err
	}
	defer out.Close()
	if args[0] == "big" {
		n, _ := strconv.Atoi(fl["size"])
		return w.big(n, out)
	}
	i := 0
	return h.ReadNDJSON(fl["in"], func(line []byte) error {
		var k kase
		if err := json.Unmarshal(line, &k); err != nil {
			return err
		}
		i++
		res := result{I: i}
		var ierr error
		res.Panic = h.Catch(func() { ierr = w.one(k, i, &res) })
		if ierr != nil {
			return ierr
		}
		out.Emit(res)
		return nil
	})
}

type bigResult struct {
	Size      int      `json:"size"`
	Valid     bool     `json:"valid"`
	Proofs    int      `json:"proofs"`
	Fails     []string `json:"fails"`
	Mutations int      `json:"tree_mutations"`
	Calls     int      `json:"calls"`
	Panic     string   `json:"panic,omitempty"`
}

// big: a tree of n nodes; validity, proofs of the nodes around every level boundary, of the last
// nodes and of random ones (length by exact integer height), a few tree mutations.
func (w *world) big(n int, out *h.Out) error {
	r := bigResult{Size: n, Fails: []string{}}
	r.Panic = h.Catch(func() {
		t, err := w.build(n, -1, "")
		if err != nil {
			r.Fails = append(r.Fails, "build: "+err.Error())
			return
		}
		r.Valid = t.IsValid(nil) == nil
		r.Calls++
		idx := map[int]bool{0: true, n - 1: true, n - 2: true, (n - 2) / 2: true, (n-2)/2 + 1: true}
		for k := 1; 1<<uint(k) <= n+2; k++ {
			for d := -3; d <= 2; d++ {
				if i := (1 << uint(k)) + d; i >= 0 && i < n {
					idx[i] = true
				}
			}
		}
		for c := 0; c < 300; c++ {
			idx[w.rng.Intn(n)] = true
		}
		for i := range idx {
			key := w.key(i)
			p, err := t.Proof(key)
			if err != nil {
				r.Fails = append(r.Fails, fmt.Sprintf("index %d: Tree.Proof: %v", i, err))
				continue
			}
			r.Proofs++
			r.Calls += 3
			height := bits.Len(uint(i+1)) - 1
			if len(p.Nodes()) != 2*(height+1)+1 {
				r.Fails = append(r.Fails, fmt.Sprintf("index %d: proof of %d entries, height %d needs %d", i, len(p.Nodes()), height, 2*(height+1)+1))
			}
			if err := p.IsValid(nil); err != nil {
				r.Fails = append(r.Fails, fmt.Sprintf("index %d: Proof.IsValid: %v", i, err))
			} else if err := p.Prove(key); err != nil {
				r.Fails = append(r.Fails, fmt.Sprintf("index %d: Proof.Prove: %v", i, err))
			}
		}
		cnt := 0
		for i := range idx {
			if cnt >= 40 {
				break
			}
			cnt++
			nodes := append([]fixedtree.Node{}, t.Nodes()...)
			t2, _ := fixedtree.NewTree(ht, nodes)
			field := []string{"key", "hash"}[cnt%2]
			_ = t2.Set(uint64(i), w.mutate(nodes[i], field, cnt))
			r.Mutations++
			r.Calls++
			if t2.IsValid(nil) == nil {
				r.Fails = append(r.Fails, fmt.Sprintf("index %d: tree with changed %s validates", i, field))
			}
		}
	})
	if len(r.Fails) > 20 {
		r.Fails = r.Fails[:20]
	}
	out.Emit(r)
	return nil
}
