// Package c08 drives every way a ballot of the local node leaves it, on the real objects:
// a real States (stub current handler SYNCING, set with the verif helper) whose mimic-ballot
// function is installed in a real Ballotbox, a real DefaultBallotBroadcaster over a real
// TempPool (leveldb mem storage, real encoders) and a broadcast function that logs what it is
// given. Sync sources deliver really signed INIT / ACCEPT / suffrage-confirm ballots through
// Ballotbox.Vote; the consensus handlers' pattern (pool lookup, sign, Broadcast, re-broadcast)
// is performed by harness goroutines on the real broadcaster.
//
//	force: schedules exported by TLC from spec/Broadcaster.tla, through the gates mimic:checked /
//	       mimic:signed / mimic:broadcast and the broadcast function (binding G)
//	free:  seeded concurrent deliveries and handler calls with yields at the gates
//
// Both logs are validated by spec/BroadcasterTrace.tla (binding B).
package c08

import (
	"context"
	"encoding/json"
	"fmt"
	"math/rand"
	"os"
	"runtime"
	"sort"
	"strconv"
	"strings"
	"sync"
	"sync/atomic"
	"time"

	"github.com/spikeekips/mitum/base"
	"github.com/spikeekips/mitum/isaac"
	isaacdatabase "github.com/spikeekips/mitum/isaac/database"
	isaacstates "github.com/spikeekips/mitum/isaac/states"
	"github.com/spikeekips/mitum/launch"
	leveldbstorage "github.com/spikeekips/mitum/storage/leveldb"
	"github.com/spikeekips/mitum/util"
	"github.com/spikeekips/mitum/util/encoder"
	jsonenc "github.com/spikeekips/mitum/util/encoder/json"
	"github.com/spikeekips/mitum/util/valuehash"

	"mitumverif/internal/h"
)

func init() {
	h.Register("C08", run)
	isaacstates.VerifSetGate(gate)
}

type ev = map[string]interface{}

var (
	netID   = base.NetworkID([]byte("verif-c08"))
	enc     *jsonenc.Encoder
	encs    *encoder.Encoders
	local   base.LocalNode
	sources = map[string]base.LocalNode{} // d1.. -> sync source node
	byAddr  = map[string]string{}         // address -> d
	suf     base.Suffrage
	delivs  = []string{"d1", "d2", "d3", "d4"}
	handls  = []string{"h1", "h2"}
	point   = base.RawPoint(33, 0)
	prev    = valuehash.RandomSHA256()
	prop    = map[string]util.Hash{"A": valuehash.RandomSHA256(), "B": valuehash.RandomSHA256()}
	newblk  = map[string]util.Hash{"A": valuehash.RandomSHA256(), "B": valuehash.RandomSHA256()}
	expelh  = []util.Hash{valuehash.RandomSHA256()}
	factOf  = map[string]string{} // fact hash -> "i/A" ...
	avp32   base.ACCEPTVoteproof
	ivp33   = map[string]base.INITVoteproof{}
	runs    sync.Map // *States -> *runner
	setupMu sync.Once
)

func setup() (err error) {
	setupMu.Do(func() {
		enc = jsonenc.NewEncoder()
		encs = encoder.NewEncoders(enc, enc)
		if err = launch.LoadHinters(encs); err != nil {
			return
		}

		local = isaac.NewLocalNode(base.NewMPrivatekey(), base.NewStringAddress("local-c08"))
		nodes := []base.Node{local}

		for _, d := range delivs {
			n := isaac.NewLocalNode(base.NewMPrivatekey(), base.NewStringAddress("source-"+d))
			sources[d] = n
			byAddr[n.Address().String()] = d
			nodes = append(nodes, n)
		}

		// silent members: with threshold 67 no majority and no draw can form among the five voters,
		// so the ballot box never closes a stage point while the deliveries are under way
		for i := 0; i < 5; i++ {
			nodes = append(nodes, isaac.NewLocalNode(base.NewMPrivatekey(), base.NewStringAddress(fmt.Sprintf("silent%d-c08", i))))
		}

		if suf, err = isaac.NewSuffrage(nodes); err != nil {
			return
		}

		for _, f := range []string{"A", "B"} {
			factOf[fact("i", f).Hash().String()] = f
			factOf[fact("a", f).Hash().String()] = f
			factOf[fact("s", f).Hash().String()] = f
		}

		// voteproofs the ballots carry: ACCEPT of height 32 (INIT ballots), INIT of 33 (ACCEPT ballots)
		signers := []base.LocalNode{sources["d1"], sources["d2"], sources["d3"], sources["d4"], local}

		afact := isaac.NewACCEPTBallotFact(base.RawPoint(32, 0), valuehash.RandomSHA256(), prev, nil)
		var asfs []base.BallotSignFact
		for _, n := range signers {
			sf := isaac.NewACCEPTBallotSignFact(afact)
			if err = sf.NodeSign(n.Privatekey(), netID, n.Address()); err != nil {
				return
			}
			asfs = append(asfs, sf)
		}
		avp := isaac.NewACCEPTVoteproof(base.RawPoint(32, 0))
		avp.SetMajority(afact).SetSignFacts(asfs).SetThreshold(base.Threshold(67)).Finish()
		avp32 = avp

		for _, f := range []string{"A", "B"} {
			ifact := isaac.NewINITBallotFact(point, prev, prop[f], nil)
			var isfs []base.BallotSignFact
			for _, n := range signers {
				sf := isaac.NewINITBallotSignFact(ifact)
				if err = sf.NodeSign(n.Privatekey(), netID, n.Address()); err != nil {
					return
				}
				isfs = append(isfs, sf)
			}
			ivp := isaac.NewINITVoteproof(point)
			ivp.SetMajority(ifact).SetSignFacts(isfs).SetThreshold(base.Threshold(67)).Finish()
			ivp33[f] = ivp
		}
	})

	return err
}

// fact builds the ballot fact model (sp, f) stands for.
func fact(sp, f string) base.BallotFact {
	switch sp {
	case "i":
		return isaac.NewINITBallotFact(point, prev, prop[f], nil)
	case "s":
		return isaac.NewSuffrageConfirmBallotFact(point, prev, prop[f], expelh)
	default:
		return isaac.NewACCEPTBallotFact(point, prop[f], newblk[f], nil)
	}
}

// ballot builds the ballot of node n for (sp, f), really signed.
func ballot(n base.LocalNode, sp, f string) (base.Ballot, error) {
	switch sp {
	case "i", "s":
		sf := isaac.NewINITBallotSignFact(fact(sp, f).(base.INITBallotFact)) //nolint:forcetypeassert //...
		if err := sf.NodeSign(n.Privatekey(), netID, n.Address()); err != nil {
			return nil, err
		}

		return isaac.NewINITBallot(avp32, sf, nil), nil
	default:
		sf := isaac.NewACCEPTBallotSignFact(fact(sp, f).(base.ACCEPTBallotFact)) //nolint:forcetypeassert //...
		if err := sf.NodeSign(n.Privatekey(), netID, n.Address()); err != nil {
			return nil, err
		}

		return isaac.NewACCEPTBallot(ivp33[f], sf, nil), nil
	}
}

func spOf(bl base.Ballot) string {
	switch {
	case isaac.IsSuffrageConfirmBallotFact(bl.SignFact().Fact()):
		return "s"
	case bl.Point().Stage() == base.StageINIT:
		return "i"
	default:
		return "a"
	}
}

func stageOf(sp string) (base.Stage, bool) {
	switch sp {
	case "i":
		return base.StageINIT, false
	case "s":
		return base.StageINIT, true
	default:
		return base.StageACCEPT, false
	}
}

func gid() int64 {
	var b [64]byte
	n := runtime.Stack(b[:], false)
	s := strings.TrimPrefix(string(b[:n]), "goroutine ")
	if i := strings.IndexByte(s, ' '); i > 0 {
		s = s[:i]
	}
	v, _ := strconv.ParseInt(s, 10, 64)

	return v
}

func gate(p string, args ...interface{}) {
	if !strings.HasPrefix(p, "mimic:") || len(args) < 2 {
		return
	}

	st, ok := args[0].(*isaacstates.States)
	if !ok {
		return
	}

	v, ok := runs.Load(st)
	if !ok {
		return
	}

	v.(*runner).gate(p, args[1:])
}

type arrival struct {
	point   string
	release chan struct{}
}

type runner struct {
	st      *isaacstates.States
	pool    *isaacdatabase.TempPool
	bb      *isaacstates.DefaultBallotBroadcaster
	box     *isaacstates.Ballotbox
	out     *h.Out
	mu      sync.Mutex
	logging bool
	count   map[string]int
	nev     int
	forced  atomic.Bool
	jitter  bool
	rng     *rand.Rand
	done    chan struct{}
	pmu     sync.Mutex
	parked  map[string]*arrival
	callers sync.Map // gid -> caller
	inflight int64
	spawned  int64
	dsp, df map[string]string
}

func newRunner(out *h.Out, dsp, df map[string]string, seed int64) (*runner, error) {
	if err := setup(); err != nil {
		return nil, err
	}

	r := &runner{
		out: out, logging: true, count: map[string]int{}, done: make(chan struct{}),
		parked: map[string]*arrival{}, rng: rand.New(rand.NewSource(seed)), dsp: dsp, df: df,
	}

	pool, err := isaacdatabase.NewTempPool(leveldbstorage.NewMemStorage(), encs, enc, 0)
	if err != nil {
		return nil, err
	}

	r.pool = pool
	r.bb = isaacstates.NewDefaultBallotBroadcaster(local.Address(), pool, r.broadcast)
	r.box = isaacstates.NewBallotbox(
		local.Address(),
		func() base.Threshold { return base.Threshold(67) },
		func(base.Height) (base.Suffrage, bool, error) { return suf, true, nil },
	)

	args := isaacstates.NewStatesArgs()
	args.AllowConsensus = true
	args.Ballotbox = r.box
	args.BallotBroadcaster = r.bb
	args.IsInSyncSourcePoolFunc = func(a base.Address) bool {
		_, ok := byAddr[a.String()]

		return ok
	}

	st, err := isaacstates.NewStates(netID, local, args) // installs mimicBallotFunc in the ballot box
	if err != nil {
		return nil, err
	}

	// the same function again, wrapped: the harness learns when a call has returned
	mimic := st.VerifMimicBallotFunc()
	r.box.SetNewBallotFunc(func(bl base.Ballot) {
		atomic.AddInt64(&r.inflight, 1)
		defer atomic.AddInt64(&r.inflight, -1)

		mimic(bl)

		if c, ok := byAddr[bl.SignFact().Node().String()]; ok {
			r.emit(ev{"a": "MimicRet", "c": c})
		}
	})

	st.VerifSetStubHandlers(func(*isaacstates.States, isaacstates.VerifStubEvent) isaacstates.VerifStubReply {
		return isaacstates.VerifStubReply{}
	})
	st.VerifSetCurrent(isaacstates.StateSyncing)

	r.st = st
	runs.Store(st, r)

	r.emit(ev{"a": "Reset", "dsp": dsp, "df": df})

	return r, nil
}

func (r *runner) emit(e ev) {
	r.mu.Lock()
	defer r.mu.Unlock()

	if !r.logging {
		return
	}

	r.out.Emit(e)
	r.nev++

	k := fmt.Sprint(e["a"])
	if c, ok := e["c"]; ok {
		k = fmt.Sprint(c) + "/" + k
	}

	r.count[k]++
}

func (r *runner) counter(k string) int {
	r.mu.Lock()
	defer r.mu.Unlock()

	return r.count[k]
}

func (r *runner) events() int {
	r.mu.Lock()
	defer r.mu.Unlock()

	return r.nev
}

func (r *runner) park(c, p string) {
	switch {
	case r.forced.Load():
		a := &arrival{point: p, release: make(chan struct{})}

		r.pmu.Lock()
		r.parked[c] = a
		r.pmu.Unlock()

		select {
		case <-a.release:
		case <-r.done:
		}
	case r.jitter:
		r.mu.Lock()
		k := r.rng.Intn(6)
		d := r.rng.Intn(100)
		r.mu.Unlock()

		switch {
		case k < 3:
			runtime.Gosched()
		case k == 3:
			time.Sleep(time.Duration(20+d) * time.Microsecond)
		}
	}
}

func factName(bl base.Ballot) string {
	if f, ok := factOf[bl.SignFact().Fact().Hash().String()]; ok {
		return f
	}

	return "?"
}

func (r *runner) gate(p string, args []interface{}) {
	bl, ok := args[0].(base.Ballot)
	if !ok {
		return
	}

	c, ok := byAddr[bl.SignFact().Node().String()]
	if !ok {
		return
	}

	switch p {
	case "mimic:checked":
		r.emit(ev{"a": "Checked", "c": c})
		r.park(c, p)
	case "mimic:signed":
		nbl := args[1].(base.Ballot) //nolint:forcetypeassert //...
		r.emit(ev{
			"a": "Signed", "c": c, "s": spOf(nbl), "f": factName(nbl),
			"local": nbl.SignFact().Node().Equal(local.Address()),
		})
	case "mimic:broadcast":
		r.callers.Store(gid(), c)
		r.emit(ev{"a": "AtBcast", "c": c})
		r.park(c, p)
	}
}

// broadcast is the broadcast function of the real DefaultBallotBroadcaster.
func (r *runner) broadcast(bl base.Ballot) error {
	c := "?"
	if v, ok := r.callers.Load(gid()); ok {
		c = v.(string) //nolint:forcetypeassert //...
	}

	r.park(c, "send")
	r.emit(ev{
		"a": "Send", "c": c, "s": spOf(bl), "f": factName(bl),
		"local": bl.SignFact().Node().Equal(local.Address()),
	})

	return nil
}

// deliver hands the ballot of sync source d to the real ballot box.
func (r *runner) deliver(d string) (bool, error) {
	bl, err := ballot(sources[d], r.dsp[d], r.df[d])
	if err != nil {
		return false, err
	}

	voted, err := r.box.Vote(bl)
	if voted {
		atomic.AddInt64(&r.spawned, 1)
	}

	r.emit(ev{"a": "Deliver", "c": d, "voted": voted})

	return voted, err
}

// handler call: the steps of baseBallotHandler.make*Ballot + broadcast, one by one
type hcall struct {
	r  *runner
	c  string
	bl base.Ballot
	ch chan string
	ok chan error
}

func (r *runner) newHCall(c string) *hcall {
	hc := &hcall{r: r, c: c, ch: make(chan string), ok: make(chan error, 1)}

	go func() {
		r.callers.Store(gid(), c)

		for op := range hc.ch {
			hc.ok <- hc.do(op)
		}
	}()

	return hc
}

func (hc *hcall) do(op string) error {
	r := hc.r
	sp, f := r.dsp[hc.c], r.df[hc.c]

	switch op {
	case "look":
		stage, isc := stageOf(sp)

		r.emit(ev{"a": "HLookC", "c": hc.c})

		bl, found, err := r.bb.Ballot(point, stage, isc)
		if err != nil {
			return err
		}

		e := ev{"a": "HLook", "c": hc.c, "found": found, "f": ""}
		if found {
			hc.bl = bl
			e["f"] = factName(bl)
		}

		r.emit(e)
	case "sign":
		bl, err := ballot(local, sp, f)
		if err != nil {
			return err
		}

		hc.bl = bl
		r.emit(ev{"a": "HSign", "c": hc.c, "s": sp, "f": f})
	case "bcast":
		if hc.bl == nil {
			return fmt.Errorf("handler call %s has no ballot to broadcast", hc.c)
		}

		r.emit(ev{"a": "BcastC", "c": hc.c})
		err := r.bb.Broadcast(hc.bl)
		r.emit(ev{"a": "BcastR", "c": hc.c})

		return err
	case "again":
		r.emit(ev{"a": "Again", "c": hc.c})
	}

	return nil
}

func (hc *hcall) call(op string) error {
	hc.ch <- op

	return <-hc.ok
}

func (hc *hcall) start(op string) { hc.ch <- op }

// ---------------------------------------------------------------- forced schedules

var arriveTimeout = 2 * time.Second

func (r *runner) waitArrive(c, p string) bool {
	deadline := time.Now().Add(arriveTimeout)

	for {
		r.pmu.Lock()
		a := r.parked[c]
		r.pmu.Unlock()

		if a != nil && a.point == p {
			return true
		}

		if time.Now().After(deadline) {
			return false
		}

		time.Sleep(50 * time.Microsecond)
	}
}

func (r *runner) parkedAt(c string) string {
	r.pmu.Lock()
	defer r.pmu.Unlock()

	if a := r.parked[c]; a != nil {
		return a.point
	}

	return ""
}

func (r *runner) release(c string) {
	r.pmu.Lock()
	a := r.parked[c]
	r.parked[c] = nil
	r.pmu.Unlock()

	if a != nil {
		close(a.release)
	}
}

func (r *runner) waitCount(k string, want int) bool {
	deadline := time.Now().Add(arriveTimeout)

	for r.counter(k) < want {
		if time.Now().After(deadline) {
			return false
		}

		time.Sleep(50 * time.Microsecond)
	}

	return true
}

func settle() { time.Sleep(3 * time.Millisecond) }

func (r *runner) returned() int64 {
	r.mu.Lock()
	defer r.mu.Unlock()

	n := 0
	for k, v := range r.count {
		if strings.HasSuffix(k, "/MimicRet") {
			n += v
		}
	}

	return int64(n)
}

// quiesce waits until every mimic call the ballot box started has returned and nothing is logged any more.
func (r *runner) quiesce() {
	for i := 0; i < 5000 && (r.returned() < atomic.LoadInt64(&r.spawned) || atomic.LoadInt64(&r.inflight) > 0); i++ {
		time.Sleep(time.Millisecond)
	}

	last := r.events()
	stable := 0

	for i := 0; i < 2000 && stable < 3; i++ {
		time.Sleep(time.Millisecond)

		if n := r.events(); n == last {
			stable++
		} else {
			stable = 0
			last = n
		}
	}
}

func (r *runner) finish() {
	r.mu.Lock()
	r.logging = false
	r.mu.Unlock()

	r.forced.Store(false)
	close(r.done)
	runs.Delete(r.st)

	time.Sleep(200 * time.Microsecond)
	_ = r.pool.Close()
}

type step struct {
	A     string            `json:"a"`
	C     string            `json:"c"`
	Found bool              `json:"found"`
	S     string            `json:"s"`
	F     string            `json:"f"`
	Dsp   map[string]string `json:"dsp"`
	Df    map[string]string `json:"df"`
}

func isDeliv(c string) bool { return strings.HasPrefix(c, "d") }

// full gives every caller of the trace spec's constants an assignment (unused ones never act).
func full(m map[string]string, def string) map[string]string {
	out := map[string]string{}
	for _, c := range append(append([]string{}, delivs...), handls...) {
		out[c] = def
		if v, ok := m[c]; ok {
			out[c] = v
		}
	}

	return out
}

func force(out *h.Out, steps []step, seed int64) (reason string, err error) {
	if len(steps) < 1 || steps[0].A != "Init" {
		return "", fmt.Errorf("schedule does not start with Init")
	}

	r, err := newRunner(out, full(steps[0].Dsp, "i"), full(steps[0].Df, "A"), seed)
	if err != nil {
		return "", err
	}

	r.forced.Store(true)

	hcs := map[string]*hcall{}
	nsend := map[string]int{}

loop:
	for i, s := range steps[1:] {
		c := s.C

		if !isDeliv(c) && hcs[c] == nil {
			hcs[c] = r.newHCall(c)
		}

		switch s.A {
		case "Check":
			if !isDeliv(c) {
				if err := hcs[c].call("look"); err != nil {
					return "", err
				}

				if found := hcs[c].bl != nil; found != s.Found {
					reason = fmt.Sprintf("diverged:step %d Check(%s): pool lookup found=%v, model: %v", i+1, c, found, s.Found)

					break loop
				}

				break
			}

			voted, err := r.deliver(c)
			if err != nil {
				return "", err
			}

			if !voted {
				reason = fmt.Sprintf("infeasible:step %d: ballot box did not take the ballot of %s", i+1, c)

				break loop
			}

			if !s.Found {
				if !r.waitArrive(c, "mimic:checked") {
					reason = fmt.Sprintf("diverged:step %d Check(%s): no gate mimic:checked, model: not found", i+1, c)

					break loop
				}

				break
			}

			if !r.waitCount(c+"/MimicRet", 1) {
				settle()
			}

			if r.parkedAt(c) != "" {
				reason = fmt.Sprintf("diverged:step %d Check(%s): passed the pool check, model: found", i+1, c)

				break loop
			}
		case "Sign":
			if !isDeliv(c) {
				if err := hcs[c].call("sign"); err != nil {
					return "", err
				}

				break
			}

			r.release(c)

			if !r.waitArrive(c, "mimic:broadcast") {
				reason = fmt.Sprintf("diverged:step %d Sign(%s): did not reach mimic:broadcast", i+1, c)

				break loop
			}
		case "Set":
			if isDeliv(c) {
				r.release(c)
			} else {
				hcs[c].start("bcast")
			}

			if !r.waitArrive(c, "send") {
				reason = fmt.Sprintf("diverged:step %d Set(%s): broadcast function not called", i+1, c)

				break loop
			}
		case "Send":
			nsend[c]++
			r.release(c)

			if !r.waitCount(c+"/Send", nsend[c]) {
				reason = fmt.Sprintf("infeasible:step %d Send(%s)", i+1, c)

				break loop
			}

			if !isDeliv(c) {
				if err := <-hcs[c].ok; err != nil {
					return "", err
				}
			}
		case "Again":
			if err := hcs[c].call("again"); err != nil {
				return "", err
			}
		default:
			return "", fmt.Errorf("unknown schedule step %q", s.A)
		}
	}

	if reason == "" {
		r.quiesce()
	}

	r.finish()

	for _, hc := range hcs {
		close(hc.ch)
	}

	return reason, nil
}

// ---------------------------------------------------------------- free-running

func free(out *h.Out, seed int64) error {
	rng := rand.New(rand.NewSource(seed))
	sps := []string{"i", "a", "s"}
	fs := []string{"A", "B"}

	// few stage points, so that deliveries collide
	k := 1 + rng.Intn(2)
	pick := make([]string, k)
	for i := range pick {
		pick[i] = sps[rng.Intn(len(sps))]
	}

	dsp, df := map[string]string{}, map[string]string{}
	for _, c := range append(append([]string{}, delivs...), handls...) {
		dsp[c] = pick[rng.Intn(k)]
		df[c] = fs[rng.Intn(2)]
	}

	r, err := newRunner(out, dsp, df, seed)
	if err != nil {
		return err
	}

	r.jitter = true

	var wg sync.WaitGroup

	errs := make(chan error, 16)
	nd := 2 + rng.Intn(3)
	order := rng.Perm(len(delivs))[:nd]
	sort.Ints(order)

	for _, i := range order {
		d := delivs[i]
		g := rand.New(rand.NewSource(rng.Int63()))

		wg.Add(1)

		go func() {
			defer wg.Done()

			if g.Intn(3) == 0 {
				time.Sleep(time.Duration(g.Intn(150)) * time.Microsecond)
			}

			if _, err := r.deliver(d); err != nil {
				errs <- err
			}
		}()
	}

	nh := rng.Intn(3)
	for i := 0; i < nh; i++ {
		c := handls[i]
		g := rand.New(rand.NewSource(rng.Int63()))
		again := g.Intn(2)

		wg.Add(1)

		go func() {
			defer wg.Done()

			r.callers.Store(gid(), c)

			hc := &hcall{r: r, c: c}
			nap := func() {
				switch g.Intn(3) {
				case 0:
					runtime.Gosched()
				case 1:
					time.Sleep(time.Duration(g.Intn(200)) * time.Microsecond)
				}
			}

			nap()

			if err := hc.do("look"); err != nil {
				errs <- err

				return
			}

			if hc.bl == nil {
				nap()
				_ = hc.do("sign")
			}

			nap()

			if err := hc.do("bcast"); err != nil {
				errs <- err

				return
			}

			for j := 0; j < again; j++ {
				nap()
				_ = hc.do("again")

				if err := hc.do("bcast"); err != nil {
					errs <- err

					return
				}
			}
		}()
	}

	wg.Wait()
	r.quiesce()
	r.finish()

	select {
	case err := <-errs:
		return err
	default:
		return nil
	}
}

// vh C08 force --in schedules.ndjson --out trace.ndjson --res results.ndjson
// vh C08 free --num N --out trace.ndjson
func run(args []string) error {
	if len(args) < 1 {
		return fmt.Errorf("usage: C08 force|free ...")
	}

	fl := h.Flags(args[1:])

	seed, _ := strconv.ParseInt(os.Getenv("VERIF_SEED"), 10, 64)
	if seed == 0 {
		seed = 1
	}

	out, err := h.NewOut(fl["out"])
	if err != nil {
		return err
	}
	defer out.Close()

	_ = context.Background

	switch args[0] {
	case "force":
		res, err := h.NewOut(fl["res"])
		if err != nil {
			return err
		}
		defer res.Close()

		i := 0

		return h.ReadNDJSON(fl["in"], func(line []byte) error {
			var steps []step
			if err := json.Unmarshal(line, &steps); err != nil {
				return err
			}

			first := out.N + 1

			reason, err := force(out, steps, seed+int64(i))
			if err != nil {
				return err
			}

			res.Emit(ev{"i": i, "first": first, "last": out.N, "reason": reason})
			i++

			return nil
		})
	case "free":
		num, _ := strconv.Atoi(fl["num"])

		for i := 0; i < num; i++ {
			if err := free(out, seed*1000003+int64(i)); err != nil {
				return err
			}
		}

		return nil
	default:
		return fmt.Errorf("unknown mode %q", args[0])
	}
}
