// Package c23 replays states and behaviours of spec/PoolExpels.tla into a real
// isaacdatabase.TempPool (binding A): real signed SuffrageExpelOperations, real JSON
// encoder, leveldb mem storage. After every step every query the statement speaks about is
// asked: traversal at every height, lookup of every node at every height; the stored set is
// read from the raw storage keys. Expected answers are the abstract ones computed by TLC.
package c23

import (
	"bytes"
	"context"
	"encoding/json"
	"fmt"
	"math/rand"
	"os"
	"sort"
	"strconv"
	"sync"

	"github.com/spikeekips/mitum/base"
	"github.com/spikeekips/mitum/isaac"
	isaacdatabase "github.com/spikeekips/mitum/isaac/database"
	leveldbstorage "github.com/spikeekips/mitum/storage/leveldb"
	"github.com/spikeekips/mitum/util/encoder"
	jsonenc "github.com/spikeekips/mitum/util/encoder/json"

	"mitumverif/internal/h"
)

func init() { h.Register("C23", run) }

type opT struct {
	Node  string `json:"node"`
	Start int64  `json:"start"`
	End   int64  `json:"end"`
}

func (o opT) id() string { return fmt.Sprintf("%s:%d:%d", o.Node, o.Start, o.End) }

type stT struct {
	Ops   []opT                 `json:"ops"`
	Cover [][]string            `json:"cover"`
	Look  map[string][][]string `json:"look"`
	Rem   [][]string            `json:"rem"`
}

type stepT struct {
	A     string `json:"a"`
	Op    *opT   `json:"op,omitempty"`
	Facts []opT  `json:"facts,omitempty"`
	H     int64  `json:"h"`
	St    stT    `json:"st"`
}

type caseT struct {
	I     int     `json:"i"`
	Kind  string  `json:"kind"` // "state" | "beh"
	St    *stT    `json:"st,omitempty"`
	Steps []stepT `json:"steps,omitempty"`
}

type mismatch struct {
	Class string   `json:"class"` // traverse | lookup-found | lookup-op | stored | remove-by-height | panic | error
	Step  int      `json:"step"`  // index of the step in a behaviour (0 for a state case)
	After string   `json:"after"` // action performed last
	H     int64    `json:"h"`
	Node  string   `json:"node,omitempty"`
	Got   []string `json:"got"`
	Want  []string `json:"want"`
	Order []string `json:"order"` // the real key order (descending, as the readers iterate)
	Ops   []string `json:"ops"`   // the set stored according to the specification
	Msg   string   `json:"msg,omitempty"`
}

type resT struct {
	I       int        `json:"i"`
	Variant int        `json:"variant"`
	Calls   int        `json:"calls"`
	Mis     []mismatch `json:"mis,omitempty"`
}

// ---------------------------------------------------------------- real objects

type world struct {
	enc   *jsonenc.Encoder
	encs  *encoder.Encoders
	local base.LocalNode
	netID base.NetworkID
	mu    sync.Mutex
	addr  map[string]base.Address                 // variant/node
	ops   map[string]isaac.SuffrageExpelOperation // variant/id
}

func newWorld() (*world, error) {
	enc := jsonenc.NewEncoder()
	encs := encoder.NewEncoders(enc, enc)
	for _, d := range []encoder.DecodeDetail{
		{Hint: base.MPublickeyHint, Instance: &base.MPublickey{}},
		{Hint: base.StringAddressHint, Instance: base.StringAddress{}},
		{Hint: isaac.SuffrageExpelOperationHint, Instance: isaac.SuffrageExpelOperation{}},
		{Hint: isaac.SuffrageExpelFactHint, Instance: isaac.SuffrageExpelFact{}},
	} {
		if err := enc.Add(d); err != nil {
			return nil, err
		}
	}
	return &world{
		enc: enc, encs: encs,
		local: base.RandomLocalNode(), netID: base.NetworkID("verif-c23"),
		addr: map[string]base.Address{}, ops: map[string]isaac.SuffrageExpelOperation{},
	}, nil
}

// op returns the real signed operation the model operation stands for. Different variants
// use different node addresses, hence different fact hashes, hence another key order among
// operations that end at the same height.
func (w *world) op(variant int, o opT) isaac.SuffrageExpelOperation {
	w.mu.Lock()
	defer w.mu.Unlock()
	k := fmt.Sprintf("%d/%s", variant, o.id())
	if x, ok := w.ops[k]; ok {
		return x
	}
	fact := isaac.NewSuffrageExpelFact(w.nodeLocked(variant, o.Node), base.Height(o.Start), base.Height(o.End), "verif "+o.id())
	x := isaac.NewSuffrageExpelOperation(fact)
	if err := x.NodeSign(w.local.Privatekey(), w.netID, w.local.Address()); err != nil {
		panic(err)
	}
	if err := x.IsValid(w.netID); err != nil {
		panic(fmt.Sprintf("generated operation %s is not valid: %+v", o.id(), err))
	}
	w.ops[k] = x
	return x
}

func (w *world) nodeLocked(variant int, n string) base.Address {
	k := fmt.Sprintf("%d/%s", variant, n)
	if a, ok := w.addr[k]; ok {
		return a
	}
	a := base.NewStringAddress(fmt.Sprintf("%s-v%d", n, variant))
	w.addr[k] = a
	return a
}

func (w *world) node(variant int, n string) base.Address {
	w.mu.Lock()
	defer w.mu.Unlock()
	return w.nodeLocked(variant, n)
}

// ---------------------------------------------------------------- one pool under test

type pool struct {
	w       *world
	variant int
	raw     *leveldbstorage.Storage
	db      *isaacdatabase.TempPool
	known   map[string]opT    // every model operation ever handed to this pool, by id
	byHash  map[string]string // fact hash bytes -> model id
	calls   int
}

func (p *pool) learn(o opT) isaac.SuffrageExpelOperation {
	x := p.w.op(p.variant, o)
	if _, ok := p.known[o.id()]; !ok {
		p.known[o.id()] = o
		p.byHash[string(x.ExpelFact().Hash().Bytes())] = o.id()
	}
	return x
}

func (w *world) newPool(variant int) (*pool, error) {
	raw := leveldbstorage.NewMemStorage()
	db, err := isaacdatabase.NewTempPool(raw, w.encs, w.enc, 0)
	if err != nil {
		return nil, err
	}
	return &pool{w: w, variant: variant, raw: raw, db: db, known: map[string]opT{}, byHash: map[string]string{}}, nil
}

func (p *pool) close() { _ = p.db.Close(); _ = p.raw.Close() }

func (p *pool) modelID(op base.SuffrageExpelOperation) string {
	f := op.ExpelFact()
	if id, ok := p.byHash[string(f.Hash().Bytes())]; ok {
		return id
	}
	return fmt.Sprintf("?%s:%d:%d", f.Node(), f.ExpelStart(), f.ExpelEnd())
}

func (p *pool) set(o opT) error {
	x := p.learn(o)
	p.calls++
	return p.db.SetSuffrageExpelOperation(x)
}

// stored reads the raw storage: ids of the known operations whose fact hash ends a key,
// in DESCENDING key order (the order the readers iterate in). Keys of other families of
// the pool do not end with an expel fact hash.
func (p *pool) stored() (order []string, err error) {
	err = p.raw.Iter(nil, func(k, _ []byte) (bool, error) {
		for hb, id := range p.byHash {
			if bytes.HasSuffix(k, []byte(hb)) {
				order = append(order, id)
			}
		}
		return true, nil
	}, false)
	return order, err
}

func (p *pool) traverse(hh int64) (ids []string, err error) {
	p.calls++
	err = p.db.TraverseSuffrageExpelOperations(context.Background(), base.Height(hh),
		func(op base.SuffrageExpelOperation) (bool, error) {
			ids = append(ids, p.modelID(op))
			return true, nil
		})
	return ids, err
}

func (p *pool) lookup(n string, hh int64) (id string, found bool, err error) {
	p.calls++
	op, found, err := p.db.SuffrageExpelOperation(base.Height(hh), p.w.node(p.variant, n))
	if err != nil || !found {
		return "", found, err
	}
	if op == nil {
		return "<nil>", true, nil
	}
	f := op.ExpelFact()
	if !f.Node().Equal(p.w.node(p.variant, n)) {
		return fmt.Sprintf("?othernode:%s", p.modelID(op)), true, nil
	}
	return p.modelID(op), true, nil
}

func sorted(s []string) []string {
	o := append([]string{}, s...)
	sort.Strings(o)
	return o
}

func eq(a, b []string) bool {
	a, b = sorted(a), sorted(b)
	if len(a) != len(b) {
		return false
	}
	for i := range a {
		if a[i] != b[i] {
			return false
		}
	}
	return true
}

func ids(ops []opT) []string {
	o := make([]string, len(ops))
	for i := range ops {
		o[i] = ops[i].id()
	}
	return o
}

// check asks every query and compares with the specification's answers.
func (p *pool) check(st *stT, step int, after string, out *[]mismatch) {
	order, err := p.stored()
	add := func(m mismatch) {
		m.Step, m.After, m.Order, m.Ops = step, after, order, sorted(ids(st.Ops))
		*out = append(*out, m)
	}
	if err != nil {
		add(mismatch{Class: "error", Msg: "raw iter: " + err.Error()})
		return
	}
	if !eq(order, ids(st.Ops)) {
		// the pool does not hold what the specification says: the expected answers below
		// are for another set, so the queries are not judged (and a behaviour stops here)
		add(mismatch{Class: "stored", Got: sorted(order), Want: sorted(ids(st.Ops))})
		return
	}
	for i := range st.Cover {
		hh := int64(i)
		var got []string
		var err error
		if pn := h.Catch(func() { got, err = p.traverse(hh) }); pn != "" {
			add(mismatch{Class: "panic", H: hh, Msg: "traverse: " + pn})
			continue
		}
		if err != nil {
			add(mismatch{Class: "error", H: hh, Msg: fmt.Sprintf("traverse: %+v", err)})
			continue
		}
		// exactly the covering operations, each once
		if !eq(got, st.Cover[i]) {
			add(mismatch{Class: "traverse", H: hh, Got: got, Want: sorted(st.Cover[i])})
		}
	}
	nodes := make([]string, 0, len(st.Look))
	for n := range st.Look {
		nodes = append(nodes, n)
	}
	sort.Strings(nodes)
	for _, n := range nodes {
		for i := range st.Look[n] {
			hh := int64(i)
			want := st.Look[n][i]
			var id string
			var found bool
			var err error
			if pn := h.Catch(func() { id, found, err = p.lookup(n, hh) }); pn != "" {
				add(mismatch{Class: "panic", H: hh, Node: n, Msg: "lookup: " + pn})
				continue
			}
			if err != nil {
				add(mismatch{Class: "error", H: hh, Node: n, Msg: fmt.Sprintf("lookup: %+v", err)})
				continue
			}
			switch {
			case found != (len(want) > 0):
				g := []string{}
				if found {
					g = []string{id}
				}
				add(mismatch{Class: "lookup-found", H: hh, Node: n, Got: g, Want: sorted(want)})
			case found:
				ok := false
				for _, x := range want {
					ok = ok || x == id
				}
				if !ok {
					add(mismatch{Class: "lookup-op", H: hh, Node: n, Got: []string{id}, Want: sorted(want)})
				}
			}
		}
	}
}

func (p *pool) do(s *stepT) (err error) {
	switch s.A {
	case "Init":
	case "Set":
		return p.set(*s.Op)
	case "RemoveByFact":
		fs := make([]base.SuffrageExpelFact, len(s.Facts))
		for i, o := range s.Facts {
			fs[i] = p.learn(o).ExpelFact()
		}
		p.calls++
		return p.db.RemoveSuffrageExpelOperationsByFact(fs)
	case "RemoveByHeight":
		p.calls++
		return p.db.RemoveSuffrageExpelOperationsByHeight(base.Height(s.H))
	default:
		return fmt.Errorf("unknown action %q", s.A)
	}
	return nil
}

func (w *world) runCase(c *caseT, rng *rand.Rand, nvariants int) resT {
	res := resT{I: c.I, Variant: rng.Intn(nvariants)}
	switch c.Kind {
	case "state":
		build := func() (*pool, error) {
			p, err := w.newPool(res.Variant)
			if err != nil {
				return nil, err
			}
			perm := rng.Perm(len(c.St.Ops))
			for _, j := range perm {
				if err := p.set(c.St.Ops[j]); err != nil {
					p.close()
					return nil, err
				}
			}
			return p, nil
		}
		p, err := build()
		if err != nil {
			res.Mis = append(res.Mis, mismatch{Class: "error", Msg: fmt.Sprintf("set: %+v", err)})
			return res
		}
		p.check(c.St, 0, "Set*", &res.Mis)
		// removal by every height, each from the same stored set: the removed operations
		// are stored again (same keys) before the next height is tried
		for i := range c.St.Rem {
			if len(c.St.Ops) == 0 {
				break
			}
			before, _ := p.stored()
			if !eq(before, ids(c.St.Ops)) {
				break // already reported by check() / by the previous round
			}
			var rerr error
			pn := h.Catch(func() { rerr = p.do(&stepT{A: "RemoveByHeight", H: int64(i)}) })
			after, _ := p.stored()
			switch {
			case pn != "":
				res.Mis = append(res.Mis, mismatch{Class: "panic", H: int64(i), After: "RemoveByHeight", Msg: pn, Order: before, Ops: sorted(ids(c.St.Ops))})
			case rerr != nil:
				res.Mis = append(res.Mis, mismatch{Class: "error", H: int64(i), After: "RemoveByHeight", Msg: fmt.Sprintf("%+v", rerr), Order: before, Ops: sorted(ids(c.St.Ops))})
			case !eq(after, c.St.Rem[i]):
				res.Mis = append(res.Mis, mismatch{Class: "remove-by-height", H: int64(i), After: "RemoveByHeight",
					Got: sorted(after), Want: sorted(c.St.Rem[i]), Order: before, Ops: sorted(ids(c.St.Ops))})
			}
			for _, j := range rng.Perm(len(c.St.Ops)) {
				if err := p.set(c.St.Ops[j]); err != nil {
					res.Mis = append(res.Mis, mismatch{Class: "error", After: "Set", Msg: fmt.Sprintf("%+v", err)})
				}
			}
		}
		res.Calls += p.calls
		p.close()
	case "beh":
		p, err := w.newPool(res.Variant)
		if err != nil {
			res.Mis = append(res.Mis, mismatch{Class: "error", Msg: err.Error()})
			return res
		}
		defer p.close()
		for k := range c.Steps {
			s := &c.Steps[k]
			var derr error
			if pn := h.Catch(func() { derr = p.do(s) }); pn != "" {
				res.Mis = append(res.Mis, mismatch{Class: "panic", Step: k, After: s.A, Msg: pn})
				break
			}
			if derr != nil {
				res.Mis = append(res.Mis, mismatch{Class: "error", Step: k, After: s.A, Msg: fmt.Sprintf("%+v", derr)})
				break
			}
			n := len(res.Mis)
			p.check(&s.St, k, s.A, &res.Mis)
			if len(res.Mis) > n && res.Mis[n].Class == "stored" {
				break
			}
		}
		res.Calls = p.calls
	}
	return res
}

func run(args []string) error {
	if len(args) < 1 || args[0] != "replay" {
		return fmt.Errorf("usage: C23 replay --in cases.ndjson --out res.ndjson [--variants N]")
	}
	fl := h.Flags(args[1:])
	seed, _ := strconv.ParseInt(os.Getenv("VERIF_SEED"), 10, 64)
	nvar := 4
	if v, err := strconv.Atoi(fl["variants"]); err == nil && v > 0 {
		nvar = v
	}
	w, err := newWorld()
	if err != nil {
		return err
	}
	var cases []*caseT
	if err := h.ReadNDJSON(fl["in"], func(line []byte) error {
		c := &caseT{}
		if err := json.Unmarshal(line, c); err != nil {
			return err
		}
		cases = append(cases, c)
		return nil
	}); err != nil {
		return err
	}
	results := make([]resT, len(cases))
	var wg sync.WaitGroup
	nw := 8
	ch := make(chan int)
	for k := 0; k < nw; k++ {
		wg.Add(1)
		go func() {
			defer wg.Done()
			for i := range ch {
				// per-case generator: the result does not depend on which worker takes the case
				rng := rand.New(rand.NewSource(seed*1000003 + int64(i)))
				results[i] = w.runCase(cases[i], rng, nvar)
			}
		}()
	}
	for i := range cases {
		ch <- i
	}
	close(ch)
	wg.Wait()
	out, err := h.NewOut(fl["out"])
	if err != nil {
		return err
	}
	for i := range results {
		out.Emit(results[i])
	}
	return out.Close()
}
