// Package c22 runs input sequences produced by spec/PoolOps.tla (SetOperation /
// OperationHashes with limits and filters) on a real isaacdatabase.TempPool and records
// what the real calls returned (binding B with inputs from A; validated by
// spec/PoolOpsTrace.tla). Model operation "A.2" = the real expel fact standing for "A",
// really signed (NodeSign) by node 2: same fact, other signer => other operation hash.
//
// Step kinds: "Set", "Call" (one caller, the call runs to its end), and for overlapping
// calls "Begin" c / "End" c (forced.go): caller c's OperationHashes runs in its own
// goroutine and is parked inside the filter callback the harness hands to the pool -
// no hook in the repository is needed - until the schedule says End. "Set2" = two
// overlapping SetOperation calls of one operation, both parked between the pool's check
// and its write inside the encoder the harness hands to the pool. A behaviour with
// mode "free" runs the same steps without any forcing (one goroutine per caller, one
// for the stores).
package c22

import (
	"context"
	"encoding/json"
	"fmt"
	"strconv"
	"strings"
	"sync"
	"time"

	"github.com/spikeekips/mitum/base"
	"github.com/spikeekips/mitum/isaac"
	isaacdatabase "github.com/spikeekips/mitum/isaac/database"
	leveldbstorage "github.com/spikeekips/mitum/storage/leveldb"
	"github.com/spikeekips/mitum/util"
	"github.com/spikeekips/mitum/util/encoder"
	jsonenc "github.com/spikeekips/mitum/util/encoder/json"

	"mitumverif/internal/h"
)

func init() { h.Register("C22", run) }

type stepT struct {
	A   string   `json:"a"`
	Op  string   `json:"op,omitempty"`
	L   uint64   `json:"l,omitempty"`
	Rej []string `json:"rej,omitempty"`
	C   int      `json:"c,omitempty"`
	W   int      `json:"w,omitempty"` // Set2: 0 = the store that checked first writes first, 1 = writes last
}

type behT struct {
	I     int     `json:"i"`
	Steps []stepT `json:"steps"`
	Park  string  `json:"park,omitempty"` // forced calls park at their "first" (default) or "last" callback
	Mode  string  `json:"mode,omitempty"` // "" = the controller performs the steps in order; "free" = unforced race
}

type mop struct {
	F string `json:"f"`
	S int    `json:"s"`
}

func parseOp(id string) mop {
	k := strings.LastIndex(id, ".")
	s, _ := strconv.Atoi(id[k+1:])
	return mop{F: id[:k], S: s}
}

type world struct {
	enc   *jsonenc.Encoder
	encs  *encoder.Encoders
	netID base.NetworkID
	mu    sync.Mutex
	nodes map[int]base.LocalNode
	ops   map[string]base.Operation // model id -> real operation
	byH   map[string]string         // operation hash -> model id
	facts map[string]string         // fact hash -> model fact
}

func newWorld() (*world, error) {
	enc := jsonenc.NewEncoder()
	encs := encoder.NewEncoders(enc, enc)
	for _, d := range []encoder.DecodeDetail{
		{Hint: base.MPublickeyHint, Instance: &base.MPublickey{}},
		{Hint: base.StringAddressHint, Instance: base.StringAddress{}},
		{Hint: isaac.SuffrageExpelOperationHint, Instance: isaac.SuffrageExpelOperation{}},
		{Hint: isaac.SuffrageExpelFactHint, Instance: isaac.SuffrageExpelFact{}},
	} {
		if err := enc.Add(d); err != nil {
			return nil, err
		}
	}
	return &world{enc: enc, encs: encs, netID: base.NetworkID("verif-c22"),
		nodes: map[int]base.LocalNode{}, ops: map[string]base.Operation{}, byH: map[string]string{}, facts: map[string]string{}}, nil
}

func (w *world) op(id string) base.Operation {
	w.mu.Lock()
	defer w.mu.Unlock()
	if o, ok := w.ops[id]; ok {
		return o
	}
	m := parseOp(id)
	n, ok := w.nodes[m.S]
	if !ok {
		n = base.NewBaseLocalNode(base.DummyNodeHint, base.NewMPrivatekey(), base.NewStringAddress(fmt.Sprintf("signer%d", m.S)))
		w.nodes[m.S] = n
	}
	fact := isaac.NewSuffrageExpelFact(base.NewStringAddress("target-"+m.F), base.Height(1), base.Height(1000), "verif "+m.F)
	o := isaac.NewSuffrageExpelOperation(fact)
	if err := o.NodeSign(n.Privatekey(), w.netID, n.Address()); err != nil {
		panic(err)
	}
	if err := o.IsValid(w.netID); err != nil {
		panic(fmt.Sprintf("generated operation %s not valid: %+v", id, err))
	}
	w.ops[id] = o
	w.byH[o.Hash().String()] = id
	w.facts[o.Fact().Hash().String()] = m.F
	return o
}

func (w *world) model(hh util.Hash) (mop, bool) {
	w.mu.Lock()
	defer w.mu.Unlock()
	id, ok := w.byH[hh.String()]
	if !ok {
		return mop{F: "?" + hh.String(), S: 0}, false
	}
	return parseOp(id), true
}

type event map[string]interface{}

func mops(ids []string) []mop {
	o := make([]mop, len(ids))
	for i := range ids {
		o[i] = parseOp(ids[i])
	}
	return o
}

// waitTick makes sure the next insertion gets a later timestamp: the ordered key of the
// pool is (UnixNano at insertion, operation hash).
func waitTick() {
	t := time.Now().UnixNano()
	for time.Now().UnixNano() < t+2000 {
	}
}

func (w *world) runBeh(b *behT) []event {
	evs := []event{{"a": "Reset", "i": b.I}}
	raw := leveldbstorage.NewMemStorage()
	pe := &parkEnc{Encoder: w.enc, gates: map[string]*setGate{}}
	db, err := isaacdatabase.NewTempPool(raw, w.encs, pe, 0)
	if err != nil {
		panic(err)
	}
	fc := &forcer{w: w, db: db, pe: pe, calls: map[int]*inflight{}}
	defer func() { fc.abandon(); _ = db.Close(); _ = raw.Close() }()
	if b.Mode == "free" {
		return append(evs, w.runFree(db, b)...)
	}
	ctx := context.Background()
	for _, s := range b.Steps {
		switch s.A {
		case "Set":
			o := w.op(s.Op)
			var ret bool
			var err error
			pn := h.Catch(func() { ret, err = db.SetOperation(ctx, o) })
			ev := event{"a": "Set", "op": parseOp(s.Op), "ret": ret, "panic": pn != "", "err": err != nil}
			if pn != "" || err != nil {
				ev["msg"] = firstLine(pn, err)
			}
			evs = append(evs, ev)
			if pn != "" || err != nil {
				return evs
			}
			waitTick()
		case "Set2":
			stop := false
			evs, stop = fc.set2(evs, s)
			if stop {
				return evs
			}
			waitTick()
		case "Call":
			index := w.index(db)
			ev := w.call(db, s.L, s.Rej, nil)
			ev["a"] = "Call"
			ev["index"] = index
			evs = append(evs, ev)
			if ev["panic"].(bool) || ev["err"].(bool) {
				return evs // a panic violates everything; the behaviour ends here
			}
		case "Begin":
			if _, busy := fc.calls[s.C]; busy {
				panic(fmt.Sprintf("behaviour %d: caller %d begins a call while it is in one", b.I, s.C))
			}
			stop := false
			evs, stop = fc.begin(evs, s, b.Park)
			if stop {
				return evs
			}
		case "End":
			stop := false
			evs, stop = fc.end(evs, s.C)
			if stop {
				return evs
			}
		}
	}
	// a walk cut by the depth bound may leave calls in flight: let them return, in caller order
	for len(fc.calls) > 0 {
		stop := false
		evs, stop = fc.end(evs, fc.lowest())
		if stop {
			return evs
		}
	}
	return evs
}

// index: the ordered index as the pool's own traversal shows it (not judged; for diagnosis
// and for the "last" park position)
func (w *world) index(db *isaacdatabase.TempPool) []mop {
	index := []mop{}
	_ = db.TraverseOperationsBytes(context.Background(), nil, func(_ string, meta isaacdatabase.FrameHeaderPoolOperation, _, _ []byte) (bool, error) {
		m, _ := w.model(meta.Operation())
		index = append(index, m)
		return true, nil
	})
	return index
}

// call performs one OperationHashes(limit l, filter rejecting rej) and describes what it
// returned. at, if not nil, is called inside every filter callback (before the verdict of
// the filter) with the number of the callback and the record's operation: the place where
// a forced schedule parks the caller.
func (w *world) call(db *isaacdatabase.TempPool, l uint64, rejids []string, at func(n int, m mop)) event {
	ctx := context.Background()
	rej := map[string]bool{}
	for _, id := range rejids {
		rej[w.op(id).Hash().String()] = true
	}
	rejected := []mop{}
	examined := 0
	metaBad := false
	filter := func(meta isaac.PoolOperationRecordMeta) (bool, error) {
		examined++
		m, ok := w.model(meta.Operation())
		if ok {
			// the record header must name the operation's own fact
			w.mu.Lock()
			f := w.facts[meta.Fact().String()]
			w.mu.Unlock()
			if f != m.F {
				metaBad = true
			}
		}
		if at != nil {
			at(examined, m)
		}
		if rej[meta.Operation().String()] {
			rejected = append(rejected, m)
			return false, nil
		}
		return true, nil
	}
	var got [][2]util.Hash
	var err error
	pn := h.Catch(func() { got, err = db.OperationHashes(ctx, base.Height(33), l, filter) })
	ret := []mop{}
	unstored := []mop{}
	for i := range got {
		m, _ := w.model(got[i][0])
		w.mu.Lock()
		f := ""
		if got[i][1] != nil {
			f = w.facts[got[i][1].String()]
		}
		w.mu.Unlock()
		if got[i][1] == nil || f != m.F {
			m = mop{F: "?fact-of-" + m.F, S: m.S} // entry pairs the operation with another fact
		}
		ret = append(ret, m)
		// every entry is stored in the pool: the operation can be read back
		op, found, oerr := db.Operation(ctx, got[i][0])
		if oerr != nil || !found || op == nil || !op.Hash().Equal(got[i][0]) {
			unstored = append(unstored, m)
		}
	}
	ev := event{"l": l, "rej": mops(rejids), "rejected": rejected, "examined": examined,
		"ret": ret, "unstored": unstored, "panic": pn != "", "err": err != nil, "metabad": metaBad}
	if pn != "" || err != nil {
		ev["msg"] = firstLine(pn, err)
	}
	return ev
}

func firstLine(pn string, err error) string {
	s := pn
	if s == "" && err != nil {
		s = err.Error()
	}
	if k := strings.Index(s, "\n"); k >= 0 {
		s = s[:k]
	}
	return s
}

func run(args []string) error {
	if len(args) < 1 || args[0] != "run" {
		return fmt.Errorf("usage: C22 run --in behaviours.ndjson --out trace.ndjson")
	}
	fl := h.Flags(args[1:])
	w, err := newWorld()
	if err != nil {
		return err
	}
	var behs []*behT
	if err := h.ReadNDJSON(fl["in"], func(line []byte) error {
		b := &behT{}
		if err := json.Unmarshal(line, b); err != nil {
			return err
		}
		behs = append(behs, b)
		return nil
	}); err != nil {
		return err
	}
	results := make([][]event, len(behs))
	var wg sync.WaitGroup
	ch := make(chan int)
	for k := 0; k < 8; k++ {
		wg.Add(1)
		go func() {
			defer wg.Done()
			for i := range ch {
				results[i] = w.runBeh(behs[i])
			}
		}()
	}
	for i := range behs {
		ch <- i
	}
	close(ch)
	wg.Wait()
	out, err := h.NewOut(fl["out"])
	if err != nil {
		return err
	}
	for i := range results {
		for _, ev := range results[i] {
			out.Emit(ev)
		}
	}
	return out.Close()
}
